/-
  Proofs/TreeRun.lean — admissible histories keep the invariant (C08 `inv_reachable`).
-/
import SqlglotModel.Proofs.TreeCopy

namespace SqlglotModel.Tree

variable {H : Type}

/-! ### admissible operations (the API precondition: an inserted value is not attached anywhere) -/

def Adm (h : Heap H) : Op → Prop
  | .new id _ _ => Fresh h id
  | .set _ _ v _ _ => ValueOk h v
  | .append _ _ it => ItemOk h it
  | .replace self v => ValueOk h v ∧ Attached h self
  | .pop self => Attached h self
  | .hash _ => True
  | .eq _ _ => True
  | .copy n base => FreshFrom h base ∧ base > n   -- the copy goes into unused cells `base, base+1, …`

/-- every operation of an admissible history is admissible in the state it is applied to -/
def AdmRun [DecidableEq H] (F : HashFns H) (fuel : Nat) : Heap H → List Op → Prop
  | _, [] => True
  | h, op :: ops => Adm h op ∧ ∀ h', step F fuel h op = some h' → AdmRun F fuel h' ops

theorem inv_step [DecidableEq H] (F : HashFns H) {fuel : Nat} {h h' : Heap H} {op : Op} (hI : Inv F h)
    (ha : Adm h op) (he : step F fuel h op = some h') : Inv F h' := by
  cases op with
  | new id cls raw => simp only [step, Option.some.injEq] at he; subst he; exact inv_opNew F hI ha
  | set self k v idx ow => exact inv_opSet F hI ha he
  | append self k it => exact inv_opAppend F hI ha he
  | replace self v => exact inv_opReplace F hI ha.1 ha.2 he
  | pop self => exact inv_opPop F hI ha he
  | hash n => exact (inv_fill F hI he).1
  | eq a b =>
    simp only [step, Option.map_eq_some_iff] at he
    obtain ⟨⟨h1, r⟩, he1, he2⟩ := he
    simp only at he2; subst he2
    exact (inv_opEq F hI he1).1
  | copy n base =>
    simp only [step, Option.map_eq_some_iff] at he
    obtain ⟨⟨h1, nx, c⟩, he1, he2⟩ := he
    simp only at he2; subst he2
    exact (deepcopy_spec hI ha.1 ha.2 he1).1

theorem inv_run [DecidableEq H] (F : HashFns H) {fuel : Nat} : ∀ (ops : List Op) {h h' : Heap H}, Inv F h →
    AdmRun F fuel h ops → run F fuel h ops = some h' → Inv F h'
  | [], h, h', hI, _, he => by simp only [run, Option.some.injEq] at he; subst he; exact hI
  | op :: ops, h, h', hI, ha, he => by
    simp only [run] at he
    split at he
    · next h1 h1e => exact inv_run F ops (inv_step F hI ha.1 h1e) (ha.2 h1 h1e) he
    · cases he

end SqlglotModel.Tree
