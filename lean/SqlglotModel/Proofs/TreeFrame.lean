/-
  Proofs/TreeFrame.lean — footprints (C09): which heap cells an operation may write.
-/
import SqlglotModel.Proofs.Tree

namespace SqlglotModel.Tree

variable {H : Type}

/-- `h'` agrees with `h` outside the set `S` -/
def Same (S : Id → Prop) (h h' : Heap H) : Prop := ∀ m, ¬ S m → h' m = h m

theorem Same.refl (S : Id → Prop) (h : Heap H) : Same S h h := fun _ _ => rfl

theorem Same.trans {S : Id → Prop} {h1 h2 h3 : Heap H} (a : Same S h1 h2) (b : Same S h2 h3) : Same S h1 h3 :=
  fun m hm => (b m hm).trans (a m hm)

theorem Same.mono {S T : Id → Prop} {h h' : Heap H} (a : Same S h h') (hst : ∀ m, S m → T m) : Same T h h' :=
  fun m hm => a m (fun hs => hm (hst m hs))

theorem same_upd {S : Id → Prop} (h : Heap H) {i : Id} (f : Node H → Node H) (hi : S i) : Same S h (upd h i f) := by
  intro m hm
  have : m ≠ i := fun e => hm (e ▸ hi)
  exact upd_other h f this

theorem same_setPtr {S : Id → Prop} (h : Heap H) {c : Id} (p k i) (hc : S c) : Same S h (setPtr h c p k i) :=
  same_upd h _ hc

theorem same_spi {S : Id → Prop} (self : Id) (k : String) : ∀ (L : List Item) (o : Nat) (h : Heap H),
    (∀ c, Item.node c ∈ L → S c) → Same S h (setParentItems self k o L h) := by
  intro L o h hL m hm
  exact spi_other self k L o h m (fun hx => hm (hL m hx))

theorem same_decr {S : Id → Prop} {L : List Item} {h h' : Heap H} (he : decrIdx h L = some h')
    (hL : ∀ c, Item.node c ∈ L → S c) : Same S h h' := by
  intro m hm
  exact decr_other L h h' he m (fun hx => hm (hL m hx))

/-! ### the invalidation loop writes only along the parent chain -/

inductive OnChain (h : Heap H) : Option Id → Id → Prop where
  | here (n : Id) : OnChain h (some n) n
  | up (n m : Id) : OnChain h (h n).parent m → OnChain h (some n) m

theorem onChain_hashOnly {h h' : Heap H} (ho : HashOnly h h') {cur : Option Id} {m : Id}
    (hc : OnChain h' cur m) : OnChain h cur m := by
  induction hc with
  | here n => exact .here n
  | up n m _ ih =>
    have := (ho n).2.2.2
    simp only [ptrs, Prod.mk.injEq] at this
    rw [this.1] at ih
    exact .up n m ih

theorem inval_frame : ∀ (fuel : Nat) (h : Heap H) (cur : Option Id) (h' : Heap H),
    inval fuel h cur = some h' → Same (OnChain h cur) h h'
  | _, h, none, h', he => by simp only [inval, Option.some.injEq] at he; subst he; exact Same.refl _ _
  | 0, h, some n, h', he => by simp [inval] at he
  | f + 1, h, some n, h', he => by
    simp only [inval] at he
    split at he
    · simp only [Option.some.injEq] at he; subst he; exact Same.refl _ _
    · have ih := inval_frame f (setHash h n none) (h n).parent h' he
      have ho := hashOnly_setHash h n (none : Option H)
      have s1 : Same (OnChain h (some n)) h (setHash h n none) := same_upd h _ (.here n)
      refine s1.trans (ih.mono ?_)
      intro m hm
      exact .up n m (onChain_hashOnly ho (by simpa using hm))

/-! ### `set` writes `self`, the value's nodes and the old occupants of the slot -/

def SetFoot (h : Heap H) (self : Id) (k : String) (v : Value) (m : Id) : Prop :=
  m = self ∨ Item.node m ∈ itemOfValue v ∨ ∃ j, Stored h self k j m

theorem setCore_frame {h h2 : Heap H} {self : Id} {k : String} {v : Value} {idx : Option Nat} {ow : Bool}
    (he : setCore h self k v idx ow = some h2) : Same (SetFoot h self k v) h h2 := by
  have hself : SetFoot h self k v self := .inl rfl
  unfold setCore at he
  cases idx with
  | none =>
    simp only at he
    cases v with
    | none => simp only [Option.some.injEq] at he; subst he; exact same_upd h _ hself
    | leaf s => simp only [Option.some.injEq] at he; subst he; exact same_upd h _ hself
    | node c =>
      simp only [Option.some.injEq] at he; subst he
      exact (same_upd h _ hself).trans (same_upd _ _ (.inr (.inl (by simp [itemOfValue]))))
    | list items =>
      simp only [Option.some.injEq] at he; subst he
      exact (same_upd h _ hself).trans (same_spi self k items 0 _ (fun c hc => .inr (.inl hc)))
  | some i =>
    simp only at he
    split at he
    · simp only [Option.some.injEq] at he; subst he; exact Same.refl _ _
    · next items hg =>
      have old : ∀ c, Item.node c ∈ items → SetFoot h self k v c :=
        fun c hc => .inr (.inr (stored_of_mem_items hg hc))
      split at he
      · simp only [Option.some.injEq] at he; subst he; exact Same.refl _ _
      · simp only [Option.some.injEq] at he; subst he; exact Same.refl _ _
      · have general : ∀ l, (∀ c, Item.node c ∈ l → SetFoot h self k v c) →
            Same (SetFoot h self k v) h
              (setParentItems self k 0 l (setArgs h self (setKey k (.many l) (h self).args))) :=
          fun l hl => (same_upd h _ hself).trans (same_spi self k l 0 _ hl)
        have spl : ∀ c, Item.node c ∈ spliced items i v ow → SetFoot h self k v c := by
          intro c hc
          obtain ⟨j, _, hsp⟩ := spliced_eq items i v ow
          rw [hsp] at hc
          rcases List.mem_append.mp hc with hc | hc
          · rcases List.mem_append.mp hc with hc | hc
            · exact old c (List.mem_of_mem_take hc)
            · exact .inr (.inl hc)
          · exact old c (List.mem_of_mem_drop hc)
        cases v with
        | none =>
          simp only at he
          split at he
          · next h' hdec =>
            simp only [Option.some.injEq] at he; subst he
            exact (same_decr hdec (fun c hc => old c (List.mem_of_mem_drop hc))).trans (same_upd _ _ hself)
          · cases he
        | leaf s => simp only [Option.some.injEq] at he; subst he; exact general _ spl
        | node c => simp only [Option.some.injEq] at he; subst he; exact general _ spl
        | list vs => simp only [Option.some.injEq] at he; subst he; exact general _ spl
    · rw [setOnScalar_eq he]; exact Same.refl _ _
    · cases he

theorem inval_hashOnly : ∀ (fuel : Nat) (h : Heap H) (cur : Option Id) (h' : Heap H),
    inval fuel h cur = some h' → HashOnly h h'
  | _, h, none, h', he => by simp only [inval, Option.some.injEq] at he; subst he; exact HashOnly.refl _
  | 0, h, some n, h', he => by simp [inval] at he
  | f + 1, h, some n, h', he => by
    simp only [inval] at he
    split at he
    · simp only [Option.some.injEq] at he; subst he; exact HashOnly.refl _
    · exact (hashOnly_setHash h n none).trans (inval_hashOnly f _ _ h' he)

theorem setFoot_hashOnly {h h1 : Heap H} (ho : HashOnly h h1) {self : Id} {k : String} {v : Value} {m : Id}
    (hf : SetFoot h1 self k v m) : SetFoot h self k v m := by
  rcases hf with e | e | ⟨j, hs⟩
  · exact .inl e
  · exact .inr (.inl e)
  · exact .inr (.inr ⟨j, (stored_hashOnly ho).mp hs⟩)

/-- `self.set(…)` writes only: the `_hash` of `self` and of nodes on its parent chain, `self.args`, and the pointer
    fields of the inserted nodes and of the old occupants of the slot -/
theorem opSet_frame {fuel : Nat} {h h2 : Heap H} {self : Id} {k : String} {v : Value} {idx : Option Nat}
    {ow : Bool} (he : opSet fuel h self k v idx ow = some h2) :
    Same (fun m => OnChain h (some self) m ∨ SetFoot h self k v m) h h2 := by
  unfold opSet at he
  split at he
  · next h1 hinv =>
    have f1 := inval_frame fuel h (some self) h1 hinv
    have f2 := setCore_frame he
    have ho := inval_hashOnly fuel h (some self) h1 hinv
    exact (f1.mono (fun m hm => .inl hm)).trans (f2.mono (fun m hm => .inr (setFoot_hashOnly ho hm)))
  · cases he

theorem opAppend_frame {fuel : Nat} {h h2 : Heap H} {self : Id} {k : String} {it : Item}
    (he : opAppend fuel h self k it = some h2) :
    Same (fun m => OnChain h (some self) m ∨ it = .node m) h h2 := by
  unfold opAppend at he
  split at he
  · next h1 hinv =>
    simp only [Option.some.injEq] at he; subst he
    have f1 := inval_frame fuel h (some self) h1 hinv
    refine (f1.mono (fun m hm => .inl hm)).trans ?_
    rw [appendCore_eq]; unfold appendCoreSpec
    cases it with
    | leaf s => exact same_upd _ _ (Or.inl (OnChain.here self))
    | node c => exact (same_upd _ _ (Or.inl (OnChain.here self))).trans (same_upd _ _ (Or.inr rfl))
  · cases he

/-- `replace` / `pop` write only: what `parent.set(…)` writes, and the pointer fields of `self` -/
theorem opReplace_frame {fuel : Nat} {h h2 : Heap H} {self : Id} {v : Value}
    (he : opReplace fuel h self v = some h2) :
    Same (fun m => OnChain h (some self) m ∨
      ∃ p k, (h self).parent = some p ∧ (h self).argKey = some k ∧ SetFoot h p k v m) h h2 := by
  unfold opReplace at he
  split at he
  · simp only [Option.some.injEq] at he; subst he; exact Same.refl _ _
  · next p hp =>
    split at he
    · simp only [Option.some.injEq] at he; subst he; exact Same.refl _ _
    · split at he
      · simp only [Option.some.injEq] at he; subst he
        split
        · exact Same.refl _ _
        · exact same_setPtr _ _ _ _ (Or.inl (OnChain.here self))
      · next k hk =>
        split at he
        · cases he
        · split at he
          · next h' hset =>
            simp only [Option.some.injEq] at he; subst he
            have f := opSet_frame hset
            have f' : Same (fun m => OnChain h (some self) m ∨
                ∃ p k, (h self).parent = some p ∧ (h self).argKey = some k ∧ SetFoot h p k v m) h h' := by
              apply f.mono
              intro m hm
              rcases hm with hm | hm
              · exact .inl (.up self m (by rw [hp]; exact hm))
              · exact .inr ⟨p, k, hp, hk, hm⟩
            split
            · exact f'
            · exact f'.trans (same_setPtr _ _ _ _ (Or.inl (OnChain.here self)))
          · cases he

/-! ### regions: a set of nodes closed under parent pointers and children is never left by an edit -/

/-- `R` contains the parent chain of each of its nodes -/
def UpClosed (h : Heap H) (R : Id → Prop) : Prop := ∀ n p, R n → (h n).parent = some p → R p

theorem onChain_in_region {h : Heap H} {R : Id → Prop} (hu : UpClosed h R) {cur : Option Id} {m : Id}
    (hc : OnChain h cur m) : (∀ n, cur = some n → R n) → R m := by
  induction hc with
  | here n => intro hn; exact hn n rfl
  | up n m _ ih =>
    intro hn
    apply ih
    intro p hp
    exact hu n p (hn n rfl) hp

/-- a region: closed under parent pointers and under stored children -/
structure Region (h : Heap H) (R : Id → Prop) : Prop where
  up : UpClosed h R
  down : ∀ p k j c, R p → Stored h p k j c → R c

/-! ### `hash` / `==` write only `_hash` fields: `inv_fill`, `inv_opEq` give `HashOnly` -/

/-! ### edits made inside a region stay inside it, and keep it a region -/

theorem opSet_region_frame {fuel : Nat} {h h' : Heap H} {R : Id → Prop} (hR : Region h R) {self : Id} {k : String}
    {v : Value} {idx : Option Nat} {ow : Bool} (hs : R self) (hv : ∀ c, Item.node c ∈ itemOfValue v → R c)
    (he : opSet fuel h self k v idx ow = some h') : ∀ m, ¬ R m → h' m = h m := by
  intro m hm
  apply opSet_frame he m
  rintro (hc | hf)
  · exact hm (onChain_in_region hR.up hc (fun n hn => by cases hn; exact hs))
  · rcases hf with e | e | ⟨j, hst⟩
    · exact hm (e ▸ hs)
    · exact hm (hv m e)
    · exact hm (hR.down _ _ _ _ hs hst)

theorem spi_parent (self : Id) (k : String) : ∀ (L : List Item) (o : Nat) (h : Heap H) (m : Id),
    (setParentItems self k o L h m).parent = (h m).parent ∨ (setParentItems self k o L h m).parent = some self
  | [], _, _, _ => .inl rfl
  | .leaf _ :: r, o, h, m => by simp only [setParentItems]; exact spi_parent self k r (o + 1) h m
  | .node c :: r, o, h, m => by
    simp only [setParentItems]
    rcases spi_parent self k r (o + 1) (setPtr h c (some self) (some k) (some o)) m with e | e
    · by_cases hmc : m = c
      · subst hmc; right; rw [e]; simp [setPtr]
      · left; rw [e, setPtr_other _ _ _ _ hmc]
    · exact .inr e

theorem setCore_parent {h h2 : Heap H} {self : Id} {k : String} {v : Value} {idx : Option Nat} {ow : Bool}
    (he : setCore h self k v idx ow = some h2) (m : Id) :
    (h2 m).parent = (h m).parent ∨ (h2 m).parent = some self := by
  unfold setCore at he
  cases idx with
  | none =>
    simp only at he
    cases v with
    | none => simp only [Option.some.injEq] at he; subst he; left; simp
    | leaf s => simp only [Option.some.injEq] at he; subst he; left; simp
    | node c =>
      simp only [Option.some.injEq] at he; subst he
      by_cases hmc : m = c
      · subst hmc; right; simp [setPtr]
      · left; rw [setPtr_other _ _ _ _ hmc]; simp
    | list items =>
      simp only [Option.some.injEq] at he; subst he
      rcases spi_parent self k items 0 (setArgs h self (setKey k (.many items) (h self).args)) m with e | e
      · left; rw [e]; simp
      · exact .inr e
  | some i =>
    simp only at he
    split at he
    · simp only [Option.some.injEq] at he; subst he; exact .inl rfl
    · split at he
      · simp only [Option.some.injEq] at he; subst he; exact .inl rfl
      · simp only [Option.some.injEq] at he; subst he; exact .inl rfl
      · have general : ∀ l, (setParentItems self k 0 l (setArgs h self (setKey k (.many l) (h self).args)) m).parent =
            (h m).parent ∨ (setParentItems self k 0 l (setArgs h self (setKey k (.many l) (h self).args)) m).parent =
            some self := by
          intro l
          rcases spi_parent self k l 0 (setArgs h self (setKey k (.many l) (h self).args)) m with e | e
          · left; rw [e]; simp
          · exact .inr e
        cases v with
        | none =>
          simp only at he
          split at he
          · next h' hdec =>
            simp only [Option.some.injEq] at he; subst he
            left; simp [(decr_fields _ _ _ hdec m).2.2.2.2.1]
          · cases he
        | leaf s => simp only [Option.some.injEq] at he; subst he; exact general _
        | node c => simp only [Option.some.injEq] at he; subst he; exact general _
        | list vs => simp only [Option.some.injEq] at he; subst he; exact general _
    · rw [setOnScalar_eq he]; exact .inl rfl
    · cases he

/-- `self.set(k, v, index)` with `self` and the inserted nodes inside a region keeps it a region (and a dict a dict) -/
theorem region_opSet {fuel : Nat} {h h2 : Heap H} {R : Id → Prop} (hR : Region h R) (hk : Keys h) {self : Id}
    {k : String} {v : Value} {idx : Option Nat} (hs : R self) (hv : ∀ c, Item.node c ∈ itemOfValue v → R c)
    (he : opSet fuel h self k v idx true = some h2) : Region h2 R ∧ Keys h2 := by
  unfold opSet at he
  split at he
  · next h1 hinv =>
    have ho := inval_hashOnly fuel h (some self) h1 hinv
    have hk1 := keys_hashOnly ho hk
    have hpar : ∀ m, (h1 m).parent = (h m).parent := by
      intro m
      have := (ho m).2.2.2
      simp only [ptrs, Prod.mk.injEq] at this
      exact this.1
    refine ⟨⟨?_, ?_⟩, ?_⟩
    · intro n' p hn hp
      rcases setCore_parent he n' with e | e
      · rw [e, hpar] at hp; exact hR.up n' p hn hp
      · rw [e] at hp; cases hp; exact hs
    · intro p k' j m hp hst
      rcases setCore_shape hk1 he with ⟨e, _⟩ | ⟨new, hed, hnew⟩
      · rw [e] at hst
        exact hR.down p k' j m hp ((stored_hashOnly ho).mp hst)
      · rcases stored_edit hed hst with ⟨e1, _, a, hn, ha⟩ | ⟨_, hs0⟩
        · rcases hnew a j m hn ha with hin | ⟨i, j', _, _, hsj⟩
          · exact hv m hin
          · exact hR.down self k (some j') m hs ((stored_hashOnly ho).mp hsj)
        · exact hR.down p k' j m hp ((stored_hashOnly ho).mp hs0)
    · rcases setCore_shape hk1 he with ⟨e, _⟩ | ⟨new, hed, _⟩
      · rw [e]; exact hk1
      · exact keys_edit hed hk1
  · cases he

end SqlglotModel.Tree
