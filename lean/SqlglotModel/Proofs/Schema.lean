/- Helper lemmas for C18 (cache coherence of the MappingSchema model). -/
import SqlglotModel.Model.Schema

namespace SqlglotModel.Schema
open SqlglotModel.Ident

/-- the invariant: the trie holds exactly the mapping's paths and every cache entry equals the uncached answer -/
structure Inv (E : Env) (S : St) : Prop where
  trie_eq : S.trie = S.mapping.map (fun p => p.1.reverse)
  coherent : ∀ k v, lookup S.cache k = some v →
    ∃ v', v = convCols E k.2 v' ∧ ∀ raise, findUncached S k.1 raise = .found v'

theorem findInTrie_parts_raise {trie parts r ps} (h : findInTrie trie parts r = .parts ps) (r' : Bool) :
    findInTrie trie parts r' = .parts ps := by
  unfold findInTrie at *
  cases hT : inTrie trie parts with
  | failed => simp [hT] at h
  | exists_ => simpa [hT] using h
  | prefix_ l =>
    rw [hT] at h
    match l, h with
    | [p], h => simpa using h
    | [], h => cases r <;> simp at h
    | _ :: _ :: _, h => cases r <;> simp at h

theorem findU_found_raise {m tr t r v} (h : findU m tr t r = .found v) (r' : Bool) :
    findU m tr t r' = .found v := by
  unfold findU at *
  simp only at h ⊢
  generalize hp : (List.take _ (List.map (fun x => x.name) t).reverse) = parts at h ⊢
  cases hF : findInTrie tr parts r with
  | none => simp [hF] at h
  | ambiguous => simp [hF] at h
  | parts ps =>
    rw [hF] at h
    rw [findInTrie_parts_raise hF r']
    cases hL : lookup m ps.reverse with
    | some cols => simpa [hL] using h
    | none => cases r <;> simp [hL] at h

/-- the answer of `find(ensure_data_types=e)` computed without any cache -/
def convR (E : Env) (e : Bool) : FindR → FindR
  | .found c => .found (convCols E e c)
  | r => r

theorem find_snd (E : Env) (S : St) (hS : Inv E S) (t : List Ident) (r e : Bool) :
    (find E S t r e).2 = convR E e (findUncached S t r) := by
  unfold find
  cases hc : lookup S.cache (t, e) with
  | some cols =>
    obtain ⟨v', hv, hf⟩ := hS.coherent (t, e) cols hc
    simp [hf r, convR, hv]
  | none =>
    cases hf : findUncached S t r <;> simp [convR]

theorem find_mapping (E : Env) (S : St) (t : List Ident) (r e : Bool) :
    (find E S t r e).1.mapping = S.mapping ∧ (find E S t r e).1.trie = S.trie := by
  unfold find
  cases hc : lookup S.cache (t, e) with
  | some cols => simp
  | none => cases hf : findUncached S t r <;> simp

theorem find_inv (E : Env) (S : St) (hS : Inv E S) (t : List Ident) (r e : Bool) : Inv E (find E S t r e).1 := by
  unfold find
  cases hc : lookup S.cache (t, e) with
  | some cols => simpa using hS
  | none =>
    cases hf : findUncached S t r with
    | notFound => simpa using hS
    | err x => simpa using hS
    | found cols =>
      refine ⟨hS.trie_eq, ?_⟩
      intro k v hk
      simp only [lookup] at hk
      by_cases hkk : (t, e) = k
      · simp [hkk] at hk
        subst hk
        refine ⟨cols, by rw [← hkk], ?_⟩
        intro raise
        have : findUncached S t raise = .found cols := findU_found_raise hf raise
        rw [← hkk]
        simpa [findUncached] using this
      · simp [hkk] at hk
        obtain ⟨v', hv, hf'⟩ := hS.coherent k v hk
        exact ⟨v', hv, fun raise => by simpa [findUncached] using hf' raise⟩

theorem fresh_inv (E : Env) (S : St) : Inv E (fresh S) :=
  ⟨rfl, by intro k v h; simp [fresh, lookup] at h⟩

theorem mem_map_fst_dictSet {α β} [DecidableEq α] (l : List (α × β)) (a : α) (b : β) :
    (dictSet l a b).map (·.1) = if a ∈ l.map (·.1) then l.map (·.1) else l.map (·.1) ++ [a] := by
  induction l with
  | nil => simp [dictSet]
  | cons x xs ih =>
    obtain ⟨k, v⟩ := x
    by_cases h : k = a
    · simp [dictSet, h]
    · have h' : ¬ a = k := fun e => h e.symm
      simp only [dictSet, h, if_false, List.map_cons, ih, List.mem_cons, h', false_or]
      split <;> simp

theorem trie_after_set (m : List (Path × Cols)) (path : Path) (c : Cols) :
    (dictSet m path c).map (fun p => p.1.reverse) =
      if (m.map (fun p => p.1.reverse)).contains path.reverse then m.map (fun p => p.1.reverse)
      else m.map (fun p => p.1.reverse) ++ [path.reverse] := by
  have h1 := mem_map_fst_dictSet m path c
  have e : ∀ l : List (Path × Cols), l.map (fun p => p.1.reverse) = (l.map (·.1)).map List.reverse := by
    intro l; simp
  rw [e, e, h1]
  have hmem : (List.map List.reverse (List.map (fun x => x.1) m)).contains path.reverse = true ↔
      path ∈ List.map (fun x => x.1) m := by
    simp
  by_cases hp : path ∈ List.map (fun x => x.1) m
  · rw [if_pos hp, if_pos (hmem.mpr hp)]
  · have : ¬ ((List.map List.reverse (List.map (fun x => x.1) m)).contains path.reverse = true) :=
      fun h => hp (hmem.mp h)
    rw [if_neg hp, if_neg this]; simp

end SqlglotModel.Schema
