/-
  No-skew lemmas for C13: with the three position repairs in the code (`cleanCfg`), no jump of the tokenizer model
  passes over a CR/LF, so the ghost flag `skew` is never raised.  Core Lean only.
-/
import SqlglotModel.Proofs.LexRun

namespace SqlglotModel.Lex

/-! ### characters -/

theorem not_nl_of_char {sql : Sql} {j : Nat} {ch : Ch} (hj : sql[j]? = some ch) (h1 : ch.c ≠ '\n') (h2 : ch.c ≠ '\r') :
    isNL sql j = false := by
  simp only [isNL, isLF, isCR, hj, Bool.or_eq_false_iff, beq_eq_false_iff_ne, ne_eq]
  exact ⟨h1, h2⟩

theorem not_nl_of_not_space {sql : Sql} (hW : WF sql) {j : Nat} {ch : Ch} (hj : sql[j]? = some ch)
    (hs : ch.space = false) : isNL sql j = false := by
  apply not_nl_of_char hj
  · intro h; have := (hW j ch hj).1 (Or.inr (Or.inr (Or.inl h))); rw [hs] at this; cases this
  · intro h; have := (hW j ch hj).1 (Or.inr (Or.inr (Or.inr h))); rw [hs] at this; cases this

theorem digit_not_nl {c : Char} (h : isDigit c = true) : c ≠ '\n' ∧ c ≠ '\r' := by
  constructor <;> intro hc <;> subst hc <;> revert h <;> decide

theorem noNLs_mem {l : List Char} (h : noNLs l = true) : ∀ c ∈ l, c ≠ '\n' ∧ c ≠ '\r' := by
  intro c hc
  have := List.all_eq_true.1 h c hc
  simp only [Bool.and_eq_true, bne_iff_ne, ne_eq] at this
  exact this

/-! ### slices of the input -/

theorem sql_toList_get (sql : Sql) (i : Nat) : sql.toList[i]? = sql[i]? := by
  simp

/-- if the n characters from offset a spell l, then offset a+k carries l[k] -/
theorem slice_get {sql : Sql} {a n : Nat} {l : List Char} (h : slice sql a (a + n) = l) :
    ∀ k, k < l.length → ∃ ch, sql[a + k]? = some ch ∧ l[k]? = some ch.c := by
  intro k hk
  subst h
  have e : a + n - a = n := by omega
  simp only [slice, strOf, e, List.length_map] at hk ⊢
  have hk2 : k < ((List.drop a sql.toList).take n).length := hk
  have hget : ((List.drop a sql.toList).take n)[k]? = some (((List.drop a sql.toList).take n)[k]) :=
    List.getElem?_eq_getElem hk2
  refine ⟨((List.drop a sql.toList).take n)[k], ?_, ?_⟩
  · have h1 : ((List.drop a sql.toList).take n)[k]? = (List.drop a sql.toList)[k]? := by
      rw [List.getElem?_take]
      have : k < n := by
        simp only [List.length_take] at hk2; omega
      simp [this]
    rw [h1, List.getElem?_drop, sql_toList_get] at hget
    exact hget
  · rw [List.getElem?_map, hget]; rfl

theorem hasNL_mono {sql : Sql} {a n m : Nat} (h : hasNL sql a n = false) (hm : m ≤ n) : hasNL sql a m = false :=
  hasNL_of_forall (fun j h1 h2 => hasNL_false h j h1 (by omega))

/-- `_chars(m) == l` with len(l) > 1: the characters after the cursor's character are l[1..], none of them CR/LF -/
theorem chars_region {sql : Sql} {st : St} {l : List Char} {m : Nat} (hl : 1 < l.length) (hn : noNLs l = true)
    (h : (chars sql st m == l) = true) : hasNL sql st.current (l.length - 1) = false := by
  have h := eq_of_beq h
  unfold chars at h
  split at h
  · subst h
    split at hl <;> simp at hl
  · split at h
    · apply hasNL_of_forall
      intro j hj1 hj2
      obtain ⟨ch, hg, hc⟩ := slice_get h (j - (st.current - 1)) (by omega)
      have e : st.current - 1 + (j - (st.current - 1)) = j := by omega
      rw [e] at hg
      have hmem : ch.c ∈ l := List.mem_of_getElem? hc
      have := noNLs_mem hn _ hmem
      exact not_nl_of_char hg this.1 this.2
    · subst h; simp at hl

/-! ### lookups -/

theorem lookupS_mem {s : List Char} {l : List (String × String)} {v : String} (h : lookupS s l = some v) :
    ∃ kv ∈ l, kv.1.toList = s ∧ kv.2 = v := by
  unfold lookupS at h
  split at h
  · rename_i kv hf
    cases h
    exact ⟨kv, List.mem_of_find?_eq_some hf, by simpa using List.find?_some hf, rfl⟩
  · cases h

/-! ### the trie walk only ever reports raw text as long as no whitespace was folded -/

/-- if w contains no blank, its characters are the input's characters from offset cur-1 on, none of them whitespace -/
def RawOK (sql : Sql) (cur : Nat) (w : List Char) : Prop :=
  (∀ c ∈ w, c ≠ ' ') → ∀ k, k < w.length → ∃ ch, sql[cur - 1 + k]? = some ch ∧ ch.space = false ∧ w[k]? = some ch.c

theorem kwLoop_raw {cfg : Cfg} {sql : Sql} (hW : WF sql) {cur : Nat} :
    ∀ (f : Nat) (chars pfx : List Char) (char : Char) (skip ps sg : Bool) (size : Nat) (word : Option (List Char)),
      ((∀ c ∈ chars, c ≠ ' ') → chars.length = size + 1 ∧
          ∀ k, k < chars.length → ∃ ch, sql[cur - 1 + k]? = some ch ∧ ch.space = false ∧ chars[k]? = some ch.c) →
      (ps = true → ' ' ∈ chars) → (∀ w, word = some w → RawOK sql cur w) → 1 ≤ cur →
      ∀ w, (kwLoop cfg sql cur f chars pfx char skip ps sg size word).word = some w → RawOK sql cur w := by
  intro f
  induction f with
  | zero => intro chars pfx char skip ps sg size word _ _ hQ _ w hw; simp only [kwLoop] at hw; exact hQ w hw
  | succ f ih =>
    intro chars pfx char skip ps sg size word hP hps hQ hcur w hw
    simp only [kwLoop] at hw
    cases hstep : kwStep cfg pfx chars char skip word with
    | none => rw [hstep] at hw; simp only at hw; exact hQ w hw
    | some r =>
      rw [hstep] at hw
      simp only at hw
      -- the word after the step is the old word or the current folded text
      have hQ' : ∀ w, r.2 = some w → RawOK sql cur w := by
        intro w hw2
        unfold kwStep at hstep
        split at hstep
        · cases hstep; exact hQ w hw2
        · split at hstep
          · cases hstep
            simp only at hw2
            split at hw2
            · cases hw2
              intro hns k hk
              exact (hP hns).2 k hk
            · exact hQ w hw2
          · cases hstep
      cases hc : sql[cur + size]? with
      | none => rw [hc] at hw; simp only at hw; exact hQ' w hw
      | some ch =>
        rw [hc] at hw
        simp only at hw
        split at hw
        · -- the character is appended (folded to a blank if it is whitespace)
          refine ih _ _ _ _ _ _ _ _ ?_ ?_ hQ' hcur w hw
          · intro hns
            have hns0 : ∀ c ∈ chars, c ≠ ' ' := fun c hc' => hns c (List.mem_append.2 (Or.inl hc'))
            have hlast : (if ch.space = true then ' ' else ch.c) ≠ ' ' :=
              hns _ (List.mem_append.2 (Or.inr (List.mem_singleton.2 rfl)))
            have hsp : ch.space = false := by
              cases h : ch.space
              · rfl
              · simp [h] at hlast
            obtain ⟨p1, p2⟩ := hP hns0
            refine ⟨by simp only [List.length_append, List.length_singleton]; omega, ?_⟩
            intro k hk
            simp only [List.length_append, List.length_singleton] at hk
            by_cases hk2 : k < chars.length
            · obtain ⟨c1, g1, g2, g3⟩ := p2 k hk2
              exact ⟨c1, g1, g2, by rw [List.getElem?_append_left hk2]; exact g3⟩
            · have : k = size + 1 := by omega
              subst this
              have e : cur - 1 + (size + 1) = cur + size := by omega
              rw [e]
              refine ⟨ch, hc, hsp, ?_⟩
              have hl : chars.length ≤ size + 1 := by omega
              rw [List.getElem?_append_right hl]
              have : size + 1 - chars.length = 0 := by omega
              rw [this]; simp [hsp]
          · intro hsp
            apply List.mem_append.2
            right
            simp [hsp]
        · -- consecutive whitespace is skipped: the text already contains a blank
          rename_i hcond
          simp only [Bool.or_eq_true, Bool.not_eq_true', not_or, Bool.not_eq_false] at hcond
          refine ih _ _ _ _ _ _ _ _ ?_ hps hQ' hcur w hw
          intro hns
          exact absurd (hps hcond.2) (fun hmem => hns ' ' hmem rfl)

/-! ### primitive moves that keep `skew` -/

theorem advance_sk {sql : Sql} {st st' : St} {i : Nat} (h : advance sql st i = .ok st')
    (hno : hasNL sql st.current (i - 1) = false) : st'.skew = st.skew := by
  obtain ⟨_, _, he⟩ := advance_ok h
  subst he
  simp [hno]

theorem advance1_sk {sql : Sql} {st st' : St} (h : advance sql st 1 = .ok st') : st'.skew = st.skew :=
  advance_sk h rfl

theorem advanceAlnum_sk {sql : Sql} {st st' : St} (h : advanceAlnum sql st = .ok st') : st'.skew = st.skew := by
  unfold advanceAlnum at h
  cases h1 : advance sql st 1 with
  | ok st1 =>
    rw [h1] at h
    simp only at h
    have hsk := advance1_sk h1
    split at h
    · split at h
      · cases h; exact hsk
      · cases h; exact hsk
    · cases h; exact hsk
  | error c => rw [h1] at h; cases h
  | unsupported w => rw [h1] at h; cases h
  | fuel => rw [h1] at h; cases h

theorem add_sk {cfg : Cfg} {sql : Sql} {st st' : St} {ty : String} {text : Option (List Char)}
    (h : add cfg sql st ty text = .ok st') : st'.skew = st.skew := by
  unfold add at h
  split at h
  · cases h
  · cases h; rfl


/-! ### what `cleanCfg` provides -/

structure Clean (cfg : Cfg) : Prop where
  f1 : cfg.fixLoneCR = true
  f2 : cfg.fixKwJump = true
  f3 : cfg.fixEscJump = true
  quotes : ∀ kv ∈ cfg.quotes, noSp kv.1.toList = true ∧ noNLs kv.2.toList = true
  formats : ∀ f ∈ cfg.formats, noSp f.1.toList = true ∧ noNLs f.2.1.toList = true
  identifiers : ∀ kv ∈ cfg.identifiers, noNLs kv.2.toList = true
  comments : ∀ kv ∈ cfg.comments, noSp kv.1.toList = true ∧ noNLs kv.1.toList = true ∧ noNLs kv.2.toList = true

theorem clean_of {cfg : Cfg} (h : cleanCfg cfg = true) : Clean cfg := by
  simp only [cleanCfg, Bool.and_eq_true, List.all_eq_true] at h
  obtain ⟨⟨⟨⟨⟨⟨h1, h2⟩, h3⟩, h4⟩, h5⟩, h6⟩, h7⟩ := h
  exact ⟨h1, h2, h3, h4, h5, h6, fun kv hkv => by have := h7 kv hkv; exact ⟨this.1.1, this.1.2, this.2⟩⟩

theorem noSp_mem {l : List Char} (h : noSp l = true) : ∀ c ∈ l, c ≠ ' ' := by
  intro c hc
  have := List.all_eq_true.1 h c hc
  simpa using this

theorem delim_ne_lf {l : List Char} (h : noNLs l = true) : l ≠ ['\n'] := by
  intro hl; subst hl; revert h; decide

/-! ### movers -/

theorem advance2_sk {cfg : Cfg} (hC : Clean cfg) {sql : Sql} {st st' : St} (h : advance2 cfg sql st = .ok st') :
    st'.skew = st.skew := by
  unfold advance2 at h
  simp only [hC.f3, if_true] at h
  obtain ⟨s, h1, h2⟩ := bind_ok h
  rw [advance1_sk h2, advance1_sk h1]

theorem stepN_sk {sql : Sql} : ∀ (n : Nat) (st st' : St), stepN sql n st = .ok st' → st'.skew = st.skew := by
  intro n
  induction n with
  | zero => intro st st' h; simp only [stepN] at h; cases h; rfl
  | succ n ih =>
    intro st st' h
    simp only [stepN] at h
    obtain ⟨s, h1, h2⟩ := bind_ok h
    rw [ih _ _ h2, advance1_sk h1]

theorem advanceKw_sk {cfg : Cfg} (hC : Clean cfg) {sql : Sql} {st st' : St} {n : Nat}
    (h : advanceKw cfg sql st n = .ok st') : st'.skew = st.skew := by
  unfold advanceKw at h
  split at h
  · cases h
  · split at h
    · exact stepN_sk _ _ _ h
    · rename_i hc
      simp only [hC.f2, Bool.true_and, Bool.not_eq_true] at hc
      exact advance_sk h hc

theorem slowString_sk {cfg : Cfg} (hC : Clean cfg) {sql : Sql} {x : XCfg} (hx : noNLs x.delim = true) :
    ∀ (f : Nat) (st : St) (text : List Char) (r : St × List Char),
      slowString cfg sql x f st text = .ok r → r.1.skew = st.skew := by
  intro f
  induction f with
  | zero => intro st text r h; simp only [slowString] at h; cases h
  | succ f ih =>
    intro st text r h
    simp only [slowString] at h
    split at h
    · obtain ⟨s, h1, h2⟩ := bind_ok h
      rw [ih _ _ _ h2, advance2_sk hC h1]
    · split at h
      · split at h
        · obtain ⟨s, h1, h2⟩ := bind_ok h
          rw [ih _ _ _ h2, advance2_sk hC h1]
        · cases h
      · split at h
        · rename_i hch
          split at h
          · rename_i hd
            obtain ⟨s, h1, h2⟩ := bind_ok h
            cases h2
            have := chars_region (by omega) hx hch
            exact advance_sk h1 (hasNL_mono this (by omega))
          · cases h; rfl
        · split at h
          · cases h
          · obtain ⟨s, h1, h2⟩ := bind_ok h
            rw [ih _ _ _ h2, advanceAlnum_sk h1]

theorem extractString_sk {cfg : Cfg} (hC : Clean cfg) {sql : Sql} {x : XCfg} (hx : noNLs x.delim = true)
    {st : St} {r : St × List Char} (h : extractString cfg sql st x = .ok r) : r.1.skew = st.skew := by
  unfold extractString at h
  split at h
  · rename_i r' hf
    cases h
    obtain ⟨s, t⟩ := r
    exact fastString_fixed_skew hC.f1 (delim_ne_lf hx) hf
  · exact slowString_sk hC hx _ _ _ _ h

theorem litLoop_sk {cfg : Cfg} {sql : Sql} :
    ∀ (f : Nat) (st : St) (acc : List Ch) (r : St × List Ch), litLoop cfg sql f st acc = .ok r →
      r.1.skew = st.skew ∧ r.1.current + acc.length = st.current + r.2.length ∧
      ∀ j, st.current ≤ j → j < r.1.current → ∃ ch, sql[j]? = some ch ∧ ch.space = false := by
  intro f
  induction f with
  | zero => intro st acc r h; simp only [litLoop] at h; cases h
  | succ f ih =>
    intro st acc r h
    simp only [litLoop] at h
    split at h
    · rename_i p hp
      split at h
      · rename_i hcond
        obtain ⟨s, h1, h2⟩ := bind_ok h
        obtain ⟨i1, i0, i2⟩ := ih _ _ _ h2
        obtain ⟨_, hc1, _⟩ := advance_fw h1
        refine ⟨by rw [i1, advance1_sk h1], by simp only [List.length_append, List.length_singleton] at i0; omega, ?_⟩
        intro j hj1 hj2
        by_cases hj : j = st.current
        · subst hj
          refine ⟨p, hp, ?_⟩
          simp only [Bool.and_eq_true, Bool.not_eq_true'] at hcond
          exact hcond.1
        · exact i2 j (by omega) hj2
      · cases h; exact ⟨rfl, rfl, fun j h1 h2 => by simp only at h2; omega⟩
    · cases h; exact ⟨rfl, rfl, fun j h1 h2 => by simp only at h2; omega⟩

theorem retreat_sk {sql : Sql} {s s2 : St} {n : Nat} (h : retreat sql s n = .ok s2)
    (hno : hasNL sql (s.current - 1 - n) n = false) : s2.skew = s.skew := by
  unfold retreat at h
  split at h
  · cases h
  · simp only at h
    split at h
    · cases h
    · cases h; simp [hno]

theorem varLoop_sk {cfg : Cfg} {sql : Sql} :
    ∀ (f : Nat) (st st' : St), varLoop cfg sql f st = .ok st' → st'.skew = st.skew := by
  intro f
  induction f with
  | zero => intro st st' h; simp only [varLoop] at h; cases h
  | succ f ih =>
    intro st st' h
    simp only [varLoop] at h
    split at h
    · cases h; rfl
    · split at h
      · cases h; rfl
      · split at h
        · cases h; rfl
        · obtain ⟨s, h1, h2⟩ := bind_ok h
          rw [ih _ _ h2, advanceAlnum_sk h1]

theorem lineCommentLoop_sk {sql : Sql} :
    ∀ (f : Nat) (st st' : St), lineCommentLoop sql f st = .ok st' → st'.skew = st.skew := by
  intro f
  induction f with
  | zero => intro st st' h; simp only [lineCommentLoop] at h; cases h
  | succ f ih =>
    intro st st' h
    simp only [lineCommentLoop] at h
    split at h
    · cases h; rfl
    · split at h
      · cases h; rfl
      · obtain ⟨s, h1, h2⟩ := bind_ok h
        rw [ih _ _ h2, advanceAlnum_sk h1]

theorem commentLoop_sk {cfg : Cfg} {sql : Sql} {cs ce : List Char} (hcs : noNLs cs = true) :
    ∀ (f : Nat) (st st' : St) (count : Nat), commentLoop cfg sql cs ce f st count = .ok st' →
      st'.skew = st.skew ∧ (atEnd sql st' = true ∨ (chars sql st' ce.length == ce) = true) := by
  intro f
  induction f with
  | zero => intro st st' c h; simp only [commentLoop] at h; cases h
  | succ f ih =>
    intro st st' c h
    simp only [commentLoop] at h
    split at h
    · rename_i he
      cases h; exact ⟨rfl, Or.inl he⟩
    · split at h
      · rename_i hh
        cases h
        simp only [Bool.and_eq_true] at hh
        exact ⟨rfl, Or.inr hh.1⟩
      · obtain ⟨s, h1, h2⟩ := bind_ok h
        have k1 := advanceAlnum_sk h1
        split at h2
        · rename_i hn
          obtain ⟨s2, h3, h4⟩ := bind_ok h2
          obtain ⟨i1, i2⟩ := ih _ _ _ h4
          simp only [Bool.and_eq_true] at hn
          have hreg : hasNL sql s.current (cs.length - 1) = false := by
            by_cases hl : 1 < cs.length
            · exact chars_region hl hcs hn.2
            · have : cs.length - 1 = 0 := by omega
              rw [this]; rfl
          exact ⟨by rw [i1, advance_sk h3 hreg, k1], i2⟩
        · obtain ⟨i1, i2⟩ := ih _ _ _ h2
          exact ⟨by rw [i1, k1], i2⟩


/-! ### scanners -/

theorem char_get {sql : Sql} {st : St} {ch : Ch} (h : char sql st = some ch) :
    1 ≤ st.current ∧ sql[st.current - 1]? = some ch := by
  unfold char at h
  by_cases h0 : st.current = 0
  · simp [h0] at h
  · simp only [h0, if_false] at h
    exact ⟨by omega, h⟩

theorem digitsEnd_spec (sql : Sql) : ∀ (f e : Nat),
    e ≤ digitsEnd sql f e ∧ ∀ j, e ≤ j → j < digitsEnd sql f e → ∃ ch, sql[j]? = some ch ∧ isDigit ch.c = true := by
  intro f
  induction f with
  | zero => intro e; simp only [digitsEnd]; exact ⟨Nat.le_refl _, fun j h1 h2 => by omega⟩
  | succ f ih =>
    intro e
    simp only [digitsEnd]
    cases hc : sql[e]? with
    | none => simp only; exact ⟨Nat.le_refl _, fun j h1 h2 => by omega⟩
    | some ch0 =>
      simp only
      cases hd : isDigit ch0.c
      · simp only [Bool.false_eq_true, if_false]
        exact ⟨Nat.le_refl _, fun j h1 h2 => by omega⟩
      · simp only [if_true]
        obtain ⟨i1, i2⟩ := ih (e + 1)
        refine ⟨by omega, ?_⟩
        intro j h1 h2
        by_cases hj : j = e
        · subst hj; exact ⟨ch0, hc, hd⟩
        · exact i2 j (by omega) h2

/-- the cursor stands on a character that is not CR/LF -/
def OnText (sql : Sql) (st : St) : Prop := 1 ≤ st.current ∧ isNL sql (st.current - 1) = false

theorem step_onText {sql : Sql} {st s : St} {p : Ch} (hp : peek sql st = some p) (h1 : p.c ≠ '\n') (h2 : p.c ≠ '\r')
    (h : advance sql st 1 = .ok s) : OnText sql s := by
  obtain ⟨_, hc, _⟩ := advance_fw h
  refine ⟨by omega, ?_⟩
  have e : s.current - 1 = st.current := by omega
  rw [e]
  exact not_nl_of_char (by unfold peek at hp; exact hp) h1 h2

theorem finishNumber_sk {cfg : Cfg} {sql : Sql} {st st' : St} {us : Bool}
    (h : finishNumber cfg sql st us = .ok st') : st'.skew = st.skew := by
  unfold finishNumber at h; exact add_sk h

theorem numIdentTail_sk {cfg : Cfg} {sql : Sql} (hW : WF sql) {st st' : St} {us : Bool} (hon : OnText sql st)
    (h : numIdentTail cfg sql st us = .ok st') : st'.skew = st.skew := by
  unfold numIdentTail at h
  obtain ⟨r, h1, h2⟩ := bind_ok h
  obtain ⟨k1, kc, kr⟩ := litLoop_sk _ _ _ _ h1
  simp only [List.length_nil, Nat.add_zero] at kc
  split at h2
  · cases h2
  · split at h2
    · rw [add_sk h2, k1]
    · obtain ⟨s2, h3, h4⟩ := bind_ok h2
      have hreg : hasNL sql (r.1.current - 1 - r.2.length) r.2.length = false := by
        apply hasNL_of_forall
        intro j hj1 hj2
        have e : r.1.current - 1 - r.2.length = st.current - 1 := by omega
        rw [e] at hj1 hj2
        by_cases hj : j = st.current - 1
        · subst hj; exact hon.2
        · obtain ⟨ch, hg, hs⟩ := kr j (by have := hon.1; omega) (by have := hon.1; omega)
          exact not_nl_of_not_space hW hg hs
      rw [finishNumber_sk h4, retreat_sk h3 hreg, k1]

theorem numLoop_sk {cfg : Cfg} {sql : Sql} (hW : WF sql) :
    ∀ (f : Nat) (st st' : St) (dec : Bool) (sci : Nat) (us : Bool), OnText sql st →
      numLoop cfg sql f st dec sci us = .ok st' → st'.skew = st.skew := by
  intro f
  induction f with
  | zero => intro st st' _ _ _ _ h; simp only [numLoop] at h; cases h
  | succ f ih =>
    intro st st' dec sci us hon h
    simp only [numLoop] at h
    split at h
    · exact finishNumber_sk h
    · rename_i p hp
      have step1 : ∀ {d : Bool} {sc : Nat} {u : Bool}, p.c ≠ '\n' → p.c ≠ '\r' →
          ((advance sql st 1).bind fun s => numLoop cfg sql f s d sc u) = .ok st' → st'.skew = st.skew := by
        intro d sc u hn1 hn2 h
        obtain ⟨s, h1, h2⟩ := bind_ok h
        rw [ih _ _ _ _ _ (step_onText hp hn1 hn2 h1) h2, advance1_sk h1]
      split at h
      · rename_i hdig
        obtain ⟨s, h1, h2⟩ := bind_ok h
        obtain ⟨d1, d2⟩ := digitsEnd_spec sql (sql.size - st.current) (st.current + 1)
        obtain ⟨_, hc, hi⟩ := advance_fw h1
        have hpget : sql[st.current]? = some p := by unfold peek at hp; exact hp
        have hall : ∀ j, st.current ≤ j → j < digitsEnd sql (sql.size - st.current) (st.current + 1) →
            isNL sql j = false := by
          intro j hj1 hj2
          by_cases hj : j = st.current
          · subst hj; have := digit_not_nl hdig; exact not_nl_of_char hpget this.1 this.2
          · obtain ⟨ch, hg, hd⟩ := d2 j (by omega) hj2
            have := digit_not_nl hd; exact not_nl_of_char hg this.1 this.2
        have hreg : hasNL sql st.current (digitsEnd sql (sql.size - st.current) (st.current + 1) - st.current - 1) = false :=
          hasNL_of_forall (fun j h1 h2 => hall j h1 (by omega))
        have hon' : OnText sql s := ⟨by omega, hall _ (by omega) (by omega)⟩
        rw [ih _ _ _ _ _ hon' h2, advance_sk h1 hreg]
      · split at h
        · rename_i hdot
          simp only [Bool.and_eq_true, beq_iff_eq] at hdot
          split at h
          · exact finishNumber_sk h
          · exact step1 (by rw [hdot.1]; decide) (by rw [hdot.1]; decide) h
        · split at h
          · rename_i hsign
            simp only [Bool.and_eq_true, Bool.or_eq_true, beq_iff_eq] at hsign
            split at h
            · refine step1 ?_ ?_ h <;> rcases hsign.1 with h' | h' <;> rw [h'] <;> decide
            · exact finishNumber_sk h
          · split at h
            · rename_i he
              simp only [Bool.and_eq_true, beq_iff_eq] at he
              refine step1 ?_ ?_ h
              · intro hc; rw [hc] at he; exact absurd he.1 (by decide)
              · intro hc; rw [hc] at he; exact absurd he.1 (by decide)
            · split at h
              · rename_i hus
                simp only [Bool.and_eq_true, beq_iff_eq] at hus
                exact step1 (by rw [hus.1]; decide) (by rw [hus.1]; decide) h
              · split at h
                · exact numIdentTail_sk hW hon h
                · exact finishNumber_sk h

theorem valueLoop_sk {cfg : Cfg} {sql : Sql} :
    ∀ (f : Nat) (st st' : St), valueLoop cfg sql f st = .ok st' → st'.skew = st.skew := by
  intro f
  induction f with
  | zero => intro st st' h; simp only [valueLoop] at h; cases h
  | succ f ih =>
    intro st st' h
    simp only [valueLoop] at h
    split at h
    · cases h; rfl
    · split at h
      · obtain ⟨s, h1, h2⟩ := bind_ok h
        rw [ih _ _ h2, advanceAlnum_sk h1]
      · cases h; rfl

theorem radixAdd_sk {cfg : Cfg} {sql : Sql} {st st' : St} {base : Nat} {ty : String}
    (h : radixAdd cfg sql st base ty = .ok st') : st'.skew = st.skew := by
  unfold radixAdd at h
  split at h
  · cases h
  · exact add_sk h
  · exact add_sk h

theorem scanRadix_sk {cfg : Cfg} {sql : Sql} {st st' : St} {base : Nat} {ty : String}
    (h : scanRadix cfg sql st base ty = .ok st') : st'.skew = st.skew := by
  unfold scanRadix at h
  obtain ⟨s, h1, h2⟩ := bind_ok h
  obtain ⟨s2, h3, h4⟩ := bind_ok h2
  rw [radixAdd_sk h4, valueLoop_sk _ _ _ h3, advance1_sk h1]

theorem scanNumber_sk {cfg : Cfg} {sql : Sql} (hW : WF sql) {st st' : St} (hon : OnText sql st)
    (h : scanNumber cfg sql st = .ok st') : st'.skew = st.skew := by
  unfold scanNumber at h
  split at h
  · split at h
    · exact scanRadix_sk h
    · exact add_sk h
  · split at h
    · split at h
      · exact scanRadix_sk h
      · exact add_sk h
    · exact numLoop_sk hW _ _ _ _ _ _ hon h

theorem scanVar_sk {cfg : Cfg} {sql : Sql} {st st' : St} (h : scanVar cfg sql st = .ok st') : st'.skew = st.skew := by
  unfold scanVar at h
  obtain ⟨s, h1, h2⟩ := bind_ok h
  rw [add_sk h2, varLoop_sk _ _ _ h1]

theorem scanIdentifier_sk {cfg : Cfg} (hC : Clean cfg) {sql : Sql} {st st' : St} {e : String}
    (he : noNLs e.toList = true) (h : scanIdentifier cfg sql st e = .ok st') : st'.skew = st.skew := by
  unfold scanIdentifier at h
  obtain ⟨s, h1, h2⟩ := bind_ok h
  obtain ⟨r, h3, h4⟩ := bind_ok h2
  rw [add_sk h4, extractString_sk hC (x := ⟨e.toList, e :: cfg.identEscapes, false⟩) he h3, advance1_sk h1]

/-- the jump over a start delimiter that the trie walk reported unfolded -/
theorem word_jump_sk {sql : Sql} (hW : WF sql) {st s : St} {w : List Char} (hraw : RawOK sql st.current w)
    (hns : ∀ c ∈ w, c ≠ ' ') (h : advance sql st w.length = .ok s) : s.skew = st.skew := by
  apply advance_sk h
  apply hasNL_of_forall
  intro j hj1 hj2
  obtain ⟨ch, hg, hs, _⟩ := hraw hns (j - (st.current - 1)) (by omega)
  have e : st.current - 1 + (j - (st.current - 1)) = j := by omega
  rw [e] at hg
  exact not_nl_of_not_space hW hg hs

theorem stringAdd_sk {cfg : Cfg} {sql : Sql} {st st' : St} {ty : String} {text : List Char}
    (h : stringAdd cfg sql st ty text = .ok st') : st'.skew = st.skew := by
  unfold stringAdd at h
  split at h
  · split at h
    · cases h
    · exact add_sk h
    · cases h
  · exact add_sk h

theorem stringBody_sk {cfg : Cfg} (hC : Clean cfg) {sql : Sql} (hW : WF sql) {st st' : St} {w : List Char} {e ty : String}
    (hraw : RawOK sql st.current w) (hns : ∀ c ∈ w, c ≠ ' ') (he : noNLs e.toList = true)
    (h : stringBody cfg sql st w e ty = .ok st') : st'.skew = st.skew := by
  unfold stringBody at h
  split at h
  · cases h
  · obtain ⟨s, h1, h2⟩ := bind_ok h
    obtain ⟨r, h3, h4⟩ := bind_ok h2
    rw [stringAdd_sk h4, extractString_sk hC (x := ⟨e.toList, _, _⟩) he h3, word_jump_sk hW hraw hns h1]

theorem scanString_sk {cfg : Cfg} (hC : Clean cfg) {sql : Sql} (hW : WF sql) {st st' : St} {w : List Char} {res : Res St}
    (hraw : RawOK sql st.current w) (h : scanString cfg sql st w = some res) (hr : res = .ok st') :
    st'.skew = st.skew := by
  unfold scanString at h
  split at h
  · rename_i e hl
    cases h
    obtain ⟨kv, hm, hk, hv⟩ := lookupS_mem hl
    have := hC.quotes kv hm
    exact stringBody_sk hC hW hraw (by rw [← hk]; exact noSp_mem this.1) (by rw [← hv]; exact this.2) hr
  · split at h
    · rename_i f hf
      cases h
      have hm := List.mem_of_find?_eq_some hf
      have hk : f.1.toList = w := by simpa using List.find?_some hf
      have := hC.formats f hm
      exact stringBody_sk hC hW hraw (by rw [← hk]; exact noSp_mem this.1) this.2 hr
    · cases h

theorem finishComment_sk {cfg : Cfg} {sql : Sql} {st st' : St} {w : List Char}
    (h : finishComment cfg sql st w = .ok st') : st'.skew = st.skew := by
  unfold finishComment at h
  split at h
  · rw [add_sk h]; rfl
  · cases h; rfl

theorem scanComment_sk {cfg : Cfg} (hC : Clean cfg) {sql : Sql} (hW : WF sql) {st st' : St} {w : List Char} {res : Res St}
    (hraw : RawOK sql st.current w) (h : scanComment cfg sql st w = some res) (hr : res = .ok st') :
    st'.skew = st.skew := by
  unfold scanComment at h
  split at h
  · cases h
    obtain ⟨s, h1, h2⟩ := bind_ok hr
    rw [finishComment_sk h2, lineCommentLoop_sk _ _ _ h1]
  · split at h
    · rename_i e hl
      cases h
      obtain ⟨kv, hm, hk, hv⟩ := lookupS_mem hl
      have hcl := hC.comments kv hm
      obtain ⟨s, h1, h2⟩ := bind_ok hr
      obtain ⟨s2, h3, h4⟩ := bind_ok h2
      obtain ⟨s3, h5, h6⟩ := bind_ok h4
      have k1 := word_jump_sk hW hraw (by rw [← hk]; exact noSp_mem hcl.1) h1
      obtain ⟨k2, hexit⟩ := commentLoop_sk (cfg := cfg) (sql := sql) (cs := w) (ce := e.toList)
        (by rw [← hk]; exact hcl.2.1) _ _ _ _ h3
      have k3 : s3.skew = s2.skew := by
        split at h5
        · rename_i hlen
          rcases hexit with hend | hch
          · obtain ⟨hi, hle, _⟩ := advance_ok h5
            unfold atEnd at hend
            simp only [ge_iff_le, decide_eq_true_eq] at hend
            omega
          · have := chars_region hlen (by rw [← hv]; exact hcl.2.2) hch
            exact advance_sk h5 (hasNL_mono this (by omega))
        · cases h5; rfl
      rw [finishComment_sk h6, k3, k2, k1]
    · cases h

theorem kwAdd_sk {cfg : Cfg} {sql : Sql} {st st' : St} {w : List Char}
    (h : kwAdd cfg sql st w = .ok st') : st'.skew = st.skew := by
  unfold kwAdd at h
  split at h
  · exact add_sk h
  · cases h

theorem kwFallback_sk {cfg : Cfg} {sql : Sql} {st st' : St} {c0 : Char}
    (h : kwFallback cfg sql st c0 = .ok st') : st'.skew = st.skew := by
  unfold kwFallback at h
  split at h
  · exact add_sk h
  · exact scanVar_sk h

theorem scanWord_sk {cfg : Cfg} (hC : Clean cfg) {sql : Sql} (hW : WF sql) {st st' : St} {c0 : Char} {r : KwR}
    {w : List Char} (hraw : RawOK sql st.current w) (h : scanWord cfg sql st c0 r w = .ok st') :
    st'.skew = st.skew := by
  unfold scanWord at h
  split at h
  · rename_i res hres
    exact scanString_sk hC hW hraw hres h
  · split at h
    · rename_i res hres
      exact scanComment_sk hC hW hraw hres h
    · split at h
      · split at h
        · exact kwAdd_sk h
        · obtain ⟨s, h1, h2⟩ := bind_ok h
          rw [kwAdd_sk h2, advanceKw_sk hC h1]
      · exact kwFallback_sk h

theorem scanKeywords_sk {cfg : Cfg} (hC : Clean cfg) {sql : Sql} (hW : WF sql) {st st' : St} {ch : Ch}
    (hch : char sql st = some ch) (hsp : ch.space = false)
    (h : scanKeywords cfg sql st = .ok st') : st'.skew = st.skew := by
  unfold scanKeywords at h
  rw [hch] at h
  simp only at h
  obtain ⟨hc1, hget⟩ := char_get hch
  split at h
  · rename_i w hw
    refine scanWord_sk hC hW ?_ h
    unfold kwResult at hw
    refine kwLoop_raw hW _ _ _ _ _ _ _ _ _ ?_ (by intro h; cases h) (by intro w h; cases h) hc1 w hw
    intro _
    refine ⟨rfl, ?_⟩
    intro k hk
    simp only [List.length_singleton] at hk
    have : k = 0 := by omega
    subst this
    exact ⟨ch, by simpa using hget, hsp, rfl⟩
  · exact kwFallback_sk h

theorem dispatch_sk {cfg : Cfg} (hC : Clean cfg) {sql : Sql} (hW : WF sql) {s st' : St} {ch : Ch}
    (hch : char sql s = some ch) (h : dispatch cfg sql s ch = .ok st') : st'.skew = s.skew := by
  unfold dispatch at h
  split at h
  · cases h; rfl
  · rename_i hsp
    have hsp' : ch.space = false := by cases h : ch.space <;> simp_all
    obtain ⟨hc1, hget⟩ := char_get hch
    split at h
    · rename_i hd
      have := digit_not_nl hd
      exact scanNumber_sk hW ⟨hc1, not_nl_of_char hget this.1 this.2⟩ h
    · split at h
      · rename_i e hl
        obtain ⟨kv, hm, _, hv⟩ := lookupS_mem hl
        exact scanIdentifier_sk hC (by rw [← hv]; exact hC.identifiers kv hm) h
      · exact scanKeywords_sk hC hW hch hsp' h

theorem scanStep_sk {cfg : Cfg} (hC : Clean cfg) {sql : Sql} (hW : WF sql) {st st' : St}
    (h : scanStep cfg sql st = .ok st') : st'.skew = st.skew := by
  unfold scanStep at h
  obtain ⟨s, h1, h2⟩ := bind_ok h
  obtain ⟨b1, _, b3⟩ := skipBlanks_spec sql (sql.size - st.current) st.current
  have k1 : s.skew = st.skew := by
    have : hasNL sql st.current (stepOff sql st - 1) = false := by
      apply hasNL_of_forall
      intro j hj1 hj2
      unfold stepOff at hj2
      split at hj2
      · obtain ⟨ch, hg, hb⟩ := b3 j hj1 (by unfold blankEnd at hj2; omega)
        rcases hb with hb | hb
        · exact not_nl_of_char hg (by rw [hb]; decide) (by rw [hb]; decide)
        · exact not_nl_of_char hg (by rw [hb]; decide) (by rw [hb]; decide)
      · omega
    exact advance_sk (st := { st with start := blankEnd sql st }) h1 this
  split at h2
  · cases h2
  · rename_i ch hch
    rw [dispatch_sk hC hW hch h2, k1]

theorem scanLoop_sk {cfg : Cfg} (hC : Clean cfg) {sql : Sql} (hW : WF sql) :
    ∀ (f : Nat) (st st' : St), scanLoop cfg sql f st = .ok st' → st'.skew = st.skew := by
  intro f
  induction f with
  | zero => intro st st' h; simp only [scanLoop] at h; cases h
  | succ f ih =>
    intro st st' h
    simp only [scanLoop] at h
    split at h
    · cases h; rfl
    · obtain ⟨s, h1, h2⟩ := bind_ok h
      rw [ih _ _ h2, scanStep_sk hC hW h1]

/-- with the repairs in the code and hygienic delimiter tables, no run of the model ever skips a line break -/
theorem lex_sk {cfg : Cfg} (hC : cleanCfg cfg = true) {sql : Sql} (hW : WF sql) {st : St}
    (h : lex cfg sql = .ok st) : st.skew = false := by
  unfold lex at h
  exact scanLoop_sk (clean_of hC) hW _ _ _ h

end SqlglotModel.Lex
