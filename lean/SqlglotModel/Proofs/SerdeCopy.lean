/-
  C12 — helper lemmas for the `__deepcopy__` model (Model/Serde.lean, `copyLoopWith`). Core Lean only.
  Part A: closed form of one `for k, vs in node.args.items()` pass (structure only: `attachS` = `attach` without the
          hash-invalidation walk, which never changes anything but `_hash` fields).
  Part B: the loop invariant "reading the arena back, with every still-empty copy standing for its source node, gives
          the source tree", and `copy t = t`.
  Part C: erasing hashes commutes with the real loop, so the structural result holds for it too; freshness.
-/
import SqlglotModel.Proofs.Serde

namespace SqlglotModel.Serde

/-- `set` / `append` without the `_hash` invalidation -/
def attachS : Attach := fun A cell idx k arr =>
  if idx < A.length then
    match A[idx]? with
    | some (.node cls ty c m args l h) =>
      let r := linkArgs args k arr A.length cell.isRawNull
      some (A.set idx (.node cls ty c m r.1 l h) ++ [cell.withLink ⟨idx, k, r.2⟩])
    | _ => none
  else none

theorem attachS_ok {A : List Cell} {p : Nat} {cls ty c m cur l h} (cell : Cell) (k : String) (arr : Bool)
    (hA : A[p]? = some (.node cls ty c m cur l h)) :
    attachS A cell p k arr = some (A.set p (.node cls ty c m (linkArgs cur k arr A.length cell.isRawNull).1 l h)
      ++ [cell.withLink ⟨p, k, (linkArgs cur k arr A.length cell.isRawNull).2⟩]) := by
  simp only [attachS, if_pos (lt_of_get hA), hA]

/-! ## Part A -/

/-- everything one args pass allocates: (source value, arena index, parent link), in allocation order -/
def allocVals (j : Nat) (k : String) : List Val → Nat → Nat → List (Val × Nat × Link)
  | [], _, _ => []
  | v :: vs, p, i => (v, i, ⟨j, k, some p⟩) :: allocVals j k vs (p + 1) (i + 1)

def alloc (j : Nat) : List Arg → Nat → List (Val × Nat × Link)
  | [], _ => []
  | .one k v :: rest, i => (v, i, ⟨j, k, none⟩) :: alloc j rest (i + 1)
  | .many k vs :: rest, i => allocVals j k vs 0 i ++ alloc j rest (i + vs.length)

def cellOf (e : Val × Nat × Link) : Cell := e.1.toCell.withLink e.2.2
def itemOf (e : Val × Nat × Link) : CItem := (e.1, e.2.1)
def pushedOf (l : List (Val × Nat × Link)) : List CItem := (l.filter fun e => e.1.isNode).map itemOf

/-- the finished `args` dict of the copy when its first allocated cell is `i` -/
def cslots : List Arg → Nat → Slots
  | [], _ => []
  | .one k _ :: rest, i => (k, .one i) :: cslots rest (i + 1)
  | .many k vs :: rest, i => (k, .many (List.range' i vs.length)) :: cslots rest (i + vs.length)

theorem allocVals_length (j : Nat) (k : String) (vs : List Val) (p i : Nat) :
    (allocVals j k vs p i).length = vs.length := by
  induction vs generalizing p i with
  | nil => simp [allocVals]
  | cons v vs ih => simp [allocVals, ih]

theorem withLink_scalar (v : Val) (l : Link) (h : v.isNode = false) : v.toCell.withLink l = v.toCell := by
  cases v <;> simp_all [Val.isNode, Val.toCell, Cell.withLink]

theorem toCell_isRawNull (v : Val) : v.toCell.isRawNull = v.isNull := by
  cases v with
  | node => simp [Val.toCell, emptyCell, Cell.isRawNull, Val.isNull]
  | dtype => simp [Val.toCell, Cell.isRawNull, Val.isNull]
  | raw r => cases r <;> rfl

theorem copyVals_closed (j : Nat) (k : String) : ∀ (vs : List Val) (A : List Cell) (pushed : List CItem)
    (refs : List Nat) (cls : String) (ty : Option Val) (c : Comments) (m : Meta) (cur : Slots) (l : Option Link)
    (h : Option Nat), k ∉ keysS cur →
    A[j]? = some (.node cls ty c m (cur ++ [(k, .many refs)]) l h) →
    copyVals attachS j k vs A pushed =
      some (A.set j (.node cls ty c m (cur ++ [(k, .many (refs ++ List.range' A.length vs.length))]) l h)
              ++ (allocVals j k vs refs.length A.length).map cellOf,
            pushed ++ pushedOf (allocVals j k vs refs.length A.length)) := by
  intro vs
  induction vs with
  | nil =>
    intro A pushed refs cls ty c m cur l h hk hA
    simp [copyVals, allocVals, pushedOf, set_self _ _ _ hA]
  | cons v vs ih =>
    intro A pushed refs cls ty c m cur l h hk hA
    have hj := lt_of_get hA
    have hstep := attachS_ok (A := A) v.toCell k true hA
    simp only [linkArgs, if_true, appendRef, lookupKey_snoc _ hk, setKey_snoc _ _ hk] at hstep
    have hget : (A.set j (.node cls ty c m (cur ++ [(k, .many (refs ++ [A.length]))]) l h)
        ++ [v.toCell.withLink ⟨j, k, some refs.length⟩])[j]?
        = some (.node cls ty c m (cur ++ [(k, .many (refs ++ [A.length]))]) l h) := get_set_append _ _ _ _ hj
    have hrec := ih _ (if v.isNode then pushed ++ [(v, A.length)] else pushed) (refs ++ [A.length])
      cls ty c m cur l h hk hget
    simp only [copyVals, hstep, hrec]
    have hlen : (A.set j (.node cls ty c m (cur ++ [(k, .many (refs ++ [A.length]))]) l h)
        ++ [v.toCell.withLink ⟨j, k, some refs.length⟩]).length = A.length + 1 := by simp
    simp only [hlen, List.length_append, List.length_singleton, allocVals, List.length_cons]
    by_cases hn : v.isNode = true
    · simp [hn, pushedOf, itemOf, cellOf, List.set_append, hj, List.range'_succ, List.filter_cons]
    · simp [hn, pushedOf, itemOf, cellOf, List.set_append, hj, List.range'_succ, List.filter_cons]


theorem alloc_length_one (j : Nat) (k : String) (v : Val) (rest : List Arg) (i : Nat) :
    (alloc j (.one k v :: rest) i).length = 1 + (alloc j rest (i + 1)).length := by
  simp [alloc, Nat.add_comm]

theorem copyArgs_closed (j : Nat) : ∀ (args : List Arg), (keysOf args).Nodup →
    ∀ (A : List Cell) (pushed : List CItem) (cls : String) (ty : Option Val) (c : Comments) (m : Meta) (cur : Slots)
      (l : Option Link) (h : Option Nat),
    (∀ k ∈ keysOf args, k ∉ keysS cur) →
    A[j]? = some (.node cls ty c m cur l h) →
    copyArgs attachS j args A pushed =
      some (A.set j (.node cls ty c m (cur ++ cslots args A.length) l h) ++ (alloc j args A.length).map cellOf,
            pushed ++ pushedOf (alloc j args A.length)) := by
  intro args
  induction args with
  | nil =>
    intro _ A pushed cls ty c m cur l h _ hA
    simp [copyArgs, cslots, alloc, pushedOf, set_self _ _ _ hA]
  | cons a rest ih =>
    intro hnd A pushed cls ty c m cur l h hdis hA
    simp only [keysOf, List.nodup_cons] at hnd
    have hj := lt_of_get hA
    have hka : a.key ∉ keysS cur := hdis a.key (by simp [keysOf])
    have hdis' : ∀ (s : Slot) (k : String), k ∈ keysOf rest → k ∉ keysS (cur ++ [(a.key, s)]) := by
      intro s k hk
      simp only [keysS, List.map_append, List.mem_append, List.map_cons, List.map_nil, List.mem_singleton, not_or]
      exact ⟨hdis k (by simp [keysOf, hk]), fun e => hnd.1 (e ▸ hk)⟩
    cases a with
    | one k v =>
      simp only [Arg.key] at hka hdis'
      by_cases hn : v.isNode = true
      · have hnull : v.isNull = false := by cases v <;> simp_all [Val.isNode, Val.isNull]
        have hstep := attachS_ok (A := A) v.toCell k false hA
        simp only [linkArgs, toCell_isRawNull, hnull, setKey_notin _ hka] at hstep
        simp only [Bool.false_eq_true, if_false] at hstep
        have hget : (A.set j (.node cls ty c m (cur ++ [(k, .one A.length)]) l h)
            ++ [v.toCell.withLink ⟨j, k, none⟩])[j]?
            = some (.node cls ty c m (cur ++ [(k, .one A.length)]) l h) := get_set_append _ _ _ _ hj
        have hrec := ih hnd.2 _ (pushed ++ [(v, A.length)]) cls ty c m (cur ++ [(k, .one A.length)]) l h
          (hdis' _) hget
        simp only [copyArgs, hn, if_true, hstep, hrec]
        simp [cslots, alloc, pushedOf, itemOf, cellOf, hn, hj, List.filter_cons]
      · have hn' : v.isNode = false := by simpa using hn
        have hstep : assignArg A j k (.one A.length) [v.toCell] =
            some (A.set j (.node cls ty c m (cur ++ [(k, .one A.length)]) l h) ++ [v.toCell]) := by
          simp [assignArg, hA, setKey_notin _ hka]
        have hget : (A.set j (.node cls ty c m (cur ++ [(k, .one A.length)]) l h) ++ [v.toCell])[j]?
            = some (.node cls ty c m (cur ++ [(k, .one A.length)]) l h) := get_set_append _ _ _ _ hj
        have hrec := ih hnd.2 _ pushed cls ty c m (cur ++ [(k, .one A.length)]) l h (hdis' _) hget
        simp only [copyArgs, hn', Bool.false_eq_true, if_false, hstep, hrec]
        simp [cslots, alloc, pushedOf, itemOf, cellOf, hn', hj, List.filter_cons, withLink_scalar v _ hn']
    | many k vs =>
      simp only [Arg.key] at hka hdis'
      have hstep : assignArg A j k (.many []) [] =
          some (A.set j (.node cls ty c m (cur ++ [(k, .many [])]) l h)) := by
        simp [assignArg, hA, setKey_notin _ hka]
      have hget0 : (A.set j (.node cls ty c m (cur ++ [(k, .many [])]) l h))[j]?
          = some (.node cls ty c m (cur ++ [(k, .many [])]) l h) := by simp [hj]
      have hvals := copyVals_closed j k vs _ pushed [] cls ty c m cur l h hka hget0
      simp only [List.length_set, List.nil_append, List.length_nil, List.set_set] at hvals
      have hget : (A.set j (.node cls ty c m (cur ++ [(k, .many (List.range' A.length vs.length))]) l h)
          ++ (allocVals j k vs 0 A.length).map cellOf)[j]?
          = some (.node cls ty c m (cur ++ [(k, .many (List.range' A.length vs.length))]) l h) :=
        get_set_append _ _ _ _ hj
      have hrec := ih hnd.2 _ (pushed ++ pushedOf (allocVals j k vs 0 A.length)) cls ty c m
        (cur ++ [(k, .many (List.range' A.length vs.length))]) l h (hdis' _) hget
      simp only [copyArgs, hstep, hvals, hrec]
      simp [cslots, alloc, pushedOf, allocVals_length, hj, List.filter_append, List.map_append]


/-! ## Part B: the loop invariant -/

/-- the source node a still-empty copy stands for -/
def pendGet : List CItem → Nat → Option Val
  | [], _ => none
  | (v, j) :: rest, i => if j = i then some v else pendGet rest i

/-- `reify`, except that a pending (still empty) copy reads as the source node it will become -/
def reifyP (pend : List CItem) (A : List Cell) : Nat → Nat → Option Val
  | 0, _ => none
  | f + 1, i => match pendGet pend i with
    | some v => some v
    | none => match A[i]? with
      | none => none
      | some c => reifyCell (reifyP pend A f) c

theorem reifyP_nil (A : List Cell) : ∀ f i, reifyP [] A f i = reify A f i := by
  intro f
  induction f with
  | zero => intro i; rfl
  | succ n ih =>
    intro i
    have : reifyP [] A n = reify A n := funext ih
    cases hA : A[i]? <;> simp [reifyP, reify, pendGet, this, hA]

theorem pendGet_skip (Q st : List CItem) (r : Nat) (h : ∀ e ∈ Q, e.2 ≠ r) :
    pendGet (Q ++ st) r = pendGet st r := by
  induction Q with
  | nil => rfl
  | cons e es ih =>
    obtain ⟨v, j⟩ := e
    have hj : j ≠ r := h (v, j) (by simp)
    simp [pendGet, hj]
    exact ih (fun e he => h e (by simp [he]))

theorem pendGet_hit (Q st : List CItem) (r : Nat) (x : Val) (hm : (x, r) ∈ Q)
    (hu : ∀ e ∈ Q, e.2 = r → e.1 = x) : pendGet (Q ++ st) r = some x := by
  induction Q with
  | nil => simp at hm
  | cons e es ih =>
    obtain ⟨v, j⟩ := e
    by_cases hj : j = r
    · have : v = x := hu (v, j) (by simp) hj
      simp [pendGet, hj, this]
    · simp [pendGet, hj]
      have hm' : (x, r) ∈ es := by
        simp at hm
        rcases hm with h | h
        · exact absurd h.2.symm hj
        · exact h
      exact ih hm' (fun e he => hu e (by simp [he]))

theorem reifyRefs_mono {g g' : Nat → Option Val} (hg : ∀ r y, g r = some y → g' r = some y) :
    ∀ (rs : List Nat) (vs : List Val), reifyRefs g rs = some vs → reifyRefs g' rs = some vs := by
  intro rs
  induction rs with
  | nil => intro vs h; simpa [reifyRefs] using h
  | cons r rs ih =>
    intro vs h
    simp only [reifyRefs] at h ⊢
    cases h1 : g r with
    | none => simp [h1] at h
    | some y =>
      cases h2 : reifyRefs g rs with
      | none => simp [h1, h2] at h
      | some ys =>
        simp [h1, h2] at h
        simp [hg r y h1, ih ys h2, h]

theorem reifySlots_mono {g g' : Nat → Option Val} (hg : ∀ r y, g r = some y → g' r = some y) :
    ∀ (s : Slots) (as : List Arg), reifySlots g s = some as → reifySlots g' s = some as := by
  intro s
  induction s with
  | nil => intro as h; simpa [reifySlots] using h
  | cons x xs ih =>
    obtain ⟨k, sl⟩ := x
    intro as h
    simp only [reifySlots] at h ⊢
    cases h1 : reifySlot g k sl with
    | none => simp [h1] at h
    | some a =>
      cases h2 : reifySlots g xs with
      | none => simp [h1, h2] at h
      | some ys =>
        simp [h1, h2] at h
        have h1' : reifySlot g' k sl = some a := by
          cases sl with
          | one r =>
            simp only [reifySlot] at h1 ⊢
            cases h3 : g r with
            | none => simp [h3] at h1
            | some y => simp [h3] at h1; simp [hg r y h3, h1]
          | many rs =>
            simp only [reifySlot] at h1 ⊢
            cases h3 : reifyRefs g rs with
            | none => simp [h3] at h1
            | some ys' => simp [h3] at h1; simp [reifyRefs_mono hg rs ys' h3, h1]
        simp [h1', ih ys h2, h]

theorem reifyCell_mono {g g' : Nat → Option Val} (hg : ∀ r y, g r = some y → g' r = some y)
    (c : Cell) (x : Val) (h : reifyCell g c = some x) : reifyCell g' c = some x := by
  cases c with
  | node cls ty cm m args l hs =>
    simp only [reifyCell] at h ⊢
    cases h1 : reifySlots g args with
    | none => simp [h1] at h
    | some as => simp [h1] at h; simp [reifySlots_mono hg args as h1, h]
  | dtype s => simpa [reifyCell] using h
  | raw r => simpa [reifyCell] using h

/-! ### positions of the allocated cells -/

theorem allocVals_get (j : Nat) (k : String) : ∀ (vs : List Val) (p i t : Nat) (e : Val × Nat × Link),
    (allocVals j k vs p i)[t]? = some e → e.2.1 = i + t := by
  intro vs
  induction vs with
  | nil => intro p i t e h; simp [allocVals] at h
  | cons v vs ih =>
    intro p i t e h
    cases t with
    | zero => simp [allocVals] at h; subst h; simp
    | succ t =>
      simp [allocVals] at h
      have := ih (p + 1) (i + 1) t e h
      omega

theorem alloc_get (j : Nat) : ∀ (args : List Arg) (i t : Nat) (e : Val × Nat × Link),
    (alloc j args i)[t]? = some e → e.2.1 = i + t := by
  intro args
  induction args with
  | nil => intro i t e h; simp [alloc] at h
  | cons a rest ih =>
    intro i t e h
    cases a with
    | one k v =>
      cases t with
      | zero => simp [alloc] at h; subst h; simp
      | succ t =>
        simp [alloc] at h
        have := ih (i + 1) t e h
        omega
    | many k vs =>
      simp only [alloc] at h
      by_cases ht : t < (allocVals j k vs 0 i).length
      · rw [List.getElem?_append_left ht] at h
        exact allocVals_get j k vs 0 i t e h
      · rw [List.getElem?_append_right (by omega)] at h
        have := ih (i + vs.length) (t - (allocVals j k vs 0 i).length) e h
        simp [allocVals_length] at this ht
        omega

theorem alloc_mem_get {L : List (Val × Nat × Link)} {e : Val × Nat × Link} (h : e ∈ L) :
    ∃ t : Nat, L[t]? = some e := by
  obtain ⟨t, ht, he⟩ := List.mem_iff_getElem.mp h
  exact ⟨t, by simp [List.getElem?_eq_getElem ht, he]⟩

theorem alloc_inj (j : Nat) (args : List Arg) (i : Nat) (e e' : Val × Nat × Link)
    (he : e ∈ alloc j args i) (he' : e' ∈ alloc j args i) (hidx : e.2.1 = e'.2.1) : e = e' := by
  obtain ⟨t, ht⟩ := alloc_mem_get he
  obtain ⟨t', ht'⟩ := alloc_mem_get he'
  have h1 := alloc_get j args i t e ht
  have h2 := alloc_get j args i t' e' ht'
  have : t = t' := by omega
  subst this
  rw [ht] at ht'
  exact Option.some.inj ht'

theorem alloc_cell (j : Nat) (args : List Arg) (B : List Cell) (e : Val × Nat × Link)
    (he : e ∈ alloc j args B.length) :
    (B ++ (alloc j args B.length).map cellOf)[e.2.1]? = some (cellOf e) ∧ B.length ≤ e.2.1 := by
  obtain ⟨t, ht⟩ := alloc_mem_get he
  have h1 := alloc_get j args B.length t e ht
  refine ⟨?_, by omega⟩
  rw [h1, List.getElem?_append_right (by omega)]
  simp [ht]

/-! ### reading the finished args dict back -/

theorem reifyRefs_alloc (g : Nat → Option Val) (j : Nat) (k : String) : ∀ (vs : List Val) (p i : Nat),
    (∀ e ∈ allocVals j k vs p i, g e.2.1 = some e.1) → reifyRefs g (List.range' i vs.length) = some vs := by
  intro vs
  induction vs with
  | nil => intro p i _; simp [reifyRefs]
  | cons v vs ih =>
    intro p i h
    have h0 : g i = some v := h (v, i, ⟨j, k, some p⟩) (by simp [allocVals])
    have hr := ih (p + 1) (i + 1) (fun e he => h e (by simp [allocVals, he]))
    simp [List.range'_succ, reifyRefs, h0, hr]

theorem reifySlots_alloc (g : Nat → Option Val) (j : Nat) : ∀ (args : List Arg) (i : Nat),
    (∀ e ∈ alloc j args i, g e.2.1 = some e.1) → reifySlots g (cslots args i) = some args := by
  intro args
  induction args with
  | nil => intro i _; simp [cslots, reifySlots]
  | cons a rest ih =>
    intro i h
    cases a with
    | one k v =>
      have h0 : g i = some v := h (v, i, ⟨j, k, none⟩) (by simp [alloc])
      have hr := ih (i + 1) (fun e he => h e (by simp [alloc, he]))
      simp [cslots, reifySlots, reifySlot, h0, hr]
    | many k vs =>
      have h0 := reifyRefs_alloc g j k vs 0 i (fun e he => h e (by simp [alloc, he]))
      have hr := ih (i + vs.length) (fun e he => h e (by simp [alloc, he]))
      simp [cslots, reifySlots, reifySlot, h0, hr]


/-! ### one iteration of the loop preserves what the arena reads as -/

theorem pendGet_some_mem : ∀ (st : List CItem) (i : Nat) (x : Val), pendGet st i = some x → (x, i) ∈ st := by
  intro st
  induction st with
  | nil => intro i x h; simp [pendGet] at h
  | cons e es ih =>
    obtain ⟨v, j⟩ := e
    intro i x h
    by_cases hj : j = i
    · simp [pendGet, hj] at h; simp [h, hj]
    · simp [pendGet, hj] at h; simp [ih i x h]

theorem pendGet_none_of (st : List CItem) (r : Nat) (h : ∀ e ∈ st, e.2 ≠ r) : pendGet st r = none := by
  have := pendGet_skip st [] r h
  simpa [pendGet] using this

theorem reifyCell_scalar (g : Nat → Option Val) (v : Val) (h : v.isNode = false) :
    reifyCell g v.toCell = some v := by
  cases v <;> simp_all [Val.isNode, Val.toCell, reifyCell]

theorem step_reifyP (v : Val) (j : Nat) (st : List CItem) (A : List Cell)
    (cls : String) (ty : Option Val) (c : Comments) (m : Meta) (args : List Arg) (l : Option Link) (h0 hv : Option Nat)
    (hvdef : v = .node cls ty c m args)
    (hA : A[j]? = some (.node cls none none none [] l h0))
    (hst : ∀ e ∈ st, e.2 < A.length ∧ e.2 ≠ j) :
    ∀ f i x, reifyP ((v, j) :: st) A f i = some x →
      reifyP ((pushedOf (alloc j args A.length)).reverse ++ st)
        (A.set j (.node cls ty c m (cslots args A.length) l hv) ++ (alloc j args A.length).map cellOf)
        (f + 1) i = some x := by
  have hj := lt_of_get hA
  -- the new pending entries sit at or beyond the old end of the arena
  have hQ : ∀ e ∈ (pushedOf (alloc j args A.length)).reverse,
      ∃ e' ∈ alloc j args A.length, e'.1.isNode = true ∧ e = itemOf e' := by
    intro e he
    simp only [pushedOf, List.mem_reverse, List.mem_map, List.mem_filter] at he
    obtain ⟨e', ⟨he', hn⟩, rfl⟩ := he
    exact ⟨e', he', hn, rfl⟩
  have hbound : ∀ e' ∈ alloc j args A.length, A.length ≤ e'.2.1 := by
    intro e' he'
    have := (alloc_cell j args (A.set j (.node cls ty c m (cslots args A.length) l hv)) e'
      (by simpa using he')).2
    simpa using this
  have hK1 : ∀ i, i < A.length →
      pendGet ((pushedOf (alloc j args A.length)).reverse ++ st) i = pendGet st i := by
    intro i hi
    apply pendGet_skip
    intro e he
    obtain ⟨e', he', _, rfl⟩ := hQ e he
    have := hbound e' he'
    simp [itemOf]; omega
  have hK2 : ∀ e' ∈ alloc j args A.length, ∀ f',
      reifyP ((pushedOf (alloc j args A.length)).reverse ++ st)
        (A.set j (.node cls ty c m (cslots args A.length) l hv) ++ (alloc j args A.length).map cellOf)
        (f' + 1) e'.2.1 = some e'.1 := by
    intro e' he' f'
    by_cases hn : e'.1.isNode = true
    · have hp : pendGet ((pushedOf (alloc j args A.length)).reverse ++ st) e'.2.1 = some e'.1 := by
        apply pendGet_hit
        · simp only [pushedOf, List.mem_reverse, List.mem_map, List.mem_filter]
          exact ⟨e', ⟨he', hn⟩, rfl⟩
        · intro e he hidx
          obtain ⟨e'', he'', _, rfl⟩ := hQ e he
          have := alloc_inj j args A.length e'' e' he'' he' (by simpa [itemOf] using hidx)
          simp [itemOf, this]
      simp [reifyP, hp]
    · have hn' : e'.1.isNode = false := by simpa using hn
      have hp : pendGet ((pushedOf (alloc j args A.length)).reverse ++ st) e'.2.1 = none := by
        rw [pendGet_skip]
        · apply pendGet_none_of
          intro e he
          have := (hst e he).1
          have := hbound e' he'
          omega
        · intro e he hidx
          obtain ⟨e'', he'', hn'', rfl⟩ := hQ e he
          have := alloc_inj j args A.length e'' e' he'' he' (by simpa [itemOf] using hidx)
          rw [this] at hn''
          simp [hn'] at hn''
      have hc := (alloc_cell j args (A.set j (.node cls ty c m (cslots args A.length) l hv)) e'
        (by simpa using he')).1
      simp only [List.length_set] at hc
      simp only [reifyP, hp, hc, cellOf, withLink_scalar _ _ hn']
      exact reifyCell_scalar _ _ hn'
  intro f
  induction f with
  | zero => intro i x h; simp [reifyP] at h
  | succ f ih =>
    intro i x h
    simp only [reifyP, pendGet] at h
    by_cases hji : j = i
    · subst hji
      simp at h
      subst h
      have hp : pendGet ((pushedOf (alloc j args A.length)).reverse ++ st) j = none := by
        rw [hK1 j hj]
        exact pendGet_none_of st j (fun e he => (hst e he).2)
      have hget : (A.set j (.node cls ty c m (cslots args A.length) l hv)
          ++ (alloc j args A.length).map cellOf)[j]? = some (.node cls ty c m (cslots args A.length) l hv) :=
        get_set_append _ _ _ _ hj
      have hslots := reifySlots_alloc
        (reifyP ((pushedOf (alloc j args A.length)).reverse ++ st)
          (A.set j (.node cls ty c m (cslots args A.length) l hv) ++ (alloc j args A.length).map cellOf) (f + 1))
        j args A.length (fun e' he' => hK2 e' he' f)
      rw [reifyP]
      simp only [hp, hget, reifyCell, hslots, hvdef, Option.map_some]
    · simp only [hji, if_false] at h
      cases hps : pendGet st i with
      | some x' =>
        simp [hps] at h
        subst h
        have hi := (hst _ (pendGet_some_mem st i x' hps)).1
        rw [reifyP]
        simp [hK1 i hi, hps]
      | none =>
        simp only [hps] at h
        cases hc : A[i]? with
        | none => simp [hc] at h
        | some c0 =>
          simp only [hc] at h
          have hi := lt_of_get hc
          have hget : (A.set j (.node cls ty c m (cslots args A.length) l hv)
              ++ (alloc j args A.length).map cellOf)[i]? = some c0 := by
            rw [List.getElem?_append_left (by simpa using hi), List.getElem?_set_ne hji, hc]
          rw [reifyP]
          simp only [hK1 i hi, hps, hget]
          exact reifyCell_mono (fun r y hr => ih r y hr) c0 x h


/-! ### the reading does not depend on the fuel once it covers the value -/

theorem reifyRefs_fuel (A : List Cell) (f : Nat)
    (ih : ∀ i x, reify A f i = some x → ∀ f', x.size ≤ f' → reify A f' i = some x) :
    ∀ (rs : List Nat) (vs : List Val), reifyRefs (reify A f) rs = some vs →
      ∀ f', sizeVals vs ≤ f' → reifyRefs (reify A f') rs = some vs := by
  intro rs
  induction rs with
  | nil => intro vs h f' _; simpa [reifyRefs] using h
  | cons r rs ihr =>
    intro vs h f' hf
    simp only [reifyRefs] at h ⊢
    cases h1 : reify A f r with
    | none => simp [h1] at h
    | some y =>
      cases h2 : reifyRefs (reify A f) rs with
      | none => simp [h1, h2] at h
      | some ys =>
        simp [h1, h2] at h
        subst h
        simp only [sizeVals] at hf
        simp [ih r y h1 f' (by omega), ihr ys h2 f' (by omega)]

theorem reifySlots_fuel (A : List Cell) (f : Nat)
    (ih : ∀ i x, reify A f i = some x → ∀ f', x.size ≤ f' → reify A f' i = some x) :
    ∀ (s : Slots) (as : List Arg), reifySlots (reify A f) s = some as →
      ∀ f', sizeArgs as ≤ f' → reifySlots (reify A f') s = some as := by
  intro s
  induction s with
  | nil => intro as h f' _; simpa [reifySlots] using h
  | cons x xs ihs =>
    obtain ⟨k, sl⟩ := x
    intro as h f' hf
    simp only [reifySlots] at h ⊢
    cases h1 : reifySlot (reify A f) k sl with
    | none => simp [h1] at h
    | some a =>
      cases h2 : reifySlots (reify A f) xs with
      | none => simp [h1, h2] at h
      | some ys =>
        simp [h1, h2] at h
        subst h
        simp only [sizeArgs] at hf
        have h1' : reifySlot (reify A f') k sl = some a := by
          cases sl with
          | one r =>
            simp only [reifySlot] at h1 ⊢
            cases h3 : reify A f r with
            | none => simp [h3] at h1
            | some y =>
              simp [h3] at h1; subst h1
              simp only [Arg.size] at hf
              simp [ih r y h3 f' (by omega)]
          | many rs =>
            simp only [reifySlot] at h1 ⊢
            cases h3 : reifyRefs (reify A f) rs with
            | none => simp [h3] at h1
            | some ys' =>
              simp [h3] at h1; subst h1
              simp only [Arg.size] at hf
              simp [reifyRefs_fuel A f ih rs ys' h3 f' (by omega)]
        simp [h1', ihs ys h2 f' (by omega)]

theorem reify_fuel (A : List Cell) : ∀ f i x, reify A f i = some x → ∀ f', x.size ≤ f' → reify A f' i = some x := by
  intro f
  induction f with
  | zero => intro i x h; simp [reify] at h
  | succ f ih =>
    intro i x h f' hf
    simp only [reify] at h
    cases hc : A[i]? with
    | none => simp [hc] at h
    | some c0 =>
      simp only [hc] at h
      cases f' with
      | zero => cases x <;> simp [Val.size] at hf
      | succ f' =>
        simp only [reify, hc]
        cases c0 with
        | node cls ty cm m args l hs =>
          simp only [reifyCell] at h ⊢
          cases h1 : reifySlots (reify A f) args with
          | none => simp [h1] at h
          | some as =>
            simp [h1] at h
            subst h
            simp only [Val.size] at hf
            simp [reifySlots_fuel A f ih args as h1 f' (by omega)]
        | dtype s => simpa [reifyCell] using h
        | raw r => simpa [reifyCell] using h

/-! ### what one args pass pushes -/

def stSize : List CItem → Nat
  | [] => 0
  | e :: es => e.1.size + stSize es

theorem stSize_append (a b : List CItem) : stSize (a ++ b) = stSize a + stSize b := by
  induction a with
  | nil => simp [stSize]
  | cons e es ih => simp [stSize, ih, Nat.add_assoc]

theorem stSize_reverse (a : List CItem) : stSize a.reverse = stSize a := by
  induction a with
  | nil => rfl
  | cons e es ih => simp [stSize_append, stSize, ih, Nat.add_comm]

theorem pushedOf_append (a b : List (Val × Nat × Link)) : pushedOf (a ++ b) = pushedOf a ++ pushedOf b := by
  simp [pushedOf]

theorem pushedOf_cons_le (e : Val × Nat × Link) (l : List (Val × Nat × Link)) :
    stSize (pushedOf (e :: l)) ≤ e.1.size + stSize (pushedOf l) := by
  by_cases hn : e.1.isNode = true
  · simp [pushedOf, List.filter_cons, hn, stSize, itemOf]
  · simp [pushedOf, List.filter_cons, hn]

theorem allocVals_size (j : Nat) (k : String) : ∀ (vs : List Val) (p i : Nat),
    stSize (pushedOf (allocVals j k vs p i)) ≤ sizeVals vs := by
  intro vs
  induction vs with
  | nil => intro p i; simp [allocVals, pushedOf, stSize]
  | cons v vs ih =>
    intro p i
    have h1 := pushedOf_cons_le (v, i, ⟨j, k, some p⟩) (allocVals j k vs (p + 1) (i + 1))
    have h2 := ih (p + 1) (i + 1)
    simp only [allocVals, sizeVals]
    simp only at h1
    omega

theorem alloc_size (j : Nat) : ∀ (args : List Arg) (i : Nat), stSize (pushedOf (alloc j args i)) ≤ sizeArgs args := by
  intro args
  induction args with
  | nil => intro i; simp [alloc, pushedOf, stSize]
  | cons a rest ih =>
    intro i
    cases a with
    | one k v =>
      have h1 := pushedOf_cons_le (v, i, ⟨j, k, none⟩) (alloc j rest (i + 1))
      have h2 := ih (i + 1)
      simp only [alloc, sizeArgs, Arg.size]
      simp only at h1
      omega
    | many k vs =>
      have h1 := allocVals_size j k vs 0 i
      have h2 := ih (i + vs.length)
      simp only [alloc, sizeArgs, Arg.size, pushedOf_append, stSize_append]
      omega

theorem allocVals_wf (j : Nat) (k : String) : ∀ (vs : List Val) (p i : Nat), wfVals vs →
    ∀ e ∈ allocVals j k vs p i, e.1.WF := by
  intro vs
  induction vs with
  | nil => intro p i _ e he; simp [allocVals] at he
  | cons v vs ih =>
    intro p i hw e he
    simp only [wfVals] at hw
    simp only [allocVals, List.mem_cons] at he
    rcases he with h | h
    · subst h; exact hw.1
    · exact ih (p + 1) (i + 1) hw.2 e h

theorem alloc_wf (j : Nat) : ∀ (args : List Arg) (i : Nat), wfArgs args → ∀ e ∈ alloc j args i, e.1.WF := by
  intro args
  induction args with
  | nil => intro i _ e he; simp [alloc] at he
  | cons a rest ih =>
    intro i hw e he
    simp only [wfArgs] at hw
    cases a with
    | one k v =>
      simp only [alloc, List.mem_cons] at he
      rcases he with h | h
      · subst h; exact hw.1
      · exact ih (i + 1) hw.2 e h
    | many k vs =>
      simp only [alloc, List.mem_append] at he
      rcases he with h | h
      · exact allocVals_wf j k vs 0 i hw.1 e h
      · exact ih (i + vs.length) hw.2 e h

theorem alloc_sorted (j : Nat) (args : List Arg) (i : Nat) :
    (alloc j args i).Pairwise (fun a b => a.2.1 ≠ b.2.1) := by
  rw [List.pairwise_iff_getElem]
  intro s t hs ht hst
  have h1 := alloc_get j args i s _ (List.getElem?_eq_getElem hs)
  have h2 := alloc_get j args i t _ (List.getElem?_eq_getElem ht)
  omega


/-! ### the loop -/

/-- every stack entry is a well-formed source node paired with a still-empty instance of its class; no index twice -/
structure PendOK (st : List CItem) (A : List Cell) : Prop where
  items : ∀ e ∈ st, ∃ cls ty c m args l h, e.1 = Val.node cls ty c m args ∧ e.1.WF ∧
    A[e.2]? = some (Cell.node cls none none none [] l h)
  uniq : st.Pairwise (fun a b => a.2 ≠ b.2)

theorem copyMetaL_id (cp : Val → Option Val) : ∀ (l : List MetaE),
    (∀ k v, MetaE.expr k v ∈ l → cp v = some v) → copyMetaLWith cp l = some l := by
  intro l
  induction l with
  | nil => intro _; rfl
  | cons e es ih =>
    intro h
    have hr := ih (fun k v hm => h k v (by simp [hm]))
    cases e with
    | raw k r => simp [copyMetaLWith, hr]
    | expr k v => simp [copyMetaLWith, hr, h k v (by simp)]

theorem metaL_size_le : ∀ (l : List MetaE) (k : String) (v : Val), MetaE.expr k v ∈ l → v.size ≤ sizeMetaL l := by
  intro l
  induction l with
  | nil => intro k v h; simp at h
  | cons e es ih =>
    intro k v h
    simp only [List.mem_cons] at h
    rcases h with h | h
    · subst h; simp [sizeMetaL, MetaE.size]
    · have := ih k v h; simp only [sizeMetaL]; omega

theorem metaL_wf : ∀ (l : List MetaE) (k : String) (v : Val), wfMetaL l → MetaE.expr k v ∈ l →
    v.isNode = true ∧ v.WF := by
  intro l
  induction l with
  | nil => intro k v _ h; simp at h
  | cons e es ih =>
    intro k v hw h
    simp only [wfMetaL] at hw
    simp only [List.mem_cons] at h
    rcases h with h | h
    · subst h; simpa [MetaE.WF] using hw.1
    · exact ih k v hw.2 h

theorem copyLoopS_ok (hashOf : Val → Option Nat) : ∀ (fuel : Nat) (st : List CItem) (A : List Cell),
    PendOK st A → stSize st ≤ fuel →
    ∃ B, copyLoopWith attachS hashOf fuel st A = some B ∧
      ∀ f i x, reifyP st A f i = some x → ∃ f', reify B f' i = some x := by
  intro fuel
  induction fuel with
  | zero =>
    intro st A hP hs
    cases st with
    | nil => exact ⟨A, by simp [copyLoopWith], fun f i x h => ⟨f, by rw [← reifyP_nil]; exact h⟩⟩
    | cons e es =>
      obtain ⟨cls, ty, c, m, args, l, h, hv, _, _⟩ := hP.items e (by simp)
      simp only [stSize, hv, Val.size] at hs
      omega
  | succ fuel ih =>
    intro st A hP hs
    cases st with
    | nil => exact ⟨A, by simp [copyLoopWith], fun f i x h => ⟨f, by rw [← reifyP_nil]; exact h⟩⟩
    | cons e st' =>
      obtain ⟨v, j⟩ := e
      obtain ⟨cls, ty, c, m, args, l, h0, hv, hwf, hA⟩ := hP.items (v, j) (by simp)
      simp only at hv hwf hA
      subst hv
      simp only [Val.WF] at hwf
      obtain ⟨hcls, hty, hmt, hnd, hargs⟩ := hwf
      simp only [stSize, Val.size] at hs
      have hj := lt_of_get hA
      have huniq := List.pairwise_cons.mp hP.uniq
      have hst : ∀ e ∈ st', e.2 < A.length ∧ e.2 ≠ j := by
        intro e he
        obtain ⟨_, _, _, _, _, _, _, _, _, hAe⟩ := hP.items e (by simp [he])
        exact ⟨lt_of_get hAe, fun h => huniq.1 e he h.symm⟩
      -- nested copies (of `_type`, of Expressions in `_meta`) return their argument
      have hcp : ∀ t : Val, t.WF → t.size ≤ fuel →
          (if t.isNode then (copyLoopWith attachS hashOf fuel [(t, 0)] [t.toCell]).bind fun B => reify B t.size 0
            else some t) = some t := by
        intro t htw hts
        by_cases hn : t.isNode = true
        · simp only [hn, if_true]
          cases t with
          | node cls' ty' c' m' args' =>
            have hP' : PendOK [(Val.node cls' ty' c' m' args', 0)] [(Val.node cls' ty' c' m' args').toCell] := by
              refine ⟨?_, by simp⟩
              intro e he
              simp at he; subst he
              exact ⟨cls', ty', c', m', args', none, none, rfl, htw, by simp [Val.toCell, emptyCell]⟩
            obtain ⟨B, hB, hread⟩ := ih _ _ hP' (by simpa [stSize] using hts)
            obtain ⟨f', hf'⟩ := hread 1 0 (Val.node cls' ty' c' m' args') (by simp [reifyP, pendGet])
            have := reify_fuel B f' 0 _ hf' _ (Nat.le_refl _)
            simp [hB, this]
          | dtype s => simp [Val.isNode] at hn
          | raw r => simp [Val.isNode] at hn
        · simp [hn]
      have hTy : copyTyWith (fun t => if t.isNode then
            (copyLoopWith attachS hashOf fuel [(t, 0)] [t.toCell]).bind fun B => reify B t.size 0 else some t) ty
          = some ty := by
        cases ty with
        | none => rfl
        | some t =>
          simp only [wfOpt] at hty
          simp only [sizeOpt] at hs
          simp [copyTyWith, hcp t hty.2 (by omega)]
      have hMeta : copyMetaWith (fun t => if t.isNode then
            (copyLoopWith attachS hashOf fuel [(t, 0)] [t.toCell]).bind fun B => reify B t.size 0 else some t) m
          = some m := by
        cases m with
        | none => rfl
        | some lm =>
          simp only [wfMeta] at hmt
          simp only [sizeMeta] at hs
          have := copyMetaL_id _ lm (fun k v hm => by
            have hw := metaL_wf lm k v hmt hm
            have hsz := metaL_size_le lm k v hm
            exact hcp v hw.2 (by omega))
          simp [copyMetaWith, this]
      have hfill : fillCell A j c ty m (hashOf (Val.node cls ty c m args)) =
          some (A.set j (.node cls ty c m [] l (hashOf (Val.node cls ty c m args)))) := by
        simp [fillCell, hA]
      have hA1 : (A.set j (Cell.node cls ty c m [] l (hashOf (Val.node cls ty c m args))))[j]? =
          some (.node cls ty c m [] l (hashOf (Val.node cls ty c m args))) := by simp [hj]
      have hargsC := copyArgs_closed j args hnd _ [] cls ty c m [] l (hashOf (Val.node cls ty c m args))
        (by simp [keysS]) hA1
      simp only [List.length_set, List.set_set, List.nil_append] at hargsC
      -- the new state
      have hbound : ∀ e' ∈ alloc j args A.length, A.length ≤ e'.2.1 := by
        intro e' he'
        have := (alloc_cell j args (A.set j (.node cls ty c m (cslots args A.length) l
          (hashOf (Val.node cls ty c m args)))) e' (by simpa using he')).2
        simpa using this
      have hQ : ∀ e ∈ (pushedOf (alloc j args A.length)).reverse,
          ∃ e' ∈ alloc j args A.length, e'.1.isNode = true ∧ e = itemOf e' := by
        intro e he
        simp only [pushedOf, List.mem_reverse, List.mem_map, List.mem_filter] at he
        obtain ⟨e', ⟨he', hn⟩, rfl⟩ := he
        exact ⟨e', he', hn, rfl⟩
      have hP2 : PendOK ((pushedOf (alloc j args A.length)).reverse ++ st')
          (A.set j (.node cls ty c m (cslots args A.length) l (hashOf (Val.node cls ty c m args)))
            ++ (alloc j args A.length).map cellOf) := by
        refine ⟨?_, ?_⟩
        · intro e he
          simp only [List.mem_append] at he
          rcases he with he | he
          · obtain ⟨e', he', hn, rfl⟩ := hQ e he
            have hc := (alloc_cell j args (A.set j (.node cls ty c m (cslots args A.length) l
              (hashOf (Val.node cls ty c m args)))) e' (by simpa using he')).1
            simp only [List.length_set] at hc
            have hw := alloc_wf j args A.length hargs e' he'
            obtain ⟨ev, ei, el⟩ := e'
            cases ev with
            | node cls' ty' c' m' args' =>
              exact ⟨cls', ty', c', m', args', some el, none, rfl, hw,
                by simpa [itemOf, cellOf, Val.toCell, emptyCell, Cell.withLink] using hc⟩
            | dtype s => simp [Val.isNode] at hn
            | raw r => simp [Val.isNode] at hn
          · obtain ⟨cls', ty', c', m', args', l', h', hv', hw', hAe⟩ := hP.items e (by simp [he])
            have hb := hst e he
            refine ⟨cls', ty', c', m', args', l', h', hv', hw', ?_⟩
            rw [List.getElem?_append_left (by simpa using hb.1), List.getElem?_set_ne (fun h => hb.2 h.symm), hAe]
        · rw [List.pairwise_append]
          refine ⟨?_, huniq.2, ?_⟩
          · rw [List.pairwise_reverse]
            simp only [pushedOf, List.pairwise_map]
            apply List.Pairwise.filter
            exact (alloc_sorted j args A.length).imp (fun h => by simpa [itemOf] using fun e => h e.symm)
          · intro a ha b hb
            obtain ⟨e', he', _, rfl⟩ := hQ a ha
            have h1 := hbound e' he'
            have h2 := (hst b hb).1
            simp [itemOf]; omega
      have hsz2 : stSize ((pushedOf (alloc j args A.length)).reverse ++ st') ≤ fuel := by
        rw [stSize_append, stSize_reverse]
        have := alloc_size j args A.length
        omega
      obtain ⟨B, hB, hread⟩ := ih _ _ hP2 hsz2
      refine ⟨B, ?_, ?_⟩
      · simp only [copyLoopWith, hTy, hMeta, hfill, hargsC]
        exact hB
      · intro f i x hx
        have := step_reifyP (Val.node cls ty c m args) j st' A cls ty c m args l h0
          (hashOf (Val.node cls ty c m args)) rfl hA hst f i x hx
        exact hread _ i x this

/-- **structure**: the copy built by the iterative loop (with `set` / `append` stripped of hash invalidation), read
    back, is the source tree — every arg kept, `None` values and empty lists included -/
theorem copyS_eq (hashOf : Val → Option Nat) (t : Val) (hwf : t.WF) (hn : t.isNode = true) :
    ∃ B, copyLoopWith attachS hashOf t.size [(t, 0)] [t.toCell] = some B ∧ reify B t.size 0 = some t := by
  cases t with
  | node cls ty c m args =>
    have hP : PendOK [(Val.node cls ty c m args, 0)] [(Val.node cls ty c m args).toCell] := by
      refine ⟨?_, by simp⟩
      intro e he
      simp at he; subst he
      exact ⟨cls, ty, c, m, args, none, none, rfl, hwf, by simp [Val.toCell, emptyCell]⟩
    obtain ⟨B, hB, hread⟩ := copyLoopS_ok hashOf (Val.node cls ty c m args).size _ _ hP (by simp [stSize])
    obtain ⟨f', hf'⟩ := hread 1 0 (Val.node cls ty c m args) (by simp [reifyP, pendGet])
    exact ⟨B, hB, reify_fuel B f' 0 _ hf' _ (Nat.le_refl _)⟩
  | dtype s => simp [Val.isNode] at hn
  | raw r => simp [Val.isNode] at hn


/-! ## Part C: the hash-invalidation walk changes nothing but `_hash` fields, so the real loop builds the same structure -/

def eH : Cell → Cell
  | .node cls ty c m args l _ => .node cls ty c m args l none
  | c => c

def mapE (A : List Cell) : List Cell := A.map eH

theorem mapE_length (A : List Cell) : (mapE A).length = A.length := by simp [mapE]

theorem mapE_len_eq {A A' : List Cell} (h : mapE A = mapE A') : A.length = A'.length := by
  have := congrArg List.length h
  simpa [mapE] using this

theorem mapE_get {A A' : List Cell} (h : mapE A = mapE A') (x : Nat) : (A[x]?).map eH = (A'[x]?).map eH := by
  have := congrArg (fun L => L[x]?) h
  simpa [mapE] using this

theorem eH_node {c : Cell} {cls ty cm m args l h} (hc : eH c = .node cls ty cm m args l h) :
    ∃ h', c = .node cls ty cm m args l h' := by
  cases c with
  | node cls' ty' cm' m' args' l' h' => simp [eH] at hc; obtain ⟨rfl, rfl, rfl, rfl, rfl, rfl, _⟩ := hc; exact ⟨h', rfl⟩
  | dtype s => simp [eH] at hc
  | raw r => simp [eH] at hc

theorem mapE_set (A : List Cell) (j : Nat) (c : Cell) : mapE (A.set j c) = (mapE A).set j (eH c) := by
  simp [mapE, List.map_set]

theorem mapE_set_same (A : List Cell) (j : Nat) (c c' : Cell) (hc : A[j]? = some c) (he : eH c' = eH c) :
    mapE (A.set j c') = mapE A := by
  rw [mapE_set, he]
  apply set_self
  simp [mapE, hc]

theorem clearUp_mapE : ∀ (fuel : Nat) (A : List Cell) (i : Nat), mapE (clearUp A fuel i) = mapE A := by
  intro fuel
  induction fuel with
  | zero => intro A i; rfl
  | succ n ih =>
    intro A i
    simp only [clearUp]
    split
    · rename_i cls ty c m args l hh hget
      have hs : mapE (A.set i (Cell.node cls ty c m args l none)) = mapE A :=
        mapE_set_same A i _ _ hget (by simp [eH])
      split
      · rw [ih, hs]
      · exact hs
    · rfl

theorem withLink_eH (c : Cell) (l : Link) : eH (c.withLink l) = (eH c).withLink l := by
  cases c <;> simp [eH, Cell.withLink]

theorem isRawNull_eH (c : Cell) : (eH c).isRawNull = c.isRawNull := by
  cases c with
  | node => simp [eH, Cell.isRawNull]
  | dtype => simp [eH]
  | raw r => simp [eH]

/-- `attach` and `attachS` agree up to `_hash` fields, on arenas that agree up to `_hash` fields -/
theorem attach_sim {A A' : List Cell} (h : mapE A = mapE A') (cell : Cell) (j : Nat) (k : String) (arr : Bool) :
    (attach A cell j k arr).map mapE = (attachS A' cell j k arr).map mapE := by
  have hlen := mapE_len_eq h
  unfold attach attachS
  by_cases hj : j < A.length
  · have hj' : j < A'.length := by omega
    simp only [hj, hj', if_true]
    have hB : mapE (clearUp A A.length j) = mapE A' := by rw [clearUp_mapE, h]
    have hBlen := mapE_len_eq hB
    have hg := mapE_get hB j
    cases hc : (clearUp A A.length j)[j]? with
    | none =>
      have := (List.getElem?_eq_none_iff.mp hc)
      omega
    | some c0 =>
      cases hc' : A'[j]? with
      | none =>
        have := (List.getElem?_eq_none_iff.mp hc')
        omega
      | some c1 =>
        simp only [hc, hc', Option.map_some, Option.some.injEq] at hg
        cases c0 with
        | node cls ty c m args l hh =>
          have : eH c1 = .node cls ty c m args l none := by rw [← hg]; simp [eH]
          obtain ⟨h1, rfl⟩ := eH_node this
          simp only [Option.map_some, Option.some.injEq, hlen]
          simp only [mapE, List.map_append, List.map_set, List.map_cons, List.map_nil, eH]
          have hB' : ∀ f, List.map eH (clearUp A f j) = List.map eH A' := fun f => (clearUp_mapE f A j).trans h
          rw [hB']
        | dtype s =>
          have : c1 = .dtype s := by cases c1 <;> simp_all [eH]
          subst this; simp
        | raw r =>
          have : c1 = .raw r := by cases c1 <;> simp_all [eH]
          subst this; simp
  · have hj' : ¬ j < A'.length := by omega
    simp [hj, hj']

theorem fillCell_sim {A A' : List Cell} (h : mapE A = mapE A') (j : Nat) (c : Comments) (ty : Option Val) (m : Meta)
    (hv : Option Nat) : (fillCell A j c ty m hv).map mapE = (fillCell A' j c ty m hv).map mapE := by
  have hg := mapE_get h j
  unfold fillCell
  cases hc : A[j]? with
  | none =>
    cases hc' : A'[j]? with
    | none => rfl
    | some c1 => simp [hc, hc'] at hg
  | some c0 =>
    cases hc' : A'[j]? with
    | none => simp [hc, hc'] at hg
    | some c1 =>
      simp only [hc, hc', Option.map_some, Option.some.injEq] at hg
      cases c0 with
      | node cls ty0 c0' m0 args l hh =>
        have : eH c1 = .node cls ty0 c0' m0 args l none := by rw [← hg]; simp [eH]
        obtain ⟨h1, rfl⟩ := eH_node this
        simp only [Option.map_some, Option.some.injEq, mapE_set, h]
      | dtype s =>
        have : c1 = .dtype s := by cases c1 <;> simp_all [eH]
        subst this; rfl
      | raw r =>
        have : c1 = .raw r := by cases c1 <;> simp_all [eH]
        subst this; rfl

theorem assignArg_sim {A A' : List Cell} (h : mapE A = mapE A') (j : Nat) (k : String) (s : Slot) (cells : List Cell) :
    (assignArg A j k s cells).map mapE = (assignArg A' j k s cells).map mapE := by
  have hg := mapE_get h j
  unfold assignArg
  cases hc : A[j]? with
  | none =>
    cases hc' : A'[j]? with
    | none => rfl
    | some c1 => simp [hc, hc'] at hg
  | some c0 =>
    cases hc' : A'[j]? with
    | none => simp [hc, hc'] at hg
    | some c1 =>
      simp only [hc, hc', Option.map_some, Option.some.injEq] at hg
      cases c0 with
      | node cls ty0 c0' m0 args l hh =>
        have : eH c1 = .node cls ty0 c0' m0 args l none := by rw [← hg]; simp [eH]
        obtain ⟨h1, rfl⟩ := eH_node this
        simp only [Option.map_some, Option.some.injEq]
        simp only [mapE, List.map_append, List.map_set, eH]
        have h' : List.map eH A = List.map eH A' := h
        rw [h']
      | dtype s' =>
        have : c1 = .dtype s' := by cases c1 <;> simp_all [eH]
        subst this; rfl
      | raw r =>
        have : c1 = .raw r := by cases c1 <;> simp_all [eH]
        subst this; rfl

def mapEP (r : Option (List Cell × List CItem)) : Option (List Cell × List CItem) :=
  r.map fun x => (mapE x.1, x.2)

theorem copyVals_sim (j : Nat) (k : String) : ∀ (vs : List Val) (A A' : List Cell) (pushed : List CItem),
    mapE A = mapE A' → mapEP (copyVals attach j k vs A pushed) = mapEP (copyVals attachS j k vs A' pushed) := by
  intro vs
  induction vs with
  | nil => intro A A' pushed h; simp [copyVals, mapEP, h]
  | cons v vs ih =>
    intro A A' pushed h
    have hs := attach_sim h v.toCell j k true
    have hlen := mapE_len_eq h
    simp only [copyVals]
    cases h1 : attach A v.toCell j k true with
    | none =>
      cases h2 : attachS A' v.toCell j k true with
      | none => rfl
      | some B' => simp [h1, h2] at hs
    | some B =>
      cases h2 : attachS A' v.toCell j k true with
      | none => simp [h1, h2] at hs
      | some B' =>
        simp only [h1, h2, Option.map_some, Option.some.injEq] at hs
        simp only [hlen]
        exact ih B B' _ hs

theorem copyArgs_sim (j : Nat) : ∀ (args : List Arg) (A A' : List Cell) (pushed : List CItem),
    mapE A = mapE A' → mapEP (copyArgs attach j args A pushed) = mapEP (copyArgs attachS j args A' pushed) := by
  intro args
  induction args with
  | nil => intro A A' pushed h; simp [copyArgs, mapEP, h]
  | cons a rest ih =>
    intro A A' pushed h
    have hlen := mapE_len_eq h
    cases a with
    | one k v =>
      simp only [copyArgs]
      by_cases hn : v.isNode = true
      · simp only [hn, if_true]
        have hs := attach_sim h v.toCell j k false
        cases h1 : attach A v.toCell j k false with
        | none =>
          cases h2 : attachS A' v.toCell j k false with
          | none => rfl
          | some B' => simp [h1, h2] at hs
        | some B =>
          cases h2 : attachS A' v.toCell j k false with
          | none => simp [h1, h2] at hs
          | some B' =>
            simp only [h1, h2, Option.map_some, Option.some.injEq] at hs
            simp only [hlen]
            exact ih B B' _ hs
      · simp only [hn, Bool.false_eq_true, if_false]
        have hs := assignArg_sim h j k (.one A.length) [v.toCell]
        rw [hlen] at hs ⊢
        cases h1 : assignArg A j k (.one A'.length) [v.toCell] with
        | none =>
          cases h2 : assignArg A' j k (.one A'.length) [v.toCell] with
          | none => rfl
          | some B' => simp [h1, h2] at hs
        | some B =>
          cases h2 : assignArg A' j k (.one A'.length) [v.toCell] with
          | none => simp [h1, h2] at hs
          | some B' =>
            simp only [h1, h2, Option.map_some, Option.some.injEq] at hs
            exact ih B B' _ hs
    | many k vs =>
      simp only [copyArgs]
      have hs := assignArg_sim h j k (.many []) []
      cases h1 : assignArg A j k (.many []) [] with
      | none =>
        cases h2 : assignArg A' j k (.many []) [] with
        | none => rfl
        | some B' => simp [h1, h2] at hs
      | some B =>
        cases h2 : assignArg A' j k (.many []) [] with
        | none => simp [h1, h2] at hs
        | some B' =>
          simp only [h1, h2, Option.map_some, Option.some.injEq] at hs
          have hv := copyVals_sim j k vs B B' pushed hs
          dsimp only
          cases h3 : copyVals attach j k vs B pushed with
          | none =>
            cases h4 : copyVals attachS j k vs B' pushed with
            | none => simp [mapEP]
            | some r' => simp [h3, h4, mapEP] at hv
          | some r =>
            cases h4 : copyVals attachS j k vs B' pushed with
            | none => simp [h3, h4, mapEP] at hv
            | some r' =>
              obtain ⟨B1, p1⟩ := r
              obtain ⟨B1', p1'⟩ := r'
              simp only [h3, h4, mapEP, Option.map_some, Option.some.injEq, Prod.mk.injEq] at hv
              obtain ⟨hb, hp⟩ := hv
              subst hp
              dsimp only
              exact ih B1 B1' p1 hb

theorem reifyCell_eH (g : Nat → Option Val) (c : Cell) : reifyCell g (eH c) = reifyCell g c := by
  cases c <;> simp [eH, reifyCell]

theorem reify_mapE (A : List Cell) : ∀ f i, reify (mapE A) f i = reify A f i := by
  intro f
  induction f with
  | zero => intro i; rfl
  | succ n ih =>
    intro i
    have : reify (mapE A) n = reify A n := funext ih
    simp only [reify, this]
    cases hc : A[i]? with
    | none => simp [mapE, hc]
    | some c => simp [mapE, hc, reifyCell_eH]

theorem reify_of_mapE_eq {A A' : List Cell} (h : mapE A = mapE A') (f i : Nat) : reify A f i = reify A' f i := by
  rw [← reify_mapE A, ← reify_mapE A', h]

theorem copyLoop_sim (hashOf : Val → Option Nat) : ∀ (fuel : Nat) (st : List CItem) (A A' : List Cell),
    mapE A = mapE A' →
    (copyLoopWith attach hashOf fuel st A).map mapE = (copyLoopWith attachS hashOf fuel st A').map mapE := by
  intro fuel
  induction fuel with
  | zero =>
    intro st A A' h
    cases st with
    | nil => simp [copyLoopWith, h]
    | cons e es => simp [copyLoopWith]
  | succ fuel ih =>
    intro st A A' h
    cases st with
    | nil => simp [copyLoopWith, h]
    | cons e st' =>
      obtain ⟨v, j⟩ := e
      cases v with
      | dtype s => simp [copyLoopWith]
      | raw r => simp [copyLoopWith]
      | node cls ty c m args =>
        -- the nested copies agree
        have hcp : (fun t : Val => if t.isNode then
              (copyLoopWith attach hashOf fuel [(t, 0)] [t.toCell]).bind fun B => reify B t.size 0 else some t)
            = (fun t : Val => if t.isNode then
              (copyLoopWith attachS hashOf fuel [(t, 0)] [t.toCell]).bind fun B => reify B t.size 0 else some t) := by
          funext t
          by_cases hn : t.isNode = true
          · simp only [hn, if_true]
            have := ih [(t, 0)] [t.toCell] [t.toCell] rfl
            cases h1 : copyLoopWith attach hashOf fuel [(t, 0)] [t.toCell] with
            | none =>
              cases h2 : copyLoopWith attachS hashOf fuel [(t, 0)] [t.toCell] with
              | none => rfl
              | some B' => simp [h1, h2] at this
            | some B =>
              cases h2 : copyLoopWith attachS hashOf fuel [(t, 0)] [t.toCell] with
              | none => simp [h1, h2] at this
              | some B' =>
                simp only [h1, h2, Option.map_some, Option.some.injEq] at this
                simp [reify_of_mapE_eq this]
          · simp [hn]
        simp only [copyLoopWith, hcp]
        generalize copyTyWith _ ty = oty
        generalize copyMetaWith _ m = om
        cases oty with
        | none => rfl
        | some ty' =>
          cases om with
          | none => rfl
          | some m' =>
            simp only
            have hf := fillCell_sim h j c ty' m' (hashOf (Val.node cls ty c m args))
            cases h1 : fillCell A j c ty' m' (hashOf (Val.node cls ty c m args)) with
            | none =>
              cases h2 : fillCell A' j c ty' m' (hashOf (Val.node cls ty c m args)) with
              | none => rfl
              | some B' => simp [h1, h2] at hf
            | some B =>
              cases h2 : fillCell A' j c ty' m' (hashOf (Val.node cls ty c m args)) with
              | none => simp [h1, h2] at hf
              | some B' =>
                simp only [h1, h2, Option.map_some, Option.some.injEq] at hf
                have ha := copyArgs_sim j args B B' [] hf
                dsimp only
                cases h3 : copyArgs attach j args B [] with
                | none =>
                  cases h4 : copyArgs attachS j args B' [] with
                  | none => simp
                  | some r' => simp [h3, h4, mapEP] at ha
                | some r =>
                  cases h4 : copyArgs attachS j args B' [] with
                  | none => simp [h3, h4, mapEP] at ha
                  | some r' =>
                    obtain ⟨B1, p1⟩ := r
                    obtain ⟨B1', p1'⟩ := r'
                    simp only [h3, h4, mapEP, Option.map_some, Option.some.injEq, Prod.mk.injEq] at ha
                    obtain ⟨hb, hp⟩ := ha
                    subst hp
                    dsimp only
                    exact ih _ B1 B1' hb

/-- **`copy t = t`** for the real loop (`set` / `append` with their hash invalidation): structure, types, comments,
    meta and every arg — `None` values and empty lists included — are reproduced exactly -/
theorem copy_eq_real (hashOf : Val → Option Nat) (t : Val) (hwf : t.WF) (hn : t.isNode = true) :
    copy hashOf t = some t := by
  obtain ⟨B, hB, hr⟩ := copyS_eq hashOf t hwf hn
  have hs := copyLoop_sim hashOf t.size [(t, 0)] [t.toCell] [t.toCell] rfl
  unfold copy copyArena copyLoop
  cases h1 : copyLoopWith attach hashOf t.size [(t, 0)] [t.toCell] with
  | none => simp [h1, hB] at hs
  | some B0 =>
    simp only [h1, hB, Option.map_some, Option.some.injEq] at hs
    simp [reify_of_mapE_eq hs, hr]


/-! ## Part D: invariants of the copy's object graph (real loop): closed and acyclic; hashes only from the source -/

/-- any property of arenas kept by the four heap operations of `__deepcopy__` holds of the finished copy -/
theorem copyVals_pres (att : Attach) (P : List Cell → Prop)
    (hatt : ∀ A (v : Val) j k arr A', P A → att A v.toCell j k arr = some A' → P A')
    (j : Nat) (k : String) : ∀ (vs : List Val) (A : List Cell) (pushed : List CItem) (r : List Cell × List CItem),
    P A → copyVals att j k vs A pushed = some r → P r.1 := by
  intro vs
  induction vs with
  | nil => intro A pushed r hP h; simp [copyVals] at h; subst h; exact hP
  | cons v vs ih =>
    intro A pushed r hP h
    simp only [copyVals] at h
    cases h1 : att A v.toCell j k true with
    | none => simp [h1] at h
    | some A' =>
      simp only [h1] at h
      exact ih A' _ r (hatt A v j k true A' hP h1) h

theorem copyArgs_pres (att : Attach) (P : List Cell → Prop)
    (hatt : ∀ A (v : Val) j k arr A', P A → att A v.toCell j k arr = some A' → P A')
    (hassign1 : ∀ A j k (v : Val) A', P A → v.isNode = false →
      assignArg A j k (.one A.length) [v.toCell] = some A' → P A')
    (hassign0 : ∀ A j k A', P A → assignArg A j k (.many []) [] = some A' → P A')
    (j : Nat) : ∀ (args : List Arg) (A : List Cell) (pushed : List CItem) (r : List Cell × List CItem),
    P A → copyArgs att j args A pushed = some r → P r.1 := by
  intro args
  induction args with
  | nil => intro A pushed r hP h; simp [copyArgs] at h; subst h; exact hP
  | cons a rest ih =>
    intro A pushed r hP h
    cases a with
    | one k v =>
      simp only [copyArgs] at h
      by_cases hn : v.isNode = true
      · simp only [hn, if_true] at h
        cases h1 : att A v.toCell j k false with
        | none => simp [h1] at h
        | some A' =>
          simp only [h1] at h
          exact ih A' _ r (hatt A v j k false A' hP h1) h
      · have hn' : v.isNode = false := by simpa using hn
        simp only [hn', Bool.false_eq_true, if_false] at h
        cases h1 : assignArg A j k (.one A.length) [v.toCell] with
        | none => simp [h1] at h
        | some A' =>
          simp only [h1] at h
          exact ih A' _ r (hassign1 A j k v A' hP hn' h1) h
    | many k vs =>
      simp only [copyArgs] at h
      cases h1 : assignArg A j k (.many []) [] with
      | none => simp [h1] at h
      | some A0 =>
        simp only [h1] at h
        cases h2 : copyVals att j k vs A0 pushed with
        | none => simp [h2] at h
        | some r1 =>
          obtain ⟨A1, p1⟩ := r1
          simp only [h2] at h
          have := copyVals_pres att P hatt j k vs A0 pushed _ (hassign0 A j k A0 hP h1) h2
          exact ih A1 p1 r this h

theorem copyLoopWith_pres (att : Attach) (hashOf : Val → Option Nat) (P : List Cell → Prop)
    (hatt : ∀ A (v : Val) j k arr A', P A → att A v.toCell j k arr = some A' → P A')
    (hassign1 : ∀ A j k (v : Val) A', P A → v.isNode = false →
      assignArg A j k (.one A.length) [v.toCell] = some A' → P A')
    (hassign0 : ∀ A j k A', P A → assignArg A j k (.many []) [] = some A' → P A')
    (hfill : ∀ A j c ty m (v : Val) A', P A → fillCell A j c ty m (hashOf v) = some A' → P A') :
    ∀ (fuel : Nat) (st : List CItem) (A B : List Cell), P A → copyLoopWith att hashOf fuel st A = some B → P B := by
  intro fuel
  induction fuel with
  | zero =>
    intro st A B hP h
    cases st with
    | nil => simp [copyLoopWith] at h; subst h; exact hP
    | cons e es => simp [copyLoopWith] at h
  | succ fuel ih =>
    intro st A B hP h
    cases st with
    | nil => simp [copyLoopWith] at h; subst h; exact hP
    | cons e st' =>
      obtain ⟨v, j⟩ := e
      cases v with
      | dtype s => simp [copyLoopWith] at h
      | raw r => simp [copyLoopWith] at h
      | node cls ty c m args =>
        simp only [copyLoopWith] at h
        generalize copyTyWith _ ty = oty at h
        generalize copyMetaWith _ m = om at h
        cases oty with
        | none => simp at h
        | some ty' =>
          cases om with
          | none => simp at h
          | some m' =>
            simp only at h
            cases h1 : fillCell A j c ty' m' (hashOf (Val.node cls ty c m args)) with
            | none => simp [h1] at h
            | some A1 =>
              simp only [h1] at h
              cases h2 : copyArgs att j args A1 [] with
              | none => simp [h2] at h
              | some r =>
                obtain ⟨A2, pushed⟩ := r
                simp only [h2] at h
                have hP1 := hfill A j c ty' m' _ A1 hP h1
                have hP2 := copyArgs_pres att P hatt hassign1 hassign0 j args A1 [] _ hP1 h2
                exact ih _ A2 B hP2 h

/-- no cached hash is invented: every `_hash` in the copy is `None` or the cached hash of some source node -/
def HInv (hashOf : Val → Option Nat) (A : List Cell) : Prop :=
  ∀ (j : Nat) cls ty c m args l h, A[j]? = some (Cell.node cls ty c m args l h) → h = none ∨ ∃ v, h = hashOf v

theorem hinv_set {hashOf : Val → Option Nat} {A : List Cell} (hA : HInv hashOf A) (i : Nat) (cls ty c m args l h)
    (hh : h = none ∨ ∃ v, h = hashOf v) : HInv hashOf (A.set i (Cell.node cls ty c m args l h)) := by
  intro j cls' ty' c' m' args' l' h' hj
  by_cases hji : i = j
  · subst hji
    by_cases hlt : i < A.length
    · simp [hlt] at hj; obtain ⟨_, _, _, _, _, _, rfl⟩ := hj; exact hh
    · have : (A.set i (Cell.node cls ty c m args l h))[i]? = none := by
        simp [List.getElem?_eq_none_iff]; omega
      simp [this] at hj
  · rw [List.getElem?_set_ne hji] at hj
    exact hA j _ _ _ _ _ _ _ hj

theorem hinv_append {hashOf : Val → Option Nat} {A : List Cell} (hA : HInv hashOf A) (cells : List Cell)
    (hc : ∀ c ∈ cells, ∀ cls ty cm m args l h, c = Cell.node cls ty cm m args l h → h = none) :
    HInv hashOf (A ++ cells) := by
  intro j cls ty c m args l h hj
  by_cases hlt : j < A.length
  · rw [List.getElem?_append_left hlt] at hj
    exact hA j _ _ _ _ _ _ _ hj
  · rw [List.getElem?_append_right (by omega)] at hj
    have := List.mem_of_getElem? hj
    exact Or.inl (hc _ this _ _ _ _ _ _ _ rfl)

theorem clearUp_hinv (hashOf : Val → Option Nat) : ∀ (fuel : Nat) (A : List Cell) (i : Nat),
    HInv hashOf A → HInv hashOf (clearUp A fuel i) := by
  intro fuel
  induction fuel with
  | zero => intro A i h; exact h
  | succ n ih =>
    intro A i h
    simp only [clearUp]
    split
    · split
      · exact ih _ _ (hinv_set h i _ _ _ _ _ _ _ (Or.inl rfl))
      · exact hinv_set h i _ _ _ _ _ _ _ (Or.inl rfl)
    · exact h

theorem toCell_withLink_nohash (v : Val) (lk : Link) :
    ∀ cls ty cm m args l h, v.toCell.withLink lk = Cell.node cls ty cm m args l h → h = none := by
  intro cls ty cm m args l h he
  cases v <;> simp [Val.toCell, emptyCell, Cell.withLink] at he
  exact he.2.2.2.2.2.2.symm

theorem attach_hinv (hashOf : Val → Option Nat) (A : List Cell) (v : Val) (j : Nat) (k : String) (arr : Bool)
    (A' : List Cell) (hA : HInv hashOf A) (h : attach A v.toCell j k arr = some A') : HInv hashOf A' := by
  unfold attach at h
  split at h
  · have hB := clearUp_hinv hashOf A.length A j hA
    simp only at h
    split at h
    · rename_i cls ty c m args l hh hget
      simp at h
      subst h
      apply hinv_append
      · exact hinv_set hB j _ _ _ _ _ _ _ (hB j _ _ _ _ _ _ _ hget)
      · intro c hc
        simp at hc; subst hc
        exact toCell_withLink_nohash v _
    · simp at h
  · simp at h

theorem assignArg_hinv (hashOf : Val → Option Nat) (A : List Cell) (j : Nat) (k : String) (s : Slot)
    (cells : List Cell) (A' : List Cell) (hA : HInv hashOf A)
    (hc : ∀ c ∈ cells, ∀ cls ty cm m args l h, c = Cell.node cls ty cm m args l h → h = none)
    (h : assignArg A j k s cells = some A') : HInv hashOf A' := by
  unfold assignArg at h
  split at h
  · rename_i cls ty c m args l hh hget
    simp at h
    subst h
    exact hinv_append (hinv_set hA j _ _ _ _ _ _ _ (hA j _ _ _ _ _ _ _ hget)) cells hc
  · simp at h

theorem fillCell_hinv (hashOf : Val → Option Nat) (A : List Cell) (j : Nat) (c : Comments) (ty : Option Val)
    (m : Meta) (v : Val) (A' : List Cell) (hA : HInv hashOf A)
    (h : fillCell A j c ty m (hashOf v) = some A') : HInv hashOf A' := by
  unfold fillCell at h
  split at h
  · simp at h
    subst h
    exact hinv_set hA j _ _ _ _ _ _ _ (Or.inr ⟨v, rfl⟩)
  · simp at h

theorem copy_hashes_from_source (hashOf : Val → Option Nat) (t : Val) (B : List Cell)
    (h : copyArena hashOf t = some B) : HInv hashOf B := by
  unfold copyArena copyLoop at h
  refine copyLoopWith_pres attach hashOf (HInv hashOf) ?_ ?_ ?_ ?_ _ _ _ _ ?_ h
  · intro A v j k arr A' hA hat; exact attach_hinv hashOf A v j k arr A' hA hat
  · intro A j k v A' hA hn has
    refine assignArg_hinv hashOf A j k _ _ A' hA ?_ has
    intro c hc; simp at hc; subst hc
    intro cls ty cm m args l hh he
    cases v <;> simp_all [Val.toCell, Val.isNode]
  · intro A j k A' hA has
    exact assignArg_hinv hashOf A j k _ _ A' hA (by simp) has
  · intro A j c ty m v A' hA hf; exact fillCell_hinv hashOf A j c ty m v A' hA hf
  · intro j cls ty c m args l hh hj
    cases t <;> simp [Val.toCell, emptyCell] at hj
    · cases j with
      | zero => simp at hj; exact Or.inl hj.2.2.2.2.2.2.symm
      | succ n => simp at hj
    all_goals (cases j <;> simp at hj)


/-- structure of a proper heap tree: children refs point forwards and inside the arena, parent indices backwards -/
def CellInvS (n j : Nat) : Cell → Prop
  | .node _ _ _ _ args link _ => (∀ r ∈ slotsRefs args, j < r ∧ r < n) ∧ (∀ l, link = some l → l.parent < j)
  | _ => True

def RInv (A : List Cell) : Prop := ∀ j c, A[j]? = some c → CellInvS A.length j c

theorem CellInvS_eH (n j : Nat) (c : Cell) : CellInvS n j (eH c) ↔ CellInvS n j c := by
  cases c <;> simp [eH, CellInvS]

theorem CellInvS_mono {n n' j : Nat} {c : Cell} (h : CellInvS n j c) (hn : n ≤ n') : CellInvS n' j c := by
  cases c with
  | node cls ty cm m args link hsh =>
    simp only [CellInvS] at h ⊢
    exact ⟨fun r hr => ⟨(h.1 r hr).1, by have := (h.1 r hr).2; omega⟩, h.2⟩
  | dtype s => trivial
  | raw r => trivial

theorem rinv_of_mapE {A A' : List Cell} (h : mapE A = mapE A') (hA : RInv A) : RInv A' := by
  intro j c' hj
  have hlen := mapE_len_eq h
  have hg := mapE_get h j
  cases hc : A[j]? with
  | none => simp [hc, hj] at hg
  | some c =>
    simp only [hc, hj, Option.map_some, Option.some.injEq] at hg
    have := hA j c hc
    rw [← CellInvS_eH, hg, CellInvS_eH, hlen] at this
    exact this

theorem rinv_step {A : List Cell} (hA : RInv A) (j : Nat) (cls ty c m args l h args' h')
    (hget : A[j]? = some (Cell.node cls ty c m args l h)) (cells : List Cell)
    (hrefs : ∀ r ∈ slotsRefs args', r ∈ slotsRefs args ∨ (A.length ≤ r ∧ r < A.length + cells.length))
    (hcells : ∀ c ∈ cells, (∃ s, c = .dtype s) ∨ (∃ r, c = .raw r) ∨
      (∃ cn t cm' m' lk hh, c = .node cn t cm' m' [] (some lk) hh ∧ lk.parent = j)) :
    RInv (A.set j (Cell.node cls ty c m args' l h') ++ cells) := by
  have hjlt := lt_of_get hget
  have hpar := hA j _ hget
  simp only [CellInvS] at hpar
  intro i ci hi
  have hlen : (A.set j (Cell.node cls ty c m args' l h') ++ cells).length = A.length + cells.length := by simp
  rw [hlen]
  by_cases hin : i < A.length
  · rw [List.getElem?_append_left (by simpa using hin)] at hi
    by_cases hij : i = j
    · subst hij
      simp [hin] at hi
      subst hi
      simp only [CellInvS]
      refine ⟨?_, hpar.2⟩
      intro r hr
      rcases hrefs r hr with h1 | h1
      · have := hpar.1 r h1; omega
      · omega
    · rw [List.getElem?_set_ne (fun e => hij e.symm)] at hi
      exact CellInvS_mono (hA i ci hi) (by omega)
  · rw [List.getElem?_append_right (by simpa using Nat.le_of_not_lt hin)] at hi
    have hm := List.mem_of_getElem? hi
    rcases hcells ci hm with ⟨s, rfl⟩ | ⟨r, rfl⟩ | ⟨cn, t, cm', m', lk, hh, rfl, hp⟩
    · trivial
    · trivial
    · simp only [CellInvS, slotsRefs]
      refine ⟨by simp, ?_⟩
      intro l' hl'
      simp at hl'; subst hl'
      omega

theorem toCell_withLink_cases (v : Val) (lk : Link) :
    (∃ s, v.toCell.withLink lk = .dtype s) ∨ (∃ r, v.toCell.withLink lk = .raw r) ∨
      (∃ cn t cm' m' lk' hh, v.toCell.withLink lk = .node cn t cm' m' [] (some lk') hh ∧ lk'.parent = lk.parent) := by
  cases v with
  | node cls ty c m args => exact Or.inr (Or.inr ⟨cls, none, none, none, lk, none, by simp [Val.toCell, emptyCell, Cell.withLink], rfl⟩)
  | dtype s => exact Or.inl ⟨s, by simp [Val.toCell, Cell.withLink]⟩
  | raw r => exact Or.inr (Or.inl ⟨r, by simp [Val.toCell, Cell.withLink]⟩)

theorem attach_rinv (A : List Cell) (v : Val) (j : Nat) (k : String) (arr : Bool) (A' : List Cell)
    (hA : RInv A) (h : attach A v.toCell j k arr = some A') : RInv A' := by
  unfold attach at h
  split at h
  · have hB : RInv (clearUp A A.length j) := rinv_of_mapE (clearUp_mapE A.length A j).symm hA
    have hBlen : (clearUp A A.length j).length = A.length := mapE_len_eq (clearUp_mapE A.length A j)
    simp only at h
    split at h
    · rename_i cls ty c m args l hh hget
      simp at h
      subst h
      apply rinv_step hB j _ _ _ _ _ _ _ _ _ hget
      · intro r hr
        rcases linkArgs_refs _ _ _ _ _ r hr with h1 | h1
        · exact Or.inl h1
        · exact Or.inr (by simp [hBlen]; omega)
      · intro c hc
        simp at hc; subst hc
        exact toCell_withLink_cases v _
    · simp at h
  · simp at h

theorem assignArg_rinv1 (A : List Cell) (j : Nat) (k : String) (v : Val) (A' : List Cell) (hA : RInv A)
    (hn : v.isNode = false) (h : assignArg A j k (.one A.length) [v.toCell] = some A') : RInv A' := by
  unfold assignArg at h
  split at h
  · rename_i cls ty c m args l hh hget
    simp at h
    subst h
    apply rinv_step hA j _ _ _ _ _ _ _ _ _ hget
    · intro r hr
      rcases setKey_refs _ _ _ r hr with h1 | h1
      · exact Or.inl h1
      · simp [Slot.refs] at h1; exact Or.inr (by simp; omega)
    · intro c hc
      simp at hc; subst hc
      cases v with
      | node => simp [Val.isNode] at hn
      | dtype s => exact Or.inl ⟨s, rfl⟩
      | raw r => exact Or.inr (Or.inl ⟨r, rfl⟩)
  · simp at h

theorem assignArg_rinv0 (A : List Cell) (j : Nat) (k : String) (A' : List Cell) (hA : RInv A)
    (h : assignArg A j k (.many []) [] = some A') : RInv A' := by
  unfold assignArg at h
  split at h
  · rename_i cls ty c m args l hh hget
    simp only [Option.some.injEq] at h
    subst h
    apply rinv_step hA j _ _ _ _ _ _ _ _ _ hget
    · intro r hr
      rcases setKey_refs _ _ _ r hr with h1 | h1
      · exact Or.inl h1
      · simp [Slot.refs] at h1
    · intro c hc; simp at hc
  · simp at h

theorem fillCell_rinv (A : List Cell) (j : Nat) (c : Comments) (ty : Option Val) (m : Meta) (hv : Option Nat)
    (A' : List Cell) (hA : RInv A) (h : fillCell A j c ty m hv = some A') : RInv A' := by
  unfold fillCell at h
  split at h
  · rename_i cls ty0 c0 m0 args l hh hget
    simp at h
    subst h
    have := rinv_step hA j cls ty0 c0 m0 args l hh args hv hget [] (fun r hr => Or.inl hr) (by simp)
    intro i ci hi
    cases hA' : A[j]? with
    | none => simp [hA'] at hget
    | some c0' =>
      have hi' : (A.set j (Cell.node cls ty0 c0 m0 args l hv) ++ [])[i]? = some
          (if i = j then Cell.node cls ty0 c0 m0 args l hv else ci) := by
        by_cases hij : i = j
        · subst hij; simp [lt_of_get hget]
        · simp [hij, List.getElem?_set_ne (fun e => hij e.symm)] at hi ⊢; exact hi
      by_cases hij : i = j
      · subst hij
        simp [lt_of_get hget] at hi
        subst hi
        have h2 := this i _ (by simpa using hi')
        simpa [CellInvS] using h2
      · simp only [hij, if_false] at hi'
        have h2 := this i _ hi'
        simpa using h2
  · simp at h

/-- **the copy shares no node**: every ref and every parent index in the finished copy points at a cell this copy
    allocated (forwards / backwards inside its own arena) — nothing dangles, nothing is referenced from outside -/
theorem copy_closed (hashOf : Val → Option Nat) (t : Val) (B : List Cell)
    (h : copyArena hashOf t = some B) : RInv B := by
  unfold copyArena copyLoop at h
  refine copyLoopWith_pres attach hashOf RInv ?_ ?_ ?_ ?_ _ _ _ _ ?_ h
  · intro A v j k arr A' hA hat; exact attach_rinv A v j k arr A' hA hat
  · intro A j k v A' hA hn has; exact assignArg_rinv1 A j k v A' hA hn has
  · intro A j k A' hA has; exact assignArg_rinv0 A j k A' hA has
  · intro A j c ty m v A' hA hf; exact fillCell_rinv A j c ty m _ A' hA hf
  · intro j c hj
    cases j with
    | zero =>
      simp at hj; subst hj
      cases t <;> simp [Val.toCell, emptyCell, CellInvS, slotsRefs]
    | succ n => simp at hj


/-! ## Part E: exactly which payload lists `load` accepts -/

def Cell.isNodeC : Cell → Bool
  | .node .. => true
  | _ => false

/-- `kinds[i]` says whether payload `i` built an Expression. A later payload is accepted iff it builds a cell by itself
    (`mkCell`: has CLASS — with loadable nested TYPE / `__expr__` lists and, for the DType marker, a str VALUE — or has
    VALUE), has ARG_KEY, and its INDEX names an *earlier* payload that built an Expression. -/
def tailOK (kinds : List Bool) : List Payload → Bool
  | [] => true
  | p :: ps => match mkCell p, pIndex p, pKey p with
    | some cell, some idx, some _ => kinds.getD idx false && tailOK (kinds ++ [cell.isNodeC]) ps
    | _, _, _ => false

/-- the empty list is accepted (`load` returns `None`); otherwise the first payload must have a CLASS (`mkRoot`) -/
def accepts : List Payload → Bool
  | [] => true
  | p :: ps => match mkRoot p with
    | some root => tailOK [root.isNodeC] ps
    | none => false

theorem isNodeC_eH (c : Cell) : (eH c).isNodeC = c.isNodeC := by cases c <;> rfl

theorem kinds_mapE (A : List Cell) : (mapE A).map Cell.isNodeC = A.map Cell.isNodeC := by
  simp [mapE, List.map_map, Function.comp_def, isNodeC_eH]

theorem kinds_get (A : List Cell) (idx : Nat) :
    (A.map Cell.isNodeC).getD idx false = match A[idx]? with
      | some c => c.isNodeC
      | none => false := by
  simp [List.getD, List.getElem?_map]
  cases A[idx]? <;> rfl

theorem withLink_isNodeC (c : Cell) (l : Link) : (c.withLink l).isNodeC = c.isNodeC := by
  cases c <;> rfl

theorem attach_kinds (A : List Cell) (cell : Cell) (idx : Nat) (k : String) (arr : Bool) :
    match attach A cell idx k arr with
    | some A' => (A.map Cell.isNodeC).getD idx false = true ∧
        A'.map Cell.isNodeC = A.map Cell.isNodeC ++ [cell.isNodeC]
    | none => (A.map Cell.isNodeC).getD idx false = false := by
  have hk : (clearUp A A.length idx).map Cell.isNodeC = A.map Cell.isNodeC := by
    rw [← kinds_mapE, clearUp_mapE, kinds_mapE]
  have hlen : (clearUp A A.length idx).length = A.length := mapE_len_eq (clearUp_mapE A.length A idx)
  unfold attach
  by_cases hlt : idx < A.length
  · simp only [hlt, if_true]
    rw [← hk, kinds_get]
    cases hc : (clearUp A A.length idx)[idx]? with
    | none =>
      have := List.getElem?_eq_none_iff.mp hc
      omega
    | some c0 =>
      cases c0 with
      | node cls ty c m args l h =>
        simp only [Cell.isNodeC, true_and]
        rw [List.map_append, List.map_set, List.map_cons, List.map_nil, withLink_isNodeC]
        congr 1
        apply set_self
        simp [hc, Cell.isNodeC]
      | dtype s => simp [Cell.isNodeC]
      | raw r => simp [Cell.isNodeC]
  · simp only [hlt, if_false]
    rw [kinds_get]
    have : A[idx]? = none := List.getElem?_eq_none_iff.mpr (by omega)
    simp [this]

theorem loadList_accepts : ∀ (ps : List Payload) (A : List Cell),
    (loadList ps A).isSome = tailOK (A.map Cell.isNodeC) ps := by
  intro ps
  induction ps with
  | nil => intro A; simp [loadList, tailOK]
  | cons p ps ih =>
    intro A
    simp only [loadList, tailOK]
    cases hc : mkCell p with
    | none => simp
    | some cell =>
      cases hi : pIndex p with
      | none => simp
      | some idx =>
        cases hk : pKey p with
        | none => simp
        | some k =>
          have hat := attach_kinds A cell idx k (pArr p)
          cases ha : attach A cell idx k (pArr p) with
          | none => simp only [ha] at hat; dsimp only; rw [ha, hat]; simp
          | some A' =>
            simp only [ha] at hat
            dsimp only
            rw [ha, hat.1, ← hat.2]
            simpa using ih A'

/-- **which payload lists `load` accepts**: `loadArena ps` is defined exactly when `accepts ps` -/
theorem loadArena_accepts (ps : List Payload) : (loadArena ps).isSome = accepts ps := by
  cases ps with
  | nil => rfl
  | cons p ps =>
    simp only [loadArena, accepts]
    cases hr : mkRoot p with
    | none => simp
    | some root => simpa using loadList_accepts ps [root]


/-! ## Part F: containers shared between a payload list and the tree loaded from it -/

theorem valueObj_isPay (p : List Nat) (v : Option Raw) : ∀ o ∈ valueObj p v, o.isPay = true := by
  intro o ho
  unfold valueObj at ho
  split at ho
  · simp at ho; subst ho; rfl
  · simp at ho

mutual
theorem payObjs_isPay : ∀ (q : Payload) (p : List Nat), ∀ o ∈ payObjs q p, o.isPay = true
  | .mk _ _ _ _ ty c m v, p => by
    intro o ho
    simp only [payObjs, List.mem_append] at ho
    rcases ho with (((h | h) | h) | h) | h
    · split at h <;> simp at h; subst h; rfl
    · split at h <;> simp at h; subst h; rfl
    · exact valueObj_isPay p v o h
    · exact payObjsTy_isPay ty p o h
    · exact payObjsMeta_isPay m p o h
theorem payObjsList_isPay : ∀ (qs : List Payload) (p : List Nat) (i : Nat), ∀ o ∈ payObjsList qs p i, o.isPay = true
  | [], _, _ => by simp [payObjsList]
  | q :: qs, p, i => by
    intro o ho
    simp only [payObjsList, List.mem_append] at ho
    rcases ho with h | h
    · exact payObjs_isPay q _ o h
    · exact payObjsList_isPay qs p (i + 1) o h
theorem payObjsTy_isPay : ∀ (ty : Option (List Payload)) (p : List Nat), ∀ o ∈ payObjsTy ty p, o.isPay = true
  | none, _ => by simp [payObjsTy]
  | some ps, p => by intro o ho; simp only [payObjsTy] at ho; exact payObjsList_isPay ps _ 0 o ho
theorem payObjsMeta_isPay : ∀ (m : Option (List PMeta)) (p : List Nat), ∀ o ∈ payObjsMeta m p, o.isPay = true
  | none, _ => by simp [payObjsMeta]
  | some l, p => by intro o ho; simp only [payObjsMeta] at ho; exact payObjsMetaL_isPay l p 1 o ho
theorem payObjsMetaL_isPay : ∀ (l : List PMeta) (p : List Nat) (e : Nat), ∀ o ∈ payObjsMetaL l p e, o.isPay = true
  | [], _, _ => by simp [payObjsMetaL]
  | .raw k r :: es, p, e => by
    intro o ho
    simp only [payObjsMetaL, List.mem_append] at ho
    rcases ho with h | h
    · split at h <;> simp at h; subst h; rfl
    · exact payObjsMetaL_isPay es p (e + 1) o h
  | .expr k ps :: es, p, e => by
    intro o ho
    simp only [payObjsMetaL, List.mem_append] at ho
    rcases ho with h | h
    · exact payObjsList_isPay ps _ 0 o h
    · exact payObjsMetaL_isPay es p (e + 1) o h
end

/- when `_load` copies the comments and builds the meta dict, and no raw value is a list, every container a loaded
   node points at was made by `_load` -/
mutual
theorem loadRefs_made (pol : SharePolicy) (hc : pol.loadCopiesComments = true) (hm : pol.loadBuildsMetaDict = true) :
    ∀ (q : Payload) (p : List Nat), noArr q = true → ∀ o ∈ loadRefs pol q p, o.isPay = false
  | .mk _ _ _ _ ty c m v, p => by
    intro hn o ho
    simp only [noArr, Bool.and_eq_true] at hn
    simp only [loadRefs, hc, hm, if_true, List.mem_append] at ho
    rcases ho with (((h | h) | h) | h) | h
    · split at h <;> simp at h; subst h; rfl
    · split at h <;> simp at h; subst h; rfl
    · exfalso
      unfold valueObj at h
      split at h
      · simp at hn
      · simp at h
    · exact loadRefsTy_made pol hc hm ty p hn.1.2 o h
    · exact loadRefsMeta_made pol hc hm m p hn.2 o h
theorem loadRefsList_made (pol : SharePolicy) (hc : pol.loadCopiesComments = true) (hm : pol.loadBuildsMetaDict = true) :
    ∀ (qs : List Payload) (p : List Nat) (i : Nat), noArrList qs = true → ∀ o ∈ loadRefsList pol qs p i, o.isPay = false
  | [], _, _ => by simp [loadRefsList]
  | q :: qs, p, i => by
    intro hn o ho
    simp only [noArrList, Bool.and_eq_true] at hn
    simp only [loadRefsList, List.mem_append] at ho
    rcases ho with h | h
    · exact loadRefs_made pol hc hm q _ hn.1 o h
    · exact loadRefsList_made pol hc hm qs p (i + 1) hn.2 o h
theorem loadRefsTy_made (pol : SharePolicy) (hc : pol.loadCopiesComments = true) (hm : pol.loadBuildsMetaDict = true) :
    ∀ (ty : Option (List Payload)) (p : List Nat), noArrTy ty = true → ∀ o ∈ loadRefsTy pol ty p, o.isPay = false
  | none, _ => by simp [loadRefsTy]
  | some ps, p => by
    intro hn o ho
    simp only [noArrTy] at hn
    simp only [loadRefsTy] at ho
    exact loadRefsList_made pol hc hm ps _ 0 hn o ho
theorem loadRefsMeta_made (pol : SharePolicy) (hc : pol.loadCopiesComments = true) (hm : pol.loadBuildsMetaDict = true) :
    ∀ (m : Option (List PMeta)) (p : List Nat), noArrMeta m = true → ∀ o ∈ loadRefsMeta pol m p, o.isPay = false
  | none, _ => by simp [loadRefsMeta]
  | some l, p => by
    intro hn o ho
    simp only [noArrMeta] at hn
    simp only [loadRefsMeta] at ho
    exact loadRefsMetaL_made pol hc hm l p 1 hn o ho
theorem loadRefsMetaL_made (pol : SharePolicy) (hc : pol.loadCopiesComments = true) (hm : pol.loadBuildsMetaDict = true) :
    ∀ (l : List PMeta) (p : List Nat) (e : Nat), noArrMetaL l = true → ∀ o ∈ loadRefsMetaL pol l p e, o.isPay = false
  | [], _, _ => by simp [loadRefsMetaL]
  | .raw k r :: es, p, e => by
    intro hn o ho
    simp only [noArrMetaL, Bool.and_eq_true, Bool.not_eq_true'] at hn
    simp only [loadRefsMetaL, hn.1, List.mem_append] at ho
    rcases ho with h | h
    · simp at h
    · exact loadRefsMetaL_made pol hc hm es p (e + 1) hn.2 o h
  | .expr k ps :: es, p, e => by
    intro hn o ho
    simp only [noArrMetaL, Bool.and_eq_true] at hn
    simp only [loadRefsMetaL, List.mem_append] at ho
    rcases ho with h | h
    · exact loadRefsList_made pol hc hm ps _ 0 hn.1 o h
    · exact loadRefsMetaL_made pol hc hm es p (e + 1) hn.2 o h
end

/-! ## Part G: the `type` property view (`Cast` falls back to `to`, a DataType is its own type) -/

theorem isNull_view (R : TypeRules) (v : Val) : (v.view R).isNull = v.isNull := by
  cases v with
  | node => simp [Val.view, Val.isNull]
  | dtype => simp [Val.view]
  | raw r => simp [Val.view]

theorem notNull_map_view (R : TypeRules) (o : Option Val) : notNull (o.map (Val.view R)) = (notNull o).map (Val.view R) := by
  cases o with
  | none => rfl
  | some v => simp only [Option.map_some, notNull, isNull_view]; split <;> rfl

theorem argOne_view (R : TypeRules) (k : String) : ∀ (args : List Arg),
    argOne k (viewArgs R args) = (argOne k args).map (Val.view R) := by
  intro args
  induction args with
  | nil => rfl
  | cons a rest ih =>
    cases a with
    | one k' v =>
      by_cases hk : k' = k
      · simp [viewArgs, Arg.view, argOne, hk]
      · simp [viewArgs, Arg.view, argOne, hk, ih]
    | many k' vs => simp [viewArgs, Arg.view, argOne, ih]

theorem keysOf_view (R : TypeRules) : ∀ (args : List Arg), keysOf (viewArgs R args) = keysOf args := by
  intro args
  induction args with
  | nil => rfl
  | cons a rest ih => cases a <;> simp [viewArgs, Arg.view, keysOf, Arg.key, ih]

theorem viewOpt_eq_map (R : TypeRules) (o : Option Val) : viewOpt R o = o.map (Val.view R) := by
  cases o <;> rfl

/-- viewing twice changes nothing (given the fixed points of the parts) -/
theorem typeProp_idem (R : TypeRules) (cls : String) (X : Option Val) (Y : List Arg)
    (hX : viewOpt R X = X) (hY : viewArgs R Y = Y) :
    viewOpt R (typeProp R cls X Y) = typeProp R cls X Y ∧
    typeProp R cls (typeProp R cls X Y) Y = typeProp R cls X Y := by
  unfold typeProp
  by_cases hd : R.isDataType cls = true
  · simp [hd, viewOpt]
  · by_cases hc : R.isCast cls = true
    · simp only [hd, hc, if_true, Bool.false_eq_true, if_false]
      cases X with
      | some t => exact ⟨hX, rfl⟩
      | none =>
        have hto : (argOne "to" Y).map (Val.view R) = argOne "to" Y := by rw [← argOne_view, hY]
        have h1 : viewOpt R (notNull (argOne "to" Y)) = notNull (argOne "to" Y) := by
          rw [viewOpt_eq_map, ← notNull_map_view, hto]
        refine ⟨h1, ?_⟩
        cases h : notNull (argOne "to" Y) <;> simp
    · simp [hd, hc, hX]

mutual
theorem view_idem (R : TypeRules) : ∀ (v : Val), (v.view R).view R = v.view R
  | .node cls ty c m args => by
    have hX := viewOpt_idem R ty
    have hY := viewArgs_idem R args
    have hM := viewMeta_idem R m
    have := typeProp_idem R cls (viewOpt R ty) (viewArgs R args) hX hY
    simp only [Val.view, hY, hM]
    rw [this.1, this.2]
  | .dtype _ => by simp [Val.view]
  | .raw _ => by simp [Val.view]
theorem viewOpt_idem (R : TypeRules) : ∀ (o : Option Val), viewOpt R (viewOpt R o) = viewOpt R o
  | none => rfl
  | some v => by simp [viewOpt, view_idem R v]
theorem viewMeta_idem (R : TypeRules) : ∀ (m : Option (List MetaE)), viewMeta R (viewMeta R m) = viewMeta R m
  | none => rfl
  | some l => by simp [viewMeta, viewMetaL_idem R l]
theorem viewMetaL_idem (R : TypeRules) : ∀ (l : List MetaE), viewMetaL R (viewMetaL R l) = viewMetaL R l
  | [] => rfl
  | .raw k r :: es => by simp [viewMetaL, MetaE.view, viewMetaL_idem R es]
  | .expr k v :: es => by simp [viewMetaL, MetaE.view, view_idem R v, viewMetaL_idem R es]
theorem viewArgs_idem (R : TypeRules) : ∀ (args : List Arg), viewArgs R (viewArgs R args) = viewArgs R args
  | [] => rfl
  | .one k v :: as => by simp [viewArgs, Arg.view, view_idem R v, viewArgs_idem R as]
  | .many k vs :: as => by simp [viewArgs, Arg.view, viewVals_idem R vs, viewArgs_idem R as]
theorem viewVals_idem (R : TypeRules) : ∀ (vs : List Val), viewVals R (viewVals R vs) = viewVals R vs
  | [] => rfl
  | v :: vs => by simp [viewVals, view_idem R v, viewVals_idem R vs]
end

/-! ### `view` commutes with `norm` (distinct keys) -/

theorem argOne_notin (k : String) : ∀ (args : List Arg), k ∉ keysOf args → argOne k args = none := by
  intro args
  induction args with
  | nil => intro _; rfl
  | cons a rest ih =>
    intro h
    cases a with
    | one k' v =>
      simp only [keysOf, Arg.key, List.mem_cons, not_or] at h
      have : k' ≠ k := fun e => h.1 e.symm
      simp [argOne, this, ih h.2]
    | many k' vs =>
      simp only [keysOf, Arg.key, List.mem_cons, not_or] at h
      simp [argOne, ih h.2]

theorem keysOf_norm_sub : ∀ (args : List Arg) (k : String), k ∈ keysOf (normArgs args) → k ∈ keysOf args := by
  intro args
  induction args with
  | nil => intro k h; simp [normArgs, keysOf] at h
  | cons a rest ih =>
    intro k h
    by_cases hd : a.dropped = true
    · simp only [normArgs, hd, if_true] at h
      simp [keysOf, ih k h]
    · simp only [normArgs, hd, Bool.false_eq_true, if_false, keysOf, List.mem_cons] at h
      rcases h with h | h
      · cases a <;> simp_all [keysOf, Arg.key, Arg.norm]
      · simp [keysOf, ih k h]

theorem argOne_norm (k : String) : ∀ (args : List Arg), (keysOf args).Nodup →
    notNull (argOne k (normArgs args)) = (notNull (argOne k args)).map Val.norm := by
  intro args
  induction args with
  | nil => intro _; rfl
  | cons a rest ih =>
    intro hnd
    simp only [keysOf, List.nodup_cons] at hnd
    cases a with
    | one k' v =>
      simp only [Arg.key] at hnd
      by_cases hk : k' = k
      · subst hk
        by_cases hn : v.isNull = true
        · have hnone : argOne k' (normArgs rest) = none :=
            argOne_notin k' _ (fun h => hnd.1 (keysOf_norm_sub rest k' h))
          simp [normArgs, Arg.dropped, hn, argOne, hnone, notNull]
        · simp [normArgs, Arg.dropped, hn, argOne, Arg.norm, notNull, isNull_norm]
      · by_cases hn : v.isNull = true
        · simp [normArgs, Arg.dropped, hn, argOne, hk, ih hnd.2]
        · simp [normArgs, Arg.dropped, hn, argOne, hk, Arg.norm, ih hnd.2]
    | many k' vs =>
      by_cases hn : vs.isEmpty = true
      · simp [normArgs, Arg.dropped, hn, argOne, ih hnd.2]
      · simp [normArgs, Arg.dropped, hn, argOne, Arg.norm, ih hnd.2]

theorem normOpt_eq_map (o : Option Val) : normOpt o = o.map Val.norm := by cases o <;> rfl

theorem typeProp_norm (R : TypeRules) (cls : String) (X : Option Val) (Y : List Arg) (hnd : (keysOf Y).Nodup) :
    typeProp R cls (normOpt X) (normArgs Y) = normOpt (typeProp R cls X Y) := by
  unfold typeProp
  by_cases hd : R.isDataType cls = true
  · simp [hd, normOpt]
  · by_cases hc : R.isCast cls = true
    · simp only [hd, hc, if_true, Bool.false_eq_true, if_false]
      cases X with
      | some t => simp [normOpt]
      | none => simp only [normOpt]; rw [argOne_norm "to" Y hnd, normOpt_eq_map]
    · simp [hd, hc]

theorem viewVals_isEmpty (R : TypeRules) (vs : List Val) : (viewVals R vs).isEmpty = vs.isEmpty := by
  cases vs <;> simp [viewVals]

theorem dropped_view (R : TypeRules) (a : Arg) : (a.view R).dropped = a.dropped := by
  cases a with
  | one k v => simp [Arg.view, Arg.dropped, isNull_view]
  | many k vs => simp [Arg.view, Arg.dropped, viewVals_isEmpty]

mutual
theorem view_norm (R : TypeRules) : ∀ (v : Val), v.WF → (v.norm).view R = (v.view R).norm
  | .node cls ty c m args, h => by
    simp only [Val.WF] at h
    obtain ⟨_, hty, hmt, hnd, hargs⟩ := h
    have hX := viewOpt_norm R ty hty
    have hY := viewArgs_norm R args hargs
    have hM := viewMeta_norm R m hmt
    have hnd' : (keysOf (viewArgs R args)).Nodup := by rw [keysOf_view]; exact hnd
    simp only [Val.norm, Val.view, hX, hY, hM, typeProp_norm R cls _ _ hnd']
  | .dtype _, _ => by simp [Val.norm, Val.view]
  | .raw _, _ => by simp [Val.norm, Val.view]
theorem viewOpt_norm (R : TypeRules) : ∀ (o : Option Val), wfOpt o → viewOpt R (normOpt o) = normOpt (viewOpt R o)
  | none, _ => rfl
  | some v, h => by simp only [wfOpt] at h; simp [normOpt, viewOpt, view_norm R v h.2]
theorem viewMeta_norm (R : TypeRules) : ∀ (m : Option (List MetaE)), wfMeta m →
    viewMeta R (normMeta m) = normMeta (viewMeta R m)
  | none, _ => rfl
  | some l, h => by simp only [wfMeta] at h; simp [normMeta, viewMeta, viewMetaL_norm R l h]
theorem viewMetaL_norm (R : TypeRules) : ∀ (l : List MetaE), wfMetaL l →
    viewMetaL R (normMetaL l) = normMetaL (viewMetaL R l)
  | [], _ => rfl
  | .raw k r :: es, h => by
    simp only [wfMetaL] at h
    simp [normMetaL, viewMetaL, MetaE.norm, MetaE.view, viewMetaL_norm R es h.2]
  | .expr k v :: es, h => by
    simp only [wfMetaL, MetaE.WF] at h
    simp [normMetaL, viewMetaL, MetaE.norm, MetaE.view, view_norm R v h.1.2, viewMetaL_norm R es h.2]
theorem viewArgs_norm (R : TypeRules) : ∀ (args : List Arg), wfArgs args →
    viewArgs R (normArgs args) = normArgs (viewArgs R args)
  | [], _ => rfl
  | .one k v :: as, h => by
    simp only [wfArgs, Arg.WF] at h
    have ih := viewArgs_norm R as h.2
    by_cases hn : v.isNull = true
    · simp [normArgs, viewArgs, Arg.view, Arg.dropped, hn, isNull_view, ih]
    · simp [normArgs, viewArgs, Arg.view, Arg.dropped, hn, isNull_view, Arg.norm, view_norm R v h.1, ih]
  | .many k vs :: as, h => by
    simp only [wfArgs, Arg.WF] at h
    have ih := viewArgs_norm R as h.2
    by_cases hn : vs.isEmpty = true
    · simp [normArgs, viewArgs, Arg.view, Arg.dropped, hn, viewVals_isEmpty, ih]
    · simp [normArgs, viewArgs, Arg.view, Arg.dropped, hn, viewVals_isEmpty, Arg.norm, viewVals_norm R vs h.1, ih]
theorem viewVals_norm (R : TypeRules) : ∀ (vs : List Val), wfVals vs → viewVals R (normVals vs) = normVals (viewVals R vs)
  | [], _ => rfl
  | v :: vs, h => by
    simp only [wfVals] at h
    simp [normVals, viewVals, view_norm R v h.1, viewVals_norm R vs h.2]
end

/-! ## Part H: JSON text round trip at token level -/

theorem json_list_inv {l : List Py} (h : JsonValue (.list l)) : ∀ x ∈ l, JsonValue x := by
  cases h with
  | list _ hl => exact hl

theorem json_dict_inv {l : List (Py × Py)} (h : JsonValue (.dict l)) :
    (∀ kv ∈ l, ∃ s, kv.1 = .str s) ∧ (∀ kv ∈ l, JsonValue kv.2) := by
  cases h with
  | dict _ hk hv => exact ⟨hk, hv⟩

/-- the text of a JSON value never starts with a closing bracket -/
theorem render_head (j : Py) (h : JsonValue j) (rest : List Tok) :
    startsWith .rbrack (render j ++ rest) = false ∧ startsWith .rbrace (render j ++ rest) = false := by
  cases h with
  | none => simp [render, startsWith]
  | bool b => cases b <;> simp [render, startsWith]
  | int i => simp [render, startsWith]
  | str s => simp [render, startsWith]
  | list l _ => simp [render, startsWith]
  | dict l _ _ => simp [render, startsWith]

mutual
theorem parse_render : ∀ (j : Py), JsonValue j → ∀ (rest : List Tok) (f : Nat), j.size ≤ f →
    parse f (render j ++ rest) = some (j, rest)
  | .none, _, rest, f, hf => by
    cases f with
    | zero => simp [Py.size] at hf
    | succ f => simp [render, parse]
  | .bool b, _, rest, f, hf => by
    cases f with
    | zero => simp [Py.size] at hf
    | succ f => cases b <;> simp [render, parse]
  | .int i, _, rest, f, hf => by
    cases f with
    | zero => simp [Py.size] at hf
    | succ f => simp [render, parse]
  | .str s, _, rest, f, hf => by
    cases f with
    | zero => simp [Py.size] at hf
    | succ f => simp [render, parse]
  | .opaque w, h, _, _, _ => by cases h
  | .list l, h, rest, f, hf => by
    have hl := json_list_inv h
    cases f with
    | zero => simp [Py.size] at hf
    | succ f =>
      cases l with
      | nil => simp [render, renderElems, parse, startsWith]
      | cons x xs =>
        simp only [Py.size, sizePys] at hf
        have hx : JsonValue x := hl x (by simp)
        have h1 := parse_render x hx (renderElemsTail xs ++ rest) f (by omega)
        have h2 := elems_tail xs (fun y hy => hl y (by simp [hy])) rest f (by omega)
        have hh := (render_head x hx (renderElemsTail xs ++ rest)).1
        simp only [render, renderElems, List.cons_append, List.append_assoc, parse, hh, Bool.false_eq_true, if_false,
          h1, Option.bind_some, h2]
  | .dict l, h, rest, f, hf => by
    have hd := json_dict_inv h
    cases f with
    | zero => simp [Py.size] at hf
    | succ f =>
      cases l with
      | nil => simp [render, renderMembers, parse, startsWith]
      | cons kv kvs =>
        simp only [Py.size, sizeKvs] at hf
        obtain ⟨s, hs⟩ := hd.1 kv (by simp)
        have h1 := member kv ⟨s, hs⟩ (hd.2 kv (by simp)) (renderMembersTail kvs ++ rest) f (by omega)
        have h2 := members_tail kvs (fun y hy => hd.1 y (by simp [hy])) (fun y hy => hd.2 y (by simp [hy])) rest f
          (by omega)
        have hh : startsWith .rbrace (renderMember kv ++ (renderMembersTail kvs ++ rest)) = false := by
          obtain ⟨k, v⟩ := kv
          simp only at hs
          subst hs
          simp [renderMember, render, startsWith]
        simp only [render, renderMembers, List.cons_append, List.append_assoc, parse, hh, Bool.false_eq_true, if_false,
          h1, Option.bind_some, h2]
theorem elems_tail : ∀ (l : List Py), (∀ x ∈ l, JsonValue x) → ∀ (rest : List Tok) (f : Nat), sizePys l + 1 ≤ f →
    parseElemsTail f (renderElemsTail l ++ rest) = some (l, rest)
  | [], _, rest, f, hf => by
    cases f with
    | zero => omega
    | succ f => simp [renderElemsTail, parseElemsTail]
  | x :: xs, hl, rest, f, hf => by
    cases f with
    | zero => omega
    | succ f =>
      simp only [sizePys] at hf
      have h1 := parse_render x (hl x (by simp)) (renderElemsTail xs ++ rest) f (by omega)
      have h2 := elems_tail xs (fun y hy => hl y (by simp [hy])) rest f (by omega)
      simp only [renderElemsTail, List.cons_append, List.append_assoc, parseElemsTail, h1, Option.bind_some, h2]
theorem member : ∀ (kv : Py × Py), (∃ s, kv.1 = .str s) → JsonValue kv.2 → ∀ (rest : List Tok) (f : Nat),
    sizeKv kv ≤ f → parseMember f (renderMember kv ++ rest) = some (kv, rest)
  | (k, v), hk, hv, rest, f, hf => by
    obtain ⟨s, hs⟩ := hk
    simp only at hs hv
    subst hs
    cases f with
    | zero => simp [sizeKv] at hf
    | succ f =>
      simp only [sizeKv] at hf
      have h1 := parse_render v hv rest f (by omega)
      simp only [renderMember, render, List.cons_append, List.nil_append, List.append_assoc, parseMember, h1,
        Option.bind_some]
theorem members_tail : ∀ (l : List (Py × Py)), (∀ kv ∈ l, ∃ s, kv.1 = .str s) → (∀ kv ∈ l, JsonValue kv.2) →
    ∀ (rest : List Tok) (f : Nat), sizeKvs l + 1 ≤ f →
    parseMembersTail f (renderMembersTail l ++ rest) = some (l, rest)
  | [], _, _, rest, f, hf => by
    cases f with
    | zero => omega
    | succ f => simp [renderMembersTail, parseMembersTail]
  | kv :: kvs, hk, hv, rest, f, hf => by
    cases f with
    | zero => omega
    | succ f =>
      simp only [sizeKvs] at hf
      have h1 := member kv (hk kv (by simp)) (hv kv (by simp)) (renderMembersTail kvs ++ rest) f (by omega)
      have h2 := members_tail kvs (fun y hy => hk y (by simp [hy])) (fun y hy => hv y (by simp [hy])) rest f (by omega)
      simp only [renderMembersTail, List.cons_append, List.append_assoc, parseMembersTail, h1, Option.bind_some, h2]
end

/-! ## Part I: the C08 link invariant for EVERY object graph `load` returns, and for the finished copy -/

def LinksOK (A : List Cell) : Prop := ∀ j, cellOK A j

/-- the parent fields of a cell: `some link` for an Expression, `none` for a scalar / DType -/
def lk : Cell → Option (Option Link)
  | .node _ _ _ _ _ l _ => some l
  | _ => none

theorem LinkIs_iff (A : List Cell) (r : Nat) (l : Link) :
    LinkIs A r l ↔ ∃ c, A[r]? = some c ∧ (lk c = none ∨ lk c = some (some l)) := by
  unfold LinkIs
  cases h : A[r]? with
  | none => simp
  | some c => cases c <;> simp [lk]

theorem LinkIs_transfer {A A' : List Cell} {r : Nat} {l : Link}
    (h : ∀ c, A[r]? = some c → ∃ c', A'[r]? = some c' ∧ lk c' = lk c) (hl : LinkIs A r l) : LinkIs A' r l := by
  rw [LinkIs_iff] at hl ⊢
  obtain ⟨c, hc, hk⟩ := hl
  obtain ⟨c', hc', hk'⟩ := h c hc
  exact ⟨c', hc', by rw [hk']; exact hk⟩

theorem refsOK_mono {A A' : List Cell} (h : ∀ r l, LinkIs A r l → LinkIs A' r l) (p : Nat) (k : String) :
    ∀ (rs : List Nat) (n : Nat), refsOK A p k n rs → refsOK A' p k n rs := by
  intro rs
  induction rs with
  | nil => intro n _; trivial
  | cons r rs ih => intro n hr; exact ⟨h _ _ hr.1, ih (n + 1) hr.2⟩

theorem slotsOK_mono {A A' : List Cell} (h : ∀ r l, LinkIs A r l → LinkIs A' r l) (p : Nat) :
    ∀ (s : Slots), slotsOK A p s → slotsOK A' p s := by
  intro s
  induction s with
  | nil => intro _; trivial
  | cons x xs ih =>
    obtain ⟨k, sl⟩ := x
    cases sl with
    | one r => intro hs; exact ⟨h _ _ hs.1, ih hs.2⟩
    | many rs => intro hs; exact ⟨refsOK_mono h p k rs 0 hs.1, ih hs.2⟩

def slotOK (A : List Cell) (p : Nat) (k : String) : Slot → Prop
  | .one r => LinkIs A r ⟨p, k, none⟩
  | .many rs => refsOK A p k 0 rs

theorem slotsOK_lookup {A : List Cell} {p : Nat} : ∀ (s : Slots) (k : String) (sl : Slot),
    slotsOK A p s → lookupKey k s = some sl → slotOK A p k sl := by
  intro s
  induction s with
  | nil => intro k sl _ h; simp [lookupKey] at h
  | cons x xs ih =>
    obtain ⟨k', sl'⟩ := x
    intro k sl hs h
    by_cases hk : k' = k
    · simp [lookupKey, hk] at h
      subst h; subst hk
      cases sl' with
      | one r => exact hs.1
      | many rs => exact hs.1
    · simp [lookupKey, hk] at h
      cases sl' with
      | one r => exact ih k sl hs.2 h
      | many rs => exact ih k sl hs.2 h

theorem slotsOK_setKey {A : List Cell} {p : Nat} (k : String) (sl : Slot) (hsl : slotOK A p k sl) :
    ∀ (s : Slots), slotsOK A p s → slotsOK A p (setKey k sl s) := by
  intro s
  induction s with
  | nil =>
    intro _
    cases sl with
    | one r => exact ⟨hsl, trivial⟩
    | many rs => exact ⟨hsl, trivial⟩
  | cons x xs ih =>
    obtain ⟨k', sl'⟩ := x
    intro hs
    by_cases hk : k' = k
    · simp only [setKey, hk, if_true]
      cases sl' with
      | one r' => cases sl with
        | one r => exact ⟨hsl, hs.2⟩
        | many rs => exact ⟨hsl, hs.2⟩
      | many rs' => cases sl with
        | one r => exact ⟨hsl, hs.2⟩
        | many rs => exact ⟨hsl, hs.2⟩
    · simp only [setKey, hk, if_false]
      cases sl' with
      | one r' => exact ⟨hs.1, ih hs.2⟩
      | many rs' => exact ⟨hs.1, ih hs.2⟩

theorem slotsOK_eraseKey {A : List Cell} {p : Nat} (k : String) :
    ∀ (s : Slots), slotsOK A p s → slotsOK A p (eraseKey k s) := by
  intro s
  induction s with
  | nil => intro _; trivial
  | cons x xs ih =>
    obtain ⟨k', sl'⟩ := x
    intro hs
    by_cases hk : k' = k
    · simp only [eraseKey, hk, if_true]
      cases sl' <;> exact hs.2
    · simp only [eraseKey, hk, if_false]
      cases sl' with
      | one r' => exact ⟨hs.1, ih hs.2⟩
      | many rs' => exact ⟨hs.1, ih hs.2⟩

theorem refsOK_snoc {A : List Cell} {p : Nat} {k : String} : ∀ (rs : List Nat) (n j : Nat),
    refsOK A p k n rs → LinkIs A j ⟨p, k, some (n + rs.length)⟩ → refsOK A p k n (rs ++ [j]) := by
  intro rs
  induction rs with
  | nil => intro n j _ hj; exact ⟨by simpa using hj, trivial⟩
  | cons r rs ih =>
    intro n j hr hj
    refine ⟨hr.1, ih (n + 1) j hr.2 ?_⟩
    have : n + 1 + rs.length = n + (r :: rs).length := by simp; omega
    rw [this]; exact hj

/-- a freshly built object: a scalar, or an Expression without children yet -/
def freshCell : Cell → Prop
  | .node _ _ _ _ args _ _ => args = []
  | _ => True

theorem linkIs_step {A : List Cell} (idx : Nat) (cls ty c m args l h cls' ty' c' m' args' h')
    (hget : A[idx]? = some (Cell.node cls ty c m args l h)) (cells : List Cell) :
    ∀ r lk', LinkIs A r lk' → LinkIs (A.set idx (Cell.node cls' ty' c' m' args' l h') ++ cells) r lk' := by
  have hlt := lt_of_get hget
  intro r lk' hl
  apply LinkIs_transfer _ hl
  intro c0 hc0
  have hr := lt_of_get hc0
  by_cases hri : r = idx
  · subst hri
    rw [hget] at hc0
    have := Option.some.inj hc0
    subst this
    exact ⟨_, get_set_append _ _ _ _ hlt, rfl⟩
  · refine ⟨c0, ?_, rfl⟩
    rw [List.getElem?_append_left (by simpa using hr), List.getElem?_set_ne (fun e => hri e.symm), hc0]

/-- the heart of it: replace the args of the node at `idx` by `args'` (same parent fields) and append fresh cells;
    if `args'` is consistent in the result, the whole result is -/
theorem links_step {A : List Cell} (hA : LinksOK A) (idx : Nat) (cls ty c m args l h cls' ty' c' m' args' h')
    (hget : A[idx]? = some (Cell.node cls ty c m args l h)) (cells : List Cell)
    (hfresh : ∀ x ∈ cells, freshCell x)
    (hnew : slotsOK (A.set idx (Cell.node cls' ty' c' m' args' l h') ++ cells) idx args') :
    LinksOK (A.set idx (Cell.node cls' ty' c' m' args' l h') ++ cells) := by
  have hlt := lt_of_get hget
  have hmono := linkIs_step idx cls ty c m args l h cls' ty' c' m' args' h' hget cells
  intro j
  unfold cellOK
  by_cases hj : j < A.length
  · by_cases hji : j = idx
    · subst hji
      rw [get_set_append _ _ _ _ hlt]
      exact hnew
    · rw [List.getElem?_append_left (by simpa using hj), List.getElem?_set_ne (fun e => hji e.symm)]
      have := hA j
      unfold cellOK at this
      cases hc : A[j]? with
      | none => trivial
      | some c0 =>
        rw [hc] at this
        cases c0 with
        | node cls2 ty2 c2 m2 args0 l' h0 => exact slotsOK_mono hmono j args0 this
        | dtype s => trivial
        | raw r => trivial
  · rw [List.getElem?_append_right (by simpa using Nat.le_of_not_lt hj)]
    cases hc : cells[j - (A.set idx (Cell.node cls' ty' c' m' args' l h')).length]? with
    | none => trivial
    | some c0 =>
      have := hfresh c0 (List.mem_of_getElem? hc)
      cases c0 with
      | node cls2 ty2 c2 m2 args0 l' h0 => simp only [freshCell] at this; subst this; trivial
      | dtype s => trivial
      | raw r => trivial

theorem lk_eH (c : Cell) : lk (eH c) = lk c := by cases c <;> rfl

theorem linksOK_of_mapE {A B : List Cell} (h : mapE A = mapE B) (hA : LinksOK A) : LinksOK B := by
  have htr : ∀ r l, LinkIs A r l → LinkIs B r l := by
    intro r l hl
    apply LinkIs_transfer _ hl
    intro c hc
    have hg := mapE_get h r
    cases hc' : B[r]? with
    | none => simp [hc, hc'] at hg
    | some c' =>
      simp only [hc, hc', Option.map_some, Option.some.injEq] at hg
      exact ⟨c', rfl, by rw [← lk_eH c', ← hg, lk_eH]⟩
  intro j
  have := hA j
  unfold cellOK at this ⊢
  have hg := mapE_get h j
  cases hc' : B[j]? with
  | none => trivial
  | some c' =>
    cases hc : A[j]? with
    | none => simp [hc, hc'] at hg
    | some c =>
      simp only [hc, hc', Option.map_some, Option.some.injEq] at hg
      rw [hc] at this
      cases c' with
      | node cls ty cm m args l hh =>
        have : eH c = .node cls ty cm m args l none := by rw [hg]; simp [eH]
        obtain ⟨h1, rfl⟩ := eH_node this
        simp only at *
        exact slotsOK_mono htr j args (by assumption)
      | dtype s => trivial
      | raw r => trivial

theorem linkIs_new (B : List Cell) (cell : Cell) (lnk : Link) (n : Nat) (hn : n = B.length) :
    LinkIs (B ++ [cell.withLink lnk]) n lnk := by
  subst hn
  rw [LinkIs_iff]
  refine ⟨cell.withLink lnk, by simp, ?_⟩
  cases cell <;> simp [Cell.withLink, lk]

theorem freshCell_withLink (cell : Cell) (lnk : Link) (h : freshCell cell) : freshCell (cell.withLink lnk) := by
  cases cell <;> simp_all [Cell.withLink, freshCell]

theorem attach_links (A : List Cell) (cell : Cell) (idx : Nat) (k : String) (arr : Bool) (A' : List Cell)
    (hA : LinksOK A) (hf : freshCell cell) (h : attach A cell idx k arr = some A') : LinksOK A' := by
  unfold attach at h
  split at h
  · have hB : LinksOK (clearUp A A.length idx) := linksOK_of_mapE (clearUp_mapE A.length A idx).symm hA
    have hBlen : (clearUp A A.length idx).length = A.length := mapE_len_eq (clearUp_mapE A.length A idx)
    simp only at h
    split at h
    · rename_i cls ty c m args l hh hget
      simp at h
      subst h
      have hargs : slotsOK (clearUp A A.length idx) idx args := by
        have := hB idx
        unfold cellOK at this
        rw [hget] at this
        exact this
      apply links_step hB idx cls ty c m args l hh cls ty c m _ hh hget
      · intro x hx; simp at hx; subst hx; exact freshCell_withLink cell _ hf
      · -- the new args are consistent in the result
        have hmono := linkIs_step idx cls ty c m args l hh cls ty c m
          (linkArgs args k arr A.length cell.isRawNull).1 hh hget
          [cell.withLink ⟨idx, k, (linkArgs args k arr A.length cell.isRawNull).2⟩]
        have hargsR := slotsOK_mono hmono idx args hargs
        have hnewcell : LinkIs ((clearUp A A.length idx).set idx
              (Cell.node cls ty c m (linkArgs args k arr A.length cell.isRawNull).1 l hh) ++
            [cell.withLink ⟨idx, k, (linkArgs args k arr A.length cell.isRawNull).2⟩]) A.length
            ⟨idx, k, (linkArgs args k arr A.length cell.isRawNull).2⟩ :=
          linkIs_new _ cell _ A.length (by simp [hBlen])
        generalize hR : ((clearUp A A.length idx).set idx
              (Cell.node cls ty c m (linkArgs args k arr A.length cell.isRawNull).1 l hh) ++
            [cell.withLink ⟨idx, k, (linkArgs args k arr A.length cell.isRawNull).2⟩]) = R at hnewcell hargsR ⊢
        clear hR
        unfold linkArgs at hnewcell ⊢
        by_cases ha : arr = true
        · simp only [ha, if_true] at hnewcell ⊢
          unfold appendRef at hnewcell ⊢
          cases hl : lookupKey k args with
          | none =>
            simp only [hl] at hnewcell ⊢
            exact slotsOK_setKey k (.many [A.length])
              (show refsOK R idx k 0 [A.length] from ⟨hnewcell, trivial⟩) args hargsR
          | some sl =>
            cases sl with
            | one r0 =>
              simp only [hl] at hnewcell ⊢
              exact slotsOK_setKey k (.many [A.length])
                (show refsOK R idx k 0 [A.length] from ⟨hnewcell, trivial⟩) args hargsR
            | many rs =>
              simp only [hl] at hnewcell ⊢
              have hrs : refsOK R idx k 0 rs := slotsOK_lookup args k _ hargsR hl
              exact slotsOK_setKey k (.many (rs ++ [A.length]))
                (show refsOK R idx k 0 (rs ++ [A.length]) from
                  refsOK_snoc rs 0 A.length hrs (by simpa using hnewcell)) args hargsR
        · simp only [ha, Bool.false_eq_true, if_false] at hnewcell ⊢
          by_cases hnull : cell.isRawNull = true
          · simp only [hnull, if_true]
            exact slotsOK_eraseKey k args hargsR
          · simp only [hnull, Bool.false_eq_true, if_false] at hnewcell ⊢
            exact slotsOK_setKey k (.one A.length)
              (show LinkIs R A.length ⟨idx, k, none⟩ from hnewcell) args hargsR
    · simp at h
  · simp at h


theorem mkCell_fresh {p : Payload} {cell : Cell} (h : mkCell p = some cell) : freshCell cell := by
  rcases mkCell_inv h with ⟨s, rfl⟩ | ⟨r, rfl⟩ | ⟨cn, t, c, m, rfl⟩ <;> simp [freshCell]

theorem loadList_links : ∀ (ps : List Payload) (A A' : List Cell), LinksOK A → loadList ps A = some A' → LinksOK A' := by
  intro ps
  induction ps with
  | nil => intro A A' hA h; simp [loadList] at h; subst h; exact hA
  | cons p ps ih =>
    intro A A' hA h
    simp only [loadList] at h
    cases hc : mkCell p with
    | none => simp [hc] at h
    | some cell =>
      simp only [hc] at h
      cases hi : pIndex p with
      | none => simp [hi] at h
      | some idx =>
        cases hk : pKey p with
        | none => simp [hi, hk] at h
        | some k =>
          simp only [hi, hk] at h
          cases hat : attach A cell idx k (pArr p) with
          | none => simp [hat] at h
          | some A1 =>
            simp only [hat] at h
            exact ih A1 A' (attach_links A cell idx k (pArr p) A1 hA (mkCell_fresh hc) hat) h

theorem linksOK_single (c : Cell) (hc : freshCell c) : LinksOK [c] := by
  intro j
  unfold cellOK
  cases j with
  | zero =>
    cases c with
    | node cls ty cm m args l h => simp only [freshCell] at hc; subst hc; simp [slotsOK]
    | dtype s => simp
    | raw r => simp
  | succ n => simp

theorem loadArena_links (ps : List Payload) (A : List Cell) (h : loadArena ps = some A) : LinksOK A := by
  cases ps with
  | nil => simp [loadArena] at h; subst h; intro j; simp [cellOK]
  | cons p tail =>
    simp only [loadArena] at h
    cases hr : mkRoot p with
    | none => simp [hr] at h
    | some root =>
      simp only [hr] at h
      have hroot : freshCell root := by
        obtain ⟨i, k, a, cls, ty, c, m, value⟩ := p
        cases cls with
        | none => simp [mkRoot] at hr
        | some cn =>
          simp only [mkRoot] at hr
          rcases mkObj_inv hr with ⟨s, rfl⟩ | ⟨t, m', rfl⟩ <;> simp [freshCell]
      exact loadList_links tail [root] A (linksOK_single root hroot) h

theorem toCell_fresh (v : Val) : freshCell v.toCell := by
  cases v <;> simp [Val.toCell, emptyCell, freshCell]

theorem assignArg_links (A : List Cell) (j : Nat) (k : String) (s : Slot) (cells : List Cell) (A' : List Cell)
    (hA : LinksOK A) (hfresh : ∀ x ∈ cells, freshCell x)
    (hs : ∀ R : List Cell, (∀ i, (hi : i < cells.length) → R[A.length + i]? = some cells[i]) → slotOK R j k s)
    (h : assignArg A j k s cells = some A') : LinksOK A' := by
  unfold assignArg at h
  split at h
  · rename_i cls ty c m args l hh hget
    simp at h
    subst h
    have hargs : slotsOK A j args := by
      have := hA j
      unfold cellOK at this
      rw [hget] at this
      exact this
    apply links_step hA j cls ty c m args l hh cls ty c m _ hh hget cells hfresh
    have hmono := linkIs_step j cls ty c m args l hh cls ty c m (setKey k s args) hh hget cells
    refine slotsOK_setKey k s (hs _ ?_) args (slotsOK_mono hmono j args hargs)
    intro i hi
    rw [List.getElem?_append_right (by simp)]
    simp [hi]
  · simp at h

theorem fillCell_links (A : List Cell) (j : Nat) (c : Comments) (ty : Option Val) (m : Meta) (hv : Option Nat)
    (A' : List Cell) (hA : LinksOK A) (h : fillCell A j c ty m hv = some A') : LinksOK A' := by
  unfold fillCell at h
  split at h
  · rename_i cls ty0 c0 m0 args l hh hget
    simp at h
    subst h
    have hargs : slotsOK A j args := by
      have := hA j
      unfold cellOK at this
      rw [hget] at this
      exact this
    have := links_step hA j cls ty0 c0 m0 args l hh cls ty c m args hv hget [] (by simp)
      (slotsOK_mono (linkIs_step j cls ty0 c0 m0 args l hh cls ty c m args hv hget []) j args hargs)
    simpa using this
  · simp at h

/-- **the finished copy satisfies the C08 link invariant** -/
theorem copy_links (hashOf : Val → Option Nat) (t : Val) (B : List Cell)
    (h : copyArena hashOf t = some B) : LinksOK B := by
  unfold copyArena copyLoop at h
  refine copyLoopWith_pres attach hashOf LinksOK ?_ ?_ ?_ ?_ _ _ _ _ (linksOK_single _ (toCell_fresh t)) h
  · intro A v j k arr A' hA hat; exact attach_links A v.toCell j k arr A' hA (toCell_fresh v) hat
  · intro A j k v A' hA hn has
    refine assignArg_links A j k _ _ A' hA (by intro x hx; simp at hx; subst hx; exact toCell_fresh v) ?_ has
    intro R hR
    have h0 := hR 0 (by simp)
    simp only [List.getElem_cons_zero, Nat.add_zero] at h0
    show LinkIs R A.length ⟨j, k, none⟩
    rw [LinkIs_iff]
    refine ⟨v.toCell, h0, Or.inl ?_⟩
    cases v <;> simp_all [Val.toCell, Val.isNode, lk]
  · intro A j k A' hA has
    exact assignArg_links A j k (.many []) [] A' hA (by simp) (fun R _ => (show refsOK R j k 0 [] from trivial)) has
  · intro A j c ty m v A' hA hf; exact fillCell_links A j c ty m _ A' hA hf

/-- **no node is reachable twice**: if an Expression cell is stored under two slot addresses, they are the same address -/
theorem linkIs_unique {A : List Cell} {r : Nat} {l l' : Link} {cls ty c m args lnk h}
    (hr : A[r]? = some (Cell.node cls ty c m args lnk h)) (h1 : LinkIs A r l) (h2 : LinkIs A r l') : l = l' := by
  unfold LinkIs at h1 h2
  rw [hr] at h1 h2
  simp only at h1 h2
  rw [h1] at h2
  exact Option.some.inj h2

/-! ## Part J: enum codec -/

theorem decodeEnum_hit (b : EnumBy) : ∀ (T : List (String × String)), (T.map (enumFace b)).Nodup →
    ∀ e ∈ T, ∀ s, enumFace b e = some s → decodeEnum T b s = some e := by
  intro T
  induction T with
  | nil => intro _ e he; simp at he
  | cons x xs ih =>
    intro hnd e he s hs
    simp only [List.map_cons, List.nodup_cons] at hnd
    simp only [List.mem_cons] at he
    unfold decodeEnum
    rcases he with rfl | he
    · simp [List.find?, hs]
    · have hne : enumFace b x ≠ some s := by
        intro hx
        apply hnd.1
        rw [hx, ← hs]
        exact List.mem_map_of_mem he
      have : (enumFace b x == some s) = false := by simpa using hne
      simp only [List.find?, this]
      exact ih hnd.2 e he s hs

/-- both sides use the same face, distinct on the table: every member survives -/
theorem enum_codec_roundtrip (T : List (String × String)) (b : EnumBy) (hb : b ≠ .other)
    (hnd : (T.map (enumFace b)).Nodup) (e : String × String) (he : e ∈ T) :
    (encodeEnum b e).bind (decodeEnum T b) = some e := by
  cases b with
  | other => exact absurd rfl hb
  | value => simp [encodeEnum, enumFace]; exact decodeEnum_hit .value T hnd e he e.2 rfl
  | name => simp [encodeEnum, enumFace]; exact decodeEnum_hit .name T hnd e he e.1 rfl

/-! ## Part K: the fold behind `==` is invariant under `norm` and under the `type` view -/

theorem itemOne_norm (R : HashRules) (raw : Bool) (k : String) (v : Val) (h : (v.norm).nf R = v.nf R) :
    itemOne R raw k v.norm ((v.norm).nf R) = itemOne R raw k v (v.nf R) := by
  cases v <;> simp_all [Val.norm, itemOne]

theorem itemElem_norm (R : HashRules) (k : String) (v : Val) (h : (v.norm).nf R = v.nf R) :
    itemElem R k v.norm ((v.norm).nf R) = itemElem R k v (v.nf R) := by
  cases v <;> simp_all [Val.norm, itemElem]

theorem itemOne_null (R : HashRules) (raw : Bool) (k : String) (v : Val) (n : EqK) (h : v.isNull = true) :
    itemOne R raw k v n = [] := by
  cases v with
  | node => simp [Val.isNull] at h
  | dtype => simp [Val.isNull] at h
  | raw r => cases r <;> simp_all [Val.isNull, itemOne, nfRaw, nfRawTruthy]

/- `==` cannot see what `load ∘ dump` erases: a tree and its normal form have the same fold -/
mutual
theorem nf_norm (R : HashRules) : ∀ (v : Val), (v.norm).nf R = v.nf R
  | .node cls ty c m args => by simp [Val.norm, Val.nf, nfArgs_norm R (R.rawArgs cls) args]
  | .dtype _ => by simp [Val.norm]
  | .raw _ => by simp [Val.norm]
theorem nfArgs_norm (R : HashRules) (raw : Bool) : ∀ (args : List Arg),
    nfArgs R raw (normArgs args) = nfArgs R raw args
  | [] => by simp [normArgs]
  | .one k v :: as => by
    by_cases hn : v.isNull = true
    · simp [normArgs, Arg.dropped, hn, nfArgs, Arg.nfItems, itemOne_null R raw k v _ hn, nfArgs_norm R raw as]
    · simp [normArgs, Arg.dropped, hn, nfArgs, Arg.nfItems, Arg.norm, itemOne_norm R raw k v (nf_norm R v),
        nfArgs_norm R raw as]
  | .many k vs :: as => by
    by_cases hn : vs.isEmpty = true
    · have : vs = [] := by cases vs <;> simp_all
      subst this
      simp [normArgs, Arg.dropped, nfArgs, Arg.nfItems, nfVals, nfArgs_norm R raw as]
    · simp [normArgs, Arg.dropped, hn, nfArgs, Arg.nfItems, Arg.norm, normVals_isEmpty, nfVals_norm R k vs,
        nfArgs_norm R raw as]
theorem nfVals_norm (R : HashRules) (k : String) : ∀ (vs : List Val), nfVals R k (normVals vs) = nfVals R k vs
  | [] => by simp [normVals]
  | v :: vs => by simp [normVals, nfVals, itemElem_norm R k v (nf_norm R v), nfVals_norm R k vs]
end

theorem itemOne_view (R : HashRules) (TR : TypeRules) (raw : Bool) (k : String) (v : Val)
    (h : (v.view TR).nf R = v.nf R) : itemOne R raw k (v.view TR) ((v.view TR).nf R) = itemOne R raw k v (v.nf R) := by
  cases v <;> simp_all [Val.view, itemOne]

theorem itemElem_view (R : HashRules) (TR : TypeRules) (k : String) (v : Val)
    (h : (v.view TR).nf R = v.nf R) : itemElem R k (v.view TR) ((v.view TR).nf R) = itemElem R k v (v.nf R) := by
  cases v <;> simp_all [Val.view, itemElem]

/- … nor which `_type` a node carries (`type`-view or raw) -/
mutual
theorem nf_view (R : HashRules) (TR : TypeRules) : ∀ (v : Val), (v.view TR).nf R = v.nf R
  | .node cls ty c m args => by simp [Val.view, Val.nf, nfArgs_view R TR (R.rawArgs cls) args]
  | .dtype _ => by simp [Val.view]
  | .raw _ => by simp [Val.view]
theorem nfArgs_view (R : HashRules) (TR : TypeRules) (raw : Bool) : ∀ (args : List Arg),
    nfArgs R raw (viewArgs TR args) = nfArgs R raw args
  | [] => by simp [viewArgs]
  | .one k v :: as => by
    simp [viewArgs, Arg.view, nfArgs, Arg.nfItems, itemOne_view R TR raw k v (nf_view R TR v), nfArgs_view R TR raw as]
  | .many k vs :: as => by
    simp [viewArgs, Arg.view, nfArgs, Arg.nfItems, viewVals_isEmpty, nfVals_view R TR k vs, nfArgs_view R TR raw as]
theorem nfVals_view (R : HashRules) (TR : TypeRules) (k : String) : ∀ (vs : List Val),
    nfVals R k (viewVals TR vs) = nfVals R k vs
  | [] => by simp [viewVals]
  | v :: vs => by simp [viewVals, nfVals, itemElem_view R TR k v (nf_view R TR v), nfVals_view R TR k vs]
end

/-! ## Part L: when `dump` reads the raw `_type` field, the `type` view is the identity -/

theorem typeProp_no_rules (R : TypeRules) (hd : ∀ c, R.isDataType c = false) (hc : ∀ c, R.isCast c = false)
    (cls : String) (ty : Option Val) (args : List Arg) : typeProp R cls ty args = ty := by
  simp [typeProp, hd, hc]

mutual
theorem view_id (R : TypeRules) (hd : ∀ c, R.isDataType c = false) (hc : ∀ c, R.isCast c = false) :
    ∀ (v : Val), v.view R = v
  | .node cls ty c m args => by
    simp [Val.view, typeProp_no_rules R hd hc, viewOpt_id R hd hc ty, viewMeta_id R hd hc m, viewArgs_id R hd hc args]
  | .dtype _ => rfl
  | .raw _ => rfl
theorem viewOpt_id (R : TypeRules) (hd : ∀ c, R.isDataType c = false) (hc : ∀ c, R.isCast c = false) :
    ∀ (o : Option Val), viewOpt R o = o
  | none => rfl
  | some v => by simp [viewOpt, view_id R hd hc v]
theorem viewMeta_id (R : TypeRules) (hd : ∀ c, R.isDataType c = false) (hc : ∀ c, R.isCast c = false) :
    ∀ (m : Option (List MetaE)), viewMeta R m = m
  | none => rfl
  | some l => by simp [viewMeta, viewMetaL_id R hd hc l]
theorem viewMetaL_id (R : TypeRules) (hd : ∀ c, R.isDataType c = false) (hc : ∀ c, R.isCast c = false) :
    ∀ (l : List MetaE), viewMetaL R l = l
  | [] => rfl
  | .raw k r :: es => by simp [viewMetaL, MetaE.view, viewMetaL_id R hd hc es]
  | .expr k v :: es => by simp [viewMetaL, MetaE.view, view_id R hd hc v, viewMetaL_id R hd hc es]
theorem viewArgs_id (R : TypeRules) (hd : ∀ c, R.isDataType c = false) (hc : ∀ c, R.isCast c = false) :
    ∀ (args : List Arg), viewArgs R args = args
  | [] => rfl
  | .one k v :: as => by simp [viewArgs, Arg.view, view_id R hd hc v, viewArgs_id R hd hc as]
  | .many k vs :: as => by simp [viewArgs, Arg.view, viewVals_id R hd hc vs, viewArgs_id R hd hc as]
theorem viewVals_id (R : TypeRules) (hd : ∀ c, R.isDataType c = false) (hc : ∀ c, R.isCast c = false) :
    ∀ (vs : List Val), viewVals R vs = vs
  | [] => rfl
  | v :: vs => by simp [viewVals, view_id R hd hc v, viewVals_id R hd hc vs]
end

end SqlglotModel.Serde
