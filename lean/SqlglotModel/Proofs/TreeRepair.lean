/-
  Proofs/TreeRepair.lean — the simplifier's manual pointer repair loop restores the invariant (C08 `inv_simplify_repair`).
-/
import SqlglotModel.Proofs.Tree

namespace SqlglotModel.Tree

variable {H : Type}

/-! ### dropping `None` entries does not change a hash -/

def SortedArgs (l : List (String × Arg)) : Prop := l.Pairwise (fun a b => ¬ b.1 < a.1)

theorem insertArg_sorted (e : String × Arg) : ∀ {l : List (String × Arg)}, SortedArgs l → SortedArgs (insertArg e l)
  | [], _ => by simp [insertArg, SortedArgs]
  | x :: r, hs => by
    simp only [SortedArgs, List.pairwise_cons] at hs
    simp only [insertArg]
    split
    · next hlt =>
      simp only [SortedArgs, List.pairwise_cons]
      refine ⟨?_, hs⟩
      intro y hy
      rcases List.mem_cons.mp hy with e' | e'
      · subst e'; exact String.lt_asymm hlt
      · intro hyl
        exact hs.1 y e' (String.lt_trans hyl hlt)
    · next hge =>
      simp only [SortedArgs, List.pairwise_cons]
      refine ⟨?_, insertArg_sorted e hs.2⟩
      intro y hy
      rcases mem_insertArg.mp hy with e' | e'
      · subst e'; exact hge
      · exact hs.1 y e'

theorem sortArgs_sorted : ∀ (l : List (String × Arg)), SortedArgs (sortArgs l)
  | [] => by simp [sortArgs, SortedArgs]
  | e :: r => insertArg_sorted e (sortArgs_sorted r)

theorem insertArg_filter (p : String × Arg → Bool) (e : String × Arg) :
    ∀ {l : List (String × Arg)}, SortedArgs l →
      (insertArg e l).filter p = if p e then insertArg e (l.filter p) else l.filter p
  | [], _ => by cases hp : p e <;> simp [insertArg, hp]
  | x :: r, hs => by
    have hs' := hs
    simp only [SortedArgs, List.pairwise_cons] at hs
    have ih := insertArg_filter p e hs.2
    simp only [insertArg]
    split
    · next hlt =>
      cases hp : p e with
      | false => simp [List.filter_cons, hp]
      | true =>
        simp only [List.filter_cons, hp, if_true]
        cases hx : p x with
        | true => simp [insertArg, hlt]
        | false =>
          simp only [Bool.false_eq_true, if_false]
          -- e goes in front of whatever remains: everything in `r` is ≥ x > e
          cases hf : r.filter p with
          | nil => simp [insertArg]
          | cons y ys =>
            have hy : y ∈ r := (List.mem_filter.mp (by rw [hf]; simp)).1
            have hxy : x.1 ≤ y.1 := String.not_lt.mp (hs.1 y hy)
            have : e.1 < y.1 := Std.lt_of_lt_of_le hlt hxy
            simp [insertArg, this]
    · next hge =>
      simp only [List.filter_cons]
      cases hx : p x with
      | true =>
        simp only [if_true, ih]
        cases hp : p e with
        | true => simp [insertArg, hge]
        | false => simp
      | false =>
        simp only [Bool.false_eq_true, if_false, ih]

theorem sortArgs_filter (p : String × Arg → Bool) : ∀ (l : List (String × Arg)),
    sortArgs (l.filter p) = (sortArgs l).filter p
  | [] => rfl
  | e :: r => by
    simp only [sortArgs, List.filter_cons]
    rw [insertArg_filter p e (sortArgs_sorted r)]
    cases hp : p e with
    | true => simp only [if_true, sortArgs]; rw [sortArgs_filter p r]
    | false => simp only [Bool.false_eq_true, if_false]; exact sortArgs_filter p r

theorem hashArgs_filter (F : HashFns H) (ch : Id → Option H) (raw : Bool) (p : String × Arg → Bool) :
    ∀ (l : List (String × Arg)) (acc : H), (∀ e, e ∈ l → p e = false → e.2 = .leaf .none) →
      hashArgs F ch raw acc (l.filter p) = hashArgs F ch raw acc l
  | [], _, _ => rfl
  | (k, a) :: r, acc, hn => by
    simp only [List.filter_cons]
    cases hp : p (k, a) with
    | true =>
      simp only [if_true, hashArgs]
      split
      · exact hashArgs_filter F ch raw p r _ (fun e he => hn e (List.mem_cons_of_mem _ he))
      · rfl
    | false =>
      simp only [Bool.false_eq_true, if_false]
      have : a = .leaf .none := hn (k, a) (by simp) hp
      subst this
      have h1 : hashArg F ch raw k acc (.leaf .none) = some acc := by
        cases raw <;> simp [hashArg, truthy, dropped]
      simp only [hashArgs, h1]
      exact hashArgs_filter F ch raw p r acc (fun e he => hn e (List.mem_cons_of_mem _ he))

/-- `args.pop(k)` of a `None`-valued argument leaves the node's hash unchanged -/
theorem hashNode_delKey_none (F : HashFns H) (nd nd' : Node H) (ch : Id → Option H) (k : String)
    (hc : nd'.cls = nd.cls) (hr : nd'.raw = nd.raw) (ha : nd'.args = delKey k nd.args)
    (hu : KeysUnique nd.args) (hg : getKey k nd.args = some (.leaf .none)) :
    hashNode F nd' ch = hashNode F nd ch := by
  unfold hashNode
  rw [hc, hr, ha]
  unfold delKey
  rw [sortArgs_filter]
  apply hashArgs_filter
  intro e he hp
  have hm : e ∈ nd.args := mem_sortArgs.mp he
  have hk : e.1 = k := by simpa using hp
  obtain ⟨k', a⟩ := e
  simp only at hk; subst hk
  have := getKey_of_mem hu hm
  rw [hg] at this
  simp only [Option.some.injEq] at this
  exact this.symm

/-! ### the repair loop -/

/-- `c` occurs in the arg list at slot `(k, i)` -/
def Occ (l : List (String × Arg)) (k : String) (i : Option Nat) (c : Id) : Prop := ∃ a, (k, a) ∈ l ∧ ArgHas a i c

/-- no node occurs in two slots -/
def UniqOcc (l : List (String × Arg)) : Prop :=
  ∀ k i k' i' c, Occ l k i c → Occ l k' i' c → k = k' ∧ i = i'

theorem UniqOcc.tail {e : String × Arg} {t : List (String × Arg)} (hu : UniqOcc (e :: t)) : UniqOcc t := by
  intro k i k' i' c ⟨a, hm, ha⟩ ⟨a', hm', ha'⟩
  exact hu k i k' i' c ⟨a, List.mem_cons_of_mem _ hm, ha⟩ ⟨a', List.mem_cons_of_mem _ hm', ha'⟩

theorem repairStep_fields (self : Id) (h : Heap H) (e : String × Arg) (m : Id) :
    (repairStep self h e m).hash = (h m).hash ∧ (repairStep self h e m).cls = (h m).cls ∧
    (repairStep self h e m).raw = (h m).raw ∧ (m ≠ self → (repairStep self h e m).args = (h m).args) := by
  obtain ⟨k, a⟩ := e
  cases a with
  | one c => simp [repairStep]
  | many items =>
    obtain ⟨a1, a2, a3, a4⟩ := spi_fields self k items 0 h m
    exact ⟨a2, a3, a4, fun _ => a1⟩
  | leaf s =>
    cases s with
    | none => exact ⟨by simp [repairStep], by simp [repairStep], by simp [repairStep],
        fun hm => by simp [repairStep, setArgs_args_other _ _ hm]⟩
    | bool b => simp [repairStep]
    | int i => simp [repairStep]
    | str t => simp [repairStep]

/-- what one repair step does to back pointers -/
theorem repairStep_ptrs (self : Id) (h : Heap H) (k : String) (a : Arg) (hd : ∀ items, a = .many items → ItemsDistinct items) :
    (∀ i c, ArgHas a i c → ptrs (repairStep self h (k, a) c) = (some self, some k, i)) ∧
    (∀ m, (∀ i, ¬ ArgHas a i m) → ptrs (repairStep self h (k, a) m) = ptrs (h m)) := by
  cases a with
  | one c0 =>
    refine ⟨?_, ?_⟩
    · intro i c ha
      cases i <;> simp only [ArgHas] at ha
      subst ha; simp [repairStep, ptrs, setPtr]
    · intro m hm
      have : m ≠ c0 := fun e => hm none (by simp [ArgHas, e])
      simp [repairStep, setPtr_other _ _ _ _ this]
  | many items =>
    refine ⟨?_, ?_⟩
    · intro i c ha
      cases i with
      | none => simp [ArgHas] at ha
      | some j =>
        simp only [ArgHas] at ha
        have := spi_at self k items 0 h j c (hd items rfl) ha
        simpa [repairStep] using this
    · intro m hm
      have : Item.node m ∉ items := by
        intro hmem
        obtain ⟨j, hj⟩ := List.mem_iff_getElem?.mp hmem
        exact hm (some j) (by simpa [ArgHas] using hj)
      simp [repairStep, spi_other self k items 0 h m this]
  | leaf s =>
    refine ⟨fun i c ha => by cases i <;> simp [ArgHas] at ha, ?_⟩
    intro m _
    cases s <;> simp [repairStep, ptrs]

theorem repairLoop_ptrs (self : Id) : ∀ (suf : List (String × Arg)) (h : Heap H), UniqOcc suf →
    (∀ k i c, Occ suf k i c → ptrs (repairLoop self h suf c) = (some self, some k, i)) ∧
    (∀ m, (∀ k i, ¬ Occ suf k i m) → ptrs (repairLoop self h suf m) = ptrs (h m))
  | [], h, _ => ⟨(fun k i c ⟨_, hm, _⟩ => nomatch hm), (fun _ _ => rfl)⟩
  | (k0, a0) :: t, h, hu => by
    have hd : ∀ items, a0 = .many items → ItemsDistinct items := by
      intro items e; subst e
      rw [ItemsDistinct, List.pairwise_iff_getElem]
      intro i j hi hj hij c hc hc'
      have o1 : Occ ((k0, .many items) :: t) k0 (some i) c :=
        ⟨.many items, by simp, by simp [ArgHas, hc, List.getElem?_eq_getElem hi]⟩
      have o2 : Occ ((k0, .many items) :: t) k0 (some j) c :=
        ⟨.many items, by simp, by simp [ArgHas, hc', List.getElem?_eq_getElem hj]⟩
      have := (hu _ _ _ _ _ o1 o2).2
      simp only [Option.some.injEq] at this
      omega
    obtain ⟨s1, s2⟩ := repairStep_ptrs self h k0 a0 hd
    obtain ⟨ih1, ih2⟩ := repairLoop_ptrs self t (repairStep self h (k0, a0)) hu.tail
    refine ⟨?_, ?_⟩
    · intro k i c ho
      simp only [repairLoop]
      by_cases hex : ∃ k' i', Occ t k' i' c
      · obtain ⟨k', i', ho'⟩ := hex
        obtain ⟨a', hm', ha'⟩ := ho'
        obtain ⟨e1, e2⟩ := hu k i k' i' c ho ⟨a', List.mem_cons_of_mem _ hm', ha'⟩
        subst e1; subst e2
        exact ih1 k i c ⟨a', hm', ha'⟩
      · have hno : ∀ k' i', ¬ Occ t k' i' c := fun k' i' ho' => hex ⟨k', i', ho'⟩
        rw [ih2 c hno]
        obtain ⟨a, hm, ha⟩ := ho
        rcases List.mem_cons.mp hm with e | e
        · cases e; exact s1 i c ha
        · exact absurd ⟨a, e, ha⟩ (hno k i)
    · intro m hm
      simp only [repairLoop]
      rw [ih2 m (fun k i ⟨a, hma, ha⟩ => hm k i ⟨a, List.mem_cons_of_mem _ hma, ha⟩)]
      exact s2 m (fun i ha => hm k0 i ⟨a0, by simp, ha⟩)

/-- the part of the invariant the loop maintains step by step: caches, dict-ness, and which keys are still there -/
theorem repairLoop_cache (F : HashFns H) (self : Id) : ∀ (suf : List (String × Arg)) (h : Heap H),
    Cache F h → Keys h → (suf.map Prod.fst).Nodup → (∀ k a, (k, a) ∈ suf → getKey k (h self).args = some a) →
    Cache F (repairLoop self h suf) ∧ Keys (repairLoop self h suf) ∧
    (∀ m, m ≠ self → (repairLoop self h suf m).args = (h m).args) ∧
    (∀ k', getKey k' (repairLoop self h suf self).args = getKey k' (h self).args ∨
      (getKey k' (h self).args = some (.leaf .none) ∧ getKey k' (repairLoop self h suf self).args = none))
  | [], h, hc, hk, _, _ => ⟨hc, hk, fun _ _ => rfl, fun _ => .inl rfl⟩
  | (k0, a0) :: t, h, hc, hk, hnd, hpres => by
    simp only [List.map_cons, List.nodup_cons] at hnd
    obtain ⟨f1, f2, f3, f4⟩ : (∀ m, (repairStep self h (k0, a0) m).hash = (h m).hash) ∧
        (∀ m, (repairStep self h (k0, a0) m).cls = (h m).cls) ∧ (∀ m, (repairStep self h (k0, a0) m).raw = (h m).raw) ∧
        (∀ m, m ≠ self → (repairStep self h (k0, a0) m).args = (h m).args) :=
      ⟨fun m => (repairStep_fields self h _ m).1, fun m => (repairStep_fields self h _ m).2.1,
        fun m => (repairStep_fields self h _ m).2.2.1, fun m => (repairStep_fields self h _ m).2.2.2⟩
    have hg0 : getKey k0 (h self).args = some a0 := hpres k0 a0 (by simp)
    -- the args of `self` after the step
    have hself : (repairStep self h (k0, a0) self).args =
        (if a0 = .leaf .none then delKey k0 (h self).args else (h self).args) := by
      cases a0 with
      | one c => simp [repairStep]
      | many items => simp [repairStep, (spi_fields self k0 items 0 h self).1]
      | leaf s => cases s <;> simp [repairStep]
    have hf : (fun c => (repairStep self h (k0, a0) c).hash) = (fun c => (h c).hash) := funext f1
    have hc1 : Cache F (repairStep self h (k0, a0)) := by
      intro n x hx
      rw [f1] at hx
      rw [hf]
      by_cases hn : n = self
      · subst hn
        by_cases ha : a0 = .leaf .none
        · subst ha
          rw [hashNode_delKey_none F (h n) _ _ k0 (f2 n) (f3 n) (by rw [hself]; simp) (hk n) hg0]
          exact hc n x hx
        · rw [hashNode_fields F (h n) _ _ (f2 n) (f3 n) (by rw [hself]; simp [ha])]
          exact hc n x hx
      · rw [hashNode_fields F (h n) _ _ (f2 n) (f3 n) (f4 n hn)]
        exact hc n x hx
    have hk1 : Keys (repairStep self h (k0, a0)) := by
      intro n
      by_cases hn : n = self
      · subst hn; rw [hself]; split
        · exact keysUnique_delKey (hk n)
        · exact hk n
      · rw [f4 n hn]; exact hk n
    have hpres1 : ∀ k a, (k, a) ∈ t → getKey k (repairStep self h (k0, a0) self).args = some a := by
      intro k a hm
      have hne : ¬ k0 = k := by
        intro e; subst e
        exact hnd.1 (List.mem_map.mpr ⟨(k0, a), hm, rfl⟩)
      rw [hself]; split
      · rw [getKey_delKey]; simp [hne, hpres k a (List.mem_cons_of_mem _ hm)]
      · exact hpres k a (List.mem_cons_of_mem _ hm)
    obtain ⟨r1, r2, r3, r4⟩ := repairLoop_cache F self t _ hc1 hk1 hnd.2 hpres1
    refine ⟨r1, r2, fun m hm => by simp only [repairLoop]; rw [r3 m hm, f4 m hm], ?_⟩
    intro k'
    simp only [repairLoop]
    have step : getKey k' (repairStep self h (k0, a0) self).args = getKey k' (h self).args ∨
        (getKey k' (h self).args = some (.leaf .none) ∧ getKey k' (repairStep self h (k0, a0) self).args = none) := by
      rw [hself]; split
      · next ha =>
        rw [getKey_delKey]
        by_cases e : k0 = k'
        · subst e; right; rw [hg0, ha]; simp
        · left; simp [e]
      · exact .inl rfl
    rcases r4 k' with e | ⟨e1, e2⟩
    · rcases step with s | ⟨s1, s2⟩
      · exact .inl (e.trans s)
      · exact .inr ⟨s1, e.trans s2⟩
    · rcases step with s | ⟨s1, s2⟩
      · exact .inr ⟨s ▸ e1, e2⟩
      · rw [s2] at e1; cases e1

/-- **The simplifier's repair loop restores the invariant.** Before: every cell but the children of `self` is linked
    correctly, caches are right, and the children of `self` are stored only there, once each (the in-place rewrites of the
    simplifier may have left stale `parent / arg_key / index` in them). After: the whole invariant — and no hash was
    invalidated, soundly, because only `None` arguments were dropped. -/
theorem inv_simplifyRepair (F : HashFns H) {h : Heap H} {self : Id}
    (hl : ∀ p k i c, p ≠ self → Stored h p k i c → ptrs (h c) = (some p, some k, i))
    (hown : ∀ k i c, Stored h self k i c → ∀ p k' i', Stored h p k' i' c → p = self ∧ k' = k ∧ i' = i)
    (hc : Cache F h) (hk : Keys h) : Inv F (simplifyRepair h self) := by
  unfold simplifyRepair
  have hnd : ((h self).args.map Prod.fst).Nodup := hk self
  have hpres : ∀ k a, (k, a) ∈ (h self).args → getKey k (h self).args = some a :=
    fun k a hm => getKey_of_mem (hk self) hm
  have hocc : ∀ {k i c}, Occ (h self).args k i c → Stored h self k i c :=
    fun ⟨a, hm, ha⟩ => ⟨a, hpres _ a hm, ha⟩
  have hu : UniqOcc (h self).args := by
    intro k i k' i' c o1 o2
    obtain ⟨_, e1, e2⟩ := hown k i c (hocc o1) self k' i' (hocc o2)
    exact ⟨e1.symm, e2.symm⟩
  obtain ⟨p1, p2⟩ := repairLoop_ptrs self (h self).args h hu
  obtain ⟨c1, c2, c3, c4⟩ := repairLoop_cache F self (h self).args h hc hk hnd hpres
  have hstored : ∀ {p k i c}, Stored (repairLoop self h (h self).args) p k i c → Stored h p k i c := by
    intro p k i c ⟨a, hg, ha⟩
    by_cases hp : p = self
    · subst hp
      rcases c4 k with e | ⟨_, e2⟩
      · exact ⟨a, e ▸ hg, ha⟩
      · rw [e2] at hg; cases hg
    · rw [c3 p hp] at hg; exact ⟨a, hg, ha⟩
  refine ⟨?_, c1, c2⟩
  intro p k i c hs
  have hs0 := hstored hs
  by_cases hp : p = self
  · subst hp
    obtain ⟨a, hg, ha⟩ := hs0
    exact p1 k i c ⟨a, getKey_mem hg, ha⟩
  · rw [p2 c (fun k' i' ho => by
      have := (hown k' i' c (hocc ho) p k i hs0).1
      exact hp this)]
    exact hl p k i c hp hs0

end SqlglotModel.Tree
