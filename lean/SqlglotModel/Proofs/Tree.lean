/-
  Proofs/Tree.lean — helper lemmas for the pointer-heap model (C08, C09).  Core Lean only.
-/
import SqlglotModel.Model.Tree

namespace SqlglotModel.Tree

variable {H : Type}

/-- The structural invariant of C08 (whole heap, local form).
    * `links`  : a child records exactly the (parent, arg_key, index) under which it is stored
                 (hence no node is stored in two places: `no_sharing`);
    * `cache`  : a cached hash is the hash of the node's own fields and its children's *cached* hashes
                 (hence equals the from-scratch recomputation: `cache_eq_recompute`; and a cached node has only
                 cached children: `closure` — the fact the early exit of the invalidation loop relies on);
    * `keys`   : `args` is a dict. -/
def ptrs (nd : Node H) : Option Id × Option String × Option Nat := (nd.parent, nd.argKey, nd.index)

def Links (h : Heap H) : Prop := ∀ p k i c, Stored h p k i c → ptrs (h c) = (some p, some k, i)
def Cache (F : HashFns H) (h : Heap H) : Prop :=
  ∀ n x, (h n).hash = some x → hashNode F (h n) (fun c => (h c).hash) = some x
def Keys (h : Heap H) : Prop := ∀ n, KeysUnique (h n).args

structure Inv (F : HashFns H) (h : Heap H) : Prop where
  links : Links h
  cache : Cache F h
  keys : Keys h

/-! ### heap updates -/

@[simp] theorem upd_same (h : Heap H) (i : Id) (f : Node H → Node H) : upd h i f i = f (h i) := by simp [upd]
theorem upd_other (h : Heap H) {i j : Id} (f : Node H → Node H) (hne : j ≠ i) : upd h i f j = h j := by
  simp [upd, hne]

@[simp] theorem setPtr_args (h : Heap H) (c m p k i) : (setPtr h c p k i m).args = (h m).args := by
  unfold setPtr upd; split <;> simp_all
@[simp] theorem setPtr_hash (h : Heap H) (c m p k i) : (setPtr h c p k i m).hash = (h m).hash := by
  unfold setPtr upd; split <;> simp_all
@[simp] theorem setPtr_cls (h : Heap H) (c m p k i) : (setPtr h c p k i m).cls = (h m).cls := by
  unfold setPtr upd; split <;> simp_all
@[simp] theorem setPtr_raw (h : Heap H) (c m p k i) : (setPtr h c p k i m).raw = (h m).raw := by
  unfold setPtr upd; split <;> simp_all
theorem setPtr_self (h : Heap H) (c p k i) :
    (setPtr h c p k i c).parent = p ∧ (setPtr h c p k i c).argKey = k ∧ (setPtr h c p k i c).index = i := by
  simp [setPtr]
theorem setPtr_other (h : Heap H) {c m : Id} (p k i) (hne : m ≠ c) : setPtr h c p k i m = h m := by
  simp [setPtr, upd, hne]

@[simp] theorem setIndex_args (h : Heap H) (c m i) : (setIndex h c i m).args = (h m).args := by
  unfold setIndex upd; split <;> simp_all
@[simp] theorem setIndex_hash (h : Heap H) (c m i) : (setIndex h c i m).hash = (h m).hash := by
  unfold setIndex upd; split <;> simp_all
@[simp] theorem setIndex_cls (h : Heap H) (c m i) : (setIndex h c i m).cls = (h m).cls := by
  unfold setIndex upd; split <;> simp_all
@[simp] theorem setIndex_raw (h : Heap H) (c m i) : (setIndex h c i m).raw = (h m).raw := by
  unfold setIndex upd; split <;> simp_all
@[simp] theorem setIndex_parent (h : Heap H) (c m i) : (setIndex h c i m).parent = (h m).parent := by
  unfold setIndex upd; split <;> simp_all
@[simp] theorem setIndex_argKey (h : Heap H) (c m i) : (setIndex h c i m).argKey = (h m).argKey := by
  unfold setIndex upd; split <;> simp_all
theorem setIndex_other (h : Heap H) {c m : Id} (i) (hne : m ≠ c) : setIndex h c i m = h m := by
  simp [setIndex, upd, hne]

@[simp] theorem setArgs_hash (h : Heap H) (n m a) : (setArgs h n a m).hash = (h m).hash := by
  unfold setArgs upd; split <;> simp_all
@[simp] theorem setArgs_cls (h : Heap H) (n m a) : (setArgs h n a m).cls = (h m).cls := by
  unfold setArgs upd; split <;> simp_all
@[simp] theorem setArgs_raw (h : Heap H) (n m a) : (setArgs h n a m).raw = (h m).raw := by
  unfold setArgs upd; split <;> simp_all
@[simp] theorem setArgs_parent (h : Heap H) (n m a) : (setArgs h n a m).parent = (h m).parent := by
  unfold setArgs upd; split <;> simp_all
@[simp] theorem setArgs_argKey (h : Heap H) (n m a) : (setArgs h n a m).argKey = (h m).argKey := by
  unfold setArgs upd; split <;> simp_all
@[simp] theorem setArgs_index (h : Heap H) (n m a) : (setArgs h n a m).index = (h m).index := by
  unfold setArgs upd; split <;> simp_all
@[simp] theorem setArgs_args_self (h : Heap H) (n a) : (setArgs h n a n).args = a := by simp [setArgs]
theorem setArgs_args_other (h : Heap H) {n m : Id} (a) (hne : m ≠ n) : (setArgs h n a m).args = (h m).args := by
  simp [setArgs, upd, hne]

@[simp] theorem setHash_args (h : Heap H) (n m x) : (setHash h n x m).args = (h m).args := by
  unfold setHash upd; split <;> simp_all
@[simp] theorem setHash_cls (h : Heap H) (n m x) : (setHash h n x m).cls = (h m).cls := by
  unfold setHash upd; split <;> simp_all
@[simp] theorem setHash_raw (h : Heap H) (n m x) : (setHash h n x m).raw = (h m).raw := by
  unfold setHash upd; split <;> simp_all
@[simp] theorem setHash_parent (h : Heap H) (n m x) : (setHash h n x m).parent = (h m).parent := by
  unfold setHash upd; split <;> simp_all
@[simp] theorem setHash_argKey (h : Heap H) (n m x) : (setHash h n x m).argKey = (h m).argKey := by
  unfold setHash upd; split <;> simp_all
@[simp] theorem setHash_index (h : Heap H) (n m x) : (setHash h n x m).index = (h m).index := by
  unfold setHash upd; split <;> simp_all
@[simp] theorem setHash_hash_self (h : Heap H) (n x) : (setHash h n x n).hash = x := by simp [setHash]
theorem setHash_hash_other (h : Heap H) {n m : Id} (x) (hne : m ≠ n) : (setHash h n x m).hash = (h m).hash := by
  simp [setHash, upd, hne]

/-! ### the dict -/

theorem getKey_mem {k : String} {a : Arg} : ∀ {args : List (String × Arg)}, getKey k args = some a → (k, a) ∈ args
  | [], h => by simp [getKey] at h
  | (k', a') :: r, h => by
    simp only [getKey] at h
    split at h
    · next heq => cases h; subst heq; simp
    · exact List.mem_cons_of_mem _ (getKey_mem h)

theorem getKey_none_of_not_hasKey {k : String} : ∀ {args : List (String × Arg)}, hasKey k args = false → getKey k args = none
  | [], _ => rfl
  | (k', a') :: r, h => by
    simp only [hasKey, List.any_cons, Bool.or_eq_false_iff, beq_eq_false_iff_ne, ne_eq] at h
    simp only [getKey, h.1, if_false]
    exact getKey_none_of_not_hasKey (by simpa [hasKey] using h.2)

theorem hasKey_cons (k k1 : String) (a1 : Arg) (r : List (String × Arg)) :
    hasKey k ((k1, a1) :: r) = (k1 == k || hasKey k r) := rfl

theorem getKey_append_of_none {k k' : String} {a : Arg} : ∀ {args : List (String × Arg)},
    getKey k args = none → getKey k' (args ++ [(k, a)]) = if k = k' then some a else getKey k' args
  | [], _ => by simp [getKey]
  | (k1, a1) :: r, h => by
    simp only [getKey] at h
    by_cases hne : k1 = k
    · simp [hne] at h
    · simp only [hne, if_false] at h
      have ih := getKey_append_of_none (k := k) (k' := k') (a := a) h
      simp only [List.cons_append, getKey]
      by_cases h1 : k1 = k'
      · subst h1
        have : ¬ k = k1 := fun e => hne e.symm
        simp [this]
      · simp only [h1, if_false]; exact ih

theorem getKey_map_set {k k' : String} {a : Arg} : ∀ (args : List (String × Arg)),
    getKey k' (args.map (fun e => if e.1 = k then (k, a) else e)) =
      if k = k' then (if hasKey k args then some a else none) else getKey k' args
  | [] => by simp [getKey, hasKey]
  | (k1, a1) :: r => by
    have ih := getKey_map_set (k := k) (k' := k') (a := a) r
    rw [hasKey_cons]
    simp only [List.map_cons]
    by_cases h1 : k1 = k
    · subst h1
      by_cases h2 : k1 = k'
      · subst h2; simp [getKey]
      · simp only [if_true, getKey, h2, if_false]
        rw [ih]; simp [h2]
    · have hb : (k1 == k) = false := by simpa using h1
      simp only [h1, if_false, getKey, hb, Bool.false_or]
      by_cases h2 : k1 = k'
      · subst h2
        have : ¬ k = k1 := fun e => h1 e.symm
        simp [this]
      · simp only [h2, if_false]; exact ih

theorem getKey_setKey (k k' : String) (a : Arg) (args : List (String × Arg)) :
    getKey k' (setKey k a args) = if k = k' then some a else getKey k' args := by
  unfold setKey
  split
  · next hk => rw [getKey_map_set]; simp [hk]
  · next hk =>
    have hk' : hasKey k args = false := by simpa using hk
    exact getKey_append_of_none (getKey_none_of_not_hasKey hk')

theorem getKey_delKey (k k' : String) : ∀ (args : List (String × Arg)),
    getKey k' (delKey k args) = if k = k' then none else getKey k' args
  | [] => by simp [delKey, getKey]
  | (k1, a1) :: r => by
    have ih := getKey_delKey k k' r
    simp only [delKey, List.filter_cons] at ih ⊢
    by_cases h1 : k1 = k
    · subst h1
      simp only [bne_self_eq_false, Bool.false_eq_true, if_false, getKey]
      rw [ih]; split <;> simp_all
    · have : (k1 != k) = true := by simpa using h1
      simp only [this, if_true, getKey]
      by_cases h2 : k1 = k'
      · subst h2
        have : ¬ k = k1 := fun e => h1 e.symm
        simp [this]
      · simp only [h2, if_false]; exact ih

theorem mem_setKey {k k' : String} {a a' : Arg} {args : List (String × Arg)} (h : (k', a') ∈ setKey k a args) :
    (k' = k ∧ a' = a) ∨ (k' ≠ k ∧ (k', a') ∈ args) := by
  unfold setKey at h
  split at h
  · rw [List.mem_map] at h
    obtain ⟨e, he, heq⟩ := h
    split at heq
    · cases heq; exact .inl ⟨rfl, rfl⟩
    · next hne => subst heq; exact .inr ⟨hne, he⟩
  · next hk =>
    rw [List.mem_append] at h
    rcases h with h | h
    · refine .inr ⟨?_, h⟩
      intro e; subst e
      apply hk
      simp only [hasKey, List.any_eq_true]
      exact ⟨_, h, by simp⟩
    · simp at h; exact .inl ⟨h.1, h.2⟩

/-- in a dict every entry is the one `d[k]` finds -/
theorem getKey_of_mem {k : String} {a : Arg} : ∀ {args : List (String × Arg)}, KeysUnique args → (k, a) ∈ args →
    getKey k args = some a
  | [], _, hm => by cases hm
  | (k', a') :: r, hu, hm => by
    simp only [KeysUnique, List.map_cons, List.nodup_cons] at hu
    simp only [getKey]
    rcases List.mem_cons.mp hm with e | e
    · cases e; simp
    · have hne : ¬ k' = k := by
        intro e'; subst e'
        exact hu.1 (List.mem_map.mpr ⟨(k', a), e, rfl⟩)
      simp only [hne, if_false]
      exact getKey_of_mem hu.2 e

theorem hasKey_iff {k : String} {args : List (String × Arg)} : hasKey k args = true ↔ k ∈ args.map Prod.fst := by
  simp only [hasKey, List.any_eq_true, List.mem_map, beq_iff_eq]

theorem keysUnique_setKey {k : String} {a : Arg} {args : List (String × Arg)} (hu : KeysUnique args) :
    KeysUnique (setKey k a args) := by
  unfold setKey
  split
  · have : (args.map (fun e => if e.1 = k then (k, a) else e)).map Prod.fst = args.map Prod.fst := by
      rw [List.map_map]
      apply List.map_congr_left
      intro e _
      simp only [Function.comp]
      split
      · next h => exact h.symm
      · rfl
    unfold KeysUnique; rw [this]; exact hu
  · next hk =>
    unfold KeysUnique
    rw [List.map_append, List.nodup_append]
    refine ⟨hu, by simp, ?_⟩
    intro x hx y hy
    simp only [List.map_cons, List.map_nil, List.mem_singleton] at hy
    subst hy
    intro e; subst e
    exact hk (hasKey_iff.mpr hx)

theorem keysUnique_delKey {k : String} {args : List (String × Arg)} (hu : KeysUnique args) :
    KeysUnique (delKey k args) :=
  List.Nodup.sublist (List.Sublist.map Prod.fst List.filter_sublist) hu

theorem keysUnique_nil : KeysUnique [] := by simp [KeysUnique]

/-! ### hashing depends only on the children's hashes -/

/-- `c` occurs as a child somewhere in `args` -/
def IsChild (args : List (String × Arg)) (c : Id) : Prop :=
  ∃ k a, (k, a) ∈ args ∧ ∃ i, ArgHas a i c

theorem isChild_stored {h : Heap H} {p : Id} {c : Id} (hu : KeysUnique (h p).args) (hc : IsChild (h p).args c) :
    ∃ k i, Stored h p k i c := by
  obtain ⟨k, a, hm, i, ha⟩ := hc
  exact ⟨k, i, a, getKey_of_mem hu hm, ha⟩

theorem mem_insertArg {x e : String × Arg} : ∀ {l : List (String × Arg)}, x ∈ insertArg e l ↔ x = e ∨ x ∈ l
  | [] => by simp [insertArg]
  | y :: r => by
    simp only [insertArg]
    split
    · simp
    · simp only [List.mem_cons, mem_insertArg (l := r)]
      constructor
      · rintro (h | h | h) <;> simp_all
      · rintro (h | h | h) <;> simp_all

theorem mem_sortArgs {x : String × Arg} : ∀ {l : List (String × Arg)}, x ∈ sortArgs l ↔ x ∈ l
  | [] => by simp [sortArgs]
  | e :: r => by simp [sortArgs, mem_insertArg, mem_sortArgs (l := r)]

theorem hashItems_congr (F : HashFns H) {ch ch' : Id → Option H} (k : String) :
    ∀ (items : List Item) (acc : H), (∀ c, Item.node c ∈ items → ch c = ch' c) →
      hashItems F ch k acc items = hashItems F ch' k acc items
  | [], _, _ => rfl
  | .node c :: r, acc, hh => by
    simp only [hashItems]
    rw [hh c (by simp)]
    split
    · exact hashItems_congr F k r _ (fun c' hc' => hh c' (List.mem_cons_of_mem _ hc'))
    · rfl
  | .leaf s :: r, acc, hh => by
    simp only [hashItems]
    split <;> exact hashItems_congr F k r _ (fun c' hc' => hh c' (List.mem_cons_of_mem _ hc'))

theorem hashArg_congr (F : HashFns H) {ch ch' : Id → Option H} (raw : Bool) (k : String) (acc : H) (a : Arg)
    (hh : ∀ c i, ArgHas a i c → ch c = ch' c) : hashArg F ch raw k acc a = hashArg F ch' raw k acc a := by
  cases a with
  | one c => simp only [hashArg]; rw [hh c none (by simp [ArgHas])]
  | leaf s => rfl
  | many items =>
    simp only [hashArg]
    split
    · rfl
    · apply hashItems_congr
      intro c hc
      obtain ⟨j, hj⟩ := List.mem_iff_getElem?.mp hc
      exact hh c (some j) (by simpa [ArgHas] using hj)

theorem hashArgs_congr (F : HashFns H) {ch ch' : Id → Option H} (raw : Bool) :
    ∀ (l : List (String × Arg)) (acc : H), (∀ k a, (k, a) ∈ l → ∀ c i, ArgHas a i c → ch c = ch' c) →
      hashArgs F ch raw acc l = hashArgs F ch' raw acc l
  | [], _, _ => rfl
  | (k, a) :: r, acc, hh => by
    simp only [hashArgs]
    rw [hashArg_congr F raw k acc a (hh k a (by simp))]
    split
    · exact hashArgs_congr F raw r _ (fun k' a' hm => hh k' a' (List.mem_cons_of_mem _ hm))
    · rfl

theorem hashNode_congr (F : HashFns H) (nd : Node H) {ch ch' : Id → Option H}
    (hh : ∀ c, IsChild nd.args c → ch c = ch' c) : hashNode F nd ch = hashNode F nd ch' := by
  unfold hashNode
  apply hashArgs_congr
  intro k a hm c i ha
  exact hh c ⟨k, a, mem_sortArgs.mp hm, i, ha⟩

theorem hashNode_fields (F : HashFns H) (nd nd' : Node H) (ch : Id → Option H)
    (h1 : nd'.cls = nd.cls) (h2 : nd'.raw = nd.raw) (h3 : nd'.args = nd.args) :
    hashNode F nd' ch = hashNode F nd ch := by
  unfold hashNode; rw [h1, h2, h3]

/-- a successfully hashed node has only hashed children -/
theorem hashItems_some (F : HashFns H) {ch : Id → Option H} (k : String) :
    ∀ (items : List Item) (acc : H) (x : H), hashItems F ch k acc items = some x →
      ∀ c, Item.node c ∈ items → (ch c).isSome
  | [], _, _, _, c, hc => by cases hc
  | .node c0 :: r, acc, x, hx, c, hc => by
    simp only [hashItems] at hx
    split at hx
    · next y hy =>
      rcases List.mem_cons.mp hc with h | h
      · cases h; simp [hy]
      · exact hashItems_some F k r _ x hx c h
    · cases hx
  | .leaf s :: r, acc, x, hx, c, hc => by
    simp only [hashItems] at hx
    have hc' : Item.node c ∈ r := by
      rcases List.mem_cons.mp hc with h | h
      · cases h
      · exact h
    split at hx <;> exact hashItems_some F k r _ x hx c hc'

theorem hashArg_some (F : HashFns H) {ch : Id → Option H} (raw : Bool) (k : String) (acc : H) (a : Arg) (x : H)
    (hx : hashArg F ch raw k acc a = some x) : ∀ c i, ArgHas a i c → (ch c).isSome := by
  intro c i ha
  cases a with
  | one c' =>
    cases i <;> simp only [ArgHas] at ha
    subst ha
    simp only [hashArg] at hx
    split at hx
    · next y hy => simp [hy]
    · cases hx
  | leaf s => cases i <;> simp [ArgHas] at ha
  | many items =>
    cases i with
    | none => simp [ArgHas] at ha
    | some j =>
      simp only [ArgHas] at ha
      have hm : Item.node c ∈ items := List.mem_iff_getElem?.mpr ⟨j, ha⟩
      simp only [hashArg] at hx
      split at hx
      · split at hx
        · next he => simp only [List.isEmpty_iff] at he; subst he; cases hm
        · cases hx
      · exact hashItems_some F k items acc x hx c hm

theorem hashArgs_some (F : HashFns H) {ch : Id → Option H} (raw : Bool) :
    ∀ (l : List (String × Arg)) (acc : H) (x : H), hashArgs F ch raw acc l = some x →
      ∀ k a, (k, a) ∈ l → ∀ c i, ArgHas a i c → (ch c).isSome
  | [], _, _, _, _, _, hm, _, _, _ => by cases hm
  | (_, _) :: r, acc, x, hx, k, a, hm, c, i, ha => by
    simp only [hashArgs] at hx
    split at hx
    · next acc' hacc =>
      rcases List.mem_cons.mp hm with h | h
      · cases h; exact hashArg_some F raw _ acc _ acc' hacc c i ha
      · exact hashArgs_some F raw r acc' x hx k a h c i ha
    · cases hx

theorem hashNode_some (F : HashFns H) (nd : Node H) {ch : Id → Option H} {x : H}
    (hx : hashNode F nd ch = some x) {c : Id} (hc : IsChild nd.args c) : (ch c).isSome := by
  obtain ⟨k, a, hm, i, ha⟩ := hc
  exact hashArgs_some F nd.raw _ _ x hx k a (mem_sortArgs.mpr hm) c i ha

/-! ### consequences of the invariant -/

theorem stored_isChild {h : Heap H} {p : Id} {k : String} {i : Option Nat} {c : Id} (hs : Stored h p k i c) :
    IsChild (h p).args c := by
  obtain ⟨a, hg, ha⟩ := hs
  exact ⟨k, a, getKey_mem hg, i, ha⟩

/-- a cached node has only cached children — what the early exit of the invalidation loop relies on -/
theorem closure (F : HashFns H) {h : Heap H} (hI : Inv F h) {p : Id} {k : String} {i : Option Nat} {c : Id}
    (hs : Stored h p k i c) (hn : (h c).hash = none) : (h p).hash = none := by
  cases hp : (h p).hash with
  | none => rfl
  | some x =>
    have := hashNode_some F (h p) (hI.cache p x hp) (stored_isChild hs)
    simp [hn] at this

theorem no_sharing {h : Heap H} (hl : Links h) {p p' : Id} {k k' : String} {i i' : Option Nat} {c : Id}
    (h1 : Stored h p k i c) (h2 : Stored h p' k' i' c) : p = p' ∧ k = k' ∧ i = i' := by
  have e1 := hl p k i c h1
  have e2 := hl p' k' i' c h2
  rw [e1] at e2
  simp only [Prod.mk.injEq, Option.some.injEq] at e2
  exact e2

/-! ### heaps that differ only in hash fields -/

def HashOnly (h h' : Heap H) : Prop :=
  ∀ m, (h' m).cls = (h m).cls ∧ (h' m).raw = (h m).raw ∧ (h' m).args = (h m).args ∧ ptrs (h' m) = ptrs (h m)

theorem HashOnly.refl (h : Heap H) : HashOnly h h := fun _ => ⟨rfl, rfl, rfl, rfl⟩

theorem HashOnly.trans {h1 h2 h3 : Heap H} (a : HashOnly h1 h2) (b : HashOnly h2 h3) : HashOnly h1 h3 := by
  intro m
  obtain ⟨a1, a2, a3, a4⟩ := a m
  obtain ⟨b1, b2, b3, b4⟩ := b m
  exact ⟨b1.trans a1, b2.trans a2, b3.trans a3, b4.trans a4⟩

theorem hashOnly_setHash (h : Heap H) (n : Id) (x : Option H) : HashOnly h (setHash h n x) := by
  intro m; simp [ptrs]

theorem stored_hashOnly {h h' : Heap H} (ho : HashOnly h h') {p k i c} : Stored h' p k i c ↔ Stored h p k i c := by
  unfold Stored; rw [(ho p).2.2.1]

theorem unstored_hashOnly {h h' : Heap H} (ho : HashOnly h h') {c} : Unstored h' c ↔ Unstored h c := by
  unfold Unstored
  constructor
  · intro hu p k i hs; exact hu p k i ((stored_hashOnly ho).mpr hs)
  · intro hu p k i hs; exact hu p k i ((stored_hashOnly ho).mp hs)

theorem links_hashOnly {h h' : Heap H} (ho : HashOnly h h') (hl : Links h) : Links h' := by
  intro p k i c hs
  rw [(ho c).2.2.2]
  exact hl p k i c ((stored_hashOnly ho).mp hs)

theorem keys_hashOnly {h h' : Heap H} (ho : HashOnly h h') (hk : Keys h) : Keys h' := by
  intro n; rw [(ho n).2.2.1]; exact hk n

/-! ### the invalidation loop -/

theorem inval_spec (F : HashFns H) : ∀ (fuel : Nat) (h : Heap H) (cur : Option Id) (h' : Heap H),
    inval fuel h cur = some h' → Links h → Keys h →
    (∀ m x, (h m).hash = some x → some m ≠ cur → hashNode F (h m) (fun c => (h c).hash) = some x) →
    Inv F h' ∧ HashOnly h h' ∧ (∀ m, (h m).hash = none → (h' m).hash = none) ∧
      (∀ n, cur = some n → (h' n).hash = none)
  | _, h, none, h', he, hl, hk, hc => by
    simp only [inval, Option.some.injEq] at he; subst he
    exact ⟨⟨hl, fun m x hx => hc m x hx (by simp), hk⟩, HashOnly.refl _, fun _ hm => hm, fun _ hn => by cases hn⟩
  | 0, h, some n, h', he, _, _, _ => by simp [inval] at he
  | f + 1, h, some n, h', he, hl, hk, hc => by
    simp only [inval] at he
    split at he
    · next hn =>
      simp only [Option.some.injEq] at he; subst he
      refine ⟨⟨hl, ?_, hk⟩, HashOnly.refl _, fun _ hm => hm, fun n' hn' => by cases hn'; exact hn⟩
      intro m x hx
      apply hc m x hx
      intro e; cases e; rw [hn] at hx; cases hx
    · next y hy =>
      have ho := hashOnly_setHash h n (none : Option H)
      have ih := inval_spec F f (setHash h n none) (h n).parent h' he (links_hashOnly ho hl) (keys_hashOnly ho hk) (by
        intro m x hx hne
        have hmn : m ≠ n := by
          intro e; subst e; simp at hx
        rw [setHash_hash_other _ _ hmn] at hx
        have hm0 : some m ≠ some n := by intro e; cases e; exact hmn rfl
        have := hc m x hx hm0
        rw [← this]
        have hfld : hashNode F (setHash h n none m) (fun c => (setHash h n none c).hash)
            = hashNode F (h m) (fun c => (setHash h n none c).hash) :=
          hashNode_fields F _ _ _ (by simp) (by simp) (by simp)
        rw [hfld]
        apply hashNode_congr
        intro c hcc
        by_cases hcn : c = n
        · subst hcn
          obtain ⟨k, i, hs⟩ := isChild_stored (hk m) hcc
          have := hl m k i c hs
          simp only [ptrs, Prod.mk.injEq] at this
          exact absurd this.1.symm hne
        · exact setHash_hash_other _ _ hcn)
      obtain ⟨hI, ho2, hmono, _⟩ := ih
      refine ⟨hI, ho.trans ho2, ?_, ?_⟩
      · intro m hm
        apply hmono
        by_cases hmn : m = n
        · subst hmn; simp
        · rw [setHash_hash_other _ _ hmn]; exact hm
      · intro n' hn'; cases hn'
        apply hmono; simp

theorem inval_inv (F : HashFns H) {fuel : Nat} {h h' : Heap H} {n : Id} (hI : Inv F h)
    (he : inval fuel h (some n) = some h') :
    Inv F h' ∧ HashOnly h h' ∧ (h' n).hash = none :=
  let ⟨a, b, _, d⟩ := inval_spec F fuel h (some n) h' he hI.links hI.keys (fun m x hx _ => hI.cache m x hx)
  ⟨a, b, d n rfl⟩

/-! ### editing the args of an uncached node -/

theorem cache_of_edit (F : HashFns H) {h h2 : Heap H} {self : Id} (hc : Cache F h) (hs : (h self).hash = none)
    (hh : ∀ m, (h2 m).hash = (h m).hash ∧ (h2 m).cls = (h m).cls ∧ (h2 m).raw = (h m).raw)
    (ha : ∀ m, m ≠ self → (h2 m).args = (h m).args) : Cache F h2 := by
  intro n x hx
  rw [(hh n).1] at hx
  have hns : n ≠ self := by intro e; subst e; rw [hs] at hx; cases hx
  have hf : (fun c => (h2 c).hash) = (fun c => (h c).hash) := funext fun c => (hh c).1
  rw [hf, hashNode_fields F (h n) (h2 n) _ (hh n).2.1 (hh n).2.2 (ha n hns)]
  exact hc n x hx

structure ArgsEdit (h h2 : Heap H) (p : Id) (k : String) (new : Option Arg) : Prop where
  other : ∀ q, q ≠ p → (h2 q).args = (h q).args
  otherKey : ∀ k', k' ≠ k → getKey k' (h2 p).args = getKey k' (h p).args
  thisKey : getKey k (h2 p).args = new
  keys : KeysUnique (h2 p).args

theorem stored_edit {h h2 : Heap H} {p : Id} {k : String} {new : Option Arg} (e : ArgsEdit h h2 p k new)
    {q : Id} {k' : String} {j : Option Nat} {c : Id} (hs : Stored h2 q k' j c) :
    (q = p ∧ k' = k ∧ ∃ a, new = some a ∧ ArgHas a j c) ∨ (¬ (q = p ∧ k' = k) ∧ Stored h q k' j c) := by
  obtain ⟨a, hg, ha⟩ := hs
  by_cases hq : q = p
  · subst hq
    by_cases hk : k' = k
    · subst hk
      rw [e.thisKey] at hg
      exact .inl ⟨rfl, rfl, a, hg, ha⟩
    · rw [e.otherKey k' hk] at hg
      exact .inr ⟨fun x => hk x.2, a, hg, ha⟩
  · rw [e.other q hq] at hg
    exact .inr ⟨fun x => hq x.1, a, hg, ha⟩

theorem keys_edit {h h2 : Heap H} {p : Id} {k : String} {new : Option Arg} (e : ArgsEdit h h2 p k new)
    (hk : Keys h) : Keys h2 := by
  intro n
  by_cases hn : n = p
  · subst hn; exact e.keys
  · rw [e.other n hn]; exact hk n

theorem argsEdit_setKey {h h2 : Heap H} {p : Id} {k : String} {a : Arg} (hk : Keys h)
    (hargs : ∀ m, (h2 m).args = (setArgs h p (setKey k a (h p).args) m).args) :
    ArgsEdit h h2 p k (some a) := by
  refine ⟨?_, ?_, ?_, ?_⟩
  · intro q hq; rw [hargs, setArgs_args_other _ _ hq]
  · intro k' hk'
    rw [hargs, setArgs_args_self, getKey_setKey]
    have : ¬ k = k' := fun e => hk' e.symm
    simp [this]
  · rw [hargs, setArgs_args_self, getKey_setKey]; simp
  · rw [hargs, setArgs_args_self]; exact keysUnique_setKey (hk p)

theorem argsEdit_delKey {h h2 : Heap H} {p : Id} {k : String} (hk : Keys h)
    (hargs : ∀ m, (h2 m).args = (setArgs h p (delKey k (h p).args) m).args) :
    ArgsEdit h h2 p k none := by
  refine ⟨?_, ?_, ?_, ?_⟩
  · intro q hq; rw [hargs, setArgs_args_other _ _ hq]
  · intro k' hk'
    rw [hargs, setArgs_args_self, getKey_delKey]
    have : ¬ k = k' := fun e => hk' e.symm
    simp [this]
  · rw [hargs, setArgs_args_self, getKey_delKey]; simp
  · rw [hargs, setArgs_args_self]; exact keysUnique_delKey (hk p)

/-- the generic re-linking lemma: after an edit of slot `(p, k)`, links hold if the only nodes whose pointers
    were written were unstored or old occupants of that slot, and the new occupants point at their positions -/
theorem links_of_edit {h h2 : Heap H} {p : Id} {k : String} {new : Option Arg} (hl : Links h)
    (e : ArgsEdit h h2 p k new) (W : Id → Prop)
    (hptr : ∀ m, ¬ W m → ptrs (h2 m) = ptrs (h m))
    (hW : ∀ m, W m → Unstored h m ∨ ∃ j, Stored h p k j m)
    (hnew : ∀ a j c, new = some a → ArgHas a j c → ptrs (h2 c) = (some p, some k, j)) : Links h2 := by
  intro q k' j c hs
  rcases stored_edit e hs with ⟨hq, hk, a, hn, ha⟩ | ⟨hne, hs0⟩
  · subst hq; subst hk; exact hnew a j c hn ha
  · have hnw : ¬ W c := by
      intro hw
      rcases hW c hw with hu | ⟨j', hs'⟩
      · exact hu q k' j hs0
      · obtain ⟨e1, e2, _⟩ := no_sharing hl hs0 hs'
        exact hne ⟨e1, e2⟩
    rw [hptr c hnw]
    exact hl q k' j c hs0

/-! ### `_set_parent` over a list -/

theorem spi_fields (self : Id) (k : String) : ∀ (L : List Item) (o : Nat) (h : Heap H) (m : Id),
    (setParentItems self k o L h m).args = (h m).args ∧ (setParentItems self k o L h m).hash = (h m).hash ∧
    (setParentItems self k o L h m).cls = (h m).cls ∧ (setParentItems self k o L h m).raw = (h m).raw
  | [], _, _, _ => ⟨rfl, rfl, rfl, rfl⟩
  | .node c :: r, o, h, m => by
    simp only [setParentItems]
    have := spi_fields self k r (o + 1) (setPtr h c (some self) (some k) (some o)) m
    simpa using this
  | .leaf _ :: r, o, h, m => by
    simp only [setParentItems]; exact spi_fields self k r (o + 1) h m

theorem spi_other (self : Id) (k : String) : ∀ (L : List Item) (o : Nat) (h : Heap H) (m : Id),
    Item.node m ∉ L → setParentItems self k o L h m = h m
  | [], _, _, _, _ => rfl
  | .node c :: r, o, h, m, hm => by
    simp only [setParentItems]
    have hmc : m ≠ c := by intro e; subst e; exact hm (by simp)
    rw [spi_other self k r (o + 1) _ m (fun x => hm (List.mem_cons_of_mem _ x)), setPtr_other _ _ _ _ hmc]
  | .leaf _ :: r, o, h, m, hm => by
    simp only [setParentItems]
    exact spi_other self k r (o + 1) h m (fun x => hm (List.mem_cons_of_mem _ x))

theorem spi_at (self : Id) (k : String) : ∀ (L : List Item) (o : Nat) (h : Heap H) (j : Nat) (c : Id),
    ItemsDistinct L → L[j]? = some (.node c) →
    ptrs (setParentItems self k o L h c) = (some self, some k, some (o + j))
  | [], _, _, _, _, _, hj => by simp at hj
  | .node c0 :: r, o, h, j, c, hd, hj => by
    simp only [ItemsDistinct, List.pairwise_cons] at hd
    simp only [setParentItems]
    cases j with
    | zero =>
      simp only [List.getElem?_cons_zero, Option.some.injEq, Item.node.injEq] at hj
      subst hj
      have hnot : Item.node c0 ∉ r := fun hm => hd.1 _ hm c0 rfl rfl
      rw [spi_other self k r (o + 1) _ c0 hnot]
      simp [ptrs, setPtr]
    | succ j' =>
      simp only [List.getElem?_cons_succ] at hj
      have := spi_at self k r (o + 1) (setPtr h c0 (some self) (some k) (some o)) j' c hd.2 hj
      rw [this]; simp only [Prod.mk.injEq, Option.some.injEq, true_and]; omega
  | .leaf s :: r, o, h, j, c, hd, hj => by
    simp only [ItemsDistinct, List.pairwise_cons] at hd
    simp only [setParentItems]
    cases j with
    | zero => simp at hj
    | succ j' =>
      simp only [List.getElem?_cons_succ] at hj
      have := spi_at self k r (o + 1) h j' c hd.2 hj
      rw [this]; simp only [Prod.mk.injEq, Option.some.injEq, true_and]; omega

/-! ### distinctness of list items -/

theorem distinct_of_links {h : Heap H} (hl : Links h) {p : Id} {k : String} {items : List Item}
    (hg : getKey k (h p).args = some (.many items)) : ItemsDistinct items := by
  rw [ItemsDistinct, List.pairwise_iff_getElem]
  intro i j hi hj hij c hc hc'
  have s1 : Stored h p k (some i) c := ⟨_, hg, by simp [ArgHas, hc, List.getElem?_eq_getElem hi]⟩
  have s2 : Stored h p k (some j) c := ⟨_, hg, by simp [ArgHas, hc', List.getElem?_eq_getElem hj]⟩
  have := (no_sharing hl s1 s2).2.2
  simp only [Option.some.injEq] at this
  omega

theorem distinct_splice {items mid : List Item} {i j : Nat} (hd : ItemsDistinct items) (hm : ItemsDistinct mid)
    (hx : ∀ c, Item.node c ∈ mid → Item.node c ∉ items) (hij : i ≤ j) :
    ItemsDistinct (items.take i ++ mid ++ items.drop j) := by
  have hsplit : ItemsDistinct (items.take i ++ items.drop i) := by rw [List.take_append_drop]; exact hd
  simp only [ItemsDistinct, List.pairwise_append] at hsplit ⊢
  obtain ⟨ht, hdr, hcross⟩ := hsplit
  refine ⟨⟨ht, hm, ?_⟩, List.Pairwise.sublist (List.drop_sublist _ _) hd, ?_⟩
  · intro a ha b hb c hac hbc
    subst hac; subst hbc
    exact hx c hb (List.mem_of_mem_take ha)
  · intro a ha b hb c hac hbc
    subst hac; subst hbc
    rcases List.mem_append.mp ha with ha | ha
    · exact hcross _ ha _ ((List.drop_sublist_drop_left items hij).subset hb) c rfl rfl
    · exact hx c ha (List.mem_of_mem_drop hb)

theorem stored_of_mem_items {h : Heap H} {p : Id} {k : String} {items : List Item}
    (hg : getKey k (h p).args = some (.many items)) {c : Id} (hm : Item.node c ∈ items) :
    ∃ j, Stored h p k j c := by
  obtain ⟨j, hj⟩ := List.mem_iff_getElem?.mp hm
  exact ⟨some j, _, hg, by simpa [ArgHas] using hj⟩

/-! ### admissible values -/

def ValueOk (h : Heap H) : Value → Prop
  | .node c => Unstored h c
  | .list items => ItemsDistinct items ∧ ∀ c, Item.node c ∈ items → Unstored h c
  | _ => True

def ItemOk (h : Heap H) : Item → Prop
  | .node c => Unstored h c
  | .leaf _ => True

theorem valueOk_items {h : Heap H} {v : Value} (hv : ValueOk h v) :
    ItemsDistinct (itemOfValue v) ∧ ∀ c, Item.node c ∈ itemOfValue v → Unstored h c := by
  cases v with
  | none => simp [itemOfValue, ItemsDistinct]
  | leaf s => simp [itemOfValue, ItemsDistinct]
  | node c => simpa [itemOfValue, ItemsDistinct, ValueOk] using hv
  | list items => exact hv

theorem spliced_eq (items : List Item) (i : Nat) (v : Value) (ow : Bool) :
    ∃ j, i ≤ j ∧ spliced items i v ow = items.take i ++ itemOfValue v ++ items.drop j := by
  refine ⟨if (isListValue v || ow) then i + 1 else i, ?_, ?_⟩
  · split <;> omega
  · cases v <;> cases ow <;> simp [spliced, itemOfValue, isListValue]

/-! ### installing a whole list under `(self, k)` -/

theorem setList_spec (F : HashFns H) {h : Heap H} {self : Id} {k : String} {L : List Item} (hI : Inv F h)
    (hs : (h self).hash = none) (hd : ItemsDistinct L)
    (hL : ∀ c, Item.node c ∈ L → Unstored h c ∨ ∃ j, Stored h self k j c) :
    Inv F (setParentItems self k 0 L (setArgs h self (setKey k (.many L) (h self).args))) ∧
    ArgsEdit h (setParentItems self k 0 L (setArgs h self (setKey k (.many L) (h self).args))) self k
      (some (.many L)) := by
  have he : ArgsEdit h (setParentItems self k 0 L (setArgs h self (setKey k (.many L) (h self).args))) self k
      (some (.many L)) := argsEdit_setKey hI.keys (fun m => (spi_fields self k L 0 _ m).1)
  refine ⟨⟨?_, ?_, keys_edit he hI.keys⟩, he⟩
  · apply links_of_edit hI.links he (fun m => Item.node m ∈ L)
    · intro m hm
      rw [spi_other self k L 0 _ m hm]; simp [ptrs]
    · exact hL
    · intro a j c ha hac
      simp only [Option.some.injEq] at ha; subst ha
      cases j with
      | none => simp [ArgHas] at hac
      | some j' =>
        simp only [ArgHas] at hac
        have := spi_at self k L 0 (setArgs h self (setKey k (.many L) (h self).args)) j' c hd hac
        simpa using this
  · apply cache_of_edit F hI.cache hs
    · intro m
      obtain ⟨_, b, c, d⟩ := spi_fields self k L 0 (setArgs h self (setKey k (.many L) (h self).args)) m
      exact ⟨by rw [b]; simp, by rw [c]; simp, by rw [d]; simp⟩
    · intro m hm
      rw [(spi_fields self k L 0 _ m).1, setArgs_args_other _ _ hm]

/-! ### the index decrement loop of `set(k, None, index)` -/

theorem decr_fields : ∀ (L : List Item) (h h' : Heap H), decrIdx h L = some h' → ∀ m,
    (h' m).args = (h m).args ∧ (h' m).hash = (h m).hash ∧ (h' m).cls = (h m).cls ∧ (h' m).raw = (h m).raw ∧
    (h' m).parent = (h m).parent ∧ (h' m).argKey = (h m).argKey
  | [], h, h', he, m => by simp only [decrIdx, Option.some.injEq] at he; subst he; simp
  | .leaf _ :: _, h, h', he, m => by simp [decrIdx] at he
  | .node c :: r, h, h', he, m => by
    simp only [decrIdx] at he
    split at he
    · have := decr_fields r _ h' he m
      simpa using this
    · cases he

theorem decr_other : ∀ (L : List Item) (h h' : Heap H), decrIdx h L = some h' → ∀ m, Item.node m ∉ L → h' m = h m
  | [], h, h', he, m, _ => by simp only [decrIdx, Option.some.injEq] at he; subst he; rfl
  | .leaf _ :: _, h, h', he, m, _ => by simp [decrIdx] at he
  | .node c :: r, h, h', he, m, hm => by
    simp only [decrIdx] at he
    split at he
    · have hmc : m ≠ c := by intro e; subst e; exact hm (by simp)
      rw [decr_other r _ h' he m (fun x => hm (List.mem_cons_of_mem _ x)), setIndex_other _ _ hmc]
    · cases he

theorem decr_at : ∀ (L : List Item) (h h' : Heap H), decrIdx h L = some h' → ItemsDistinct L →
    ∀ (j : Nat) (c : Id), L[j]? = some (Item.node c) → ∃ n, (h c).index = some (n + 1) ∧ (h' c).index = some n
  | [], h, h', _, _, j, c, hj => by simp at hj
  | .leaf _ :: _, h, h', he, _, _, _, _ => by simp [decrIdx] at he
  | .node c0 :: r, h, h', he, hd, j, c, hj => by
    simp only [ItemsDistinct, List.pairwise_cons] at hd
    simp only [decrIdx] at he
    split at he
    · next n0 hn0 =>
      have hnot : Item.node c0 ∉ r := fun hm => hd.1 _ hm c0 rfl rfl
      cases j with
      | zero =>
        simp only [List.getElem?_cons_zero, Option.some.injEq, Item.node.injEq] at hj
        subst hj
        refine ⟨n0, hn0, ?_⟩
        rw [decr_other r _ h' he c0 hnot]; simp [setIndex]
      | succ j' =>
        simp only [List.getElem?_cons_succ] at hj
        obtain ⟨n, h1, h2⟩ := decr_at r _ h' he hd.2 j' c hj
        have hcc : c ≠ c0 := by
          intro e; subst e
          exact hnot (List.mem_iff_getElem?.mpr ⟨j', hj⟩)
        rw [setIndex_other _ _ hcc] at h1
        exact ⟨n, h1, h2⟩
    · cases he

/-! ### `set` after the invalidation loop -/

theorem setOnScalar_eq {h h2 : Heap H} {s : Scalar} {i : Nat} (he : setOnScalar h s i = some h2) : h2 = h := by
  unfold setOnScalar at he
  split at he
  · split at he
    · split at he
      · cases he
      · simp only [Option.some.injEq] at he; exact he.symm
    · cases he
  · simp only [Option.some.injEq] at he; exact he.symm

theorem inv_setCore (F : HashFns H) {h h2 : Heap H} {self : Id} {k : String} {v : Value} {idx : Option Nat}
    {ow : Bool} (hI : Inv F h) (hs : (h self).hash = none) (hv : ValueOk h v)
    (he : setCore h self k v idx ow = some h2) : Inv F h2 := by
  unfold setCore at he
  cases idx with
  | none =>
    simp only at he
    cases v with
    | none =>
      simp only [Option.some.injEq] at he; subst he
      have hed : ArgsEdit h (setArgs h self (delKey k (h self).args)) self k none :=
        argsEdit_delKey hI.keys (fun _ => rfl)
      refine ⟨?_, ?_, keys_edit hed hI.keys⟩
      · apply links_of_edit hI.links hed (fun _ => False)
        · intro m _; simp [ptrs]
        · intro m hm; exact hm.elim
        · intro a j c ha; cases ha
      · exact cache_of_edit F hI.cache hs (fun m => by simp) (fun m hm => setArgs_args_other _ _ hm)
    | leaf s =>
      simp only [Option.some.injEq] at he; subst he
      have hed : ArgsEdit h (setArgs h self (setKey k (.leaf s) (h self).args)) self k (some (.leaf s)) :=
        argsEdit_setKey hI.keys (fun _ => rfl)
      refine ⟨?_, ?_, keys_edit hed hI.keys⟩
      · apply links_of_edit hI.links hed (fun _ => False)
        · intro m _; simp [ptrs]
        · intro m hm; exact hm.elim
        · intro a j c ha hac
          simp only [Option.some.injEq] at ha; subst ha
          cases j <;> simp [ArgHas] at hac
      · exact cache_of_edit F hI.cache hs (fun m => by simp) (fun m hm => setArgs_args_other _ _ hm)
    | node c =>
      simp only [Option.some.injEq] at he; subst he
      have hed : ArgsEdit h (setPtr (setArgs h self (setKey k (.one c) (h self).args)) c (some self) (some k) none)
          self k (some (.one c)) := argsEdit_setKey hI.keys (fun m => by simp)
      refine ⟨?_, ?_, keys_edit hed hI.keys⟩
      · apply links_of_edit hI.links hed (fun m => m = c)
        · intro m hm; rw [setPtr_other _ _ _ _ hm]; simp [ptrs]
        · intro m hm; subst hm; exact .inl hv
        · intro a j c' ha hac
          simp only [Option.some.injEq] at ha; subst ha
          cases j with
          | some j' => simp [ArgHas] at hac
          | none =>
            simp only [ArgHas] at hac; subst hac
            simp [ptrs, setPtr]
      · exact cache_of_edit F hI.cache hs (fun m => by simp)
          (fun m hm => by rw [setPtr_args, setArgs_args_other _ _ hm])
    | list items =>
      simp only [Option.some.injEq] at he; subst he
      exact (setList_spec F hI hs hv.1 (fun c hc => .inl (hv.2 c hc))).1
  | some i =>
    simp only at he
    split at he
    · simp only [Option.some.injEq] at he; subst he; exact hI
    · next items hg =>
      split at he
      · simp only [Option.some.injEq] at he; subst he; exact hI
      · simp only [Option.some.injEq] at he; subst he; exact hI
      · next it hnn hit =>
        have hdi : ItemsDistinct items := distinct_of_links hI.links hg
        have hlen : i < items.length := by
          cases hlt : decide (i < items.length) with
          | true => simpa using hlt
          | false =>
            have : items.length ≤ i := by simpa using hlt
            rw [List.getElem?_eq_none this] at hit; cases hit
        -- the general (value is not None) case, shared by three constructors
        have general : ∀ v', ValueOk h v' →
            Inv F (setParentItems self k 0 (spliced items i v' ow)
              (setArgs h self (setKey k (.many (spliced items i v' ow)) (h self).args))) := by
          intro v' hv'
          obtain ⟨j, hij, hsp⟩ := spliced_eq items i v' ow
          obtain ⟨hvd, hvu⟩ := valueOk_items hv'
          have hx : ∀ c, Item.node c ∈ itemOfValue v' → Item.node c ∉ items := by
            intro c hc hci
            obtain ⟨j', hs'⟩ := stored_of_mem_items hg hci
            exact hvu c hc _ _ _ hs'
          refine (setList_spec F hI hs (by rw [hsp]; exact distinct_splice hdi hvd hx hij) ?_).1
          intro c hc
          rw [hsp] at hc
          rcases List.mem_append.mp hc with hc | hc
          · rcases List.mem_append.mp hc with hc | hc
            · exact .inr (stored_of_mem_items hg (List.mem_of_mem_take hc))
            · exact .inl (hvu c hc)
          · exact .inr (stored_of_mem_items hg (List.mem_of_mem_drop hc))
        cases v with
        | none =>
          simp only at he
          split at he
          · next h' hdec =>
            simp only [Option.some.injEq] at he; subst he
            have hrd : ItemsDistinct (items.drop (i + 1)) := List.Pairwise.sublist (List.drop_sublist _ _) hdi
            have hfl := decr_fields _ _ _ hdec
            have hed : ArgsEdit h
                (setArgs h' self (setKey k (.many (items.take i ++ items.drop (i + 1))) (h self).args)) self k
                (some (.many (items.take i ++ items.drop (i + 1)))) := by
              apply argsEdit_setKey hI.keys
              intro m
              by_cases hm : m = self
              · subst hm; simp
              · rw [setArgs_args_other _ _ hm, setArgs_args_other _ _ hm, (hfl m).1]
            refine ⟨?_, ?_, keys_edit hed hI.keys⟩
            · apply links_of_edit hI.links hed (fun m => Item.node m ∈ items.drop (i + 1))
              · intro m hm
                have := decr_other _ _ _ hdec m hm
                simp [ptrs, this]
              · intro m hm; exact .inr (stored_of_mem_items hg (List.mem_of_mem_drop hm))
              · intro a j c ha hac
                simp only [Option.some.injEq] at ha; subst ha
                cases j with
                | none => simp [ArgHas] at hac
                | some j' =>
                  simp only [ArgHas, List.getElem?_append, List.length_take, List.getElem?_take,
                    List.getElem?_drop] at hac
                  have hmin : min i items.length = i := by omega
                  rw [hmin] at hac
                  by_cases hlt : j' < i
                  · simp only [hlt, if_true] at hac
                    have hst : Stored h self k (some j') c := ⟨_, hg, by simpa [ArgHas] using hac⟩
                    have hp := hI.links _ _ _ _ hst
                    have hnw : Item.node c ∉ items.drop (i + 1) := by
                      intro hm
                      obtain ⟨t, ht⟩ := List.mem_iff_getElem?.mp hm
                      rw [List.getElem?_drop] at ht
                      have hst2 : Stored h self k (some (i + 1 + t)) c := ⟨_, hg, by simpa [ArgHas] using ht⟩
                      have := (no_sharing hI.links hst hst2).2.2
                      simp only [Option.some.injEq] at this
                      omega
                    have := decr_other _ _ _ hdec c hnw
                    simp only [ptrs, setArgs_parent, setArgs_argKey, setArgs_index, this]
                    exact hp
                  · simp only [hlt, if_false] at hac
                    have hst : Stored h self k (some (i + 1 + (j' - i))) c :=
                      ⟨_, hg, by simpa [ArgHas] using hac⟩
                    have hp := hI.links _ _ _ _ hst
                    have hat : (items.drop (i + 1))[j' - i]? = some (Item.node c) := by
                      rw [List.getElem?_drop]; exact hac
                    obtain ⟨n, hn1, hn2⟩ := decr_at _ _ _ hdec hrd (j' - i) c hat
                    simp only [ptrs, Prod.mk.injEq] at hp
                    rw [hp.2.2] at hn1
                    simp only [Option.some.injEq] at hn1
                    simp only [ptrs, setArgs_parent, setArgs_argKey, setArgs_index, (hfl c).2.2.2.2.1,
                      (hfl c).2.2.2.2.2, hp.1, hp.2.1, hn2, Prod.mk.injEq, Option.some.injEq, true_and]
                    omega
            · apply cache_of_edit F hI.cache hs
              · intro m; simp [(hfl m).2.1, (hfl m).2.2.1, (hfl m).2.2.2.1]
              · intro m hm; rw [setArgs_args_other _ _ hm, (hfl m).1]
          · cases he
        | leaf s =>
          simp only [Option.some.injEq] at he; subst he; exact general _ hv
        | node c =>
          simp only [Option.some.injEq] at he; subst he; exact general _ hv
        | list vs =>
          simp only [Option.some.injEq] at he; subst he; exact general _ hv
    · rw [setOnScalar_eq he]; exact hI
    · cases he

theorem inv_opSet (F : HashFns H) {fuel : Nat} {h h2 : Heap H} {self : Id} {k : String} {v : Value}
    {idx : Option Nat} {ow : Bool} (hI : Inv F h) (hv : ValueOk h v)
    (he : opSet fuel h self k v idx ow = some h2) : Inv F h2 := by
  unfold opSet at he
  split at he
  · next h1 hinv =>
    obtain ⟨hI1, ho, hn⟩ := inval_inv F hI hinv
    refine inv_setCore F hI1 hn ?_ he
    cases v with
    | none => trivial
    | leaf s => trivial
    | node c => exact (unstored_hashOnly ho).mpr hv
    | list items => exact ⟨hv.1, fun c hc => (unstored_hashOnly ho).mpr (hv.2 c hc)⟩
  · cases he

/-! ### `append` -/

theorem listOf_cases (k : String) (args : List (String × Arg)) :
    getKey k args = some (.many (listOf k args)) ∨ listOf k args = [] := by
  unfold listOf
  split
  · next items hg => exact .inl hg
  · exact .inr rfl

/-- the reading-friendly formulation of `appendCore` in the model, as the sequence of updates it stands for -/
def appendCoreSpec (h : Heap H) (self : Id) (k : String) (it : Item) : Heap H :=
  let items := listOf k (h self).args
  let h1 := setArgs h self (setKey k (.many (items ++ [it])) (h self).args)
  match it with
  | .node c => setPtr h1 c (some self) (some k) (some items.length)
  | .leaf _ => h1

theorem appendCore_eq (h : Heap H) (self : Id) (k : String) (it : Item) :
    appendCore h self k it = appendCoreSpec h self k it := by
  funext j
  unfold appendCore appendCoreSpec
  cases it with
  | leaf s => simp only [setArgs, upd]; split <;> simp_all
  | node c =>
    simp only [setArgs, setPtr, upd]
    by_cases h1 : j = c <;> by_cases h2 : j = self <;> simp_all

theorem inv_appendCore (F : HashFns H) {h : Heap H} {self : Id} {k : String} {it : Item} (hI : Inv F h)
    (hs : (h self).hash = none) (hv : ItemOk h it) : Inv F (appendCore h self k it) := by
  have hargs : ∀ m, ((appendCore h self k it) m).args =
      (setArgs h self (setKey k (.many (listOf k (h self).args ++ [it])) (h self).args) m).args := by
    intro m; rw [appendCore_eq]; unfold appendCoreSpec; cases it <;> simp
  have hed := argsEdit_setKey hI.keys hargs
  refine ⟨?_, ?_, keys_edit hed hI.keys⟩
  · apply links_of_edit hI.links hed (fun m => it = .node m)
    · intro m hm
      rw [appendCore_eq]; unfold appendCoreSpec
      cases it with
      | leaf s => simp [ptrs]
      | node c =>
        have : m ≠ c := fun e => hm (by rw [e])
        simp only [setPtr_other _ _ _ _ this]; simp [ptrs]
    · intro m hm; subst hm; exact .inl hv
    · intro a j c ha hac
      simp only [Option.some.injEq] at ha; subst ha
      cases j with
      | none => simp [ArgHas] at hac
      | some j' =>
        simp only [ArgHas, List.getElem?_append] at hac
        by_cases hlt : j' < (listOf k (h self).args).length
        · simp only [hlt, if_true] at hac
          rcases listOf_cases k (h self).args with hg | hnil
          · have hst : Stored h self k (some j') c := ⟨_, hg, by simpa [ArgHas] using hac⟩
            have hp := hI.links _ _ _ _ hst
            rw [appendCore_eq]; unfold appendCoreSpec
            cases it with
            | leaf s => simpa [ptrs] using hp
            | node c0 =>
              have : c ≠ c0 := by intro e; subst e; exact hv _ _ _ hst
              simp only [setPtr_other _ _ _ _ this]; simpa [ptrs] using hp
          · rw [hnil] at hlt; simp at hlt
        · simp only [hlt, if_false] at hac
          have hj : j' - (listOf k (h self).args).length = 0 := by
            cases hz : j' - (listOf k (h self).args).length with
            | zero => rfl
            | succ t => rw [hz] at hac; simp at hac
          rw [hj] at hac
          simp only [List.getElem?_cons_zero, Option.some.injEq] at hac
          subst hac
          rw [appendCore_eq]; unfold appendCoreSpec
          simp only [ptrs, setPtr, upd_same, Prod.mk.injEq, Option.some.injEq, true_and]
          omega
  · apply cache_of_edit F hI.cache hs
    · intro m; rw [appendCore_eq]; unfold appendCoreSpec; cases it <;> simp
    · intro m hm; rw [hargs, setArgs_args_other _ _ hm]

theorem inv_opAppend (F : HashFns H) {fuel : Nat} {h h2 : Heap H} {self : Id} {k : String} {it : Item}
    (hI : Inv F h) (hv : ItemOk h it) (he : opAppend fuel h self k it = some h2) : Inv F h2 := by
  unfold opAppend at he
  split at he
  · next h1 hinv =>
    obtain ⟨hI1, ho, hn⟩ := inval_inv F hI hinv
    simp only [Option.some.injEq] at he; subst he
    refine inv_appendCore F hI1 hn ?_
    cases it with
    | leaf s => trivial
    | node c => exact (unstored_hashOnly ho).mpr hv
  · cases he

/-! ### construction -/

theorem inv_empty (F : HashFns H) : Inv F (empty : Heap H) := by
  refine ⟨?_, ?_, ?_⟩
  · intro p k i c hs
    obtain ⟨a, hg, _⟩ := hs
    simp [empty, blank, getKey] at hg
  · intro n x hx; simp [empty, blank] at hx
  · intro n; simp [empty, blank]; exact keysUnique_nil

/-- `id` is unused: nobody stores it and it holds nothing -/
def Fresh (h : Heap H) (id : Id) : Prop := Unstored h id ∧ (h id).args = [] ∧ (h id).hash = none

theorem inv_opNew (F : HashFns H) {h : Heap H} {id : Id} {cls : String} {raw : Bool} (hI : Inv F h)
    (hf : Fresh h id) : Inv F (opNew h id cls raw) := by
  obtain ⟨hu, ha, hh⟩ := hf
  have hargs : ∀ m, (opNew h id cls raw m).args = (h m).args := by
    intro m; unfold opNew upd; split
    · next e => subst e; simp [blank, ha]
    · rfl
  have hhash : ∀ m, (opNew h id cls raw m).hash = (h m).hash := by
    intro m; unfold opNew upd; split
    · next e => subst e; simp [blank, hh]
    · rfl
  refine ⟨?_, ?_, ?_⟩
  · intro p k i c hs
    have hs0 : Stored h p k i c := by unfold Stored at hs ⊢; rwa [hargs] at hs
    have : c ≠ id := by intro e; subst e; exact hu _ _ _ hs0
    rw [show opNew h id cls raw c = h c from upd_other _ _ this]
    exact hI.links _ _ _ _ hs0
  · intro n x hx
    rw [hhash] at hx
    have hn : n ≠ id := by intro e; subst e; rw [hh] at hx; cases hx
    have hf : (fun c => (opNew h id cls raw c).hash) = (fun c => (h c).hash) := funext hhash
    rw [hf, show opNew h id cls raw n = h n from upd_other _ _ hn]
    exact hI.cache n x hx
  · intro n; rw [hargs]; exact hI.keys n

/-! ### `replace` / `pop` -/

theorem inv_clearPtr (F : HashFns H) {h : Heap H} {s : Id} (hI : Inv F h) (hu : Unstored h s) :
    Inv F (clearPtr h s) := by
  refine ⟨?_, ?_, ?_⟩
  · intro p k i c hs
    have hs0 : Stored h p k i c := by unfold Stored at hs ⊢; simpa [clearPtr] using hs
    have : c ≠ s := by intro e; subst e; exact hu _ _ _ hs0
    rw [show clearPtr h s c = h c from setPtr_other _ _ _ _ this]
    exact hI.links _ _ _ _ hs0
  · intro n x hx
    simp only [clearPtr, setPtr_hash] at hx
    have hf : (fun c => (clearPtr h s c).hash) = (fun c => (h c).hash) := funext fun c => by simp [clearPtr]
    rw [hf, hashNode_fields F (h n) (clearPtr h s n) _ (by simp [clearPtr]) (by simp [clearPtr]) (by simp [clearPtr])]
    exact hI.cache n x hx
  · intro n; simp only [clearPtr, setPtr_args]; exact hI.keys n

/-- what `set(…, overwrite=True)` leaves in the slot: the value's nodes, or old occupants of *other* positions -/
theorem setCore_shape {h h2 : Heap H} {self : Id} {k : String} {v : Value} {idx : Option Nat} (hk : Keys h)
    (he : setCore h self k v idx true = some h2) :
    (h2 = h ∧ ∃ i, idx = some i ∧ ∀ c, ¬ Stored h self k (some i) c) ∨
    ∃ new, ArgsEdit h h2 self k new ∧ ∀ a j c, new = some a → ArgHas a j c →
      Item.node c ∈ itemOfValue v ∨ ∃ i j', idx = some i ∧ j' ≠ i ∧ Stored h self k (some j') c := by
  unfold setCore at he
  cases idx with
  | none =>
    right
    simp only at he
    cases v with
    | none =>
      simp only [Option.some.injEq] at he; subst he
      exact ⟨none, argsEdit_delKey hk (fun _ => rfl), fun a j c ha => by cases ha⟩
    | leaf s =>
      simp only [Option.some.injEq] at he; subst he
      refine ⟨_, argsEdit_setKey hk (fun _ => rfl), ?_⟩
      intro a j c ha hac
      simp only [Option.some.injEq] at ha; subst ha
      cases j <;> simp [ArgHas] at hac
    | node c0 =>
      simp only [Option.some.injEq] at he; subst he
      refine ⟨some (.one c0), argsEdit_setKey hk (fun m => by simp), ?_⟩
      intro a j c ha hac
      simp only [Option.some.injEq] at ha; subst ha
      cases j with
      | some j' => simp [ArgHas] at hac
      | none => simp only [ArgHas] at hac; subst hac; left; simp [itemOfValue]
    | list items =>
      simp only [Option.some.injEq] at he; subst he
      refine ⟨_, argsEdit_setKey hk (fun m => (spi_fields self k items 0 _ m).1), ?_⟩
      intro a j c ha hac
      simp only [Option.some.injEq] at ha; subst ha
      cases j with
      | none => simp [ArgHas] at hac
      | some j' =>
        simp only [ArgHas] at hac
        left; exact List.mem_iff_getElem?.mpr ⟨j', hac⟩
  | some i =>
    simp only at he
    split at he
    · next hg =>
      left
      simp only [Option.some.injEq] at he; subst he
      refine ⟨rfl, i, rfl, ?_⟩
      rintro c ⟨a, hga, _⟩; rw [hg] at hga; cases hga
    · next items hg =>
      have fromItems : ∀ (t : Nat) (c : Id), items[t]? = some (Item.node c) → Stored h self k (some t) c :=
        fun t c ht => ⟨_, hg, by simpa [ArgHas] using ht⟩
      split at he
      · next hnone =>
        left
        simp only [Option.some.injEq] at he; subst he
        refine ⟨rfl, i, rfl, ?_⟩
        rintro c ⟨a, hga, hac⟩
        rw [hg] at hga; cases hga
        simp only [ArgHas] at hac; rw [hnone] at hac; cases hac
      · next hleaf =>
        left
        simp only [Option.some.injEq] at he; subst he
        refine ⟨rfl, i, rfl, ?_⟩
        rintro c ⟨a, hga, hac⟩
        rw [hg] at hga; cases hga
        simp only [ArgHas] at hac; rw [hleaf] at hac; cases hac
      · next it hnn hit =>
        right
        have hlen : i < items.length := by
          cases hlt : decide (i < items.length) with
          | true => simpa using hlt
          | false =>
            have : items.length ≤ i := by simpa using hlt
            rw [List.getElem?_eq_none this] at hit; cases hit
        have hmin : min i items.length = i := by omega
        have general : ∀ v', v' ≠ Value.none →
            ∀ a j c, some (Arg.many (spliced items i v' true)) = some a → ArgHas a j c →
              Item.node c ∈ itemOfValue v' ∨ ∃ i0 j', some i = some i0 ∧ j' ≠ i0 ∧ Stored h self k (some j') c := by
          intro v' _ a j c ha hac
          simp only [Option.some.injEq] at ha; subst ha
          have hsp : spliced items i v' true = items.take i ++ itemOfValue v' ++ items.drop (i + 1) := by
            cases v' <;> simp [spliced, itemOfValue]
          cases j with
          | none => simp [ArgHas] at hac
          | some j' =>
            simp only [ArgHas] at hac
            rw [hsp] at hac
            have hm := List.mem_iff_getElem?.mpr ⟨j', hac⟩
            rcases List.mem_append.mp hm with hm | hm
            · rcases List.mem_append.mp hm with hm | hm
              · obtain ⟨t, ht⟩ := List.mem_iff_getElem?.mp hm
                rw [List.getElem?_take] at ht
                split at ht
                · next hti => exact .inr ⟨i, t, rfl, by omega, fromItems t c ht⟩
                · cases ht
              · exact .inl hm
            · obtain ⟨t, ht⟩ := List.mem_iff_getElem?.mp hm
              rw [List.getElem?_drop] at ht
              exact .inr ⟨i, i + 1 + t, rfl, by omega, fromItems _ c ht⟩
        cases v with
        | none =>
          simp only at he
          split at he
          · next h' hdec =>
            simp only [Option.some.injEq] at he; subst he
            have hfl := decr_fields _ _ _ hdec
            refine ⟨some (.many (items.take i ++ items.drop (i + 1))), argsEdit_setKey hk (fun m => ?_), ?_⟩
            · by_cases hm : m = self
              · subst hm; simp
              · rw [setArgs_args_other _ _ hm, setArgs_args_other _ _ hm, (hfl m).1]
            · intro a j c ha hac
              simp only [Option.some.injEq] at ha; subst ha
              cases j with
              | none => simp [ArgHas] at hac
              | some j' =>
                simp only [ArgHas] at hac
                have hm := List.mem_iff_getElem?.mpr ⟨j', hac⟩
                right
                rcases List.mem_append.mp hm with hm | hm
                · obtain ⟨t, ht⟩ := List.mem_iff_getElem?.mp hm
                  rw [List.getElem?_take] at ht
                  split at ht
                  · next hti => exact ⟨i, t, rfl, by omega, fromItems t c ht⟩
                  · cases ht
                · obtain ⟨t, ht⟩ := List.mem_iff_getElem?.mp hm
                  rw [List.getElem?_drop] at ht
                  exact ⟨i, i + 1 + t, rfl, by omega, fromItems _ c ht⟩
          · cases he
        | leaf s =>
          simp only [Option.some.injEq] at he; subst he
          exact ⟨_, argsEdit_setKey hk (fun m => (spi_fields self k _ 0 _ m).1), general _ (by simp)⟩
        | node c0 =>
          simp only [Option.some.injEq] at he; subst he
          exact ⟨_, argsEdit_setKey hk (fun m => (spi_fields self k _ 0 _ m).1), general _ (by simp)⟩
        | list vs =>
          simp only [Option.some.injEq] at he; subst he
          exact ⟨_, argsEdit_setKey hk (fun m => (spi_fields self k _ 0 _ m).1), general _ (by simp)⟩
    · next s hg =>
      left
      refine ⟨setOnScalar_eq he, i, rfl, ?_⟩
      rintro c ⟨a, hga, hac⟩
      rw [hg] at hga; cases hga
      simp [ArgHas] at hac
    · cases he

/-- the node being replaced is genuinely attached where its own pointers say -/
def Attached (h : Heap H) (s : Id) : Prop :=
  ∀ p k, (h s).parent = some p → (h s).argKey = some k → Stored h p k (h s).index s

theorem inv_opReplace (F : HashFns H) {fuel : Nat} {h h2 : Heap H} {self : Id} {v : Value} (hI : Inv F h)
    (hv : ValueOk h v) (hat : Attached h self) (he : opReplace fuel h self v = some h2) : Inv F h2 := by
  unfold opReplace at he
  split at he
  · simp only [Option.some.injEq] at he; subst he; exact hI
  · next p hp =>
    split at he
    · simp only [Option.some.injEq] at he; subst he; exact hI
    · split at he
      · next hk =>
        simp only [Option.some.injEq] at he; subst he
        split
        · exact hI
        · apply inv_clearPtr F hI
          intro q k' j hs
          have := hI.links _ _ _ _ hs
          simp only [ptrs, Prod.mk.injEq] at this
          rw [hk] at this; cases this.2.1
      · next k hk =>
        split at he
        · cases he
        · split at he
          · next h' hset =>
            simp only [Option.some.injEq] at he; subst he
            have hI' := inv_opSet F hI hv hset
            split
            · exact hI'
            · next hvs =>
              apply inv_clearPtr F hI'
              -- `self` is no longer stored anywhere
              have hst : Stored h p k (h self).index self := hat p k hp hk
              unfold opSet at hset
              split at hset
              · next h1 hinv =>
                obtain ⟨hI1, ho, _⟩ := inval_inv F hI hinv
                have hst1 : Stored h1 p k (h self).index self := (stored_hashOnly ho).mpr hst
                have hidx : (h1 self).index = (h self).index := by
                  have := (ho self).2.2.2; simp only [ptrs, Prod.mk.injEq] at this; exact this.2.2
                intro q k' j hs2
                rcases setCore_shape hI1.keys hset with ⟨heq, i, hi, hno⟩ | ⟨new, hed, hnew⟩
                · rw [hi] at hst1
                  exact hno self hst1
                · rcases stored_edit hed hs2 with ⟨_, _, a, hn, ha⟩ | ⟨hne, hs0⟩
                  · rcases hnew a j self hn ha with hin | ⟨i, j', hi, hji, hsj⟩
                    · cases v with
                      | none => simp [itemOfValue] at hin
                      | leaf s => simp [itemOfValue] at hin
                      | node c =>
                        simp only [itemOfValue, List.mem_singleton, Item.node.injEq] at hin
                        exact hvs (by rw [hin])
                      | list items =>
                        simp only [itemOfValue] at hin
                        exact hv.2 self hin _ _ _ hst
                    · have := (no_sharing hI1.links hst1 hsj).2.2
                      rw [hi] at this
                      simp only [Option.some.injEq] at this
                      exact hji this.symm
                  · obtain ⟨e1, e2, _⟩ := no_sharing hI1.links hs0 hst1
                    exact hne ⟨e1, e2⟩
              · cases hset
          · cases he

theorem inv_opPop (F : HashFns H) {fuel : Nat} {h h2 : Heap H} {self : Id} (hI : Inv F h)
    (hat : Attached h self) (he : opPop fuel h self = some h2) : Inv F h2 :=
  inv_opReplace F hI (by trivial) hat he

/-! ### `__hash__` -/

/-- specification of one `fill` call, used as the induction hypothesis for the fold over the children -/
def FillSpec (F : HashFns H) (g : Heap H → Id → Option (Heap H)) : Prop :=
  ∀ h n h', g h n = some h' → Inv F h →
    Inv F h' ∧ HashOnly h h' ∧ (∀ m x, (h m).hash = some x → (h' m).hash = some x) ∧ ((h' n).hash).isSome

theorem foldOpt_spec (F : HashFns H) {g : Heap H → Id → Option (Heap H)} (hg : FillSpec F g) :
    ∀ (cs : List Id) (h h' : Heap H), foldOpt g h cs = some h' → Inv F h →
      Inv F h' ∧ HashOnly h h' ∧ (∀ m x, (h m).hash = some x → (h' m).hash = some x) ∧
        ∀ c, c ∈ cs → ((h' c).hash).isSome
  | [], h, h', he, hI => by
    simp only [foldOpt, Option.some.injEq] at he; subst he
    exact ⟨hI, HashOnly.refl _, fun _ _ hx => hx, fun c hc => by cases hc⟩
  | c0 :: r, h, h', he, hI => by
    simp only [foldOpt] at he
    split at he
    · next h1 h1e =>
      obtain ⟨hI1, ho1, hm1, hs1⟩ := hg h c0 h1 h1e hI
      obtain ⟨hI2, ho2, hm2, hs2⟩ := foldOpt_spec F hg r h1 h' he hI1
      refine ⟨hI2, ho1.trans ho2, fun m x hx => hm2 m x (hm1 m x hx), ?_⟩
      intro c hc
      rcases List.mem_cons.mp hc with e | e
      · subst e
        cases hx : (h1 c).hash with
        | none => rw [hx] at hs1; cases hs1
        | some x => rw [hm2 c x hx]; rfl
      · exact hs2 c e
    · cases he

theorem fill_spec (F : HashFns H) : ∀ fuel, FillSpec F (fill F fuel)
  | 0 => by intro h n h' he; simp [fill] at he
  | f + 1 => by
    intro h n h' he hI
    simp only [fill] at he
    split at he
    · next x hx =>
      simp only [Option.some.injEq] at he; subst he
      exact ⟨hI, HashOnly.refl _, fun _ _ hm => hm, by simp [hx]⟩
    · next hnone =>
      split at he
      · cases he
      · next h1 hfold =>
        obtain ⟨hI1, ho1, hm1, hs1⟩ := foldOpt_spec F (fill_spec F f) _ h h1 hfold hI
        split at he
        · next x hx =>
          simp only [Option.some.injEq] at he; subst he
          have ho2 := hashOnly_setHash h1 n (some x)
          -- a node that was already cached keeps its hash (for `n` itself: same computation, same value)
          have keep : ∀ c y, (h1 c).hash = some y → (setHash h1 n (some x) c).hash = some y := by
            intro c y hy
            by_cases hcn : c = n
            · subst hcn
              have := hI1.cache c y hy
              rw [hx] at this
              simp only [Option.some.injEq] at this
              simp [this]
            · rw [setHash_hash_other _ _ hcn]; exact hy
          have congr : ∀ m z, hashNode F (h1 m) (fun c => (h1 c).hash) = some z →
              hashNode F (setHash h1 n (some x) m) (fun c => (setHash h1 n (some x) c).hash) = some z := by
            intro m z hz
            rw [hashNode_fields F (h1 m) (setHash h1 n (some x) m) _ (by simp) (by simp) (by simp)]
            rw [← hz]
            apply hashNode_congr
            intro c hc
            have hsome := hashNode_some F (h1 m) hz hc
            cases hy : (h1 c).hash with
            | none => rw [hy] at hsome; cases hsome
            | some y => exact keep c y hy
          refine ⟨⟨links_hashOnly ho2 hI1.links, ?_, keys_hashOnly ho2 hI1.keys⟩, ho1.trans ho2,
            fun m y hy => keep m y (hm1 m y hy), by simp⟩
          intro m z hz
          by_cases hmn : m = n
          · subst hmn
            simp only [setHash_hash_self, Option.some.injEq] at hz; subst hz
            exact congr m x hx
          · rw [setHash_hash_other _ _ hmn] at hz
            exact congr m z (hI1.cache m z hz)
        · cases he

theorem inv_fill (F : HashFns H) {fuel : Nat} {h h' : Heap H} {n : Id} (hI : Inv F h)
    (he : fill F fuel h n = some h') : Inv F h' ∧ HashOnly h h' ∧ ((h' n).hash).isSome :=
  let ⟨a, b, _, d⟩ := fill_spec F fuel h n h' he hI
  ⟨a, b, d⟩

theorem inv_opEq [DecidableEq H] (F : HashFns H) {fuel : Nat} {h h' : Heap H} {a b : Id} {r : Bool}
    (hI : Inv F h) (he : opEq F fuel h a b = some (h', r)) : Inv F h' ∧ HashOnly h h' := by
  unfold opEq at he
  split at he
  · simp only [Option.some.injEq, Prod.mk.injEq] at he; obtain ⟨e, _⟩ := he; subst e
    exact ⟨hI, HashOnly.refl _⟩
  · split at he
    · simp only [Option.some.injEq, Prod.mk.injEq] at he; obtain ⟨e, _⟩ := he; subst e
      exact ⟨hI, HashOnly.refl _⟩
    · split at he
      · cases he
      · next h1 e1 =>
        split at he
        · cases he
        · next h2 e2 =>
          simp only [Option.some.injEq, Prod.mk.injEq] at he; obtain ⟨e, _⟩ := he; subst e
          obtain ⟨i1, o1, _⟩ := inv_fill F hI e1
          obtain ⟨i2, o2, _⟩ := inv_fill F i1 e2
          exact ⟨i2, o1.trans o2⟩

/-- a cached hash equals the from-scratch recomputation that ignores every cache -/
theorem cache_eq_recompute (F : HashFns H) {h : Heap H} (hI : Inv F h) :
    ∀ (fuel : Nat) (n : Id) (x y : H), (h n).hash = some x → recompute F fuel h n = some y → x = y
  | 0, _, _, _, _, hr => by simp [recompute] at hr
  | f + 1, n, x, y, hx, hr => by
    simp only [recompute] at hr
    have hc := hI.cache n x hx
    have : hashNode F (h n) (fun c => (h c).hash) = hashNode F (h n) (fun c => recompute F f h c) := by
      apply hashNode_congr
      intro c hcc
      have s1 := hashNode_some F (h n) hc hcc
      have s2 := hashNode_some F (h n) hr hcc
      cases h1 : (h c).hash with
      | none => rw [h1] at s1; cases s1
      | some xc =>
        cases h2 : recompute F f h c with
        | none => rw [h2] at s2; cases s2
        | some yc => rw [cache_eq_recompute F hI f c xc yc h1 h2]
    rw [this, hr] at hc
    simp only [Option.some.injEq] at hc
    exact hc.symm

theorem recompute_hashOnly (F : HashFns H) {h h' : Heap H} (ho : HashOnly h h') :
    ∀ (fuel : Nat) (n : Id), recompute F fuel h' n = recompute F fuel h n
  | 0, _ => rfl
  | f + 1, n => by
    simp only [recompute]
    have : (fun c => recompute F f h' c) = (fun c => recompute F f h c) :=
      funext fun c => recompute_hashOnly F ho f c
    rw [this]
    exact hashNode_fields F (h n) (h' n) _ (ho n).1 (ho n).2.1 (ho n).2.2.1

end SqlglotModel.Tree
