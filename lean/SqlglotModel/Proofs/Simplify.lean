/-
  C06 — helper lemmas about the model of simplify.py / normalize.py (Kleene algebra facts, evaluation lemmas,
  soundness of the truth-table checker).  Core Lean only.
-/
import SqlglotModel.Model.Simplify

namespace SqlglotModel.Simplify
open SqlglotModel.ThreeVL

/-! ### Kleene algebra on `B3` (finite: every lemma is a complete case analysis) -/
theorem and3_comm (a b : B3) : and3 a b = and3 b a := by
  rcases a with _ | _ | _ <;> rcases b with _ | _ | _ <;> rfl
theorem or3_comm (a b : B3) : or3 a b = or3 b a := by
  rcases a with _ | _ | _ <;> rcases b with _ | _ | _ <;> rfl
theorem and3_assoc (a b c : B3) : and3 (and3 a b) c = and3 a (and3 b c) := by
  rcases a with _ | _ | _ <;> rcases b with _ | _ | _ <;> rcases c with _ | _ | _ <;> rfl
theorem or3_assoc (a b c : B3) : or3 (or3 a b) c = or3 a (or3 b c) := by
  rcases a with _ | _ | _ <;> rcases b with _ | _ | _ <;> rcases c with _ | _ | _ <;> rfl
theorem and3_idem (a : B3) : and3 a a = a := by rcases a with _ | _ | _ <;> rfl
theorem or3_idem (a : B3) : or3 a a = a := by rcases a with _ | _ | _ <;> rfl
theorem not3_and3 (a b : B3) : not3 (and3 a b) = or3 (not3 a) (not3 b) := by
  rcases a with _ | _ | _ <;> rcases b with _ | _ | _ <;> rfl
theorem not3_or3 (a b : B3) : not3 (or3 a b) = and3 (not3 a) (not3 b) := by
  rcases a with _ | _ | _ <;> rcases b with _ | _ | _ <;> rfl
theorem not3_not3 (a : B3) : not3 (not3 a) = a := by rcases a with _ | _ | _ <;> rfl
theorem and3_true (a : B3) : and3 a (some true) = a := by rcases a with _ | _ | _ <;> rfl
theorem true_and3 (a : B3) : and3 (some true) a = a := by rcases a with _ | _ | _ <;> rfl
theorem or3_false (a : B3) : or3 a (some false) = a := by rcases a with _ | _ | _ <;> rfl
theorem false_or3 (a : B3) : or3 (some false) a = a := by rcases a with _ | _ | _ <;> rfl
theorem and3_false (a : B3) : and3 a (some false) = some false := by rcases a with _ | _ | _ <;> rfl
theorem false_and3 (a : B3) : and3 (some false) a = some false := by rcases a with _ | _ | _ <;> rfl
theorem or3_true (a : B3) : or3 a (some true) = some true := by rcases a with _ | _ | _ <;> rfl
theorem true_or3 (a : B3) : or3 (some true) a = some true := by rcases a with _ | _ | _ <;> rfl

@[simp] theorem truth_ofB3 (x : B3) : truth (ofB3 x) = x := by rcases x with _ | _ | _ <;> rfl

/-! ### evaluation lemmas -/
@[simp] theorem eval_unnest (env : Env) (e : E) : eval env (unnest e) = eval env e := by
  induction e <;> simp_all [unnest, eval]

@[simp] theorem eval_wrapConn (env : Env) (e : E) : eval env (wrapConn e) = eval env e := by
  unfold wrapConn; split <;> simp [eval]

@[simp] theorem eval_mkNot (env : Env) (e : E) : eval env (mkNot e) = ofB3 (not3 (truth (eval env e))) := by
  simp [mkNot, eval]
@[simp] theorem eval_mkAnd (env : Env) (a b : E) :
    eval env (mkAnd a b) = ofB3 (and3 (truth (eval env a)) (truth (eval env b))) := by simp [mkAnd, eval]
@[simp] theorem eval_mkOr (env : Env) (a b : E) :
    eval env (mkOr a b) = ofB3 (or3 (truth (eval env a)) (truth (eval env b))) := by simp [mkOr, eval]

@[simp] theorem eval_parenthesizeNested (env : Env) (e : E) (p : PK) :
    eval env (parenthesizeNested e p) = eval env e := by
  unfold parenthesizeNested; split <;> simp [eval]

theorem alwaysTrue_truth (env : Env) (e : E) (h : alwaysTrue e = true) : truth (eval env e) = some true := by
  cases e <;> simp_all [alwaysTrue, eval, truth]
  rename_i v; cases v <;> simp_all [alwaysTrue]

theorem isFalseE_eq (e : E) (h : isFalseE e = true) : e = .bool false := by
  cases e <;> simp_all [isFalseE]
  rename_i v; cases v <;> simp_all [isFalseE]
theorem isNullE_eq (e : E) (h : isNullE e = true) : e = .null := by
  cases e <;> simp_all [isNullE]
theorem isZeroE_eq (e : E) (h : isZeroE e = true) : e = .int 0 := by
  cases e <;> simp_all [isZeroE]

theorem alwaysFalse_truth (env : Env) (e : E) (h : alwaysFalse e = true) : truth (eval env e) ≠ some true := by
  simp only [alwaysFalse, Bool.or_eq_true] at h
  rcases h with (h | h) | h
  · rw [isFalseE_eq e h]; simp [eval, truth]
  · rw [isNullE_eq e h]; simp [eval, truth]
  · rw [isZeroE_eq e h]; simp [eval, truth]

theorem numVal_eval (env : Env) (e : E) (n : Int) (h : numVal? e = some n) : eval env e = .i n := by
  induction e generalizing n <;> simp_all [numVal?, eval]
  rename_i a ih
  cases ha : numVal? a with
  | none => simp [ha] at h
  | some m =>
    simp [ha] at h
    simp [ih m ha, negVal, toInt?, h]

theorem eval_mkNum (env : Env) (n : Int) : eval env (mkNum n) = .i n := by
  unfold mkNum; split <;> simp [eval, negVal, toInt?]

/-- a `boolish` expression only takes the values NULL / TRUE / FALSE -/
theorem boolish_val (env : Env) (e : E) (h : boolish e = true) : ofB3 (truth (eval env e)) = eval env e := by
  induction e <;> simp_all [boolish, eval] <;> try rfl
  case bcol k nn =>
    cases env.b k <;> try rfl
    cases nn <;> rfl
  case cmp op a b _ _ =>
    unfold cmpVal; split <;> rfl
  case is a b _ _ =>
    cases b <;> simp_all [boolish, isVal] <;> rfl

/-! ### the truth-table checker -/

/-- the concrete assignment of atoms induced by an environment -/
def envAssign (env : Env) : E → B3 := fun a => truth (eval env a)

theorem absE_envAssign (env : Env) (e : E) : absE (envAssign env) e = truth (eval env e) := by
  induction e <;> simp [absE, envAssign, eval, *] <;> try rfl

theorem absE_congr (σ τ : E → B3) (e : E) (h : ∀ y ∈ atomsOf e, σ y = τ y) : absE σ e = absE τ e := by
  induction e <;> simp_all [absE, atomsOf]

theorem toInt_of_ne_null (v : Val) (h : v ≠ .null) : ∃ n, toInt? v = some n := by
  cases v <;> simp_all [toInt?]
theorem truth_of_ne_null (v : Val) (h : v ≠ .null) : ∃ t, truth v = some t := by
  cases v <;> simp_all [truth]
theorem ofB3_some_ne_null (t : Bool) : ofB3 (some t) ≠ .null := by simp [ofB3]
theorem and3_some (a b : Bool) : ∃ c, and3 (some a) (some b) = some c := by
  cases a <;> cases b <;> exact ⟨_, rfl⟩
theorem or3_some (a b : Bool) : ∃ c, or3 (some a) (some b) = some c := by
  cases a <;> cases b <;> exact ⟨_, rfl⟩

theorem nonNullE_ne_null (env : Env) (e : E) : nonNullE e = true → eval env e ≠ .null := by
  induction e with
  | bool v => intro _; simp [eval]
  | int n => intro _; simp [eval]
  | bcol k nn => intro h; simp [nonNullE] at h; subst h; simp only [eval]; cases env.b k <;> simp
  | icol k nn => intro h; simp [nonNullE] at h; subst h; simp only [eval]; cases env.i k <;> simp
  | and a b iha ihb =>
    intro h; simp only [nonNullE, Bool.and_eq_true] at h
    obtain ⟨x, hx⟩ := truth_of_ne_null _ (iha h.1); obtain ⟨y, hy⟩ := truth_of_ne_null _ (ihb h.2)
    obtain ⟨c, hc⟩ := and3_some x y
    simp only [eval, hx, hy, hc]; exact ofB3_some_ne_null c
  | or a b iha ihb =>
    intro h; simp only [nonNullE, Bool.and_eq_true] at h
    obtain ⟨x, hx⟩ := truth_of_ne_null _ (iha h.1); obtain ⟨y, hy⟩ := truth_of_ne_null _ (ihb h.2)
    obtain ⟨c, hc⟩ := or3_some x y
    simp only [eval, hx, hy, hc]; exact ofB3_some_ne_null c
  | not a iha =>
    intro h; simp only [nonNullE] at h
    obtain ⟨x, hx⟩ := truth_of_ne_null _ (iha h)
    simp only [eval, hx, not3]; exact ofB3_some_ne_null _
  | paren a iha => intro h; simp only [nonNullE] at h; simpa [eval] using iha h
  | cmp op a b iha ihb =>
    intro h; simp only [nonNullE, Bool.and_eq_true] at h
    obtain ⟨x, hx⟩ := toInt_of_ne_null _ (iha h.1); obtain ⟨y, hy⟩ := toInt_of_ne_null _ (ihb h.2)
    simp [eval, cmpVal, hx, hy]
  | add a b iha ihb =>
    intro h; simp only [nonNullE, Bool.and_eq_true] at h
    obtain ⟨x, hx⟩ := toInt_of_ne_null _ (iha h.1); obtain ⟨y, hy⟩ := toInt_of_ne_null _ (ihb h.2)
    simp [eval, arith, hx, hy]
  | sub a b iha ihb =>
    intro h; simp only [nonNullE, Bool.and_eq_true] at h
    obtain ⟨x, hx⟩ := toInt_of_ne_null _ (iha h.1); obtain ⟨y, hy⟩ := toInt_of_ne_null _ (ihb h.2)
    simp [eval, arith, hx, hy]
  | mul a b iha ihb =>
    intro h; simp only [nonNullE, Bool.and_eq_true] at h
    obtain ⟨x, hx⟩ := toInt_of_ne_null _ (iha h.1); obtain ⟨y, hy⟩ := toInt_of_ne_null _ (ihb h.2)
    simp [eval, arith, hx, hy]
  | neg a iha =>
    intro h; simp only [nonNullE] at h
    obtain ⟨x, hx⟩ := toInt_of_ne_null _ (iha h)
    simp [eval, negVal, hx]
  | is a b _ _ =>
    intro h; cases b <;> simp_all [nonNullE, eval, isVal]
  | _ => intro h; simp [nonNullE] at h

/-- soundness of the enumeration: if every enumerated assignment agrees, every assignment that coincides with `σ`
    outside `xs` (and is non-NULL on the atoms that can never be NULL) agrees -/
theorem checkAll_sound (xs : List E) : ∀ (σ : E → B3) (a b : E), checkAll xs σ a b = true →
    ∀ τ : E → B3, (∀ y, y ∉ xs → τ y = σ y) → (∀ y ∈ xs, nonNullE y = true → τ y ≠ none) →
      absE τ a = absE τ b := by
  induction xs with
  | nil =>
    intro σ a b h τ hσ _
    have : τ = σ := funext (fun y => hσ y (by simp))
    subst this; simpa [checkAll] using h
  | cons x xs ih =>
    intro σ a b h τ hσ hnn
    simp only [checkAll, Bool.and_eq_true, Bool.or_eq_true] at h
    obtain ⟨⟨ht, hf⟩, hn⟩ := h
    have key : ∀ v, τ x = v → checkAll xs (upd σ x v) a b = true → absE τ a = absE τ b := by
      intro v hv hc
      apply ih (upd σ x v) a b hc τ
      · intro y hy
        by_cases hyx : y = x
        · subst hyx; simp [upd, hv]
        · simp only [upd, hyx, if_false]; exact hσ y (by simp [hyx, hy])
      · intro y hy; exact hnn y (List.mem_cons_of_mem _ hy)
    rcases hτ : τ x with _ | _ | _
    · rcases hn with hn | hn
      · exact absurd hτ (hnn x (List.mem_cons_self ..) hn)
      · exact key none hτ hn
    · exact key (some false) hτ hf
    · exact key (some true) hτ ht

theorem ttCheck_sound (a b : E) (h : ttCheck a b = true) (env : Env) :
    truth (eval env a) = truth (eval env b) := by
  let xs := (atomsOf a ++ atomsOf b).eraseDups
  let τ : E → B3 := fun y => if y ∈ xs then envAssign env y else none
  have hmem : ∀ y, y ∈ atomsOf a ++ atomsOf b → y ∈ xs := by
    intro y hy; simpa [xs] using hy
  have h1 := checkAll_sound xs (fun _ => none) a b h τ
    (by intro y hy; simp [τ, hy])
    (by
      intro y hy hnn
      simp only [τ, hy, if_true, envAssign]
      obtain ⟨t, ht⟩ := truth_of_ne_null _ (nonNullE_ne_null env y hnn)
      simp [ht])
  have ha : absE τ a = absE (envAssign env) a := absE_congr _ _ _ (by
    intro y hy; simp [τ, hmem y (List.mem_append_left _ hy)])
  have hb : absE τ b = absE (envAssign env) b := absE_congr _ _ _ (by
    intro y hy; simp [τ, hmem y (List.mem_append_right _ hy)])
  rw [← absE_envAssign, ← absE_envAssign, ← ha, ← hb, h1]


/-! ### the CASE loop of simplify_conditionals -/

theorem appRev_cons (x : E) (kept : List E) (rest : E) : appRev (x :: kept) rest = appRev kept (.cons x rest) := rfl

theorem evalCase_cons_congr (env : Env) (x r1 r2 : E) (h : evalCase env r1 = evalCase env r2) :
    evalCase env (.cons x r1) = evalCase env (.cons x r2) := by
  cases x <;> simp [evalCase, h]

theorem evalCase_appRev_congr (env : Env) (kept : List E) : ∀ r1 r2, evalCase env r1 = evalCase env r2 →
    evalCase env (appRev kept r1) = evalCase env (appRev kept r2) := by
  induction kept with
  | nil => intro r1 r2 h; simpa [appRev] using h
  | cons x kept ih =>
    intro r1 r2 h
    rw [appRev_cons, appRev_cons]
    exact ih _ _ (evalCase_cons_congr env x r1 r2 h)

theorem evalCase_drop (env : Env) (c t f tl : E) (h : truth (eval env c) ≠ some true) :
    evalCase env (.cons (.iff c t f) tl) = evalCase env tl := by
  simp [evalCase, h]

theorem eval_case_congr (env : Env) (a b d : E) (h : evalCase env a = evalCase env b) :
    eval env (.case a d) = eval env (.case b d) := by
  simp [eval, h]

/-- the repaired loop: whatever it returns evaluates like the CASE over `reverse kept ++ rest` -/
theorem caseLoop_sound (env : Env) (dflt : E) : ∀ (fuel : Nat) (kept : List E) (rest : E),
    eval env (caseLoop true dflt fuel kept rest) = eval env (.case (appRev kept rest) dflt) := by
  intro fuel
  induction fuel with
  | zero => intro kept rest; rfl
  | succ fuel ih =>
    intro kept rest
    cases rest with
    | cons h tl =>
      cases h with
      | iff c t f =>
        simp only [caseLoop]
        split
        · rename_i hc
          have htrue := alwaysTrue_truth env c hc
          cases kept with
          | nil => simp [appRev, eval, evalCase, htrue]
          | cons k ks => simp
        · split
          · rename_i _ hf
            have hne := alwaysFalse_truth env c hf
            have hdrop := evalCase_appRev_congr env kept _ _ (evalCase_drop env c t f tl hne)
            split
            · -- kept = [], tl = nil
              simp only [appRev, List.foldl] at hdrop ⊢
              simp only [eval, evalCase, hne, if_false]
              split
              · rename_i hd; subst hd; rfl
              · rfl
            · rename_i nxt tl'
              rw [ih, appRev_cons]
              exact (eval_case_congr env _ _ dflt hdrop).symm
            · exact (eval_case_congr env _ _ dflt hdrop).symm
          · rw [ih, appRev_cons]
      | _ => simp only [caseLoop]; rw [ih, appRev_cons]
    | _ => rfl

/-! ### simplify_coalesce: the comparison branch -/

theorem ofB3_truth_cmpVal (op : Cmp) (x y : Val) : ofB3 (truth (cmpVal op x y)) = cmpVal op x y := by
  unfold cmpVal; split <;> rfl

/-- splitting the COALESCE tail at its first constant argument, when that constant is not NULL -/
theorem evalCoalesce_split (env : Env) (sk : Bool) : ∀ (rest pre c : E), splitAtConst sk rest = some (pre, c) → eval env c ≠ .null →
    ∀ first, evalCoalesce env (.cons first rest) =
      (match evalCoalesce env (.cons first pre) with
       | .null => eval env c
       | v => v) := by
  intro rest
  induction rest with
  | cons h t _ iht =>
    intro pre c hs hc first
    simp only [splitAtConst] at hs
    split at hs
    · cases hs
      simp only [evalCoalesce]
      cases hf : eval env first <;> simp
      all_goals (cases hc' : eval env c <;> simp_all)
    · cases hsp : splitAtConst sk t with
      | none => simp [hsp] at hs
      | some pc =>
        obtain ⟨pre', c'⟩ := pc
        simp [hsp] at hs
        obtain ⟨h1, h2⟩ := hs
        subst h1; subst h2
        have := iht pre' c' hsp hc h
        simp only [evalCoalesce] at this ⊢
        cases hf : eval env first <;> simp
        exact this
  | _ => intro pre c hs; simp [splitAtConst] at hs


theorem splitAtConst_ends (sk : Bool) : ∀ (rest pre c : E), splitAtConst sk rest = some (pre, c) → endsCoalesce sk c = true := by
  intro rest
  induction rest with
  | cons h t _ iht =>
    intro pre c hs
    simp only [splitAtConst] at hs
    split at hs
    · rename_i he; cases hs; exact he
    · cases hsp : splitAtConst sk t with
      | none => simp [hsp] at hs
      | some pc =>
        obtain ⟨pre', c'⟩ := pc
        simp [hsp] at hs
        obtain ⟨_, h2⟩ := hs
        subst h2
        exact iht pre' c' hsp
  | _ => intro pre c hs; simp [splitAtConst] at hs

/-- an argument that ends the COALESCE in the repaired code is never NULL-valued -/
theorem endsCoalesce_ne_null (env : Env) (c : E) (h : endsCoalesce true c = true) : eval env c ≠ .null := by
  cases c <;> simp_all [endsCoalesce, isConstant, isConstLeaf, isNullE, eval]
  rename_i a
  cases a <;> simp_all [isConstLeaf, isNullE, eval, negVal, toInt?]

end SqlglotModel.Simplify
