/-
  C06 — helper lemmas about the model of simplify.py / normalize.py (Kleene algebra facts, evaluation lemmas,
  soundness of the truth-table checker).  Core Lean only.
-/
import SqlglotModel.Model.Simplify

namespace SqlglotModel.Simplify
open SqlglotModel.ThreeVL

/-! ### Kleene algebra on `B3` (finite: every lemma is a complete case analysis) -/
theorem and3_comm (a b : B3) : and3 a b = and3 b a := by
  rcases a with _ | _ | _ <;> rcases b with _ | _ | _ <;> rfl
theorem or3_comm (a b : B3) : or3 a b = or3 b a := by
  rcases a with _ | _ | _ <;> rcases b with _ | _ | _ <;> rfl
theorem and3_assoc (a b c : B3) : and3 (and3 a b) c = and3 a (and3 b c) := by
  rcases a with _ | _ | _ <;> rcases b with _ | _ | _ <;> rcases c with _ | _ | _ <;> rfl
theorem or3_assoc (a b c : B3) : or3 (or3 a b) c = or3 a (or3 b c) := by
  rcases a with _ | _ | _ <;> rcases b with _ | _ | _ <;> rcases c with _ | _ | _ <;> rfl
theorem and3_idem (a : B3) : and3 a a = a := by rcases a with _ | _ | _ <;> rfl
theorem or3_idem (a : B3) : or3 a a = a := by rcases a with _ | _ | _ <;> rfl
theorem not3_and3 (a b : B3) : not3 (and3 a b) = or3 (not3 a) (not3 b) := by
  rcases a with _ | _ | _ <;> rcases b with _ | _ | _ <;> rfl
theorem not3_or3 (a b : B3) : not3 (or3 a b) = and3 (not3 a) (not3 b) := by
  rcases a with _ | _ | _ <;> rcases b with _ | _ | _ <;> rfl
theorem not3_not3 (a : B3) : not3 (not3 a) = a := by rcases a with _ | _ | _ <;> rfl
theorem and3_true (a : B3) : and3 a (some true) = a := by rcases a with _ | _ | _ <;> rfl
theorem true_and3 (a : B3) : and3 (some true) a = a := by rcases a with _ | _ | _ <;> rfl
theorem or3_false (a : B3) : or3 a (some false) = a := by rcases a with _ | _ | _ <;> rfl
theorem false_or3 (a : B3) : or3 (some false) a = a := by rcases a with _ | _ | _ <;> rfl
theorem and3_false (a : B3) : and3 a (some false) = some false := by rcases a with _ | _ | _ <;> rfl
theorem false_and3 (a : B3) : and3 (some false) a = some false := by rcases a with _ | _ | _ <;> rfl
theorem or3_true (a : B3) : or3 a (some true) = some true := by rcases a with _ | _ | _ <;> rfl
theorem true_or3 (a : B3) : or3 (some true) a = some true := by rcases a with _ | _ | _ <;> rfl

@[simp] theorem truth_ofB3 (x : B3) : truth (ofB3 x) = x := by rcases x with _ | _ | _ <;> rfl

/-! ### evaluation lemmas -/
@[simp] theorem eval_unnest (env : Env) (e : E) : eval env (unnest e) = eval env e := by
  induction e <;> simp_all [unnest, eval]

@[simp] theorem eval_wrapConn (env : Env) (e : E) : eval env (wrapConn e) = eval env e := by
  unfold wrapConn; split <;> simp [eval]

@[simp] theorem eval_mkNot (env : Env) (e : E) : eval env (mkNot e) = ofB3 (not3 (truth (eval env e))) := by
  simp [mkNot, eval]
@[simp] theorem eval_mkAnd (env : Env) (a b : E) :
    eval env (mkAnd a b) = ofB3 (and3 (truth (eval env a)) (truth (eval env b))) := by simp [mkAnd, eval]
@[simp] theorem eval_mkOr (env : Env) (a b : E) :
    eval env (mkOr a b) = ofB3 (or3 (truth (eval env a)) (truth (eval env b))) := by simp [mkOr, eval]

@[simp] theorem eval_parenthesizeNested (env : Env) (e : E) (p : PK) :
    eval env (parenthesizeNested e p) = eval env e := by
  unfold parenthesizeNested; split <;> simp [eval]

theorem alwaysTrue_truth (env : Env) (e : E) (h : alwaysTrue e = true) : truth (eval env e) = some true := by
  cases e <;> simp_all [alwaysTrue, eval, truth]
  rename_i v; cases v <;> simp_all [alwaysTrue]

theorem isFalseE_eq (e : E) (h : isFalseE e = true) : e = .bool false := by
  cases e <;> simp_all [isFalseE]
  rename_i v; cases v <;> simp_all [isFalseE]
theorem isNullE_eq (e : E) (h : isNullE e = true) : e = .null := by
  cases e <;> simp_all [isNullE]
theorem isZeroE_eq (e : E) (h : isZeroE e = true) : e = .int 0 := by
  cases e <;> simp_all [isZeroE]

theorem alwaysFalse_truth (env : Env) (e : E) (h : alwaysFalse e = true) : truth (eval env e) ≠ some true := by
  simp only [alwaysFalse, Bool.or_eq_true] at h
  rcases h with (h | h) | h
  · rw [isFalseE_eq e h]; simp [eval, truth]
  · rw [isNullE_eq e h]; simp [eval, truth]
  · rw [isZeroE_eq e h]; simp [eval, truth]

theorem numVal_eval (env : Env) (e : E) (n : Int) (h : numVal? e = some n) : eval env e = .i n := by
  induction e generalizing n <;> simp_all [numVal?, eval]
  rename_i a ih
  cases ha : numVal? a with
  | none => simp [ha] at h
  | some m =>
    simp [ha] at h
    simp [ih m ha, negVal, toInt?, h]

theorem eval_mkNum (env : Env) (n : Int) : eval env (mkNum n) = .i n := by
  unfold mkNum; split <;> simp [eval, negVal, toInt?]

/-- a `boolish` expression only takes the values NULL / TRUE / FALSE -/
theorem boolish_val (env : Env) (e : E) (h : boolish e = true) : ofB3 (truth (eval env e)) = eval env e := by
  induction e <;> simp_all [boolish, eval] <;> try rfl
  case bcol k nn =>
    cases env.b k <;> try rfl
    cases nn <;> rfl
  case cmp op a b _ _ =>
    unfold cmpVal; split <;> rfl
  case is a b _ _ =>
    cases b <;> simp_all [boolish, isVal] <;> rfl

/-! ### the truth-table checker -/

/-- the concrete assignment of atoms induced by an environment -/
def envAssign (env : Env) : E → B3 := fun a => truth (eval env a)

theorem absE_envAssign (env : Env) (e : E) : absE (envAssign env) e = truth (eval env e) := by
  induction e <;> simp [absE, envAssign, eval, *] <;> try rfl

theorem absE_congr (σ τ : E → B3) (e : E) (h : ∀ y ∈ atomsOf e, σ y = τ y) : absE σ e = absE τ e := by
  induction e <;> simp_all [absE, atomsOf]

theorem toInt_of_ne_null (v : Val) (h : v ≠ .null) : ∃ n, toInt? v = some n := by
  cases v <;> simp_all [toInt?]
theorem truth_of_ne_null (v : Val) (h : v ≠ .null) : ∃ t, truth v = some t := by
  cases v <;> simp_all [truth]
theorem ofB3_some_ne_null (t : Bool) : ofB3 (some t) ≠ .null := by simp [ofB3]
theorem and3_some (a b : Bool) : ∃ c, and3 (some a) (some b) = some c := by
  cases a <;> cases b <;> exact ⟨_, rfl⟩
theorem or3_some (a b : Bool) : ∃ c, or3 (some a) (some b) = some c := by
  cases a <;> cases b <;> exact ⟨_, rfl⟩

theorem nonNullE_ne_null (env : Env) (e : E) : nonNullE e = true → eval env e ≠ .null := by
  induction e with
  | bool v => intro _; simp [eval]
  | int n => intro _; simp [eval]
  | bcol k nn => intro h; simp [nonNullE] at h; subst h; simp only [eval]; cases env.b k <;> simp
  | icol k nn => intro h; simp [nonNullE] at h; subst h; simp only [eval]; cases env.i k <;> simp
  | and a b iha ihb =>
    intro h; simp only [nonNullE, Bool.and_eq_true] at h
    obtain ⟨x, hx⟩ := truth_of_ne_null _ (iha h.1); obtain ⟨y, hy⟩ := truth_of_ne_null _ (ihb h.2)
    obtain ⟨c, hc⟩ := and3_some x y
    simp only [eval, hx, hy, hc]; exact ofB3_some_ne_null c
  | or a b iha ihb =>
    intro h; simp only [nonNullE, Bool.and_eq_true] at h
    obtain ⟨x, hx⟩ := truth_of_ne_null _ (iha h.1); obtain ⟨y, hy⟩ := truth_of_ne_null _ (ihb h.2)
    obtain ⟨c, hc⟩ := or3_some x y
    simp only [eval, hx, hy, hc]; exact ofB3_some_ne_null c
  | not a iha =>
    intro h; simp only [nonNullE] at h
    obtain ⟨x, hx⟩ := truth_of_ne_null _ (iha h)
    simp only [eval, hx, not3]; exact ofB3_some_ne_null _
  | paren a iha => intro h; simp only [nonNullE] at h; simpa [eval] using iha h
  | cmp op a b iha ihb =>
    intro h; simp only [nonNullE, Bool.and_eq_true] at h
    obtain ⟨x, hx⟩ := toInt_of_ne_null _ (iha h.1); obtain ⟨y, hy⟩ := toInt_of_ne_null _ (ihb h.2)
    simp [eval, cmpVal, hx, hy]
  | add a b iha ihb =>
    intro h; simp only [nonNullE, Bool.and_eq_true] at h
    obtain ⟨x, hx⟩ := toInt_of_ne_null _ (iha h.1); obtain ⟨y, hy⟩ := toInt_of_ne_null _ (ihb h.2)
    simp [eval, arith, hx, hy]
  | sub a b iha ihb =>
    intro h; simp only [nonNullE, Bool.and_eq_true] at h
    obtain ⟨x, hx⟩ := toInt_of_ne_null _ (iha h.1); obtain ⟨y, hy⟩ := toInt_of_ne_null _ (ihb h.2)
    simp [eval, arith, hx, hy]
  | mul a b iha ihb =>
    intro h; simp only [nonNullE, Bool.and_eq_true] at h
    obtain ⟨x, hx⟩ := toInt_of_ne_null _ (iha h.1); obtain ⟨y, hy⟩ := toInt_of_ne_null _ (ihb h.2)
    simp [eval, arith, hx, hy]
  | neg a iha =>
    intro h; simp only [nonNullE] at h
    obtain ⟨x, hx⟩ := toInt_of_ne_null _ (iha h)
    simp [eval, negVal, hx]
  | is a b _ _ =>
    intro h; cases b <;> simp_all [nonNullE, eval, isVal]
  | _ => intro h; simp [nonNullE] at h

/-- soundness of the enumeration: if every enumerated assignment agrees, every assignment that coincides with `σ`
    outside `xs` (and is non-NULL on the atoms that can never be NULL) agrees -/
theorem checkAll_sound (xs : List E) : ∀ (σ : E → B3) (a b : E), checkAll xs σ a b = true →
    ∀ τ : E → B3, (∀ y, y ∉ xs → τ y = σ y) → (∀ y ∈ xs, nonNullE y = true → τ y ≠ none) →
      absE τ a = absE τ b := by
  induction xs with
  | nil =>
    intro σ a b h τ hσ _
    have : τ = σ := funext (fun y => hσ y (by simp))
    subst this; simpa [checkAll] using h
  | cons x xs ih =>
    intro σ a b h τ hσ hnn
    simp only [checkAll, Bool.and_eq_true, Bool.or_eq_true] at h
    obtain ⟨⟨ht, hf⟩, hn⟩ := h
    have key : ∀ v, τ x = v → checkAll xs (upd σ x v) a b = true → absE τ a = absE τ b := by
      intro v hv hc
      apply ih (upd σ x v) a b hc τ
      · intro y hy
        by_cases hyx : y = x
        · subst hyx; simp [upd, hv]
        · simp only [upd, hyx, if_false]; exact hσ y (by simp [hyx, hy])
      · intro y hy; exact hnn y (List.mem_cons_of_mem _ hy)
    rcases hτ : τ x with _ | _ | _
    · rcases hn with hn | hn
      · exact absurd hτ (hnn x (List.mem_cons_self ..) hn)
      · exact key none hτ hn
    · exact key (some false) hτ hf
    · exact key (some true) hτ ht

theorem ttCheck_sound (a b : E) (h : ttCheck a b = true) (env : Env) :
    truth (eval env a) = truth (eval env b) := by
  let xs := (atomsOf a ++ atomsOf b).eraseDups
  let τ : E → B3 := fun y => if y ∈ xs then envAssign env y else none
  have hmem : ∀ y, y ∈ atomsOf a ++ atomsOf b → y ∈ xs := by
    intro y hy; simpa [xs] using hy
  have h1 := checkAll_sound xs (fun _ => none) a b h τ
    (by intro y hy; simp [τ, hy])
    (by
      intro y hy hnn
      simp only [τ, hy, if_true, envAssign]
      obtain ⟨t, ht⟩ := truth_of_ne_null _ (nonNullE_ne_null env y hnn)
      simp [ht])
  have ha : absE τ a = absE (envAssign env) a := absE_congr _ _ _ (by
    intro y hy; simp [τ, hmem y (List.mem_append_left _ hy)])
  have hb : absE τ b = absE (envAssign env) b := absE_congr _ _ _ (by
    intro y hy; simp [τ, hmem y (List.mem_append_right _ hy)])
  rw [← absE_envAssign, ← absE_envAssign, ← ha, ← hb, h1]


theorem firstSome_res (a b : Option E) (x : E) :
    firstSome a b = .res x ↔ a = some x ∨ (a = none ∧ b = some x) := by
  cases a <;> cases b <;> simp [firstSome]

/-! ### the CASE loop of simplify_conditionals -/

theorem appRev_cons (x : E) (kept : List E) (rest : E) : appRev (x :: kept) rest = appRev kept (.cons x rest) := rfl

theorem evalCase_cons_congr (env : Env) (x r1 r2 : E) (h : evalCase env r1 = evalCase env r2) :
    evalCase env (.cons x r1) = evalCase env (.cons x r2) := by
  cases x <;> simp [evalCase, h]

theorem evalCase_appRev_congr (env : Env) (kept : List E) : ∀ r1 r2, evalCase env r1 = evalCase env r2 →
    evalCase env (appRev kept r1) = evalCase env (appRev kept r2) := by
  induction kept with
  | nil => intro r1 r2 h; simpa [appRev] using h
  | cons x kept ih =>
    intro r1 r2 h
    rw [appRev_cons, appRev_cons]
    exact ih _ _ (evalCase_cons_congr env x r1 r2 h)

theorem evalCase_drop (env : Env) (c t f tl : E) (h : truth (eval env c) ≠ some true) :
    evalCase env (.cons (.iff c t f) tl) = evalCase env tl := by
  simp [evalCase, h]

theorem eval_case_congr (env : Env) (a b d : E) (h : evalCase env a = evalCase env b) :
    eval env (.case a d) = eval env (.case b d) := by
  simp [eval, h]

@[simp] theorem eval_wrapForParent (env : Env) (e : E) (p : PK) : eval env (wrapForParent e p) = eval env e := by
  unfold wrapForParent; split <;> simp [eval]

/-- the repaired loop: whatever it returns evaluates like the CASE over `reverse kept ++ rest` -/
theorem caseLoop_sound (env : Env) (p : PK) (dflt : E) : ∀ (fuel : Nat) (kept : List E) (rest : E),
    eval env (caseLoop true p dflt fuel kept rest) = eval env (.case (appRev kept rest) dflt) := by
  intro fuel
  induction fuel with
  | zero => intro kept rest; rfl
  | succ fuel ih =>
    intro kept rest
    cases rest with
    | cons h tl =>
      cases h with
      | iff c t f =>
        simp only [caseLoop]
        split
        · rename_i hc
          have htrue := alwaysTrue_truth env c hc
          cases kept with
          | nil => simp [appRev, eval, evalCase, htrue]
          | cons k ks => simp
        · split
          · rename_i _ hf
            have hne := alwaysFalse_truth env c hf
            have hdrop := evalCase_appRev_congr env kept _ _ (evalCase_drop env c t f tl hne)
            split
            · -- kept = [], tl = nil
              simp only [appRev, List.foldl] at hdrop ⊢
              simp only [eval_wrapForParent, eval, evalCase, hne, if_false]
              split
              · rename_i hd; subst hd; rfl
              · rfl
            · rename_i nxt tl'
              rw [ih, appRev_cons]
              exact (eval_case_congr env _ _ dflt hdrop).symm
            · exact (eval_case_congr env _ _ dflt hdrop).symm
          · rw [ih, appRev_cons]
      | _ => simp only [caseLoop]; rw [ih, appRev_cons]
    | _ => rfl

/-! ### simplify_coalesce: the comparison branch -/

@[simp] theorem eval_wrapNotSubject (env : Env) (e : E) : eval env (wrapNotSubject e) = eval env e := by
  cases e <;> simp [wrapNotSubject, eval]


theorem ofB3_truth_cmpVal (op : Cmp) (x y : Val) : ofB3 (truth (cmpVal op x y)) = cmpVal op x y := by
  unfold cmpVal; split <;> rfl

/-- splitting the COALESCE tail at its first constant argument, when that constant is not NULL -/
theorem evalCoalesce_split (env : Env) (sk : Bool) : ∀ (rest pre c : E), splitAtConst sk rest = some (pre, c) → eval env c ≠ .null →
    ∀ first, evalCoalesce env (.cons first rest) =
      (match evalCoalesce env (.cons first pre) with
       | .null => eval env c
       | v => v) := by
  intro rest
  induction rest with
  | cons h t _ iht =>
    intro pre c hs hc first
    simp only [splitAtConst] at hs
    split at hs
    · cases hs
      simp only [evalCoalesce]
      cases hf : eval env first <;> simp
      all_goals (cases hc' : eval env c <;> simp_all)
    · cases hsp : splitAtConst sk t with
      | none => simp [hsp] at hs
      | some pc =>
        obtain ⟨pre', c'⟩ := pc
        simp [hsp] at hs
        obtain ⟨h1, h2⟩ := hs
        subst h1; subst h2
        have := iht pre' c' hsp hc h
        simp only [evalCoalesce] at this ⊢
        cases hf : eval env first <;> simp
        exact this
  | _ => intro pre c hs; simp [splitAtConst] at hs


theorem splitAtConst_ends (sk : Bool) : ∀ (rest pre c : E), splitAtConst sk rest = some (pre, c) → endsCoalesce sk c = true := by
  intro rest
  induction rest with
  | cons h t _ iht =>
    intro pre c hs
    simp only [splitAtConst] at hs
    split at hs
    · rename_i he; cases hs; exact he
    · cases hsp : splitAtConst sk t with
      | none => simp [hsp] at hs
      | some pc =>
        obtain ⟨pre', c'⟩ := pc
        simp [hsp] at hs
        obtain ⟨_, h2⟩ := hs
        subst h2
        exact iht pre' c' hsp
  | _ => intro pre c hs; simp [splitAtConst] at hs

/-- an argument that ends the COALESCE in the repaired code is never NULL-valued -/
theorem endsCoalesce_ne_null (env : Env) (c : E) (h : endsCoalesce true c = true) : eval env c ≠ .null := by
  cases c <;> simp_all [endsCoalesce, isConstant, isConstLeaf, isNullE, eval]
  rename_i a
  cases a <;> simp_all [isConstLeaf, isNullE, eval, negVal, toInt?]

/-! ### _flat_simplify: the queue algorithm preserves the fold of the operands
    (any commutative monoid `op`/`u` on a carrier `α`, any semantics `sem : E → α`) -/
section Flat
variable {α : Type} (op : α → α → α) (u : α) (sem : E → α)

def foldSem (xs : List E) : α := xs.foldr (fun y acc => op (sem y) acc) u

variable (hassoc : ∀ a b c, op (op a b) c = op a (op b c)) (hcomm : ∀ a b, op a b = op b a) (hunit : ∀ a, op u a = a)
include hassoc hunit in
theorem foldSem_append (xs ys : List E) : foldSem op u sem (xs ++ ys) = op (foldSem op u sem xs) (foldSem op u sem ys) := by
  induction xs with
  | nil => simp [foldSem, hunit]
  | cons x xs ih =>
    have : foldSem op u sem (x :: xs ++ ys) = op (sem x) (foldSem op u sem (xs ++ ys)) := rfl
    rw [this, ih, ← hassoc]; rfl

include hassoc hcomm in
theorem tryPair_sound (pair : E → E → Option E) (hp : ∀ a b r, pair a b = some r → op (sem a) (sem b) = sem r)
    (a : E) : ∀ (q : List E) (r : E) (q' : List E), tryPair pair a q = some (r, q') →
      op (sem a) (foldSem op u sem q) = op (sem r) (foldSem op u sem q') := by
  intro q
  induction q with
  | nil => intro r q' h; simp [tryPair] at h
  | cons b rest ih =>
    intro r q' h
    simp only [tryPair] at h
    cases hpb : pair a b with
    | some r0 =>
      simp [hpb] at h
      obtain ⟨h1, h2⟩ := h
      subst h1; subst h2
      have : foldSem op u sem (b :: rest) = op (sem b) (foldSem op u sem rest) := rfl
      rw [this, ← hassoc, hp a b r0 hpb]
    | none =>
      simp only [hpb] at h
      cases ht : tryPair pair a rest with
      | none => simp [ht] at h
      | some pr =>
        obtain ⟨r1, rest'⟩ := pr
        simp [ht] at h
        obtain ⟨h1, h2⟩ := h
        subst h1; subst h2
        have e1 : foldSem op u sem (b :: rest) = op (sem b) (foldSem op u sem rest) := rfl
        have e2 : foldSem op u sem (b :: rest') = op (sem b) (foldSem op u sem rest') := rfl
        rw [e1, e2, ← hassoc, hcomm (sem a) (sem b), hassoc, ih r1 rest' ht, ← hassoc, hcomm (sem b) (sem r1), hassoc]

include hassoc hcomm hunit in
theorem flatLoop_sound (pair : E → E → Option E) (hp : ∀ a b r, pair a b = some r → op (sem a) (sem b) = sem r) :
    ∀ (fuel : Nat) (q ops : List E), foldSem op u sem (flatLoop pair fuel q ops) = foldSem op u sem (ops.reverse ++ q) := by
  intro fuel
  induction fuel with
  | zero => intro q ops; rfl
  | succ fuel ih =>
    intro q ops
    cases q with
    | nil => simp [flatLoop]
    | cons a q =>
      simp only [flatLoop]
      cases ht : tryPair pair a q with
      | none => simp only []; rw [ih]; simp
      | some pr =>
        obtain ⟨r, q'⟩ := pr
        simp only []
        rw [ih, foldSem_append op u sem hassoc hunit, foldSem_append op u sem hassoc hunit]
        have e1 : foldSem op u sem (a :: q) = op (sem a) (foldSem op u sem q) := rfl
        have e2 : foldSem op u sem (r :: q') = op (sem r) (foldSem op u sem q') := rfl
        rw [e1, e2, tryPair_sound op u sem hassoc hcomm pair hp a q r q' ht]

include hassoc hcomm hunit in
theorem reduce_sound (mk : E → E → E) (hmk : ∀ a b, sem (mk a b) = op (sem a) (sem b)) :
    ∀ (rest : List E) (x : E), sem (rest.foldl mk x) = op (sem x) (foldSem op u sem rest) := by
  intro rest
  induction rest with
  | nil => intro x; simp [foldSem, hcomm (sem x) u, hunit]
  | cons y ys ih =>
    intro x
    have : foldSem op u sem (y :: ys) = op (sem y) (foldSem op u sem ys) := rfl
    rw [List.foldl_cons, ih, hmk, this, hassoc]

include hassoc hcomm hunit in
theorem foldSem_single (e : E) : foldSem op u sem [e] = sem e := by
  have : foldSem op u sem [e] = op (sem e) u := rfl
  rw [this, hcomm, hunit]

include hassoc hcomm hunit in
theorem flattenOps_sound (k : FK) (hmk : ∀ a b, sem (k.mk a b) = op (sem a) (sem b)) :
    ∀ e, foldSem op u sem (flattenOps k e) = sem e := by
  intro e
  induction e <;> cases k <;>
    simp only [flattenOps, foldSem_single op u sem hassoc hcomm hunit] <;>
    (rename_i a b iha ihb
     rw [foldSem_append op u sem hassoc hunit, iha, ihb]
     exact (hmk a b).symm)

include hassoc hcomm hunit in
/-- `_flat_simplify` preserves the meaning of the connector / sum / product it is applied to -/
theorem flatSimplify_sound (k : FK) (hmk : ∀ a b, sem (k.mk a b) = op (sem a) (sem b))
    (pair : E → E → Option E) (hp : ∀ a b r, pair a b = some r → op (sem a) (sem b) = sem r) (gate : Bool) (e : E) :
    sem (flatSimplify k pair gate e) = sem e := by
  unfold flatSimplify
  split; · rfl
  simp only []
  split; · rfl
  split
  · have hl := flatLoop_sound op u sem hassoc hcomm hunit pair hp (flattenOps k e).length (flattenOps k e) []
    simp only [List.reverse_nil, List.nil_append] at hl
    rw [flattenOps_sound op u sem hassoc hcomm hunit k hmk e] at hl
    split
    · rename_i x rest hops
      rw [hops] at hl
      rw [reduce_sound op u sem hassoc hcomm hunit k.mk hmk rest x, ← hl]; rfl
    · rfl
  · rfl
end Flat

/-! ### normalize.py: distributive_law -/
theorem or3_and3_distrib (a b c : B3) : or3 a (and3 b c) = and3 (or3 a b) (or3 a c) := by
  rcases a with _ | _ | _ <;> rcases b with _ | _ | _ <;> rcases c with _ | _ | _ <;> rfl
theorem and3_or3_distrib (a b c : B3) : and3 a (or3 b c) = or3 (and3 a b) (and3 a c) := by
  rcases a with _ | _ | _ <;> rcases b with _ | _ | _ <;> rcases c with _ | _ | _ <;> rfl

/-- 3-valued meaning of a connector of the given polarity -/
def conn3 (isAnd : Bool) : B3 → B3 → B3 := if isAnd then and3 else or3

theorem conn3_comm (p : Bool) (a b : B3) : conn3 p a b = conn3 p b a := by
  cases p
  · exact or3_comm a b
  · exact and3_comm a b
theorem conn3_distrib (p : Bool) (a b c : B3) : conn3 (!p) a (conn3 p b c) = conn3 p (conn3 (!p) a b) (conn3 (!p) a c) := by
  cases p
  · exact and3_or3_distrib a b c
  · exact or3_and3_distrib a b c
theorem conn3_distrib_r (p : Bool) (a b c : B3) : conn3 (!p) (conn3 p b c) a = conn3 p (conn3 (!p) b a) (conn3 (!p) c a) := by
  rw [conn3_comm (!p), conn3_distrib, conn3_comm (!p) a b, conn3_comm (!p) a c]

@[simp] theorem eval_mkConn (env : Env) (p : Bool) (a b : E) :
    eval env (mkConn p a b) = ofB3 (conn3 p (truth (eval env a)) (truth (eval env b))) := by
  cases p <;> simp [mkConn, conn3]
@[simp] theorem eval_rawConn (env : Env) (p : Bool) (a b : E) :
    eval env (rawConn p a b) = ofB3 (conn3 p (truth (eval env a)) (truth (eval env b))) := by
  cases p <;> simp [rawConn, conn3, eval]

theorem splitConn_eval (env : Env) (p : Bool) (e a b : E) (h : splitConn p e = some (a, b)) :
    eval env e = ofB3 (conn3 p (truth (eval env a)) (truth (eval env b))) := by
  cases e <;> simp [splitConn] at h
  · obtain ⟨hp, h1, h2⟩ := h; subst hp; subst h1; subst h2; simp [eval, conn3]
  · obtain ⟨hp, h1, h2⟩ := h; subst hp; subst h1; subst h2; simp [eval, conn3]

theorem eval_flatten1 (env : Env) (e : E) : eval env (flatten1 e) = eval env e := by
  have fc : ∀ p x, eval env (flattenChild p x) = eval env x := by
    intro p x; unfold flattenChild; split
    · rename_i a b h; rw [← h]; simp
    · rename_i a b h; rw [← h]; simp
    · rfl
  cases e <;> simp [flatten1, eval, fc]

theorem distribute_sound (us : E → E) (hus : ∀ e env, eval env (us e) = eval env e) (toAnd : Bool) (a b : E) (env : Env) :
    eval env (distribute us toAnd a b) = ofB3 (conn3 (!toAnd) (truth (eval env a)) (truth (eval env b))) := by
  unfold distribute
  cases hb : splitConn toAnd b with
  | none => simp
  | some pb =>
    obtain ⟨bl, br⟩ := pb
    have eb := splitConn_eval env toAnd b bl br hb
    have hf : ∀ c, eval env (mkConn toAnd (us (flatten1 (mkConn (!toAnd) c bl))) (us (flatten1 (mkConn (!toAnd) c br))))
        = ofB3 (conn3 (!toAnd) (truth (eval env c)) (truth (eval env b))) := by
      intro c
      simp only [eval_mkConn, hus, eval_flatten1, truth_ofB3, eb, conn3_distrib]
    simp only []
    cases ha : splitConn toAnd a with
    | none => simp only []; exact hf a
    | some pa =>
      obtain ⟨al, ar⟩ := pa
      have ea := splitConn_eval env toAnd a al ar ha
      simp only [eval_rawConn, hf, truth_ofB3, ea]
      rw [conn3_distrib_r]

theorem distTop_sound (us : E → E) (hus : ∀ e env, eval env (us e) = eval env e) (dnf : Bool) (e : E) (env : Env) :
    eval env (distTop us dnf e) = eval env e := by
  unfold distTop
  cases hs : splitConn dnf e with
  | none => rfl
  | some p =>
    obtain ⟨a0, b0⟩ := p
    have ee := splitConn_eval env dnf e a0 b0 hs
    simp only []
    have hd : ∀ x y, eval env x = eval env a0 → eval env y = eval env b0 →
        eval env (distribute us (!dnf) x y) = eval env e := by
      intro x y hx hy
      rw [distribute_sound us hus, ee, hx, hy]; simp
    have hd' : ∀ x y, eval env x = eval env a0 → eval env y = eval env b0 →
        eval env (distribute us (!dnf) y x) = eval env e := by
      intro x y hx hy
      rw [distribute_sound us hus, ee, hx, hy]; simp [conn3_comm dnf]
    repeat' split
    all_goals first | rfl | exact hd _ _ (eval_unnest env a0) (eval_unnest env b0) | exact hd' _ _ (eval_unnest env a0) (eval_unnest env b0)


theorem distLaw_all (us : E → E) (hus : ∀ e env, eval env (us e) = eval env e) (dnf : Bool) (env : Env) : ∀ e : E,
    eval env (distLaw us dnf e) = eval env e ∧
    (∀ v, evalIn env v (distLawL us dnf e) = evalIn env v e) ∧
    evalCoalesce env (distLawL us dnf e) = evalCoalesce env e ∧
    evalCase env (distLawIfs us dnf e) = evalCase env e ∧
    (∀ c t f, e = .iff c t f → eval env (distLaw us dnf c) = eval env c ∧ eval env (distLaw us dnf t) = eval env t) := by
  intro e
  induction e with
  | and a b iha ihb =>
    refine ⟨?_, by intro v; simp [distLawL], by simp [distLawL], by simp [distLawIfs], by intro c t f h; cases h⟩
    simp only [distLaw]; split
    · rfl
    · rw [distTop_sound us hus]; simp [eval, iha.1, ihb.1]
  | or a b iha ihb =>
    refine ⟨?_, by intro v; simp [distLawL], by simp [distLawL], by simp [distLawIfs], by intro c t f h; cases h⟩
    simp only [distLaw]; split
    · rfl
    · rw [distTop_sound us hus]; simp [eval, iha.1, ihb.1]
  | cons h t ihh iht =>
    refine ⟨by simp [distLaw], ?_, ?_, ?_, by intro c t f h; cases h⟩
    · intro v; simp [distLawL, evalIn, ihh.1, iht.2.1 v]
    · simp [distLawL, evalCoalesce, ihh.1, iht.2.2.1]
    · cases h with
      | iff c t' f =>
        obtain ⟨hc, ht⟩ := ihh.2.2.2.2 c t' f rfl
        simp [distLawIfs, evalCase, hc, ht, iht.2.2.2.1]
      | _ => simp [distLawIfs, evalCase, iht.2.2.2.1]
  | iff c t f ihc iht ihf =>
    refine ⟨by simp [distLaw, eval, ihc.1, iht.1, ihf.1], by intro v; simp [distLawL], by simp [distLawL], by simp [distLawIfs], ?_⟩
    intro c' t' f' h; cases h; exact ⟨ihc.1, iht.1⟩
  | inList a xs iha ihxs =>
    exact ⟨by simp [distLaw, eval, iha.1, ihxs.2.1], by intro v; simp [distLawL], by simp [distLawL], by simp [distLawIfs], by intro c t f h; cases h⟩
  | coalesce xs ihxs =>
    exact ⟨by simp [distLaw, eval, ihxs.2.2.1], by intro v; simp [distLawL], by simp [distLawL], by simp [distLawIfs], by intro c t f h; cases h⟩
  | case ifs d ihi ihd =>
    exact ⟨by simp [distLaw, eval, ihi.2.2.2.1, ihd.1], by intro v; simp [distLawL], by simp [distLawL], by simp [distLawIfs], by intro c t f h; cases h⟩
  | not a iha =>
    exact ⟨by simp [distLaw, eval, iha.1], by intro v; simp [distLawL], by simp [distLawL], by simp [distLawIfs], by intro c t f h; cases h⟩
  | paren a iha =>
    exact ⟨by simp [distLaw, eval, iha.1], by intro v; simp [distLawL], by simp [distLawL], by simp [distLawIfs], by intro c t f h; cases h⟩
  | neg a iha =>
    exact ⟨by simp [distLaw, eval, iha.1], by intro v; simp [distLawL], by simp [distLawL], by simp [distLawIfs], by intro c t f h; cases h⟩
  | cmp op a b iha ihb =>
    exact ⟨by simp [distLaw, eval, iha.1, ihb.1], by intro v; simp [distLawL], by simp [distLawL], by simp [distLawIfs], by intro c t f h; cases h⟩
  | is a b iha _ =>
    exact ⟨by simp [distLaw, eval, iha.1], by intro v; simp [distLawL], by simp [distLawL], by simp [distLawIfs], by intro c t f h; cases h⟩
  | add a b iha ihb =>
    exact ⟨by simp [distLaw, eval, iha.1, ihb.1], by intro v; simp [distLawL], by simp [distLawL], by simp [distLawIfs], by intro c t f h; cases h⟩
  | sub a b iha ihb =>
    exact ⟨by simp [distLaw, eval, iha.1, ihb.1], by intro v; simp [distLawL], by simp [distLawL], by simp [distLawIfs], by intro c t f h; cases h⟩
  | mul a b iha ihb =>
    exact ⟨by simp [distLaw, eval, iha.1, ihb.1], by intro v; simp [distLawL], by simp [distLawL], by simp [distLawIfs], by intro c t f h; cases h⟩
  | between a lo hi iha ihl ihh =>
    exact ⟨by simp [distLaw, eval, iha.1, ihl.1, ihh.1], by intro v; simp [distLawL], by simp [distLawL], by simp [distLawIfs], by intro c t f h; cases h⟩
  | _ =>
    exact ⟨by simp [distLaw], by intro v; simp [distLawL], by simp [distLawL], by simp [distLawIfs], by intro c t f h; cases h⟩


/-! ### propagate_constants -/
/-- the environment gives every bound column the value of its constant -/
def Agree (env : Env) (m : List (E × Int)) : Prop := ∀ c n, (c, n) ∈ m → eval env c = .i n

theorem lookupB_mem (m : List (E × Int)) (c : E) (n : Int) (h : lookupB m c = some n) : (c, n) ∈ m := by
  induction m with
  | nil => simp [lookupB] at h
  | cons p rest ih =>
    obtain ⟨c', n'⟩ := p
    simp only [lookupB] at h
    split at h
    · rename_i hc; cases h; subst hc; exact List.mem_cons_self ..
    · exact List.mem_cons_of_mem _ (ih h)

theorem substAll_col (env : Env) (m : List (E × Int)) (hA : Agree env m) (c : E) (hc : isColumn c = true) :
    eval env (substAll m c) = eval env c := by
  cases c <;> simp [isColumn] at hc <;> simp only [substAll] <;> split <;>
    first | rfl | (rename_i n h; rw [hA _ n (lookupB_mem m _ n h)]; rfl)

theorem substAll_all (env : Env) (m : List (E × Int)) (hA : Agree env m) : ∀ e : E,
    eval env (substAll m e) = eval env e ∧
    (∀ v, evalIn env v (substAll m e) = evalIn env v e) ∧
    evalCoalesce env (substAll m e) = evalCoalesce env e ∧
    evalCase env (substAll m e) = evalCase env e ∧
    (∀ c t f, e = .iff c t f → eval env (substAll m c) = eval env c ∧ eval env (substAll m t) = eval env t) := by
  intro e
  induction e with
  | bcol k nn =>
    refine ⟨substAll_col env m hA _ rfl, ?_, ?_, ?_, by intro c t f h; cases h⟩ <;>
      (try intro v) <;> simp only [substAll] <;> split <;> simp [evalIn, evalCoalesce, evalCase]
  | icol k nn =>
    refine ⟨substAll_col env m hA _ rfl, ?_, ?_, ?_, by intro c t f h; cases h⟩ <;>
      (try intro v) <;> simp only [substAll] <;> split <;> simp [evalIn, evalCoalesce, evalCase]
  | is a b iha _ =>
    refine ⟨?_, ?_, ?_, ?_, by intro c t f h; cases h⟩ <;> (try intro v) <;> simp only [substAll] <;> split <;>
      simp [eval, iha.1, evalIn, evalCoalesce, evalCase]
  | cons h t ihh iht =>
    refine ⟨by simp [substAll, eval], ?_, ?_, ?_, by intro c t f h; cases h⟩
    · intro v; simp [substAll, evalIn, ihh.1, iht.2.1 v]
    · simp [substAll, evalCoalesce, ihh.1, iht.2.2.1]
    · cases h with
      | iff c t' f =>
        obtain ⟨hc, ht⟩ := ihh.2.2.2.2 c t' f rfl
        simp [substAll, evalCase, hc, ht, iht.2.2.2.1]
      | bcol k nn => simp only [substAll]; split <;> simp [evalCase, iht.2.2.2.1]
      | icol k nn => simp only [substAll]; split <;> simp [evalCase, iht.2.2.2.1]
      | is a b => simp only [substAll]; split <;> simp [evalCase, iht.2.2.2.1]
      | _ => simp [substAll, evalCase, iht.2.2.2.1]
  | iff c t f ihc iht ihf =>
    refine ⟨by simp [substAll, eval, ihc.1, iht.1, ihf.1], by intro v; simp [substAll, evalIn], by simp [substAll, evalCoalesce], by simp [substAll, evalCase], ?_⟩
    intro c' t' f' h; cases h; exact ⟨ihc.1, iht.1⟩
  | and a b iha ihb =>
    exact ⟨by simp [substAll, eval, iha.1, ihb.1], by intro v; simp [substAll, evalIn], by simp [substAll, evalCoalesce], by simp [substAll, evalCase], by intro c t f h; cases h⟩
  | or a b iha ihb =>
    exact ⟨by simp [substAll, eval, iha.1, ihb.1], by intro v; simp [substAll, evalIn], by simp [substAll, evalCoalesce], by simp [substAll, evalCase], by intro c t f h; cases h⟩
  | not a iha =>
    exact ⟨by simp [substAll, eval, iha.1], by intro v; simp [substAll, evalIn], by simp [substAll, evalCoalesce], by simp [substAll, evalCase], by intro c t f h; cases h⟩
  | paren a iha =>
    exact ⟨by simp [substAll, eval, iha.1], by intro v; simp [substAll, evalIn], by simp [substAll, evalCoalesce], by simp [substAll, evalCase], by intro c t f h; cases h⟩
  | neg a iha =>
    exact ⟨by simp [substAll, eval, iha.1], by intro v; simp [substAll, evalIn], by simp [substAll, evalCoalesce], by simp [substAll, evalCase], by intro c t f h; cases h⟩
  | cmp op a b iha ihb =>
    exact ⟨by simp [substAll, eval, iha.1, ihb.1], by intro v; simp [substAll, evalIn], by simp [substAll, evalCoalesce], by simp [substAll, evalCase], by intro c t f h; cases h⟩
  | add a b iha ihb =>
    exact ⟨by simp [substAll, eval, iha.1, ihb.1], by intro v; simp [substAll, evalIn], by simp [substAll, evalCoalesce], by simp [substAll, evalCase], by intro c t f h; cases h⟩
  | sub a b iha ihb =>
    exact ⟨by simp [substAll, eval, iha.1, ihb.1], by intro v; simp [substAll, evalIn], by simp [substAll, evalCoalesce], by simp [substAll, evalCase], by intro c t f h; cases h⟩
  | mul a b iha ihb =>
    exact ⟨by simp [substAll, eval, iha.1, ihb.1], by intro v; simp [substAll, evalIn], by simp [substAll, evalCoalesce], by simp [substAll, evalCase], by intro c t f h; cases h⟩
  | between a lo hi iha ihl ihh =>
    exact ⟨by simp [substAll, eval, iha.1, ihl.1, ihh.1], by intro v; simp [substAll, evalIn], by simp [substAll, evalCoalesce], by simp [substAll, evalCase], by intro c t f h; cases h⟩
  | inList a xs iha ihxs =>
    exact ⟨by simp [substAll, eval, iha.1, ihxs.2.1], by intro v; simp [substAll, evalIn], by simp [substAll, evalCoalesce], by simp [substAll, evalCase], by intro c t f h; cases h⟩
  | coalesce xs ihxs =>
    exact ⟨by simp [substAll, eval, ihxs.2.2.1], by intro v; simp [substAll, evalIn], by simp [substAll, evalCoalesce], by simp [substAll, evalCase], by intro c t f h; cases h⟩
  | case ifs d ihi ihd =>
    exact ⟨by simp [substAll, eval, ihi.2.2.2.1, ihd.1], by intro v; simp [substAll, evalIn], by simp [substAll, evalCoalesce], by simp [substAll, evalCase], by intro c t f h; cases h⟩
  | _ =>
    exact ⟨by simp [substAll], by intro v; simp [substAll], by simp [substAll], by simp [substAll], by intro c t f h; cases h⟩


theorem substSpine_sound (env : Env) (m : List (E × Int)) (hA : Agree env m) : ∀ e, eval env (substSpine m e) = eval env e := by
  intro e
  induction e with
  | and a b iha ihb => simp [substSpine, eval, iha, ihb]
  | paren a iha => simp [substSpine, eval, iha]
  | cmp op a b _ _ =>
    cases op <;> cases b <;> simp only [substSpine] <;>
      first | exact (substAll_all env m hA _).1 | (split <;> first | rfl | exact (substAll_all env m hA _).1)
  | _ => simp only [substSpine]; exact (substAll_all env m hA _).1

theorem and3_eq_true (x y : B3) (h : and3 x y = some true) : x = some true ∧ y = some true := by
  rcases x with _ | _ | _ <;> rcases y with _ | _ | _ <;> simp [and3] at h ⊢

def isIcol : E → Bool
  | .icol _ _ => true
  | _ => false

theorem eq_true_icol (env : Env) (c : E) (n : Int) (hc : isIcol c = true)
    (h : truth (eval env (.cmp .eq c (.int n))) = some true) : eval env c = .i n := by
  cases c <;> simp [isIcol] at hc
  rename_i k nn
  simp only [eval] at h ⊢
  cases hk : env.i k <;> simp [hk] at h ⊢
  · cases nn <;> simp [cmpVal, toInt?, truth, Cmp.test] at h ⊢ <;> omega
  · simp [cmpVal, toInt?, truth, Cmp.test] at h; exact h

/-- (B) when the AND is TRUE every `column = literal` conjunct holds -/
theorem bindings_true (env : Env) : ∀ e, truth (eval env e) = some true →
    ∀ c n, (c, n) ∈ conjBindings e → isIcol c = true → eval env c = .i n := by
  intro e
  induction e with
  | and a b iha ihb =>
    intro h c n hm hc
    simp only [eval, truth_ofB3] at h
    obtain ⟨h1, h2⟩ := and3_eq_true _ _ h
    simp only [conjBindings, List.mem_append] at hm
    rcases hm with hm | hm
    · exact iha h1 c n hm hc
    · exact ihb h2 c n hm hc
  | paren a iha => intro h c n hm hc; exact iha (by simpa [eval] using h) c n (by simpa [conjBindings] using hm) hc
  | cmp op a b _ _ =>
    intro h c n hm hc
    cases op <;> cases b <;> simp [conjBindings] at hm
    obtain ⟨_, h1, h2⟩ := hm; subst h1; subst h2
    exact eq_true_icol env c n hc h
  | _ => intro h c n hm; simp [conjBindings] at hm

/-- (C) the defining conjuncts survive the substitution -/
theorem conjBindings_subset (m : List (E × Int)) : ∀ e p, p ∈ conjBindings e → p ∈ conjBindings (substSpine m e) := by
  intro e
  induction e with
  | and a b iha ihb =>
    intro p hp
    simp only [conjBindings, substSpine, List.mem_append] at hp ⊢
    rcases hp with hp | hp
    · exact Or.inl (iha p hp)
    · exact Or.inr (ihb p hp)
  | paren a iha => intro p hp; simpa [conjBindings, substSpine] using iha p (by simpa [conjBindings] using hp)
  | cmp op a b _ _ =>
    intro p hp
    cases op <;> cases b <;> simp [conjBindings] at hp
    obtain ⟨hc, hp⟩ := hp
    simp [substSpine, hc, conjBindings, hp]
  | _ => intro p hp; simp [conjBindings] at hp

theorem and3_false_l (x y : B3) (h : x = some false) : and3 x y = some false := by subst h; rfl
theorem and3_false_r (x y : B3) (h : y = some false) : and3 x y = some false := by subst h; exact and3_false x

/-- (D) a false `column = literal` conjunct makes the AND false -/
theorem binding_false (env : Env) : ∀ e c n, (c, n) ∈ conjBindings e →
    truth (eval env (.cmp .eq c (.int n))) = some false → truth (eval env e) = some false := by
  intro e
  induction e with
  | and a b iha ihb =>
    intro c n hm h
    simp only [conjBindings, List.mem_append] at hm
    simp only [eval, truth_ofB3]
    rcases hm with hm | hm
    · exact and3_false_l _ _ (iha c n hm h)
    · exact and3_false_r _ _ (ihb c n hm h)
  | paren a iha => intro c n hm h; simpa [eval] using iha c n (by simpa [conjBindings] using hm) h
  | cmp op a b _ _ =>
    intro c n hm h
    cases op <;> cases b <;> simp [conjBindings] at hm
    obtain ⟨_, h1, h2⟩ := hm; subst h1; subst h2; exact h
  | _ => intro c n hm; simp [conjBindings] at hm


theorem icol_val (env : Env) (c : E) (hc : isIcol c = true) (hn : eval env c ≠ .null) : ∃ v, eval env c = .i v := by
  cases c <;> simp [isIcol] at hc
  rename_i k nn
  simp only [eval] at hn ⊢
  cases hk : env.i k with
  | some v => exact ⟨v, rfl⟩
  | none => cases nn <;> simp [hk] at hn ⊢

/-- WHERE-equivalence of the substitution along the spine -/
theorem substSpine_where (env : Env) (e : E) (hI : ∀ c n, (c, n) ∈ conjBindings e → isIcol c = true) :
    (truth (eval env (substSpine (conjBindings e) e)) = some true ↔ truth (eval env e) = some true) := by
  constructor
  · intro h
    have hA : Agree env (conjBindings e) := fun c n hm =>
      bindings_true env _ h c n (conjBindings_subset (conjBindings e) e _ hm) (hI c n hm)
    rwa [substSpine_sound env _ hA] at h
  · intro h
    have hA : Agree env (conjBindings e) := fun c n hm => bindings_true env e h c n hm (hI c n hm)
    rwa [substSpine_sound env _ hA]

/-- value equality when no bound column is NULL -/
theorem substSpine_nonnull (env : Env) (a b : E) (hI : ∀ c n, (c, n) ∈ conjBindings (.and a b) → isIcol c = true)
    (hnn : ∀ c n, (c, n) ∈ conjBindings (.and a b) → eval env c ≠ .null) :
    eval env (substSpine (conjBindings (.and a b)) (.and a b)) = eval env (.and a b) := by
  by_cases hA : Agree env (conjBindings (.and a b))
  · exact substSpine_sound env _ hA _
  · unfold Agree at hA
    obtain ⟨c, hA⟩ := Classical.not_forall.mp hA
    obtain ⟨n, hA⟩ := Classical.not_forall.mp hA
    obtain ⟨hm, hne⟩ := Classical.not_imp.mp hA
    obtain ⟨v, hv⟩ := icol_val env c (hI c n hm) (hnn c n hm)
    have hvn : v ≠ n := by intro h; subst h; exact hne hv
    have hf : truth (eval env (.cmp .eq c (.int n))) = some false := by
      simp [eval, hv, cmpVal, toInt?, truth, Cmp.test, hvn]
    have h1 := binding_false env (.and a b) c n hm hf
    have h2 := binding_false env (substSpine (conjBindings (.and a b)) (.and a b)) c n (conjBindings_subset _ _ _ hm) hf
    have b1 := boolish_val env (.and a b) rfl
    have b2 := boolish_val env (substSpine (conjBindings (.and a b)) (.and a b)) rfl
    rw [← b1, ← b2, h1, h2]


/-! ### uniq_sort / remove_complements: folds over operand sets -/
def all3 (l : List B3) : B3 := l.foldr and3 (some true)
def any3 (l : List B3) : B3 := l.foldr or3 (some false)

theorem all3_char (l : List B3) :
    all3 l = if some false ∈ l then some false else if none ∈ l then none else some true := by
  induction l with
  | nil => simp [all3]
  | cons x xs ih =>
    have : all3 (x :: xs) = and3 x (all3 xs) := rfl
    rw [this, ih]
    rcases x with _ | _ | _ <;> by_cases h1 : some false ∈ xs <;> by_cases h2 : none ∈ xs <;> simp [h1, h2, and3]

theorem any3_char (l : List B3) :
    any3 l = if some true ∈ l then some true else if none ∈ l then none else some false := by
  induction l with
  | nil => simp [any3]
  | cons x xs ih =>
    have : any3 (x :: xs) = or3 x (any3 xs) := rfl
    rw [this, ih]
    rcases x with _ | _ | _ <;> by_cases h1 : some true ∈ xs <;> by_cases h2 : none ∈ xs <;> simp [h1, h2, or3]

theorem all3_congr (l1 l2 : List B3) (h : ∀ v, v ∈ l1 ↔ v ∈ l2) : all3 l1 = all3 l2 := by
  rw [all3_char, all3_char]; simp only [h]
theorem any3_congr (l1 l2 : List B3) (h : ∀ v, v ∈ l1 ↔ v ∈ l2) : any3 l1 = any3 l2 := by
  rw [any3_char, any3_char]; simp only [h]

theorem foldSem_and_eq (sem : E → B3) (xs : List E) : foldSem and3 (some true) sem xs = all3 (xs.map sem) := by
  induction xs with
  | nil => rfl
  | cons x xs ih =>
    have : foldSem and3 (some true) sem (x :: xs) = and3 (sem x) (foldSem and3 (some true) sem xs) := rfl
    rw [this, ih]; rfl
theorem foldSem_or_eq (sem : E → B3) (xs : List E) : foldSem or3 (some false) sem xs = any3 (xs.map sem) := by
  induction xs with
  | nil => rfl
  | cons x xs ih =>
    have : foldSem or3 (some false) sem (x :: xs) = or3 (sem x) (foldSem or3 (some false) sem xs) := rfl
    rw [this, ih]; rfl

theorem sameSet_mem (xs ys : List E) (h : sameSet xs ys = true) (sem : E → B3) :
    ∀ v, v ∈ xs.map sem ↔ v ∈ ys.map sem := by
  simp only [sameSet, Bool.and_eq_true, List.all_eq_true, List.contains_iff_mem] at h
  intro v
  simp only [List.mem_map]
  constructor
  · rintro ⟨x, hx, rfl⟩; exact ⟨x, h.1 x hx, rfl⟩
  · rintro ⟨y, hy, rfl⟩; exact ⟨y, h.2 y hy, rfl⟩

/-- polarity-generic 3-valued fold -/
def opK (k : FK) : B3 → B3 → B3 := match k with | .and => and3 | _ => or3
def unitK (k : FK) : B3 := match k with | .and => some true | _ => some false

theorem foldSem_sameSet (k : FK) (hk : k = .and ∨ k = .or) (sem : E → B3) (xs ys : List E) (h : sameSet xs ys = true) :
    foldSem (opK k) (unitK k) sem xs = foldSem (opK k) (unitK k) sem ys := by
  rcases hk with rfl | rfl
  · show foldSem and3 (some true) sem xs = foldSem and3 (some true) sem ys
    rw [foldSem_and_eq, foldSem_and_eq]; exact all3_congr _ _ (sameSet_mem xs ys h sem)
  · show foldSem or3 (some false) sem xs = foldSem or3 (some false) sem ys
    rw [foldSem_or_eq, foldSem_or_eq]; exact any3_congr _ _ (sameSet_mem xs ys h sem)

theorem opK_assoc (k : FK) (hk : k = .and ∨ k = .or) (a b c : B3) : opK k (opK k a b) c = opK k a (opK k b c) := by
  rcases hk with rfl | rfl
  · exact and3_assoc a b c
  · exact or3_assoc a b c
theorem opK_comm (k : FK) (hk : k = .and ∨ k = .or) (a b : B3) : opK k a b = opK k b a := by
  rcases hk with rfl | rfl
  · exact and3_comm a b
  · exact or3_comm a b
theorem opK_unit (k : FK) (hk : k = .and ∨ k = .or) (a : B3) : opK k (unitK k) a = a := by
  rcases hk with rfl | rfl
  · exact true_and3 a
  · exact false_or3 a

theorem connKind_conn (e : E) (k : FK) (h : connKind e = some k) : k = .and ∨ k = .or := by
  cases e <;> simp [connKind] at h <;> simp [← h]

theorem mk_sem (env : Env) (k : FK) (hk : k = .and ∨ k = .or) (a b : E) :
    truth (eval env (k.mk a b)) = opK k (truth (eval env a)) (truth (eval env b)) := by
  rcases hk with rfl | rfl <;> simp [FK.mk, eval, opK]

/-- the chain of a connector evaluates to the fold of its (unnested) operands -/
theorem flattenU_sound (env : Env) (e : E) (k : FK) (h : connKind e = some k) :
    foldSem (opK k) (unitK k) (fun x => truth (eval env x)) (flattenU k e) = truth (eval env e) := by
  have hk := connKind_conn e k h
  have key : ∀ e', foldSem (opK k) (unitK k) (fun x => truth (eval env x)) (flattenU k e') = truth (eval env e') := by
    intro e'
    induction e' with
    | and a b iha ihb =>
      rcases hk with rfl | rfl
      · simp only [flattenU]
        rw [foldSem_append _ _ _ (opK_assoc .and (Or.inl rfl)) (opK_unit .and (Or.inl rfl)), iha, ihb]
        simp [eval, opK]
      · simp only [flattenU, unnest]
        exact foldSem_single _ _ _ (opK_assoc .or (Or.inr rfl)) (opK_comm .or (Or.inr rfl)) (opK_unit .or (Or.inr rfl)) _
    | or a b iha ihb =>
      rcases hk with rfl | rfl
      · simp only [flattenU, unnest]
        exact foldSem_single _ _ _ (opK_assoc .and (Or.inl rfl)) (opK_comm .and (Or.inl rfl)) (opK_unit .and (Or.inl rfl)) _
      · simp only [flattenU]
        rw [foldSem_append _ _ _ (opK_assoc .or (Or.inr rfl)) (opK_unit .or (Or.inr rfl)), iha, ihb]
        simp [eval, opK]
    | _ =>
      rcases hk with rfl | rfl <;> simp only [flattenU] <;>
        (rw [foldSem_single _ _ _ (opK_assoc _ (by simp)) (opK_comm _ (by simp)) (opK_unit _ (by simp))]; simp)
  exact key e

theorem mkChain_sound (env : Env) (k : FK) (hk : k = .and ∨ k = .or) (xs : List E) :
    truth (eval env (mkChain k xs)) = foldSem (opK k) (unitK k) (fun x => truth (eval env x)) xs := by
  have A := opK_assoc k hk; have C := opK_comm k hk; have U := opK_unit k hk
  cases xs with
  | nil => rcases hk with rfl | rfl <;> rfl
  | cons x rest =>
    cases rest with
    | nil => simp only [mkChain]; exact (foldSem_single (opK k) (unitK k) (fun x => truth (eval env x)) A C U x).symm
    | cons y ys =>
      simp only [mkChain]
      have hmk : ∀ a b, (fun x => truth (eval env x)) ((fun acc y => k.mk acc (wrapConn y)) a b)
          = opK k ((fun x => truth (eval env x)) a) ((fun x => truth (eval env x)) b) := by
        intro a b; simp only []; rw [mk_sem env k hk]; simp
      have := reduce_sound (opK k) (unitK k) (fun x => truth (eval env x)) A C U _ hmk (y :: ys) (wrapConn x)
      rw [this]; simp only [eval_wrapConn]; rfl

/-- uniq_sort: any duplicate-free rearrangement of the operands of an AND / OR chain keeps the 3-valued truth value -/
theorem uniqSortWith_sound (order : List E) (gate : Bool) (e : E) (env : Env) :
    truth (eval env (uniqSortWith order gate e)) = truth (eval env e) := by
  unfold uniqSortWith
  cases hk : connKind e with
  | none => rfl
  | some k =>
    have hkk := connKind_conn e k hk
    simp only []
    split; · rfl
    split; · rfl
    split; · rfl
    rename_i hs
    simp only [Bool.not_eq_true, Bool.not_eq_false'] at hs
    have hss : sameSet order (flattenU k e) = true := by
      cases h : sameSet order (flattenU k e) <;> simp_all
    have hf := foldSem_sameSet k hkk (fun x => truth (eval env x)) order (flattenU k e) hss
    rw [flattenU_sound env e k hk] at hf
    split
    · rename_i x0 _
      rw [← hf]
      have e1 : truth (eval env (mkAnd x0 (.bool true))) = truth (eval env x0) := by
        rw [eval_mkAnd, truth_ofB3]; show and3 _ (some true) = _; exact and3_true _
      rw [e1]
      exact (foldSem_single (opK k) (unitK k) (fun x => truth (eval env x)) (opK_assoc k hkk) (opK_comm k hkk) (opK_unit k hkk) x0).symm
    · rw [mkChain_sound env k hkk, hf]

theorem mem_false_all3 (l : List B3) (h : some false ∈ l) : all3 l = some false := by
  rw [all3_char]; simp [h]
theorem mem_true_any3 (l : List B3) (h : some true ∈ l) : any3 l = some true := by
  rw [any3_char]; simp [h]

theorem nonNullE_unnest (e : E) : nonNullE (unnest e) = nonNullE e := by
  induction e <;> simp_all [unnest, nonNullE]

theorem nonNullE_flattenU (k : FK) (e : E) (h : nonNullE e = true) : ∀ x ∈ flattenU k e, nonNullE x = true := by
  induction e with
  | and a b iha ihb =>
    simp only [nonNullE, Bool.and_eq_true] at h
    cases k <;> simp only [flattenU, List.mem_append, List.mem_singleton, unnest]
    · rintro x (hx | hx); exact iha h.1 x hx; exact ihb h.2 x hx
    all_goals (intro x hx; subst hx; simp [nonNullE, h.1, h.2])
  | or a b iha ihb =>
    simp only [nonNullE, Bool.and_eq_true] at h
    cases k <;> simp only [flattenU, List.mem_append, List.mem_singleton, unnest]
    · intro x hx; subst hx; simp [nonNullE, h.1, h.2]
    · rintro x (hx | hx); exact iha h.1 x hx; exact ihb h.2 x hx
    all_goals (intro x hx; subst hx; simp [nonNullE, h.1, h.2])
  | _ =>
    cases k <;> simp only [flattenU, List.mem_singleton] <;> (intro x hx; subst hx; rw [nonNullE_unnest]; exact h)

/-- remove_complements: `A AND NOT A … → FALSE` / `A OR NOT A … → TRUE` is exact when no operand can be NULL
    (what the `nonnull` meta of the connector asserts) -/
theorem removeComplements_sound (gate nonnull : Bool) (e : E) (hn : nonnull = true → nonNullE e = true) (env : Env) :
    eval env (removeComplements gate nonnull e) = eval env e := by
  unfold removeComplements
  cases hk : connKind e with
  | none => rfl
  | some k =>
    have hkk := connKind_conn e k hk
    simp only []
    split; · rfl
    split
    · rename_i hc
      simp only [Bool.and_eq_true, List.any_eq_true] at hc
      obtain ⟨hnn, op, hop, hmatch⟩ := hc
      have hne := hn hnn
      cases op with
      | not x =>
        simp only [List.contains_iff_mem] at hmatch
        have hx := nonNullE_flattenU k e hne x hmatch
        obtain ⟨t, ht⟩ := truth_of_ne_null _ (nonNullE_ne_null env x hx)
        have hfold := flattenU_sound env e k hk
        have hbool : ofB3 (truth (eval env e)) = eval env e := by
          cases e <;> simp [connKind] at hk <;> simp [eval]
        rw [← hbool, ← hfold]
        rcases hkk with rfl | rfl
        · show _ = ofB3 (foldSem and3 (some true) _ _)
          rw [foldSem_and_eq, mem_false_all3]
          · rfl
          · cases t
            · exact List.mem_map.mpr ⟨x, hmatch, ht⟩
            · exact List.mem_map.mpr ⟨.not x, hop, by simp [eval, ht, not3]⟩
        · show _ = ofB3 (foldSem or3 (some false) _ _)
          rw [foldSem_or_eq, mem_true_any3]
          · rfl
          · cases t
            · exact List.mem_map.mpr ⟨.not x, hop, by simp [eval, ht, not3]⟩
            · exact List.mem_map.mpr ⟨x, hmatch, ht⟩
      | _ => simp at hmatch
    · rfl

end SqlglotModel.Simplify
