/-
  Proofs/TreeIter.lean — iterators and finders (C08): what `root`, `depth`, `find_ancestor`, `dfs`/`bfs` compute.
-/
import SqlglotModel.Proofs.Tree

namespace SqlglotModel.Tree

variable {H : Type}

/-! ### the parent chain -/

theorem depth_eq_length : ∀ (f : Nat) (h : Heap H) (n : Id) (anc : List Id), ancestors f h n = some anc →
    depthOf f h n = some anc.length
  | 0, _, _, _, he => by simp [ancestors] at he
  | f + 1, h, n, anc, he => by
    cases hp : (h n).parent with
    | none =>
      simp only [ancestors, hp, Option.some.injEq] at he; subst he
      simp [depthOf, hp]
    | some p =>
      simp only [ancestors, hp] at he
      cases ha : ancestors f h p with
      | none => rw [ha] at he; cases he
      | some a =>
        rw [ha] at he; simp only [Option.map_some, Option.some.injEq] at he; subst he
        simp [depthOf, hp, depth_eq_length f h p a ha]

/-- `root()` is the last node of the parent chain, and it has no parent -/
theorem root_spec : ∀ (f : Nat) (h : Heap H) (n : Id) (anc : List Id), ancestors f h n = some anc →
    ∃ r, rootOf f h n = some r ∧ (h r).parent = none ∧ r = (n :: anc).getLast (by simp)
  | 0, _, _, _, he => by simp [ancestors] at he
  | f + 1, h, n, anc, he => by
    cases hp : (h n).parent with
    | none =>
      simp only [ancestors, hp, Option.some.injEq] at he; subst he
      exact ⟨n, by simp [rootOf, hp], hp, rfl⟩
    | some p =>
      simp only [ancestors, hp] at he
      cases ha : ancestors f h p with
      | none => rw [ha] at he; cases he
      | some a =>
        rw [ha] at he; simp only [Option.map_some, Option.some.injEq] at he; subst he
        obtain ⟨r, h1, h2, h3⟩ := root_spec f h p a ha
        exact ⟨r, by simp [rootOf, hp, h1], h2, by rw [h3]; simp [List.getLast_cons]⟩

/-- `find_ancestor` returns the NEAREST ancestor of the wanted class (the first one on the parent chain), or None -/
theorem findAncestor_nearest (P : String → Bool) : ∀ (f : Nat) (h : Heap H) (n : Id) (anc : List Id),
    ancestors f h n = some anc → opFindAncestor P f h n = some (anc.find? (fun a => P (h a).cls))
  | 0, _, _, _, he => by simp [ancestors] at he
  | f + 1, h, n, anc, he => by
    unfold opFindAncestor
    cases hp : (h n).parent with
    | none =>
      simp only [ancestors, hp, Option.some.injEq] at he; subst he
      simp [findAncestorLoop]
    | some p =>
      simp only [ancestors, hp] at he
      cases ha : ancestors f h p with
      | none => rw [ha] at he; cases he
      | some a =>
        rw [ha] at he; simp only [Option.map_some, Option.some.injEq] at he; subst he
        simp only [findAncestorLoop, List.find?_cons]
        cases hP : P (h p).cls with
        | true => simp
        | false =>
          simp only [Bool.false_eq_true, if_false]
          have := findAncestor_nearest P f h p a ha
          unfold opFindAncestor at this
          exact this

/-- under the invariant the parent chain of an attached node is its chain of storage parents -/
theorem parent_is_storage_parent (F : HashFns H) {h : Heap H} (hI : Inv F h) {p c : Id} {k : String} {i : Option Nat}
    (hs : Stored h p k i c) : (h c).parent = some p := by
  have := hI.links p k i c hs
  simp only [ptrs, Prod.mk.injEq] at this
  exact this.1

/-! ### dfs / bfs -/

/-- reachable from `r` through nodes that are not pruned -/
inductive ReachP (h : Heap H) (prune : Id → Bool) (r : Id) : Id → Prop where
  | refl : ReachP h prune r r
  | step {p c : Id} : ReachP h prune r p → prune p = false → c ∈ childIds (h p).args → ReachP h prune r c

theorem mem_sched {bfs : Bool} {st kids : List Id} {x : Id} :
    x ∈ (if bfs then st ++ kids else kids ++ st) ↔ x ∈ st ∨ x ∈ kids := by
  cases bfs <;> simp [List.mem_append, or_comm]

theorem walkLoop_nil (bfs : Bool) (prune : Id → Bool) (f : Nat) (h : Heap H) (acc : List Id) :
    walkLoop bfs prune f h [] acc = some acc.reverse := by cases f <;> rfl

theorem walk_sound {bfs : Bool} {prune : Id → Bool} {h : Heap H} {r : Id} : ∀ (f : Nat) (st acc res : List Id),
    walkLoop bfs prune f h st acc = some res → (∀ x, x ∈ st → ReachP h prune r x) → (∀ x, x ∈ acc → ReachP h prune r x) →
    ∀ x, x ∈ res → ReachP h prune r x
  | f, [], acc, res, he, _, ha => by
    rw [walkLoop_nil] at he
    simp only [Option.some.injEq] at he; subst he
    intro x hx; exact ha x (by simpa using hx)
  | 0, _ :: _, _, _, he, _, _ => by simp [walkLoop] at he
  | f + 1, n :: st, acc, res, he, hst, ha => by
    simp only [walkLoop] at he
    refine walk_sound f _ (n :: acc) res he ?_ ?_
    · intro x hx
      rcases mem_sched.mp hx with h1 | h1
      · exact hst x (List.mem_cons_of_mem _ h1)
      · split at h1
        · cases h1
        · next hp => exact .step (hst n (by simp)) (by simpa using hp) h1
    · intro x hx
      rcases List.mem_cons.mp hx with e | e
      · subst e; exact hst x (by simp)
      · exact ha x e

theorem walk_complete {bfs : Bool} {prune : Id → Bool} {h : Heap H} : ∀ (f : Nat) (st acc res : List Id),
    walkLoop bfs prune f h st acc = some res →
    (∀ p, p ∈ acc → prune p = false → ∀ c, c ∈ childIds (h p).args → c ∈ acc ∨ c ∈ st) →
    (∀ x, x ∈ acc ∨ x ∈ st → x ∈ res) ∧
    (∀ p, p ∈ res → prune p = false → ∀ c, c ∈ childIds (h p).args → c ∈ res)
  | f, [], acc, res, he, hcl => by
    rw [walkLoop_nil] at he
    simp only [Option.some.injEq] at he; subst he
    refine ⟨?_, ?_⟩
    · intro x hx
      rcases hx with h1 | h1
      · simpa using h1
      · cases h1
    · intro p hp hpr c hc
      rcases hcl p (by simpa using hp) hpr c hc with h1 | h1
      · simpa using h1
      · cases h1
  | 0, _ :: _, _, _, he, _ => by simp [walkLoop] at he
  | f + 1, n :: st, acc, res, he, hcl => by
    simp only [walkLoop] at he
    obtain ⟨r1, r2⟩ := walk_complete f _ (n :: acc) res he (by
      intro p hp hpr c hc
      rcases List.mem_cons.mp hp with e | e
      · subst e
        right
        exact mem_sched.mpr (.inr (by simp [hpr]; exact hc))
      · rcases hcl p e hpr c hc with h1 | h1
        · exact .inl (List.mem_cons_of_mem _ h1)
        · rcases List.mem_cons.mp h1 with e' | e'
          · subst e'; exact .inl (by simp)
          · exact .inr (mem_sched.mpr (.inl e')))
    refine ⟨?_, r2⟩
    intro x hx
    rcases hx with h1 | h1
    · exact r1 x (.inl (List.mem_cons_of_mem _ h1))
    · rcases List.mem_cons.mp h1 with e | e
      · subst e; exact r1 x (.inl (by simp))
      · exact r1 x (.inr (mem_sched.mpr (.inl e)))

/-- **`dfs` / `bfs` / `walk` with `prune` enumerate exactly the nodes reachable through non-pruned nodes** -/
theorem walk_exact {bfs : Bool} {prune : Id → Bool} {h : Heap H} {fuel : Nat} {root : Id} {res : List Id}
    (he : opWalk bfs prune fuel h root = some res) : ∀ x, x ∈ res ↔ ReachP h prune root x := by
  unfold opWalk at he
  intro x
  constructor
  · exact walk_sound fuel [root] [] res he (fun y hy => by simp at hy; subst hy; exact .refl) (fun y hy => by cases hy) x
  · obtain ⟨r1, r2⟩ := walk_complete fuel [root] [] res he (fun p hp => by cases hp)
    intro hr
    induction hr with
    | refl => exact r1 root (.inr (by simp))
    | step _ hpr hc ih => exact r2 _ ih hpr _ hc

/-- `find_all(types)`: exactly the reachable nodes of the wanted classes -/
theorem findAll_exact {bfs : Bool} {P : String → Bool} {h : Heap H} {fuel : Nat} {root : Id} {res : List Id}
    (he : opFindAll bfs P fuel h root = some res) :
    ∀ x, x ∈ res ↔ ReachP h (fun _ => false) root x ∧ P (h x).cls = true := by
  unfold opFindAll at he
  cases hw : opWalk bfs (fun _ => false) fuel h root with
  | none => rw [hw] at he; cases he
  | some w =>
    rw [hw] at he; simp only [Option.map_some, Option.some.injEq] at he; subst he
    intro x
    rw [List.mem_filter, walk_exact hw x]

/-- `unnest()` never returns a `Paren` -/
theorem unnest_not_paren : ∀ (f : Nat) (h : Heap H) (n r : Id), unnestOf f h n = some (some r) → (h r).cls ≠ "paren"
  | 0, _, _, _, he => by simp [unnestOf] at he
  | f + 1, h, n, r, he => by
    simp only [unnestOf] at he
    split at he
    · split at he
      · exact unnest_not_paren f h _ r he
      · cases he
    · next hc => simp only [Option.some.injEq] at he; subst he; exact hc

end SqlglotModel.Tree
