/-
  Proofs/TreeCopy.lean — the iterative `__deepcopy__` (C08 `inv_copy`, C09 `copy_equal_disjoint`).
-/
import SqlglotModel.Proofs.TreeFrame

namespace SqlglotModel.Tree

variable {H : Type}

/-! ### small facts about the primitives used by the copy loop -/

/-- the invalidation loop never writes a cell whose hash is already `None` -/
theorem inval_untouched : ∀ (fuel : Nat) (h : Heap H) (cur : Option Id) (h' : Heap H),
    inval fuel h cur = some h' → ∀ m, (h m).hash = none → h' m = h m
  | _, h, none, h', he, m, _ => by simp only [inval, Option.some.injEq] at he; subst he; rfl
  | 0, h, some n, h', he, _, _ => by simp [inval] at he
  | f + 1, h, some n, h', he, m, hm => by
    simp only [inval] at he
    split at he
    · simp only [Option.some.injEq] at he; subst he; rfl
    · next y hy =>
      have hmn : m ≠ n := by intro e; subst e; rw [hm] at hy; cases hy
      have := inval_untouched f (setHash h n none) (h n).parent h' he m (by rw [setHash_hash_other _ _ hmn]; exact hm)
      rw [this]; simp [setHash, upd, hmn]

theorem assignArg_eq (h : Heap H) (c : Id) (k : String) (a : Arg) :
    assignArg h c k a = setArgs h c (setKey k a (h c).args) := by
  funext j
  simp only [assignArg, setArgs, upd]
  split <;> simp_all

/-- `self.set(k, child)` spelled out -/
theorem opSet_node_spec {fuel : Nat} {h h2 : Heap H} {self : Id} {k : String} {v : Id} {ow : Bool}
    (he : opSet fuel h self k (.node v) none ow = some h2) :
    ∃ h1, inval fuel h (some self) = some h1 ∧
      h2 = setPtr (setArgs h1 self (setKey k (.one v) (h1 self).args)) v (some self) (some k) none := by
  unfold opSet at he
  split at he
  · next h1 hinv =>
    simp only [setCore, Option.some.injEq] at he
    exact ⟨h1, hinv, he.symm⟩
  · cases he

/-- `self.append(k, item)` spelled out -/
theorem opAppend_spec {fuel : Nat} {h h2 : Heap H} {self : Id} {k : String} {it : Item}
    (he : opAppend fuel h self k it = some h2) :
    ∃ h1, inval fuel h (some self) = some h1 ∧ h2 = appendCoreSpec h1 self k it := by
  unfold opAppend at he
  split at he
  · next h1 hinv =>
    simp only [Option.some.injEq] at he
    exact ⟨h1, hinv, by rw [← he, appendCore_eq]⟩
  · cases he

/-! ### the state invariant of the copy loop -/

/-- the cache clause with (at most) one exempted cell: the copy whose `_hash` was just carried over -/
def CacheX (F : HashFns H) (h : Heap H) (x : Option Id) : Prop :=
  ∀ m y, (h m).hash = some y → some m ≠ x → hashNode F (h m) (fun c => (h c).hash) = some y

/-- every cell from `nx` on is unused -/
def FreshFrom (h : Heap H) (nx : Nat) : Prop := ∀ m, nx ≤ m → h m = blank ∧ Unstored h m

structure DC (F : HashFns H) (h0 : Heap H) (base : Nat) (x : Option Id) (h : Heap H) (nx : Nat) : Prop where
  links : Links h
  keys : Keys h
  cache : CacheX F h x
  fresh : FreshFrom h nx
  le : base ≤ nx
  frame : ∀ m, m < base → h m = h0 m
  region : Region h (fun m => base ≤ m)

theorem DC.inv {F : HashFns H} {h0 h : Heap H} {base nx : Nat} (d : DC F h0 base none h nx) : Inv F h :=
  ⟨d.links, fun n x hx => d.cache n x hx (by simp), d.keys⟩

theorem DC.weaken {F : HashFns H} {h0 h : Heap H} {base nx : Nat} (d : DC F h0 base none h nx) (x : Option Id) :
    DC F h0 base x h nx :=
  { d with cache := fun m y hy _ => d.cache m y hy (by simp) }

theorem stored_args_eq {h h' : Heap H} {p : Id} (e : (h' p).args = (h p).args) {k : String} {i : Option Nat} {c : Id} :
    Stored h' p k i c ↔ Stored h p k i c := by unfold Stored; rw [e]

theorem unstored_of_blank_links {h : Heap H} (hl : Links h) {m : Id} (hb : h m = blank) : Unstored h m := by
  intro p k i hs
  have := hl p k i m hs
  rw [hb] at this
  simp [ptrs, blank] at this

/-! #### allocating a fresh cell -/

theorem opNew_self (h : Heap H) (id : Id) (cls : String) (raw : Bool) :
    opNew h id cls raw id = { (blank : Node H) with cls := cls, raw := raw } := by simp [opNew]

theorem opNew_other (h : Heap H) {id m : Id} (cls : String) (raw : Bool) (hne : m ≠ id) : opNew h id cls raw m = h m := by
  simp [opNew, upd, hne]

theorem opNew_args (h : Heap H) (id : Id) (cls : String) (raw : Bool) (hb : h id = blank) (m : Id) :
    (opNew h id cls raw m).args = (h m).args := by
  by_cases e : m = id
  · subst e; rw [opNew_self, hb]
  · rw [opNew_other _ _ _ e]

theorem opNew_hash (h : Heap H) (id : Id) (cls : String) (raw : Bool) (hb : h id = blank) (m : Id) :
    (opNew h id cls raw m).hash = (h m).hash := by
  by_cases e : m = id
  · subst e; rw [opNew_self, hb]
  · rw [opNew_other _ _ _ e]

theorem opNew_ptrs (h : Heap H) (id : Id) (cls : String) (raw : Bool) (hb : h id = blank) (m : Id) :
    ptrs (opNew h id cls raw m) = ptrs (h m) := by
  by_cases e : m = id
  · subst e; rw [opNew_self, hb]; rfl
  · rw [opNew_other _ _ _ e]

/-- after `v.__class__()` on the first unused cell: everything but freshness of that cell is kept -/
theorem dc_opNew {F : HashFns H} {h0 h : Heap H} {base nx : Nat} {x : Option Id} (d : DC F h0 base x h nx)
    (cls : String) (raw : Bool) :
    Links (opNew h nx cls raw) ∧ Keys (opNew h nx cls raw) ∧ CacheX F (opNew h nx cls raw) x ∧
    Region (opNew h nx cls raw) (fun m => base ≤ m) ∧ Unstored (opNew h nx cls raw) nx ∧
    (∀ m, nx + 1 ≤ m → opNew h nx cls raw m = blank) := by
  have hb : h nx = blank := (d.fresh nx (Nat.le_refl _)).1
  have hu : Unstored h nx := (d.fresh nx (Nat.le_refl _)).2
  have hst : ∀ {p k i c}, Stored (opNew h nx cls raw) p k i c ↔ Stored h p k i c :=
    fun {p k i c} => stored_args_eq (opNew_args h nx cls raw hb p)
  refine ⟨?_, ?_, ?_, ⟨?_, ?_⟩, ?_, ?_⟩
  · intro p k i c hs
    rw [opNew_ptrs h nx cls raw hb]
    exact d.links p k i c (hst.mp hs)
  · intro n; rw [opNew_args h nx cls raw hb]; exact d.keys n
  · intro m y hy hne
    rw [opNew_hash h nx cls raw hb] at hy
    have hm : m ≠ nx := by intro e; subst e; rw [hb] at hy; simp [blank] at hy
    have hf : (fun c => (opNew h nx cls raw c).hash) = (fun c => (h c).hash) :=
      funext (opNew_hash h nx cls raw hb)
    rw [hf, opNew_other _ _ _ hm]
    exact d.cache m y hy hne
  · intro n p hn hp
    have := opNew_ptrs h nx cls raw hb n
    simp only [ptrs, Prod.mk.injEq] at this
    rw [this.1] at hp
    exact d.region.up n p hn hp
  · intro p k j c hp hs
    exact d.region.down p k j c hp (hst.mp hs)
  · intro p k i hs; exact hu p k i (hst.mp hs)
  · intro m hm
    rw [opNew_other _ _ _ (Nat.ne_of_gt (by omega))]
    exact (d.fresh m (by omega)).1

/-! #### one structural write on the copy `c` (after its invalidation loop), linking the fresh cell `nx` -/

theorem inval_of_dc {F : HashFns H} {h1 hi : Heap H} {c : Id} {x : Option Id} {fuel : Nat} (hl : Links h1) (hk : Keys h1)
    (hc : CacheX F h1 x) (hx : x = none ∨ x = some c) (hinv : inval fuel h1 (some c) = some hi) :
    Inv F hi ∧ HashOnly h1 hi ∧ (hi c).hash = none := by
  obtain ⟨a, b, _, e⟩ := inval_spec F fuel h1 (some c) hi hinv hl hk (by
    intro m y hy hne
    rcases hx with hx | hx
    · subst hx; exact hc m y hy (by simp)
    · subst hx; exact hc m y hy hne)
  exact ⟨a, b, e c rfl⟩

theorem dc_edit_new {F : HashFns H} {h0 h hi h2 : Heap H} {base nx : Nat} {x : Option Id} {c : Id} {k cls : String}
    {raw : Bool} {fuel : Nat} (d : DC F h0 base x h nx) (hx : x = none ∨ x = some c) (hc1 : base ≤ c) (hc2 : nx > c)
    (hinv : inval fuel (opNew h nx cls raw) (some c) = some hi)
    (A : List (String × Arg)) (idx : Option Nat)
    (h2def : h2 = setPtr (setArgs hi c A) nx (some c) (some k) idx)
    (hA : ∀ k' a j m, getKey k' A = some a → ArgHas a j m → m = nx ∨ Stored hi c k' j m)
    (hI2 : Inv F hi → (hi c).hash = none → Unstored hi nx → Inv F h2) :
    DC F h0 base none h2 (nx + 1) ∧ (h2 c).hash = none ∧ (h2 c).cls = (h c).cls ∧ (h2 c).raw = (h c).raw ∧
    (h2 c).args = A ∧ (hi c).args = (h c).args ∧
    h2 nx = { (blank : Node H) with cls := cls, raw := raw, parent := some c, argKey := some k, index := idx } ∧
    (∀ m, m ≠ c → m ≠ nx → (h m).hash = none → h2 m = h m) := by
  obtain ⟨hl1, hk1, hc1', hr1, hu1, hb1⟩ := dc_opNew d cls raw
  obtain ⟨hIi, ho, hcn⟩ := inval_of_dc hl1 hk1 hc1' hx hinv
  have hI := hI2 hIi hcn ((unstored_hashOnly ho).mpr hu1)
  have hcnx : c ≠ nx := Nat.ne_of_lt hc2
  have hnxc : nx ≠ c := fun e => hcnx e.symm
  have hb : h nx = blank := (d.fresh nx (Nat.le_refl _)).1
  -- cells whose hash was `None` are not touched by the invalidation loop
  have keep : ∀ m, m ≠ nx → (h m).hash = none → hi m = h m := by
    intro m hm hh
    rw [inval_untouched fuel _ _ hi hinv m (by rw [opNew_other _ _ _ hm]; exact hh), opNew_other _ _ _ hm]
  have hinx : hi nx = { (blank : Node H) with cls := cls, raw := raw } := by
    rw [inval_untouched fuel _ _ hi hinv nx (by rw [opNew_self]; rfl), opNew_self]
  have untouched : ∀ m, m ≠ c → m ≠ nx → (h m).hash = none → h2 m = h m := by
    intro m h1 h2' hh
    rw [h2def, setPtr_other _ _ _ _ h2']
    simp only [setArgs, upd, h1, if_false]
    exact keep m h2' hh
  have cellc : h2 c = { (hi c) with args := A } := by
    rw [h2def, setPtr_other _ _ _ _ hcnx]; simp [setArgs]
  have hic : (hi c).cls = (h c).cls ∧ (hi c).raw = (h c).raw ∧ (hi c).args = (h c).args := by
    have := ho c
    rw [opNew_other _ _ _ hcnx] at this
    exact ⟨this.1, this.2.1, this.2.2.1⟩
  refine ⟨⟨hI.links, hI.keys, fun m y hy _ => hI.cache m y hy, ?_, by have := d.le; omega, ?_, ⟨?_, ?_⟩⟩,
    by rw [cellc]; exact hcn, by rw [cellc]; exact hic.1, by rw [cellc]; exact hic.2.1, by rw [cellc],
    hic.2.2, ?_, untouched⟩
  · -- fresh from nx + 1
    intro m hm
    have hmb : h m = blank := (d.fresh m (by omega)).1
    have e : h2 m = blank := by
      rw [untouched m (Nat.ne_of_gt (by omega)) (Nat.ne_of_gt (by omega)) (by rw [hmb]; rfl), hmb]
    exact ⟨e, unstored_of_blank_links hI.links e⟩
  · -- the original cells are untouched
    intro m hm
    have hmc : m ≠ c := Nat.ne_of_lt (by omega)
    have hmn : m ≠ nx := Nat.ne_of_lt (by have := d.le; omega)
    rw [h2def, setPtr_other _ _ _ _ hmn]
    simp only [setArgs, upd, hmc, if_false]
    have hs := inval_frame fuel _ (some c) hi hinv m (by
      intro hch
      have : base ≤ m := onChain_in_region hr1.up hch (fun n hn => by cases hn; exact hc1)
      omega)
    rw [hs, opNew_other _ _ _ hmn]
    exact d.frame m hm
  · -- region: parent pointers
    intro n' p hn hp
    by_cases e : n' = nx
    · subst e
      rw [h2def] at hp
      simp only [setPtr, upd_same, Option.some.injEq] at hp
      subst hp; exact hc1
    · rw [h2def, setPtr_other _ _ _ _ e] at hp
      simp only [setArgs_parent] at hp
      have := (ho n').2.2.2
      simp only [ptrs, Prod.mk.injEq] at this
      rw [this.1] at hp
      exact hr1.up n' p hn hp
  · -- region: children
    intro p k' j m hp hs
    obtain ⟨a, hg, ha⟩ := hs
    rw [h2def, setPtr_args] at hg
    by_cases e : p = c
    · subst e
      rw [setArgs_args_self] at hg
      rcases hA k' a j m hg ha with e' | hs'
      · subst e'; have := d.le; omega
      · exact hr1.down p k' j m hp ((stored_hashOnly ho).mp hs')
    · rw [setArgs_args_other _ _ e] at hg
      exact hr1.down p k' j m hp ((stored_hashOnly ho).mp ⟨a, hg, ha⟩)
  · rw [h2def]
    have e1 : setArgs hi c A nx = hi nx := by simp [setArgs, upd, hnxc]
    simp only [setPtr, upd_same]
    rw [e1, hinx]

/-- the same without a new cell: `copy.append(k, scalar)` -/
theorem dc_edit_plain {F : HashFns H} {h0 h hi h2 : Heap H} {base nx : Nat} {x : Option Id} {c : Id}
    {fuel : Nat} (d : DC F h0 base x h nx) (hx : x = none ∨ x = some c) (hc1 : base ≤ c) (hc2 : nx > c)
    (hinv : inval fuel h (some c) = some hi) (A : List (String × Arg))
    (h2def : h2 = setArgs hi c A)
    (hA : ∀ k' a j m, getKey k' A = some a → ArgHas a j m → Stored hi c k' j m)
    (hI2 : Inv F hi → (hi c).hash = none → Inv F h2) :
    DC F h0 base none h2 nx ∧ (h2 c).hash = none ∧ (h2 c).cls = (h c).cls ∧ (h2 c).raw = (h c).raw ∧
    (h2 c).args = A ∧ (hi c).args = (h c).args ∧
    (∀ m, m ≠ c → (h m).hash = none → h2 m = h m) := by
  obtain ⟨hIi, ho, hcn⟩ := inval_of_dc d.links d.keys d.cache hx hinv
  have hI := hI2 hIi hcn
  have keep : ∀ m, (h m).hash = none → hi m = h m := fun m hh => inval_untouched fuel _ _ hi hinv m hh
  have untouched : ∀ m, m ≠ c → (h m).hash = none → h2 m = h m := by
    intro m h1 hh
    rw [h2def]; simp only [setArgs, upd, h1, if_false]; exact keep m hh
  have cellc : h2 c = { (hi c) with args := A } := by rw [h2def]; simp [setArgs]
  have hic := ho c
  refine ⟨⟨hI.links, hI.keys, fun m y hy _ => hI.cache m y hy, ?_, d.le, ?_, ⟨?_, ?_⟩⟩,
    by rw [cellc]; exact hcn, by rw [cellc]; exact hic.1, by rw [cellc]; exact hic.2.1, by rw [cellc],
    hic.2.2.1, untouched⟩
  · intro m hm
    have hmb : h m = blank := (d.fresh m hm).1
    have e : h2 m = blank := by
      rw [untouched m (Nat.ne_of_gt (by omega)) (by rw [hmb]; rfl), hmb]
    exact ⟨e, unstored_of_blank_links hI.links e⟩
  · intro m hm
    have hmc : m ≠ c := Nat.ne_of_lt (by omega)
    rw [h2def]; simp only [setArgs, upd, hmc, if_false]
    have hs := inval_frame fuel _ (some c) hi hinv m (by
      intro hch
      have : base ≤ m := onChain_in_region d.region.up hch (fun n hn => by cases hn; exact hc1)
      omega)
    rw [hs]; exact d.frame m hm
  · intro n' p hn hp
    rw [h2def] at hp
    simp only [setArgs_parent] at hp
    have := (ho n').2.2.2
    simp only [ptrs, Prod.mk.injEq] at this
    rw [this.1] at hp
    exact d.region.up n' p hn hp
  · intro p k' j m hp hs
    obtain ⟨a, hg, ha⟩ := hs
    rw [h2def] at hg
    by_cases e : p = c
    · subst e
      rw [setArgs_args_self] at hg
      exact d.region.down p k' j m hp ((stored_hashOnly ho).mp (hA k' a j m hg ha))
    · rw [setArgs_args_other _ _ e] at hg
      exact d.region.down p k' j m hp ((stored_hashOnly ho).mp ⟨a, hg, ha⟩)

/-! #### the three structural steps of the copy -/

theorem dc_setChild {F : HashFns H} {h0 h h2 : Heap H} {base nx : Nat} {x : Option Id} {c : Id} {k cls : String}
    {raw : Bool} {fuel : Nat} (d : DC F h0 base x h nx) (hx : x = none ∨ x = some c) (hc1 : base ≤ c) (hc2 : nx > c)
    (he : opSet fuel (opNew h nx cls raw) c k (.node nx) none true = some h2) :
    DC F h0 base none h2 (nx + 1) ∧ (h2 c).hash = none ∧ (h2 c).cls = (h c).cls ∧ (h2 c).raw = (h c).raw ∧
    (h2 c).args = setKey k (.one nx) (h c).args ∧
    h2 nx = { (blank : Node H) with cls := cls, raw := raw, parent := some c, argKey := some k, index := none } ∧
    (∀ m, m ≠ c → m ≠ nx → (h m).hash = none → h2 m = h m) := by
  obtain ⟨hi, hinv, h2def⟩ := opSet_node_spec he
  have r := dc_edit_new d hx hc1 hc2 hinv (setKey k (.one nx) (hi c).args) none h2def (by
      intro k' a j m hg ha
      rw [getKey_setKey] at hg
      split at hg
      · next e =>
        simp only [Option.some.injEq] at hg; subst hg
        cases j <;> simp only [ArgHas] at ha
        exact .inl ha.symm
      · exact .inr ⟨a, hg, ha⟩)
    (fun hIi hcn hu => inv_setCore F hIi hcn (show ValueOk hi (.node nx) from hu)
      (show setCore hi c k (.node nx) none true = some h2 by simp [setCore, h2def]))
  obtain ⟨r1, r2, r3, r4, r5, r6, r7, r8⟩ := r
  exact ⟨r1, r2, r3, r4, by rw [r5, r6], r7, r8⟩

theorem dc_appendChild {F : HashFns H} {h0 h h2 : Heap H} {base nx : Nat} {x : Option Id} {c : Id} {k cls : String}
    {raw : Bool} {fuel : Nat} (d : DC F h0 base x h nx) (hx : x = none ∨ x = some c) (hc1 : base ≤ c) (hc2 : nx > c)
    (he : opAppend fuel (opNew h nx cls raw) c k (.node nx) = some h2) :
    DC F h0 base none h2 (nx + 1) ∧ (h2 c).hash = none ∧ (h2 c).cls = (h c).cls ∧ (h2 c).raw = (h c).raw ∧
    (h2 c).args = setKey k (.many (listOf k (h c).args ++ [.node nx])) (h c).args ∧
    h2 nx = { (blank : Node H) with cls := cls, raw := raw, parent := some c, argKey := some k,
                                    index := some (listOf k (h c).args).length } ∧
    (∀ m, m ≠ c → m ≠ nx → (h m).hash = none → h2 m = h m) := by
  obtain ⟨hi, hinv, h2def⟩ := opAppend_spec he
  have h2def' : h2 = setPtr (setArgs hi c (setKey k (.many (listOf k (hi c).args ++ [.node nx])) (hi c).args)) nx
      (some c) (some k) (some (listOf k (hi c).args).length) := by rw [h2def]; rfl
  have r := dc_edit_new d hx hc1 hc2 hinv _ _ h2def' (by
      intro k' a j m hg ha
      rw [getKey_setKey] at hg
      split at hg
      · next e =>
        subst e
        simp only [Option.some.injEq] at hg; subst hg
        cases j with
        | none => simp [ArgHas] at ha
        | some j' =>
          simp only [ArgHas, List.getElem?_append] at ha
          split at ha
          · next hlt =>
            rcases listOf_cases k (hi c).args with hg' | hnil
            · exact .inr ⟨_, hg', by simpa [ArgHas] using ha⟩
            · rw [hnil] at hlt; simp at hlt
          · next hge =>
            cases hz : j' - (listOf k (hi c).args).length with
            | zero => rw [hz] at ha; simp at ha; exact .inl ha.symm
            | succ t => rw [hz] at ha; simp at ha
      · exact .inr ⟨a, hg, ha⟩)
    (fun hIi hcn hu => by
      have := inv_appendCore F hIi hcn (show ItemOk hi (.node nx) from hu) (self := c) (k := k)
      rw [appendCore_eq] at this
      rw [h2def]; exact this)
  obtain ⟨r1, r2, r3, r4, r5, r6, r7, r8⟩ := r
  exact ⟨r1, r2, r3, r4, by rw [r5, r6], by rw [r7, r6], r8⟩

theorem dc_appendLeaf {F : HashFns H} {h0 h h2 : Heap H} {base nx : Nat} {x : Option Id} {c : Id} {k : String}
    {s : Scalar} {fuel : Nat} (d : DC F h0 base x h nx) (hx : x = none ∨ x = some c) (hc1 : base ≤ c) (hc2 : nx > c)
    (he : opAppend fuel h c k (.leaf s) = some h2) :
    DC F h0 base none h2 nx ∧ (h2 c).hash = none ∧ (h2 c).cls = (h c).cls ∧ (h2 c).raw = (h c).raw ∧
    (h2 c).args = setKey k (.many (listOf k (h c).args ++ [.leaf s])) (h c).args ∧
    (∀ m, m ≠ c → (h m).hash = none → h2 m = h m) := by
  obtain ⟨hi, hinv, h2def⟩ := opAppend_spec he
  have h2def' : h2 = setArgs hi c (setKey k (.many (listOf k (hi c).args ++ [.leaf s])) (hi c).args) := by
    rw [h2def]; rfl
  have r := dc_edit_plain d hx hc1 hc2 hinv _ h2def' (by
      intro k' a j m hg ha
      rw [getKey_setKey] at hg
      split at hg
      · next e =>
        subst e
        simp only [Option.some.injEq] at hg; subst hg
        cases j with
        | none => simp [ArgHas] at ha
        | some j' =>
          simp only [ArgHas, List.getElem?_append] at ha
          split at ha
          · next hlt =>
            rcases listOf_cases k (hi c).args with hg' | hnil
            · exact ⟨_, hg', by simpa [ArgHas] using ha⟩
            · rw [hnil] at hlt; simp at hlt
          · next hge =>
            cases hz : j' - (listOf k (hi c).args).length with
            | zero => rw [hz] at ha; simp at ha
            | succ t => rw [hz] at ha; simp at ha
      · exact ⟨a, hg, ha⟩)
    (fun hIi hcn => by
      have := inv_appendCore F hIi hcn (show ItemOk hi (.leaf s) from trivial) (self := c) (k := k)
      rw [appendCore_eq] at this
      rw [h2def]; exact this)
  obtain ⟨r1, r2, r3, r4, r5, r6, r7⟩ := r
  exact ⟨r1, r2, r3, r4, by rw [r5, r6], r7⟩

/-- `copy.args[k] = a` for a childless value (a scalar or the empty list) -/
theorem dc_assign {F : HashFns H} {h0 h : Heap H} {base nx : Nat} {x : Option Id} {c : Id} {k : String} {a : Arg}
    (d : DC F h0 base x h nx) (hx : x = some c ∨ (h c).hash = none) (hc1 : base ≤ c) (hc2 : nx > c)
    (ha : ∀ j m, ¬ ArgHas a j m) : DC F h0 base x (assignArg h c k a) nx := by
  rw [assignArg_eq]
  have hst : ∀ {p k' j m}, Stored (setArgs h c (setKey k a (h c).args)) p k' j m → Stored h p k' j m := by
    intro p k' j m ⟨a', hg, ha'⟩
    by_cases e : p = c
    · subst e
      rw [setArgs_args_self, getKey_setKey] at hg
      split at hg
      · simp only [Option.some.injEq] at hg; subst hg; exact absurd ha' (ha j m)
      · exact ⟨a', hg, ha'⟩
    · rw [setArgs_args_other _ _ e] at hg; exact ⟨a', hg, ha'⟩
  refine ⟨?_, ?_, ?_, ?_, d.le, ?_, ⟨?_, ?_⟩⟩
  · intro p k' j m hs
    have := d.links p k' j m (hst hs)
    simpa [ptrs] using this
  · intro n
    by_cases e : n = c
    · subst e; rw [setArgs_args_self]; exact keysUnique_setKey (d.keys n)
    · rw [setArgs_args_other _ _ e]; exact d.keys n
  · intro m y hy hne
    rw [setArgs_hash] at hy
    have hmc : m ≠ c := by
      intro e; subst e
      rcases hx with hx | hx
      · exact hne (by rw [hx])
      · rw [hx] at hy; cases hy
    have hf : (fun c' => (setArgs h c (setKey k a (h c).args) c').hash) = (fun c' => (h c').hash) :=
      funext fun c' => by simp
    rw [hf, hashNode_fields F (h m) _ _ (by simp) (by simp) (setArgs_args_other _ _ hmc)]
    exact d.cache m y hy hne
  · intro m hm
    have hmc : m ≠ c := Nat.ne_of_gt (by omega)
    have e : setArgs h c (setKey k a (h c).args) m = h m := by simp [setArgs, upd, hmc]
    rw [e]
    refine ⟨(d.fresh m hm).1, ?_⟩
    intro p k' j hs
    exact (d.fresh m hm).2 p k' j (hst hs)
  · intro m hm
    have hmc : m ≠ c := Nat.ne_of_lt (by omega)
    have e : setArgs h c (setKey k a (h c).args) m = h m := by simp [setArgs, upd, hmc]
    rw [e]; exact d.frame m hm
  · intro n' p hn hp
    simp only [setArgs_parent] at hp
    exact d.region.up n' p hn hp
  · intro p k' j m hp hs
    exact d.region.down p k' j m hp (hst hs)

theorem assign_cell (h : Heap H) (c : Id) (k : String) (a : Arg) :
    assignArg h c k a c = { (h c) with args := setKey k a (h c).args } ∧
    ∀ m, m ≠ c → assignArg h c k a m = h m := by
  rw [assignArg_eq]
  exact ⟨by simp [setArgs], fun m hm => by simp [setArgs, upd, hm]⟩

/-! ### the visit of one stack entry -/

/-- a pending stack entry `(n, c)`: `c` is the still empty copy of the original node `n` -/
def Pending (h0 : Heap H) (base : Nat) (h : Heap H) (nx : Nat) (p : Id × Id) : Prop :=
  base > p.1 ∧ base ≤ p.2 ∧ nx > p.2 ∧ (h p.2).args = [] ∧ (h p.2).hash = none ∧
  (h p.2).cls = (h0 p.1).cls ∧ (h p.2).raw = (h0 p.1).raw

theorem Pending.mono {h0 h h' : Heap H} {base nx nx' : Nat} {p : Id × Id} (hp : Pending h0 base h nx p)
    (hle : nx ≤ nx') (e : h' p.2 = h p.2) : Pending h0 base h' nx' p := by
  obtain ⟨a, b, c, d, e', f, g⟩ := hp
  exact ⟨a, b, by omega, by rw [e]; exact d, by rw [e]; exact e', by rw [e]; exact f, by rw [e]; exact g⟩

/-- state of the visit of `(n, c)` after the arguments `d` of `n` have been processed -/
structure V (F : HashFns H) (h0 : Heap H) (base : Nat) (n c : Id) (d : List (String × Arg)) (x : Option Id)
    (h : Heap H) (nx : Nat) (st : List (Id × Id)) : Prop where
  dc : DC F h0 base x h nx
  cge : base ≤ c
  clt : nx > c
  cls : (h c).cls = (h0 n).cls
  raw : (h c).raw = (h0 n).raw
  mode : (x = none ∧ (h c).hash = none) ∨
         (x = some c ∧ (h c).hash = (h0 n).hash ∧ (h c).args = d ∧ keepsHash d = true)
  pend : ∀ p, p ∈ st → Pending h0 base h nx p
  nodup : (c :: st.map Prod.snd).Nodup

theorem V.hx {F : HashFns H} {h0 h : Heap H} {base nx : Nat} {n c : Id} {d : List (String × Arg)} {x : Option Id}
    {st : List (Id × Id)} (v : V F h0 base n c d x h nx st) : x = none ∨ x = some c := by
  rcases v.mode with ⟨e, _⟩ | ⟨e, _⟩
  · exact .inl e
  · exact .inr e

theorem V.pend_ne {F : HashFns H} {h0 h : Heap H} {base nx : Nat} {n c : Id} {d : List (String × Arg)}
    {x : Option Id} {st : List (Id × Id)} (v : V F h0 base n c d x h nx st) {p : Id × Id} (hp : p ∈ st) : p.2 ≠ c := by
  have := v.nodup
  rw [List.nodup_cons] at this
  intro e
  exact this.1 (List.mem_map.mpr ⟨p, hp, e⟩)

/-- after a structural step that linked the fresh cell `nx` as the copy of `w` -/
theorem V.push {F : HashFns H} {h0 h h2 : Heap H} {base nx : Nat} {n c w : Id} {d d' : List (String × Arg)}
    {x : Option Id} {st : List (Id × Id)} {k : String} {idx : Option Nat}
    (v : V F h0 base n c d x h nx st) (hw : base > w)
    (dc2 : DC F h0 base none h2 (nx + 1)) (hh : (h2 c).hash = none) (hcls : (h2 c).cls = (h c).cls)
    (hraw : (h2 c).raw = (h c).raw)
    (hnx : h2 nx = { (blank : Node H) with cls := (h w).cls, raw := (h w).raw, parent := some c, argKey := some k,
                                            index := idx })
    (hun : ∀ m, m ≠ c → m ≠ nx → (h m).hash = none → h2 m = h m) :
    V F h0 base n c d' none h2 (nx + 1) ((w, nx) :: st) := by
  have hfw : h w = h0 w := v.dc.frame w hw
  refine ⟨dc2, v.cge, by have := v.clt; omega, by rw [hcls]; exact v.cls, by rw [hraw]; exact v.raw,
    .inl ⟨rfl, hh⟩, ?_, ?_⟩
  · intro p hp
    rcases List.mem_cons.mp hp with e | e
    · subst e
      have := v.dc.le
      refine ⟨hw, by simp only; omega, by simp only; omega, ?_, ?_, ?_, ?_⟩ <;> simp only [hnx, hfw] <;> rfl
    · have hp' := v.pend p e
      have hne : p.2 ≠ c := v.pend_ne e
      have hne2 : p.2 ≠ nx := Nat.ne_of_lt hp'.2.2.1
      exact hp'.mono (Nat.le_succ _) (hun p.2 hne hne2 hp'.2.2.2.2.1)
  · have hnd := v.nodup
    rw [List.nodup_cons] at hnd ⊢
    simp only [List.map_cons, List.mem_cons, not_or]
    refine ⟨⟨Nat.ne_of_lt v.clt, hnd.1⟩, ?_⟩
    rw [List.nodup_cons]
    refine ⟨?_, hnd.2⟩
    intro hm
    obtain ⟨p, hp, e⟩ := List.mem_map.mp hm
    have := (v.pend p hp).2.2.1
    rw [e] at this
    exact Nat.lt_irrefl _ this

theorem V.plain {F : HashFns H} {h0 h h2 : Heap H} {base nx : Nat} {n c : Id} {d d' : List (String × Arg)}
    {x : Option Id} {st : List (Id × Id)} (v : V F h0 base n c d x h nx st)
    (dc2 : DC F h0 base none h2 nx) (hh : (h2 c).hash = none) (hcls : (h2 c).cls = (h c).cls)
    (hraw : (h2 c).raw = (h c).raw) (hun : ∀ m, m ≠ c → (h m).hash = none → h2 m = h m) :
    V F h0 base n c d' none h2 nx st := by
  refine ⟨dc2, v.cge, v.clt, by rw [hcls]; exact v.cls, by rw [hraw]; exact v.raw, .inl ⟨rfl, hh⟩, ?_, v.nodup⟩
  intro p hp
  have hp' := v.pend p hp
  exact hp'.mono (Nat.le_refl _) (hun p.2 (v.pend_ne hp) hp'.2.2.2.2.1)

theorem keepsHash_append (d : List (String × Arg)) (k : String) (a : Arg) (ha : a = .many [] ∨ ∃ s, a = .leaf s) :
    keepsHash (d ++ [(k, a)]) = keepsHash d := by
  induction d with
  | nil => rcases ha with e | ⟨s, e⟩ <;> subst e <;> rfl
  | cons e r ih =>
    obtain ⟨k', a'⟩ := e
    cases a' with
    | one c => rfl
    | leaf s => simp only [List.cons_append, keepsHash]; exact ih
    | many items =>
      cases items with
      | nil => simp only [List.cons_append, keepsHash]; exact ih
      | cons i is => rfl

theorem setKey_fresh {k : String} {a : Arg} {d : List (String × Arg)} (hk : k ∉ d.map Prod.fst) :
    setKey k a d = d ++ [(k, a)] := by
  unfold setKey
  have : hasKey k d = false := by
    cases hh : hasKey k d with
    | false => rfl
    | true => exact absurd (hasKey_iff.mp hh) hk
  simp [this]

/-- `copy.args[k] = a` (childless `a`) inside a visit -/
theorem V.assign {F : HashFns H} {h0 h : Heap H} {base nx : Nat} {n c : Id} {d : List (String × Arg)}
    {x : Option Id} {st : List (Id × Id)} {k : String} {a : Arg} (v : V F h0 base n c d x h nx st)
    (hk : k ∉ d.map Prod.fst) (ha : a = .many [] ∨ ∃ s, a = .leaf s) :
    V F h0 base n c (d ++ [(k, a)]) x (assignArg h c k a) nx st := by
  have hnc : ∀ j m, ¬ ArgHas a j m := by
    intro j m
    rcases ha with e | ⟨s, e⟩ <;> subst e <;> cases j <;> simp [ArgHas]
  obtain ⟨ec, eo⟩ := assign_cell h c k a
  have hx' : x = some c ∨ (h c).hash = none := by
    rcases v.mode with ⟨_, e⟩ | ⟨e, _⟩
    · exact .inr e
    · exact .inl e
  refine ⟨dc_assign v.dc hx' v.cge v.clt hnc, v.cge, v.clt, by rw [ec]; exact v.cls, by rw [ec]; exact v.raw, ?_, ?_,
    v.nodup⟩
  · rcases v.mode with ⟨e1, e2⟩ | ⟨e1, e2, e3, e4⟩
    · exact .inl ⟨e1, by rw [ec]; exact e2⟩
    · refine .inr ⟨e1, by rw [ec]; exact e2, ?_, by rw [keepsHash_append d k a ha]; exact e4⟩
      rw [ec]; simp only
      rw [e3]
      exact setKey_fresh hk
  · intro p hp
    exact (v.pend p hp).mono (Nat.le_refl _) (eo p.2 (v.pend_ne hp))

theorem dcItems_spec {F : HashFns H} {h0 : Heap H} {base : Nat} {n c : Id} {fuel : Nat} {k : String} :
    ∀ (items : List Item) (h : Heap H) (nx : Nat) (st : List (Id × Id)) (d : List (String × Arg)) (x : Option Id)
      (h' : Heap H) (nx' : Nat) (st' : List (Id × Id)),
      (∀ w, Item.node w ∈ items → base > w) → V F h0 base n c d x h nx st →
      dcItems fuel c k h nx st items = some (h', nx', st') →
      (items = [] → h' = h ∧ nx' = nx ∧ st' = st) ∧
      (items ≠ [] → ∀ d', V F h0 base n c d' none h' nx' st')
  | [], h, nx, st, d, x, h', nx', st', _, _, he => by
    simp only [dcItems, Option.some.injEq, Prod.mk.injEq] at he
    exact ⟨fun _ => ⟨he.1.symm, he.2.1.symm, he.2.2.symm⟩, fun e => absurd rfl e⟩
  | .leaf s :: r, h, nx, st, d, x, h', nx', st', hw, v, he => by
    simp only [dcItems] at he
    split at he
    · next h1 h1e =>
      obtain ⟨r1, r2, r3, r4, _, r6⟩ := dc_appendLeaf v.dc v.hx v.cge v.clt h1e
      have v1 : ∀ d', V F h0 base n c d' none h1 nx st := fun d' => v.plain r1 r2 r3 r4 r6
      have ih := dcItems_spec r h1 nx st d none h' nx' st' (fun w hm => hw w (List.mem_cons_of_mem _ hm)) (v1 d) he
      refine ⟨fun e => absurd e (List.cons_ne_nil _ _), fun _ d' => ?_⟩
      cases r with
      | nil => obtain ⟨e1, e2, e3⟩ := ih.1 rfl; subst e1; subst e2; subst e3; exact v1 d'
      | cons i is => exact ih.2 (by simp) d'
    · cases he
  | .node w :: r, h, nx, st, d, x, h', nx', st', hw, v, he => by
    simp only [dcItems] at he
    split at he
    · next h1 h1e =>
      obtain ⟨r1, r2, r3, r4, _, r6, r7⟩ := dc_appendChild v.dc v.hx v.cge v.clt h1e
      have v1 : ∀ d', V F h0 base n c d' none h1 (nx + 1) ((w, nx) :: st) :=
        fun d' => v.push (hw w (by simp)) r1 r2 r3 r4 r6 r7
      have ih := dcItems_spec r h1 (nx + 1) ((w, nx) :: st) d none h' nx' st'
        (fun w' hm => hw w' (List.mem_cons_of_mem _ hm)) (v1 d) he
      refine ⟨fun e => absurd e (List.cons_ne_nil _ _), fun _ d' => ?_⟩
      cases r with
      | nil => obtain ⟨e1, e2, e3⟩ := ih.1 rfl; subst e1; subst e2; subst e3; exact v1 d'
      | cons i is => exact ih.2 (by simp) d'
    · cases he

theorem key_fresh_of_split {args d r : List (String × Arg)} {k : String} {a : Arg} (hu : KeysUnique args)
    (hs : args = d ++ (k, a) :: r) : k ∉ d.map Prod.fst := by
  have hnd : ((d ++ (k, a) :: r).map Prod.fst).Nodup := by rw [← hs]; exact hu
  rw [List.map_append, List.nodup_append] at hnd
  intro hm
  exact hnd.2.2 k hm k (by simp) rfl

/-- children of an original node are original nodes -/
theorem child_below {F : HashFns H} {h0 : Heap H} {base : Nat} (hI0 : Inv F h0) (hf0 : FreshFrom h0 base) {n : Id}
    {k : String} {a : Arg} (hm : (k, a) ∈ (h0 n).args) {j : Option Nat} {w : Id} (ha : ArgHas a j w) : base > w := by
  cases hlt : decide (w < base) with
  | true => simpa using hlt
  | false =>
    have hge : base ≤ w := by simpa using hlt
    exact absurd ⟨a, getKey_of_mem (hI0.keys n) hm, ha⟩ ((hf0 w hge).2 n k j)

theorem dcArgs_spec {F : HashFns H} {h0 : Heap H} {base : Nat} {n c : Id} {fuel : Nat} (hI0 : Inv F h0)
    (hf0 : FreshFrom h0 base) :
    ∀ (r d : List (String × Arg)) (h : Heap H) (nx : Nat) (st : List (Id × Id)) (x : Option Id)
      (h' : Heap H) (nx' : Nat) (st' : List (Id × Id)),
      (h0 n).args = d ++ r → V F h0 base n c d x h nx st →
      dcArgs fuel c h nx st r = some (h', nx', st') → ∃ x', V F h0 base n c (h0 n).args x' h' nx' st'
  | [], d, h, nx, st, x, h', nx', st', hs, v, he => by
    simp only [dcArgs, Option.some.injEq, Prod.mk.injEq] at he
    obtain ⟨e1, e2, e3⟩ := he; subst e1; subst e2; subst e3
    rw [List.append_nil] at hs
    exact ⟨x, hs ▸ v⟩
  | (k, .leaf s) :: r, d, h, nx, st, x, h', nx', st', hs, v, he => by
    simp only [dcArgs] at he
    have v1 := v.assign (key_fresh_of_split (hI0.keys n) hs) (.inr ⟨s, rfl⟩)
    exact dcArgs_spec hI0 hf0 r (d ++ [(k, .leaf s)]) _ nx st x h' nx' st' (by rw [hs]; simp) v1 he
  | (k, .one w) :: r, d, h, nx, st, x, h', nx', st', hs, v, he => by
    simp only [dcArgs] at he
    split at he
    · next h1 h1e =>
      obtain ⟨r1, r2, r3, r4, _, r6, r7⟩ := dc_setChild v.dc v.hx v.cge v.clt h1e
      have hw : base > w := child_below hI0 hf0 (k := k) (a := .one w) (by rw [hs]; simp) (j := none) (by simp [ArgHas])
      have v1 : V F h0 base n c (d ++ [(k, .one w)]) none h1 (nx + 1) ((w, nx) :: st) :=
        v.push hw r1 r2 r3 r4 r6 r7
      exact dcArgs_spec hI0 hf0 r _ h1 (nx + 1) _ none h' nx' st' (by rw [hs]; simp) v1 he
    · cases he
  | (k, .many items) :: r, d, h, nx, st, x, h', nx', st', hs, v, he => by
    simp only [dcArgs] at he
    split at he
    · next h1 nx1 st1 h1e =>
      have hw : ∀ w, Item.node w ∈ items → base > w := by
        intro w hm
        obtain ⟨j, hj⟩ := List.mem_iff_getElem?.mp hm
        exact child_below hI0 hf0 (k := k) (a := .many items) (by rw [hs]; simp) (j := some j) (by simpa [ArgHas] using hj)
      have v0 := v.assign (a := .many []) (key_fresh_of_split (hI0.keys n) hs) (.inl rfl)
      cases items with
      | nil =>
        obtain ⟨e1, e2, e3⟩ := (dcItems_spec [] _ nx st _ x h1 nx1 st1 hw v0 h1e).1 rfl
        rw [e1, e2, e3] at he
        exact dcArgs_spec hI0 hf0 r _ _ nx st x h' nx' st' (by rw [hs]; simp) v0 he
      | cons i is =>
        have v1 := (dcItems_spec (i :: is) _ nx st _ x h1 nx1 st1 hw v0 h1e).2 (by simp) (d ++ [(k, .many (i :: is))])
        exact dcArgs_spec hI0 hf0 r _ h1 nx1 st1 none h' nx' st' (by rw [hs]; simp) v1 he
    · cases he

/-! ### the loop -/

theorem keepsHash_noChild : ∀ {args : List (String × Arg)}, keepsHash args = true → ∀ c, ¬ IsChild args c
  | [], _, c, ⟨_, _, hm, _⟩ => by cases hm
  | (k, a) :: r, hk, c, ⟨k', a', hm, i, ha⟩ => by
    cases a with
    | one c' => simp [keepsHash] at hk
    | leaf s =>
      simp only [keepsHash] at hk
      rcases List.mem_cons.mp hm with e | e
      · cases e; cases i <;> simp [ArgHas] at ha
      · exact keepsHash_noChild hk c ⟨k', a', e, i, ha⟩
    | many items =>
      cases items with
      | cons x xs => simp [keepsHash] at hk
      | nil =>
        simp only [keepsHash] at hk
        rcases List.mem_cons.mp hm with e | e
        · cases e; cases i <;> simp [ArgHas] at ha
        · exact keepsHash_noChild hk c ⟨k', a', e, i, ha⟩

/-- `copy._hash = node._hash` on a still empty copy: only the cache clause of that one cell is suspended -/
theorem dc_carry {F : HashFns H} {h0 h : Heap H} {base nx : Nat} {c : Id} (d : DC F h0 base none h nx)
    (hc1 : base ≤ c) (hc2 : nx > c) (hh : (h c).hash = none) (y : H) :
    DC F h0 base (some c) (setHash h c (some y)) nx := by
  have ho := hashOnly_setHash h c (some y)
  refine ⟨links_hashOnly ho d.links, keys_hashOnly ho d.keys, ?_, ?_, d.le, ?_, ⟨?_, ?_⟩⟩
  · intro m z hz hne
    have hmc : m ≠ c := by intro e; subst e; exact hne rfl
    rw [setHash_hash_other _ _ hmc] at hz
    have hc := d.cache m z hz (by simp)
    rw [hashNode_fields F (h m) _ _ (by simp) (by simp) (by simp), ← hc]
    apply hashNode_congr
    intro c' hcc
    by_cases e : c' = c
    · subst e
      have := hashNode_some F (h m) hc hcc
      rw [hh] at this; cases this
    · exact setHash_hash_other _ _ e
  · intro m hm
    have hmc : m ≠ c := Nat.ne_of_gt (by omega)
    have e : setHash h c (some y) m = h m := by simp [setHash, upd, hmc]
    rw [e]
    exact ⟨(d.fresh m hm).1, (unstored_hashOnly ho).mpr (d.fresh m hm).2⟩
  · intro m hm
    have hmc : m ≠ c := Nat.ne_of_lt (by omega)
    have e : setHash h c (some y) m = h m := by simp [setHash, upd, hmc]
    rw [e]; exact d.frame m hm
  · intro n' p hn hp
    simp only [setHash_parent] at hp
    exact d.region.up n' p hn hp
  · intro p k j m hp hs
    exact d.region.down p k j m hp ((stored_hashOnly ho).mp hs)

structure LI (F : HashFns H) (h0 : Heap H) (base : Nat) (h : Heap H) (nx : Nat) (st : List (Id × Id)) : Prop where
  dc : DC F h0 base none h nx
  pend : ∀ p, p ∈ st → Pending h0 base h nx p
  nodup : (st.map Prod.snd).Nodup

theorem V.finish {F : HashFns H} {h0 h : Heap H} {base nx : Nat} {n c : Id} {x : Option Id} {st : List (Id × Id)}
    (hI0 : Inv F h0) (v : V F h0 base n c (h0 n).args x h nx st) : LI F h0 base h nx st := by
  have hnd := v.nodup
  rw [List.nodup_cons] at hnd
  refine ⟨?_, v.pend, hnd.2⟩
  rcases v.mode with ⟨e, _⟩ | ⟨e, e2, e3, e4⟩
  · subst e; exact v.dc
  · subst e
    refine { v.dc with cache := ?_ }
    intro m y hy _
    by_cases hmc : m = c
    · subst hmc
      rw [e2] at hy
      have hc0 := hI0.cache n y hy
      rw [hashNode_fields F (h0 n) (h m) _ v.cls v.raw e3]
      rw [← hc0]
      apply hashNode_congr
      intro c' hcc
      exact absurd hcc (keepsHash_noChild e4 c')
    · exact v.dc.cache m y hy (by intro e; cases e; exact hmc rfl)

theorem dcVisit_spec {F : HashFns H} {h0 : Heap H} {base : Nat} {fuel : Nat} (hI0 : Inv F h0) (hf0 : FreshFrom h0 base)
    {h : Heap H} {nx : Nat} {st : List (Id × Id)} {n c : Id} {h1 : Heap H} {nx1 : Nat} {st1 : List (Id × Id)}
    (li : LI F h0 base h nx ((n, c) :: st)) (he : dcVisit fuel h nx st n c = some (h1, nx1, st1)) :
    LI F h0 base h1 nx1 st1 := by
  obtain ⟨pn, pc1, pc2, pargs, phash, pcls, praw⟩ := li.pend (n, c) (by simp)
  simp only at pn pc1 pc2 pargs phash pcls praw
  have hfn : h n = h0 n := li.dc.frame n pn
  have hnd : (c :: st.map Prod.snd).Nodup := by simpa using li.nodup
  have pend' : ∀ p, p ∈ st → Pending h0 base h nx p := fun p hp => li.pend p (List.mem_cons_of_mem _ hp)
  unfold dcVisit at he
  simp only at he
  rw [hfn] at he
  cases hy : (h0 n).hash with
  | none =>
    rw [hy] at he
    simp only at he
    have v0 : V F h0 base n c [] none h nx st :=
      ⟨li.dc, pc1, pc2, pcls, praw, .inl ⟨rfl, phash⟩, pend', hnd⟩
    obtain ⟨x', v1⟩ := dcArgs_spec hI0 hf0 (h0 n).args [] h nx st none h1 nx1 st1 (by simp) v0 he
    exact v1.finish hI0
  | some y =>
    rw [hy] at he
    simp only at he
    have v0 : V F h0 base n c [] (some c) (setHash h c (some y)) nx st := by
      refine ⟨dc_carry li.dc pc1 pc2 phash y, pc1, pc2, by simpa using pcls, by simpa using praw,
        .inr ⟨rfl, by simp [hy], by simpa using pargs, rfl⟩, ?_, hnd⟩
      intro p hp
      have hne : p.2 ≠ c := by
        rw [List.nodup_cons] at hnd
        intro e; exact hnd.1 (List.mem_map.mpr ⟨p, hp, e⟩)
      exact (pend' p hp).mono (Nat.le_refl _) (by simp [setHash, upd, hne])
    obtain ⟨x', v1⟩ := dcArgs_spec hI0 hf0 (h0 n).args [] _ nx st (some c) h1 nx1 st1 (by simp) v0 he
    exact v1.finish hI0

theorem dcLoop_spec {F : HashFns H} {h0 : Heap H} {base : Nat} {fuel : Nat} (hI0 : Inv F h0) (hf0 : FreshFrom h0 base) :
    ∀ (f : Nat) (h : Heap H) (nx : Nat) (st : List (Id × Id)) (h' : Heap H) (nx' : Nat),
      LI F h0 base h nx st → dcLoop fuel f h nx st = some (h', nx') → DC F h0 base none h' nx'
  | 0, _, _, _, _, _, _, he => by simp [dcLoop] at he
  | f + 1, h, nx, [], h', nx', li, he => by
    simp only [dcLoop, Option.some.injEq, Prod.mk.injEq] at he
    obtain ⟨e1, e2⟩ := he; subst e1; subst e2; exact li.dc
  | f + 1, h, nx, (n, c) :: st, h', nx', li, he => by
    simp only [dcLoop] at he
    split at he
    · next h1 nx1 st1 hv => exact dcLoop_spec hI0 hf0 f h1 nx1 st1 h' nx' (dcVisit_spec hI0 hf0 li hv) he
    · cases he

/-- the heap before the copy, seen as a loop state -/
theorem dc_initial {F : HashFns H} {h0 : Heap H} {base : Nat} (hI0 : Inv F h0) (hf0 : FreshFrom h0 base) :
    DC F h0 base none h0 base := by
  refine ⟨hI0.links, hI0.keys, fun m y hy _ => hI0.cache m y hy, hf0, Nat.le_refl _, fun _ _ => rfl, ⟨?_, ?_⟩⟩
  · intro n' p hn hp
    rw [(hf0 n' hn).1] at hp; simp [blank] at hp
  · intro p k j m hp hs
    obtain ⟨a, hg, _⟩ := hs
    rw [(hf0 p hp).1] at hg; simp [blank, getKey] at hg

/-- **`copy()`**: the iterative `__deepcopy__` keeps the invariant (including the soundness of the `_hash` values it
    carries over), writes no existing cell, allocates only from `base` upwards, and leaves the new cells closed under
    parent pointers and children. -/
theorem deepcopy_spec {F : HashFns H} {h0 h' : Heap H} {base nx : Nat} {n c : Id} {fuel : Nat} (hI0 : Inv F h0)
    (hf0 : FreshFrom h0 base) (hn : base > n) (he : opDeepcopy fuel h0 n base = some (h', nx, c)) :
    Inv F h' ∧ FreshFrom h' nx ∧ (∀ m, m < base → h' m = h0 m) ∧ Region h' (fun m => base ≤ m) ∧ c = base ∧
      base ≤ nx := by
  unfold opDeepcopy at he
  split at he
  · next h1 nx1 hl =>
    simp only [Option.some.injEq, Prod.mk.injEq] at he
    obtain ⟨e1, e2, e3⟩ := he; subst e1; subst e2; subst e3
    have d0 := dc_initial hI0 hf0
    obtain ⟨l1, k1, c1, r1, u1, b1⟩ := dc_opNew d0 (h0 n).cls (h0 n).raw
    have li : LI F h0 base (opNew h0 base (h0 n).cls (h0 n).raw) (base + 1) [(n, base)] := by
      refine ⟨⟨l1, k1, c1, ?_, Nat.le_succ _, ?_, r1⟩, ?_, by simp⟩
      · intro m hm
        exact ⟨b1 m hm, unstored_of_blank_links l1 (b1 m hm)⟩
      · intro m hm; exact opNew_other _ _ _ (Nat.ne_of_lt hm)
      · intro p hp
        simp only [List.mem_singleton] at hp; subst hp
        refine ⟨hn, Nat.le_refl _, Nat.lt_succ_self _, ?_, ?_, ?_, ?_⟩ <;> simp only [opNew_self] <;> rfl
    have d := dcLoop_spec hI0 hf0 fuel _ _ _ _ _ li hl
    exact ⟨d.inv, d.fresh, d.frame, d.region, rfl, d.le⟩
  · cases he

end SqlglotModel.Tree
