/-
  Proofs/TreeOrder.lean — `__hash__` / `==` do not depend on the insertion order of `args` (C08).
-/
import SqlglotModel.Proofs.TreeRepair

namespace SqlglotModel.Tree

variable {H : Type}

theorem keys_insertArg (e : String × Arg) : ∀ (l : List (String × Arg)), k ∈ (insertArg e l).map Prod.fst ↔
    k = e.1 ∨ k ∈ l.map Prod.fst := by
  intro l
  simp only [List.mem_map]
  constructor
  · rintro ⟨x, hx, rfl⟩
    rcases mem_insertArg.mp hx with h | h
    · exact .inl (by rw [h])
    · exact .inr ⟨x, h, rfl⟩
  · rintro (h | ⟨x, hx, rfl⟩)
    · exact ⟨e, mem_insertArg.mpr (.inl rfl), h.symm⟩
    · exact ⟨x, mem_insertArg.mpr (.inr hx), rfl⟩

theorem keysUnique_insertArg (e : String × Arg) : ∀ {l : List (String × Arg)}, KeysUnique l → e.1 ∉ l.map Prod.fst →
    KeysUnique (insertArg e l)
  | [], _, _ => by simp [insertArg, KeysUnique]
  | x :: r, hu, hk => by
    simp only [KeysUnique, List.map_cons, List.nodup_cons] at hu
    simp only [List.map_cons, List.mem_cons, not_or] at hk
    simp only [insertArg]
    split
    · simp only [KeysUnique, List.map_cons, List.nodup_cons, List.mem_cons, not_or]
      exact ⟨⟨hk.1, hk.2⟩, hu⟩
    · simp only [KeysUnique, List.map_cons, List.nodup_cons]
      refine ⟨?_, keysUnique_insertArg e hu.2 hk.2⟩
      intro hm
      rcases (keys_insertArg e r).mp hm with h | h
      · exact hk.1 h.symm
      · exact hu.1 h

theorem keysUnique_sortArgs : ∀ {l : List (String × Arg)}, KeysUnique l → KeysUnique (sortArgs l)
  | [], h => h
  | e :: r, h => by
    simp only [KeysUnique, List.map_cons, List.nodup_cons] at h
    refine keysUnique_insertArg e (keysUnique_sortArgs h.2) ?_
    intro hm
    obtain ⟨x, hx, hxe⟩ := List.mem_map.mp hm
    exact h.1 (List.mem_map.mpr ⟨x, mem_sortArgs.mp hx, hxe⟩)

theorem entry_unique {l : List (String × Arg)} (hu : KeysUnique l) {x y : String × Arg} (hx : x ∈ l) (hy : y ∈ l)
    (hk : x.1 = y.1) : x = y := by
  obtain ⟨k, a⟩ := x
  obtain ⟨k', a'⟩ := y
  simp only at hk; subst hk
  have h1 := getKey_of_mem hu hx
  have h2 := getKey_of_mem hu hy
  rw [h1] at h2
  simp only [Option.some.injEq] at h2
  rw [h2]

/-- a sorted dict is determined by its entries -/
theorem sorted_unique : ∀ (l l' : List (String × Arg)), SortedArgs l → SortedArgs l' → KeysUnique l → KeysUnique l' →
    (∀ e, e ∈ l ↔ e ∈ l') → l = l'
  | [], l', _, _, _, _, hm => by
    cases l' with
    | nil => rfl
    | cons y r' => exact absurd ((hm y).mpr (by simp)) (by simp)
  | x :: r, [], _, _, _, _, hm => absurd ((hm x).mp (by simp)) (by simp)
  | x :: r, y :: r', hs, hs', hu, hu', hm => by
    have hs0 := hs
    have hs0' := hs'
    simp only [SortedArgs, List.pairwise_cons] at hs hs'
    have hxy : x = y := by
      rcases List.mem_cons.mp ((hm x).mp (by simp)) with h | hxr'
      · exact h
      · rcases List.mem_cons.mp ((hm y).mpr (by simp)) with h | hyr
        · exact h.symm
        · have h1 : x.1 ≤ y.1 := String.not_lt.mp (hs.1 y hyr)
          have h2 : y.1 ≤ x.1 := String.not_lt.mp (hs'.1 x hxr')
          exact entry_unique hu (by simp) (List.mem_cons_of_mem _ hyr) (String.le_antisymm h1 h2)
    subst hxy
    have hu2 := hu
    have hu2' := hu'
    simp only [KeysUnique, List.map_cons, List.nodup_cons] at hu2 hu2'
    have hr : r = r' := by
      apply sorted_unique r r' hs.2 hs'.2 hu2.2 hu2'.2
      intro e
      constructor
      · intro he
        rcases List.mem_cons.mp ((hm e).mp (List.mem_cons_of_mem _ he)) with h | h
        · subst h; exact absurd (List.mem_map.mpr ⟨e, he, rfl⟩) hu2.1
        · exact h
      · intro he
        rcases List.mem_cons.mp ((hm e).mpr (List.mem_cons_of_mem _ he)) with h | h
        · subst h; exact absurd (List.mem_map.mpr ⟨e, he, rfl⟩) hu2'.1
        · exact h
    rw [hr]

/-- `sorted(node.args)` makes the traversal independent of the dict's insertion order -/
theorem sortArgs_perm {l l' : List (String × Arg)} (hp : l.Perm l') (hu : KeysUnique l) : sortArgs l = sortArgs l' := by
  have hu' : KeysUnique l' := (List.Perm.nodup_iff (hp.map Prod.fst)).mp hu
  apply sorted_unique _ _ (sortArgs_sorted l) (sortArgs_sorted l') (keysUnique_sortArgs hu) (keysUnique_sortArgs hu')
  intro e
  rw [mem_sortArgs, mem_sortArgs]
  exact hp.mem_iff

/-- the hash of a node is the same for every insertion order of its args -/
theorem hashNode_perm (F : HashFns H) (nd nd' : Node H) (ch : Id → Option H) (hc : nd'.cls = nd.cls)
    (hr : nd'.raw = nd.raw) (hp : nd.args.Perm nd'.args) (hu : KeysUnique nd.args) :
    hashNode F nd' ch = hashNode F nd ch := by
  unfold hashNode
  rw [hc, hr, sortArgs_perm hp hu]

/-- the variant that iterates the dict in insertion order (what `__hash__` would be without `sorted`) -/
def hashNodeUnsorted (F : HashFns H) (nd : Node H) (ch : Id → Option H) : Option H :=
  hashArgs F ch nd.raw (F.init nd.cls) nd.args

end SqlglotModel.Tree
