/-
  C16 — helper lemmas: the structural induction that lifts the finite per-operator obligations (`TablesOk`, decided completely
  over the generated tables in Properties/C16.lean) to expressions of any depth and to n-ary nodes with any number of branches.
-/
import SqlglotModel.Model.Types

namespace SqlglotModel.Types

theorem Ty.mem_all (t : Ty) : t ∈ Ty.all := by cases t <;> simp [Ty.all]

theorem ETy.mem_all (e : ETy) : e ∈ ETy.all := by cases e <;> simp [ETy.all]

theorem Sm.mem_all (s : Sm) : s ∈ Sm.all := by
  cases s with
  | of t => simp only [Sm.all, List.mem_append, List.mem_map]; exact Or.inl ⟨t, Ty.mem_all t, rfl⟩
  | intLit => simp [Sm.all]
  | decLit => simp [Sm.all]
  | strLit i => cases i <;> simp [Sm.all]
  | iv d => cases d <;> simp [Sm.all]

theorem Sm.mem_typed {s : Sm} (h : (s != .of .unknown) = true) : s ∈ Sm.typed := by
  simp only [Sm.typed, List.mem_filter]
  exact ⟨Sm.mem_all s, h⟩

theorem BinK.mem_all (k : BinK) : k ∈ BinK.all := by cases k <;> simp [BinK.all]

theorem TernK.mem_all (k : TernK) : k ∈ TernK.all := by cases k <;> simp [TernK.all]

theorem NaryK.mem_all (k : NaryK) : k ∈ NaryK.all := by cases k <;> simp [NaryK.all]

theorem UnK.mem_all_of {k : UnK} (h : unKnown k = true) : k ∈ UnK.all := by
  cases k with
  | cast to =>
    simp only [unKnown, List.contains_iff_mem] at h
    simp only [UnK.all, List.mem_append, List.mem_map]
    exact Or.inl (Or.inr ⟨to, h, rfl⟩)
  | tryCast to =>
    simp only [unKnown, List.contains_iff_mem] at h
    simp only [UnK.all, List.mem_append, List.mem_map]
    exact Or.inr ⟨to, h, rfl⟩
  | _ => simp [UnK.all]

theorem mem_compat {s : Sm} {e : ETy} (h : Rel s e = true) : e ∈ compat s := by
  simp only [compat, List.mem_filter]
  exact ⟨ETy.mem_all e, h⟩

variable (T : Tables)

/-- accepted ⇒ (agrees ⇔ in no family): unary -/
theorem unCheck_iff (h : unCheck T = true) (k : UnK) (a : Sm) (ea : ETy) (hk : unKnown k = true)
    (ht : (a != .of .unknown) = true) (hr : Rel a ea = true) (hne : (engUn T k ea != .error) = true) :
    (famUn k a ea).isNone = Rel (.of (annotUn T k a)) (engUn T k ea) := by
  simp only [unCheck, List.all_eq_true] at h
  have := h k (UnK.mem_all_of hk) a (Sm.mem_typed ht) ea (mem_compat hr)
  simp only [Bool.or_eq_true, beq_iff_eq] at this
  rcases this with h1 | h2
  · simp [h1] at hne
  · exact h2

theorem binCheck_iff (h : binCheck T = true) (k : BinK) (a b : Sm) (ea eb : ETy)
    (hta : (a != .of .unknown) = true) (htb : (b != .of .unknown) = true)
    (hra : Rel a ea = true) (hrb : Rel b eb = true) (hne : (T.duckBin k ea eb != .error) = true) :
    (famBin T k a b ea eb).isNone = Rel (.of (annotBin T k a b)) (T.duckBin k ea eb) := by
  simp only [binCheck, List.all_eq_true] at h
  have := h k (BinK.mem_all k) a (Sm.mem_typed hta) b (Sm.mem_typed htb) ea (mem_compat hra) eb (mem_compat hrb)
  simp only [Bool.or_eq_true, beq_iff_eq] at this
  rcases this with h1 | h2
  · simp [h1] at hne
  · exact h2

theorem ternCheck_iff (hc : ternCondCheck T = true) (h : ternCheck T = true) (k : TernK) (c a b : Sm) (ea eb : ETy)
    (hta : (a != .of .unknown) = true) (htb : (b != .of .unknown) = true)
    (hra : Rel a ea = true) (hrb : Rel b eb = true) (hne : (T.duckTern k ea eb != .error) = true) :
    (famTern k a b).isNone = Rel (.of (annotTern T k c a b)) (T.duckTern k ea eb) := by
  simp only [ternCondCheck, List.all_eq_true, beq_iff_eq] at hc
  rw [hc k (TernK.mem_all k) c (Sm.mem_all c) a (Sm.mem_typed hta) b (Sm.mem_typed htb)]
  simp only [ternCheck, List.all_eq_true] at h
  have := h k (TernK.mem_all k) a (Sm.mem_typed hta) b (Sm.mem_typed htb) ea (mem_compat hra) eb (mem_compat hrb)
  simp only [Bool.or_eq_true, beq_iff_eq] at this
  rcases this with h1 | h2
  · simp [h1] at hne
  · exact h2

/-! ### n-ary: the by-args loop against the engine's running join -/

/-- branch summaries and branch engine classes, position by position -/
def relAll : List Sm → List ETy → Bool
  | [], [] => true
  | s :: ss, e :: es => Rel s e && s != .of .unknown && relAll ss es
  | _, _ => false

theorem byArgsLoop_cons (s : Sm) (ss : List Sm) (acc : Acc) :
    byArgsLoop T (s :: ss) acc = (byArgsStep T acc s).bind (byArgsLoop T ss) := by
  simp only [byArgsStep, byArgsLoop]
  split
  · rfl
  · split <;> rfl

theorem Acc.mem_all {acc : Acc} (h : litOk acc = true) : acc ∈ Acc.all := by
  obtain ⟨l, n⟩ := acc
  simp only [litOk, List.contains_iff_mem] at h
  simp only [Acc.all, List.mem_flatMap, List.mem_map]
  refine ⟨l, h, n, ?_, rfl⟩
  cases n with
  | none => simp
  | some t => simp only [List.mem_cons, List.mem_map]; exact Or.inr ⟨t, Ty.mem_all t, rfl⟩

/-- every in-chain step keeps the invariant; at the end of the list the loop has produced a state related to the fold -/
theorem naryRun_sound (h : naryCheck T = true) (k : NaryK) :
    ∀ (ss : List Sm) (es : List ETy) (acc : Acc) (e : ETy),
      InvN T acc e = true → litOk acc = true → relAll ss es = true → naryRun T k acc e ss es = true →
      ∃ acc', byArgsLoop T ss acc = some acc' ∧ InvN T acc' (es.foldl (T.duckJoin k) e) = true ∧ litOk acc' = true := by
  simp only [naryCheck, Bool.and_eq_true] at h
  obtain ⟨⟨⟨_, _⟩, hstep⟩, _⟩ := h
  simp only [List.all_eq_true] at hstep
  intro ss
  induction ss with
  | nil =>
    intro es acc e hI hL hr _
    cases es with
    | nil => exact ⟨acc, by simp [byArgsLoop], by simpa using hI, hL⟩
    | cons _ _ => simp [relAll] at hr
  | cons s ss ih =>
    intro es acc e hI hL hr hrun
    cases es with
    | nil => simp [relAll] at hr
    | cons e1 es' =>
      simp only [relAll, Bool.and_eq_true] at hr
      obtain ⟨⟨hrs, hts⟩, hrest⟩ := hr
      simp only [naryRun, Bool.and_eq_true] at hrun
      obtain ⟨hok, hm⟩ := hrun
      have hs := hstep k (NaryK.mem_all k) acc (Acc.mem_all hL)
      cases hacc : accSm T acc with
      | none => simp [InvN, hacc] at hI
      | some r =>
        simp only [hacc, List.all_eq_true] at hs
        have hre : Rel r e = true := by
          simp only [InvN, hacc, Bool.and_eq_true] at hI; exact hI.1
        have hs2 := hs e (mem_compat hre) s (Sm.mem_typed hts) e1 (mem_compat hrs)
        cases hst : byArgsStep T acc s with
        | none => simp [hst] at hm
        | some acc1 =>
          simp only [hst, Bool.and_eq_true] at hm
          obtain ⟨hne, hrun'⟩ := hm
          simp only [hst, hI, hL, hok, Bool.and_self, Bool.not_true, Bool.false_or, Bool.or_eq_true,
            Bool.and_eq_true, beq_iff_eq] at hs2
          rcases hs2 with h1 | ⟨hI1, hL1⟩
          · simp [h1] at hne
          · obtain ⟨acc', hloop, hI', hL'⟩ := ih es' acc1 (T.duckJoin k e e1) hI1 hL1 hrest hrun'
            refine ⟨acc', ?_, ?_, hL'⟩
            · rw [byArgsLoop_cons, hst]; simpa using hloop
            · simpa [List.foldl] using hI'

theorem annotNary_eq {k : NaryK} {p : Bool} (h : naryPromote T k = some p) (args : List Sm) :
    annotNary T k args = byArgs T args p := by
  simp only [naryPromote] at h
  simp only [annotNary]
  split at h
  · rename_i m q hmd
    split at h
    · rename_i hb
      simp only [Option.some.injEq] at h
      subst h
      simp [hmd, hb]
    · cases h
  · cases h

/-- **n-ary agreement.** Any number of in-chain branches: the by-args result and the engine's folded join agree. -/
theorem nary_sound (h : naryCheck T = true) (k : NaryK) (ss : List Sm) (es : List ETy)
    (hr : relAll ss es = true) (hok : naryOk T k ss es = true) :
    Rel (.of (annotNary T k ss)) (engNary T k es) = true := by
  have h' := h
  simp only [naryCheck, Bool.and_eq_true] at h'
  obtain ⟨⟨⟨hmeta, hinit⟩, _⟩, hfin⟩ := h'
  simp only [List.all_eq_true] at hmeta hinit hfin
  have hp := hmeta k (NaryK.mem_all k)
  cases hpk : naryPromote T k with
  | none => simp [hpk] at hp
  | some p =>
    cases ss with
    | nil => simp [naryOk] at hok
    | cons s ss' =>
      cases es with
      | nil => simp [naryOk] at hok
      | cons e es' =>
        simp only [relAll, Bool.and_eq_true] at hr
        obtain ⟨⟨hrs, hts⟩, hrest⟩ := hr
        simp only [naryOk] at hok
        have hi := hinit s (Sm.mem_typed hts) e (mem_compat hrs)
        cases hst : byArgsStep T ⟨none, none⟩ s with
        | none => simp [hst] at hok
        | some acc0 =>
          simp only [hst] at hok hi
          simp only [Bool.and_eq_true] at hi
          obtain ⟨acc', hloop, hI', hL'⟩ := naryRun_sound T h k ss' es' acc0 e hi.1 hi.2 hrest hok
          have hA : annotNary T k (s :: ss') = finishTy T p acc' := by
            rw [annotNary_eq T hpk]
            simp only [byArgs, byArgsLoop_cons, hst, Option.bind_some, hloop, finishTy]
          have hfk := hfin k (NaryK.mem_all k) acc' (Acc.mem_all hL')
          cases hacc : accSm T acc' with
          | none => simp [InvN, hacc] at hI'
          | some r =>
            simp only [hacc, List.all_eq_true] at hfk
            have hre : Rel r (es'.foldl (T.duckJoin k) e) = true := by
              simp only [InvN, hacc, Bool.and_eq_true] at hI'; exact hI'.1
            have := hfk _ (mem_compat hre)
            simp only [hI', Bool.not_true, Bool.false_or, hpk, Option.getD_some] at this
            rw [hA]
            simpa [engNary] using this

/-! ### the induction over expressions -/

variable (S : Schema)

mutual
/-- **Induction over expressions.** If the finite obligations hold for the tables, then for every well-formed expression of
    any depth (and n-ary nodes of any width) the annotator's summary of the root and the engine's class describe the same
    kind of value. -/
theorem rel_of_tablesOk (h : TablesOk T = true) (hx : extraCheck T = true) : ∀ e : TExpr, WF T S e = true → Rel (sm T S e) (eng T S e) = true
  | .col q n => by
    intro hw
    have hL : leafCheck T = true := by simp only [TablesOk, Bool.and_eq_true] at h; exact h.1.1.1.1.1
    simp only [leafCheck, Bool.and_eq_true, List.all_eq_true] at hL
    cases q with
    | this =>
      simp only [WF] at hw
      cases hlk : S.table.lookup n with
      | none => simp [hlk] at hw
      | some t =>
        simp only [hlk, List.contains_iff_mem] at hw
        simpa [sm, eng, annotCol, hlk] using hL.1.1.1.1 t hw
    | derived a =>
      simp only [WF] at hw
      cases hlk : (S.derived.lookup a).bind (·.lookup n) with
      | none => simp [hlk] at hw
      | some p =>
        obtain ⟨t, e⟩ := p
        simp only [hlk, Bool.and_eq_true] at hw
        simpa [sm, eng, annotCol, hlk] using hw.1
    | none => simp [WF] at hw
    | other => simp [WF] at hw
  | .intLit => by
    intro _
    have hL : leafCheck T = true := by simp only [TablesOk, Bool.and_eq_true] at h; exact h.1.1.1.1.1
    simp only [leafCheck, Bool.and_eq_true, beq_iff_eq] at hL
    simp [sm, eng, hL.1.1.1.2, Rel, eclassOf, classOf, Sm.ty]
  | .decLit => by
    intro _
    have hL : leafCheck T = true := by simp only [TablesOk, Bool.and_eq_true] at h; exact h.1.1.1.1.1
    simp only [leafCheck, Bool.and_eq_true, beq_iff_eq] at hL
    simp [sm, eng, hL.1.1.1.2, Rel, eclassOf, classOf, Sm.ty]
  | .strLit i => by
    intro _
    have hL : leafCheck T = true := by simp only [TablesOk, Bool.and_eq_true] at h; exact h.1.1.1.1.1
    simp only [leafCheck, Bool.and_eq_true, beq_iff_eq] at hL
    simp [sm, eng, hL.1.1.1.2, Rel]
  | .nullLit => by
    intro _
    have hL : leafCheck T = true := by simp only [TablesOk, Bool.and_eq_true] at h; exact h.1.1.1.1.1
    simp only [leafCheck, Bool.and_eq_true] at hL
    simpa [sm, eng] using hL.1.2
  | .boolLit => by
    intro _
    have hL : leafCheck T = true := by simp only [TablesOk, Bool.and_eq_true] at h; exact h.1.1.1.1.1
    simp only [leafCheck, Bool.and_eq_true] at hL
    simpa [sm, eng] using hL.2
  | .interval d => by
    intro _
    have hL : leafCheck T = true := by simp only [TablesOk, Bool.and_eq_true] at h; exact h.1.1.1.1.1
    simp only [leafCheck, Bool.and_eq_true, beq_iff_eq] at hL
    simp [sm, eng, hL.1.1.2, Rel, eclassOf, classOf, Sm.ty]
  | .numLit k => by
    intro hw
    simp only [extraCheck, Bool.and_eq_true, List.all_eq_true, beq_iff_eq] at hx
    have := hx.1.1 k (by cases k <;> simp [NumLitK.all])
    simp only [WF] at hw
    rw [hw] at this
    simpa [sm, eng] using this.symm
  | .win0 k => by
    intro _
    simp only [extraCheck, Bool.and_eq_true, List.all_eq_true] at hx
    simpa [sm, eng] using hx.1.2 k (by cases k <;> simp [Win0K.all])
  | .pred3 k a b c => by
    intro hw
    simp only [extraCheck, Bool.and_eq_true, List.all_eq_true] at hx
    have := hx.2 k (by cases k <;> simp [Pred3K.all]) (eng T S a) (ETy.mem_all _) (eng T S b) (ETy.mem_all _)
      (eng T S c) (ETy.mem_all _)
    simp only [WF, Bool.and_eq_true] at hw
    have hne := hw.2
    simp only [Bool.or_eq_true, beq_iff_eq] at this
    rcases this with h1 | h2
    · simp [eng, h1] at hne
    · simpa [sm, eng] using h2
  | .un k a => by
    intro hw
    have hU : unCheck T = true := by simp only [TablesOk, Bool.and_eq_true] at h; exact h.1.1.1.1.2
    simp only [WF, Bool.and_eq_true] at hw
    obtain ⟨⟨⟨⟨⟨hwa, hto⟩, _⟩, hk⟩, hf⟩, hne⟩ := hw
    simp only [typedOperand, Bool.and_eq_true] at hto
    have := unCheck_iff T hU k (sm T S a) (eng T S a) hk hto.2 (rel_of_tablesOk h hx a hwa) hne
    rw [hf] at this
    simpa [sm, eng] using this.symm
  | .bin k a b => by
    intro hw
    have hB : binCheck T = true := by simp only [TablesOk, Bool.and_eq_true] at h; exact h.1.1.1.2
    simp only [WF, Bool.and_eq_true] at hw
    obtain ⟨⟨⟨⟨hwa, hwb⟩, hta, htb⟩, hf⟩, hne⟩ := hw
    simp only [typedOperand, Bool.and_eq_true] at hta htb
    have := binCheck_iff T hB k (sm T S a) (sm T S b) (eng T S a) (eng T S b) hta.2 htb.2
      (rel_of_tablesOk h hx a hwa) (rel_of_tablesOk h hx b hwb) hne
    rw [hf] at this
    simpa [sm, eng] using this.symm
  | .tern k c a b => by
    intro hw
    have hC : ternCondCheck T = true := by simp only [TablesOk, Bool.and_eq_true] at h; exact h.1.1.2
    have hT : ternCheck T = true := by simp only [TablesOk, Bool.and_eq_true] at h; exact h.1.2
    simp only [WF, Bool.and_eq_true, beq_iff_eq] at hw
    obtain ⟨⟨⟨⟨⟨⟨_, hwa⟩, hwb⟩, ⟨_, hta⟩, htb⟩, hc⟩, hf⟩, hne⟩ := hw
    simp only [typedOperand, Bool.and_eq_true] at hta htb
    have := ternCheck_iff T hC hT k (sm T S c) (sm T S a) (sm T S b) (eng T S a) (eng T S b) hta.2 htb.2
      (rel_of_tablesOk h hx a hwa) (rel_of_tablesOk h hx b hwb) hne
    rw [hf] at this
    simpa [sm, eng, hc] using this.symm
  | .nary k args => by
    intro hw
    have hN : naryCheck T = true := by simp only [TablesOk, Bool.and_eq_true] at h; exact h.2
    simp only [WF, Bool.and_eq_true] at hw
    obtain ⟨⟨hwa, hok⟩, hty⟩ := hw
    simpa [sm, eng] using nary_sound T hN k _ _ (relArgs_of_tablesOk h hx args hwa hty) hok
theorem relArgs_of_tablesOk (h : TablesOk T = true) (hx : extraCheck T = true) :
    ∀ args : TArgs, WFArgs T S args = true → argsTyped T S args = true →
      relAll (smArgs T S args) (engArgs T S args) = true
  | .nil => by intro _ _; simp [smArgs, engArgs, relAll]
  | .cons e rest => by
    intro hw ht
    simp only [WFArgs, Bool.and_eq_true] at hw
    simp only [argsTyped, typedOperand, Bool.and_eq_true] at ht
    simp only [smArgs, engArgs, relAll, Bool.and_eq_true]
    exact ⟨⟨rel_of_tablesOk h hx e hw.1, ht.1.2⟩, relArgs_of_tablesOk h hx rest hw.2 ht.2⟩
end

/-! ### the per-call cache of child-scope projections is transparent when its key contains the scope -/

theorem mem_of_lookup {β : Type} : ∀ (l : List ((Nat × String) × β)) (k : Nat × String) (v : β),
    l.lookup k = some v → (k, v) ∈ l
  | [], _, _, h => by simp [List.lookup] at h
  | (k', v') :: l, k, v, h => by
    simp only [List.lookup] at h
    split at h
    · rename_i heq
      simp only [beq_iff_eq] at heq
      simp only [Option.some.injEq] at h
      subst heq; subst h
      exact List.mem_cons_self
    · exact List.mem_cons_of_mem _ (mem_of_lookup l k v h)

/-- entries of the current scope are what a miss would compute; no entry belongs to a later scope -/
def CacheInv (cache : SelCache) (i : Nat) (S : Schema) : Prop :=
  (∀ a v, cache.lookup (i, a) = some v → v = sourceSelects S a) ∧ (∀ k v, (k, v) ∈ cache → k.1 ≤ i)

theorem cachedSelects_sound (cache : SelCache) (i : Nat) (S : Schema) (a : String) (h : CacheInv cache i S) :
    (cachedSelects true cache i S a).2 = sourceSelects S a ∧ CacheInv (cachedSelects true cache i S a).1 i S := by
  simp only [cachedSelects, cacheKey, if_true]
  cases hl : cache.lookup (i, a) with
  | some sel => exact ⟨h.1 a sel hl, h⟩
  | none =>
    refine ⟨rfl, ?_, ?_⟩
    · intro a' v hv
      simp only [List.lookup] at hv
      split at hv
      · rename_i heq
        simp only [beq_iff_eq, Prod.mk.injEq] at heq
        simp only [Option.some.injEq] at hv
        rw [← hv, heq.2]
      · exact h.1 a' v hv
    · intro k v hm
      simp only [List.mem_cons] at hm
      rcases hm with hm | hm
      · simp only [Prod.mk.injEq] at hm; rw [hm.1]; exact Nat.le_refl _
      · exact h.2 k v hm

theorem resolveRefs_sound (i : Nat) (S : Schema) :
    ∀ (refs : List (String × String)) (cache : SelCache), CacheInv cache i S →
      (resolveRefs true i S cache refs).2 = refs.map (fun (a, n) => selTy (sourceSelects S a) n)
      ∧ CacheInv (resolveRefs true i S cache refs).1 i S
  | [], cache, h => ⟨rfl, h⟩
  | (a, n) :: rest, cache, h => by
    have h1 := cachedSelects_sound cache i S a h
    have h2 := resolveRefs_sound i S rest (cachedSelects true cache i S a).1 h1.2
    simp only [resolveRefs, List.map_cons]
    exact ⟨by rw [h1.1, h2.1], h2.2⟩

/-- **Cache transparency.** With the scope in the key, one shared cache over any number of scopes resolves every reference
    exactly as its own scope's sources say — whatever aliases and column names recur. -/
theorem runScopes_transparent :
    ∀ (qs : List (Schema × List (String × String))) (cache : SelCache) (i : Nat),
      (∀ k v, (k, v) ∈ cache → k.1 < i) → runScopes true cache i qs = uncachedScopes qs
  | [], _, _, _ => rfl
  | (S, refs) :: rest, cache, i, hfresh => by
    have hinv : CacheInv cache i S := by
      refine ⟨?_, fun k v hm => Nat.le_of_lt (hfresh k v hm)⟩
      intro a v hv
      exact absurd (hfresh _ _ (mem_of_lookup cache (i, a) v hv)) (Nat.lt_irrefl i)
    have hs := resolveRefs_sound i S refs cache hinv
    have hnext : ∀ k v, (k, v) ∈ (resolveRefs true i S cache refs).1 → k.1 < i + 1 :=
      fun k v hm => Nat.lt_succ_of_le (hs.2.2 k v hm)
    simp only [runScopes, uncachedScopes, List.map_cons]
    rw [hs.1, runScopes_transparent rest _ (i + 1) hnext]
    rfl

/-- `Rel` at a non-literal summary is class equality -/
theorem rel_class {s : Sm} {e : ETy} (h : Rel s e = true) : eclassOf e = some (classOf s.ty) := by
  cases s with
  | strLit i => simp only [Rel, beq_iff_eq] at h; subst h; rfl
  | of t => simp only [Rel, Bool.and_eq_true, beq_iff_eq] at h; exact h.2
  | intLit => simp only [Rel, Bool.and_eq_true, beq_iff_eq] at h; exact h.2
  | decLit => simp only [Rel, Bool.and_eq_true, beq_iff_eq] at h; exact h.2
  | iv d => simp only [Rel, Bool.and_eq_true, beq_iff_eq] at h; exact h.2

end SqlglotModel.Types
