/-
  C16 — helper lemmas: the structural induction that lifts the finite per-operator obligations (`TablesOk`, decided completely
  over the generated tables in Properties/C16.lean) to expressions of any depth.
-/
import SqlglotModel.Model.Types

namespace SqlglotModel.Types

theorem Ty.mem_all (t : Ty) : t ∈ Ty.all := by cases t <;> simp [Ty.all]

theorem ETy.mem_all (e : ETy) : e ∈ ETy.all := by cases e <;> simp [ETy.all]

theorem Sm.mem_all (s : Sm) : s ∈ Sm.all := by
  cases s with
  | of t => simp only [Sm.all, List.mem_append, List.mem_map]; exact Or.inl ⟨t, Ty.mem_all t, rfl⟩
  | intLit => simp [Sm.all]
  | decLit => simp [Sm.all]
  | strLit i => cases i <;> simp [Sm.all]
  | iv d => cases d <;> simp [Sm.all]

theorem BinK.mem_all (k : BinK) : k ∈ BinK.all := by cases k <;> simp [BinK.all]

theorem TernK.mem_all (k : TernK) : k ∈ TernK.all := by cases k <;> simp [TernK.all]

theorem UnK.mem_all_of_dom {k : UnK} {a : Sm} {ea : ETy} (h : domUn k a ea = true) : k ∈ UnK.all := by
  cases k with
  | cast to =>
    simp only [domUn, List.contains_iff_mem] at h
    simp only [UnK.all, List.mem_append, List.mem_map]
    exact Or.inr ⟨to, h, rfl⟩
  | _ => simp [UnK.all]

theorem mem_compat {s : Sm} {e : ETy} (h : Rel s e = true) : e ∈ compat s := by
  simp only [compat, List.mem_filter]
  exact ⟨ETy.mem_all e, h⟩

variable (T : Tables)

theorem unCheck_spec (h : unCheck T = true) (k : UnK) (a : Sm) (ea : ETy)
    (hr : Rel a ea = true) (hd : domUn k a ea = true) (hne : (T.duckUn k ea != .error) = true) :
    Rel (.of (annotUn T k a)) (T.duckUn k ea) = true := by
  simp only [unCheck, List.all_eq_true] at h
  have := h k (UnK.mem_all_of_dom hd) a (Sm.mem_all a) ea (mem_compat hr)
  simp only [Bool.or_eq_true, Bool.not_eq_true', hd] at this
  rcases this with (h1 | h2) | h3
  · cases h1
  · simp only [beq_iff_eq] at h2; simp [h2] at hne
  · exact h3

theorem binCheck_spec (h : binCheck T = true) (k : BinK) (a b : Sm) (ea eb : ETy)
    (hra : Rel a ea = true) (hrb : Rel b eb = true) (hd : domBin k a b ea eb = true)
    (hne : (T.duckBin k ea eb != .error) = true) :
    Rel (.of (annotBin T k a b)) (T.duckBin k ea eb) = true := by
  simp only [binCheck, List.all_eq_true] at h
  have := h k (BinK.mem_all k) a (Sm.mem_all a) b (Sm.mem_all b) ea (mem_compat hra) eb (mem_compat hrb)
  simp only [Bool.or_eq_true, Bool.not_eq_true', hd] at this
  rcases this with (h1 | h2) | h3
  · cases h1
  · simp only [beq_iff_eq] at h2; simp [h2] at hne
  · exact h3

theorem ternCheck_spec (h : ternCheck T = true) (k : TernK) (c a b : Sm) (ea eb : ETy)
    (hra : Rel a ea = true) (hrb : Rel b eb = true) (hd : domTern k a b = true)
    (hne : (T.duckTern k ea eb != .error) = true) :
    Rel (.of (annotTern T k c a b)) (T.duckTern k ea eb) = true := by
  simp only [ternCheck, List.all_eq_true] at h
  have := h k (TernK.mem_all k) c (Sm.mem_all c) a (Sm.mem_all a) b (Sm.mem_all b) ea (mem_compat hra) eb (mem_compat hrb)
  simp only [Bool.or_eq_true, Bool.not_eq_true', hd] at this
  rcases this with (h1 | h2) | h3
  · cases h1
  · simp only [beq_iff_eq] at h2; simp [h2] at hne
  · exact h3

/-- **Induction over expressions.** If the finite obligations hold for the tables, then for every well-formed expression of any
    depth the annotator's summary of the root and the engine's class describe the same kind of value. -/
theorem rel_of_tablesOk (h : TablesOk T = true) : ∀ e : TExpr, WF T e = true → Rel (sm T e) (eng T e) = true := by
  simp only [TablesOk, Bool.and_eq_true] at h
  obtain ⟨⟨⟨hL, hU⟩, hB⟩, hT⟩ := h
  simp only [leafCheck, Bool.and_eq_true, List.all_eq_true, beq_iff_eq] at hL
  obtain ⟨⟨⟨⟨hcol, hlit⟩, hiv⟩, hnull⟩, hbool⟩ := hL
  intro e
  induction e with
  | col t =>
    intro hw
    simp only [WF, List.contains_iff_mem] at hw
    simpa [sm, eng] using hcol t hw
  | intLit => intro _; simp [sm, eng, hlit, Rel, eclassOf, classOf, Sm.ty]
  | decLit => intro _; simp [sm, eng, hlit, Rel, eclassOf, classOf, Sm.ty]
  | strLit i => intro _; simp [sm, eng, hlit, Rel]
  | nullLit => intro _; simpa [sm, eng] using hnull
  | boolLit => intro _; simpa [sm, eng] using hbool
  | interval d => intro _; simp [sm, eng, hiv, Rel, eclassOf, classOf, Sm.ty]
  | un k a ih =>
    intro hw
    simp only [WF, Bool.and_eq_true] at hw
    obtain ⟨⟨⟨hwa, _⟩, hd⟩, hne⟩ := hw
    simpa [sm, eng] using unCheck_spec T hU k (sm T a) (eng T a) (ih hwa) hd hne
  | bin k a b iha ihb =>
    intro hw
    simp only [WF, Bool.and_eq_true] at hw
    obtain ⟨⟨⟨⟨hwa, hwb⟩, _⟩, hd⟩, hne⟩ := hw
    simpa [sm, eng] using binCheck_spec T hB k (sm T a) (sm T b) (eng T a) (eng T b) (iha hwa) (ihb hwb) hd hne
  | tern k c a b _ iha ihb =>
    intro hw
    simp only [WF, Bool.and_eq_true, beq_iff_eq] at hw
    obtain ⟨⟨⟨⟨⟨⟨_, hwa⟩, hwb⟩, _⟩, hc⟩, hd⟩, hne⟩ := hw
    simpa [sm, eng, hc] using
      ternCheck_spec T hT k (sm T c) (sm T a) (sm T b) (eng T a) (eng T b) (iha hwa) (ihb hwb) hd hne

/-- `Rel` at a non-literal summary is class equality -/
theorem rel_class {s : Sm} {e : ETy} (h : Rel s e = true) : eclassOf e = some (classOf s.ty) := by
  cases s with
  | strLit i => simp only [Rel, beq_iff_eq] at h; subst h; rfl
  | of t => simp only [Rel, Bool.and_eq_true, beq_iff_eq] at h; exact h.2
  | intLit => simp only [Rel, Bool.and_eq_true, beq_iff_eq] at h; exact h.2
  | decLit => simp only [Rel, Bool.and_eq_true, beq_iff_eq] at h; exact h.2
  | iv d => simp only [Rel, Bool.and_eq_true, beq_iff_eq] at h; exact h.2

end SqlglotModel.Types
