/-
  C04 helper lemmas: `sanitize_comment` leaves no block-comment marker, and the `_scan_comment` loop then consumes
  exactly the generated comment.
-/
import SqlglotModel.Model.Str

namespace SqlglotModel.Str

theorem hasPair_cons (p q x : Char) (L : List Char) :
    hasPair p q (x :: L) = ((x == p && L.head? == some q) || hasPair p q L) := by
  cases L with
  | nil => simp [hasPair]
  | cons y r => simp [hasPair]

theorem head_replace2 (a b s : Char) : ∀ l : List Char, (replace2 a b [a, s, b] l).head? = l.head? := by
  intro l
  fun_induction replace2 a b [a, s, b] l with
  | case1 => rfl
  | case2 x => rfl
  | case3 x y r hm ih => simp [hm.1]
  | case4 x y r hm ih => simp

/-- after `replace(ab, a s b)` no `ab` is left -/
theorem hasPair_replace_same (a b s : Char) (hab : a ≠ b) (hsa : s ≠ a) (hsb : s ≠ b) :
    ∀ l : List Char, hasPair a b (replace2 a b [a, s, b] l) = false := by
  intro l
  fun_induction replace2 a b [a, s, b] l with
  | case1 => simp [hasPair]
  | case2 x => simp [hasPair]
  | case3 x y r hm ih =>
    simp only [List.cons_append, List.nil_append]
    rw [hasPair_cons, hasPair_cons, hasPair_cons, ih]
    simp [hsb, hsa, Ne.symm hab]
  | case4 x y r hm ih =>
    rw [hasPair_cons, ih, head_replace2]
    simp only [List.head?_cons, Bool.or_false]
    by_cases hx : x = a
    · by_cases hy : y = b
      · exact absurd ⟨hx, hy⟩ hm
      · simp [hy]
    · simp [hx]

/-- `replace(ab, a s b)` does not create a `ba` -/
theorem hasPair_replace_other (a b s : Char) (hab : a ≠ b) (hsa : s ≠ a) (hsb : s ≠ b) :
    ∀ l : List Char, hasPair b a l = false → hasPair b a (replace2 a b [a, s, b] l) = false := by
  intro l
  fun_induction replace2 a b [a, s, b] l with
  | case1 => intro _; simp [hasPair]
  | case2 x => intro _; simp [hasPair]
  | case3 x y r hm ih =>
    intro h
    obtain ⟨rfl, rfl⟩ := hm
    rw [hasPair_cons, hasPair_cons] at h
    simp only [Bool.or_eq_false_iff] at h
    obtain ⟨_, h2, h3⟩ := h
    simp only [List.cons_append, List.nil_append]
    rw [hasPair_cons, hasPair_cons, hasPair_cons, ih h3, head_replace2]
    simp only [beq_self_eq_true, Bool.true_and] at h2
    simp [hsb, hsa, hab, h2]
  | case4 x y r hm ih =>
    intro h
    rw [hasPair_cons] at h
    simp only [Bool.or_eq_false_iff] at h
    rw [hasPair_cons, ih h.2, head_replace2]
    simpa using h.1

/-- a last character that cannot end the pattern stays the last character -/
theorem replace2_append_last (a b : Char) (rep : List Char) (w : Char) (hw : w ≠ b) :
    ∀ l : List Char, replace2 a b rep (l ++ [w]) = replace2 a b rep l ++ [w] := by
  intro l
  fun_induction replace2 a b rep l with
  | case1 => simp [replace2]
  | case2 x => simp [replace2, hw]
  | case3 x y r hm ih => simp [replace2, hm.1, hm.2, ih]
  | case4 x y r hm ih =>
    have : ¬(x = a ∧ y = b) := hm
    simp only [List.cons_append] at ih ⊢
    rw [replace2]
    simp [this, ih]

theorem padFront_ne_nil (isSpace : Char → Bool) (c : List Char) (hc : c ≠ []) : padFront isSpace c ≠ [] := by
  cases c with
  | nil => exact absurd rfl hc
  | cons x r =>
    simp only [padFront]
    split <;> simp

/-- the padded comment ends with a character that is a blank or for which `strip()` is empty -/
theorem padBack_spec (isSpace : Char → Bool) (l : List Char) (hl : l ≠ []) :
    ∃ p0 w, padBack isSpace l = p0 ++ [w] ∧ (w = ' ' ∨ isSpace w = true) := by
  have hd : l = l.dropLast ++ [l.getLast hl] := (List.dropLast_concat_getLast hl).symm
  have hg : l.getLast? = some (l.getLast hl) := List.getLast?_eq_some_getLast hl
  simp only [padBack, hg]
  by_cases hs : isSpace (l.getLast hl) = true
  · exact ⟨l.dropLast, l.getLast hl, by simp [hs, ← hd], Or.inr hs⟩
  · exact ⟨l, ' ', by simp [hs], Or.inl rfl⟩

theorem scanC_plain (nested : Bool) (d : Nat) (cur nxt : Char) (r : List Char)
    (h1 : ¬(cur = '*' ∧ nxt = '/')) (h2 : r ≠ []) (h3 : opensNested nested nxt r = false) :
    scanC nested d cur (nxt :: r) = scanC nested d nxt r := by
  have h1' : ¬(cur = '*' ∧ nxt = '/' ∧ d = 1) := fun ⟨a, b, _⟩ => h1 ⟨a, b⟩
  cases r with
  | nil => exact absurd rfl h2
  | cons a r' =>
    cases r' with
    | nil => simp [scanC, h1, h1', h3]
    | cons b r'' => simp [scanC, h1, h1', h3]

theorem scanC_close (nested : Bool) (r : List Char) : scanC nested 1 '*' ('/' :: r) = some r := by
  cases r with
  | nil => simp [scanC]
  | cons a r' => cases r' <;> simp [scanC]

structure Clean (nested : Bool) (L : List Char) : Prop where
  no_close : hasPair '*' '/' L = false
  no_open : nested = true → hasPair '/' '*' L = false
  last_ok : nested = true → L.getLast? ≠ some '/'

theorem scanC_clean (nested : Bool) (rest : List Char) :
    ∀ (B : List Char) (x : Char), Clean nested (x :: B) →
      scanC nested 1 x (B ++ '*' :: '/' :: rest) = some rest := by
  intro B
  induction B with
  | nil =>
    intro x _
    have h0' : ¬(x = '*' ∧ '*' = '/') := by intro ⟨_, e⟩; exact absurd e (by decide)
    rw [List.nil_append, scanC_plain nested 1 x '*' ('/' :: rest) h0' (by simp) (by simp [opensNested])]
    exact scanC_close nested rest
  | cons y B' ih =>
    intro x hc
    have h1 := hc.no_close
    rw [hasPair_cons] at h1
    simp only [Bool.or_eq_false_iff, List.head?_cons] at h1
    obtain ⟨h1a, h1b⟩ := h1
    have hnc' : ¬(x = '*' ∧ y = '/') := by
      intro ⟨e1, e2⟩
      simp [e1, e2] at h1a
    have hclean' : Clean nested (y :: B') := by
      refine ⟨h1b, ?_, ?_⟩
      · intro hn
        have := hc.no_open hn
        rw [hasPair_cons] at this
        simp only [Bool.or_eq_false_iff] at this
        exact this.2
      · intro hn
        have := hc.last_ok hn
        simpa [List.getLast?_cons_cons] using this
    have hopen : opensNested nested y (B' ++ '*' :: '/' :: rest) = false := by
      cases hn : nested with
      | false => simp [opensNested]
      | true =>
        have h2 := hc.no_open hn
        rw [hasPair_cons, hasPair_cons] at h2
        simp only [Bool.or_eq_false_iff, List.head?_cons] at h2
        have h3 := hc.last_ok hn
        by_cases hy : y = '/'
        · subst hy
          cases B' with
          | nil => simp at h3
          | cons z B'' =>
            have : z ≠ '*' := by
              intro e
              have := h2.2.1
              simp [e] at this
            simp [opensNested, this]
        · simp [opensNested, hy]
    have hne : B' ++ '*' :: '/' :: rest ≠ [] := by
      cases B' <;> simp
    rw [List.cons_append, scanC_plain nested 1 x y _ hnc' hne hopen]
    exact ih y hclean'

theorem sanitize_spec (isSpace : Char → Bool) (hs1 : isSpace '/' = false) (hs2 : isSpace '*' = false)
    (c : List Char) (hc : c ≠ []) :
    ∃ x B, sanitizeComment isSpace c = x :: B ∧ ∀ nested, Clean nested (x :: B) := by
  obtain ⟨p0, w, hp, hw⟩ := padBack_spec isSpace (padFront isSpace c) (padFront_ne_nil isSpace c hc)
  have hw1 : w ≠ '/' := by
    rcases hw with rfl | hw
    · decide
    · intro e; rw [e, hs1] at hw; cases hw
  have hw2 : w ≠ '*' := by
    rcases hw with rfl | hw
    · decide
    · intro e; rw [e, hs2] at hw; cases hw
  have hS : sanitizeComment isSpace c
      = replace2 '/' '*' ['/', ' ', '*'] (replace2 '*' '/' ['*', ' ', '/'] p0) ++ [w] := by
    simp only [sanitizeComment, hp]
    rw [replace2_append_last '*' '/' _ w hw1, replace2_append_last '/' '*' _ w hw2]
  have hA : hasPair '*' '/' (sanitizeComment isSpace c) = false := by
    simp only [sanitizeComment]
    exact hasPair_replace_other '/' '*' ' ' (by decide) (by decide) (by decide) _
      (hasPair_replace_same '*' '/' ' ' (by decide) (by decide) (by decide) _)
  have hB : hasPair '/' '*' (sanitizeComment isSpace c) = false := by
    simp only [sanitizeComment]
    exact hasPair_replace_same '/' '*' ' ' (by decide) (by decide) (by decide) _
  have hL : (sanitizeComment isSpace c).getLast? = some w := by
    rw [hS]; simp
  cases hcs : sanitizeComment isSpace c with
  | nil => rw [hcs] at hL; simp at hL
  | cons x B =>
    refine ⟨x, B, rfl, fun nested => ⟨?_, ?_, ?_⟩⟩
    · rw [← hcs]; exact hA
    · intro _; rw [← hcs]; exact hB
    · intro _; rw [← hcs, hL]
      intro e
      exact hw1 (by simpa using e)

theorem comment_scan_exact_aux (isSpace : Char → Bool) (hs1 : isSpace '/' = false) (hs2 : isSpace '*' = false)
    (nested : Bool) (c rest : List Char) (hc : c ≠ []) :
    scanCL nested (sanitizeComment isSpace c ++ '*' :: '/' :: rest) = some rest := by
  obtain ⟨x, B, hx, hclean⟩ := sanitize_spec isSpace hs1 hs2 c hc
  rw [hx]
  simpa [scanCL] using scanC_clean nested rest B x (hclean nested)

theorem readComment_generated (isSpace : Char → Bool) (hs1 : isSpace '/' = false) (hs2 : isSpace '*' = false)
    (nested : Bool) (c rest : List Char) (hc : c ≠ []) :
    readComment nested (sanitizeComment isSpace c ++ '*' :: '/' :: rest) = some (sanitizeComment isSpace c, rest) := by
  simp only [readComment, comment_scan_exact_aux isSpace hs1 hs2 nested c rest hc, Option.map_some]
  have : (sanitizeComment isSpace c ++ '*' :: '/' :: rest).length - rest.length - 2 = (sanitizeComment isSpace c).length := by
    simp; omega
  rw [this, List.take_left]

end SqlglotModel.Str
