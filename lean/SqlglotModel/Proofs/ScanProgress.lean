/- Helper lemmas for the `_scan` progress model (C05). Core Lean only. -/
import SqlglotModel.Model.ScanProgress

namespace SqlglotModel.ScanProgress

theorem stepIter_gt {c c' : Nat} {it : Iter} (h : stepIter c it = some c') : c < c' := by
  unfold stepIter at h
  cases hr : rel it.moves 0 with
  | none => simp [hr] at h
  | some a =>
    simp only [hr, Option.some.injEq] at h
    have : 1 ≤ it.offset := by unfold Iter.offset; split <;> omega
    omega

theorem scanLoop_bound (size : Nat) :
    ∀ (its : List Iter) (c n c' n' : Nat), scanLoop size its c n = some (c', n') →
      c ≤ c' ∧ n' + c ≤ n + c' ∧ (n' - n) ≤ size - c := by
  intro its
  induction its with
  | nil => intro c n c' n' h; simp [scanLoop] at h; omega
  | cons it its ih =>
    intro c n c' n' h
    unfold scanLoop at h
    split at h
    · rename_i hlt
      cases hs : stepIter c it with
      | none => simp [hs] at h
      | some c1 =>
        simp only [hs] at h
        have g := stepIter_gt hs
        have := ih c1 (n + 1) c' n' h
        omega
    · simp at h; omega

theorem rel_replicate_fwd (j a : Nat) (rest : List Move) :
    rel (List.replicate j (.fwd 1) ++ rest) a = rel rest (a + j) := by
  induction j generalizing a with
  | zero => simp
  | succ j ih =>
    simp only [List.replicate_succ, List.cons_append, rel]
    rw [ih]; congr 1; omega

end SqlglotModel.ScanProgress
