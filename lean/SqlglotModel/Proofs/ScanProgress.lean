/- Helper lemmas for the `_scan` progress model (C05). Core Lean only. -/
import SqlglotModel.Model.ScanProgress

namespace SqlglotModel.ScanProgress

theorem stepIter_gt {c c' : Nat} {it : Iter} (h : stepIter c it = some c') : c < c' := by
  unfold stepIter at h
  cases hr : rel it.moves 0 with
  | none => simp [hr] at h
  | some a =>
    simp only [hr, Option.some.injEq] at h
    have : 1 ≤ it.offset := by unfold Iter.offset; split <;> omega
    omega

theorem scanLoop_bound (size : Nat) :
    ∀ (its : List Iter) (c n c' n' : Nat), scanLoop size its c n = some (c', n') →
      c ≤ c' ∧ n' + c ≤ n + c' ∧ (n' - n) ≤ size - c := by
  intro its
  induction its with
  | nil => intro c n c' n' h; simp [scanLoop] at h; omega
  | cons it its ih =>
    intro c n c' n' h
    unfold scanLoop at h
    split at h
    · rename_i hlt
      cases hs : stepIter c it with
      | none => simp [hs] at h
      | some c1 =>
        simp only [hs] at h
        have g := stepIter_gt hs
        have := ih c1 (n + 1) c' n' h
        omega
    · simp at h; omega

theorem rel_replicate_fwd (j a : Nat) (rest : List Move) :
    rel (List.replicate j (.fwd 1) ++ rest) a = rel rest (a + j) := by
  induction j generalizing a with
  | zero => simp
  | succ j ih =>
    simp only [List.replicate_succ, List.cons_append, rel]
    rw [ih]; congr 1; omega

theorem rel_all_fwd : ∀ (ms : List Move) (a : Nat), ms.all Move.isFwd = true → ∃ a', rel ms a = some a' ∧ a ≤ a' := by
  intro ms
  induction ms with
  | nil => intro a _; exact ⟨a, rfl, Nat.le_refl _⟩
  | cons m ms ih =>
    intro a h
    simp only [List.all_cons, Bool.and_eq_true] at h
    cases m with
    | fwd k =>
      obtain ⟨a', h1, h2⟩ := ih (a + k) h.2
      exact ⟨a', by simpa [rel] using h1, by omega⟩
    | back k => simp [Move.isFwd] at h

theorem scanRun_spec (size : Nat) (step : Nat → Option Nat) (hp : ∀ c c', step c = some c' → c < c') :
    ∀ (fuel c n : Nat), size - c ≤ fuel →
      scanRun size step fuel c n ≠ .outOfFuel ∧
        ∀ c' n', scanRun size step fuel c n = .done c' n' → size ≤ c' ∧ c ≤ c' ∧ n' ≤ n + (size - c) := by
  intro fuel
  induction fuel with
  | zero =>
    intro c n hf
    have : ¬ c < size := by omega
    simp only [scanRun, this, if_false]
    refine ⟨by simp, ?_⟩
    intro c' n' h; injection h with e1 e2; omega
  | succ fuel ih =>
    intro c n hf
    unfold scanRun
    split
    · rename_i hlt
      cases hs : step c with
      | none => simp
      | some c1 =>
        simp only
        have g := hp c c1 hs
        obtain ⟨i1, i2⟩ := ih c1 (n + 1) (by omega)
        refine ⟨i1, ?_⟩
        intro c' n' h
        have := i2 c' n' h
        omega
    · refine ⟨by simp, ?_⟩
      intro c' n' h; injection h with e1 e2; omega

theorem funnel_broad (handlers raises : List String) (hb : handlers.contains "Exception" = true)
    (hr : raises = ["TokenError"]) (e : Exc) : funnel handlers raises e = .tokenError := by
  have hc : catches handlers e = true := by simp only [catches, hb, Bool.true_or]
  simp only [funnel, hc, hr, if_true]

theorem tokenizeModel_spec (handlers raises : List String) (hb : handlers.contains "Exception" = true)
    (hr : raises = ["TokenError"]) (size : Nat) (step : Nat → Except Exc Nat)
    (hp : ∀ c c', step c = .ok c' → c < c') :
    ∀ (fuel c : Nat), size - c ≤ fuel →
      tokenizeModel handlers raises size step fuel c = .ok ∨ tokenizeModel handlers raises size step fuel c = .tokenError := by
  intro fuel
  induction fuel with
  | zero =>
    intro c hf
    have : ¬ c < size := by omega
    simp [tokenizeModel, this]
  | succ fuel ih =>
    intro c hf
    unfold tokenizeModel
    split
    · cases hs : step c with
      | ok c1 =>
        simp only
        have := hp c c1 hs
        exact ih c1 (by omega)
      | error e =>
        simp only
        exact Or.inr (funnel_broad handlers raises hb hr e)
    · exact Or.inl rfl

end SqlglotModel.ScanProgress
