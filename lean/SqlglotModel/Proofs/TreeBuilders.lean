/-
  Proofs/TreeBuilders.lean — the builder layer with copy=True: receiver and arguments untouched, result disjoint (C09).
-/
import SqlglotModel.Proofs.TreeWalk

namespace SqlglotModel.Tree

variable {H : Type}

/-- the assembly works on material of the region `R` only -/
def InRegionB (R : Id → Prop) : BOp → Prop
  | .new id _ _ => R id
  | .set self _ v => R self ∧ ∀ c, Item.node c ∈ itemOfValue v → R c

/-- admissibility along the assembly: allocations hit unused cells, inserted nodes are unattached -/
def AdmRunB (fuel : Nat) : Heap H → List BOp → Prop
  | _, [] => True
  | h, .new id cls raw :: r => Fresh h id ∧ AdmRunB fuel (opNew h id cls raw) r
  | h, .set self k v :: r => ValueOk h v ∧ ∀ h', opSet fuel h self k v none true = some h' → AdmRunB fuel h' r

theorem runB_inv (F : HashFns H) {fuel : Nat} : ∀ (ops : List BOp) (h h' : Heap H), Inv F h → AdmRunB fuel h ops →
    runB fuel h ops = some h' → Inv F h'
  | [], h, h', hI, _, he => by simp only [runB, Option.some.injEq] at he; subst he; exact hI
  | .new id cls raw :: r, h, h', hI, ha, he => by
    simp only [runB] at he
    exact runB_inv F r _ h' (inv_opNew F hI ha.1) ha.2 he
  | .set self k v :: r, h, h', hI, ha, he => by
    simp only [runB] at he
    split at he
    · next h1 h1e => exact runB_inv F r h1 h' (inv_opSet F hI ha.1 h1e) (ha.2 h1 h1e) he
    · cases he

theorem region_opNew {h : Heap H} {R : Id → Prop} (hR : Region h R) (hk : Keys h) (id : Id) (cls : String) (raw : Bool) :
    Region (opNew h id cls raw) R ∧ Keys (opNew h id cls raw) := by
  refine ⟨⟨?_, ?_⟩, ?_⟩
  · intro n p hn hp
    by_cases e : n = id
    · subst e; rw [opNew_self] at hp; simp [blank] at hp
    · rw [opNew_other _ _ _ e] at hp; exact hR.up n p hn hp
  · intro p k j c hp hs
    by_cases e : p = id
    · subst e
      obtain ⟨a, hg, _⟩ := hs
      rw [opNew_self] at hg; simp [blank, getKey] at hg
    · exact hR.down p k j c hp (by unfold Stored at hs ⊢; rwa [opNew_other _ _ _ e] at hs)
  · intro n
    by_cases e : n = id
    · subst e; rw [opNew_self]; exact keysUnique_nil
    · rw [opNew_other _ _ _ e]; exact hk n

/-- an assembly confined to a region writes no cell outside it and keeps it a region -/
theorem runB_frame {fuel : Nat} {R : Id → Prop} : ∀ (ops : List BOp) (h h' : Heap H), Region h R → Keys h →
    (∀ op, op ∈ ops → InRegionB R op) → runB fuel h ops = some h' →
    (∀ m, ¬ R m → h' m = h m) ∧ Region h' R ∧ Keys h'
  | [], h, h', hR, hk, _, he => by
    simp only [runB, Option.some.injEq] at he; subst he; exact ⟨fun _ _ => rfl, hR, hk⟩
  | .new id cls raw :: r, h, h', hR, hk, hin, he => by
    simp only [runB] at he
    have hid : R id := hin (.new id cls raw) (by simp)
    obtain ⟨hR1, hk1⟩ := region_opNew hR hk id cls raw
    obtain ⟨a, b, c⟩ := runB_frame r _ h' hR1 hk1 (fun op hop => hin op (List.mem_cons_of_mem _ hop)) he
    refine ⟨?_, b, c⟩
    intro m hm
    rw [a m hm, opNew_other _ _ _ (fun e => hm (by rw [e]; exact hid))]
  | .set self k v :: r, h, h', hR, hk, hin, he => by
    simp only [runB] at he
    obtain ⟨hs, hv⟩ := hin (.set self k v) (by simp)
    split at he
    · next h1 h1e =>
      obtain ⟨hR1, hk1⟩ := region_opSet hR hk hs hv h1e
      obtain ⟨a, b, c⟩ := runB_frame r h1 h' hR1 hk1 (fun op hop => hin op (List.mem_cons_of_mem _ hop)) he
      refine ⟨?_, b, c⟩
      intro m hm
      rw [a m hm, opSet_region_frame hR hs hv h1e m hm]
    · cases he

/-- two fresh copies side by side still form one region -/
theorem region_after_second_copy {h1 h2 : Heap H} {base nx1 : Nat} (hle : base ≤ nx1)
    (hR1 : Region h1 (fun m => base ≤ m)) (hR2 : Region h2 (fun m => nx1 ≤ m))
    (hfr : ∀ m, m < nx1 → h2 m = h1 m) : Region h2 (fun m => base ≤ m) := by
  refine ⟨?_, ?_⟩
  · intro n p hn hp
    by_cases e : nx1 > n
    · rw [hfr n e] at hp; exact hR1.up n p hn hp
    · have := hR2.up n p (Nat.le_of_not_lt e) hp; omega
  · intro p k j c hp hs
    by_cases e : nx1 > p
    · unfold Stored at hs; rw [hfr p e] at hs; exact hR1.down p k j c hp hs
    · have := hR2.down p k j c (Nat.le_of_not_lt e) hs; omega

/-- **The builder frame theorem** (copy=True threaded to the receiver copy AND the argument parse): for every heap, every
    receiver tree and every argument tree, whatever the assembly of fresh wrapper nodes, every pre-existing cell — the
    receiver's, the argument's, anybody's — is unchanged, the invariant holds, and the result shares no node with them. -/
theorem builderCopyBoth_pure (F : HashFns H) {fuel : Nat} {h h3 : Heap H} {base nx : Nat} {inst arg c : Id}
    {assemble : Nat → Id → Id → List BOp} (hI : Inv F h) (hf : FreshFrom h base) (hi : base > inst) (ha : base > arg)
    (hreg : ∀ nx2 c a, base ≤ c → base ≤ a → base ≤ nx2 → ∀ op, op ∈ assemble nx2 c a → InRegionB (fun m => base ≤ m) op)
    (hadm : ∀ h2 nx2 c a, Inv F h2 → FreshFrom h2 nx2 → AdmRunB fuel h2 (assemble nx2 c a))
    (he : builderCopyBoth fuel h base inst arg assemble = some (h3, nx, c)) :
    (∀ m, m < base → h3 m = h m) ∧ Inv F h3 ∧ (∀ m, Reach h3 c m → base ≤ m) ∧
    (∀ m, Reach h3 c m → ¬ Reach h3 inst m ∧ ¬ Reach h3 arg m) := by
  unfold builderCopyBoth at he
  split at he
  · cases he
  · next h1 nx1 c1 hc1 =>
    obtain ⟨hI1, hf1, fr1, hR1, hcb, hle1⟩ := deepcopy_spec hI hf hi hc1
    split at he
    · cases he
    · next h2 nx2 a hc2 =>
      have harg1 : nx1 > arg := by omega
      obtain ⟨hI2, hf2, fr2, hR2, hab, hle2⟩ := deepcopy_spec hI1 hf1 harg1 hc2
      have hR : Region h2 (fun m => base ≤ m) := region_after_second_copy hle1 hR1 hR2 fr2
      split at he
      · cases he
      · next h3' hrun =>
        simp only [Option.some.injEq, Prod.mk.injEq] at he
        obtain ⟨e1, e2, e3⟩ := he; subst e1; subst e2; subst e3
        have hcge : base ≤ c1 := by rw [hcb]; exact Nat.le_refl _
        have hage : base ≤ a := by rw [hab]; exact hle1
        have hnge : base ≤ nx2 := by omega
        obtain ⟨f3, hR3, _⟩ := runB_frame _ h2 h3' hR hI2.keys (hreg nx2 c1 a hcge hage hnge) hrun
        have hold : ∀ m, m < base → h3' m = h m := by
          intro m hm
          rw [f3 m (by omega), fr2 m (by omega), fr1 m hm]
        have hI3 := runB_inv F _ h2 h3' hI2 (hadm h2 nx2 c1 a hI2 hf2) hrun
        have hreach : ∀ m, Reach h3' c1 m → base ≤ m := fun m hm => reach_in_region hR3 hcge hm
        have below : ∀ r, base > r → ∀ m, Reach h3' r m → base > m := by
          intro r hr m hm
          induction hm with
          | refl => exact hr
          | step _ hs ih =>
            obtain ⟨a', hg, ha'⟩ := hs
            rw [hold _ ih] at hg
            exact child_below hI hf (getKey_mem hg) ha'
        refine ⟨hold, hI3, hreach, ?_⟩
        intro m hm
        have := hreach m hm
        exact ⟨fun h' => by have := below inst hi m h'; omega, fun h' => by have := below arg ha m h'; omega⟩

end SqlglotModel.Tree
