/-
  Helper lemmas for C02 (core Lean only).
-/
import SqlglotModel.Model.Transpile
import SqlglotModel.Proofs.Bag

namespace SqlglotModel.Transpile
open SqlglotModel.Bag

theorem then_eq_right (o : Ordering) : o.then .eq = o := by cases o <;> rfl

theorem cmpKeys_append (k1 k2 : List SortKey) (a b : Row) :
    cmpKeys (k1 ++ k2) a b = (cmpKeys k1 a b).then (cmpKeys k2 a b) := by
  induction k1 with
  | nil => simp [cmpKeys, Ordering.then]
  | cons k ks ih =>
    simp only [List.cons_append, cmpKeys, ih]
    cases cmpKey k a b <;> rfl

theorem cmpKeys_single (k : SortKey) (a b : Row) : cmpKeys [k] a b = cmpKey k a b := by
  simp [cmpKeys]

theorem nullFlag_not_null (v : Val) : (nullFlag v).isNull = false := by
  unfold nullFlag; split <;> rfl

/-- the two-key simulation `CASE WHEN x IS NULL THEN 1 ELSE 0 END [DESC], x [DESC]` orders like
    `x [DESC] NULLS FIRST|LAST` — for every pair of values -/
theorem simulation_cmp (d nf nf0 nf1 : Bool) (x y : Val) :
    (cmpKeyVal nf nf0 (nullFlag x) (nullFlag y)).then (cmpKeyVal d nf1 x y) = cmpKeyVal d nf x y := by
  cases x <;> cases y <;> cases nf <;> cases nf1 <;>
    simp [cmpKeyVal, nullFlag, Val.isNull, flipIf, cmpVal, Ordering.then, Ordering.swap, compare, compareOfLessAndEq]

/-- lifting lemma: an emitted item list with effective (desc, nullsFirst) compares rows exactly like the single
    key with that (desc, nullsFirst) -/
theorem lift_effective (no : NullOrdering) (f : Row → Val) (ks : List OutKey) (d nf : Bool)
    (h : effective no ks = some (d, nf)) (a b : Row) :
    cmpKeys (ks.map (keySem no f)) a b = cmpKey ⟨f, d, nf⟩ a b := by
  unfold effective at h
  split at h
  · -- single expression key
    simp only [Option.some.injEq, Prod.mk.injEq] at h
    obtain ⟨h1, h2⟩ := h
    subst h1; subst h2
    simp [cmpKeys_single, keySem, cmpKey]
  · -- simulation pair
    simp only [Option.some.injEq, Prod.mk.injEq] at h
    obtain ⟨h1, h2⟩ := h
    subst h1; subst h2
    simp only [List.map, cmpKeys, keySem, cmpKey, then_eq_right]
    exact simulation_cmp _ _ _ _ _ _
  · cases h

/-- FINITE DECISION CORE (decided completely: 3 source classes × 3 target classes × 3 support flags × 9 specs = 243
    cases): parse-then-generate reproduces the source's effective (desc, nullsFirst) on the target class -/
theorem decision_core (src dst : NullOrdering) (sup : Option Bool) (s : OrdSpec) :
    effective dst (genOrdered dst sup (parseOrdered src s)) = some (specEffective src s) := by
  obtain ⟨d, n⟩ := s
  cases src <;> cases dst <;>
    (cases sup with
     | none => cases d with
       | none => cases n with
         | none => rfl
         | some nb => cases nb <;> rfl
       | some db => cases db <;> (cases n with
         | none => rfl
         | some nb => cases nb <;> rfl)
     | some sb => cases sb <;> (cases d with
       | none => cases n with
         | none => rfl
         | some nb => cases nb <;> rfl
       | some db => cases db <;> (cases n with
         | none => rfl
         | some nb => cases nb <;> rfl)))

/-- one ORDER BY item: the generated items compare any two rows like the source item does -/
theorem item_preserved (src dst : NullOrdering) (sup : Option Bool) (s : OrdSpec) (f : Row → Val) (a b : Row) :
    cmpKeys ((genOrdered dst sup (parseOrdered src s)).map (keySem dst f)) a b = cmpKey (specSem src f s) a b := by
  rw [lift_effective dst f _ _ _ (decision_core src dst sup s)]
  rfl

theorem keys_preserved (src dst : NullOrdering) (sup : Option Bool) (ob : OrderBy) (a b : Row) :
    cmpKeys (dstKeys src dst sup ob) a b = cmpKeys (srcKeys src ob) a b := by
  induction ob with
  | nil => rfl
  | cons sf rest ih =>
    simp only [dstKeys, srcKeys, List.flatMap_cons, List.map_cons, cmpKeys_append] at ih ⊢
    rw [item_preserved, cmpKeys, ih]

/-- equal comparators induce the same stable sort -/
theorem sortBy_congr (k1 k2 : List SortKey) (h : ∀ a b, cmpKeys k1 a b = cmpKeys k2 a b) (t : Table) :
    sortBy k1 t = sortBy k2 t := by
  have : leKeys k1 = leKeys k2 := by
    funext a b; simp [leKeys, h]
  simp [sortBy, this]

-- ------------------------------------------------------------------------------------------ division
theorem same_refl_num (n d : Int) : DV.same (.real n d) (.real n d) = true := by
  simp [DV.same, DV.num?]

theorem same_refl (v : DV) : DV.same v v = true := by
  cases v <;> simp [DV.same, DV.num?]

theorem tdiv_mul_of_emod (l r : Int) (h : l % r = 0) : l.tdiv r * r = l :=
  Int.tdiv_mul_cancel (Int.dvd_of_emod_eq_zero h)

theorem divV_null_l (e : Engine) (b : DV) (h : b ≠ .err) : divV e .null b = .null := by
  cases b <;> simp_all [divV]
@[simp] theorem divV_int_null (e : Engine) (x : Int) : divV e (.int x) .null = .null := by simp [divV]
@[simp] theorem divV_real_null (e : Engine) (x y : Int) : divV e (.real x y) .null = .null := by simp [divV]
theorem divV_sqlite_int (x y : Int) :
    divV .sqlite (.int x) (.int y) = if y == 0 then .null else .int (x.tdiv y) := by simp [divV]
theorem divV_duckdb_int (x y : Int) :
    divV .duckdb (.int x) (.int y) = if y == 0 then (if x == 0 then .nan else .inf (x < 0)) else .real x y := by
  simp [divV]
theorem divV_real_l (e : Engine) (an ad y : Int) : divV e (.real an ad) (.int y) =
    if y == 0 then (match e with
      | .sqlite => .null
      | .duckdb => if an == 0 then .nan else .inf ((an < 0) != (ad < 0)))
    else .real (an * 1) (ad * y) := by
  cases e <;> simp [divV, DV.num?]
theorem divV_real_r (e : Engine) (x bn bd : Int) : divV e (.int x) (.real bn bd) =
    if bn == 0 then (match e with
      | .sqlite => .null
      | .duckdb => if x == 0 then .nan else .inf ((x < 0) != ((1:Int) < 0)))
    else .real (x * bd) (1 * bn) := by
  cases e <;> simp [divV, DV.num?]
theorem divV_real_rr (e : Engine) (an ad bn bd : Int) : divV e (.real an ad) (.real bn bd) =
    if bn == 0 then (match e with
      | .sqlite => .null
      | .duckdb => if an == 0 then .nan else .inf ((an < 0) != (ad < 0)))
    else .real (an * bd) (ad * bn) := by
  cases e <;> simp [divV, DV.num?]
theorem nullif0_int (v : Int) : nullif0V (.int v) = if v == 0 then .null else .int v := by
  simp [nullif0V, DV.isZero, DV.num?]
theorem nullif0_real (v d : Int) : nullif0V (.real v d) = if v == 0 then .null else .real v d := by
  simp [nullif0V, DV.isZero, DV.num?]
theorem operandVal_ne_err (a : Ann) (r : Option Int) : operandVal a r ≠ .err := by
  cases r <;> simp [operandVal]; split <;> simp
theorem nullif0V_ne_err (v : DV) (h : v ≠ .err) : nullif0V v ≠ .err := by
  unfold nullif0V; split <;> simp [h]
@[simp] theorem divV_null_op (e : Engine) (a : Ann) (r : Option Int) : divV e .null (operandVal a r) = .null :=
  divV_null_l e _ (operandVal_ne_err a r)
@[simp] theorem divV_null_nullif_op (e : Engine) (a : Ann) (r : Option Int) :
    divV e .null (nullif0V (operandVal a r)) = .null :=
  divV_null_l e _ (nullif0V_ne_err _ (operandVal_ne_err a r))
@[simp] theorem nullif0V_null : nullif0V .null = .null := by simp [nullif0V, DV.isZero, DV.num?]
@[simp] theorem same_null : DV.same .null .null = true := by simp [DV.same, DV.num?]

-- ------------------------------------------------------------------------------------------ LIMIT, rewrites
theorem limit_roundtrip (f : LimitForm) (t : Table) : limitSem (genLimit (parseLimit f)) t = limitSem f t := by
  cases f <;> simp [parseLimit, genLimit, limitSem, limitOffset]

-- ------------------------------------------------------------------------------------------ division chains
/-- DuckDB -> SQLite flags as the theorem uses them: target typed+safe, source neither -/
abbrev toSqlite (anns : Nat → Ann) : DT → CEx := genT true true ⟨false, false⟩ anns

theorem DT.ann_opnd (anns : Nat → Ann) (i : Nat) : (DT.opnd i).ann anns = anns i := rfl

theorem chainT_ann (anns : Nat → Ann) (h : ∀ i, anns i ≠ .real) (k : Nat) : (chainT k).ann anns ≠ .real := by
  cases k with
  | zero => simpa [chainT, DT.ann] using h 0
  | succ k => simp [chainT, DT.ann]

/-- every level of an unparenthesised chain gets its own CAST: the wrapped left operand is not a Div any more, so
    `binary` hands it back to `sql()` and `div_sql` runs again one level down -/
theorem toSqlite_chain_step (anns : Nat → Ann) (h : ∀ i, anns i ≠ .real) (k : Nat) :
    toSqlite anns (chainT (k + 1)) = .div (.castDouble (toSqlite anns (chainT k))) (.opnd (k + 1)) := by
  have h1 := chainT_ann anns h k
  have h2 := h (k + 1)
  simp only [toSqlite, chainT, genT, flat]
  simp [h1, h2, DT.ann_opnd]

theorem plainT_chain_step (k : Nat) : plainT (chainT (k + 1)) = .div (plainT (chainT k)) (.opnd (k + 1)) := by
  simp [chainT, plainT]

/-- chains of ANY length: with integer operands and non-zero divisors the SQLite text computes, level by level,
    exactly the real number DuckDB computes -/
theorem chain_eval (anns : Nat → Ann) (h : ∀ i, anns i ≠ .real) (v : Nat → Int) (k : Nat)
    (hz : ∀ i, 1 ≤ i → i ≤ k + 1 → v i ≠ 0) :
    ∃ n d, evalC .duckdb (fun i => .int (v i)) (plainT (chainT (k + 1))) = .real n d ∧
      evalC .sqlite (fun i => .int (v i)) (toSqlite anns (chainT (k + 1))) = .real n d := by
  induction k with
  | zero =>
    have h1 : v 1 ≠ 0 := hz 1 (by omega) (by omega)
    refine ⟨v 0, v 1, ?_, ?_⟩
    · simp [plainT, chainT, evalC, divV_duckdb_int, h1]
    · rw [toSqlite_chain_step anns h 0]
      simp [toSqlite, chainT, genT, evalC, castDoubleV, divV_real_l, h1]
  | succ k ih =>
    obtain ⟨n, d, hd, hs⟩ := ih (fun i h1 h2 => hz i h1 (by omega))
    have hk : v (k + 2) ≠ 0 := hz (k + 2) (by omega) (by omega)
    refine ⟨n * 1, d * v (k + 2), ?_, ?_⟩
    · rw [plainT_chain_step]
      simp only [evalC, hd]
      simp [divV_real_l, hk]
    · rw [toSqlite_chain_step anns h (k + 1)]
      simp only [evalC, hs, castDoubleV]
      simp [divV_real_l, hk]

-- ------------------------------------------------------------------------------------------ set-operation chains
theorem SetTree.weight_pos (t : SetTree) : 0 < t.weight := by cases t <;> simp [SetTree.weight] <;> omega

/-- the explicit-stack loop prints the stack in order (loop = recursive specification) -/
theorem setOpsLoop_spec (fuel : Nat) (st : List SetItem) (out : List SetTok)
    (h : (st.map SetItem.weight).sum ≤ fuel) :
    setOpsLoop fuel st out = out ++ st.flatMap SetItem.flat := by
  induction fuel generalizing st out with
  | zero =>
    cases st with
    | nil => simp [setOpsLoop]
    | cons x xs =>
      exfalso
      have : 0 < x.weight := by
        cases x with
        | tree t => exact SetTree.weight_pos t
        | kw _ _ => simp [SetItem.weight]
      simp only [List.map_cons, List.sum_cons] at h
      omega
  | succ f ih =>
    cases st with
    | nil => simp [setOpsLoop]
    | cons x xs =>
      cases x with
      | kw k d =>
        simp only [setOpsLoop]
        rw [ih]
        · simp [SetItem.flat, List.append_assoc]
        · simp only [List.map_cons, List.sum_cons, SetItem.weight] at h; omega
      | tree t =>
        cases t with
        | leaf i =>
          simp only [setOpsLoop]
          rw [ih]
          · simp [SetItem.flat, SetTree.inorder, List.append_assoc]
          · simp only [List.map_cons, List.sum_cons, SetItem.weight, SetTree.weight] at h; omega
        | op k d l r =>
          simp only [setOpsLoop]
          rw [ih]
          · simp [SetItem.flat, SetTree.inorder, List.append_assoc]
          · simp only [List.map_cons, List.sum_cons, SetItem.weight, SetTree.weight] at h ⊢; omega

-- ------------------------------------------------------------------------------------------ alias generation
theorem findNewNameFrom_fresh (taken : List String) (base : String) (fuel i : Nat) (n : String)
    (h : findNewNameFrom taken base fuel i = some n) : n ∉ taken := by
  induction fuel generalizing i with
  | zero => simp [findNewNameFrom] at h
  | succ f ih =>
    simp only [findNewNameFrom] at h
    split at h
    · exact ih (i + 1) h
    · rename_i hc
      simp only [Option.some.injEq] at h
      subst h
      simpa using hc

theorem findNewName_fresh (taken : List String) (base n : String) (h : findNewName taken base = some n) :
    n ∉ taken := by
  unfold findNewName at h
  split at h
  · exact findNewNameFrom_fresh taken base _ _ n h
  · rename_i hc
    simp only [Option.some.injEq] at h
    subst h
    simpa using hc

theorem hoistAliases_spec (base : String) (k : Nat) (taken names : List String)
    (h : hoistAliases base taken k = some names) :
    names.Nodup ∧ (∀ n ∈ names, n ∉ taken) ∧ names.length = k := by
  induction k generalizing taken names with
  | zero =>
    simp only [hoistAliases, Option.some.injEq] at h
    subst h
    simp
  | succ k ih =>
    simp only [hoistAliases] at h
    cases hf : findNewName taken base with
    | none => simp [hf] at h
    | some a =>
      simp only [hf] at h
      cases hr : hoistAliases base (taken ++ [a]) k with
      | none => simp [hr] at h
      | some rest =>
        simp only [hr, Option.map_some, Option.some.injEq] at h
        subst h
        obtain ⟨hnd, hfresh, hlen⟩ := ih (taken ++ [a]) rest hr
        have ha : a ∉ taken := findNewName_fresh taken base a hf
        refine ⟨?_, ?_, by simp [hlen]⟩
        · refine List.nodup_cons.mpr ⟨?_, hnd⟩
          intro hmem
          exact hfresh a hmem (by simp)
        · intro n hn
          cases List.mem_cons.mp hn with
          | inl h1 => subst h1; exact ha
          | inr h2 =>
            intro hin
            exact hfresh n h2 (by simp [hin])

-- ------------------------------------------------------------------------------------------ DISTINCT ON as ROW_NUMBER() = 1
theorem rowNumberOneAux_eq (key : Row → Val) (t : Table) (pre : Table) (seen : List Val)
    (h : ∀ v, seen.contains v = pre.any (fun p => key p == v)) :
    rowNumberOneAux key pre t = firstPerKeyAux key seen t := by
  induction t generalizing pre seen with
  | nil => rfl
  | cons r rs ih =>
    simp only [rowNumberOneAux, firstPerKeyAux]
    have hcount : ((pre.filter (fun p => key p == key r)).length + 1 == 1) = !(seen.contains (key r)) := by
      rw [h (key r)]
      cases hf : pre.filter (fun p => key p == key r) with
      | nil =>
        have : pre.any (fun p => key p == key r) = false := by
          rw [← not_isEmpty_filter_eq_any, hf]; rfl
        simp [this]
      | cons x xs =>
        have : pre.any (fun p => key p == key r) = true := by
          rw [← not_isEmpty_filter_eq_any, hf]; rfl
        simp [this]
    have hstep : ∀ v, (key r :: seen).contains v = (r :: pre).any (fun p => key p == v) := by
      intro v
      rw [List.contains_cons, List.any_cons, h v, BEq.comm]
    rw [hcount]
    cases hs : seen.contains (key r)
    · simp only [Bool.not_false, if_true, Bool.false_eq_true, if_false]
      rw [ih (r :: pre) (key r :: seen) hstep]
    · simp only [Bool.not_true, Bool.false_eq_true, if_false, if_true]
      have hstep' : ∀ v, seen.contains v = (r :: pre).any (fun p => key p == v) := by
        intro v
        rw [List.any_cons, ← h v]
        by_cases hk : key r = v
        · subst hk
          rw [hs]; simp
        · have : (key r == v) = false := by simpa using hk
          rw [this]; simp
      rw [ih (r :: pre) seen hstep']

theorem firstPerKeyAux_map_key (key : Row → Val) (t : Table) (seen : List Val) :
    (firstPerKeyAux key seen t).map key = dedupValsAux seen (t.map key) := by
  induction t generalizing seen with
  | nil => rfl
  | cons r rs ih =>
    simp only [firstPerKeyAux, List.map_cons, dedupValsAux]
    cases hs : seen.contains (key r)
    · simp [ih]
    · simp [ih]

end SqlglotModel.Transpile
