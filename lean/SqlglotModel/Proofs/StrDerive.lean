/-
  C04 helper lemmas: the metaclass derivation of ESCAPED_SEQUENCES from UNESCAPED_SEQUENCES yields inverse pairs.
-/
import SqlglotModel.Model.StrDerive
import SqlglotModel.Proofs.Str

namespace SqlglotModel.Str

variable {κ ν : Type} [BEq κ] [LawfulBEq κ]

theorem lookup_mem (l : List (κ × ν)) (a : κ) (b : ν) (h : lookup l a = some b) : (a, b) ∈ l := by
  induction l with
  | nil => simp [lookup] at h
  | cons x xs ih =>
    obtain ⟨k, v⟩ := x
    simp only [lookup] at h
    split at h
    · rename_i hk
      have : k = a := by simpa using hk
      subst this
      cases h
      simp
    · exact List.mem_cons_of_mem _ (ih h)

theorem lookup_isSome_of_mem (l : List (κ × ν)) (a : κ) (b : ν) (h : (a, b) ∈ l) : (lookup l a).isSome = true := by
  induction l with
  | nil => simp at h
  | cons x xs ih =>
    obtain ⟨k, v⟩ := x
    simp only [lookup]
    split
    · rfl
    · rename_i hk
      rcases List.mem_cons.mp h with h | h
      · cases h; simp at hk
      · exact ih h

theorem keysNodup_mem_lookup (l : List (κ × ν)) (hn : keysNodup l = true) (a : κ) (b : ν) (h : (a, b) ∈ l) :
    lookup l a = some b := by
  induction l with
  | nil => simp at h
  | cons x xs ih =>
    obtain ⟨k, v⟩ := x
    simp only [keysNodup, Bool.and_eq_true] at hn
    rcases List.mem_cons.mp h with h | h
    · cases h; simp [lookup]
    · simp only [lookup]
      split
      · rename_i hk
        have : k = a := by simpa using hk
        subst this
        have := lookup_isSome_of_mem xs k b h
        simp [this] at hn
      · exact ih hn.2 h

theorem mem_dictUpdate (d : List (κ × ν)) (k : κ) (v : ν) (p : κ × ν) (h : p ∈ dictUpdate d k v) :
    p ∈ d ∨ p = (k, v) := by
  unfold dictUpdate at h
  split at h
  · obtain ⟨q, hq, rfl⟩ := List.mem_map.mp h
    split
    · rename_i hk
      have : q.1 = k := by simpa using hk
      right; rw [this]
    · left; exact hq
  · rcases List.mem_append.mp h with h | h
    · exact Or.inl h
    · right; simpa using h

theorem lookup_map_isSome (d : List (κ × ν)) (k k0 : κ) (v : ν) :
    (lookup (d.map (fun p => if p.1 == k then (p.1, v) else p)) k0).isSome = (lookup d k0).isSome := by
  induction d with
  | nil => rfl
  | cons x xs ih =>
    obtain ⟨a, b⟩ := x
    simp only [List.map_cons, lookup]
    by_cases h1 : (a == k) = true <;> by_cases h2 : (a == k0) = true <;> simp [h1, h2, ih]

theorem keysNodup_map_update (d : List (κ × ν)) (k : κ) (v : ν) (h : keysNodup d = true) :
    keysNodup (d.map (fun p => if p.1 == k then (p.1, v) else p)) = true := by
  induction d with
  | nil => rfl
  | cons x xs ih =>
    obtain ⟨a, b⟩ := x
    simp only [keysNodup, Bool.and_eq_true] at h
    simp only [List.map_cons]
    by_cases h1 : (a == k) = true
    · simp only [h1, if_true, keysNodup, Bool.and_eq_true]
      exact ⟨by rw [lookup_map_isSome]; exact h.1, ih h.2⟩
    · simp only [h1, if_false, keysNodup, Bool.and_eq_true]
      exact ⟨by rw [lookup_map_isSome]; exact h.1, ih h.2⟩

theorem lookup_append_single (d : List (κ × ν)) (k k0 : κ) (v : ν) (h : (k == k0) = false) :
    lookup (d ++ [(k, v)]) k0 = lookup d k0 := by
  induction d with
  | nil => simp [lookup, h]
  | cons x xs ih =>
    obtain ⟨a, b⟩ := x
    simp only [List.cons_append, lookup]
    split
    · rfl
    · exact ih

theorem keysNodup_dictUpdate (d : List (κ × ν)) (k : κ) (v : ν) (h : keysNodup d = true) :
    keysNodup (dictUpdate d k v) = true := by
  unfold dictUpdate
  split
  · exact keysNodup_map_update d k v h
  · rename_i hk
    induction d with
    | nil => simp [keysNodup, lookup]
    | cons x xs ih =>
      obtain ⟨a, b⟩ := x
      simp only [keysNodup, Bool.and_eq_true] at h
      simp only [lookup] at hk
      split at hk
      · simp at hk
      · rename_i hak
        have hak' : (a == k) = false := by simpa using hak
        have hka : (k == a) = false := by
          cases hc : (k == a) with
          | false => rfl
          | true =>
            have e : k = a := by simpa using hc
            subst e
            simp at hak'
        simp only [List.cons_append, keysNodup, Bool.and_eq_true]
        exact ⟨by rw [lookup_append_single xs k a v hka]; exact h.1, ih h.2 hk⟩

theorem keysNodup_dictMerge (a b : List (κ × ν)) (h : keysNodup a = true) : keysNodup (dictMerge a b) = true := by
  unfold dictMerge
  induction b generalizing a with
  | nil => simpa using h
  | cons p ps ih => simpa using ih _ (keysNodup_dictUpdate a p.1 p.2 h)

theorem lookup_map_update_ne (d : List (κ × ν)) (k k0 : κ) (v : ν) (h : (k == k0) = false) :
    lookup (d.map (fun p => if p.1 == k then (p.1, v) else p)) k0 = lookup d k0 := by
  induction d with
  | nil => rfl
  | cons x xs ih =>
    obtain ⟨a, b⟩ := x
    simp only [List.map_cons, lookup]
    by_cases h1 : (a == k) = true
    · have e : a = k := by simpa using h1
      subst e
      simp [h, ih]
    · by_cases h2 : (a == k0) = true <;> simp [h1, h2, ih]

theorem lookup_dictUpdate_ne (d : List (κ × ν)) (k k0 : κ) (v : ν) (h : (k == k0) = false) :
    lookup (dictUpdate d k v) k0 = lookup d k0 := by
  unfold dictUpdate
  split
  · exact lookup_map_update_ne d k k0 v h
  · exact lookup_append_single d k k0 v h

theorem lookup_dictMerge_absent (a b : List (κ × ν)) (k0 : κ) (h : ∀ p ∈ b, (p.1 == k0) = false) :
    lookup (dictMerge a b) k0 = lookup a k0 := by
  unfold dictMerge
  induction b generalizing a with
  | nil => rfl
  | cons p ps ih =>
    simp only [List.foldl_cons]
    rw [ih _ (fun q hq => h q (List.mem_cons_of_mem _ hq))]
    exact lookup_dictUpdate_ne a p.1 k0 p.2 (h p List.mem_cons_self)

theorem dictInvertFrom_mem (keep : Char → Bool) (U : List (Seq2 × Char)) :
    ∀ (l : List (Seq2 × Char)) (acc : List (Char × Seq2)), (∀ p ∈ l, p ∈ U) →
      (∀ q ∈ acc, (q.2, q.1) ∈ U ∧ keep q.1 = true) →
      ∀ q ∈ dictInvertFrom keep acc l, (q.2, q.1) ∈ U ∧ keep q.1 = true := by
  intro l
  induction l with
  | nil => intro acc _ hacc q hq; exact hacc q (by simpa [dictInvertFrom] using hq)
  | cons p ps ih =>
    intro acc hl hacc q hq
    simp only [dictInvertFrom, List.foldl_cons] at hq
    have hl' : ∀ p' ∈ ps, p' ∈ U := fun p' hp' => hl p' (List.mem_cons_of_mem _ hp')
    by_cases hk : keep p.2 = true
    · simp only [hk, if_true] at hq
      refine ih (dictUpdate acc p.2 p.1) hl' ?_ q hq
      intro q' hq'
      rcases mem_dictUpdate acc p.2 p.1 q' hq' with h | h
      · exact hacc q' h
      · subst h
        exact ⟨hl p List.mem_cons_self, hk⟩
    · simp only [hk] at hq
      exact ih acc hl' hacc q hq

end SqlglotModel.Str
