/-
  Helper lemmas for C04: one-step behaviour of `scan`, consequences of `wf`, the round-trip induction.
-/
import SqlglotModel.Model.Str

namespace SqlglotModel.Str

/-! ### one-step lemmas for the `_extract_string` loop -/

theorem scan_unesc (c : Cfg) (cur p n u : Char) (r acc : List Char)
    (h : unescLookup c cur p = some u) :
    scan c cur (p :: n :: r) acc = scan c n r (acc ++ [u]) := by
  simp [scan, h]

theorem scan_esc (c : Cfg) (cur p n : Char) (r acc : List Char)
    (h1 : unescLookup c cur p = none) (h2 : escCond c cur p = true) :
    scan c cur (p :: n :: r) acc = scan c n r (acc ++ escOut c cur p) := by
  simp [scan, h1, h2]

theorem scan_plain (c : Cfg) (cur p : Char) (r acc : List Char)
    (h1 : unescLookup c cur p = none) (h2 : escCond c cur p = false) (h3 : cur ≠ c.q) :
    scan c cur (p :: r) acc = scan c p r (acc ++ [cur]) := by
  cases r <;> simp [scan, h1, h2, h3]

theorem scan_close (c : Cfg) (p : Char) (r acc : List Char)
    (h1 : unescLookup c c.q p = none) (h2 : escCond c c.q p = false) :
    scan c c.q (p :: r) acc = .ok acc (p :: r) := by
  cases r <;> simp [scan, h1, h2]

theorem scan_close_nil (c : Cfg) (acc : List Char) (h : escCondEnd c c.q = false) :
    scan c c.q [] acc = .ok acc [] := by
  simp [scan, h]

/-! ### `lookup` facts -/

theorem lookup_all {α β} [BEq α] [LawfulBEq α] (l : List (α × β)) (P : α × β → Bool)
    (h : l.all P = true) (a : α) (b : β) (hl : lookup l a = some b) : P (a, b) = true := by
  induction l with
  | nil => simp [lookup] at hl
  | cons x xs ih =>
    obtain ⟨k, v⟩ := x
    simp only [List.all_cons, Bool.and_eq_true] at h
    simp only [lookup] at hl
    split at hl
    · rename_i hk
      have : k = a := by simpa using hk
      subst this
      cases hl
      exact h.1
    · exact ih h.2 hl

theorem lookup_none_of_all {α β} [BEq α] [LawfulBEq α] (l : List (α × β)) (P : α × β → Bool)
    (h : l.all P = true) (a : α) (hn : ∀ b, P (a, b) = false) : lookup l a = none := by
  cases hl : lookup l a with
  | none => rfl
  | some b =>
    have := lookup_all l P h a b hl
    rw [hn b] at this
    cases this

/-! ### the conjuncts of `wf` -/

structure WF (c : Cfg) : Prop where
  gq_eq : c.gq = c.q
  esc1_eq : c.esc1 = c.q
  esc0_esc : c.isEsc c.esc0 = true
  esc0_q : c.esc0 = c.q ∨ c.isQuote c.esc0 = false
  close : c.isQuote c.q = true ∨ c.isEsc c.q = false ∨ ∀ x, c.isEsc x = true → x = c.q
  q_ne_bs : c.q ≠ '\\'
  seq_ok : ∀ ch a b, seqOf c ch = some (a, b) →
    c.isEsc a = true ∧ lookup c.unesc (a, b) = some ch ∧ a ≠ c.q ∧ b ≠ c.q ∧ c.isQuote a = false
  seq_q : seqOf c c.q = none
  esc_cls : ∀ x, c.isEsc x = true → x = c.q ∨ c.isQuote x = true ∨ (seqOf c x).isSome = true
  unesc_ok : ∀ a b u, lookup c.unesc (a, b) = some u → a ≠ c.q ∧ c.isQuote a = false ∧ b ≠ c.q

theorem wf_iff (c : Cfg) (h : wf c = true) : WF c := by
  simp only [wf, Bool.and_eq_true] at h
  obtain ⟨⟨⟨⟨⟨⟨⟨⟨⟨h0, h0'⟩, h1⟩, h2⟩, h3⟩, h3'⟩, h4⟩, h4'⟩, h5⟩, h6⟩ := h
  refine ⟨by simpa using h0, by simpa using h0', h1, ?_, ?_, by simpa using h3', ?_, ?_, ?_, ?_⟩
  · simpa using h2
  · have : (c.isQuote c.q = true ∨ c.isEsc c.q = false) ∨ c.escapes.all (· == c.q) = true := by
      simpa [Bool.or_eq_true] using h3
    rcases this with (h | h) | h
    · exact Or.inl h
    · exact Or.inr (Or.inl h)
    · refine Or.inr (Or.inr ?_)
      intro x hx
      have hx' : x ∈ c.escapes := by simpa [Cfg.isEsc] using hx
      have := List.all_eq_true.mp h x hx'
      simpa using this
  · intro ch a b hs
    cases hsup : c.supports with
    | false => simp [seqOf, hsup] at hs
    | true =>
      simp only [seqOf, hsup, if_true] at hs
      have hall : c.escSeq.all (fun (x : Char × (Char × Char)) =>
          c.isEsc x.2.1 && lookup c.unesc (x.2.1, x.2.2) == some x.1 && x.2.1 != c.q && x.2.2 != c.q && !c.isQuote x.2.1) = true := by
        simpa [hsup] using h4
      have := lookup_all c.escSeq _ hall ch (a, b) hs
      simp only [Bool.and_eq_true] at this
      obtain ⟨⟨⟨⟨p1, p2⟩, p3⟩, p4⟩, p5⟩ := this
      exact ⟨p1, by simpa using p2, by simpa using p3, by simpa using p4, by simpa using p5⟩
  · cases hsup : c.supports with
    | false => simp [seqOf, hsup]
    | true =>
      have : (lookup c.escSeq c.q).isSome = false := by simpa [hsup] using h4'
      simp only [seqOf, hsup, if_true]
      cases hl : lookup c.escSeq c.q with
      | none => rfl
      | some v => simp [hl] at this
  · intro x hx
    have hx' : x ∈ c.escapes := by simpa [Cfg.isEsc] using hx
    have := List.all_eq_true.mp h5 x hx'
    simpa [Bool.or_eq_true, or_assoc] using this
  · intro a b u hl
    have := lookup_all c.unesc _ h6 (a, b) u hl
    simp only [Bool.and_eq_true] at this
    obtain ⟨⟨p1, p2⟩, p3⟩ := this
    exact ⟨by simpa using p1, by simpa using p2, by simpa using p3⟩

/-! ### generator images -/

theorem escapeStr_cons (c : Cfg) (ch : Char) (v : List Char) :
    escapeStr c (ch :: v) = img c ch ++ escapeStr c v := by
  simp [escapeStr]

theorem escapeStr_nil (c : Cfg) : escapeStr c [] = [] := by simp [escapeStr]

theorem escQ_ne (c : Cfg) (h : WF c) (x : Char) (hx : x ≠ c.q) : escQ c x = [x] := by
  simp [escQ, h.gq_eq, hx]

theorem escQ_q (c : Cfg) (h : WF c) : escQ c c.q = [c.esc0, c.q] := by
  simp [escQ, h.gq_eq, h.esc1_eq]

theorem img_seq (c : Cfg) (h : WF c) (ch a b : Char) (hs : seqOf c ch = some (a, b)) :
    img c ch = [a, b] := by
  obtain ⟨_, _, ha, hb, _⟩ := h.seq_ok ch a b hs
  simp [img, hs, escQ_ne c h a ha, escQ_ne c h b hb]

theorem img_q (c : Cfg) (h : WF c) : img c c.q = [c.esc0, c.q] := by
  simp [img, h.seq_q, escQ_q c h]

theorem img_plain (c : Cfg) (h : WF c) (ch : Char) (hs : seqOf c ch = none) (hq : ch ≠ c.q) :
    img c ch = [ch] := by
  simp [img, hs, escQ_ne c h ch hq]

/-! ### what the tokenizer does on the three kinds of image -/

theorem unescLookup_none_of_quote (c : Cfg) (h : WF c) (x p : Char) (hx : c.isQuote x = true) :
    unescLookup c x p = none := by
  unfold unescLookup
  split
  · cases hl : lookup c.unesc (x, p) with
    | none => rfl
    | some u =>
      have := (h.unesc_ok x p u hl).2.1
      rw [hx] at this; cases this
  · rfl

theorem unescLookup_none_of_not_esc (c : Cfg) (x p : Char) (hx : c.isEsc x = false) :
    unescLookup c x p = none := by
  simp [unescLookup, hx]

theorem unescLookup_q (c : Cfg) (h : WF c) (p : Char) : unescLookup c c.q p = none := by
  unfold unescLookup
  split
  · cases hl : lookup c.unesc (c.q, p) with
    | none => rfl
    | some u => exact absurd rfl (h.unesc_ok c.q p u hl).1
  · rfl

theorem unescLookup_to_q (c : Cfg) (h : WF c) (x : Char) : unescLookup c x c.q = none := by
  unfold unescLookup
  split
  · cases hl : lookup c.unesc (x, c.q) with
    | none => rfl
    | some u => exact absurd rfl (h.unesc_ok x c.q u hl).2.2
  · rfl

theorem unescLookup_seq (c : Cfg) (h : WF c) (ch a b : Char) (hs : seqOf c ch = some (a, b)) :
    unescLookup c a b = some ch := by
  obtain ⟨ha, hl, _, _, _⟩ := h.seq_ok ch a b hs
  have hne : c.unesc.isEmpty = false := by
    cases hu : c.unesc with
    | nil => simp [hu, lookup] at hl
    | cons _ _ => rfl
  simp [unescLookup, ha, hl, hne]

/-- closing delimiter followed by something that is not the delimiter: the loop stops there -/
theorem escCond_close (c : Cfg) (h : WF c) (p : Char) (hp : p ≠ c.q) : escCond c c.q p = false := by
  have hq := h.q_ne_bs
  rcases h.close with hc | hc | hc
  · simp [escCond, hc, hp, Ne.symm hp]
  · simp [escCond, hc]
  · cases he : c.isEsc p with
    | true => exact absurd (hc p he) hp
    | false => simp [escCond, he, hp, validCustom, hq]

theorem escCondEnd_q (c : Cfg) (h : WF c) : escCondEnd c c.q = false := by
  simp [escCondEnd, h.q_ne_bs]

/-- the stream that follows an image always has a head -/
theorem tail_stream_ne (c : Cfg) (v rest : List Char) :
    ∃ t T, escapeStr c v ++ c.q :: rest = t :: T := by
  cases hS : escapeStr c v ++ c.q :: rest with
  | nil => simp at hS
  | cons t T => exact ⟨t, T, rfl⟩

/-- The round trip on the slow path, by strong induction on the length of the value. -/
theorem roundtrip_aux (c : Cfg) (h : WF c) :
    ∀ n (v : List Char), v.length ≤ n → ∀ (acc rest : List Char), rest.head? ≠ some c.q →
      scanL c (escapeStr c v ++ c.q :: rest) acc = .ok (acc ++ v) rest := by
  intro n
  induction n with
  | zero =>
    intro v hv acc rest hr
    have : v = [] := by cases v <;> simp_all
    subst this
    cases rest with
    | nil => simp [escapeStr_nil, scanL, scan_close_nil c acc (escCondEnd_q c h)]
    | cons p r =>
      have hp : p ≠ c.q := by simpa using hr
      simp [escapeStr_nil, scanL, scan_close c p r acc (unescLookup_q c h p) (escCond_close c h p hp)]
  | succ n ih =>
    intro v hv acc rest hr
    cases v with
    | nil => exact ih [] (by simp) acc rest hr
    | cons ch v =>
      have hv' : v.length ≤ n := by simpa using hv
      obtain ⟨t, T, hT⟩ := tail_stream_ne c v rest
      have ihv := ih v hv' (acc ++ [ch]) rest hr
      rw [hT] at ihv
      simp only [scanL] at ihv
      rw [escapeStr_cons]
      cases hs : seqOf c ch with
      | some ab =>
        -- escape-sequence image `[a, b]`: rule 1 turns it back into `ch`
        obtain ⟨a, b⟩ := ab
        rw [img_seq c h ch a b hs]
        simp only [List.cons_append, List.nil_append, hT, scanL]
        rw [scan_unesc c a b t ch T acc (unescLookup_seq c h ch a b hs)]
        simpa using ihv
      | none =>
        by_cases hq : ch = c.q
        · -- the delimiter itself: `[esc0, q]`, consumed by the escaped-delimiter branch
          subst hq
          rw [img_q c h]
          simp only [List.cons_append, List.nil_append, hT, scanL]
          have hc : escCond c c.esc0 c.q = true := by
            rcases h.esc0_q with he | he
            · have hee := h.esc0_esc
              rw [he] at hee
              simp [escCond, he, hee]
            · simp [escCond, h.esc0_esc, he]
          rw [scan_esc c c.esc0 c.q t T acc (unescLookup_to_q c h c.esc0) hc]
          simpa [escOut] using ihv
        · rw [img_plain c h ch hs hq]
          simp only [List.cons_append, List.nil_append, hT, scanL]
          cases he : c.isEsc ch with
          | false =>
            have hc : escCond c ch t = false := by simp [escCond, he]
            rw [scan_plain c ch t T acc (unescLookup_none_of_not_esc c ch t he) hc hq]
            simpa using ihv
          | true =>
            -- an escape character that is not the delimiter and has no image: it is another quote character
            have hqu : c.isQuote ch = true := by
              rcases h.esc_cls ch he with h1 | h1 | h1
              · exact absurd h1 hq
              · exact h1
              · simp [hs] at h1
            have hu := unescLookup_none_of_quote c h ch t hqu
            by_cases hte : t = ch
            · -- doubled in the stream: consumed as a pair; the next value character must be `ch` itself
              subst hte
              cases v with
              | nil =>
                simp [escapeStr_nil] at hT
                exact absurd hT.1.symm hq
              | cons ch2 v2 =>
                rw [escapeStr_cons] at hT
                have hv2 : v2.length ≤ n := by simp at hv'; omega
                have ih2 := ih v2 hv2 (acc ++ [t, t]) rest hr
                obtain ⟨t2, T2, hT2⟩ := tail_stream_ne c v2 rest
                rw [hT2] at ih2
                simp only [scanL] at ih2
                cases hs2 : seqOf c ch2 with
                | some ab2 =>
                  obtain ⟨a2, b2⟩ := ab2
                  rw [img_seq c h ch2 a2 b2 hs2] at hT
                  simp at hT
                  have := (h.seq_ok ch2 a2 b2 hs2).2.2.2.2
                  rw [hT.1, hqu] at this
                  cases this
                | none =>
                  by_cases hq2 : ch2 = c.q
                  · subst hq2
                    rw [img_q c h] at hT
                    simp at hT
                    rcases h.esc0_q with h0 | h0
                    · exact absurd (hT.1.symm.trans h0) hq
                    · rw [hT.1, hqu] at h0; cases h0
                  · rw [img_plain c h ch2 hs2 hq2] at hT
                    simp at hT
                    obtain ⟨h1, h2⟩ := hT
                    subst h1
                    rw [← h2, hT2]
                    have hc : escCond c ch2 ch2 = true := by simp [escCond, he]
                    rw [scan_esc c ch2 ch2 t2 T2 acc hu hc]
                    have ho : escOut c ch2 ch2 = [ch2, ch2] := by simp [escOut, hq]
                    rw [ho]
                    simpa using ih2
            · have hc : escCond c ch t = false := by
                have : (ch == t) = false := by simpa using (fun e => hte e.symm)
                simp [escCond, hqu, this]
              rw [scan_plain c ch t T acc hu hc hq]
              simpa using ihv

/-! ### the `alnum=True` bulk skip is a pure optimisation -/

theorem skipAlnum_len (isAlnum : Char → Bool) : ∀ (rest : List Char) (p : Char) (sk : List Char),
    (skipAlnum isAlnum p rest sk).2.1.length ≤ rest.length := by
  intro rest
  induction rest with
  | nil => intro p sk; simp [skipAlnum]
  | cons n r ih =>
    intro p sk
    simp only [skipAlnum]
    split
    · have := ih n (sk ++ [p]); simp; omega
    · simp

/-- skipping an alphanumeric run is what the character-by-character loop does anyway -/
theorem scan_skip (isAlnum : Char → Bool) (c : Cfg)
    (hal : ∀ x, isAlnum x = true → c.isEsc x = false ∧ x ≠ c.q) :
    ∀ (rest : List Char) (p : Char) (sk acc : List Char),
      scan c p rest (acc ++ sk) =
        scan c (skipAlnum isAlnum p rest sk).1 (skipAlnum isAlnum p rest sk).2.1 (acc ++ (skipAlnum isAlnum p rest sk).2.2) := by
  intro rest
  induction rest with
  | nil => intro p sk acc; simp [skipAlnum]
  | cons n r ih =>
    intro p sk acc
    simp only [skipAlnum]
    split
    · rename_i h
      simp only [Bool.and_eq_true] at h
      obtain ⟨h1, h2⟩ := hal p h.1
      have hu := unescLookup_none_of_not_esc c p n h1
      have hc : escCond c p n = false := by simp [escCond, h1]
      rw [scan_plain c p n r (acc ++ sk) hu hc h2]
      have := ih n (sk ++ [p]) acc
      simpa [List.append_assoc] using this
    · rfl

theorem scanA_eq_scan (isAlnum : Char → Bool) (c : Cfg)
    (hal : ∀ x, isAlnum x = true → c.isEsc x = false ∧ x ≠ c.q) :
    ∀ (fuel : Nat) (cur : Char) (rest acc : List Char), rest.length < fuel →
      scanA isAlnum c fuel cur rest acc = scan c cur rest acc := by
  intro fuel
  induction fuel with
  | zero => intro cur rest acc h; omega
  | succ fuel ih =>
    intro cur rest acc hlen
    cases rest with
    | nil => simp [scanA, scan]
    | cons p rest =>
      simp only [List.length_cons] at hlen
      cases hu : unescLookup c cur p with
      | some u =>
        cases rest with
        | nil => simp [scanA, scan, hu]
        | cons n rest' =>
          simp only [scanA, scan, hu]
          exact ih n rest' _ (by simp at hlen; omega)
      | none =>
        cases hc : escCond c cur p with
        | true =>
          cases rest with
          | nil => simp [scanA, scan, hu, hc]
          | cons n rest' =>
            simp only [scanA, scan, hu, hc, if_true]
            exact ih n rest' _ (by simp at hlen; omega)
        | false =>
          by_cases hq : cur = c.q
          · subst hq
            cases rest <;> simp [scanA, scan, hu, hc]
          · rw [scan_plain c cur p rest acc hu hc hq]
            have hs := scan_skip isAlnum c hal rest p [] (acc ++ [cur])
            simp only [List.append_nil] at hs
            rw [hs]
            simp only [scanA, hu, hc, hq, if_false, Bool.false_eq_true]
            have hl := skipAlnum_len isAlnum rest p []
            exact ih _ _ _ (by omega)

end SqlglotModel.Str
