/- Helper lemmas for C18: the full model (Model/SchemaFull.lean) refines the flat specification. -/
import SqlglotModel.Model.SchemaFull
import SqlglotModel.Proofs.SchemaTree

namespace SqlglotModel.Schema
open SqlglotModel.Ident

/-! ### the flat specification only looks at the mapping as a finite map and at the trie as a set -/

theorem eraseDups_eq_nil {α} [BEq α] {l : List α} : l.eraseDups = [] ↔ l = [] := by
  cases l with
  | nil => simp
  | cons a as => simp [List.eraseDups_cons]

theorem eraseDups_singleton {α} [BEq α] [LawfulBEq α] {l : List α} {p : α} :
    l.eraseDups = [p] ↔ l ≠ [] ∧ ∀ q ∈ l, q = p := by
  cases l with
  | nil => simp
  | cons a as =>
    rw [List.eraseDups_cons]
    simp only [List.cons.injEq, eraseDups_eq_nil, List.filter_eq_nil_iff, ne_eq, reduceCtorEq, not_false_eq_true,
      List.mem_cons, forall_eq_or_imp, true_and]
    constructor
    · rintro ⟨rfl, h⟩
      refine ⟨rfl, fun q hq => ?_⟩
      have := h q hq
      simpa using this
    · rintro ⟨rfl, h⟩
      refine ⟨rfl, fun q hq => ?_⟩
      simp [h q hq]

def pick (ps : List (List Name)) : Option (List Name) :=
  match ps with
  | [p] => some p
  | _ => none

theorem pick_eq_some {ps : List (List Name)} {p : List Name} : pick ps = some p ↔ ps = [p] := by
  unfold pick
  split
  · simp
  · rename_i h
    constructor
    · intro e; cases e
    · intro e; exact absurd e (h p)

theorem findInTrie_eq_resolveR (trie : List (List Name)) (parts : List Name) (raise : Bool) :
    findInTrie trie parts raise = resolveR (inTrie trie parts) parts raise := by
  unfold findInTrie resolveR
  cases inTrie trie parts <;> rfl

theorem resolveR_prefix (ps : List (List Name)) (parts : List Name) (raise : Bool) :
    resolveR (.prefix_ ps) parts raise =
      match pick ps with
      | some p => .parts (parts ++ p)
      | none => if raise then .ambiguous else .none := by
  match ps with
  | [] => rfl
  | [_] => rfl
  | _ :: _ :: _ => rfl

def SameKeys (l1 l2 : List (List Name)) : Prop := ∀ k, k ∈ l1 ↔ k ∈ l2

theorem findInTrie_congr {l1 l2 : List (List Name)} (h : SameKeys l1 l2) (parts : List Name) (raise : Bool) :
    findInTrie l1 parts raise = findInTrie l2 parts raise := by
  rw [findInTrie_eq_resolveR, findInTrie_eq_resolveR]
  unfold inTrie
  by_cases hk : parts = []
  · simp [hk]
  · simp only [hk, if_false]
    have hnil : l1.filter (fun k => parts.isPrefixOf k) = [] ↔ l2.filter (fun k => parts.isPrefixOf k) = [] := by
      simp only [List.filter_eq_nil_iff]
      exact ⟨fun a k hk => a k ((h k).mpr hk), fun a k hk => a k ((h k).mp hk)⟩
    have hc : l1.contains parts = l2.contains parts := by
      rw [Bool.eq_iff_iff]; simp [h parts]
    by_cases h1 : l1.filter (fun k => parts.isPrefixOf k) = []
    · simp [h1, hnil.mp h1]
    · have h2 : ¬ l2.filter (fun k => parts.isPrefixOf k) = [] := fun e => h1 (hnil.mpr e)
      simp only [h1, h2, if_false, hc]
      split
      · rfl
      · rw [resolveR_prefix, resolveR_prefix]
        have hp : ∀ p, ((l1.filter (fun k => parts.isPrefixOf k)).map (fun k => k.drop parts.length)).eraseDups = [p] ↔
            ((l2.filter (fun k => parts.isPrefixOf k)).map (fun k => k.drop parts.length)).eraseDups = [p] := by
          intro p
          rw [eraseDups_singleton, eraseDups_singleton]
          simp only [ne_eq, List.map_eq_nil_iff, List.mem_map, List.mem_filter, forall_exists_index, and_imp]
          constructor
          · rintro ⟨_, a⟩
            exact ⟨h2, fun q k hk hpre e => a q k ((h k).mpr hk) hpre e⟩
          · rintro ⟨_, a⟩
            exact ⟨h1, fun q k hk hpre e => a q k ((h k).mp hk) hpre e⟩
        have : pick ((l1.filter (fun k => parts.isPrefixOf k)).map (fun k => k.drop parts.length)).eraseDups =
            pick ((l2.filter (fun k => parts.isPrefixOf k)).map (fun k => k.drop parts.length)).eraseDups := by
          cases hq : pick ((l1.filter (fun k => parts.isPrefixOf k)).map (fun k => k.drop parts.length)).eraseDups with
          | some p => exact (pick_eq_some.mpr ((hp p).mp (pick_eq_some.mp hq))).symm
          | none =>
            cases hq2 : pick ((l2.filter (fun k => parts.isPrefixOf k)).map (fun k => k.drop parts.length)).eraseDups with
            | none => rfl
            | some p =>
              have := pick_eq_some.mpr ((hp p).mpr (pick_eq_some.mp hq2))
              rw [hq] at this; cases this
        rw [this]


/-- two flat states the specification cannot tell apart -/
structure Equiv (S T : St) : Prop where
  look : ∀ q, lookup S.mapping q = lookup T.mapping q
  nil : S.mapping = [] ↔ T.mapping = []
  depth : depth S = depth T
  trie : SameKeys S.trie T.trie
  cache : S.cache = T.cache

theorem findUncached_eq (S : St) (t : List Ident) (r : Bool) :
    findUncached S t r =
      match findInTrie S.trie (((t.map (·.name)).reverse).take (depth S)) r with
      | .none => .notFound
      | .ambiguous => .err .ambiguous
      | .parts ps =>
        match lookup S.mapping ps.reverse with
        | some cols => .found cols
        | none => if r then .err .internal else .notFound := by
  unfold findUncached findU depth
  rfl

theorem findUncached_congr {S T : St} (h : Equiv S T) (t : List Ident) (r : Bool) :
    findUncached S t r = findUncached T t r := by
  rw [findUncached_eq, findUncached_eq, h.depth, findInTrie_congr h.trie]
  split
  · rfl
  · rfl
  · rw [h.look]

theorem find_congr (E : Env) {S T : St} (h : Equiv S T) (t : List Ident) (r e : Bool) :
    (find E S t r e).2 = (find E T t r e).2 ∧ Equiv (find E S t r e).1 (find E T t r e).1 := by
  unfold find
  rw [h.cache, findUncached_congr h]
  cases lookup T.cache (t, e) with
  | some cols => exact ⟨rfl, h⟩
  | none =>
    cases findUncached T t r with
    | found cols => exact ⟨rfl, ⟨h.look, h.nil, h.depth, h.trie, by simp [h.cache]⟩⟩
    | notFound => exact ⟨rfl, h⟩
    | err x => exact ⟨rfl, h⟩

theorem depth_dictSet (m : List (Path × Cols)) (p : Path) (c : Cols) (tr : List (List Name))
    (ca : List (CKey × Cols)) :
    depth ⟨dictSet m p c, tr, ca⟩ = if m = [] then p.length else depth ⟨m, [], []⟩ := by
  cases m with
  | nil => simp [dictSet, depth]
  | cons x xs =>
    obtain ⟨k, v⟩ := x
    by_cases e : k = p
    · simp [dictSet, depth, e]
    · simp [dictSet, depth, e]

theorem stepN_congr (E : Env) (ev : Evict) {S T : St} (h : Equiv S T) (op : NOp) :
    (stepN E ev S op).2 = (stepN E ev T op).2 ∧ Equiv (stepN E ev S op).1 (stepN E ev T op).1 := by
  cases op with
  | addTable nt ncols =>
    simp only [stepN]
    have hne : (S.mapping ≠ [] ∧ nt.length ≠ depth S) ↔ (T.mapping ≠ [] ∧ nt.length ≠ depth T) := by
      rw [h.depth]; simp only [ne_eq, h.nil]
    by_cases hc : S.mapping ≠ [] ∧ nt.length ≠ depth S
    · rw [if_pos hc, if_pos (hne.mp hc)]; exact ⟨rfl, h⟩
    · rw [if_neg hc, if_neg (fun x => hc (hne.mpr x))]
      have hf := find_congr E h nt false false
      generalize find E S nt false false = a at hf
      generalize find E T nt false false = b at hf
      obtain ⟨a1, a2⟩ := a; obtain ⟨b1, b2⟩ := b
      obtain ⟨e1, e2⟩ := hf
      simp only at e1 e2 ⊢
      subst e1
      split
      · exact ⟨rfl, e2⟩
      · refine ⟨rfl, ?_⟩
        refine ⟨?_, ?_, ?_, ?_, ?_⟩
        · intro q; simp only [lookup_dictSet, e2.look]
        · simp only; exact ⟨fun x => absurd x (dictSet_ne_nil _ _ _), fun x => absurd x (dictSet_ne_nil _ _ _)⟩
        · have hd : depth ⟨a1.mapping, [], []⟩ = depth ⟨b1.mapping, [], []⟩ := e2.depth
          simp only
          rw [depth_dictSet, depth_dictSet, hd]
          by_cases hm : a1.mapping = []
          · simp [hm, e2.nil.mp hm]
          · have hm2 : ¬ b1.mapping = [] := fun x => hm (e2.nil.mpr x)
            simp [hm, hm2]
        · intro k
          simp only
          have hk := e2.trie
          by_cases c1 : a1.trie.contains (List.map (fun x => x.name) nt).reverse
          · have c2 : b1.trie.contains (List.map (fun x => x.name) nt).reverse := by
              simp only [List.contains_iff_mem] at c1 ⊢; exact (hk _).mp c1
            simp only [c1, c2, if_true]; exact hk k
          · have c2 : ¬ b1.trie.contains (List.map (fun x => x.name) nt).reverse := by
              simp only [List.contains_iff_mem] at c1 ⊢; exact fun x => c1 ((hk _).mpr x)
            simp only [c1, c2]
            simp [List.mem_append, hk k]
        · simp only [e2.cache]
  | columnNames nt ov =>
    simp only [stepN, columnNames]
    have hf := find_congr E h nt true false
    exact ⟨by rw [hf.1, h.depth], hf.2⟩
  | columnType nt nc d =>
    simp only [stepN]
    have hf := find_congr E h nt false false
    exact ⟨by rw [hf.1], hf.2⟩
  | hasColumn nt nc =>
    simp only [stepN]
    have hf := find_congr E h nt false false
    exact ⟨by rw [hf.1], hf.2⟩
  | find table raise ensure =>
    simp only [stepN]
    have hf := find_congr E h table raise ensure
    exact ⟨by rw [hf.1], hf.2⟩


theorem Equiv.refl (S : St) : Equiv S S := ⟨fun _ => rfl, Iff.rfl, rfl, fun _ => Iff.rfl, rfl⟩

theorem Equiv.trans {S T U : St} (h1 : Equiv S T) (h2 : Equiv T U) : Equiv S U :=
  ⟨fun q => (h1.look q).trans (h2.look q), h1.nil.trans h2.nil, h1.depth.trans h2.depth,
   fun k => (h1.trie k).trans (h2.trie k), h1.cache.trans h2.cache⟩


/-! ### the core (nested dict, nested trie, `_depth`, `_supported_table_args`, `_find_cache`, type cache) -/

/-- admissible core states of schema depth `d` (`d = 0`: nothing registered yet).  The lazily cached `_depth` /
    `_supported_table_args` are either not filled yet or EQUAL to the recomputed value. -/
inductive CShape (C : Core) : Nat → Prop where
  | empty : C.mapping = .node [] → C.trie = Trie.empty → C.depthC = 0 → C.argsC = 0 → CShape C 0
  | full (d : Nat) : Uniform (d + 1) C.mapping → UniformT (d + 1) C.trie →
      (C.depthC = 0 ∨ C.depthC = d + 1) → (C.argsC = 0 ∨ C.argsC = d + 1) → CShape C (d + 1)

/-- the flat state a core state stands for -/
def absC (C : Core) (d : Nat) : St := ⟨flatView d C.mapping, keysAt d C.trie, C.findCache⟩

def SameData (C C' : Core) : Prop :=
  C'.mapping = C.mapping ∧ C'.trie = C.trie ∧ C'.findCache = C.findCache ∧ C'.types = C.types

theorem SameData.abs {C C' : Core} (h : SameData C C') (d : Nat) : absC C' d = absC C d := by
  obtain ⟨h1, h2, h3, _⟩ := h; simp [absC, h1, h2, h3]

theorem uniform_not_empty {d : Nat} {m : Tree} (h : Uniform (d + 1) m) : m.isEmptyDict = false := by
  obtain ⟨kids, e, hne, _, _⟩ := h
  subst e
  cases kids with
  | nil => exact absurd rfl hne
  | cons x xs => rfl

/-- **`depth()` returns the recomputed depth and keeps the state admissible** -/
theorem cDepth_spec {C : Core} {d : Nat} (h : CShape C d) :
    (cDepth C).2 = d ∧ CShape (cDepth C).1 d ∧ SameData C (cDepth C).1 := by
  cases h with
  | empty h1 h2 h3 h4 =>
    simp only [cDepth, h1, Tree.isEmptyDict, Bool.not_true, Bool.false_and, Bool.false_eq_true, if_false]
    exact ⟨h3, .empty h1 h2 h3 h4, rfl, rfl, rfl, rfl⟩
  | full d hu ht hd ha =>
    have hne := uniform_not_empty hu
    have hdd := dictDepth_uniform _ _ hu
    unfold cDepth
    rcases hd with hd | hd
    · simp only [hne, Bool.not_false, Bool.true_and, hd, beq_self_eq_true, if_true, hdd]
      refine ⟨by omega, ?_, rfl, rfl, rfl, rfl⟩
      exact .full d hu ht (Or.inr (by simp)) ha
    · have hc : ¬ ((!C.mapping.isEmptyDict && C.depthC == 0) = true) := by simp [hd]
      rw [if_neg hc]
      exact ⟨hd, .full d hu ht (Or.inr hd) ha, rfl, rfl, rfl, rfl⟩

/-- **`supported_table_args` has the recomputed length** -/
theorem cArgs_spec {C : Core} {d : Nat} (h : CShape C d) :
    (cArgs C).2 = d ∧ CShape (cArgs C).1 d ∧ SameData C (cArgs C).1 := by
  have hD := cDepth_spec h
  cases h with
  | empty h1 h2 h3 h4 =>
    simp only [cArgs, h1, Tree.isEmptyDict, Bool.not_true, Bool.and_false, Bool.false_eq_true, if_false]
    exact ⟨h4, .empty h1 h2 h3 h4, rfl, rfl, rfl, rfl⟩
  | full d hu ht hd ha =>
    have hne := uniform_not_empty hu
    unfold cArgs
    rcases ha with ha | ha
    · simp only [ha, beq_self_eq_true, hne, Bool.not_false, Bool.and_self, if_true]
      obtain ⟨e, hs, hsd⟩ := hD
      refine ⟨e, ?_, hsd.1, hsd.2.1, hsd.2.2.1, hsd.2.2.2⟩
      cases hs with
      | full _ hu' ht' hd' _ => exact .full d hu' ht' hd' (Or.inr e)
    · have hc : ¬ ((C.argsC == 0 && !C.mapping.isEmptyDict) = true) := by simp [ha]
      rw [if_neg hc]
      exact ⟨ha, .full d hu ht hd (Or.inr ha), rfl, rfl, rfl, rfl⟩

theorem depth_absC_full {C : Core} {d : Nat} (hu : Uniform (d + 1) C.mapping) :
    depth (absC C (d + 1)) = d + 1 ∧ (absC C (d + 1)).mapping ≠ [] := by
  obtain ⟨p, c, rest, e, hl⟩ := flatView_head _ _ hu
  simp [absC, depth, e, hl]

theorem depth_absC {C : Core} {d : Nat} (h : CShape C d) : depth (absC C d) = d := by
  cases h with
  | empty h1 _ _ _ => simp [absC, h1, flatView, depth]
  | full d hu _ _ _ => exact (depth_absC_full hu).1

theorem inTrie_cases {l : List (List Name)} {parts : List Name} :
    (inTrie l parts = .failed) ∨ (inTrie l parts = .exists_ ∧ parts ∈ l) ∨
    (inTrie l parts = .prefix_ ((l.filter (fun k => parts.isPrefixOf k)).map (fun k => k.drop parts.length)).eraseDups) := by
  unfold inTrie
  by_cases hk : parts = []
  · simp [hk]
  · by_cases h1 : l.filter (fun k => parts.isPrefixOf k) = []
    · simp [hk, h1]
    · by_cases h2 : l.contains parts = true
      · right; left
        simp only [hk, h1, h2, if_false, if_true, true_and]
        simpa using h2
      · right; right
        simp only [hk, h1, h2, if_false]
        rfl

/-- a resolved key is a member of the key list -/
theorem findInTrie_parts_mem {l : List (List Name)} {parts ps : List Name} {r : Bool}
    (h : findInTrie l parts r = .parts ps) : ps ∈ l := by
  rw [findInTrie_eq_resolveR] at h
  rcases inTrie_cases (l := l) (parts := parts) with hT | ⟨hT, hm⟩ | hT
  · rw [hT] at h; simp [resolveR] at h
  · rw [hT] at h; simp only [resolveR, Resolved.parts.injEq] at h; subst h; exact hm
  · rw [hT, resolveR_prefix] at h
    cases hp : pick ((l.filter (fun k => parts.isPrefixOf k)).map (fun k => k.drop parts.length)).eraseDups with
    | none => rw [hp] at h; cases r <;> simp at h
    | some p =>
      rw [hp] at h
      simp only [Resolved.parts.injEq] at h
      subst h
      have hp' := pick_eq_some.mp hp
      have : p ∈ ((l.filter (fun k => parts.isPrefixOf k)).map (fun k => k.drop parts.length)).eraseDups := by
        rw [hp']; simp
      rw [List.mem_eraseDups, List.mem_map] at this
      obtain ⟨k, hk1, hk2⟩ := this
      rw [List.mem_filter] at hk1
      have hpre : parts <+: k := by simpa using hk1.2
      obtain ⟨t, ht⟩ := hpre
      subst ht
      simp only [List.drop_left'] at hk2
      subst hk2
      exact hk1.1

theorem findInTrieT_eq {C : Core} {d : Nat} (h : CShape C d) (parts : List Name) (hl : parts.length ≤ d)
    (r : Bool) : findInTrieT C.trie parts r = findInTrie (keysAt d C.trie) parts r := by
  rw [findInTrie_eq_resolveR]
  unfold findInTrieT
  cases h with
  | empty h1 h2 h3 h4 =>
    have : parts = [] := List.length_eq_zero_iff.mp (Nat.le_zero.mp hl)
    subst this
    simp [inTrieT, inTrie]
  | full d hu ht hd ha => rw [inTrieT_refines d _ (Or.inl ht) parts hl]

/-- **`AbstractMappingSchema.find` on the nested structures = `findUncached` on the flat view** -/
theorem cFindU_spec {C : Core} {d : Nat} (h : CShape C d) (t : List Ident) (r : Bool) :
    (cFindU C t r).2 = findUncached (absC C d) t r ∧ CShape (cFindU C t r).1 d ∧ SameData C (cFindU C t r).1 := by
  obtain ⟨hn, hs, hsd⟩ := cArgs_spec h
  have hfst : (cFindU C t r).1 = (cArgs C).1 := by
    unfold cFindU; simp only; split <;> rfl
  refine ⟨?_, by rw [hfst]; exact hs, by rw [hfst]; exact hsd⟩
  rw [findUncached_eq, depth_absC h]
  unfold cFindU
  simp only [hn]
  have htrie : (cArgs C).1.trie = C.trie := hsd.2.1
  have hmap : (cArgs C).1.mapping = C.mapping := hsd.1
  have hlen : (((t.map (·.name)).reverse).take d).length ≤ d := by simp [List.length_take]; omega
  rw [htrie, hmap, findInTrieT_eq h _ hlen r]
  simp only [absC]
  cases hf : findInTrie (keysAt d C.trie) (((t.map (·.name)).reverse).take d) r with
  | none => rfl
  | ambiguous => rfl
  | parts ps =>
    simp only
    have hmem := findInTrie_parts_mem hf
    have hpl : ps.length = d := keysAt_length _ _ _ hmem
    have htake : (ps.reverse).take d = ps.reverse := by
      rw [List.take_of_length_le]; simp [hpl]
    rw [htake]
    have hshape : Shape d C.mapping := by
      cases h with
      | empty h1 h2 _ _ => rw [h2] at hmem; simp [Trie.empty, keysAt] at hmem
      | full d hu _ _ _ => exact hu.shape
    rw [nestedGet_flatView d C.mapping ps.reverse hshape (by simp [hpl])]
    cases lookup (flatView d C.mapping) ps.reverse with
    | some c => rfl
    | none => rfl



/-- in this environment the type cache's key determines the parsed type (true for every covering layout; true
    for today's text-only key exactly when the dialects in play parse the type texts alike) -/
def TypeKeyOK (L : Layouts) (E : Env) : Prop :=
  ∀ x y : TypeIn, typeKey L.ty x = typeKey L.ty y → tyParse E.ty x = tyParse E.ty y

def TInv (L : Layouts) (E : Env) (C : Core) : Prop := MemoInv (typeKey L.ty) (tyParse E.ty) C.types

theorem typeCall_spec {L : Layouts} {E : Env} (hk : TypeKeyOK L E) (m : TypeCache)
    (hm : MemoInv (typeKey L.ty) (tyParse E.ty) m) (x : TypeIn) :
    (typeCall E.ty L.ty m x).2 = E.ty x.dialect.name x.tyStr ∧
    MemoInv (typeKey L.ty) (tyParse E.ty) (typeCall E.ty L.ty m x).1 :=
  ⟨memoCall_snd _ _ _ _ _ m hm x, memoCall_inv _ _ _ _ _ (fun x y h => hk y x h) m hm x⟩

theorem convColsC_spec {L : Layouts} {E : Env} (hk : TypeKeyOK L E) : ∀ (cols : Cols) (m : TypeCache),
    MemoInv (typeKey L.ty) (tyParse E.ty) m →
    (convColsC E.ty L.ty E.self m cols).2 = convCols E true cols ∧
    MemoInv (typeKey L.ty) (tyParse E.ty) (convColsC E.ty L.ty E.self m cols).1
  | [], m, hm => ⟨by simp [convColsC, convCols], hm⟩
  | (c, t) :: rest, m, hm => by
    obtain ⟨h1, h2⟩ := typeCall_spec hk m hm ⟨t, E.self⟩
    obtain ⟨h3, h4⟩ := convColsC_spec hk rest _ h2
    refine ⟨?_, h4⟩
    simp only [convColsC, h1, h3]
    simp [convCols]

/-- **`MappingSchema.find` on the full state = `find` on the flat view** (same answer, same abstract state) -/
theorem cFind_spec {L : Layouts} {E : Env} (hk : TypeKeyOK L E) {C : Core} {d : Nat} (h : CShape C d)
    (hT : TInv L E C) (t : List Ident) (r e : Bool) :
    (cFind E L C t r e).2 = (find E (absC C d) t r e).2 ∧
    absC (cFind E L C t r e).1 d = (find E (absC C d) t r e).1 ∧
    CShape (cFind E L C t r e).1 d ∧ TInv L E (cFind E L C t r e).1 := by
  unfold cFind find
  have hcache : (absC C d).cache = C.findCache := rfl
  rw [hcache]
  cases hl : lookup C.findCache (t, e) with
  | some cols => exact ⟨rfl, rfl, h, hT⟩
  | none =>
    simp only
    obtain ⟨h1, h2, h3⟩ := cFindU_spec h t r
    generalize cFindU C t r = cu at h1 h2 h3
    obtain ⟨C1, fr⟩ := cu
    simp only at h1 h2 h3
    rw [← h1]
    have hT1 : TInv L E C1 := by unfold TInv; rw [h3.2.2.2]; exact hT
    have habs : absC C1 d = absC C d := h3.abs d
    cases fr with
    | notFound => exact ⟨rfl, habs, h2, hT1⟩
    | err x => exact ⟨rfl, habs, h2, hT1⟩
    | found cols =>
      simp only
      cases e with
      | false =>
        simp only [Bool.false_eq_true, if_false, convCols]
        refine ⟨trivial, ?_, ?_, hT1⟩
        · simp [absC, h3.1, h3.2.1, h3.2.2.1]
        · cases h2 with
          | empty a b c d => exact .empty a b c d
          | full d a b c e => exact .full d a b c e
      | true =>
        obtain ⟨hc1, hc2⟩ := convColsC_spec hk cols C1.types hT1
        simp only [if_true, hc1]
        refine ⟨trivial, ?_, ?_, hc2⟩
        · simp [absC, h3.1, h3.2.1, h3.2.2.1]
        · cases h2 with
          | empty a b c d => exact .empty a b c d
          | full d a b c e => exact .full d a b c e


theorem sameKeys_insert (l : List (List Name)) (key : List Name) (ks : List (List Name))
    (h : ∀ q, q ∈ ks ↔ (q = key ∨ q ∈ l)) :
    SameKeys ks (if l.contains key then l else l ++ [key]) := by
  intro q
  rw [h q]
  by_cases c : l.contains key = true
  · simp only [c, if_true]
    have : key ∈ l := by simpa using c
    constructor
    · rintro (e | e)
      · rw [e]; exact this
      · exact e
    · exact Or.inr
  · have c' : l.contains key = false := by simpa using c
    rw [c']
    simp only [Bool.false_eq_true, if_false, List.mem_append, List.mem_singleton]
    exact Or.comm

/-- **the writing half of `add_table`** (`nested_set` + `new_trie([parts], trie)`) refines `dict[path] = cols` and the
    insertion into the key list; the lazily cached depth stays correct because the depth cannot change -/
theorem set_spec {C1 : Core} {d : Nat} (h : CShape C1 d) (path : Path) (n : Nat) (hl : path.length = n + 1)
    (hd : d = 0 ∨ d = n + 1) (ncols : Cols) (fc : List (CKey × Cols)) :
    CShape (setCore C1 path ncols fc) (n + 1) ∧
    Equiv (absC (setCore C1 path ncols fc) (n + 1))
      ⟨dictSet (absC C1 d).mapping path ncols,
       if (absC C1 d).trie.contains path.reverse then (absC C1 d).trie else (absC C1 d).trie ++ [path.reverse], fc⟩ := by
  have hlr : path.reverse.length = n + 1 := by simp [hl]
  cases h with
  | empty h1 h2 h3 h4 =>
    have hU := uniform_nestedSet n (.node []) path ncols (Or.inr rfl) hl
    have hT := trieInsert_spec path.reverse (n + 1) Trie.empty (Or.inr rfl) hlr
    have hF := flatView_nestedSet n (.node []) path ncols (shape_empty n) hl
    refine ⟨?_, ?_⟩
    · refine .full n ?_ ?_ (Or.inl h3) (Or.inl h4)
      · simp only [setCore, h1]; exact hU
      · simp only [setCore, h2]; exact hT.1
    · have hsh : CShape (setCore C1 path ncols fc) (n + 1) := by
        refine .full n ?_ ?_ (Or.inl h3) (Or.inl h4)
        · simp only [setCore, h1]; exact hU
        · simp only [setCore, h2]; exact hT.1
      refine ⟨?_, ?_, ?_, ?_, rfl⟩
      · intro q
        simp only [absC, setCore, h1, lookup_dictSet]
        rw [hF.2 q]
        simp [flatView, lookup]
      · have := (depth_absC_full (C := (setCore C1 path ncols fc)) (d := n) (by simp only [setCore, h1]; exact hU)).2
        exact ⟨fun x => absurd x this, fun x => absurd x (dictSet_ne_nil _ _ _)⟩
      · rw [depth_absC hsh]
        simp only [absC, h1, flatView]
        rw [depth_dictSet]; simp [hl]
      · simp only [absC, setCore, h1, h2]
        refine sameKeys_insert _ _ _ ?_
        intro q
        rw [hT.2 q]
        simp [Trie.empty, keysAt]
  | full d0 hu ht hdc hac =>
    have hdn : d0 = n := by rcases hd with e | e <;> omega
    subst hdn
    have hU := uniform_nestedSet d0 C1.mapping path ncols (Or.inl hu) hl
    have hT := trieInsert_spec path.reverse (d0 + 1) C1.trie (Or.inl ht) hlr
    have hF := flatView_nestedSet d0 C1.mapping path ncols hu.shape hl
    have hsh : CShape (setCore C1 path ncols fc) (d0 + 1) :=
      .full d0 hU hT.1 hdc hac
    refine ⟨hsh, ?_, ?_, ?_, ?_, rfl⟩
    · intro q
      simp only [absC, setCore, lookup_dictSet]
      rw [hF.2 q]
    · have := (depth_absC_full (C := (setCore C1 path ncols fc)) (d := d0) hU).2
      exact ⟨fun x => absurd x this, fun x => absurd x (dictSet_ne_nil _ _ _)⟩
    · rw [depth_absC hsh]
      have ho := depth_absC_full (C := C1) hu
      simp only [absC] at ho ⊢
      rw [depth_dictSet]
      simp only [ho.2, if_false]
      exact ho.1.symm
    · simp only [absC, setCore]
      exact sameKeys_insert _ _ _ hT.2



theorem findU_noraise (m : List (Path × Cols)) (tr : List (List Name)) (t : List Ident) (x : Err) :
    findU m tr t false ≠ .err x := by
  unfold findU
  simp only
  generalize (List.take _ (List.map (fun x => x.name) t).reverse) = parts
  unfold findInTrie
  cases inTrie tr parts with
  | failed => simp
  | exists_ =>
    simp only
    cases lookup m parts.reverse <;> simp
  | prefix_ ps =>
    match ps with
    | [] => simp
    | [p] =>
      simp only
      cases lookup m (parts ++ p).reverse <;> simp
    | _ :: _ :: _ => simp

theorem find_noraise (E : Env) (S : St) (t : List Ident) (e : Bool) (x : Err) :
    (find E S t false e).2 ≠ .err x := by
  unfold find
  cases lookup S.cache (t, e) with
  | some c => simp
  | none =>
    simp only
    cases h : findUncached S t false with
    | found c => simp
    | notFound => simp
    | err y => exact absurd h (findU_noraise _ _ _ _)

def NAdm : NOp → Prop
  | .addTable nt _ => nt ≠ []
  | _ => True

/-- **one public method on the full core = the same method on the flat view** -/
theorem coreStep_spec {L : Layouts} {E : Env} (hk : TypeKeyOK L E) {C : Core} {d : Nat} (h : CShape C d)
    (hT : TInv L E C) (op : NOp) (hop : NAdm op) :
    (coreStep E L C op).2 = (stepN E L.evict (absC C d) op).2 ∧
    ∃ d', CShape (coreStep E L C op).1 d' ∧ TInv L E (coreStep E L C op).1 ∧
      Equiv (absC (coreStep E L C op).1 d') (stepN E L.evict (absC C d) op).1 := by
  cases op with
  | find table raise ensure =>
    obtain ⟨h1, h2, h3, h4⟩ := cFind_spec hk h hT table raise ensure
    simp only [coreStep, stepN]
    exact ⟨by rw [h1], d, h3, h4, by rw [h2]; exact Equiv.refl _⟩
  | hasColumn nt nc =>
    obtain ⟨h1, h2, h3, h4⟩ := cFind_spec hk h hT nt false false
    simp only [coreStep, stepN]
    exact ⟨by rw [h1], d, h3, h4, by rw [h2]; exact Equiv.refl _⟩
  | columnType nt nc dr =>
    obtain ⟨h1, h2, h3, h4⟩ := cFind_spec hk h hT nt false false
    simp only [coreStep, stepN]
    generalize cFind E L C nt false false = cr at h1 h2 h3 h4
    obtain ⟨C1, fr⟩ := cr
    simp only at h1 h2 h3 h4 ⊢
    rw [← h1, ← h2]
    cases fr with
    | notFound => exact ⟨rfl, d, h3, h4, Equiv.refl _⟩
    | err x => exact ⟨rfl, d, h3, h4, Equiv.refl _⟩
    | found cols =>
      simp only [cTypeOut, typeOut]
      cases hl : lookup cols nc with
      | none => exact ⟨rfl, d, h3, h4, Equiv.refl _⟩
      | some ty =>
        obtain ⟨t1, t2⟩ := typeCall_spec hk C1.types h4 ⟨ty, dr⟩
        simp only [t1]
        refine ⟨trivial, d, ?_, t2, ?_⟩
        · cases h3 with
          | empty a b c e => exact .empty a b c e
          | full d a b c e => exact .full d a b c e
        · exact Equiv.refl _
  | columnNames nt ov =>
    obtain ⟨h1, h2, h3, h4⟩ := cFind_spec hk h hT nt true false
    simp only [coreStep, stepN, columnNames]
    generalize cFind E L C nt true false = cr at h1 h2 h3 h4
    obtain ⟨C1, fr⟩ := cr
    simp only at h1 h2 h3 h4 ⊢
    rw [← h1, ← h2]
    obtain ⟨a1, a2, a3⟩ := cArgs_spec h3
    have hT' : TInv L E (cArgs C1).1 := by unfold TInv; rw [a3.2.2.2]; exact h4
    have hdep : depth (absC C d) = d := depth_absC h
    cases fr with
    | notFound => exact ⟨rfl, d, h3, h4, Equiv.refl _⟩
    | err x => exact ⟨rfl, d, h3, h4, Equiv.refl _⟩
    | found cols =>
      simp only [cNamesOut, namesOut, hdep, a1]
      by_cases hv : (!ov || E.visEmpty) = true
      · simp only [hv, if_true]
        exact ⟨trivial, d, h3, h4, Equiv.refl _⟩
      · have hv' : (!ov || E.visEmpty) = false := by simpa using hv
        simp only [hv', Bool.false_eq_true, if_false]
        cases E.vis (List.take d (List.map (fun x => x.name) nt)) with
        | some vs => exact ⟨rfl, d, a2, hT', by rw [a3.abs d]; exact Equiv.refl _⟩
        | none => exact ⟨rfl, d, a2, hT', by rw [a3.abs d]; exact Equiv.refl _⟩
  | addTable nt ncols =>
    have hnt : nt ≠ [] := hop
    obtain ⟨n, hn⟩ : ∃ n, (nt.map Ident.name).length = n + 1 := by
      cases nt with
      | nil => exact absurd rfl hnt
      | cons a as => exact ⟨as.length, by simp⟩
    have hnl : nt.length = n + 1 := by simpa using hn
    have hfl : ((nt.map Ident.name)).length = n + 1 := hn
    -- after the depth check we continue from a state C0 with the same abstract view
    have main : ∀ C0 : Core, CShape C0 d → TInv L E C0 → absC C0 d = absC C d → (d = 0 ∨ d = n + 1) →
        (match (cFind E L C0 nt false false).2 with
          | .err e => ((cFind E L C0 nt false false).1, Out.err e)
          | fr =>
            if earlyReturn fr ncols then ((cFind E L C0 nt false false).1, Out.unit) else
            (setCore (cFind E L C0 nt false false).1 (nt.map Ident.name) ncols
              (evict L.evict (cFind E L C0 nt false false).1.findCache nt), Out.unit)).2 =
          (match find E (absC C d) nt false false with
            | (S1, r) =>
              if earlyReturn r ncols then (S1, Out.unit) else
              (({ mapping := dictSet S1.mapping (nt.map Ident.name) ncols,
                  trie := if S1.trie.contains (nt.map Ident.name).reverse then S1.trie
                          else S1.trie ++ [(nt.map Ident.name).reverse],
                  cache := evict L.evict S1.cache nt } : St), Out.unit)).2 ∧
        ∃ d', CShape (match (cFind E L C0 nt false false).2 with
          | .err e => ((cFind E L C0 nt false false).1, Out.err e)
          | fr =>
            if earlyReturn fr ncols then ((cFind E L C0 nt false false).1, Out.unit) else
            (setCore (cFind E L C0 nt false false).1 (nt.map Ident.name) ncols
              (evict L.evict (cFind E L C0 nt false false).1.findCache nt), Out.unit)).1 d' ∧
          TInv L E (match (cFind E L C0 nt false false).2 with
          | .err e => ((cFind E L C0 nt false false).1, Out.err e)
          | fr =>
            if earlyReturn fr ncols then ((cFind E L C0 nt false false).1, Out.unit) else
            (setCore (cFind E L C0 nt false false).1 (nt.map Ident.name) ncols
              (evict L.evict (cFind E L C0 nt false false).1.findCache nt), Out.unit)).1 ∧
          Equiv (absC (match (cFind E L C0 nt false false).2 with
          | .err e => ((cFind E L C0 nt false false).1, Out.err e)
          | fr =>
            if earlyReturn fr ncols then ((cFind E L C0 nt false false).1, Out.unit) else
            (setCore (cFind E L C0 nt false false).1 (nt.map Ident.name) ncols
              (evict L.evict (cFind E L C0 nt false false).1.findCache nt), Out.unit)).1 d')
            (match find E (absC C d) nt false false with
            | (S1, r) =>
              if earlyReturn r ncols then (S1, Out.unit) else
              (({ mapping := dictSet S1.mapping (nt.map Ident.name) ncols,
                  trie := if S1.trie.contains (nt.map Ident.name).reverse then S1.trie
                          else S1.trie ++ [(nt.map Ident.name).reverse],
                  cache := evict L.evict S1.cache nt } : St), Out.unit)).1 := by
      intro C0 hC0 hT0 habs hdn
      obtain ⟨h1, h2, h3, h4⟩ := cFind_spec hk hC0 hT0 nt false false
      rw [habs] at h1 h2
      have hne := find_noraise E (absC C d) nt false
      generalize cFind E L C0 nt false false = cr at h1 h2 h3 h4
      obtain ⟨C1, fr⟩ := cr
      generalize find E (absC C d) nt false false = sr at h1 h2 hne
      obtain ⟨S1, r⟩ := sr
      simp only at h1 h2 h3 h4 hne ⊢
      subst h1
      cases fr with
      | err x => exact absurd rfl (hne x)
      | notFound =>
        simp only
        by_cases her : earlyReturn FindR.notFound ncols = true
        · simp only [her, if_true]
          exact ⟨trivial, d, h3, h4, by rw [h2]; exact Equiv.refl _⟩
        · have her' := Bool.eq_false_iff.mpr her
          simp only [her', Bool.false_eq_true, if_false]
          obtain ⟨s1, s2⟩ := set_spec h3 (nt.map Ident.name) n hfl hdn ncols (evict L.evict C1.findCache nt)
          refine ⟨trivial, n + 1, s1, ?_, ?_⟩
          · exact h4
          · rw [h2] at s2
            have : C1.findCache = S1.cache := by rw [← h2]; rfl
            rw [this] at s2 ⊢
            exact s2
      | found cols =>
        simp only
        by_cases her : earlyReturn (FindR.found cols) ncols = true
        · simp only [her, if_true]
          exact ⟨trivial, d, h3, h4, by rw [h2]; exact Equiv.refl _⟩
        · have her' := Bool.eq_false_iff.mpr her
          simp only [her', Bool.false_eq_true, if_false]
          obtain ⟨s1, s2⟩ := set_spec h3 (nt.map Ident.name) n hfl hdn ncols (evict L.evict C1.findCache nt)
          refine ⟨trivial, n + 1, s1, ?_, ?_⟩
          · exact h4
          · rw [h2] at s2
            have : C1.findCache = S1.cache := by rw [← h2]; rfl
            rw [this] at s2 ⊢
            exact s2
    simp only [coreStep, stepN]
    cases h with
    | empty e1 e2 e3 e4 =>
      have hemp : C.mapping.isEmptyDict = true := by rw [e1]; rfl
      have hflat : (absC C 0).mapping = [] := by simp [absC, e1, flatView]
      simp only [hemp, Bool.not_true, Bool.false_and, Bool.false_eq_true, if_false, if_true, hflat, ne_eq,
        not_true_eq_false, false_and]
      exact main C (.empty e1 e2 e3 e4) hT rfl (Or.inl rfl)
    | full d0 hu ht hdc hac =>
      have hne := uniform_not_empty hu
      obtain ⟨c1, c2, c3⟩ := cDepth_spec (CShape.full d0 hu ht hdc hac)
      obtain ⟨f1, f2⟩ := depth_absC_full (C := C) hu
      have hT' : TInv L E (cDepth C).1 := by unfold TInv; rw [c3.2.2.2]; exact hT
      simp only [hne, Bool.not_false, Bool.true_and, c1, f1, Bool.false_eq_true, if_false]
      by_cases hlen : nt.length = d0 + 1
      · have hb : (nt.length != d0 + 1) = false := by simp [hlen]
        have hp : ¬ ((absC C (d0 + 1)).mapping ≠ [] ∧ nt.length ≠ d0 + 1) := fun x => x.2 hlen
        simp only [hb, Bool.false_eq_true, if_false]
        rw [if_neg hp]
        exact main (cDepth C).1 c2 hT' (c3.abs _) (Or.inr (by omega))
      · have hb : (nt.length != d0 + 1) = true := by simp [hlen]
        have hp : (absC C (d0 + 1)).mapping ≠ [] ∧ nt.length ≠ d0 + 1 := ⟨f2, hlen⟩
        simp only [hb, if_true]
        rw [if_pos hp]
        exact ⟨rfl, d0 + 1, c2, hT', by rw [c3.abs]; exact Equiv.refl _⟩



/-! ### the normalisation phase through `_normalized_table_cache` / `_normalized_name_cache` -/

def NameKeyOK (L : Layouts) (E : Env) : Prop :=
  ∀ x y : NameIn, nameKey L.name x = nameKey L.name y → nameCompute E.f x = nameCompute E.f y

def TableKeyOK (L : Layouts) (E : Env) : Prop :=
  ∀ x y : TableIn, tableKey L.table y = tableKey L.table { x with table := tableCompute E.f x } →
    tableCompute E.f y = tableCompute E.f x

def NamesInv (L : Layouts) (E : Env) (m : NameCache) : Prop := MemoInv (nameKey L.name) (nameCompute E.f) m
def TablesInv (L : Layouts) (E : Env) (m : TableCache) : Prop := MemoInv (tableKey L.table) (tableCompute E.f) m

theorem nameCall_spec {L : Layouts} {E : Env} (hk : NameKeyOK L E) (m : NameCache) (hm : NamesInv L E m)
    (x : NameIn) : (nameCall E.f L.name m x).2 = nameCompute E.f x ∧ NamesInv L E (nameCall E.f L.name m x).1 :=
  ⟨memoCall_snd _ _ _ _ _ m hm x, memoCall_inv _ _ _ _ _ (fun x y h => hk y x h) m hm x⟩

theorem tableCall_spec {L : Layouts} {E : Env} (hk : TableKeyOK L E) (m : TableCache) (hm : TablesInv L E m)
    (x : TableIn) :
    (tableCall E.f L.table m x).2 = normTable E.f x.dialect.dia x.normalize x.table ∧
    TablesInv L E (tableCall E.f L.table m x).1 :=
  ⟨memoCall_snd _ _ _ _ _ m hm x, memoCall_inv _ _ _ _ _ (fun x y h => hk x y h) m hm x⟩

theorem nameCompute_col (f : CaseFns) (c : ColArg) (d : DialectRef) (norm : Bool) :
    nameCompute f (c.nameIn d false norm) = normCol f d.dia norm c.toIdent := by
  cases c <;> rfl

theorem normColsC_spec {L : Layouts} {E : Env} (hk : NameKeyOK L E) (d : DialectRef) (norm : Bool) :
    ∀ (cols : List (String × String)) (m : NameCache), NamesInv L E m →
    (normColsC E L d norm m cols).2 =
      (cols.map (fun c => ((ColArg.str c.1).toIdent, c.2))).map (fun c => (normCol E.f d.dia norm c.1, c.2)) ∧
    NamesInv L E (normColsC E L d norm m cols).1
  | [], m, hm => ⟨rfl, hm⟩
  | (c, ty) :: rest, m, hm => by
    obtain ⟨h1, h2⟩ := nameCall_spec hk m hm ⟨c, false, d, false, norm⟩
    obtain ⟨h3, h4⟩ := normColsC_spec hk d norm rest _ h2
    refine ⟨?_, h4⟩
    simp only [normColsC, h1, h3, List.map_cons]
    rw [← nameCompute_col E.f (.str c) d norm]
    rfl

/-- **the cached normalisation phase computes exactly the specification's `normOp`** -/
theorem fNormOp_spec {L : Layouts} {E : Env} (hkn : NameKeyOK L E) (hkt : TableKeyOK L E) (F : FSt)
    (hn : NamesInv L E F.names) (ht : TablesInv L E F.tables) (op : FOp) :
    (fNormOp E L F op).2 = normOp E op.toOp ∧
    NamesInv L E (fNormOp E L F op).1.1 ∧ TablesInv L E (fNormOp E L F op).1.2 := by
  cases op with
  | find table raise ensure => exact ⟨rfl, hn, ht⟩
  | addTable d norm t cols =>
    obtain ⟨t1, t2⟩ := tableCall_spec hkt F.tables ht ⟨t.parts, t.isStr, d, norm⟩
    obtain ⟨c1, c2⟩ := normColsC_spec hkn d norm cols.pairs F.names hn
    simp only [fNormOp, FOp.toOp, normOp, t1, c1]
    exact ⟨trivial, c2, t2⟩
  | columnNames d norm t ov =>
    obtain ⟨t1, t2⟩ := tableCall_spec hkt F.tables ht ⟨t.parts, t.isStr, d, norm⟩
    simp only [fNormOp, FOp.toOp, normOp, t1]
    exact ⟨trivial, hn, t2⟩
  | columnType d norm t col =>
    obtain ⟨t1, t2⟩ := tableCall_spec hkt F.tables ht ⟨t.parts, t.isStr, d, norm⟩
    obtain ⟨n1, n2⟩ := nameCall_spec hkn F.names hn (col.nameIn d false norm)
    simp only [fNormOp, FOp.toOp, normOp, t1, n1, nameCompute_col]
    exact ⟨trivial, n2, t2⟩
  | hasColumn d norm t col =>
    obtain ⟨t1, t2⟩ := tableCall_spec hkt F.tables ht ⟨t.parts, t.isStr, d, norm⟩
    obtain ⟨n1, n2⟩ := nameCall_spec hkn F.names hn (col.nameIn d false norm)
    simp only [fNormOp, FOp.toOp, normOp, t1, n1, nameCompute_col]
    exact ⟨trivial, n2, t2⟩

/-! ### the whole state -/

structure FInv (L : Layouts) (E : Env) (F : FSt) (d : Nat) : Prop where
  shape : CShape F.core d
  types : TInv L E F.core
  names : NamesInv L E F.names
  tables : TablesInv L E F.tables

/-- a `Table` always has at least its `this` part -/
def FAdm : FOp → Prop
  | .addTable _ _ t _ => t.parts ≠ []
  | _ => True

structure KeysOK (L : Layouts) (E : Env) : Prop where
  ty : TypeKeyOK L E
  name : NameKeyOK L E
  table : TableKeyOK L E

theorem normTable_ne_nil (f : CaseFns) (d : Dia) (norm : Bool) (t : List Ident) (h : t ≠ []) :
    normTable f d norm t ≠ [] := by
  unfold normTable; split
  · simpa using h
  · exact h

/-- **one call on the full model answers like the flat specification and keeps the simulation** -/
theorem fStep_refines {L : Layouts} {E : Env} (hk : KeysOK L E) {F : FSt} {d : Nat} {S : St}
    (hF : FInv L E F d) (hEq : Equiv (absC F.core d) S) (op : FOp) (hop : FAdm op) :
    (fStep E L F op).2 = (step E L.evict S op.toOp).2 ∧
    ∃ d', FInv L E (fStep E L F op).1 d' ∧ Equiv (absC (fStep E L F op).1.core d') (step E L.evict S op.toOp).1 := by
  obtain ⟨n1, n2, n3⟩ := fNormOp_spec hk.name hk.table F hF.names hF.tables op
  have hadm : NAdm (normOp E op.toOp) := by
    cases op with
    | addTable d norm t cols => exact normTable_ne_nil _ _ _ _ hop
    | _ => trivial
  unfold fStep step
  simp only
  rw [n1]
  obtain ⟨c1, d', c2, c3, c4⟩ := coreStep_spec hk.ty hF.shape hF.types (normOp E op.toOp) hadm
  obtain ⟨e1, e2⟩ := stepN_congr E L.evict hEq (normOp E op.toOp)
  exact ⟨c1.trans e1, d', ⟨c2, c3, n2, n3⟩, c4.trans e2⟩

theorem fRun_refines {L : Layouts} {E : Env} (hk : KeysOK L E) : ∀ (ops : List FOp) {F : FSt} {d : Nat} {S : St},
    FInv L E F d → Equiv (absC F.core d) S → (∀ op ∈ ops, FAdm op) →
    ∃ d', FInv L E (fRun E L F ops) d' ∧ Equiv (absC (fRun E L F ops).core d') (run E L.evict S (ops.map FOp.toOp))
  | [], F, d, S, hF, hEq, _ => ⟨d, hF, hEq⟩
  | op :: ops, F, d, S, hF, hEq, hadm => by
    obtain ⟨_, d', h1, h2⟩ := fStep_refines hk hF hEq op (hadm op (List.mem_cons_self ..))
    have := fRun_refines hk ops h1 h2 (fun o ho => hadm o (List.mem_cons_of_mem _ ho))
    simpa [fRun, run] using this



/-! ### the state the constructor builds from an (already normalised) mapping -/

theorem trieOfPaths_spec (d : Nat) : ∀ (paths : List (List Name)) (T0 : Trie),
    (UniformT (d + 1) T0 ∨ T0 = Trie.empty) → (∀ p ∈ paths, p.length = d + 1) →
    (UniformT (d + 1) (paths.foldl (fun t p => trieInsert t p.reverse) T0) ∨
      (paths.foldl (fun t p => trieInsert t p.reverse) T0 = Trie.empty ∧ paths = [])) ∧
    ∀ q, q ∈ keysAt (d + 1) (paths.foldl (fun t p => trieInsert t p.reverse) T0) ↔
      (q ∈ keysAt (d + 1) T0 ∨ q ∈ paths.map List.reverse)
  | [], T0, h0, _ => by
    refine ⟨?_, by simp⟩
    rcases h0 with h | h
    · exact Or.inl h
    · exact Or.inr ⟨h, rfl⟩
  | p :: ps, T0, h0, hl => by
    have hp : p.reverse.length = d + 1 := by simp [hl p (List.mem_cons_self ..)]
    obtain ⟨u, m⟩ := trieInsert_spec p.reverse (d + 1) T0 h0 hp
    obtain ⟨u2, m2⟩ := trieOfPaths_spec d ps (trieInsert T0 p.reverse) (Or.inl u)
      (fun q hq => hl q (List.mem_cons_of_mem _ hq))
    simp only [List.foldl_cons]
    refine ⟨?_, ?_⟩
    · rcases u2 with h | ⟨h, _⟩
      · exact Or.inl h
      · rw [h] at m2
        have := (m2 p.reverse).mpr (Or.inl ((m p.reverse).mpr (Or.inl rfl)))
        simp [Trie.empty, keysAt] at this
    · intro q
      rw [m2 q, m q]
      simp only [List.map_cons, List.mem_cons]
      constructor
      · rintro ((h | h) | h)
        · exact Or.inr (Or.inl h)
        · exact Or.inl h
        · exact Or.inr (Or.inr h)
      · rintro (h | h | h)
        · exact Or.inl (Or.inr h)
        · exact Or.inl (Or.inl h)
        · exact Or.inr h

theorem coreOfMapping_empty : CShape (coreOfMapping (.node [])) 0 ∧ absC (coreOfMapping (.node [])) 0 = empty := by
  refine ⟨.empty rfl rfl rfl rfl, rfl⟩

/-- **`MappingSchema(mapping, normalize=False)`**: an admissible state whose flat view is the fresh flat state -/
theorem coreOfMapping_spec (d : Nat) (m : Tree) (hu : Uniform (d + 1) m) :
    CShape (coreOfMapping m) (d + 1) ∧
    Equiv (absC (coreOfMapping m) (d + 1)) (fresh ⟨flatView (d + 1) m, [], []⟩) := by
  have hne := uniform_not_empty hu
  have hdd := dictDepth_uniform _ _ hu
  have hdep : (cDepth ⟨m, Trie.empty, [], 0, 0, []⟩).2 = d + 1 := by
    simp [cDepth, hne, hdd]
  have hfl := flatten_flatView d m [] hu.shape
  have hlen : ∀ p ∈ flatten (d + 1) [] m, p.length = d + 1 := by
    intro p hp
    rw [hfl] at hp
    simp only [List.nil_append, List.mem_map] at hp
    obtain ⟨pc, hpc, e⟩ := hp
    rw [← e]; exact flatView_lengths _ _ _ hpc
  obtain ⟨u, mem⟩ := trieOfPaths_spec d (flatten (d + 1) [] m) Trie.empty (Or.inr rfl) hlen
  have hU : UniformT (d + 1) (trieOfPaths (flatten (d + 1) [] m)) := by
    rcases u with h | ⟨_, h⟩
    · exact h
    · obtain ⟨p, c, rest, e, _⟩ := flatView_head _ _ hu
      rw [hfl, e] at h; simp at h
  have hcore : coreOfMapping m =
      ⟨m, trieOfPaths (flatten (d + 1) [] m), [], d + 1, 0, []⟩ := by
    simp only [coreOfMapping, hdep]
    simp [cDepth, hne, hdd]
  rw [hcore]
  refine ⟨.full d hu hU (Or.inr rfl) (Or.inl rfl), ?_⟩
  refine ⟨fun _ => rfl, Iff.rfl, rfl, ?_, rfl⟩
  intro q
  simp only [absC, fresh, trieOfPaths]
  rw [mem q, hfl]
  simp [Trie.empty, keysAt, List.map_map, Function.comp_def]



/-! ### constructor = incremental `add_table` (flat view) -/

theorem foldl_dictSet_ne_nil {α β} [DecidableEq α] : ∀ (l : List (α × β)) (acc : List (α × β)),
    (acc ≠ [] ∨ l ≠ []) → l.foldl (fun cs c => dictSet cs c.1 c.2) acc ≠ []
  | [], acc, h => by rcases h with h | h; exact h; exact absurd rfl h
  | x :: xs, acc, _ => foldl_dictSet_ne_nil xs _ (Or.inl (dictSet_ne_nil _ _ _))

theorem addOpOf_norm (E : Env) (kc : List Name × Cols) :
    normOp E (addOpOf E kc) =
      .addTable ((kc.1.map parseIdent).map (normIdent E.f E.self.dia true)) (ofPairs (normColPairs E kc.2)) := by
  simp only [addOpOf, normOp, normTable, if_true, normColPairs, List.map_map]
  rfl

theorem normKeys_eq (E : Env) (keys : List Name) :
    ((keys.map parseIdent).map (normIdent E.f E.self.dia true)).map (·.name) = normKeys E keys := by
  simp only [normKeys, List.map_map]
  rfl

/-- what the theorem assumes about the raw mapping: uniform depth, every table has a column, and no two raw
    tables normalise to the same path (otherwise the constructor MERGES them while `add_table` replaces) -/
structure CtorOK (E : Env) (n : Nat) (raw : List (List Name × Cols)) : Prop where
  len : ∀ kc ∈ raw, kc.1.length = n + 1
  cols : ∀ kc ∈ raw, kc.2 ≠ []
  nocoll : (raw.map (fun kc => normKeys E kc.1)).Nodup

theorem ctor_step (E : Env) (ev : Evict) (n : Nat) (S : St) (kc : List Name × Cols)
    (hall : ∀ pc ∈ S.mapping, pc.1.length = n + 1) (hlen : kc.1.length = n + 1) (hcols : kc.2 ≠ [])
    (hfresh : normKeys E kc.1 ∉ S.mapping.map (·.1)) :
    (step E ev S (addOpOf E kc)).1.mapping = ctorFlatStep E S.mapping kc := by
  unfold step
  rw [addOpOf_norm]
  simp only [stepN]
  have hnl : ((kc.1.map parseIdent).map (normIdent E.f E.self.dia true)).length = n + 1 := by simp [hlen]
  have hdep : ¬ (S.mapping ≠ [] ∧ ((kc.1.map parseIdent).map (normIdent E.f E.self.dia true)).length ≠ depth S) := by
    rintro ⟨h1, h2⟩
    apply h2
    rw [hnl]
    unfold depth
    cases hm : S.mapping with
    | nil => exact absurd hm h1
    | cons x xs =>
      obtain ⟨p, c⟩ := x
      simp only
      exact (hall (p, c) (by rw [hm]; simp)).symm
  rw [if_neg hdep]
  have hM := find_mapping E S ((kc.1.map parseIdent).map (normIdent E.f E.self.dia true)) false false
  generalize find E S ((kc.1.map parseIdent).map (normIdent E.f E.self.dia true)) false false = fr at hM
  obtain ⟨S1, r⟩ := fr
  simp only at hM ⊢
  have hne : ofPairs (normColPairs E kc.2) ≠ [] := by
    unfold ofPairs
    apply foldl_dictSet_ne_nil
    right
    simp only [normColPairs, ne_eq, List.map_eq_nil_iff]
    exact hcols
  have her : earlyReturn r (ofPairs (normColPairs E kc.2)) = false := by
    cases hq : ofPairs (normColPairs E kc.2) with
    | nil => exact absurd hq hne
    | cons a as => cases r <;> simp [earlyReturn]
  simp only [her, Bool.false_eq_true, if_false]
  rw [hM.1, normKeys_eq]
  unfold ctorFlatStep
  have hl : lookup S.mapping (normKeys E kc.1) = none := lookup_none_iff.mpr hfresh
  rw [hl]
  rfl

theorem ctor_run (E : Env) (ev : Evict) (n : Nat) : ∀ (raw : List (List Name × Cols)) (S : St),
    (∀ pc ∈ S.mapping, pc.1.length = n + 1) → CtorOK E n raw →
    (∀ kc ∈ raw, normKeys E kc.1 ∉ S.mapping.map (·.1)) →
    raw.foldl (ctorFlatStep E) S.mapping = (run E ev S (raw.map (addOpOf E))).mapping
  | [], S, _, _, _ => rfl
  | kc :: rest, S, hall, hok, hfresh => by
    have hstep := ctor_step E ev n S kc hall (hok.len kc (List.mem_cons_self ..)) (hok.cols kc (List.mem_cons_self ..))
      (hfresh kc (List.mem_cons_self ..))
    simp only [List.foldl_cons, List.map_cons, run]
    rw [← hstep]
    have hnk : (normKeys E kc.1).length = n + 1 := by simp [normKeys, hok.len kc (List.mem_cons_self ..)]
    have hkeys : ((step E ev S (addOpOf E kc)).1.mapping).map (·.1) = S.mapping.map (·.1) ++ [normKeys E kc.1] := by
      rw [hstep]; unfold ctorFlatStep
      rw [mem_map_fst_dictSet, if_neg (hfresh kc (List.mem_cons_self ..))]
    have hnd := hok.nocoll
    simp only [List.map_cons, List.nodup_cons] at hnd
    refine ctor_run E ev n rest _ ?_ ⟨fun x hx => hok.len x (List.mem_cons_of_mem _ hx),
      fun x hx => hok.cols x (List.mem_cons_of_mem _ hx), hnd.2⟩ ?_
    · intro pc hpc
      have : pc.1 ∈ ((step E ev S (addOpOf E kc)).1.mapping).map (·.1) := List.mem_map.mpr ⟨pc, hpc, rfl⟩
      rw [hkeys, List.mem_append] at this
      rcases this with h | h
      · obtain ⟨pc', hpc', e⟩ := List.mem_map.mp h
        rw [← e]; exact hall pc' hpc'
      · simp only [List.mem_singleton] at h; rw [h]; exact hnk
    · intro x hx
      rw [hkeys, List.mem_append]
      rintro (h | h)
      · exact hfresh x (List.mem_cons_of_mem _ hx) h
      · simp only [List.mem_singleton] at h
        exact hnd.1 (List.mem_map.mpr ⟨x, hx, h⟩)


/-- one `nested_set(normalized_mapping, keys + [col], type)` of the constructor's inner loop refines the flat
    "set this column in the table's column dict (created on the way)" -/
theorem nestedSetCol_refines (d : Nat) (m : Tree) (path : Path) (col : Name) (ty : String)
    (hs : Shape (d + 1) m) (hl : path.length = d + 1) :
    Shape (d + 1) (nestedSetCol m path col ty) ∧
    ∀ q, lookup (flatView (d + 1) (nestedSetCol m path col ty)) q =
      if path = q then
        some (dictSet (match lookup (flatView (d + 1) m) path with | some c => c | none => []) col ty)
      else lookup (flatView (d + 1) m) q := by
  unfold nestedSetCol
  rw [nestedGet_flatView (d + 1) m path hs hl]
  cases lookup (flatView (d + 1) m) path with
  | some c => exact flatView_nestedSet d m path _ hs hl
  | none => exact flatView_nestedSet d m path _ hs hl


/-! ### the real constructor loop (`_normalize` over the nested raw mapping) refines `ctorFlat` -/

def LookEq (a b : List (Path × Cols)) : Prop := ∀ q, lookup a q = lookup b q

theorem LookEq.dictSet {a b : List (Path × Cols)} (h : LookEq a b) (p : Path) (c : Cols) :
    LookEq (dictSet a p c) (dictSet b p c) := by
  intro q; rw [lookup_dictSet, lookup_dictSet, h q]

/-- the flat meaning of one `nested_set(mapping, keys + [col], type)` -/
def colStep (np : Path) (fm : List (Path × Cols)) (c : Name × String) : List (Path × Cols) :=
  dictSet fm np (dictSet (match lookup fm np with | some x => x | none => []) c.1 c.2)

theorem colStep_lookEq {a b : List (Path × Cols)} (h : LookEq a b) (np : Path) (c : Name × String) :
    LookEq (colStep np a c) (colStep np b c) := by
  unfold colStep; rw [h np]; exact h.dictSet _ _

/-- setting the columns one by one = setting the finished column dict once (when there is a column) -/
theorem colStep_fold (np : Path) : ∀ (pairs : List (Name × String)) (fm : List (Path × Cols)), pairs ≠ [] →
    LookEq (pairs.foldl (colStep np) fm)
      (dictSet fm np (pairs.foldl (fun cs c => dictSet cs c.1 c.2) (match lookup fm np with | some x => x | none => [])))
  | [], _, h => absurd rfl h
  | p :: ps, fm, _ => by
    simp only [List.foldl_cons]
    cases ps with
    | nil => intro q; rfl
    | cons p2 ps2 =>
      have ih := colStep_fold np (p2 :: ps2) (colStep np fm p) (by simp)
      intro q
      rw [ih q]
      have hl : lookup (colStep np fm p) np = some (dictSet (match lookup fm np with | some x => x | none => []) p.1 p.2) := by
        unfold colStep; rw [lookup_dictSet]; simp
      rw [hl]
      simp only
      unfold colStep
      rw [lookup_dictSet, lookup_dictSet, lookup_dictSet]
      split <;> rfl

theorem flatView_keys_nodup : ∀ (d : Nat) (m : Tree), Shape d m → ((flatView d m).map (·.1)).Nodup
  | 0, _, ⟨cols, e⟩ => by subst e; simp [flatView]
  | d + 1, _, ⟨kids, e, hn, hk⟩ => by
    subst e
    simp only [flatView, List.map_flatMap, List.map_map, List.Nodup, List.pairwise_flatMap]
    refine ⟨?_, ?_⟩
    · intro kv hkv
      have := flatView_keys_nodup d kv.2 (hk kv hkv)
      rw [List.Nodup, List.pairwise_map] at this
      rw [List.pairwise_map]
      exact this.imp (by intro a b hab e; exact hab (List.cons.inj e).2)
    · have : List.Pairwise (fun a b : Name × Tree => a.1 ≠ b.1) kids := by
        have := hn; rw [List.Nodup, List.pairwise_map] at this; exact this
      refine this.imp ?_
      intro a b hab x hx y hy e
      simp only [List.mem_map, Function.comp] at hx hy
      obtain ⟨x', _, ex⟩ := hx
      obtain ⟨y', _, ey⟩ := hy
      rw [← ex, ← ey] at e
      exact hab (List.cons.inj e).1

theorem normKeysC_spec {L : Layouts} {E : Env} (hk : NameKeyOK L E) : ∀ (keys : List Name) (m : NameCache),
    NamesInv L E m → (normKeysC E L m keys).2 = normKeys E keys ∧ NamesInv L E (normKeysC E L m keys).1
  | [], m, hm => ⟨rfl, hm⟩
  | k :: rest, m, hm => by
    obtain ⟨h1, h2⟩ := nameCall_spec hk m hm ⟨k, false, E.self, true, true⟩
    obtain ⟨h3, h4⟩ := normKeysC_spec hk rest _ h2
    refine ⟨?_, h4⟩
    simp only [normKeysC, h1, h3, normKeys, List.map_cons]

/-- the inner loop over one table's columns -/
theorem ctorCols_spec {L : Layouts} {E : Env} (hk : NameKeyOK L E) (n : Nat) (np : Path) (hl : np.length = n + 1) :
    ∀ (cols : Cols) (names : NameCache) (m : Tree) (fm : List (Path × Cols)), NamesInv L E names →
    (Uniform (n + 1) m ∨ m = .node []) → LookEq (flatView (n + 1) m) fm →
    NamesInv L E (ctorCols E L np (names, m) cols).1 ∧
    (cols ≠ [] → Uniform (n + 1) (ctorCols E L np (names, m) cols).2) ∧
    (Uniform (n + 1) (ctorCols E L np (names, m) cols).2 ∨ (ctorCols E L np (names, m) cols).2 = .node []) ∧
    LookEq (flatView (n + 1) (ctorCols E L np (names, m) cols).2) ((normColPairs E cols).foldl (colStep np) fm)
  | [], names, m, fm, hn, hm, hle => ⟨hn, fun h => absurd rfl h, hm, hle⟩
  | (c, ty) :: rest, names, m, fm, hn, hm, hle => by
    obtain ⟨h1, h2⟩ := nameCall_spec hk names hn ⟨c, false, E.self, false, true⟩
    have hs : Shape (n + 1) m := by
      rcases hm with h | h
      · exact h.shape
      · subst h; exact shape_empty n
    obtain ⟨_, r2⟩ := nestedSetCol_refines n m np (nameCall E.f L.name names ⟨c, false, E.self, false, true⟩).2 ty hs hl
    have hu : Uniform (n + 1) (nestedSetCol m np (nameCall E.f L.name names ⟨c, false, E.self, false, true⟩).2 ty) :=
      uniform_nestedSet n m np _ hm hl
    have hle' : LookEq (flatView (n + 1) (nestedSetCol m np (nameCall E.f L.name names ⟨c, false, E.self, false, true⟩).2 ty))
        (colStep np fm (nameCompute E.f ⟨c, false, E.self, false, true⟩, ty)) := by
      intro q
      rw [r2 q, h1, hle np, hle q]
      unfold colStep
      rw [lookup_dictSet]
      try (split <;> rfl)
    obtain ⟨i1, _, i3, i4⟩ := ctorCols_spec hk n np hl rest _ _ _ h2 (Or.inl hu) hle'
    simp only [ctorCols]
    refine ⟨i1, fun _ => ?_, i3, ?_⟩
    · rcases i3 with h | h
      · exact h
      · -- the accumulator was uniform (non-empty) and only grows
        cases rest with
        | nil => simp only [ctorCols] at h ⊢; exact hu
        | cons r rs =>
          exact (ctorCols_spec hk n np hl (r :: rs) _ _ _ h2 (Or.inl hu) hle').2.1 (by simp)
    · simpa [normColPairs] using i4


theorem nestedGet_of_mem (d : Nat) (m : Tree) (hs : Shape d m) (keys : Path) (cols : Cols)
    (h : (keys, cols) ∈ flatView d m) : nestedGet m keys = .found (.leaf cols) := by
  rw [nestedGet_flatView d m keys hs (flatView_lengths d m _ h),
    lookup_of_mem_nodup (flatView_keys_nodup d m hs) h]

/-- one iteration of `for keys in flattened_schema` -/
theorem ctorTable_spec {L : Layouts} {E : Env} (hk : NameKeyOK L E) (n : Nat) (raw : Tree) (hs : Shape (n + 1) raw)
    (keys : Path) (cols : Cols) (hmem : (keys, cols) ∈ flatView (n + 1) raw) (hc : cols ≠ [])
    (names : NameCache) (m : Tree) (fm : List (Path × Cols)) (hn : NamesInv L E names)
    (hm : Uniform (n + 1) m ∨ m = .node []) (hle : LookEq (flatView (n + 1) m) fm) :
    ∃ names' m', ctorTable E L raw (names, m) keys = .ok (names', m') ∧ NamesInv L E names' ∧
      Uniform (n + 1) m' ∧ LookEq (flatView (n + 1) m') (ctorFlatStep E fm (keys, cols)) := by
  have hg := nestedGet_of_mem (n + 1) raw hs keys cols hmem
  have hkl : keys.length = n + 1 := flatView_lengths _ _ _ hmem
  obtain ⟨k1, k2⟩ := normKeysC_spec hk keys names hn
  have hnl : (normKeysC E L names keys).2.length = n + 1 := by rw [k1]; simp [normKeys, hkl]
  obtain ⟨c1, c2, _, c4⟩ := ctorCols_spec hk n _ hnl cols _ m fm k2 hm hle
  refine ⟨_, _, ?_, c1, c2 hc, ?_⟩
  · unfold ctorTable
    rw [hg]
    cases cols with
    | nil => exact absurd rfl hc
    | cons c cs => rfl
  · intro q
    rw [c4 q, k1]
    have hp : normColPairs E cols ≠ [] := by simpa [normColPairs] using hc
    exact colStep_fold (normKeys E keys) (normColPairs E cols) fm hp q

theorem ctorFlatStep_lookEq (E : Env) {a b : List (Path × Cols)} (h : LookEq a b) (kc : List Name × Cols) :
    LookEq (ctorFlatStep E a kc) (ctorFlatStep E b kc) := by
  unfold ctorFlatStep; rw [h _]; exact h.dictSet _ _

/-- the whole loop -/
theorem ctorLoop_spec {L : Layouts} {E : Env} (hk : NameKeyOK L E) (n : Nat) (raw : Tree) (hs : Shape (n + 1) raw) :
    ∀ (entries : List (Path × Cols)), (∀ kc ∈ entries, kc ∈ flatView (n + 1) raw) → (∀ kc ∈ entries, kc.2 ≠ []) →
    ∀ (names : NameCache) (m : Tree) (fm : List (Path × Cols)), NamesInv L E names →
    (Uniform (n + 1) m ∨ m = .node []) → LookEq (flatView (n + 1) m) fm →
    ∃ names' m', ctorLoop E L raw (names, m) (entries.map (·.1)) = .ok (names', m') ∧ NamesInv L E names' ∧
      (Uniform (n + 1) m' ∨ m' = .node []) ∧ (entries ≠ [] → Uniform (n + 1) m') ∧
      LookEq (flatView (n + 1) m') (entries.foldl (ctorFlatStep E) fm)
  | [], _, _, names, m, fm, hn, hm, hle => ⟨names, m, rfl, hn, hm, fun h => absurd rfl h, hle⟩
  | (keys, cols) :: rest, hmem, hc, names, m, fm, hn, hm, hle => by
    obtain ⟨n1, m1, e1, i1, u1, l1⟩ := ctorTable_spec hk n raw hs keys cols (hmem _ (List.mem_cons_self ..))
      (hc _ (List.mem_cons_self ..)) names m fm hn hm hle
    obtain ⟨n2, m2, e2, i2, u2, _, l2⟩ := ctorLoop_spec hk n raw hs rest (fun kc h => hmem kc (List.mem_cons_of_mem _ h))
      (fun kc h => hc kc (List.mem_cons_of_mem _ h)) n1 m1 _ i1 (Or.inl u1) l1
    refine ⟨n2, m2, ?_, i2, u2, fun _ => ?_, l2⟩
    · simp only [List.map_cons, ctorLoop, e1, e2]
    · rcases u2 with h | h
      · exact h
      · cases rest with
        | nil => simp only [List.map_nil, ctorLoop] at e2; cases e2; exact u1
        | cons r rs =>
          obtain ⟨_, _, e3, _, _, u3, _⟩ := ctorLoop_spec hk n raw hs (r :: rs)
            (fun kc h => hmem kc (List.mem_cons_of_mem _ h)) (fun kc h => hc kc (List.mem_cons_of_mem _ h)) n1 m1 _ i1 (Or.inl u1) l1
          rw [e2] at e3; cases e3; exact u3 (by simp)

theorem ctorFlat_lengths (E : Env) (n : Nat) : ∀ (entries : List (Path × Cols)) (fm : List (Path × Cols)),
    (∀ kc ∈ entries, kc.1.length = n + 1) → (∀ pc ∈ fm, pc.1.length = n + 1) →
    ∀ pc ∈ entries.foldl (ctorFlatStep E) fm, pc.1.length = n + 1
  | [], _, _, hf => hf
  | kc :: rest, fm, he, hf => by
    simp only [List.foldl_cons]
    refine ctorFlat_lengths E n rest _ (fun x h => he x (List.mem_cons_of_mem _ h)) ?_
    intro pc hpc
    unfold ctorFlatStep at hpc
    rcases mem_dictSet hpc with h | h
    · rw [h]; simp [normKeys, he kc (List.mem_cons_self ..)]
    · exact hf pc h

theorem foldl_ctorFlatStep_ne_nil (E : Env) : ∀ (entries : List (Path × Cols)) (fm : List (Path × Cols)),
    (fm ≠ [] ∨ entries ≠ []) → entries.foldl (ctorFlatStep E) fm ≠ []
  | [], fm, h => by rcases h with h | h; exact h; exact absurd rfl h
  | kc :: rest, fm, _ => foldl_ctorFlatStep_ne_nil E rest _ (Or.inl (dictSet_ne_nil _ _ _))

/-- two non-empty flat mappings that agree as finite maps (all paths of one length) give equivalent fresh states -/
theorem fresh_equiv_of_lookEq (n : Nat) {a b : List (Path × Cols)} (h : LookEq a b) (ha : a ≠ []) (hb : b ≠ [])
    (la : ∀ pc ∈ a, pc.1.length = n + 1) (lb : ∀ pc ∈ b, pc.1.length = n + 1) :
    Equiv (fresh ⟨a, [], []⟩) (fresh ⟨b, [], []⟩) := by
  refine ⟨h, ⟨fun x => absurd x ha, fun x => absurd x hb⟩, ?_, ?_, rfl⟩
  · unfold depth fresh
    cases a with
    | nil => exact absurd rfl ha
    | cons x xs =>
      cases b with
      | nil => exact absurd rfl hb
      | cons y ys =>
        simp only
        rw [la x (List.mem_cons_self ..), lb y (List.mem_cons_self ..)]
  · intro k
    simp only [fresh, List.mem_map]
    have key : ∀ p, p ∈ a.map (·.1) ↔ p ∈ b.map (·.1) := by
      intro p
      constructor
      · intro hp
        exact Classical.byContradiction fun hn =>
          (lookup_none_iff.mp (by rw [h p]; exact lookup_none_iff.mpr hn)) hp
      · intro hp
        exact Classical.byContradiction fun hn =>
          (lookup_none_iff.mp (by rw [← h p]; exact lookup_none_iff.mpr hn)) hp
    constructor
    · rintro ⟨pc, hpc, e⟩
      obtain ⟨pc', hpc', e'⟩ := List.mem_map.mp ((key pc.1).mp (List.mem_map.mpr ⟨pc, hpc, rfl⟩))
      exact ⟨pc', hpc', by rw [e', e]⟩
    · rintro ⟨pc, hpc, e⟩
      obtain ⟨pc', hpc', e'⟩ := List.mem_map.mp ((key pc.1).mpr (List.mem_map.mpr ⟨pc, hpc, rfl⟩))
      exact ⟨pc', hpc', by rw [e', e]⟩

/-- **`MappingSchema(raw, normalize=True)`**: the real constructor (flatten, per-table `nested_get`, cached name
    normalisation, column-by-column `nested_set`, trie and `_depth` built by `AbstractMappingSchema.__init__`)
    succeeds on a uniform raw mapping whose tables all have a column, yields an admissible state, and that state
    stands for the fresh flat state over `ctorFlat` -/
theorem fInit_normalize_spec {L : Layouts} {E : Env} (hk : NameKeyOK L E) (n : Nat) (raw : Tree)
    (hu : Uniform (n + 1) raw) (hc : ∀ kc ∈ flatView (n + 1) raw, kc.2 ≠ []) :
    ∃ F, fInit E L raw true = .ok F ∧ CShape F.core (n + 1) ∧ NamesInv L E F.names ∧ F.tables = [] ∧
      F.core.types = [] ∧
      Equiv (absC F.core (n + 1)) (fresh ⟨ctorFlat E (flatView (n + 1) raw), [], []⟩) := by
  have hfl : flatten (dictDepth raw - 1) [] raw = (flatView (n + 1) raw).map (·.1) := by
    rw [dictDepth_uniform _ _ hu, Nat.add_sub_cancel, flatten_flatView n raw [] hu.shape]
    simp
  obtain ⟨p0, c0, r0, e0, _⟩ := flatView_head _ _ hu
  have hne : flatView (n + 1) raw ≠ [] := by rw [e0]; simp
  obtain ⟨names', m', e1, i1, _, u1, l1⟩ := ctorLoop_spec hk n raw hu.shape (flatView (n + 1) raw) (fun _ h => h) hc
    [] (.node []) [] (memoInv_nil _ _) (Or.inr rfl) (by intro q; simp [flatView, lookup])
  have um := u1 hne
  obtain ⟨s1, s2⟩ := coreOfMapping_spec n m' um
  refine ⟨⟨coreOfMapping m', names', []⟩, ?_, s1, i1, rfl, ?_, ?_⟩
  · simp only [fInit, if_true, hfl, e1]
  · simp [coreOfMapping, cDepth]; split <;> rfl
  · refine s2.trans (fresh_equiv_of_lookEq n l1 ?_ ?_ ?_ ?_)
    · obtain ⟨p, c, r, e, _⟩ := flatView_head _ _ um; rw [e]; simp
    · exact foldl_ctorFlatStep_ne_nil E _ _ (Or.inr hne)
    · exact fun pc h => flatView_lengths _ _ _ h
    · exact ctorFlat_lengths E n _ [] (fun kc h => flatView_lengths _ _ _ h) (by intro pc h; cases h)



/-- how `raise_on_missing` enters the uncached `find`: it turns the ambiguous `None` into an error, nothing else -/
theorem findU_raise_cases (m : List (Path × Cols)) (tr : List (List Name)) (t : List Ident) :
    (∀ v, findU m tr t true = .found v ↔ findU m tr t false = .found v) ∧
    (findU m tr t true = .err .ambiguous → findU m tr t false = .notFound) ∧
    (findU m tr t true = .notFound → findU m tr t false = .notFound) ∧
    (findU m tr t false = .notFound →
      findU m tr t true = .notFound ∨ findU m tr t true = .err .ambiguous ∨ findU m tr t true = .err .internal) := by
  refine ⟨fun v => ⟨fun h => findU_found_raise h false, fun h => findU_found_raise h true⟩, ?_, ?_, ?_⟩
  all_goals
    unfold findU
    simp only
    generalize (List.take _ (List.map (fun x => x.name) t).reverse) = parts
    unfold findInTrie
    cases inTrie tr parts with
    | failed => simp
    | exists_ =>
      simp only
      cases lookup m parts.reverse <;> simp
    | prefix_ ps =>
      match ps with
      | [] => simp
      | [p] =>
        simp only
        cases lookup m (parts ++ p).reverse <;> simp
      | _ :: _ :: _ => simp

/-- under the invariant the trie only knows registered paths: `nested_get` after a trie hit cannot miss -/
theorem findUncached_no_internal {E : Env} {S : St} (hS : Inv E S) (t : List Ident) (r : Bool) :
    findUncached S t r ≠ .err .internal := by
  rw [findUncached_eq]
  cases hf : findInTrie S.trie (((t.map (·.name)).reverse).take (depth S)) r with
  | none => simp
  | ambiguous => simp
  | parts ps =>
    simp only
    have hmem := findInTrie_parts_mem hf
    rw [hS.trie_eq, List.mem_map] at hmem
    obtain ⟨pc, hpc, e⟩ := hmem
    have : lookup S.mapping ps.reverse ≠ none := by
      intro hn
      have := lookup_none_iff.mp hn
      apply this
      rw [← e, List.reverse_reverse]
      exact List.mem_map.mpr ⟨pc, hpc, rfl⟩
    cases hl : lookup S.mapping ps.reverse with
    | some c => simp
    | none => exact absurd hl this



/-- the only exceptions `find` can raise: the ambiguity SchemaError, or `nested_get`'s ValueError -/
theorem findU_err_kinds (m : List (Path × Cols)) (tr : List (List Name)) (t : List Ident) (r : Bool) (x : Err)
    (h : findU m tr t r = .err x) : x = .ambiguous ∨ x = .internal := by
  unfold findU at h
  simp only at h
  generalize (List.take _ (List.map (fun x => x.name) t).reverse) = parts at h
  unfold findInTrie at h
  cases hT : inTrie tr parts with
  | failed => rw [hT] at h; simp at h
  | exists_ =>
    rw [hT] at h
    simp only at h
    cases hl : lookup m parts.reverse <;> rw [hl] at h <;> cases r <;> simp at h
    exact Or.inr h.symm
  | prefix_ ps =>
    rw [hT] at h
    match ps, h with
    | [], h => cases r <;> simp at h; exact Or.inl h.symm
    | [p], h =>
      simp only at h
      cases hl : lookup m (parts ++ p).reverse <;> rw [hl] at h <;> cases r <;> simp at h
      exact Or.inr h.symm
    | _ :: _ :: _, h => cases r <;> simp at h; exact Or.inl h.symm

/-- the part of `add_table` after the nesting check, from any state `C0` with the abstract view of `C` -/
theorem addTail_spec {L : Layouts} {E : Env} (hk : TypeKeyOK L E) {C : Core} {d : Nat} (nt : List Ident) (ncols : Cols)
    (n : Nat) (hfl : ((nt.map Ident.name)).length = n + 1) :
    ∀ C0 : Core, CShape C0 d → TInv L E C0 → absC C0 d = absC C d → (d = 0 ∨ d = n + 1) →
    (match (cFind E L C0 nt false false).2 with
      | .err e => ((cFind E L C0 nt false false).1, Out.err e)
      | fr =>
        if earlyReturn fr ncols then ((cFind E L C0 nt false false).1, Out.unit) else
        (setCore (cFind E L C0 nt false false).1 (nt.map Ident.name) ncols
          (evict L.evict (cFind E L C0 nt false false).1.findCache nt), Out.unit)).2 =
      (match find E (absC C d) nt false false with
        | (S1, r) =>
          if earlyReturn r ncols then (S1, Out.unit) else
          (({ mapping := dictSet S1.mapping (nt.map Ident.name) ncols,
              trie := if S1.trie.contains (nt.map Ident.name).reverse then S1.trie
                      else S1.trie ++ [(nt.map Ident.name).reverse],
              cache := evict L.evict S1.cache nt } : St), Out.unit)).2 ∧
    ∃ d', CShape (match (cFind E L C0 nt false false).2 with
      | .err e => ((cFind E L C0 nt false false).1, Out.err e)
      | fr =>
        if earlyReturn fr ncols then ((cFind E L C0 nt false false).1, Out.unit) else
        (setCore (cFind E L C0 nt false false).1 (nt.map Ident.name) ncols
          (evict L.evict (cFind E L C0 nt false false).1.findCache nt), Out.unit)).1 d' ∧
      TInv L E (match (cFind E L C0 nt false false).2 with
      | .err e => ((cFind E L C0 nt false false).1, Out.err e)
      | fr =>
        if earlyReturn fr ncols then ((cFind E L C0 nt false false).1, Out.unit) else
        (setCore (cFind E L C0 nt false false).1 (nt.map Ident.name) ncols
          (evict L.evict (cFind E L C0 nt false false).1.findCache nt), Out.unit)).1 ∧
      Equiv (absC (match (cFind E L C0 nt false false).2 with
      | .err e => ((cFind E L C0 nt false false).1, Out.err e)
      | fr =>
        if earlyReturn fr ncols then ((cFind E L C0 nt false false).1, Out.unit) else
        (setCore (cFind E L C0 nt false false).1 (nt.map Ident.name) ncols
          (evict L.evict (cFind E L C0 nt false false).1.findCache nt), Out.unit)).1 d')
        (match find E (absC C d) nt false false with
        | (S1, r) =>
          if earlyReturn r ncols then (S1, Out.unit) else
          (({ mapping := dictSet S1.mapping (nt.map Ident.name) ncols,
              trie := if S1.trie.contains (nt.map Ident.name).reverse then S1.trie
                      else S1.trie ++ [(nt.map Ident.name).reverse],
              cache := evict L.evict S1.cache nt } : St), Out.unit)).1 := by
  intro C0 hC0 hT0 habs hdn
  obtain ⟨h1, h2, h3, h4⟩ := cFind_spec hk hC0 hT0 nt false false
  rw [habs] at h1 h2
  have hne := find_noraise E (absC C d) nt false
  generalize cFind E L C0 nt false false = cr at h1 h2 h3 h4
  obtain ⟨C1, fr⟩ := cr
  generalize find E (absC C d) nt false false = sr at h1 h2 hne
  obtain ⟨S1, r⟩ := sr
  simp only at h1 h2 h3 h4 hne ⊢
  subst h1
  cases fr with
  | err x => exact absurd rfl (hne x)
  | notFound =>
    simp only
    by_cases her : earlyReturn FindR.notFound ncols = true
    · simp only [her, if_true]
      exact ⟨trivial, d, h3, h4, by rw [h2]; exact Equiv.refl _⟩
    · have her' := Bool.eq_false_iff.mpr her
      simp only [her', Bool.false_eq_true, if_false]
      obtain ⟨s1, s2⟩ := set_spec h3 (nt.map Ident.name) n hfl hdn ncols (evict L.evict C1.findCache nt)
      refine ⟨trivial, n + 1, s1, ?_, ?_⟩
      · exact h4
      · rw [h2] at s2
        have : C1.findCache = S1.cache := by rw [← h2]; rfl
        rw [this] at s2 ⊢
        exact s2
  | found cols =>
    simp only
    by_cases her : earlyReturn (FindR.found cols) ncols = true
    · simp only [her, if_true]
      exact ⟨trivial, d, h3, h4, by rw [h2]; exact Equiv.refl _⟩
    · have her' := Bool.eq_false_iff.mpr her
      simp only [her', Bool.false_eq_true, if_false]
      obtain ⟨s1, s2⟩ := set_spec h3 (nt.map Ident.name) n hfl hdn ncols (evict L.evict C1.findCache nt)
      refine ⟨trivial, n + 1, s1, ?_, ?_⟩
      · exact h4
      · rw [h2] at s2
        have : C1.findCache = S1.cache := by rw [← h2]; rfl
        rw [this] at s2 ⊢
        exact s2

/-- **`add_table(match_depth=False)` whose table has exactly the schema's depth (or on an empty schema)** is inside
    the refinement: same answer and same abstract successor as the flat `add_table` -/
theorem coreAddNoCheck_spec {L : Layouts} {E : Env} (hk : TypeKeyOK L E) {C : Core} {d : Nat} (h : CShape C d)
    (hT : TInv L E C) (nt : List Ident) (ncols : Cols) (hnt : nt ≠ []) (hd : d = 0 ∨ nt.length = d) :
    (coreAddNoCheck E L C nt ncols).2 = (stepN E L.evict (absC C d) (.addTable nt ncols)).2 ∧
    ∃ d', CShape (coreAddNoCheck E L C nt ncols).1 d' ∧ TInv L E (coreAddNoCheck E L C nt ncols).1 ∧
      Equiv (absC (coreAddNoCheck E L C nt ncols).1 d') (stepN E L.evict (absC C d) (.addTable nt ncols)).1 := by
  obtain ⟨n, hn⟩ : ∃ n, (nt.map Ident.name).length = n + 1 := by
    cases nt with
    | nil => exact absurd rfl hnt
    | cons a as => exact ⟨as.length, by simp⟩
  have hnl : nt.length = n + 1 := by simpa using hn
  have hp : ¬ ((absC C d).mapping ≠ [] ∧ nt.length ≠ depth (absC C d)) := by
    rintro ⟨h1, h2⟩
    rcases hd with e | e
    · subst e
      cases h with
      | empty e1 _ _ _ => exact h1 (by simp [absC, e1, flatView])
    · exact h2 (by rw [depth_absC h, e])
  simp only [stepN]
  rw [if_neg hp]
  exact addTail_spec hk nt ncols n hn C h hT rfl (by rcases hd with e | e; exact Or.inl e; exact Or.inr (by omega))

end SqlglotModel.Schema
