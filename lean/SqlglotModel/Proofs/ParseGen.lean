/-
  C01 — helper definitions and lemmas for the round-trip theorems (Properties/C01.lean).

  `Fits tbl pos B e` is the inductive description of the *faithful* part of the parser's image: `e` is a tree the parser
  entered at `pos` can produce, and `B` is the set of token types that must not follow its printed form (they would be
  consumed into it).  Right operand of a level-k operator sits at a tighter level (or is a Paren); the left operand is
  the spine of the same level; the operand of `NOT` is parsed at equality level; an operator token may follow a left
  operand only if that operand's right edge does not swallow it (`tok ∉ Bl`) — this excludes the known defect class
  "negated range predicate / prefix NOT as left operand".
  Covered constructors: literals, single or dotted columns, Paren, unary - ~ NOT, every binary class of the generated
  ladder tables.  Range predicates and function calls are in the executable model (and in the counter-example
  witnesses) but not in `Fits` (their round trip is checked by correspondence and search only).
-/
import SqlglotModel.Model.Parse
import SqlglotModel.Model.Gen

namespace SqlglotModel.ParseGen
open SqlglotModel.Expr SqlglotModel.Parse SqlglotModel.Gen

def levelToks (lv : Level) : List String := lv.map (·.1)

inductive Which where
  | outer | mid | lower
deriving DecidableEq, Repr

inductive Pos where
  | lad (w : Which) (lvs : List Level)                 -- inside ladder `w`, levels `lvs` still to go (loosest first)
  | spine (w : Which) (lv : Level) (post : List Level) -- the left spine of the loop of level `lv`
  | range                                              -- `_parse_range`
  | rspine                                             -- the operand / predicate chain inside `_parse_range`'s loop
  | unary                                              -- `_parse_unary`
deriving Repr

/-- operand parser of each of the three ladders, given the re-entry parsers -/
def subOf (tbl : Tables) (T E : Toks → Res) : Which → Toks → Res
  | .outer => eqP tbl T E
  | .mid => rangeP tbl T (bitP tbl T E)
  | .lower => unaryP (atomP T) E

def unaryBlocked : List String := ["L_PAREN", "DOT", "STRING"]

def rangeBlocked (tbl : Tables) : List String :=
  ["NOT", "IN", "BETWEEN", "LIKE", "IS", "ISNULL", "NOTNULL", "NULL"] ++ tbl.rangeToks

def headOk (B : List String) : Toks → Prop
  | [] => True
  | t :: _ => t.ty ∉ B

instance (B : List String) (ts : Toks) : Decidable (headOk B ts) := by
  cases ts <;> simp only [headOk] <;> infer_instance

def identTok (p : String × Bool) : Tok := ⟨if p.2 then "IDENTIFIER" else "VAR", p.1⟩

/-- tokens of an expression printed under an inherited spine operator -/
def gI (tbl : Tables) (inh : Inh) (e : Expr) : Toks := toks (genI tbl inh e)

/-- tokens of a comma-separated list -/
def gList (tbl : Tables) (es : List Expr) : Toks := toks (genList tbl es)

inductive Fits (tbl : Tables) : Pos → List String → Expr → Prop where
  | num (s : String) : Fits tbl .unary unaryBlocked (.num s)
  | str (s : String) : Fits tbl .unary unaryBlocked (.str s)
  | null : Fits tbl .unary unaryBlocked .null
  | bool (b : Bool) : Fits tbl .unary unaryBlocked (.bool b)
  | col (p : String × Bool) (ps : List (String × Bool)) : ps.length ≤ 3 → Fits tbl .unary unaryBlocked (.col (p :: ps))
  | paren {B e} : Fits tbl (.lad .outer tbl.outer) B e → "R_PAREN" ∉ B → Fits tbl .unary unaryBlocked (.paren e)
  | neg {B e} : Fits tbl .unary B e → Fits tbl .unary B (.neg e)
  | bnot {B e} : Fits tbl .unary B e → Fits tbl .unary B (.bnot e)
  | not {B e} : Fits tbl (.lad .mid tbl.mid) B e → Fits tbl .unary B (.not e)
  | baseLower {B e} : Fits tbl .unary B e → Fits tbl (.lad .lower []) B e
  | baseMid {B e} : Fits tbl .range B e → Fits tbl (.lad .mid []) B e
  | baseOuter {B e} : Fits tbl (.lad .mid tbl.mid) B e → Fits tbl (.lad .outer []) B e
  | func0 (name : String) : Fits tbl .unary unaryBlocked (.func name [])
  | func (name : String) (args : List Expr) (Bof : Expr → List String) : args ≠ [] →
      (∀ x ∈ args, Fits tbl (.lad .outer tbl.outer) (Bof x) x) →
      (∀ x ∈ args, "COMMA" ∉ Bof x ∧ "R_PAREN" ∉ Bof x) → Fits tbl .unary unaryBlocked (.func name args)
  | rOperand {B e} : Fits tbl (.lad .lower tbl.lower) B e → Fits tbl .rspine B e
  | rIsNull {Bl l} (n : Bool) : Fits tbl .rspine Bl l → "IS" ∉ Bl → (n = true → tbl.normalizeNotNull = false) →
      gI tbl (some (false, isOp n)) l = g tbl l → Fits tbl .rspine [] (.isNull n l)
  | rIn {Bl l} (items : List Expr) (Bof : Expr → List String) : Fits tbl .rspine Bl l → "IN" ∉ Bl → items ≠ [] →
      (∀ x ∈ items, Fits tbl (.lad .outer tbl.outer) (Bof x) x) →
      (∀ x ∈ items, "COMMA" ∉ Bof x ∧ "R_PAREN" ∉ Bof x) → Fits tbl .rspine [] (.inList l items)
  | rBetween {Bl Blo Bhi l lo hi} : Fits tbl .rspine Bl l → "BETWEEN" ∉ Bl →
      Fits tbl (.lad .lower tbl.lower) Blo lo → "AND" ∉ Blo →
      textUpperIs (g tbl lo) ["SYMMETRIC", "ASYMMETRIC"] = false →
      Fits tbl (.lad .lower tbl.lower) Bhi hi → Fits tbl .rspine Bhi (.between l lo hi)
  | rLike {Bl Bp l p} (n : Bool) : Fits tbl .rspine Bl l → "LIKE" ∉ Bl → "NOT" ∉ Bl →
      Fits tbl (.lad .lower tbl.lower) Bp p →
      gI tbl (some (true, likeOp n)) l = g tbl l → gI tbl (some (true, likeOp n)) p = g tbl p →
      Fits tbl .rspine ((if n then "NOT" :: tbl.rangeToks else []) ++ "ESCAPE" :: Bp) (.like n l p)
  | rangeLift {B e} : Fits tbl .rspine B e → Fits tbl .range (rangeBlocked tbl ++ B) e
  | ladLift {w lv post B e} : Fits tbl (.spine w lv post) B e → Fits tbl (.lad w (lv :: post)) (levelToks lv ++ B) e
  | spineOperand {w lv post B e} : Fits tbl (.lad w post) B e → Fits tbl (.spine w lv post) B e
  | spineBin {w lv post Bl Br l r} (cls tok txt : String) :
      Fits tbl (.spine w lv post) Bl l → lookup lv tok = some cls → opTok tbl cls = ⟨tok, txt⟩ → tok ∉ Bl →
      Fits tbl (.lad w post) Br r → Fits tbl (.spine w lv post) Br (.bin cls l r)

-- nesting depth of re-entries (parentheses, NOT operands, list items)
mutual
def depth : Expr → Nat
  | .paren e => depth e + 1
  | .not e => depth e + 1
  | .neg e => depth e
  | .bnot e => depth e
  | .bin _ l r => max (depth l) (depth r)
  | .isNull _ e => depth e
  | .inList e items => max (depth e) (depthL items + 1)
  | .between e lo hi => max (depth e) (max (depth lo) (depth hi))
  | .like _ e p => max (depth e) (depth p)
  | .func _ args => depthL args + 1
  | .num _ => 0
  | .str _ => 0
  | .null => 0
  | .bool _ => 0
  | .col _ => 0
def depthL : List Expr → Nat
  | [] => 0
  | e :: es => max (depth e) (depthL es)
end

/-- what the parser entered at `pos` (with `n` re-entries available) does on the printed form of `e` -/
def Concl (tbl : Tables) (n : Nat) : Pos → Expr → Toks → Prop
  | .lad w lvs, e, rest =>
      parseLv (subOf tbl (parseF tbl n).1 (parseF tbl n).2 w) lvs (g tbl e ++ rest) = .ok (e, rest)
  | .spine w lv post, e, rest =>
      ∃ k, rest.length ≤ k ∧
        parseLv (subOf tbl (parseF tbl n).1 (parseF tbl n).2 w) (lv :: post) (g tbl e ++ rest)
          = loopLv (parseLv (subOf tbl (parseF tbl n).1 (parseF tbl n).2 w) post) lv k e rest
  | .range, e, rest =>
      rangeP tbl (parseF tbl n).1 (bitP tbl (parseF tbl n).1 (parseF tbl n).2) (g tbl e ++ rest) = .ok (e, rest)
  | .rspine, e, rest =>
      ∃ k, rest.length + 1 ≤ k ∧
        rangeP tbl (parseF tbl n).1 (bitP tbl (parseF tbl n).1 (parseF tbl n).2) (g tbl e ++ rest)
          = rangeLoop tbl (parseF tbl n).1 (bitP tbl (parseF tbl n).1 (parseF tbl n).2) k e rest
  | .unary, e, rest =>
      unaryP (atomP (parseF tbl n).1) (parseF tbl n).2 (g tbl e ++ rest) = .ok (e, rest)

/-! ### printer lemmas -/

theorem toks_append (a b : List Piece) : toks (a ++ b) = toks a ++ toks b := by
  induction a with
  | nil => rfl
  | cons p ps ih => cases p <;> simp [toks, ih]

theorem g_num (tbl : Tables) (s : String) : g tbl (.num s) = [⟨"NUMBER", s⟩] := by simp [g, gen, genI, toks, kw]
theorem g_str (tbl : Tables) (s : String) : g tbl (.str s) = [⟨"STRING", s⟩] := by simp [g, gen, genI, toks, kw]
theorem g_null (tbl : Tables) : g tbl .null = [⟨"NULL", "NULL"⟩] := by simp [g, gen, genI, toks, kw]
theorem g_bool (tbl : Tables) (b : Bool) : g tbl (.bool b) = [⟨if b then "TRUE" else "FALSE", if b then "TRUE" else "FALSE"⟩] := by
  cases b <;> simp [g, gen, genI, toks, kw]
theorem g_paren (tbl : Tables) (e : Expr) : g tbl (.paren e) = ⟨"L_PAREN", "("⟩ :: (g tbl e ++ [⟨"R_PAREN", ")"⟩]) := by
  simp [g, gen, genI, toks, kw, toks_append]
theorem g_neg (tbl : Tables) (e : Expr) : g tbl (.neg e) = ⟨"DASH", "-"⟩ :: g tbl e := by
  simp only [g, gen, genI, toks, kw, toks_append]
  split <;> simp [toks]
theorem g_bnot (tbl : Tables) (e : Expr) : g tbl (.bnot e) = ⟨"TILDE", "~"⟩ :: g tbl e := by
  simp only [g, gen, genI, toks, kw, toks_append]
  split <;> simp [toks]
theorem g_not (tbl : Tables) (e : Expr) : g tbl (.not e) = ⟨"NOT", "NOT"⟩ :: g tbl e := by
  simp [g, gen, genI, toks, kw]
theorem g_bin (tbl : Tables) (cls : String) (l r : Expr) :
    g tbl (.bin cls l r) = g tbl l ++ opTok tbl cls :: g tbl r := by
  simp [g, gen, genI, toks, toks_append]

theorem toks_isOp (n : Bool) : toks (isOp n) = if n then [⟨"IS", "IS"⟩, ⟨"NOT", "NOT"⟩] else [⟨"IS", "IS"⟩] := by
  cases n <;> simp [isOp, toks, kw]

theorem toks_likeOp (n : Bool) : toks (likeOp n) = if n then [⟨"NOT", "NOT"⟩, ⟨"LIKE", "LIKE"⟩] else [⟨"LIKE", "LIKE"⟩] := by
  cases n <;> simp [likeOp, toks, kw]

theorem g_isNull (tbl : Tables) (n : Bool) (l : Expr) :
    g tbl (.isNull n l) = gI tbl (some (false, isOp n)) l ++ (toks (isOp n) ++ [⟨"NULL", "NULL"⟩]) := by
  simp [g, gI, gen, genI, inhOp, toks, toks_append, kw]

theorem g_inList (tbl : Tables) (l : Expr) (items : List Expr) :
    g tbl (.inList l items) = g tbl l ++ ⟨"IN", "IN"⟩ :: ⟨"L_PAREN", "("⟩ :: (gList tbl items ++ [⟨"R_PAREN", ")"⟩]) := by
  simp [g, gList, gen, genI, toks, toks_append, kw]

theorem g_between (tbl : Tables) (l lo hi : Expr) :
    g tbl (.between l lo hi) = g tbl l ++ ⟨"BETWEEN", "BETWEEN"⟩ :: (g tbl lo ++ ⟨"AND", "AND"⟩ :: g tbl hi) := by
  simp [g, gen, genI, toks, toks_append, kw]

theorem g_like (tbl : Tables) (n : Bool) (l p : Expr) :
    g tbl (.like n l p) = gI tbl (some (true, likeOp n)) l ++ (toks (likeOp n) ++ gI tbl (some (true, likeOp n)) p) := by
  simp [g, gI, gen, genI, inhOp, toks_append]

theorem g_func (tbl : Tables) (name : String) (args : List Expr) :
    g tbl (.func name args) = ⟨"VAR", name⟩ :: ⟨"L_PAREN", "("⟩ :: (gList tbl args ++ [⟨"R_PAREN", ")"⟩]) := by
  simp [g, gList, gen, genI, toks, toks_append, kw]

theorem gList_one (tbl : Tables) (e : Expr) : gList tbl [e] = g tbl e := by
  simp [gList, genList, g, gen]

theorem gList_cons2 (tbl : Tables) (e f : Expr) (rest : List Expr) :
    gList tbl (e :: f :: rest) = g tbl e ++ ⟨"COMMA", ","⟩ :: gList tbl (f :: rest) := by
  simp [gList, genList, g, gen, toks, toks_append, kw]

def colTail : List (String × Bool) → Toks
  | [] => []
  | p :: ps => ⟨"DOT", "."⟩ :: identTok p :: colTail ps

theorem toks_colPieces (p : String × Bool) (ps : List (String × Bool)) :
    toks (colPieces (p :: ps)) = identTok p :: colTail ps := by
  induction ps generalizing p with
  | nil => simp [colPieces, identPiece, toks, colTail, identTok]
  | cons q qs ih =>
    simp only [colPieces, toks, colTail, identPiece, kw]
    rw [ih q]
    simp [identTok]

theorem g_col (tbl : Tables) (p : String × Bool) (ps : List (String × Bool)) :
    g tbl (.col (p :: ps)) = identTok p :: colTail ps := by
  simp only [g, gen, genI]; exact toks_colPieces p ps

theorem isIdentTok_identTok (p : String × Bool) : isIdentTok (identTok p) = true := by
  obtain ⟨a, b⟩ := p; cases b <;> simp [isIdentTok, identTok]

theorem identOf_identTok (p : String × Bool) : identOf (identTok p) = p := by
  obtain ⟨a, b⟩ := p; cases b <;> simp [identOf, identTok]

theorem colRest_colTail (ps : List (String × Bool)) (rest : Toks) (h : headOk ["DOT"] rest) :
    colRest (colTail ps ++ rest) = .ok (ps, rest) := by
  induction ps with
  | nil =>
    simp only [colTail, List.nil_append]
    match rest, h with
    | [], _ => simp [colRest]
    | [d], h => simp [headOk] at h; simp [colRest, h]
    | d :: t :: ts, h => simp [headOk] at h; simp [colRest, h]
  | cons p ps ih =>
    simp only [colTail, List.cons_append, colRest]
    simp [isIdentTok_identTok, ih, identOf_identTok]

/-! ### parser lemmas -/

theorem lookup_none_of_not_mem (lv : Level) (k : String) (h : k ∉ levelToks lv) : lookup lv k = none := by
  induction lv with
  | nil => rfl
  | cons a as ih =>
    obtain ⟨x, y⟩ := a
    simp only [levelToks, List.map_cons, List.mem_cons, not_or] at h
    simp only [lookup]
    rw [if_neg (fun e => h.1 e.symm)]
    exact ih h.2

theorem loopLv_stop (sub : Toks → Res) (lv : Level) (k : Nat) (e : Expr) (rest : Toks)
    (h : headOk (levelToks lv) rest) : loopLv sub lv k e rest = .ok (e, rest) := by
  cases rest with
  | nil => simp [loopLv]
  | cons t ts =>
    simp only [headOk] at h
    simp [loopLv, lookup_none_of_not_mem lv t.ty h]

theorem headOk_append_left {A B : List String} {ts : Toks} (h : headOk (A ++ B) ts) : headOk A ts := by
  cases ts with
  | nil => trivial
  | cons t ts => simp only [headOk, List.mem_append, not_or] at h ⊢; exact h.1

theorem headOk_append_right {A B : List String} {ts : Toks} (h : headOk (A ++ B) ts) : headOk B ts := by
  cases ts with
  | nil => trivial
  | cons t ts => simp only [headOk, List.mem_append, not_or] at h ⊢; exact h.2

theorem parseF_succ (tbl : Tables) (n : Nat) :
    parseF tbl (n + 1) = (topP tbl (parseF tbl n).1 (parseF tbl n).2, eqP tbl (parseF tbl n).1 (parseF tbl n).2) := rfl

/-- the range loop leaves immediately when no range token follows -/
theorem rangeLoop_stop (tbl : Tables) (top bit : Toks → Res) (k : Nat) (e : Expr) (rest : Toks)
    (h : headOk (rangeBlocked tbl) rest) : rangeLoop tbl top bit (k + 1) e rest = .ok (e, rest) := by
  cases rest with
  | nil => simp [rangeLoop, headIs, rangeStep]
  | cons t ts =>
    simp only [headOk, rangeBlocked, List.mem_append, List.mem_cons, not_or, List.not_mem_nil, not_false_eq_true,
      and_true] at h
    obtain ⟨⟨h1, h2, h3, h4, h5, h6, h7, h8⟩, h9⟩ := h
    simp [rangeLoop, headIs, rangeStep, h1, h2, h3, h4, h5, h6, h7, h8, h9]

/-- the printed form of a fitting tree is non-empty and does not start with `)` -/
theorem g_head (tbl : Tables) {pos : Pos} {B : List String} {e : Expr} (h : Fits tbl pos B e) :
    ∃ t r, g tbl e = t :: r ∧ t.ty ≠ "R_PAREN" := by
  induction h with
  | num s => exact ⟨_, _, g_num tbl s, by simp⟩
  | str s => exact ⟨_, _, g_str tbl s, by simp⟩
  | null => exact ⟨_, _, g_null tbl, by decide⟩
  | bool b => exact ⟨_, _, g_bool tbl b, by cases b <;> decide⟩
  | col p ps _ =>
    refine ⟨_, _, g_col tbl p ps, ?_⟩
    obtain ⟨a, q⟩ := p
    cases q <;> simp [identTok]
  | paren _ _ _ => exact ⟨_, _, g_paren tbl _, by decide⟩
  | neg _ _ => exact ⟨_, _, g_neg tbl _, by decide⟩
  | bnot _ _ => exact ⟨_, _, g_bnot tbl _, by decide⟩
  | not _ _ => exact ⟨_, _, g_not tbl _, by decide⟩
  | baseLower _ ih => exact ih
  | baseMid _ ih => exact ih
  | baseOuter _ ih => exact ih
  | func0 name => exact ⟨_, _, g_func tbl name [], by simp⟩
  | func name args Bof _ _ _ _ => exact ⟨_, _, g_func tbl name args, by simp⟩
  | rOperand _ ih => exact ih
  | rIsNull n _ _ _ hgi ih =>
    obtain ⟨t, r, hg, ht⟩ := ih
    exact ⟨t, r ++ (toks (isOp n) ++ [⟨"NULL", "NULL"⟩]), by rw [g_isNull, hgi, hg]; rfl, ht⟩
  | rIn items Bof _ _ _ _ _ ih _ =>
    obtain ⟨t, r, hg, ht⟩ := ih
    exact ⟨t, _, by rw [g_inList, hg]; rfl, ht⟩
  | rBetween _ _ _ _ _ _ ih _ _ =>
    obtain ⟨t, r, hg, ht⟩ := ih
    exact ⟨t, _, by rw [g_between, hg]; rfl, ht⟩
  | rLike n _ _ _ _ hgl _ ih _ =>
    obtain ⟨t, r, hg, ht⟩ := ih
    exact ⟨t, _, by rw [g_like, hgl, hg]; rfl, ht⟩
  | rangeLift _ ih => exact ih
  | ladLift _ ih => exact ih
  | spineOperand _ ih => exact ih
  | spineBin cls tok txt _ _ _ _ _ ihl _ =>
    obtain ⟨t, r, hg, ht⟩ := ihl
    exact ⟨t, _, by rw [g_bin, hg]; rfl, ht⟩

theorem depth_le_depthL {x : Expr} {items : List Expr} (h : x ∈ items) : depth x ≤ depthL items := by
  induction items with
  | nil => cases h
  | cons a as ih =>
    simp only [depthL]
    cases h with
    | head => omega
    | tail _ h' => have := ih h'; omega

theorem gList_length (tbl : Tables) (items : List Expr) (h : ∀ x ∈ items, g tbl x ≠ []) :
    items.length ≤ (gList tbl items).length := by
  induction items with
  | nil => simp
  | cons e rest ih =>
    cases rest with
    | nil =>
      rw [gList_one]
      have := h e (List.mem_cons_self ..)
      cases hg : g tbl e with
      | nil => exact absurd hg this
      | cons _ _ => simp
    | cons f rest' =>
      rw [gList_cons2]
      have := ih (fun x hx => h x (List.mem_cons_of_mem _ hx))
      simp only [List.length_cons, List.length_append] at this ⊢
      omega

/-- `_parse_csv` on a printed non-empty list followed by `)` -/
theorem itemsP_gList (tbl : Tables) (top : Toks → Res) (items : List Expr) (hne : items ≠ []) (rest : Toks)
    (h : ∀ x ∈ items, ∀ t r, (t.ty = "COMMA" ∨ t.ty = "R_PAREN") → top (g tbl x ++ t :: r) = .ok (x, t :: r)) :
    ∀ k, items.length ≤ k → itemsP top k (gList tbl items ++ ⟨"R_PAREN", ")"⟩ :: rest) = .ok (items, rest) := by
  induction items with
  | nil => exact absurd rfl hne
  | cons e es ih =>
    intro k hk
    obtain ⟨k', rfl⟩ : ∃ k', k = k' + 1 := ⟨k - 1, by simp at hk; omega⟩
    cases es with
    | nil =>
      rw [gList_one]
      simp only [itemsP]
      rw [h e (List.mem_cons_self ..) ⟨"R_PAREN", ")"⟩ rest (Or.inr rfl)]
      simp
    | cons f fs =>
      rw [gList_cons2]
      simp only [itemsP, List.append_assoc, List.cons_append]
      rw [h e (List.mem_cons_self ..) ⟨"COMMA", ","⟩ _ (Or.inl rfl)]
      simp only [if_true]
      rw [ih (by simp) (fun x hx => h x (List.mem_cons_of_mem _ hx)) k' (by simp at hk ⊢; omega)]

theorem headIs_cons (t : Tok) (r : Toks) (ty : String) : headIs (t :: r) ty = decide (t.ty = ty) := rfl

/-- one turn of the `_parse_range` loop when the next token is not NOT -/
theorem rangeLoop_plain (tbl : Tables) (top bit : Toks → Res) (k : Nat) (this : Expr) (t : Tok) (r : Toks)
    (ht : t.ty ≠ "NOT") :
    rangeLoop tbl top bit (k + 1) this (t :: r) =
      match rangeStep tbl top bit false this (t :: r) with
      | .done => .ok (this, t :: r)
      | .fail e => .error e
      | .next e rest => rangeLoop tbl top bit k e rest := by
  simp only [rangeLoop, headIs_cons, ht, decide_false, Bool.false_eq_true, if_false, finishNeg]
  generalize rangeStep tbl top bit false this (t :: r) = st
  cases st <;> rfl

/-- one turn of the loop after `NOT` -/
theorem rangeLoop_not (tbl : Tables) (top bit : Toks → Res) (k : Nat) (this : Expr) (txt : String) (r : Toks) :
    rangeLoop tbl top bit (k + 1) this (⟨"NOT", txt⟩ :: r) =
      match rangeStep tbl top bit true this r with
      | .done => .ok (this, ⟨"NOT", txt⟩ :: r)
      | .fail e => .error e
      | .next e rest => rangeLoop tbl top bit k (wrapIfRangeFollows tbl.rangeToks (negateRange e) rest) rest := by
  simp only [rangeLoop, headIs_cons, decide_true, if_true, finishNeg, List.drop_succ_cons, List.drop_zero]
  generalize rangeStep tbl top bit true this r = st
  cases st <;> rfl

theorem textUpperIs_append (a b : Toks) (names : List String) (h : a ≠ []) :
    textUpperIs (a ++ b) names = textUpperIs a names := by
  cases a with
  | nil => exact absurd rfl h
  | cons t r => rfl

theorem wrapIfRangeFollows_id (rangeToks : List String) (e : Expr) (rest : Toks)
    (h : headOk ("NOT" :: rangeToks) rest) : wrapIfRangeFollows rangeToks e rest = e := by
  cases rest with
  | nil => rfl
  | cons t r =>
    simp only [headOk, List.mem_cons, not_or] at h
    simp [wrapIfRangeFollows, h.1, h.2]

theorem gList_nil (tbl : Tables) : gList tbl [] = [] := rfl

theorem gList_head (tbl : Tables) (items : List Expr) (hne : items ≠ [])
    (hh : ∀ x ∈ items, ∃ t r, g tbl x = t :: r ∧ t.ty ≠ "R_PAREN") :
    ∃ t r, gList tbl items = t :: r ∧ t.ty ≠ "R_PAREN" := by
  cases items with
  | nil => exact absurd rfl hne
  | cons e es =>
    obtain ⟨t, r, hg, ht⟩ := hh e (List.mem_cons_self ..)
    cases es with
    | nil => exact ⟨t, r, by rw [gList_one, hg], ht⟩
    | cons f fs => exact ⟨t, _, by rw [gList_cons2, hg]; rfl, ht⟩

/-- the list parser on a printed list, with the fuel the callers use, given the round trip of every item -/
theorem itemsP_of_ih (tbl : Tables) (m : Nat) (items : List Expr) (Bof : Expr → List String) (hne : items ≠ [])
    (rest : Toks) (hB : ∀ x ∈ items, "COMMA" ∉ Bof x ∧ "R_PAREN" ∉ Bof x) (hd : depthL items ≤ m)
    (hh : ∀ x ∈ items, ∃ t r, g tbl x = t :: r ∧ t.ty ≠ "R_PAREN")
    (ih : ∀ x ∈ items, ∀ n, depth x ≤ n → ∀ rest, headOk (Bof x) rest →
      parseLv (subOf tbl (parseF tbl n).1 (parseF tbl n).2 .outer) tbl.outer (g tbl x ++ rest) = .ok (x, rest)) :
    itemsP (parseF tbl (m + 1)).1 (gList tbl items ++ ⟨"R_PAREN", ")"⟩ :: rest).length
      (gList tbl items ++ ⟨"R_PAREN", ")"⟩ :: rest) = .ok (items, rest) := by
  apply itemsP_gList tbl _ items hne rest
  · intro x hx t r htr
    have hok : headOk (Bof x) (t :: r) := by
      simp only [headOk]
      rcases htr with h | h <;> rw [h]
      · exact (hB x hx).1
      · exact (hB x hx).2
    have := ih x hx m (Nat.le_trans (depth_le_depthL hx) hd) (t :: r) hok
    rw [parseF_succ]
    simpa [topP, subOf] using this
  · have := gList_length tbl items (fun x hx => by
      obtain ⟨t, r, hg, _⟩ := hh x hx
      rw [hg]; simp)
    simp only [List.length_append, List.length_cons]
    omega

/-- main lemma: every clause of `Fits`, with `n` re-entries available and `depth e ≤ n` -/
theorem fits_concl (tbl : Tables) {pos : Pos} {B : List String} {e : Expr} (h : Fits tbl pos B e) :
    ∀ n, depth e ≤ n → ∀ rest, headOk B rest → Concl tbl n pos e rest := by
  induction h with
  | num s =>
    intro n _ rest hr
    simp [Concl, g_num, unaryP, atomP]
  | str s =>
    intro n _ rest hr
    have : headIs rest "STRING" = false := by
      cases rest with
      | nil => rfl
      | cons t ts => simp [headOk, unaryBlocked] at hr; simp [headIs, hr]
    simp [Concl, g_str, unaryP, atomP, this]
  | null =>
    intro n _ rest hr
    simp [Concl, g_null, unaryP, atomP]
  | bool b =>
    intro n _ rest hr
    cases b <;> simp [Concl, g_bool, unaryP, atomP]
  | col p ps hlen =>
    intro n _ rest hr
    have hdot : headOk ["DOT"] rest := by
      cases rest with
      | nil => trivial
      | cons t ts => simp [headOk, unaryBlocked] at hr ⊢; exact hr.2.1
    have hlp : headIs rest "L_PAREN" = false := by
      cases rest with
      | nil => rfl
      | cons t ts => simp [headOk, unaryBlocked] at hr; simp [headIs, hr.1]
    have hmk : mkCol (identTok p) (colTail ps ++ rest) = .ok (.col (p :: ps), rest) := by
      simp only [mkCol, colRest_colTail ps rest hdot]
      have : ¬ ps.length > 3 := by omega
      simp [this, hlp, identOf_identTok]
    simp only [Concl, g_col, List.cons_append]
    obtain ⟨a, q⟩ := p
    cases q
    · -- VAR
      simp only [identTok] at hmk ⊢
      simp only [unaryP, atomP, Bool.false_eq_true, if_false]
      simp only [show ("VAR" = "DASH") = False by decide, show ("VAR" = "PLUS") = False by decide,
        show ("VAR" = "TILDE") = False by decide, show ("VAR" = "NOT") = False by decide,
        show ("VAR" = "NUMBER") = False by decide, show ("VAR" = "STRING") = False by decide,
        show ("VAR" = "NULL") = False by decide, show ("VAR" = "TRUE") = False by decide,
        show ("VAR" = "FALSE") = False by decide, show ("VAR" = "L_PAREN") = False by decide, if_false, if_true]
      cases hps : colTail ps ++ rest with
      | nil => simpa [hps] using hmk
      | cons x xs =>
        have hx : x.ty ≠ "L_PAREN" := by
          cases ps with
          | nil =>
            simp only [colTail, List.nil_append] at hps
            subst hps
            simpa [headIs] using hlp
          | cons q qs =>
            simp only [colTail, List.cons_append, List.cons.injEq] at hps
            rw [← hps.1]; decide
        simp only [hx, if_false]
        simpa [hps] using hmk
    · -- IDENTIFIER
      simp only [identTok] at hmk ⊢
      simp only [unaryP, atomP, if_true]
      simp only [show ("IDENTIFIER" = "DASH") = False by decide, show ("IDENTIFIER" = "PLUS") = False by decide,
        show ("IDENTIFIER" = "TILDE") = False by decide, show ("IDENTIFIER" = "NOT") = False by decide,
        show ("IDENTIFIER" = "NUMBER") = False by decide, show ("IDENTIFIER" = "STRING") = False by decide,
        show ("IDENTIFIER" = "NULL") = False by decide, show ("IDENTIFIER" = "TRUE") = False by decide,
        show ("IDENTIFIER" = "FALSE") = False by decide, show ("IDENTIFIER" = "L_PAREN") = False by decide,
        show ("IDENTIFIER" = "VAR") = False by decide, if_false, if_true]
      exact hmk
  | @paren B e _ hrp ih =>
    intro n hn rest _
    simp only [depth] at hn
    obtain ⟨m, rfl⟩ : ∃ m, n = m + 1 := ⟨n - 1, by omega⟩
    have ih' := ih m (by omega) (⟨"R_PAREN", ")"⟩ :: rest) (by simpa [headOk] using hrp)
    simp only [Concl] at ih' ⊢
    simp only [g_paren, List.cons_append, List.append_assoc, List.nil_append]
    simp only [unaryP, atomP]
    simp only [show ("L_PAREN" = "DASH") = False by decide, show ("L_PAREN" = "PLUS") = False by decide,
      show ("L_PAREN" = "TILDE") = False by decide, show ("L_PAREN" = "NOT") = False by decide,
      show ("L_PAREN" = "NUMBER") = False by decide, show ("L_PAREN" = "STRING") = False by decide,
      show ("L_PAREN" = "NULL") = False by decide, show ("L_PAREN" = "TRUE") = False by decide,
      show ("L_PAREN" = "FALSE") = False by decide, if_false, if_true]
    rw [parseF_succ]
    simp only [topP]
    simp only [subOf] at ih'
    rw [ih']
    simp [closeParen]
  | @neg B e _ ih =>
    intro n hn rest hr
    simp only [depth] at hn
    have ih' := ih n hn rest hr
    simp only [Concl] at ih' ⊢
    simp only [g_neg, List.cons_append, unaryP, if_true]
    rw [ih']; rfl
  | @bnot B e _ ih =>
    intro n hn rest hr
    simp only [depth] at hn
    have ih' := ih n hn rest hr
    simp only [Concl] at ih' ⊢
    simp only [g_bnot, List.cons_append, unaryP]
    simp only [show ("TILDE" = "DASH") = False by decide, show ("TILDE" = "PLUS") = False by decide, if_false, if_true]
    rw [ih']; rfl
  | @not B e _ ih =>
    intro n hn rest hr
    simp only [depth] at hn
    obtain ⟨m, rfl⟩ : ∃ m, n = m + 1 := ⟨n - 1, by omega⟩
    have ih' := ih m (by omega) rest hr
    simp only [Concl] at ih' ⊢
    simp only [g_not, List.cons_append, unaryP]
    simp only [show ("NOT" = "DASH") = False by decide, show ("NOT" = "PLUS") = False by decide,
      show ("NOT" = "TILDE") = False by decide, if_false, if_true]
    rw [parseF_succ]
    simp only [eqP]
    simp only [subOf] at ih'
    rw [ih']; rfl
  | @baseLower B e _ ih =>
    intro n hn rest hr
    have ih' := ih n hn rest hr
    simpa [Concl, parseLv, subOf] using ih'
  | @baseMid B e _ ih =>
    intro n hn rest hr
    have ih' := ih n hn rest hr
    simpa [Concl, parseLv, subOf] using ih'
  | @baseOuter B e _ ih =>
    intro n hn rest hr
    have ih' := ih n hn rest hr
    simpa [Concl, parseLv, subOf, eqP] using ih'
  | func0 name =>
    intro n _ rest hr
    simp [Concl, g_func, gList_nil, unaryP, atomP, headIs]
  | func name args Bof hne hfit hB ih =>
    intro n hn rest hr
    simp only [depth] at hn
    obtain ⟨m, rfl⟩ : ∃ m, n = m + 1 := ⟨n - 1, by omega⟩
    have hh : ∀ x ∈ args, ∃ t r, g tbl x = t :: r ∧ t.ty ≠ "R_PAREN" := fun x hx => g_head tbl (hfit x hx)
    have hitems := itemsP_of_ih tbl m args Bof hne rest hB (by omega) hh
      (fun x hx n hn rest hr => by simpa [Concl] using ih x hx n hn rest hr)
    obtain ⟨t, r, hgl, ht⟩ := gList_head tbl args hne hh
    simp only [Concl, g_func, List.cons_append, List.append_assoc, List.nil_append]
    rw [hgl] at hitems ⊢
    simp only [List.cons_append] at hitems ⊢
    simp only [unaryP, atomP, headIs, ht, decide_false]
    simp only [show ("VAR" = "DASH") = False by decide, show ("VAR" = "PLUS") = False by decide,
      show ("VAR" = "TILDE") = False by decide, show ("VAR" = "NOT") = False by decide,
      show ("VAR" = "NUMBER") = False by decide, show ("VAR" = "STRING") = False by decide,
      show ("VAR" = "NULL") = False by decide, show ("VAR" = "TRUE") = False by decide,
      show ("VAR" = "FALSE") = False by decide, show ("VAR" = "L_PAREN") = False by decide, if_false, if_true,
      Bool.false_eq_true]
    rw [hitems]
  | @rOperand B e _ ih =>
    intro n hn rest hr
    have ih' := ih n hn rest hr
    simp only [Concl, subOf] at ih' ⊢
    refine ⟨rest.length + 1, Nat.le_refl _, ?_⟩
    simp only [rangeP, bitP]
    rw [ih']
  | @rIsNull Bl l neg _ his hnn hgi ih =>
    intro n hn rest _
    simp only [depth] at hn
    have hl := ih n hn (toks (isOp neg) ++ ⟨"NULL", "NULL"⟩ :: rest)
      (by cases neg <;> simpa [toks_isOp, headOk] using his)
    simp only [Concl] at hl ⊢
    obtain ⟨k, hk, hl⟩ := hl
    have hg : g tbl (.isNull neg l) ++ rest = g tbl l ++ (toks (isOp neg) ++ ⟨"NULL", "NULL"⟩ :: rest) := by
      rw [g_isNull, hgi]; simp
    rw [hg, hl]
    cases neg with
    | false =>
      simp only [toks_isOp, Bool.false_eq_true, if_false, List.cons_append, List.nil_append, List.length_cons] at hk ⊢
      obtain ⟨k', rfl⟩ : ∃ k', k = k' + 1 := ⟨k - 1, by omega⟩
      refine ⟨k', by omega, ?_⟩
      rw [rangeLoop_plain _ _ _ _ _ _ _ (by decide)]
      simp [rangeStep, isP]
    | true =>
      have hnn' := hnn rfl
      simp only [toks_isOp, if_true, List.cons_append, List.nil_append, List.length_cons] at hk ⊢
      obtain ⟨k', rfl⟩ : ∃ k', k = k' + 1 := ⟨k - 1, by omega⟩
      refine ⟨k', by omega, ?_⟩
      rw [rangeLoop_plain _ _ _ _ _ _ _ (by decide)]
      simp [rangeStep, isP, hnn']
  | @rIn Bl l items Bof _ hin hne hfit hB ihl ih =>
    intro n hn rest _
    simp only [depth] at hn
    obtain ⟨m, rfl⟩ : ∃ m, n = m + 1 := ⟨n - 1, by omega⟩
    have hh : ∀ x ∈ items, ∃ t r, g tbl x = t :: r ∧ t.ty ≠ "R_PAREN" := fun x hx => g_head tbl (hfit x hx)
    have hitems := itemsP_of_ih tbl m items Bof hne rest hB (by omega) hh
      (fun x hx n hn rest hr => by simpa [Concl] using ih x hx n hn rest hr)
    have hl := ihl (m + 1) (by omega)
      (⟨"IN", "IN"⟩ :: ⟨"L_PAREN", "("⟩ :: (gList tbl items ++ ⟨"R_PAREN", ")"⟩ :: rest)) (by simpa [headOk] using hin)
    simp only [Concl] at hl ⊢
    obtain ⟨k, hk, hl⟩ := hl
    have hg : g tbl (.inList l items) ++ rest
        = g tbl l ++ ⟨"IN", "IN"⟩ :: ⟨"L_PAREN", "("⟩ :: (gList tbl items ++ ⟨"R_PAREN", ")"⟩ :: rest) := by
      rw [g_inList]; simp
    rw [hg, hl]
    simp only [List.length_cons, List.length_append] at hk
    obtain ⟨k', rfl⟩ : ∃ k', k = k' + 1 := ⟨k - 1, by omega⟩
    refine ⟨k', by omega, ?_⟩
    rw [rangeLoop_plain _ _ _ _ _ _ _ (by decide)]
    simp only [rangeStep, inP, if_true]
    rw [hitems]
  | @rBetween Bl Blo Bhi l lo hi _ hbt hflo hand hsym _ ihl ihlo ihhi =>
    intro n hn rest hr
    simp only [depth] at hn
    have hl := ihl n (by omega) (⟨"BETWEEN", "BETWEEN"⟩ :: (g tbl lo ++ ⟨"AND", "AND"⟩ :: (g tbl hi ++ rest)))
      (by simpa [headOk] using hbt)
    have hlo := ihlo n (by omega) (⟨"AND", "AND"⟩ :: (g tbl hi ++ rest)) (by simpa [headOk] using hand)
    have hhi := ihhi n (by omega) rest hr
    simp only [Concl, subOf] at hl hlo hhi ⊢
    obtain ⟨k, hk, hl⟩ := hl
    have hg : g tbl (.between l lo hi) ++ rest
        = g tbl l ++ ⟨"BETWEEN", "BETWEEN"⟩ :: (g tbl lo ++ ⟨"AND", "AND"⟩ :: (g tbl hi ++ rest)) := by
      rw [g_between]; simp
    rw [hg, hl]
    simp only [List.length_cons, List.length_append] at hk
    obtain ⟨k', rfl⟩ : ∃ k', k = k' + 1 := ⟨k - 1, by omega⟩
    refine ⟨k', by omega, ?_⟩
    rw [rangeLoop_plain _ _ _ _ _ _ _ (by decide)]
    have hne : g tbl lo ≠ [] := by
      obtain ⟨t, r, hgl, _⟩ := g_head tbl hflo
      rw [hgl]; simp
    have hsym' : textUpperIs (g tbl lo ++ ⟨"AND", "AND"⟩ :: (g tbl hi ++ rest)) ["SYMMETRIC", "ASYMMETRIC"] = false := by
      rw [textUpperIs_append _ _ _ hne]; exact hsym
    simp only [rangeStep, betweenP, hsym', Bool.false_eq_true, if_false, bitP] at hlo hhi ⊢
    simp only [show ("BETWEEN" = "IN") = False by decide, if_false, if_true]
    rw [hlo]
    simp only [headIs, decide_true, if_true, List.drop_succ_cons, List.drop_zero]
    rw [hhi]
  | @rLike Bl Bp l p neg _ hlk hnt _ hgl hgp ihl ihp =>
    intro n hn rest hr
    simp only [depth] at hn
    have hr2 : headOk ("ESCAPE" :: Bp) rest := headOk_append_right hr
    have hp := ihp n (by omega) rest (by
      cases rest with
      | nil => trivial
      | cons t r => simp only [headOk, List.mem_cons, not_or] at hr2 ⊢; exact hr2.2)
    have hesc : headIs rest "ESCAPE" = false := by
      cases rest with
      | nil => rfl
      | cons t r => simp only [headOk, List.mem_cons, not_or] at hr2; simp [headIs, hr2.1]
    have hl := ihl n (by omega) (toks (likeOp neg) ++ (g tbl p ++ rest))
      (by cases neg <;> simp [toks_likeOp, headOk, hlk, hnt])
    simp only [Concl, subOf] at hl hp ⊢
    obtain ⟨k, hk, hl⟩ := hl
    have hg : g tbl (.like neg l p) ++ rest = g tbl l ++ (toks (likeOp neg) ++ (g tbl p ++ rest)) := by
      rw [g_like, hgl, hgp]; simp
    rw [hg, hl]
    cases neg with
    | false =>
      simp only [toks_likeOp, Bool.false_eq_true, if_false, List.cons_append, List.nil_append, List.length_cons,
        List.length_append] at hk ⊢
      obtain ⟨k', rfl⟩ : ∃ k', k = k' + 1 := ⟨k - 1, by omega⟩
      refine ⟨k', by omega, ?_⟩
      rw [rangeLoop_plain _ _ _ _ _ _ _ (by decide)]
      simp only [rangeStep, likeP, bitP] at hp ⊢
      simp only [show ("LIKE" = "IN") = False by decide, show ("LIKE" = "BETWEEN") = False by decide, if_false, if_true]
      rw [hp]
      simp [hesc]
    | true =>
      have hr1 : headOk ("NOT" :: tbl.rangeToks) rest := by
        have := headOk_append_left hr
        simpa using this
      simp only [toks_likeOp, if_true, List.cons_append, List.nil_append, List.length_cons, List.length_append] at hk ⊢
      obtain ⟨k', rfl⟩ : ∃ k', k = k' + 1 := ⟨k - 1, by omega⟩
      refine ⟨k', by omega, ?_⟩
      rw [rangeLoop_not]
      simp only [rangeStep, likeP, bitP] at hp ⊢
      simp only [show ("LIKE" = "IN") = False by decide, show ("LIKE" = "BETWEEN") = False by decide, if_false, if_true]
      rw [hp]
      simp only [hesc, Bool.false_eq_true, if_false, negateRange]
      rw [wrapIfRangeFollows_id _ _ _ hr1]
  | @rangeLift B e _ ih =>
    intro n hn rest hr
    obtain ⟨k, hk, h⟩ := ih n hn rest (headOk_append_right hr)
    simp only [Concl]
    rw [h]
    obtain ⟨k', rfl⟩ : ∃ k', k = k' + 1 := ⟨k - 1, by omega⟩
    exact rangeLoop_stop tbl _ _ _ e rest (headOk_append_left hr)
  | @ladLift w lv post B e _ ih =>
    intro n hn rest hr
    obtain ⟨k, _, hk⟩ := ih n hn rest (headOk_append_right hr)
    simp only [Concl]
    rw [hk]
    exact loopLv_stop _ lv k e rest (headOk_append_left hr)
  | @spineOperand w lv post B e _ ih =>
    intro n hn rest hr
    have ih' := ih n hn rest hr
    simp only [Concl] at ih' ⊢
    refine ⟨rest.length, Nat.le_refl _, ?_⟩
    simp only [parseLv]
    rw [ih']
  | @spineBin w lv post Bl Br l r cls tok txt _ hlk hop hnot _ ihl ihr =>
    intro n hn rest hr
    simp only [depth] at hn
    have hl := ihl n (by omega) (opTok tbl cls :: (g tbl r ++ rest)) (by simpa [headOk, hop] using hnot)
    have hr' := ihr n (by omega) rest hr
    simp only [Concl] at hl hr' ⊢
    obtain ⟨k, hk, hl⟩ := hl
    simp only [List.length_cons] at hk
    obtain ⟨k', rfl⟩ : ∃ k', k = k' + 1 := ⟨k - 1, by omega⟩
    refine ⟨k', ?_, ?_⟩
    · simp only [List.length_append] at hk; omega
    · simp only [g_bin, List.append_assoc, List.cons_append]
      rw [hl]
      simp only [loopLv, hop, hlk]
      rw [hr']

theorem depthL_le_gList (tbl : Tables) (items : List Expr) (h : ∀ x ∈ items, depth x ≤ (g tbl x).length) :
    depthL items ≤ (gList tbl items).length := by
  induction items with
  | nil => simp [depthL]
  | cons e rest ih =>
    have he := h e (List.mem_cons_self ..)
    have hr := ih (fun x hx => h x (List.mem_cons_of_mem _ hx))
    cases rest with
    | nil => rw [gList_one]; simp only [depthL]; omega
    | cons f fs =>
      rw [gList_cons2]
      simp only [depthL, List.length_append, List.length_cons] at hr ⊢
      omega

/-- the printed form has at least `depth e` tokens -/
theorem depth_le_length (tbl : Tables) {pos : Pos} {B : List String} {e : Expr} (h : Fits tbl pos B e) :
    depth e ≤ (g tbl e).length := by
  induction h with
  | num s => simp [depth]
  | str s => simp [depth]
  | null => simp [depth]
  | bool b => simp [depth]
  | col p ps _ => simp [depth]
  | paren _ _ ih => simp only [depth, g_paren, List.length_cons, List.length_append, List.length_nil]; omega
  | neg _ ih => simp only [depth, g_neg, List.length_cons]; omega
  | bnot _ ih => simp only [depth, g_bnot, List.length_cons]; omega
  | not _ ih => simp only [depth, g_not, List.length_cons]; omega
  | baseLower _ ih => exact ih
  | baseMid _ ih => exact ih
  | baseOuter _ ih => exact ih
  | rangeLift _ ih => exact ih
  | ladLift _ ih => exact ih
  | spineOperand _ ih => exact ih
  | spineBin cls tok txt _ _ _ _ _ ihl ihr =>
    simp only [depth, g_bin, List.length_append, List.length_cons]; omega
  | func0 name => simp [depth, depthL, g_func]
  | func name args Bof _ _ _ ih =>
    have := depthL_le_gList tbl args ih
    simp only [depth, g_func, List.length_cons, List.length_append, List.length_nil]; omega
  | rOperand _ ih => exact ih
  | rIsNull n _ _ _ hgi ih =>
    simp only [depth, g_isNull, hgi, List.length_append]; omega
  | rIn items Bof _ _ _ _ _ ihl ih =>
    have := depthL_le_gList tbl items ih
    simp only [depth, g_inList, List.length_cons, List.length_append, List.length_nil]; omega
  | rBetween _ _ _ _ _ _ ihl ihlo ihhi =>
    simp only [depth, g_between, List.length_cons, List.length_append]; omega
  | rLike n _ _ _ _ hgl hgp ihl ihp =>
    simp only [depth, g_like, hgl, hgp, List.length_append]; omega

end SqlglotModel.ParseGen

namespace SqlglotModel.ParseGen
open SqlglotModel.Expr SqlglotModel.Parse SqlglotModel.Gen

/-- blocked set after lifting through the loops of `lvs` -/
def ladB : List Level → List String → List String
  | [], B => B
  | lv :: post, B => levelToks lv ++ ladB post B

/-- an operand of the tightest level is an operand of every looser level of the same ladder -/
theorem liftLad (tbl : Tables) (w : Which) (lvs : List Level) {B : List String} {e : Expr}
    (h : Fits tbl (.lad w []) B e) : Fits tbl (.lad w lvs) (ladB lvs B) e := by
  induction lvs with
  | nil => exact h
  | cons lv post ih => exact .ladLift (.spineOperand ih)

/-- an operand of the arithmetic ladder, lifted to the top of the expression grammar -/
theorem liftTop (tbl : Tables) {B : List String} {e : Expr} (h : Fits tbl (.lad .lower tbl.lower) B e) :
    Fits tbl (.lad .outer tbl.outer) (ladB tbl.outer (ladB tbl.mid (rangeBlocked tbl ++ B))) e :=
  liftLad tbl .outer tbl.outer (.baseOuter (liftLad tbl .mid tbl.mid (.baseMid (.rangeLift (.rOperand h)))))

/-- a range-level chain lifted to the top of the expression grammar -/
theorem liftTopR (tbl : Tables) {B : List String} {e : Expr} (h : Fits tbl .rspine B e) :
    Fits tbl (.lad .outer tbl.outer) (ladB tbl.outer (ladB tbl.mid (rangeBlocked tbl ++ B))) e :=
  liftLad tbl .outer tbl.outer (.baseOuter (liftLad tbl .mid tbl.mid (.baseMid (.rangeLift h))))

/-- an atom / unary expression as an operand of the arithmetic ladder -/
theorem atomLower (tbl : Tables) {B : List String} {e : Expr} (h : Fits tbl .unary B e) :
    Fits tbl (.lad .lower tbl.lower) (ladB tbl.lower B) e :=
  liftLad tbl .lower tbl.lower (.baseLower h)

/-- S-expression of a complete parse (`none` unless every token was consumed) -/
def parseSexp (tbl : Tables) (ts : Toks) : Option String :=
  match parse tbl ts with
  | .ok (e, []) => some (sexp e)
  | _ => none

/-- parse, print, re-parse: (tree, printed text, tree of the re-parse) -/
def roundTrip (tbl : Tables) (ts : Toks) : Option (String × String × Option String) :=
  match parse tbl ts with
  | .ok (e, []) => some (sexp e, sql tbl e, parseSexp tbl (g tbl e))
  | _ => none

def sampleA : Expr := .col [("a", false)]
def sampleB : Expr := .col [("t", false), ("b", true)]
def sampleC : Expr := .num "1"

/-- for one operator class: `a OP t."b" OP (a OP 1)` printed and re-parsed gives the same tree -/
def opRoundTrips (tbl : Tables) (cls : String) : Bool :=
  parseSexp tbl (g tbl (.bin cls (.bin cls sampleA sampleB) (.paren (.bin cls sampleA sampleC))))
    == some (sexp (.bin cls (.bin cls sampleA sampleB) (.paren (.bin cls sampleA sampleC))))

def allLevelToks (tbl : Tables) : List String :=
  (tbl.outer ++ tbl.mid ++ tbl.lower).flatMap levelToks

/-- decidable table conditions: every operator text of `genOps` re-parses to its own class at its own level
    (a finite decision table, decided completely per generated table), and the closing tokens of the grammar are
    not operators -/
def tablesOk (tbl : Tables) : Bool :=
  tbl.genOps.all (fun op => opRoundTrips tbl op.1)
  && !(allLevelToks tbl ++ rangeBlocked tbl ++ unaryBlocked).contains "R_PAREN"
  && !(allLevelToks tbl ++ rangeBlocked tbl ++ unaryBlocked).contains "COMMA"

/-! ### a call-form printer that strips the redundant Paren around an operand (`a % b` → `MOD(a, b)`) -/

/-- `Expression.unnest()`: strip every enclosing Paren -/
def unnest : Expr → Expr
  | .paren e => unnest e
  | e => e

/-- `x.this if isinstance(x, exp.Paren) else x`: strip one Paren -/
def stripOne : Expr → Expr
  | .paren e => e
  | e => e

def isBin : Expr → Bool
  | .bin _ _ _ => true
  | _ => false

/-- what the parser rebuilds from the printed call argument: `build_mod` wraps a binary operand in one Paren, an
    argument printed with its own parentheses parses to a Paren -/
def rewrap (e : Expr) : Expr := if isBin e then .paren e else e

theorem unnest_idem (e : Expr) : unnest (unnest e) = unnest e := by
  fun_induction unnest e <;> simp_all [unnest]

end SqlglotModel.ParseGen
