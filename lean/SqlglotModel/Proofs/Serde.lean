/-
  C12 — helper lemmas for the serde model (Model/Serde.lean). Core Lean only.
  Part 1: the explicit-stack loop of `dump` is the recursive pre-order `flat`.
  Part 2: the arena `load` builds from `flat t` has a closed form (`seg`), and `reify` of that closed form is `t.norm`.
-/
import SqlglotModel.Model.Serde

namespace SqlglotModel.Serde

/-! ## Part 1: dump loop = pre-order specification -/

def stackSize : List Item → Nat
  | [] => 0
  | (v, _) :: st => v.size + stackSize st

def stackCnt : List Item → Nat
  | [] => 0
  | (v, _) :: st => v.cnt + stackCnt st

/-- the specification for a whole stack -/
def flatStack : List Item → Nat → List Payload
  | [], _ => []
  | (v, e) :: st, i => flat v e i ++ flatStack st (i + v.cnt)

theorem stackSize_append (a b : List Item) : stackSize (a ++ b) = stackSize a + stackSize b := by
  induction a with
  | nil => simp [stackSize]
  | cons x xs ih => obtain ⟨v, e⟩ := x; simp [stackSize, ih, Nat.add_assoc]

theorem stackCnt_append (a b : List Item) : stackCnt (a ++ b) = stackCnt a + stackCnt b := by
  induction a with
  | nil => simp [stackCnt]
  | cons x xs ih => obtain ⟨v, e⟩ := x; simp [stackCnt, ih, Nat.add_assoc]

theorem flatStack_append (a b : List Item) (i : Nat) :
    flatStack (a ++ b) i = flatStack a i ++ flatStack b (i + stackCnt a) := by
  induction a generalizing i with
  | nil => simp [flatStack, stackCnt]
  | cons x xs ih => obtain ⟨v, e⟩ := x; simp [flatStack, stackCnt, ih, Nat.add_assoc]

theorem stackSize_edgesVals (k : String) (i : Nat) (vs : List Val) :
    stackSize (edgesVals k i vs) = sizeVals vs := by
  induction vs with
  | nil => simp [edgesVals, stackSize, sizeVals]
  | cons v vs ih => simp [edgesVals, stackSize, sizeVals, ih]

theorem stackSize_edgesArg (i : Nat) (a : Arg) : stackSize (edgesArg i a) ≤ a.size := by
  cases a with
  | one k v => simp only [edgesArg, Arg.size]; split <;> simp [stackSize]
  | many k vs => simp [edgesArg, Arg.size, stackSize_edgesVals]

theorem stackSize_edgesArgs (i : Nat) (args : List Arg) : stackSize (edgesArgs i args) ≤ sizeArgs args := by
  induction args with
  | nil => simp [edgesArgs, stackSize, sizeArgs]
  | cons a as ih =>
    simp only [edgesArgs, sizeArgs, stackSize_append]
    have := stackSize_edgesArg i a
    omega

theorem stackCnt_edgesVals (k : String) (i : Nat) (vs : List Val) :
    stackCnt (edgesVals k i vs) = cntVals vs := by
  induction vs with
  | nil => simp [edgesVals, stackCnt, cntVals]
  | cons v vs ih => simp [edgesVals, stackCnt, cntVals, ih]

theorem stackCnt_edgesArg (i : Nat) (a : Arg) : stackCnt (edgesArg i a) = a.cnt := by
  cases a with
  | one k v => simp only [edgesArg, Arg.cnt]; split <;> simp [stackCnt]
  | many k vs => simp [edgesArg, Arg.cnt, stackCnt_edgesVals]

theorem flatStack_edgesVals (k : String) (p : Nat) (vs : List Val) (i : Nat) :
    flatStack (edgesVals k p vs) i = flatVals vs k p i := by
  induction vs generalizing i with
  | nil => simp [edgesVals, flatStack, flatVals]
  | cons v vs ih => simp [edgesVals, flatStack, flatVals, ih]

theorem flatStack_edgesArg (p : Nat) (a : Arg) (i : Nat) :
    flatStack (edgesArg p a) i = flatArg a p i := by
  cases a with
  | one k v => simp only [edgesArg, flatArg]; split <;> simp [flatStack]
  | many k vs => simp [edgesArg, flatArg, flatStack_edgesVals]

theorem flatStack_edgesArgs (p : Nat) (args : List Arg) (i : Nat) :
    flatStack (edgesArgs p args) i = flatArgs args p i := by
  induction args generalizing i with
  | nil => simp [edgesArgs, flatStack, flatArgs]
  | cons a as ih =>
    simp [edgesArgs, flatArgs, flatStack_append, flatStack_edgesArg, stackCnt_edgesArg, ih]

theorem stackCnt_edgesArgs (i : Nat) (args : List Arg) : stackCnt (edgesArgs i args) = cntArgs args := by
  induction args with
  | nil => simp [edgesArgs, stackCnt, cntArgs]
  | cons a as ih => simp [edgesArgs, cntArgs, stackCnt_append, stackCnt_edgesArg, ih]

theorem dumpMeta_eq (n : Nat)
    (ih : ∀ v : Val, v.size ≤ n → dumpLoop n [(v, none)] 0 [] = flat v none 0) :
    ∀ l : List MetaE, sizeMetaL l ≤ n →
      l.map (dumpMetaE fun v => dumpLoop n [(v, none)] 0 []) = flatMetaL l := by
  intro l
  induction l with
  | nil => intro _; simp [flatMetaL]
  | cons e es ihl =>
    intro h
    simp only [sizeMetaL] at h
    cases e with
    | raw k r => simp [dumpMetaE, flatMetaL, MetaE.flat, ihl (by omega)]
    | expr k v =>
      simp only [MetaE.size] at h
      simp [dumpMetaE, flatMetaL, MetaE.flat, ihl (by omega), ih v (by omega)]

theorem dumpLoop_spec : ∀ fuel st i out, stackSize st ≤ fuel →
    dumpLoop fuel st i out = out ++ flatStack st i := by
  intro fuel
  induction fuel with
  | zero =>
    intro st i out h
    cases st with
    | nil => simp [dumpLoop, flatStack]
    | cons x xs =>
      obtain ⟨v, e⟩ := x
      cases v <;> simp [stackSize, Val.size] at h <;> omega
  | succ n ih =>
    intro st i out h
    cases st with
    | nil => simp [dumpLoop, flatStack]
    | cons x xs =>
      obtain ⟨v, e⟩ := x
      cases v with
      | node cls ty c m args =>
        simp only [stackSize, Val.size] at h
        have hsz : stackSize (edgesArgs i args ++ xs) ≤ n := by
          rw [stackSize_append]; have := stackSize_edgesArgs i args; omega
        have hty : (ty.map fun t => dumpLoop n [(t, none)] 0 []) = flatTy ty := by
          cases ty with
          | none => simp [flatTy]
          | some t =>
            have ht : stackSize [(t, (none : Option Edge))] ≤ n := by
              simp [stackSize, sizeOpt] at h ⊢; omega
            simp [flatTy, ih _ 0 [] ht, flatStack]
        have ihv : ∀ v : Val, v.size ≤ n → dumpLoop n [(v, none)] 0 [] = flat v none 0 := by
          intro v hv
          have hs : stackSize [(v, (none : Option Edge))] ≤ n := by simpa [stackSize] using hv
          simp [ih _ 0 [] hs, flatStack]
        have hmeta : (m.map fun l => l.map (dumpMetaE fun v => dumpLoop n [(v, none)] 0 [])) = flatMeta m := by
          cases m with
          | none => simp [flatMeta]
          | some l =>
            have hl : sizeMetaL l ≤ n := by simp [sizeMeta] at h; omega
            simp [flatMeta, dumpMeta_eq n ihv l hl]
        simp only [dumpLoop, hty, hmeta, ih _ _ _ hsz, flatStack, flat, flatStack_append, flatStack_edgesArgs,
          stackCnt_edgesArgs, Val.cnt]
        simp [Nat.add_assoc, Nat.add_comm 1]
      | dtype s =>
        simp only [stackSize, Val.size] at h
        have hsz : stackSize xs ≤ n := by omega
        simp [dumpLoop, ih _ _ _ hsz, flatStack, flat, Val.cnt]
      | raw r =>
        simp only [stackSize, Val.size] at h
        have hsz : stackSize xs ≤ n := by omega
        simp [dumpLoop, ih _ _ _ hsz, flatStack, flat, Val.cnt]

theorem dump_eq_flat (t : Val) : dump t = flat t none 0 := by
  have h : stackSize [(t, (none : Option Edge))] ≤ t.size := by simp [stackSize]
  simp [dump, dumpLoop_spec t.size _ 0 [] h, flatStack]


/-! ## Part 2: closed form of the loaded arena -/

/-- arena indices of the elements of a list-valued arg whose first element lands at `i` -/
def offsets : List Val → Nat → List Nat
  | [], _ => []
  | v :: vs, i => i :: offsets vs (i + v.cnt)

def Arg.slot : Arg → Nat → Slot
  | .one _ _, i => .one i
  | .many _ vs, i => .many (offsets vs i)

/-- the finished `args` dict of a node whose first child lands at `i` -/
def slotsOf : List Arg → Nat → Slots
  | [], _ => []
  | a :: as, i => if a.dropped then slotsOf as (i + a.cnt) else (a.key, a.slot i) :: slotsOf as (i + a.cnt)

/- the cells of a value placed at index `i` (pre-order), each with its final args and parent link -/
mutual
def seg : Val → Option Link → Nat → List Cell
  | .node cls ty c m args, l, i =>
    .node cls (normOpt ty) (normC c) (normMeta m) (slotsOf args (i + 1)) l none :: segArgs args i (i + 1)
  | .dtype s, _, _ => [.dtype s]
  | .raw r, _, _ => [.raw r]
def segArgs : List Arg → Nat → Nat → List Cell
  | [], _, _ => []
  | a :: as, p, i => segArg a p i ++ segArgs as p (i + a.cnt)
def segArg : Arg → Nat → Nat → List Cell
  | .one k v, p, i => if v.isNull then [] else seg v (some ⟨p, k, none⟩) i
  | .many k vs, p, i => segVals vs k p 0 i
def segVals : List Val → String → Nat → Nat → Nat → List Cell
  | [], _, _, _, _ => []
  | v :: vs, k, p, n, i => seg v (some ⟨p, k, some n⟩) i ++ segVals vs k p (n + 1) (i + v.cnt)
end

mutual
theorem seg_length : ∀ (v : Val) (l : Option Link) (i : Nat), (seg v l i).length = v.cnt
  | .node _ _ _ _ args, l, i => by simp [seg, Val.cnt, segArgs_length args i (i + 1), Nat.add_comm]
  | .dtype _, _, _ => by simp [seg, Val.cnt]
  | .raw _, _, _ => by simp [seg, Val.cnt]
theorem segArgs_length : ∀ (args : List Arg) (p i : Nat), (segArgs args p i).length = cntArgs args
  | [], _, _ => by simp [segArgs, cntArgs]
  | a :: as, p, i => by simp [segArgs, cntArgs, segArg_length a p i, segArgs_length as p (i + a.cnt)]
theorem segArg_length : ∀ (a : Arg) (p i : Nat), (segArg a p i).length = a.cnt
  | .one k v, p, i => by
    simp only [segArg, Arg.cnt]; split
    · simp
    · exact seg_length v _ i
  | .many k vs, p, i => by simp [segArg, Arg.cnt, segVals_length vs k p 0 i]
theorem segVals_length : ∀ (vs : List Val) (k : String) (p n i : Nat), (segVals vs k p n i).length = cntVals vs
  | [], _, _, _, _ => by simp [segVals, cntVals]
  | v :: vs, k, p, n, i => by
    simp [segVals, cntVals, seg_length v _ i, segVals_length vs k p (n + 1) (i + v.cnt)]
end

theorem dropped_cnt (a : Arg) (h : a.dropped = true) : a.cnt = 0 := by
  cases a with
  | one k v => simp [Arg.dropped] at h; simp [Arg.cnt, h]
  | many k vs => cases vs <;> simp_all [Arg.dropped, Arg.cnt, cntVals]

theorem dropped_segArg (a : Arg) (p i : Nat) (h : a.dropped = true) : segArg a p i = [] := by
  cases a with
  | one k v => simp [Arg.dropped] at h; simp [segArg, h]
  | many k vs => cases vs <;> simp_all [Arg.dropped, segArg, segVals]

/- reading the closed form back gives the normalised tree, wherever the segment sits in an arena -/
mutual
theorem reify_seg : ∀ (v : Val) (l : Option Link) (pre post : List Cell) (i fuel : Nat),
    pre.length = i → v.cnt ≤ fuel → reify (pre ++ seg v l i ++ post) fuel i = some v.norm
  | .node cls ty c m args, l, pre, post, i, fuel, hi, hf => by
    cases fuel with
    | zero => simp [Val.cnt] at hf
    | succ n =>
      have hget : (pre ++ seg (.node cls ty c m args) l i ++ post)[i]? =
          some (.node cls (normOpt ty) (normC c) (normMeta m) (slotsOf args (i + 1)) l none) := by
        simp [seg, ← hi]
      have hA : pre ++ seg (.node cls ty c m args) l i ++ post =
          (pre ++ [Cell.node cls (normOpt ty) (normC c) (normMeta m) (slotsOf args (i + 1)) l none]) ++ segArgs args i (i + 1) ++ post := by
        simp [seg]
      have hrec := reify_segArgs args i (pre ++ [Cell.node cls (normOpt ty) (normC c) (normMeta m) (slotsOf args (i + 1)) l none])
        post (i + 1) n (by simp [hi]) (by simp [Val.cnt] at hf; omega)
      rw [reify, hget]
      simp only [reifyCell]
      rw [hA, hrec]
      simp [Val.norm]
  | .dtype s, l, pre, post, i, fuel, hi, hf => by
    cases fuel with
    | zero => simp [Val.cnt] at hf
    | succ n => simp [reify, seg, ← hi, reifyCell, Val.norm]
  | .raw r, l, pre, post, i, fuel, hi, hf => by
    cases fuel with
    | zero => simp [Val.cnt] at hf
    | succ n => simp [reify, seg, ← hi, reifyCell, Val.norm]
theorem reify_segArgs : ∀ (args : List Arg) (p : Nat) (pre post : List Cell) (i fuel : Nat),
    pre.length = i → cntArgs args ≤ fuel →
    reifySlots (reify (pre ++ segArgs args p i ++ post) fuel) (slotsOf args i) = some (normArgs args)
  | [], _, _, _, _, _, _, _ => by simp [slotsOf, reifySlots, normArgs]
  | .one k v :: as, p, pre, post, i, fuel, hi, hf => by
    by_cases hn : v.isNull = true
    · have hd : (Arg.one k v).dropped = true := by simp [Arg.dropped, hn]
      have h0 := dropped_cnt _ hd
      have := reify_segArgs as p pre post i fuel hi (by simp [cntArgs, h0] at hf; exact hf)
      simpa [slotsOf, normArgs, hd, segArgs, dropped_segArg _ p i hd, h0] using this
    · have hd : (Arg.one k v).dropped = false := by simp [Arg.dropped, hn]
      have hc : (Arg.one k v).cnt = v.cnt := by simp [Arg.cnt, hn]
      have hv := reify_seg v (some ⟨p, k, none⟩) pre (segArgs as p (i + v.cnt) ++ post) i fuel hi
        (by simp [cntArgs, hc] at hf; omega)
      have hrest := reify_segArgs as p (pre ++ seg v (some ⟨p, k, none⟩) i) post (i + v.cnt) fuel
        (by simp [seg_length, hi]) (by simp [cntArgs] at hf; omega)
      simp only [slotsOf, hd, segArgs, segArg, hn, hc, normArgs, Arg.key, Arg.slot, reifySlots, reifySlot, Arg.norm, Bool.false_eq_true, ↓reduceIte]
      simp only [List.append_assoc] at hv hrest ⊢
      simp [hv, hrest]
  | .many k vs :: as, p, pre, post, i, fuel, hi, hf => by
    by_cases hn : vs.isEmpty = true
    · have hd : (Arg.many k vs).dropped = true := by simp [Arg.dropped, hn]
      have h0 := dropped_cnt _ hd
      have := reify_segArgs as p pre post i fuel hi (by simp [cntArgs, h0] at hf; exact hf)
      simpa [slotsOf, normArgs, hd, segArgs, dropped_segArg _ p i hd, h0] using this
    · have hd : (Arg.many k vs).dropped = false := by simp [Arg.dropped, hn]
      have hc : (Arg.many k vs).cnt = cntVals vs := by simp [Arg.cnt]
      have hv := reify_segVals vs k p 0 pre (segArgs as p (i + cntVals vs) ++ post) i fuel hi
        (by simp [cntArgs, hc] at hf; omega)
      have hrest := reify_segArgs as p (pre ++ segVals vs k p 0 i) post (i + cntVals vs) fuel
        (by simp [segVals_length, hi]) (by simp [cntArgs] at hf; omega)
      simp only [slotsOf, hd, segArgs, segArg, hc, normArgs, Arg.key, Arg.slot, reifySlots, reifySlot, Arg.norm, Bool.false_eq_true, ↓reduceIte]
      simp only [List.append_assoc] at hv hrest ⊢
      simp [hv, hrest]
theorem reify_segVals : ∀ (vs : List Val) (k : String) (p n : Nat) (pre post : List Cell) (i fuel : Nat),
    pre.length = i → cntVals vs ≤ fuel →
    reifyRefs (reify (pre ++ segVals vs k p n i ++ post) fuel) (offsets vs i) = some (normVals vs)
  | [], _, _, _, _, _, _, _, _, _ => by simp [offsets, reifyRefs, normVals]
  | v :: vs, k, p, n, pre, post, i, fuel, hi, hf => by
    have hv := reify_seg v (some ⟨p, k, some n⟩) pre (segVals vs k p (n + 1) (i + v.cnt) ++ post) i fuel hi
      (by simp [cntVals] at hf; omega)
    have hrest := reify_segVals vs k p (n + 1) (pre ++ seg v (some ⟨p, k, some n⟩) i) post (i + v.cnt) fuel
      (by simp [seg_length, hi]) (by simp [cntVals] at hf; omega)
    simp only [offsets, segVals, reifyRefs, normVals]
    simp only [List.append_assoc] at hv hrest ⊢
    simp [hv, hrest]
end


/-! ### the args dict under `set` / `append` when keys arrive in order -/

def keysS (s : Slots) : List String := s.map (·.1)

theorem lookupKey_notin {k : String} {cur : Slots} (h : k ∉ keysS cur) : lookupKey k cur = none := by
  induction cur with
  | nil => simp [lookupKey]
  | cons x xs ih =>
    obtain ⟨k', s'⟩ := x
    simp [keysS] at h
    have : k' ≠ k := fun e => h.1 e.symm
    simp [lookupKey, this]
    exact ih (by simpa [keysS] using h.2)

theorem setKey_notin {k : String} {cur : Slots} (s : Slot) (h : k ∉ keysS cur) :
    setKey k s cur = cur ++ [(k, s)] := by
  induction cur with
  | nil => simp [setKey]
  | cons x xs ih =>
    obtain ⟨k', s'⟩ := x
    simp [keysS] at h
    have : k' ≠ k := fun e => h.1 e.symm
    simp [setKey, this]
    exact ih (by simpa [keysS] using h.2)

theorem lookupKey_snoc {k : String} {cur : Slots} (s : Slot) (h : k ∉ keysS cur) :
    lookupKey k (cur ++ [(k, s)]) = some s := by
  induction cur with
  | nil => simp [lookupKey]
  | cons x xs ih =>
    obtain ⟨k', s'⟩ := x
    simp [keysS] at h
    have : k' ≠ k := fun e => h.1 e.symm
    simp [lookupKey, this]
    exact ih (by simpa [keysS] using h.2)

theorem setKey_snoc {k : String} {cur : Slots} (s0 s : Slot) (h : k ∉ keysS cur) :
    setKey k s (cur ++ [(k, s0)]) = cur ++ [(k, s)] := by
  induction cur with
  | nil => simp [setKey]
  | cons x xs ih =>
    obtain ⟨k', s'⟩ := x
    simp [keysS] at h
    have : k' ≠ k := fun e => h.1 e.symm
    simp [setKey, this]
    exact ih (by simpa [keysS] using h.2)

/-- the args of a node while the elements of its list-valued arg `k` are being appended -/
def withList (cur : Slots) (k : String) : List Nat → Slots
  | [] => cur
  | r :: rs => cur ++ [(k, .many (r :: rs))]

theorem appendRef_withList {k : String} {cur : Slots} (refs : List Nat) (j : Nat) (h : k ∉ keysS cur) :
    appendRef (withList cur k refs) k j = (withList cur k (refs ++ [j]), refs.length) := by
  cases refs with
  | nil => simp [withList, appendRef, lookupKey_notin h, setKey_notin _ h]
  | cons r rs => simp [withList, appendRef, lookupKey_snoc _ h, setKey_snoc _ _ h]

theorem withList_append_cons {cur : Slots} {k : String} (refs : List Nat) (j : Nat) (rest : List Nat) :
    withList cur k (refs ++ j :: rest) = cur ++ [(k, .many (refs ++ j :: rest))] := by
  cases refs <;> simp [withList]

/-! ### list plumbing -/

theorem set_self {α} (A : List α) (j : Nat) (x : α) (h : A[j]? = some x) : A.set j x = A := by
  induction A generalizing j with
  | nil => simp
  | cons a as ih =>
    cases j with
    | zero => simp at h; simp [h]
    | succ n => simp at h; simp [ih n h]

theorem set_append_left' (B S : List Cell) (j : Nat) (x : Cell) (h : j < B.length) :
    (B ++ S).set j x = B.set j x ++ S := by
  simp [List.set_append, h]

theorem get_set_append (B S : List Cell) (j : Nat) (x : Cell) (h : j < B.length) :
    (B.set j x ++ S)[j]? = some x := by
  rw [List.getElem?_append_left (by simpa using h)]
  simp [h]

theorem lt_of_get {A : List Cell} {p : Nat} {c : Cell} (h : A[p]? = some c) : p < A.length := by
  have := List.getElem?_eq_some_iff.mp h
  exact this.1

theorem clearUp_none {A : List Cell} {p : Nat} {cls ty c m cur l}
    (h : A[p]? = some (.node cls ty c m cur l none)) (fuel : Nat) : clearUp A fuel p = A := by
  cases fuel with
  | zero => rfl
  | succ n => simp [clearUp, h]

theorem attach_ok {A : List Cell} {p : Nat} {cls ty c m cur l} (cell : Cell) (k : String) (arr : Bool)
    (h : A[p]? = some (.node cls ty c m cur l none)) :
    attach A cell p k arr = some (A.set p (.node cls ty c m (linkArgs cur k arr A.length cell.isRawNull).1 l none)
      ++ [cell.withLink ⟨p, k, (linkArgs cur k arr A.length cell.isRawNull).2⟩]) := by
  rw [attach, if_pos (lt_of_get h)]
  simp only [clearUp_none h, h]

theorem loadList_append (xs ys : List Payload) (A : List Cell) :
    loadList (xs ++ ys) A = (loadList xs A).bind (loadList ys) := by
  induction xs generalizing A with
  | nil => simp [loadList]
  | cons x xs ih =>
    simp only [List.cons_append, loadList]
    cases mkCell x with
    | none => simp
    | some cell =>
      cases pIndex x with
      | none => simp
      | some idx =>
        cases pKey x with
        | none => simp
        | some k =>
          cases hat : attach A cell idx k (pArr x) <;> simp [hat, ih]

theorem dropped_flatArg (a : Arg) (p i : Nat) (h : a.dropped = true) : flatArg a p i = [] := by
  cases a with
  | one k v => simp [Arg.dropped] at h; simp [flatArg, h]
  | many k vs => cases vs <;> simp_all [Arg.dropped, flatArg, flatVals]

theorem isRawNull_raw (r : Raw) : (Cell.raw r).isRawNull = (Val.raw r).isNull := by
  cases r <;> rfl

/-! ### loading a pre-order dump yields the closed form -/

mutual
theorem load_flat_val : ∀ (v : Val), v.WF → ∀ (A : List Cell) (p : Nat) (k : String) (arr : Bool)
    (cls : String) (ty : Option Val) (c : Comments) (m : Meta) (cur : Slots) (l : Option Link),
    A[p]? = some (.node cls ty c m cur l none) →
    loadList (flat v (some ⟨p, k, arr⟩) A.length) A =
      some (A.set p (.node cls ty c m (linkArgs cur k arr A.length v.isNull).1 l none)
        ++ seg v (some ⟨p, k, (linkArgs cur k arr A.length v.isNull).2⟩) A.length)
  | .node cls' ty' c' m' args, hwf, A, p, k, arr, cls, ty, c, m, cur, l, hA => by
    simp only [Val.WF] at hwf
    obtain ⟨hcls, hty, hmt, hnd, hargs⟩ := hwf
    have hT := loadTy_flatTy ty' hty
    have hM := loadMeta_flatMeta m' hmt
    have hcell : mkCell (Payload.mk (some p) (some k) arr (some cls') (flatTy ty') (normC c') (flatMeta m') none) =
        some (.node cls' (normOpt ty') (normC c') (normMeta m') [] none none) := by
      simp [mkCell, mkObj, hcls, hT, hM]
    have hp := lt_of_get hA
    let link : Link := ⟨p, k, (linkArgs cur k arr A.length false).2⟩
    let A0 := A.set p (.node cls ty c m (linkArgs cur k arr A.length false).1 l none)
    let A1 := A0 ++ [Cell.node cls' (normOpt ty') (normC c') (normMeta m') [] (some link) none]
    have hA1len : A1.length = A.length + 1 := by simp [A1, A0]
    have hA1get : A1[A.length]? = some (Cell.node cls' (normOpt ty') (normC c') (normMeta m') [] (some link) none) := by
      simp [A1, A0]
    have hB := load_flatArgs args hargs hnd A1 A.length cls' (normOpt ty') (normC c') (normMeta m') [] (some link) hA1get
      (by simp [keysS])
    simp only [flat, loadList, hcell, nodeP, pIndex, pKey, pArr, eIndex, eKey, eArr]
    rw [attach_ok _ _ _ hA]
    simp only [Cell.isRawNull, Cell.withLink, Val.isNull]
    rw [hA1len] at hB
    simp only [A1, A0, link] at hB
    rw [hB]
    simp [seg, List.set_append]
  | .dtype s, _, A, p, k, arr, cls, ty, c, m, cur, l, hA => by
    have hcell : mkCell (Payload.mk (some p) (some k) arr (some dataTypeCls) none none none (some (.str s))) = some (.dtype s) := by
      simp [mkCell, mkObj]
    simp only [flat, loadList, hcell, dtypeP, pIndex, pKey, pArr, eIndex, eKey, eArr]
    rw [attach_ok _ _ _ hA]
    simp [Cell.isRawNull, Cell.withLink, Val.isNull, seg]
  | .raw r, _, A, p, k, arr, cls, ty, c, m, cur, l, hA => by
    have hcell : mkCell (Payload.mk (some p) (some k) arr none none none none (some r)) = some (.raw r) := by
      simp [mkCell]
    simp only [flat, loadList, hcell, rawP, pIndex, pKey, pArr, eIndex, eKey, eArr]
    rw [attach_ok _ _ _ hA]
    simp [isRawNull_raw, Cell.withLink, seg]
theorem loadTy_flatTy : ∀ (ty : Option Val), wfOpt ty → loadTy (flatTy ty) = some (normOpt ty)
  | none, _ => by simp [flatTy, loadTy, normOpt]
  | some t, h => by
    simp only [wfOpt] at h
    simp [flatTy, loadTy, normOpt, load_flat_root t h.2 h.1]
theorem loadMeta_flatMeta : ∀ (m : Option (List MetaE)), wfMeta m → loadMeta (flatMeta m) = some (normMeta m)
  | none, _ => by simp [flatMeta, loadMeta, normMeta]
  | some l, h => by
    simp only [wfMeta] at h
    simp [flatMeta, loadMeta, normMeta, loadMetaL_flatMetaL l h]
theorem loadMetaL_flatMetaL : ∀ (l : List MetaE), wfMetaL l → loadMetaL (flatMetaL l) = some (normMetaL l)
  | [], _ => by simp [flatMetaL, loadMetaL, normMetaL]
  | .raw k r :: es, h => by
    simp only [wfMetaL] at h
    simp [flatMetaL, MetaE.flat, loadMetaL, loadMetaE, normMetaL, MetaE.norm, loadMetaL_flatMetaL es h.2]
  | .expr k v :: es, h => by
    simp only [wfMetaL, MetaE.WF] at h
    have hobj : v.isObj = true := by
      cases v <;> simp_all [Val.isNode, Val.isObj]
    simp [flatMetaL, MetaE.flat, loadMetaL, loadMetaE, normMetaL, MetaE.norm, loadMetaL_flatMetaL es h.2,
      load_flat_root v h.1.2 hobj]
theorem load_flat_root : ∀ (v : Val), v.WF → v.isObj = true → load (flat v none 0) = some (some v.norm)
  | .node cls' ty' c' m' args, hwf, _ => by
    simp only [Val.WF] at hwf
    obtain ⟨hcls, hty, hmt, hnd, hargs⟩ := hwf
    have hT := loadTy_flatTy ty' hty
    have hM := loadMeta_flatMeta m' hmt
    have hroot : mkRoot (nodeP none cls' (flatTy ty') c' (flatMeta m')) =
        some (.node cls' (normOpt ty') (normC c') (normMeta m') [] none none) := by
      simp [nodeP, mkRoot, mkObj, hcls, hT, hM, eIndex, eKey, eArr]
    have hB := load_flatArgs args hargs hnd [Cell.node cls' (normOpt ty') (normC c') (normMeta m') [] none none] 0
      cls' (normOpt ty') (normC c') (normMeta m') [] none (by simp) (by simp [keysS])
    have hR := reify_seg (.node cls' ty' c' m' args) none [] [] 0 (Val.node cls' ty' c' m' args).cnt rfl (Nat.le_refl _)
    simp only [List.length_singleton, Nat.zero_add] at hB
    simp only [flat, load, hroot, Nat.zero_add, hB]
    simp only [seg, List.nil_append, List.append_nil, Nat.zero_add] at hR
    have hlen : ([Cell.node cls' (normOpt ty') (normC c') (normMeta m') [] none none].set 0
        (Cell.node cls' (normOpt ty') (normC c') (normMeta m') ([] ++ slotsOf args 1) none none) ++ segArgs args 0 1).length
        = (Val.node cls' ty' c' m' args).cnt := by
      simp [Val.cnt, segArgs_length, Nat.add_comm]
    rw [hlen]
    simp only [List.set_cons_zero, List.nil_append, List.cons_append] at hR ⊢
    rw [hR]
  | .dtype s, _, _ => by
    simp [flat, load, dtypeP, mkRoot, mkObj, loadList, reify, reifyCell, Val.norm]
  | .raw r, _, h => by simp [Val.isObj] at h
theorem load_flatArgs : ∀ (args : List Arg), wfArgs args → (keysOf args).Nodup →
    ∀ (A : List Cell) (j : Nat) (cls : String) (ty : Option Val) (c : Comments) (m : Meta) (cur : Slots) (l : Option Link),
    A[j]? = some (.node cls ty c m cur l none) → (∀ k ∈ keysOf args, k ∉ keysS cur) →
    loadList (flatArgs args j A.length) A =
      some (A.set j (.node cls ty c m (cur ++ slotsOf args A.length) l none) ++ segArgs args j A.length)
  | [], _, _, A, j, cls, ty, c, m, cur, l, hA, _ => by
    simp [flatArgs, loadList, slotsOf, segArgs]
    exact (set_self _ _ _ hA).symm
  | a :: as, hwf, hnd, A, j, cls, ty, c, m, cur, l, hA, hdis => by
    simp only [wfArgs] at hwf
    simp only [keysOf, List.nodup_cons] at hnd
    have hj := lt_of_get hA
    by_cases hd : a.dropped = true
    · have h0 := dropped_cnt a hd
      have hrec := load_flatArgs as hwf.2 hnd.2 A j cls ty c m cur l hA
        (fun k hk => hdis k (by simp [keysOf, hk]))
      simpa [flatArgs, dropped_flatArg a j _ hd, h0, slotsOf, hd, segArgs, dropped_segArg a j _ hd] using hrec
    · have hd' : a.dropped = false := by simpa using hd
      have hka : a.key ∉ keysS cur := hdis a.key (by simp [keysOf])
      have hstep := load_flatArg a hwf.1 hd' A j cls ty c m cur l hA hka
      have hlen : (A.set j (.node cls ty c m (cur ++ [(a.key, a.slot A.length)]) l none) ++ segArg a j A.length).length
          = A.length + a.cnt := by simp [segArg_length]
      have hget : (A.set j (.node cls ty c m (cur ++ [(a.key, a.slot A.length)]) l none) ++ segArg a j A.length)[j]?
          = some (.node cls ty c m (cur ++ [(a.key, a.slot A.length)]) l none) := get_set_append _ _ _ _ hj
      have hrec := load_flatArgs as hwf.2 hnd.2 _ j cls ty c m (cur ++ [(a.key, a.slot A.length)]) l hget
        (by
          intro k hk
          simp only [keysS, List.map_append, List.mem_append, List.map_cons, List.map_nil, List.mem_singleton, not_or]
          refine ⟨hdis k (by simp [keysOf, hk]), ?_⟩
          intro e; exact hnd.1 (e ▸ hk))
      rw [hlen] at hrec
      simp only [flatArgs, loadList_append, hstep, Option.bind_some, hrec]
      simp [slotsOf, hd', segArgs, List.set_append, hj]
theorem load_flatArg : ∀ (a : Arg), a.WF → a.dropped = false →
    ∀ (A : List Cell) (j : Nat) (cls : String) (ty : Option Val) (c : Comments) (m : Meta) (cur : Slots) (l : Option Link),
    A[j]? = some (.node cls ty c m cur l none) → a.key ∉ keysS cur →
    loadList (flatArg a j A.length) A =
      some (A.set j (.node cls ty c m (cur ++ [(a.key, a.slot A.length)]) l none) ++ segArg a j A.length)
  | .one k v, hwf, hd, A, j, cls, ty, c, m, cur, l, hA, hk => by
    have hn : v.isNull = false := by simpa [Arg.dropped] using hd
    have h := load_flat_val v hwf A j k false cls ty c m cur l hA
    simp only [Arg.key] at hk
    simpa [flatArg, hn, segArg, linkArgs, setKey_notin _ hk, Arg.key, Arg.slot] using h
  | .many k vs, hwf, hd, A, j, cls, ty, c, m, cur, l, hA, hk => by
    simp only [Arg.key] at hk
    cases vs with
    | nil => simp [Arg.dropped] at hd
    | cons v vs =>
      have h := load_flatVals (v :: vs) hwf A j k [] cls ty c m cur l hk (by simpa [withList] using hA)
      simpa [flatArg, segArg, Arg.key, Arg.slot, offsets, withList] using h
theorem load_flatVals : ∀ (vs : List Val), wfVals vs →
    ∀ (A : List Cell) (j : Nat) (k : String) (refs : List Nat) (cls : String) (ty : Option Val) (c : Comments)
      (m : Meta) (cur : Slots) (l : Option Link), k ∉ keysS cur →
    A[j]? = some (.node cls ty c m (withList cur k refs) l none) →
    loadList (flatVals vs k j A.length) A =
      some (A.set j (.node cls ty c m (withList cur k (refs ++ offsets vs A.length)) l none)
        ++ segVals vs k j refs.length A.length)
  | [], _, A, j, k, refs, cls, ty, c, m, cur, l, _, hA => by
    simp [flatVals, loadList, offsets, segVals]
    exact (set_self _ _ _ hA).symm
  | v :: vs, hwf, A, j, k, refs, cls, ty, c, m, cur, l, hk, hA => by
    simp only [wfVals] at hwf
    have hj := lt_of_get hA
    have hstep := load_flat_val v hwf.1 A j k true cls ty c m (withList cur k refs) l hA
    simp only [linkArgs, appendRef_withList refs A.length hk, if_true] at hstep
    have hlen : (A.set j (.node cls ty c m (withList cur k (refs ++ [A.length])) l none)
        ++ seg v (some ⟨j, k, some refs.length⟩) A.length).length = A.length + v.cnt := by simp [seg_length]
    have hget : (A.set j (.node cls ty c m (withList cur k (refs ++ [A.length])) l none)
        ++ seg v (some ⟨j, k, some refs.length⟩) A.length)[j]?
        = some (.node cls ty c m (withList cur k (refs ++ [A.length])) l none) := get_set_append _ _ _ _ hj
    have hrec := load_flatVals vs hwf.2 _ j k (refs ++ [A.length]) cls ty c m cur l hk hget
    rw [hlen] at hrec
    simp only [flatVals, loadList_append, hstep, Option.bind_some, hrec]
    simp [offsets, segVals, List.set_append, hj]
end


/-! ## Part 3: `norm` is a projection that `dump` cannot see -/

theorem isNull_norm (v : Val) : v.norm.isNull = v.isNull := by
  cases v with
  | node => simp [Val.norm, Val.isNull]
  | dtype => simp [Val.norm]
  | raw r => simp [Val.norm]

theorem normVals_isEmpty (vs : List Val) : (normVals vs).isEmpty = vs.isEmpty := by
  cases vs <;> simp [normVals]

theorem dropped_norm (a : Arg) : a.norm.dropped = a.dropped := by
  cases a with
  | one k v => simp [Arg.norm, Arg.dropped, isNull_norm]
  | many k vs => simp [Arg.norm, Arg.dropped, normVals_isEmpty]

theorem normC_idem (c : Comments) : normC (normC c) = normC c := by
  cases c with
  | none => rfl
  | some l => cases l <;> rfl

mutual
theorem norm_idem : ∀ (v : Val), v.norm.norm = v.norm
  | .node cls ty c m args => by
    simp [Val.norm, normOpt_idem ty, normC_idem, normMeta_idem m, normArgs_idem args]
  | .dtype _ => by simp [Val.norm]
  | .raw _ => by simp [Val.norm]
theorem normOpt_idem : ∀ (ty : Option Val), normOpt (normOpt ty) = normOpt ty
  | none => by simp [normOpt]
  | some v => by simp [normOpt, norm_idem v]
theorem normMeta_idem : ∀ (m : Option (List MetaE)), normMeta (normMeta m) = normMeta m
  | none => by simp [normMeta]
  | some l => by simp [normMeta, normMetaL_idem l]
theorem normMetaL_idem : ∀ (l : List MetaE), normMetaL (normMetaL l) = normMetaL l
  | [] => by simp [normMetaL]
  | .raw k r :: es => by simp [normMetaL, MetaE.norm, normMetaL_idem es]
  | .expr k v :: es => by simp [normMetaL, MetaE.norm, norm_idem v, normMetaL_idem es]
theorem normArgs_idem : ∀ (args : List Arg), normArgs (normArgs args) = normArgs args
  | [] => by simp [normArgs]
  | a :: as => by
    by_cases hd : a.dropped = true
    · simp [normArgs, hd, normArgs_idem as]
    · simp [normArgs, hd, dropped_norm, normArg_idem a, normArgs_idem as]
theorem normArg_idem : ∀ (a : Arg), a.norm.norm = a.norm
  | .one k v => by simp [Arg.norm, norm_idem v]
  | .many k vs => by simp [Arg.norm, normVals_idem vs]
theorem normVals_idem : ∀ (vs : List Val), normVals (normVals vs) = normVals vs
  | [] => by simp [normVals]
  | v :: vs => by simp [normVals, norm_idem v, normVals_idem vs]
end

mutual
theorem cnt_norm : ∀ (v : Val), v.norm.cnt = v.cnt
  | .node cls ty c m args => by simp [Val.norm, Val.cnt, cntArgs_norm args]
  | .dtype _ => by simp [Val.norm]
  | .raw _ => by simp [Val.norm]
theorem cntArgs_norm : ∀ (args : List Arg), cntArgs (normArgs args) = cntArgs args
  | [] => by simp [normArgs]
  | a :: as => by
    by_cases hd : a.dropped = true
    · simp [normArgs, hd, cntArgs, dropped_cnt a hd, cntArgs_norm as]
    · simp [normArgs, hd, cntArgs, cntArg_norm a, cntArgs_norm as]
theorem cntArg_norm : ∀ (a : Arg), a.norm.cnt = a.cnt
  | .one k v => by simp [Arg.norm, Arg.cnt, isNull_norm, cnt_norm v]
  | .many k vs => by simp [Arg.norm, Arg.cnt, cntVals_norm vs]
theorem cntVals_norm : ∀ (vs : List Val), cntVals (normVals vs) = cntVals vs
  | [] => by simp [normVals]
  | v :: vs => by simp [normVals, cntVals, cnt_norm v, cntVals_norm vs]
end

/- the payload list of a tree and of its normal form are the same list: what `norm` erases is exactly what `dump`
   does not write -/
mutual
theorem flat_norm : ∀ (v : Val) (e : Option Edge) (i : Nat), flat v.norm e i = flat v e i
  | .node cls ty c m args, e, i => by
    simp [Val.norm, flat, nodeP, normC_idem, flatTy_norm ty, flatMeta_norm m, flatArgs_norm args i (i + 1)]
  | .dtype _, _, _ => by simp [Val.norm]
  | .raw _, _, _ => by simp [Val.norm]
theorem flatTy_norm : ∀ (ty : Option Val), flatTy (normOpt ty) = flatTy ty
  | none => by simp [normOpt]
  | some v => by simp [normOpt, flatTy, flat_norm v none 0]
theorem flatMeta_norm : ∀ (m : Option (List MetaE)), flatMeta (normMeta m) = flatMeta m
  | none => by simp [normMeta]
  | some l => by simp [normMeta, flatMeta, flatMetaL_norm l]
theorem flatMetaL_norm : ∀ (l : List MetaE), flatMetaL (normMetaL l) = flatMetaL l
  | [] => by simp [normMetaL]
  | .raw k r :: es => by simp [normMetaL, MetaE.norm, flatMetaL, MetaE.flat, flatMetaL_norm es]
  | .expr k v :: es => by simp [normMetaL, MetaE.norm, flatMetaL, MetaE.flat, flat_norm v none 0, flatMetaL_norm es]
theorem flatArgs_norm : ∀ (args : List Arg) (p i : Nat), flatArgs (normArgs args) p i = flatArgs args p i
  | [], _, _ => by simp [normArgs]
  | a :: as, p, i => by
    by_cases hd : a.dropped = true
    · simp [normArgs, hd, flatArgs, dropped_flatArg a p i hd, dropped_cnt a hd, flatArgs_norm as p i]
    · simp [normArgs, hd, flatArgs, flatArg_norm a p i, cntArg_norm a, flatArgs_norm as p (i + a.cnt)]
theorem flatArg_norm : ∀ (a : Arg) (p i : Nat), flatArg a.norm p i = flatArg a p i
  | .one k v, p, i => by simp [Arg.norm, flatArg, isNull_norm, flat_norm v]
  | .many k vs, p, i => by simp [Arg.norm, flatArg, flatVals_norm vs k p i]
theorem flatVals_norm : ∀ (vs : List Val) (k : String) (p i : Nat), flatVals (normVals vs) k p i = flatVals vs k p i
  | [], _, _, _ => by simp [normVals]
  | v :: vs, k, p, i => by
    simp [normVals, flatVals, flat_norm v, cnt_norm v, flatVals_norm vs k p (i + v.cnt)]
end


/-! ## Part 4: every arena `load` returns is closed, acyclic and hash-free (any accepted payload list) -/

theorem loadArena_flat (t : Val) (hwf : t.WF) (hobj : t.isObj = true) :
    loadArena (flat t none 0) = some (seg t none 0) := by
  cases t with
  | node cls ty c m args =>
    simp only [Val.WF] at hwf
    obtain ⟨hcls, hty, hmt, hnd, hargs⟩ := hwf
    have hT := loadTy_flatTy ty hty
    have hM := loadMeta_flatMeta m hmt
    have hB := load_flatArgs args hargs hnd [Cell.node cls (normOpt ty) (normC c) (normMeta m) [] none none] 0
      cls (normOpt ty) (normC c) (normMeta m) [] none (by simp) (by simp [keysS])
    simp only [List.length_singleton] at hB
    simp [flat, loadArena, nodeP, mkRoot, mkObj, hcls, hT, hM, eIndex, eKey, eArr, hB, seg]
  | dtype s => simp [flat, loadArena, dtypeP, mkRoot, mkObj, loadList, seg, eIndex, eKey, eArr]
  | raw r => simp [Val.isObj] at hobj

def Slot.refs : Slot → List Nat
  | .one r => [r]
  | .many rs => rs

def slotsRefs : Slots → List Nat
  | [] => []
  | (_, s) :: rest => s.refs ++ slotsRefs rest

/-- what holds of the cell at index `j` in an arena of `n` cells: no cached hash, children refs point forwards and
    inside the arena, the parent index points backwards -/
def CellInv (n j : Nat) : Cell → Prop
  | .node _ _ _ _ args link h =>
    h = none ∧ (∀ r ∈ slotsRefs args, j < r ∧ r < n) ∧ (∀ l, link = some l → l.parent < j)
  | _ => True

def AInv (A : List Cell) : Prop := ∀ j c, A[j]? = some c → CellInv A.length j c

theorem CellInv_mono {n n' j : Nat} {c : Cell} (h : CellInv n j c) (hn : n ≤ n') : CellInv n' j c := by
  cases c with
  | node cls ty cm m args link hsh =>
    simp only [CellInv] at h ⊢
    exact ⟨h.1, fun r hr => ⟨(h.2.1 r hr).1, by have := (h.2.1 r hr).2; omega⟩, h.2.2⟩
  | dtype s => trivial
  | raw r => trivial

theorem lookup_refs {k : String} {args : Slots} {s : Slot} (h : lookupKey k args = some s) :
    ∀ r ∈ s.refs, r ∈ slotsRefs args := by
  induction args with
  | nil => simp [lookupKey] at h
  | cons x xs ih =>
    obtain ⟨k', s'⟩ := x
    simp only [lookupKey] at h
    intro r hr
    by_cases hk : k' = k
    · simp [hk] at h; subst h; simp [slotsRefs, hr]
    · simp [hk] at h; simp [slotsRefs, ih h r hr]

theorem setKey_refs (k : String) (s : Slot) (args : Slots) :
    ∀ r ∈ slotsRefs (setKey k s args), r ∈ slotsRefs args ∨ r ∈ s.refs := by
  induction args with
  | nil => intro r hr; simp [setKey, slotsRefs] at hr; exact Or.inr hr
  | cons x xs ih =>
    obtain ⟨k', s'⟩ := x
    intro r hr
    by_cases hk : k' = k
    · simp [setKey, hk, slotsRefs] at hr
      rcases hr with h | h
      · exact Or.inr h
      · exact Or.inl (by simp [slotsRefs, h])
    · simp [setKey, hk, slotsRefs] at hr
      rcases hr with h | h
      · exact Or.inl (by simp [slotsRefs, h])
      · rcases ih r h with h' | h'
        · exact Or.inl (by simp [slotsRefs, h'])
        · exact Or.inr h'

theorem eraseKey_refs (k : String) (args : Slots) :
    ∀ r ∈ slotsRefs (eraseKey k args), r ∈ slotsRefs args := by
  induction args with
  | nil => intro r hr; simp [eraseKey, slotsRefs] at hr
  | cons x xs ih =>
    obtain ⟨k', s'⟩ := x
    intro r hr
    by_cases hk : k' = k
    · simp [eraseKey, hk] at hr; simp [slotsRefs, hr]
    · simp [eraseKey, hk, slotsRefs] at hr
      rcases hr with h | h
      · simp [slotsRefs, h]
      · simp [slotsRefs, ih r h]

theorem linkArgs_refs (args : Slots) (k : String) (arr : Bool) (j : Nat) (b : Bool) :
    ∀ r ∈ slotsRefs (linkArgs args k arr j b).1, r ∈ slotsRefs args ∨ r = j := by
  intro r hr
  unfold linkArgs at hr
  by_cases ha : arr = true
  · simp only [ha, if_true] at hr
    unfold appendRef at hr
    split at hr
    · rename_i rs hl
      rcases setKey_refs _ _ _ r hr with h | h
      · exact Or.inl h
      · simp [Slot.refs] at h
        rcases h with h | h
        · exact Or.inl (lookup_refs hl r (by simpa [Slot.refs] using h))
        · exact Or.inr h
    · rcases setKey_refs _ _ _ r hr with h | h
      · exact Or.inl h
      · simp [Slot.refs] at h; exact Or.inr h
  · simp only [ha] at hr
    by_cases hb : b = true
    · simp [hb] at hr; exact Or.inl (eraseKey_refs _ _ r hr)
    · simp [hb] at hr
      rcases setKey_refs _ _ _ r hr with h | h
      · exact Or.inl h
      · simp [Slot.refs] at h; exact Or.inr h

theorem clearUp_of_inv {A : List Cell} (h : AInv A) (fuel idx : Nat) : clearUp A fuel idx = A := by
  cases fuel with
  | zero => rfl
  | succ n =>
    cases hc : A[idx]? with
    | none => simp [clearUp, hc]
    | some c =>
      cases c with
      | node cls ty cm m args l hsh =>
        have := h idx _ hc
        simp only [CellInv] at this
        simp [clearUp, hc, this.1]
      | dtype s => simp [clearUp, hc]
      | raw r => simp [clearUp, hc]

theorem mkObj_inv {cn : String} {tyv : Option (Option Val)} {c : Comments} {mv : Option Meta} {value : Option Raw}
    {cell : Cell} (h : mkObj cn tyv c mv value = some cell) :
    (∃ s, cell = .dtype s) ∨ (∃ t m, cell = .node cn t c m [] none none) := by
  unfold mkObj at h
  split at h
  · split at h
    · simp at h; exact Or.inl ⟨_, h.symm⟩
    · simp at h
  · split at h
    · simp at h; exact Or.inr ⟨_, _, h.symm⟩
    · simp at h

theorem mkCell_inv {p : Payload} {cell : Cell} (h : mkCell p = some cell) :
    (∃ s, cell = .dtype s) ∨ (∃ r, cell = .raw r) ∨ (∃ cn t c m, cell = .node cn t c m [] none none) := by
  obtain ⟨i, k, a, cls, ty, c, m, value⟩ := p
  cases cls with
  | none =>
    cases value with
    | none => simp [mkCell] at h
    | some r => simp [mkCell] at h; exact Or.inr (Or.inl ⟨r, h.symm⟩)
  | some cn =>
    simp only [mkCell] at h
    rcases mkObj_inv h with ⟨s, hs⟩ | ⟨t, m', hm⟩
    · exact Or.inl ⟨s, hs⟩
    · exact Or.inr (Or.inr ⟨cn, t, c, m', hm⟩)

theorem attach_inv {A A' : List Cell} {cell : Cell} {idx : Nat} {k : String} {arr : Bool}
    (hA : AInv A)
    (hcell : (∃ s, cell = .dtype s) ∨ (∃ r, cell = .raw r) ∨ (∃ cn t c m, cell = .node cn t c m [] none none))
    (h : attach A cell idx k arr = some A') : AInv A' := by
  unfold attach at h
  split at h
  · rename_i hlt
    simp only [clearUp_of_inv hA] at h
    split at h
    · rename_i cls ty c m args l hsh hget
      simp at h
      subst h
      have hpar := hA idx _ hget
      simp only [CellInv] at hpar
      intro j cj hj
      have hlen : (A.set idx (Cell.node cls ty c m (linkArgs args k arr A.length cell.isRawNull).fst l hsh) ++
          [cell.withLink ⟨idx, k, (linkArgs args k arr A.length cell.isRawNull).snd⟩]).length = A.length + 1 := by
        simp
      rw [hlen]
      by_cases hjn : j < A.length
      · rw [List.getElem?_append_left (by simpa using hjn)] at hj
        by_cases hji : j = idx
        · subst hji
          simp [hjn] at hj
          subst hj
          simp only [CellInv]
          refine ⟨hpar.1, ?_, hpar.2.2⟩
          intro r hr
          rcases linkArgs_refs _ _ _ _ _ r hr with h' | h'
          · have := hpar.2.1 r h'; omega
          · omega
        · rw [List.getElem?_set_ne (by omega)] at hj
          exact CellInv_mono (hA j cj hj) (by omega)
      · have hjeq : j = A.length := by
          have := (List.getElem?_eq_some_iff.mp hj).1
          simp at this; omega
        subst hjeq
        simp at hj
        subst hj
        rcases hcell with ⟨s, hs⟩ | ⟨r, hr⟩ | ⟨cn, t, c', m', hn⟩
        · subst hs; simp [Cell.withLink, CellInv]
        · subst hr; simp [Cell.withLink, CellInv]
        · subst hn; simp [Cell.withLink, CellInv, slotsRefs]; exact hlt
    · simp at h
  · simp at h

theorem loadList_inv : ∀ (ps : List Payload) (A A' : List Cell), AInv A → loadList ps A = some A' → AInv A' := by
  intro ps
  induction ps with
  | nil => intro A A' hA h; simp [loadList] at h; subst h; exact hA
  | cons p ps ih =>
    intro A A' hA h
    simp only [loadList] at h
    cases hc : mkCell p with
    | none => simp [hc] at h
    | some cell =>
      simp only [hc] at h
      cases hi : pIndex p with
      | none => simp [hi] at h
      | some idx =>
        cases hk : pKey p with
        | none => simp [hi, hk] at h
        | some k =>
          simp only [hi, hk] at h
          cases hat : attach A cell idx k (pArr p) with
          | none => simp [hat] at h
          | some A1 =>
            simp only [hat] at h
            exact ih A1 A' (attach_inv hA (mkCell_inv hc) hat) h

theorem loadArena_inv (ps : List Payload) (A : List Cell) (h : loadArena ps = some A) : AInv A := by
  cases ps with
  | nil => simp [loadArena] at h; subst h; intro j c hj; simp at hj
  | cons p tail =>
    simp only [loadArena] at h
    cases hr : mkRoot p with
    | none => simp [hr] at h
    | some root =>
      simp only [hr] at h
      have hroot : AInv [root] := by
        obtain ⟨i, k, a, cls, ty, c, m, value⟩ := p
        cases cls with
        | none => simp [mkRoot] at hr
        | some cn =>
          simp only [mkRoot] at hr
          intro j cj hj
          have hj0 : j = 0 := by
            have := (List.getElem?_eq_some_iff.mp hj).1
            simp at this; omega
          subst hj0
          simp at hj
          subst hj
          rcases mkObj_inv hr with ⟨s, hs⟩ | ⟨t, m', hm⟩
          · subst hs; simp [CellInv]
          · subst hm; simp [CellInv, slotsRefs]
      exact loadList_inv tail [root] A hroot h


/-! ## Part 5: parent links of the rebuilt tree (the C08 invariant): every child records exactly the slot it is stored under -/

/-- cell `j` is an Expression whose `(parent, arg_key, index)` is `l`, or a scalar / DType (no parent fields) -/
def LinkIs (A : List Cell) (j : Nat) (l : Link) : Prop :=
  match A[j]? with
  | some (.node _ _ _ _ _ l' _) => l' = some l
  | some _ => True
  | none => False

def refsOK (A : List Cell) (p : Nat) (k : String) : Nat → List Nat → Prop
  | _, [] => True
  | n, r :: rs => LinkIs A r ⟨p, k, some n⟩ ∧ refsOK A p k (n + 1) rs

def slotsOK (A : List Cell) (p : Nat) : Slots → Prop
  | [] => True
  | (k, .one r) :: rest => LinkIs A r ⟨p, k, none⟩ ∧ slotsOK A p rest
  | (k, .many rs) :: rest => refsOK A p k 0 rs ∧ slotsOK A p rest

/-- for the node at `j`: `args[k].parent is node ∧ .arg_key == k ∧ .index is None`, and
    `args[k][n].parent is node ∧ .arg_key == k ∧ .index == n`, for every key -/
def cellOK (A : List Cell) (j : Nat) : Prop :=
  match A[j]? with
  | some (.node _ _ _ _ args _ _) => slotsOK A j args
  | _ => True

theorem head_link (v : Val) (l : Link) (pre post : List Cell) (i : Nat) (hi : pre.length = i) :
    LinkIs (pre ++ seg v (some l) i ++ post) i l := by
  cases v <;> simp [LinkIs, seg, ← hi]

theorem nonempty_of_not_isEmpty {α} {l : List α} (h : ¬ l.isEmpty = true) : ∃ x xs, l = x :: xs := by
  cases l with
  | nil => simp at h
  | cons x xs => exact ⟨x, xs, rfl⟩

mutual
theorem links_seg : ∀ (v : Val) (l : Option Link) (pre post : List Cell) (i : Nat), pre.length = i →
    ∀ j, i ≤ j → j < i + v.cnt → cellOK (pre ++ seg v l i ++ post) j
  | .node cls ty c m args, l, pre, post, i, hi, j, h1, h2 => by
    have hA : pre ++ seg (.node cls ty c m args) l i ++ post =
        (pre ++ [Cell.node cls (normOpt ty) (normC c) (normMeta m) (slotsOf args (i + 1)) l none])
          ++ segArgs args i (i + 1) ++ post := by simp [seg]
    have hrec := links_segArgs args i
      (pre ++ [Cell.node cls (normOpt ty) (normC c) (normMeta m) (slotsOf args (i + 1)) l none]) post (i + 1)
      (by simp [hi])
    rw [hA]
    by_cases hj : j = i
    · subst hj
      have hget : ((pre ++ [Cell.node cls (normOpt ty) (normC c) (normMeta m) (slotsOf args (j + 1)) l none])
          ++ segArgs args j (j + 1) ++ post)[j]? =
          some (Cell.node cls (normOpt ty) (normC c) (normMeta m) (slotsOf args (j + 1)) l none) := by
        simp [← hi]
      unfold cellOK
      rw [hget]
      exact hrec.2
    · exact hrec.1 j (by omega) (by simp [Val.cnt] at h2; omega)
  | .dtype s, l, pre, post, i, hi, j, h1, h2 => by
    have hj : j = i := by simp [Val.cnt] at h2; omega
    subst hj
    simp [cellOK, seg, ← hi]
  | .raw r, l, pre, post, i, hi, j, h1, h2 => by
    have hj : j = i := by simp [Val.cnt] at h2; omega
    subst hj
    simp [cellOK, seg, ← hi]
theorem links_segArgs : ∀ (args : List Arg) (p : Nat) (pre post : List Cell) (i : Nat), pre.length = i →
    (∀ j, i ≤ j → j < i + cntArgs args → cellOK (pre ++ segArgs args p i ++ post) j) ∧
    slotsOK (pre ++ segArgs args p i ++ post) p (slotsOf args i)
  | [], p, pre, post, i, hi => by
    refine ⟨?_, by simp [slotsOf, slotsOK]⟩
    intro j h1 h2; simp [cntArgs] at h2; omega
  | .one k v :: as, p, pre, post, i, hi => by
    by_cases hn : v.isNull = true
    · have hd : (Arg.one k v).dropped = true := by simp [Arg.dropped, hn]
      have h0 := dropped_cnt _ hd
      have := links_segArgs as p pre post i hi
      simpa [slotsOf, hd, segArgs, dropped_segArg _ p i hd, h0, cntArgs] using this
    · have hd : (Arg.one k v).dropped = false := by simp [Arg.dropped, hn]
      have hc : (Arg.one k v).cnt = v.cnt := by simp [Arg.cnt, hn]
      have hv := links_seg v (some ⟨p, k, none⟩) pre (segArgs as p (i + v.cnt) ++ post) i hi
      have hh := head_link v ⟨p, k, none⟩ pre (segArgs as p (i + v.cnt) ++ post) i hi
      have hrest := links_segArgs as p (pre ++ seg v (some ⟨p, k, none⟩) i) post (i + v.cnt)
        (by simp [seg_length, hi])
      simp only [slotsOf, hd, segArgs, segArg, hn, hc, cntArgs, Arg.key, Arg.slot, slotsOK, Bool.false_eq_true,
        ↓reduceIte]
      simp only [List.append_assoc] at hv hh hrest ⊢
      refine ⟨?_, hh, hrest.2⟩
      intro j h1 h2
      by_cases hj : j < i + v.cnt
      · exact hv j h1 hj
      · exact hrest.1 j (by omega) (by omega)
  | .many k vs :: as, p, pre, post, i, hi => by
    by_cases hn : vs.isEmpty = true
    · have hd : (Arg.many k vs).dropped = true := by simp [Arg.dropped, hn]
      have h0 := dropped_cnt _ hd
      have := links_segArgs as p pre post i hi
      simpa [slotsOf, hd, segArgs, dropped_segArg _ p i hd, h0, cntArgs] using this
    · have hd : (Arg.many k vs).dropped = false := by simp [Arg.dropped, hn]
      have hc : (Arg.many k vs).cnt = cntVals vs := by simp [Arg.cnt]
      have hv := links_segVals vs k p 0 pre (segArgs as p (i + cntVals vs) ++ post) i hi
      have hrest := links_segArgs as p (pre ++ segVals vs k p 0 i) post (i + cntVals vs)
        (by simp [segVals_length, hi])
      simp only [slotsOf, hd, segArgs, segArg, hc, cntArgs, Arg.key, Arg.slot, slotsOK, Bool.false_eq_true,
        ↓reduceIte]
      simp only [List.append_assoc] at hv hrest ⊢
      refine ⟨?_, hv.2, hrest.2⟩
      intro j h1 h2
      by_cases hj : j < i + cntVals vs
      · exact hv.1 j h1 hj
      · exact hrest.1 j (by omega) (by omega)
theorem links_segVals : ∀ (vs : List Val) (k : String) (p n : Nat) (pre post : List Cell) (i : Nat), pre.length = i →
    (∀ j, i ≤ j → j < i + cntVals vs → cellOK (pre ++ segVals vs k p n i ++ post) j) ∧
    refsOK (pre ++ segVals vs k p n i ++ post) p k n (offsets vs i)
  | [], k, p, n, pre, post, i, hi => by
    refine ⟨?_, by simp [offsets, refsOK]⟩
    intro j h1 h2; simp [cntVals] at h2; omega
  | v :: vs, k, p, n, pre, post, i, hi => by
    have hv := links_seg v (some ⟨p, k, some n⟩) pre (segVals vs k p (n + 1) (i + v.cnt) ++ post) i hi
    have hh := head_link v ⟨p, k, some n⟩ pre (segVals vs k p (n + 1) (i + v.cnt) ++ post) i hi
    have hrest := links_segVals vs k p (n + 1) (pre ++ seg v (some ⟨p, k, some n⟩) i) post (i + v.cnt)
      (by simp [seg_length, hi])
    simp only [offsets, segVals, refsOK, cntVals]
    simp only [List.append_assoc] at hv hh hrest ⊢
    refine ⟨?_, hh, hrest.2⟩
    intro j h1 h2
    by_cases hj : j < i + v.cnt
    · exact hv j h1 hj
    · exact hrest.1 j (by omega) (by omega)
end

theorem links_closed_form (t : Val) : ∀ j, j < t.cnt → cellOK (seg t none 0) j := by
  intro j hj
  have := links_seg t none [] [] 0 rfl j (Nat.zero_le _) (by omega)
  simpa using this


/-! ## Part 6: every payload is a JSON value -/

mutual
theorem raw_json : ∀ (r : Raw), JsonValue r.toPy
  | .null => by simp [Raw.toPy]; exact .none
  | .bool b => by simp [Raw.toPy]; exact .bool b
  | .int i => by simp [Raw.toPy]; exact .int i
  | .str s => by simp [Raw.toPy]; exact .str s
  | .arr l => by simp only [Raw.toPy]; exact .list _ (raws_json l)
theorem raws_json : ∀ (l : List Raw), ∀ x ∈ rawsToPy l, JsonValue x
  | [] => by simp [rawsToPy]
  | r :: rs => by
    intro x hx
    simp only [rawsToPy, List.mem_cons] at hx
    rcases hx with h | h
    · exact h ▸ raw_json r
    · exact raws_json rs x h
end

theorem optField_json (k : String) (o : Option Py) (h : ∀ v, o = some v → JsonValue v) :
    ∀ kv ∈ optField k o, (∃ s, kv.1 = .str s) ∧ JsonValue kv.2 := by
  cases o with
  | none => simp [optField]
  | some v => intro kv hkv; simp [optField] at hkv; subst hkv; exact ⟨⟨k, rfl⟩, h v rfl⟩

theorem dict_json (l : List (Py × Py)) (h : ∀ kv ∈ l, (∃ s, kv.1 = .str s) ∧ JsonValue kv.2) :
    JsonValue (.dict l) :=
  .dict l (fun kv hkv => (h kv hkv).1) (fun kv hkv => (h kv hkv).2)

theorem strs_json (l : List String) : JsonValue (Py.list (l.map Py.str)) := by
  refine .list _ ?_
  intro x hx
  simp at hx
  obtain ⟨s, _, rfl⟩ := hx
  exact .str s

mutual
theorem payload_json (K : Keys) : ∀ (p : Payload), JsonValue (p.toPy K)
  | .mk i k a cls ty c m v => by
    simp only [Payload.toPy]
    refine dict_json _ ?_
    intro kv hkv
    simp only [List.mem_append] at hkv
    rcases hkv with ((((((h | h) | h) | h) | h) | h) | h) | h
    · refine optField_json _ _ ?_ kv h
      intro x hx; cases i <;> simp at hx; subst hx; exact .int _
    · refine optField_json _ _ ?_ kv h
      intro x hx; cases k <;> simp at hx; subst hx; exact .str _
    · by_cases ha : a = true
      · simp [ha] at h; subst h; exact ⟨⟨_, rfl⟩, .bool true⟩
      · simp [ha] at h
    · refine optField_json _ _ ?_ kv h
      intro x hx; cases cls <;> simp at hx; subst hx; exact .str _
    · exact optTy_json K ty kv h
    · refine optField_json _ _ ?_ kv h
      intro x hx; cases c <;> simp at hx; subst hx; exact strs_json _
    · exact optMeta_json K m kv h
    · refine optField_json _ _ ?_ kv h
      intro x hx; cases v <;> simp at hx; subst hx; exact raw_json _
theorem optTy_json (K : Keys) : ∀ (ty : Option (List Payload)),
    ∀ kv ∈ optTy K ty, (∃ s, kv.1 = .str s) ∧ JsonValue kv.2
  | none => by simp [optTy]
  | some ps => by
    intro kv hkv; simp [optTy] at hkv; subst hkv
    exact ⟨⟨_, rfl⟩, .list _ (payloads_json K ps)⟩
theorem payloads_json (K : Keys) : ∀ (ps : List Payload), ∀ x ∈ payloadsToPy K ps, JsonValue x
  | [] => by simp [payloadsToPy]
  | p :: ps => by
    intro x hx
    simp only [payloadsToPy, List.mem_cons] at hx
    rcases hx with h | h
    · exact h ▸ payload_json K p
    · exact payloads_json K ps x h
theorem optMeta_json (K : Keys) : ∀ (m : Option (List PMeta)),
    ∀ kv ∈ optMeta K m, (∃ s, kv.1 = .str s) ∧ JsonValue kv.2
  | none => by simp [optMeta]
  | some l => by
    intro kv hkv; simp [optMeta] at hkv; subst hkv
    exact ⟨⟨_, rfl⟩, dict_json _ (pmetas_json K l)⟩
theorem pmetas_json (K : Keys) : ∀ (l : List PMeta),
    ∀ kv ∈ pmetasToPy K l, (∃ s, kv.1 = .str s) ∧ JsonValue kv.2
  | [] => by simp [pmetasToPy]
  | .raw k r :: es => by
    intro kv hkv
    simp only [pmetasToPy, List.mem_cons] at hkv
    rcases hkv with h | h
    · subst h; exact ⟨⟨k, rfl⟩, raw_json r⟩
    · exact pmetas_json K es kv h
  | .expr k ps :: es => by
    intro kv hkv
    simp only [pmetasToPy, List.mem_cons] at hkv
    rcases hkv with h | h
    · subst h
      refine ⟨⟨k, rfl⟩, dict_json _ ?_⟩
      intro kv' hkv'
      simp at hkv'; subst hkv'
      exact ⟨⟨_, rfl⟩, .list _ (payloads_json K ps)⟩
    · exact pmetas_json K es kv h
end

end SqlglotModel.Serde
