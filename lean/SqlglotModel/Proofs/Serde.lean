/-
  C12 — helper lemmas for the serde model (Model/Serde.lean). Core Lean only.
  Part 1: the explicit-stack loop of `dump` is the recursive pre-order `flat`.
  Part 2: the arena `load` builds from `flat t` has a closed form (`seg`), and `reify` of that closed form is `t.norm`.
-/
import SqlglotModel.Model.Serde

namespace SqlglotModel.Serde

/-! ## Part 1: dump loop = pre-order specification -/

def stackSize : List Item → Nat
  | [] => 0
  | (v, _) :: st => v.size + stackSize st

def stackCnt : List Item → Nat
  | [] => 0
  | (v, _) :: st => v.cnt + stackCnt st

/-- the specification for a whole stack -/
def flatStack : List Item → Nat → List Payload
  | [], _ => []
  | (v, e) :: st, i => flat v e i ++ flatStack st (i + v.cnt)

theorem stackSize_append (a b : List Item) : stackSize (a ++ b) = stackSize a + stackSize b := by
  induction a with
  | nil => simp [stackSize]
  | cons x xs ih => obtain ⟨v, e⟩ := x; simp [stackSize, ih, Nat.add_assoc]

theorem stackCnt_append (a b : List Item) : stackCnt (a ++ b) = stackCnt a + stackCnt b := by
  induction a with
  | nil => simp [stackCnt]
  | cons x xs ih => obtain ⟨v, e⟩ := x; simp [stackCnt, ih, Nat.add_assoc]

theorem flatStack_append (a b : List Item) (i : Nat) :
    flatStack (a ++ b) i = flatStack a i ++ flatStack b (i + stackCnt a) := by
  induction a generalizing i with
  | nil => simp [flatStack, stackCnt]
  | cons x xs ih => obtain ⟨v, e⟩ := x; simp [flatStack, stackCnt, ih, Nat.add_assoc]

theorem stackSize_edgesVals (k : String) (i : Nat) (vs : List Val) :
    stackSize (edgesVals k i vs) = sizeVals vs := by
  induction vs with
  | nil => simp [edgesVals, stackSize, sizeVals]
  | cons v vs ih => simp [edgesVals, stackSize, sizeVals, ih]

theorem stackSize_edgesArg (i : Nat) (a : Arg) : stackSize (edgesArg i a) ≤ a.size := by
  cases a with
  | one k v => simp only [edgesArg, Arg.size]; split <;> simp [stackSize]
  | many k vs => simp [edgesArg, Arg.size, stackSize_edgesVals]

theorem stackSize_edgesArgs (i : Nat) (args : List Arg) : stackSize (edgesArgs i args) ≤ sizeArgs args := by
  induction args with
  | nil => simp [edgesArgs, stackSize, sizeArgs]
  | cons a as ih =>
    simp only [edgesArgs, sizeArgs, stackSize_append]
    have := stackSize_edgesArg i a
    omega

theorem stackCnt_edgesVals (k : String) (i : Nat) (vs : List Val) :
    stackCnt (edgesVals k i vs) = cntVals vs := by
  induction vs with
  | nil => simp [edgesVals, stackCnt, cntVals]
  | cons v vs ih => simp [edgesVals, stackCnt, cntVals, ih]

theorem stackCnt_edgesArg (i : Nat) (a : Arg) : stackCnt (edgesArg i a) = a.cnt := by
  cases a with
  | one k v => simp only [edgesArg, Arg.cnt]; split <;> simp [stackCnt]
  | many k vs => simp [edgesArg, Arg.cnt, stackCnt_edgesVals]

theorem flatStack_edgesVals (k : String) (p : Nat) (vs : List Val) (i : Nat) :
    flatStack (edgesVals k p vs) i = flatVals vs k p i := by
  induction vs generalizing i with
  | nil => simp [edgesVals, flatStack, flatVals]
  | cons v vs ih => simp [edgesVals, flatStack, flatVals, ih]

theorem flatStack_edgesArg (p : Nat) (a : Arg) (i : Nat) :
    flatStack (edgesArg p a) i = flatArg a p i := by
  cases a with
  | one k v => simp only [edgesArg, flatArg]; split <;> simp [flatStack]
  | many k vs => simp [edgesArg, flatArg, flatStack_edgesVals]

theorem flatStack_edgesArgs (p : Nat) (args : List Arg) (i : Nat) :
    flatStack (edgesArgs p args) i = flatArgs args p i := by
  induction args generalizing i with
  | nil => simp [edgesArgs, flatStack, flatArgs]
  | cons a as ih =>
    simp [edgesArgs, flatArgs, flatStack_append, flatStack_edgesArg, stackCnt_edgesArg, ih]

theorem stackCnt_edgesArgs (i : Nat) (args : List Arg) : stackCnt (edgesArgs i args) = cntArgs args := by
  induction args with
  | nil => simp [edgesArgs, stackCnt, cntArgs]
  | cons a as ih => simp [edgesArgs, cntArgs, stackCnt_append, stackCnt_edgesArg, ih]

theorem dumpLoop_spec : ∀ fuel st i out, stackSize st ≤ fuel →
    dumpLoop fuel st i out = out ++ flatStack st i := by
  intro fuel
  induction fuel with
  | zero =>
    intro st i out h
    cases st with
    | nil => simp [dumpLoop, flatStack]
    | cons x xs =>
      obtain ⟨v, e⟩ := x
      cases v <;> simp [stackSize, Val.size] at h <;> omega
  | succ n ih =>
    intro st i out h
    cases st with
    | nil => simp [dumpLoop, flatStack]
    | cons x xs =>
      obtain ⟨v, e⟩ := x
      cases v with
      | node cls ty c m args =>
        simp only [stackSize, Val.size] at h
        have hsz : stackSize (edgesArgs i args ++ xs) ≤ n := by
          rw [stackSize_append]; have := stackSize_edgesArgs i args; omega
        have hty : (ty.map fun t => dumpLoop n [(t, none)] 0 []) = flatTy ty := by
          cases ty with
          | none => simp [flatTy]
          | some t =>
            have ht : stackSize [(t, (none : Option Edge))] ≤ n := by
              simp [stackSize, sizeOpt] at h ⊢; omega
            simp [flatTy, ih _ 0 [] ht, flatStack]
        simp only [dumpLoop, hty, ih _ _ _ hsz, flatStack, flat, flatStack_append, flatStack_edgesArgs,
          stackCnt_edgesArgs, Val.cnt]
        simp [Nat.add_assoc, Nat.add_comm 1]
      | dtype s =>
        simp only [stackSize, Val.size] at h
        have hsz : stackSize xs ≤ n := by omega
        simp [dumpLoop, ih _ _ _ hsz, flatStack, flat, Val.cnt]
      | raw r =>
        simp only [stackSize, Val.size] at h
        have hsz : stackSize xs ≤ n := by omega
        simp [dumpLoop, ih _ _ _ hsz, flatStack, flat, Val.cnt]

theorem dump_eq_flat (t : Val) : dump t = flat t none 0 := by
  have h : stackSize [(t, (none : Option Edge))] ≤ t.size := by simp [stackSize]
  simp [dump, dumpLoop_spec t.size _ 0 [] h, flatStack]


/-! ## Part 2: closed form of the loaded arena -/

/-- arena indices of the elements of a list-valued arg whose first element lands at `i` -/
def offsets : List Val → Nat → List Nat
  | [], _ => []
  | v :: vs, i => i :: offsets vs (i + v.cnt)

def Arg.slot : Arg → Nat → Slot
  | .one _ _, i => .one i
  | .many _ vs, i => .many (offsets vs i)

/-- the finished `args` dict of a node whose first child lands at `i` -/
def slotsOf : List Arg → Nat → Slots
  | [], _ => []
  | a :: as, i => if a.dropped then slotsOf as (i + a.cnt) else (a.key, a.slot i) :: slotsOf as (i + a.cnt)

/- the cells of a value placed at index `i` (pre-order), each with its final args and parent link -/
mutual
def seg : Val → Option Link → Nat → List Cell
  | .node cls ty c m args, l, i =>
    .node cls (normOpt ty) (normC c) m (slotsOf args (i + 1)) l :: segArgs args i (i + 1)
  | .dtype s, _, _ => [.dtype s]
  | .raw r, _, _ => [.raw r]
def segArgs : List Arg → Nat → Nat → List Cell
  | [], _, _ => []
  | a :: as, p, i => segArg a p i ++ segArgs as p (i + a.cnt)
def segArg : Arg → Nat → Nat → List Cell
  | .one k v, p, i => if v.isNull then [] else seg v (some ⟨p, k, none⟩) i
  | .many k vs, p, i => segVals vs k p 0 i
def segVals : List Val → String → Nat → Nat → Nat → List Cell
  | [], _, _, _, _ => []
  | v :: vs, k, p, n, i => seg v (some ⟨p, k, some n⟩) i ++ segVals vs k p (n + 1) (i + v.cnt)
end

mutual
theorem seg_length : ∀ (v : Val) (l : Option Link) (i : Nat), (seg v l i).length = v.cnt
  | .node _ _ _ _ args, l, i => by simp [seg, Val.cnt, segArgs_length args i (i + 1), Nat.add_comm]
  | .dtype _, _, _ => by simp [seg, Val.cnt]
  | .raw _, _, _ => by simp [seg, Val.cnt]
theorem segArgs_length : ∀ (args : List Arg) (p i : Nat), (segArgs args p i).length = cntArgs args
  | [], _, _ => by simp [segArgs, cntArgs]
  | a :: as, p, i => by simp [segArgs, cntArgs, segArg_length a p i, segArgs_length as p (i + a.cnt)]
theorem segArg_length : ∀ (a : Arg) (p i : Nat), (segArg a p i).length = a.cnt
  | .one k v, p, i => by
    simp only [segArg, Arg.cnt]; split
    · simp
    · exact seg_length v _ i
  | .many k vs, p, i => by simp [segArg, Arg.cnt, segVals_length vs k p 0 i]
theorem segVals_length : ∀ (vs : List Val) (k : String) (p n i : Nat), (segVals vs k p n i).length = cntVals vs
  | [], _, _, _, _ => by simp [segVals, cntVals]
  | v :: vs, k, p, n, i => by
    simp [segVals, cntVals, seg_length v _ i, segVals_length vs k p (n + 1) (i + v.cnt)]
end

theorem dropped_cnt (a : Arg) (h : a.dropped = true) : a.cnt = 0 := by
  cases a with
  | one k v => simp [Arg.dropped] at h; simp [Arg.cnt, h]
  | many k vs => cases vs <;> simp_all [Arg.dropped, Arg.cnt, cntVals]

theorem dropped_segArg (a : Arg) (p i : Nat) (h : a.dropped = true) : segArg a p i = [] := by
  cases a with
  | one k v => simp [Arg.dropped] at h; simp [segArg, h]
  | many k vs => cases vs <;> simp_all [Arg.dropped, segArg, segVals]

/- reading the closed form back gives the normalised tree, wherever the segment sits in an arena -/
mutual
theorem reify_seg : ∀ (v : Val) (l : Option Link) (pre post : List Cell) (i fuel : Nat),
    pre.length = i → v.cnt ≤ fuel → reify (pre ++ seg v l i ++ post) fuel i = some v.norm
  | .node cls ty c m args, l, pre, post, i, fuel, hi, hf => by
    cases fuel with
    | zero => simp [Val.cnt] at hf
    | succ n =>
      have hget : (pre ++ seg (.node cls ty c m args) l i ++ post)[i]? =
          some (.node cls (normOpt ty) (normC c) m (slotsOf args (i + 1)) l) := by
        simp [seg, ← hi]
      have hA : pre ++ seg (.node cls ty c m args) l i ++ post =
          (pre ++ [Cell.node cls (normOpt ty) (normC c) m (slotsOf args (i + 1)) l]) ++ segArgs args i (i + 1) ++ post := by
        simp [seg]
      have hrec := reify_segArgs args i (pre ++ [Cell.node cls (normOpt ty) (normC c) m (slotsOf args (i + 1)) l])
        post (i + 1) n (by simp [hi]) (by simp [Val.cnt] at hf; omega)
      rw [reify, hget]
      simp only [reifyCell]
      rw [hA, hrec]
      simp [Val.norm]
  | .dtype s, l, pre, post, i, fuel, hi, hf => by
    cases fuel with
    | zero => simp [Val.cnt] at hf
    | succ n => simp [reify, seg, ← hi, reifyCell, Val.norm]
  | .raw r, l, pre, post, i, fuel, hi, hf => by
    cases fuel with
    | zero => simp [Val.cnt] at hf
    | succ n => simp [reify, seg, ← hi, reifyCell, Val.norm]
theorem reify_segArgs : ∀ (args : List Arg) (p : Nat) (pre post : List Cell) (i fuel : Nat),
    pre.length = i → cntArgs args ≤ fuel →
    reifySlots (reify (pre ++ segArgs args p i ++ post) fuel) (slotsOf args i) = some (normArgs args)
  | [], _, _, _, _, _, _, _ => by simp [slotsOf, reifySlots, normArgs]
  | .one k v :: as, p, pre, post, i, fuel, hi, hf => by
    by_cases hn : v.isNull = true
    · have hd : (Arg.one k v).dropped = true := by simp [Arg.dropped, hn]
      have h0 := dropped_cnt _ hd
      have := reify_segArgs as p pre post i fuel hi (by simp [cntArgs, h0] at hf; exact hf)
      simpa [slotsOf, normArgs, hd, segArgs, dropped_segArg _ p i hd, h0] using this
    · have hd : (Arg.one k v).dropped = false := by simp [Arg.dropped, hn]
      have hc : (Arg.one k v).cnt = v.cnt := by simp [Arg.cnt, hn]
      have hv := reify_seg v (some ⟨p, k, none⟩) pre (segArgs as p (i + v.cnt) ++ post) i fuel hi
        (by simp [cntArgs, hc] at hf; omega)
      have hrest := reify_segArgs as p (pre ++ seg v (some ⟨p, k, none⟩) i) post (i + v.cnt) fuel
        (by simp [seg_length, hi]) (by simp [cntArgs] at hf; omega)
      simp only [slotsOf, hd, segArgs, segArg, hn, hc, normArgs, Arg.key, Arg.slot, reifySlots, reifySlot, Arg.norm, Bool.false_eq_true, ↓reduceIte]
      simp only [List.append_assoc] at hv hrest ⊢
      simp [hv, hrest]
  | .many k vs :: as, p, pre, post, i, fuel, hi, hf => by
    by_cases hn : vs.isEmpty = true
    · have hd : (Arg.many k vs).dropped = true := by simp [Arg.dropped, hn]
      have h0 := dropped_cnt _ hd
      have := reify_segArgs as p pre post i fuel hi (by simp [cntArgs, h0] at hf; exact hf)
      simpa [slotsOf, normArgs, hd, segArgs, dropped_segArg _ p i hd, h0] using this
    · have hd : (Arg.many k vs).dropped = false := by simp [Arg.dropped, hn]
      have hc : (Arg.many k vs).cnt = cntVals vs := by simp [Arg.cnt]
      have hv := reify_segVals vs k p 0 pre (segArgs as p (i + cntVals vs) ++ post) i fuel hi
        (by simp [cntArgs, hc] at hf; omega)
      have hrest := reify_segArgs as p (pre ++ segVals vs k p 0 i) post (i + cntVals vs) fuel
        (by simp [segVals_length, hi]) (by simp [cntArgs] at hf; omega)
      simp only [slotsOf, hd, segArgs, segArg, hc, normArgs, Arg.key, Arg.slot, reifySlots, reifySlot, Arg.norm, Bool.false_eq_true, ↓reduceIte]
      simp only [List.append_assoc] at hv hrest ⊢
      simp [hv, hrest]
theorem reify_segVals : ∀ (vs : List Val) (k : String) (p n : Nat) (pre post : List Cell) (i fuel : Nat),
    pre.length = i → cntVals vs ≤ fuel →
    reifyRefs (reify (pre ++ segVals vs k p n i ++ post) fuel) (offsets vs i) = some (normVals vs)
  | [], _, _, _, _, _, _, _, _, _ => by simp [offsets, reifyRefs, normVals]
  | v :: vs, k, p, n, pre, post, i, fuel, hi, hf => by
    have hv := reify_seg v (some ⟨p, k, some n⟩) pre (segVals vs k p (n + 1) (i + v.cnt) ++ post) i fuel hi
      (by simp [cntVals] at hf; omega)
    have hrest := reify_segVals vs k p (n + 1) (pre ++ seg v (some ⟨p, k, some n⟩) i) post (i + v.cnt) fuel
      (by simp [seg_length, hi]) (by simp [cntVals] at hf; omega)
    simp only [offsets, segVals, reifyRefs, normVals]
    simp only [List.append_assoc] at hv hrest ⊢
    simp [hv, hrest]
end


/-! ### the args dict under `set` / `append` when keys arrive in order -/

def keysS (s : Slots) : List String := s.map (·.1)

theorem lookupKey_notin {k : String} {cur : Slots} (h : k ∉ keysS cur) : lookupKey k cur = none := by
  induction cur with
  | nil => simp [lookupKey]
  | cons x xs ih =>
    obtain ⟨k', s'⟩ := x
    simp [keysS] at h
    have : k' ≠ k := fun e => h.1 e.symm
    simp [lookupKey, this]
    exact ih (by simpa [keysS] using h.2)

theorem setKey_notin {k : String} {cur : Slots} (s : Slot) (h : k ∉ keysS cur) :
    setKey k s cur = cur ++ [(k, s)] := by
  induction cur with
  | nil => simp [setKey]
  | cons x xs ih =>
    obtain ⟨k', s'⟩ := x
    simp [keysS] at h
    have : k' ≠ k := fun e => h.1 e.symm
    simp [setKey, this]
    exact ih (by simpa [keysS] using h.2)

theorem lookupKey_snoc {k : String} {cur : Slots} (s : Slot) (h : k ∉ keysS cur) :
    lookupKey k (cur ++ [(k, s)]) = some s := by
  induction cur with
  | nil => simp [lookupKey]
  | cons x xs ih =>
    obtain ⟨k', s'⟩ := x
    simp [keysS] at h
    have : k' ≠ k := fun e => h.1 e.symm
    simp [lookupKey, this]
    exact ih (by simpa [keysS] using h.2)

theorem setKey_snoc {k : String} {cur : Slots} (s0 s : Slot) (h : k ∉ keysS cur) :
    setKey k s (cur ++ [(k, s0)]) = cur ++ [(k, s)] := by
  induction cur with
  | nil => simp [setKey]
  | cons x xs ih =>
    obtain ⟨k', s'⟩ := x
    simp [keysS] at h
    have : k' ≠ k := fun e => h.1 e.symm
    simp [setKey, this]
    exact ih (by simpa [keysS] using h.2)

/-- the args of a node while the elements of its list-valued arg `k` are being appended -/
def withList (cur : Slots) (k : String) : List Nat → Slots
  | [] => cur
  | r :: rs => cur ++ [(k, .many (r :: rs))]

theorem appendRef_withList {k : String} {cur : Slots} (refs : List Nat) (j : Nat) (h : k ∉ keysS cur) :
    appendRef (withList cur k refs) k j = (withList cur k (refs ++ [j]), refs.length) := by
  cases refs with
  | nil => simp [withList, appendRef, lookupKey_notin h, setKey_notin _ h]
  | cons r rs => simp [withList, appendRef, lookupKey_snoc _ h, setKey_snoc _ _ h]

theorem withList_append_cons {cur : Slots} {k : String} (refs : List Nat) (j : Nat) (rest : List Nat) :
    withList cur k (refs ++ j :: rest) = cur ++ [(k, .many (refs ++ j :: rest))] := by
  cases refs <;> simp [withList]

/-! ### list plumbing -/

theorem set_self {α} (A : List α) (j : Nat) (x : α) (h : A[j]? = some x) : A.set j x = A := by
  induction A generalizing j with
  | nil => simp
  | cons a as ih =>
    cases j with
    | zero => simp at h; simp [h]
    | succ n => simp at h; simp [ih n h]

theorem set_append_left' (B S : List Cell) (j : Nat) (x : Cell) (h : j < B.length) :
    (B ++ S).set j x = B.set j x ++ S := by
  simp [List.set_append, h]

theorem get_set_append (B S : List Cell) (j : Nat) (x : Cell) (h : j < B.length) :
    (B.set j x ++ S)[j]? = some x := by
  rw [List.getElem?_append_left (by simpa using h)]
  simp [h]

theorem lt_of_get {A : List Cell} {p : Nat} {c : Cell} (h : A[p]? = some c) : p < A.length := by
  have := List.getElem?_eq_some_iff.mp h
  exact this.1

theorem attach_ok {A : List Cell} {p : Nat} {cls ty c m cur l} (cell : Cell) (k : String) (arr : Bool)
    (h : A[p]? = some (.node cls ty c m cur l)) :
    attach A cell p k arr = some (A.set p (.node cls ty c m (linkArgs cur k arr A.length cell.isRawNull).1 l)
      ++ [cell.withLink ⟨p, k, (linkArgs cur k arr A.length cell.isRawNull).2⟩]) := by
  rw [attach, if_pos (lt_of_get h)]
  simp only [h]

theorem loadList_append (xs ys : List Payload) (A : List Cell) :
    loadList (xs ++ ys) A = (loadList xs A).bind (loadList ys) := by
  induction xs generalizing A with
  | nil => simp [loadList]
  | cons x xs ih =>
    simp only [List.cons_append, loadList]
    cases mkCell x with
    | none => simp
    | some cell =>
      cases pIndex x with
      | none => simp
      | some idx =>
        cases pKey x with
        | none => simp
        | some k =>
          cases hat : attach A cell idx k (pArr x) <;> simp [hat, ih]

theorem dropped_flatArg (a : Arg) (p i : Nat) (h : a.dropped = true) : flatArg a p i = [] := by
  cases a with
  | one k v => simp [Arg.dropped] at h; simp [flatArg, h]
  | many k vs => cases vs <;> simp_all [Arg.dropped, flatArg, flatVals]

theorem isRawNull_raw (r : Raw) : (Cell.raw r).isRawNull = (Val.raw r).isNull := by
  cases r <;> rfl

/-! ### loading a pre-order dump yields the closed form -/

mutual
theorem load_flat_val : ∀ (v : Val), v.WF → ∀ (A : List Cell) (p : Nat) (k : String) (arr : Bool)
    (cls : String) (ty : Option Val) (c : Comments) (m : Meta) (cur : Slots) (l : Option Link),
    A[p]? = some (.node cls ty c m cur l) →
    loadList (flat v (some ⟨p, k, arr⟩) A.length) A =
      some (A.set p (.node cls ty c m (linkArgs cur k arr A.length v.isNull).1 l)
        ++ seg v (some ⟨p, k, (linkArgs cur k arr A.length v.isNull).2⟩) A.length)
  | .node cls' ty' c' m' args, hwf, A, p, k, arr, cls, ty, c, m, cur, l, hA => by
    simp only [Val.WF] at hwf
    obtain ⟨hcls, hty, hnd, hargs⟩ := hwf
    have hT := loadTy_flatTy ty' hty
    have hcell : mkCell (Payload.mk (some p) (some k) arr (some cls') (flatTy ty') (normC c') m' none) =
        some (.node cls' (normOpt ty') (normC c') m' [] none) := by
      simp [mkCell, mkObj, hcls, hT]
    have hp := lt_of_get hA
    let link : Link := ⟨p, k, (linkArgs cur k arr A.length false).2⟩
    let A0 := A.set p (.node cls ty c m (linkArgs cur k arr A.length false).1 l)
    let A1 := A0 ++ [Cell.node cls' (normOpt ty') (normC c') m' [] (some link)]
    have hA1len : A1.length = A.length + 1 := by simp [A1, A0]
    have hA1get : A1[A.length]? = some (Cell.node cls' (normOpt ty') (normC c') m' [] (some link)) := by
      simp [A1, A0]
    have hB := load_flatArgs args hargs hnd A1 A.length cls' (normOpt ty') (normC c') m' [] (some link) hA1get
      (by simp [keysS])
    simp only [flat, loadList, hcell, nodeP, pIndex, pKey, pArr, eIndex, eKey, eArr]
    rw [attach_ok _ _ _ hA]
    simp only [Cell.isRawNull, Cell.withLink, Val.isNull]
    rw [hA1len] at hB
    simp only [A1, A0, link] at hB
    rw [hB]
    simp [seg, List.set_append]
  | .dtype s, _, A, p, k, arr, cls, ty, c, m, cur, l, hA => by
    have hcell : mkCell (Payload.mk (some p) (some k) arr (some dataTypeCls) none none none (some (.str s))) = some (.dtype s) := by
      simp [mkCell, mkObj]
    simp only [flat, loadList, hcell, dtypeP, pIndex, pKey, pArr, eIndex, eKey, eArr]
    rw [attach_ok _ _ _ hA]
    simp [Cell.isRawNull, Cell.withLink, Val.isNull, seg]
  | .raw r, _, A, p, k, arr, cls, ty, c, m, cur, l, hA => by
    have hcell : mkCell (Payload.mk (some p) (some k) arr none none none none (some r)) = some (.raw r) := by
      simp [mkCell]
    simp only [flat, loadList, hcell, rawP, pIndex, pKey, pArr, eIndex, eKey, eArr]
    rw [attach_ok _ _ _ hA]
    simp [isRawNull_raw, Cell.withLink, seg]
theorem loadTy_flatTy : ∀ (ty : Option Val), wfOpt ty → loadTy (flatTy ty) = some (normOpt ty)
  | none, _ => by simp [flatTy, loadTy, normOpt]
  | some t, h => by
    simp only [wfOpt] at h
    simp [flatTy, loadTy, normOpt, load_flat_root t h.2 h.1]
theorem load_flat_root : ∀ (v : Val), v.WF → v.isObj = true → load (flat v none 0) = some (some v.norm)
  | .node cls' ty' c' m' args, hwf, _ => by
    simp only [Val.WF] at hwf
    obtain ⟨hcls, hty, hnd, hargs⟩ := hwf
    have hT := loadTy_flatTy ty' hty
    have hroot : mkRoot (nodeP none cls' (flatTy ty') c' m') =
        some (.node cls' (normOpt ty') (normC c') m' [] none) := by
      simp [nodeP, mkRoot, mkObj, hcls, hT]
    have hB := load_flatArgs args hargs hnd [Cell.node cls' (normOpt ty') (normC c') m' [] none] 0
      cls' (normOpt ty') (normC c') m' [] none (by simp) (by simp [keysS])
    have hR := reify_seg (.node cls' ty' c' m' args) none [] [] 0 (Val.node cls' ty' c' m' args).cnt rfl (Nat.le_refl _)
    simp only [List.length_singleton, Nat.zero_add] at hB
    simp only [flat, load, hroot, Nat.zero_add, hB]
    simp only [seg, List.nil_append, List.append_nil, Nat.zero_add] at hR
    have hlen : ([Cell.node cls' (normOpt ty') (normC c') m' [] none].set 0
        (Cell.node cls' (normOpt ty') (normC c') m' ([] ++ slotsOf args 1) none) ++ segArgs args 0 1).length
        = (Val.node cls' ty' c' m' args).cnt := by
      simp [Val.cnt, segArgs_length, Nat.add_comm]
    rw [hlen]
    simp only [List.set_cons_zero, List.nil_append, List.cons_append] at hR ⊢
    rw [hR]
  | .dtype s, _, _ => by
    simp [flat, load, dtypeP, mkRoot, mkObj, loadList, reify, reifyCell, Val.norm]
  | .raw r, _, h => by simp [Val.isObj] at h
theorem load_flatArgs : ∀ (args : List Arg), wfArgs args → (keysOf args).Nodup →
    ∀ (A : List Cell) (j : Nat) (cls : String) (ty : Option Val) (c : Comments) (m : Meta) (cur : Slots) (l : Option Link),
    A[j]? = some (.node cls ty c m cur l) → (∀ k ∈ keysOf args, k ∉ keysS cur) →
    loadList (flatArgs args j A.length) A =
      some (A.set j (.node cls ty c m (cur ++ slotsOf args A.length) l) ++ segArgs args j A.length)
  | [], _, _, A, j, cls, ty, c, m, cur, l, hA, _ => by
    simp [flatArgs, loadList, slotsOf, segArgs]
    exact (set_self _ _ _ hA).symm
  | a :: as, hwf, hnd, A, j, cls, ty, c, m, cur, l, hA, hdis => by
    simp only [wfArgs] at hwf
    simp only [keysOf, List.nodup_cons] at hnd
    have hj := lt_of_get hA
    by_cases hd : a.dropped = true
    · have h0 := dropped_cnt a hd
      have hrec := load_flatArgs as hwf.2 hnd.2 A j cls ty c m cur l hA
        (fun k hk => hdis k (by simp [keysOf, hk]))
      simpa [flatArgs, dropped_flatArg a j _ hd, h0, slotsOf, hd, segArgs, dropped_segArg a j _ hd] using hrec
    · have hd' : a.dropped = false := by simpa using hd
      have hka : a.key ∉ keysS cur := hdis a.key (by simp [keysOf])
      have hstep := load_flatArg a hwf.1 hd' A j cls ty c m cur l hA hka
      have hlen : (A.set j (.node cls ty c m (cur ++ [(a.key, a.slot A.length)]) l) ++ segArg a j A.length).length
          = A.length + a.cnt := by simp [segArg_length]
      have hget : (A.set j (.node cls ty c m (cur ++ [(a.key, a.slot A.length)]) l) ++ segArg a j A.length)[j]?
          = some (.node cls ty c m (cur ++ [(a.key, a.slot A.length)]) l) := get_set_append _ _ _ _ hj
      have hrec := load_flatArgs as hwf.2 hnd.2 _ j cls ty c m (cur ++ [(a.key, a.slot A.length)]) l hget
        (by
          intro k hk
          simp only [keysS, List.map_append, List.mem_append, List.map_cons, List.map_nil, List.mem_singleton, not_or]
          refine ⟨hdis k (by simp [keysOf, hk]), ?_⟩
          intro e; exact hnd.1 (e ▸ hk))
      rw [hlen] at hrec
      simp only [flatArgs, loadList_append, hstep, Option.bind_some, hrec]
      simp [slotsOf, hd', segArgs, List.set_append, hj]
theorem load_flatArg : ∀ (a : Arg), a.WF → a.dropped = false →
    ∀ (A : List Cell) (j : Nat) (cls : String) (ty : Option Val) (c : Comments) (m : Meta) (cur : Slots) (l : Option Link),
    A[j]? = some (.node cls ty c m cur l) → a.key ∉ keysS cur →
    loadList (flatArg a j A.length) A =
      some (A.set j (.node cls ty c m (cur ++ [(a.key, a.slot A.length)]) l) ++ segArg a j A.length)
  | .one k v, hwf, hd, A, j, cls, ty, c, m, cur, l, hA, hk => by
    have hn : v.isNull = false := by simpa [Arg.dropped] using hd
    have h := load_flat_val v hwf A j k false cls ty c m cur l hA
    simp only [Arg.key] at hk
    simpa [flatArg, hn, segArg, linkArgs, setKey_notin _ hk, Arg.key, Arg.slot] using h
  | .many k vs, hwf, hd, A, j, cls, ty, c, m, cur, l, hA, hk => by
    simp only [Arg.key] at hk
    cases vs with
    | nil => simp [Arg.dropped] at hd
    | cons v vs =>
      have h := load_flatVals (v :: vs) hwf A j k [] cls ty c m cur l hk (by simpa [withList] using hA)
      simpa [flatArg, segArg, Arg.key, Arg.slot, offsets, withList] using h
theorem load_flatVals : ∀ (vs : List Val), wfVals vs →
    ∀ (A : List Cell) (j : Nat) (k : String) (refs : List Nat) (cls : String) (ty : Option Val) (c : Comments)
      (m : Meta) (cur : Slots) (l : Option Link), k ∉ keysS cur →
    A[j]? = some (.node cls ty c m (withList cur k refs) l) →
    loadList (flatVals vs k j A.length) A =
      some (A.set j (.node cls ty c m (withList cur k (refs ++ offsets vs A.length)) l)
        ++ segVals vs k j refs.length A.length)
  | [], _, A, j, k, refs, cls, ty, c, m, cur, l, _, hA => by
    simp [flatVals, loadList, offsets, segVals]
    exact (set_self _ _ _ hA).symm
  | v :: vs, hwf, A, j, k, refs, cls, ty, c, m, cur, l, hk, hA => by
    simp only [wfVals] at hwf
    have hj := lt_of_get hA
    have hstep := load_flat_val v hwf.1 A j k true cls ty c m (withList cur k refs) l hA
    simp only [linkArgs, appendRef_withList refs A.length hk, if_true] at hstep
    have hlen : (A.set j (.node cls ty c m (withList cur k (refs ++ [A.length])) l)
        ++ seg v (some ⟨j, k, some refs.length⟩) A.length).length = A.length + v.cnt := by simp [seg_length]
    have hget : (A.set j (.node cls ty c m (withList cur k (refs ++ [A.length])) l)
        ++ seg v (some ⟨j, k, some refs.length⟩) A.length)[j]?
        = some (.node cls ty c m (withList cur k (refs ++ [A.length])) l) := get_set_append _ _ _ _ hj
    have hrec := load_flatVals vs hwf.2 _ j k (refs ++ [A.length]) cls ty c m cur l hk hget
    rw [hlen] at hrec
    simp only [flatVals, loadList_append, hstep, Option.bind_some, hrec]
    simp [offsets, segVals, List.set_append, hj]
end


/-! ## Part 3: `norm` is a projection that `dump` cannot see -/

theorem isNull_norm (v : Val) : v.norm.isNull = v.isNull := by
  cases v with
  | node => simp [Val.norm, Val.isNull]
  | dtype => simp [Val.norm]
  | raw r => simp [Val.norm]

theorem normVals_isEmpty (vs : List Val) : (normVals vs).isEmpty = vs.isEmpty := by
  cases vs <;> simp [normVals]

theorem dropped_norm (a : Arg) : a.norm.dropped = a.dropped := by
  cases a with
  | one k v => simp [Arg.norm, Arg.dropped, isNull_norm]
  | many k vs => simp [Arg.norm, Arg.dropped, normVals_isEmpty]

theorem normC_idem (c : Comments) : normC (normC c) = normC c := by
  cases c with
  | none => rfl
  | some l => cases l <;> rfl

mutual
theorem norm_idem : ∀ (v : Val), v.norm.norm = v.norm
  | .node cls ty c m args => by
    simp [Val.norm, normOpt_idem ty, normC_idem, normArgs_idem args]
  | .dtype _ => by simp [Val.norm]
  | .raw _ => by simp [Val.norm]
theorem normOpt_idem : ∀ (ty : Option Val), normOpt (normOpt ty) = normOpt ty
  | none => by simp [normOpt]
  | some v => by simp [normOpt, norm_idem v]
theorem normArgs_idem : ∀ (args : List Arg), normArgs (normArgs args) = normArgs args
  | [] => by simp [normArgs]
  | a :: as => by
    by_cases hd : a.dropped = true
    · simp [normArgs, hd, normArgs_idem as]
    · simp [normArgs, hd, dropped_norm, normArg_idem a, normArgs_idem as]
theorem normArg_idem : ∀ (a : Arg), a.norm.norm = a.norm
  | .one k v => by simp [Arg.norm, norm_idem v]
  | .many k vs => by simp [Arg.norm, normVals_idem vs]
theorem normVals_idem : ∀ (vs : List Val), normVals (normVals vs) = normVals vs
  | [] => by simp [normVals]
  | v :: vs => by simp [normVals, norm_idem v, normVals_idem vs]
end

mutual
theorem cnt_norm : ∀ (v : Val), v.norm.cnt = v.cnt
  | .node cls ty c m args => by simp [Val.norm, Val.cnt, cntArgs_norm args]
  | .dtype _ => by simp [Val.norm]
  | .raw _ => by simp [Val.norm]
theorem cntArgs_norm : ∀ (args : List Arg), cntArgs (normArgs args) = cntArgs args
  | [] => by simp [normArgs]
  | a :: as => by
    by_cases hd : a.dropped = true
    · simp [normArgs, hd, cntArgs, dropped_cnt a hd, cntArgs_norm as]
    · simp [normArgs, hd, cntArgs, cntArg_norm a, cntArgs_norm as]
theorem cntArg_norm : ∀ (a : Arg), a.norm.cnt = a.cnt
  | .one k v => by simp [Arg.norm, Arg.cnt, isNull_norm, cnt_norm v]
  | .many k vs => by simp [Arg.norm, Arg.cnt, cntVals_norm vs]
theorem cntVals_norm : ∀ (vs : List Val), cntVals (normVals vs) = cntVals vs
  | [] => by simp [normVals]
  | v :: vs => by simp [normVals, cntVals, cnt_norm v, cntVals_norm vs]
end

/- the payload list of a tree and of its normal form are the same list: what `norm` erases is exactly what `dump`
   does not write -/
mutual
theorem flat_norm : ∀ (v : Val) (e : Option Edge) (i : Nat), flat v.norm e i = flat v e i
  | .node cls ty c m args, e, i => by
    simp [Val.norm, flat, nodeP, normC_idem, flatTy_norm ty, flatArgs_norm args i (i + 1)]
  | .dtype _, _, _ => by simp [Val.norm]
  | .raw _, _, _ => by simp [Val.norm]
theorem flatTy_norm : ∀ (ty : Option Val), flatTy (normOpt ty) = flatTy ty
  | none => by simp [normOpt]
  | some v => by simp [normOpt, flatTy, flat_norm v none 0]
theorem flatArgs_norm : ∀ (args : List Arg) (p i : Nat), flatArgs (normArgs args) p i = flatArgs args p i
  | [], _, _ => by simp [normArgs]
  | a :: as, p, i => by
    by_cases hd : a.dropped = true
    · simp [normArgs, hd, flatArgs, dropped_flatArg a p i hd, dropped_cnt a hd, flatArgs_norm as p i]
    · simp [normArgs, hd, flatArgs, flatArg_norm a p i, cntArg_norm a, flatArgs_norm as p (i + a.cnt)]
theorem flatArg_norm : ∀ (a : Arg) (p i : Nat), flatArg a.norm p i = flatArg a p i
  | .one k v, p, i => by simp [Arg.norm, flatArg, isNull_norm, flat_norm v]
  | .many k vs, p, i => by simp [Arg.norm, flatArg, flatVals_norm vs k p i]
theorem flatVals_norm : ∀ (vs : List Val) (k : String) (p i : Nat), flatVals (normVals vs) k p i = flatVals vs k p i
  | [], _, _, _ => by simp [normVals]
  | v :: vs, k, p, i => by
    simp [normVals, flatVals, flat_norm v, cnt_norm v, flatVals_norm vs k p (i + v.cnt)]
end

end SqlglotModel.Serde
