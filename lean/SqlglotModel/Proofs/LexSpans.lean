/-
  Comment spans for C13: every region the tokenizer model records as "consumed by _scan_comment" starts with a comment
  start delimiter of the configuration.  Core Lean only.
-/
import SqlglotModel.Proofs.LexSkew

namespace SqlglotModel.Lex

/-- w's characters are the input's characters from offset a on -/
def Spells (sql : Sql) (a : Nat) (w : List Char) : Prop :=
  ∀ k, k < w.length → ∃ ch, sql[a + k]? = some ch ∧ w[k]? = some ch.c

/-- the region s was opened by a comment start delimiter w of the configuration (a line comment or a block comment), and —
    unless w contains a blank, in which case the trie walk folds whitespace — the input spells w at the start of the region -/
def SpanOK (cfg : Cfg) (sql : Sql) (s : Nat × Nat) : Prop :=
  ∃ w, (memS w cfg.lineComments = true ∨ (lookupS w cfg.comments).isSome = true) ∧
    ((∀ c ∈ w, c ≠ ' ') → Spells sql s.1 w)

/-- only current/line/col/skew/toks may differ -/
def Keep (st st' : St) : Prop := st'.spans = st.spans ∧ st'.start = st.start

theorem Keep.trans {a b c : St} (h1 : Keep a b) (h2 : Keep b c) : Keep a c :=
  ⟨h2.1.trans h1.1, h2.2.trans h1.2⟩

theorem advance_kp {sql : Sql} {st st' : St} {i : Nat} (h : advance sql st i = .ok st') : Keep st st' := by
  obtain ⟨_, _, he⟩ := advance_ok h
  subst he; exact ⟨rfl, rfl⟩

theorem advanceAlnum_kp {sql : Sql} {st st' : St} (h : advanceAlnum sql st = .ok st') : Keep st st' := by
  unfold advanceAlnum at h
  cases h1 : advance sql st 1 with
  | ok st1 =>
    rw [h1] at h
    simp only at h
    have k := advance_kp h1
    split at h
    · split at h
      · cases h; exact k
      · cases h; exact k
    · cases h; exact k
  | error c => rw [h1] at h; cases h
  | unsupported w => rw [h1] at h; cases h
  | fuel => rw [h1] at h; cases h

theorem add_kp {cfg : Cfg} {sql : Sql} {st st' : St} {ty : String} {text : Option (List Char)}
    (h : add cfg sql st ty text = .ok st') : Keep st st' := by
  unfold add at h
  split at h
  · cases h
  · cases h; exact ⟨rfl, rfl⟩

theorem advance2_kp {cfg : Cfg} {sql : Sql} {st st' : St} (h : advance2 cfg sql st = .ok st') : Keep st st' := by
  unfold advance2 at h
  split at h
  · obtain ⟨s, h1, h2⟩ := bind_ok h
    exact (advance_kp h1).trans (advance_kp h2)
  · exact advance_kp h

theorem stepN_kp {sql : Sql} : ∀ (n : Nat) (st st' : St), stepN sql n st = .ok st' → Keep st st' := by
  intro n
  induction n with
  | zero => intro st st' h; simp only [stepN] at h; cases h; exact ⟨rfl, rfl⟩
  | succ n ih =>
    intro st st' h
    simp only [stepN] at h
    obtain ⟨s, h1, h2⟩ := bind_ok h
    exact (advance_kp h1).trans (ih _ _ h2)

theorem advanceKw_kp {cfg : Cfg} {sql : Sql} {st st' : St} {n : Nat} (h : advanceKw cfg sql st n = .ok st') :
    Keep st st' := by
  unfold advanceKw at h
  split at h
  · cases h
  · split at h
    · exact stepN_kp _ _ _ h
    · exact advance_kp h

theorem fastString_kp {cfg : Cfg} {sql : Sql} {st st' : St} {x : XCfg} {t : List Char}
    (h : fastString cfg sql st x = some (st', t)) : Keep st st' := by
  unfold fastString at h
  split at h
  · split at h
    · cases h
    · split at h
      · cases h
      · injection h with h
        injection h with h _
        subst h; exact ⟨rfl, rfl⟩
  · cases h

theorem slowString_kp {cfg : Cfg} {sql : Sql} {x : XCfg} :
    ∀ (f : Nat) (st : St) (text : List Char) (r : St × List Char),
      slowString cfg sql x f st text = .ok r → Keep st r.1 := by
  intro f
  induction f with
  | zero => intro st text r h; simp only [slowString] at h; cases h
  | succ f ih =>
    intro st text r h
    simp only [slowString] at h
    split at h
    · obtain ⟨s, h1, h2⟩ := bind_ok h
      exact (advance2_kp h1).trans (ih _ _ _ h2)
    · split at h
      · split at h
        · obtain ⟨s, h1, h2⟩ := bind_ok h
          exact (advance2_kp h1).trans (ih _ _ _ h2)
        · cases h
      · split at h
        · split at h
          · obtain ⟨s, h1, h2⟩ := bind_ok h
            cases h2
            exact advance_kp h1
          · cases h; exact ⟨rfl, rfl⟩
        · split at h
          · cases h
          · obtain ⟨s, h1, h2⟩ := bind_ok h
            exact (advanceAlnum_kp h1).trans (ih _ _ _ h2)

theorem extractString_kp {cfg : Cfg} {sql : Sql} {x : XCfg} {st : St} {r : St × List Char}
    (h : extractString cfg sql st x = .ok r) : Keep st r.1 := by
  unfold extractString at h
  split at h
  · rename_i r' hf
    cases h
    obtain ⟨s, t⟩ := r
    exact fastString_kp hf
  · exact slowString_kp _ _ _ _ h

theorem litLoop_kp {cfg : Cfg} {sql : Sql} :
    ∀ (f : Nat) (st : St) (acc : List Ch) (r : St × List Ch), litLoop cfg sql f st acc = .ok r → Keep st r.1 := by
  intro f
  induction f with
  | zero => intro st acc r h; simp only [litLoop] at h; cases h
  | succ f ih =>
    intro st acc r h
    simp only [litLoop] at h
    split at h
    · split at h
      · obtain ⟨s, h1, h2⟩ := bind_ok h
        exact (advance_kp h1).trans (ih _ _ _ h2)
      · cases h; exact ⟨rfl, rfl⟩
    · cases h; exact ⟨rfl, rfl⟩

theorem retreat_kp {sql : Sql} {s s2 : St} {n : Nat} (h : retreat sql s n = .ok s2) : Keep s s2 := by
  obtain ⟨e1, _, e3, _⟩ := retreat_spec h
  exact ⟨e3, e1⟩

theorem finishNumber_kp {cfg : Cfg} {sql : Sql} {st st' : St} {us : Bool}
    (h : finishNumber cfg sql st us = .ok st') : Keep st st' := by
  unfold finishNumber at h; exact add_kp h

theorem numIdentTail_kp {cfg : Cfg} {sql : Sql} {st st' : St} {us : Bool}
    (h : numIdentTail cfg sql st us = .ok st') : Keep st st' := by
  unfold numIdentTail at h
  obtain ⟨r, h1, h2⟩ := bind_ok h
  have k1 := litLoop_kp _ _ _ _ h1
  split at h2
  · cases h2
  · split at h2
    · exact k1.trans (add_kp h2)
    · obtain ⟨s2, h3, h4⟩ := bind_ok h2
      exact (k1.trans (retreat_kp h3)).trans (finishNumber_kp h4)

theorem numLoop_kp {cfg : Cfg} {sql : Sql} :
    ∀ (f : Nat) (st st' : St) (dec : Bool) (sci : Nat) (us : Bool),
      numLoop cfg sql f st dec sci us = .ok st' → Keep st st' := by
  intro f
  induction f with
  | zero => intro st st' _ _ _ h; simp only [numLoop] at h; cases h
  | succ f ih =>
    intro st st' dec sci us h
    have step : ∀ {i : Nat} {d : Bool} {sc : Nat} {u : Bool},
        ((advance sql st i).bind fun s => numLoop cfg sql f s d sc u) = .ok st' → Keep st st' := by
      intro i d sc u h
      obtain ⟨s, h1, h2⟩ := bind_ok h
      exact (advance_kp h1).trans (ih _ _ _ _ _ h2)
    simp only [numLoop] at h
    split at h
    · exact finishNumber_kp h
    · split at h
      · exact step h
      · split at h
        · split at h
          · exact finishNumber_kp h
          · exact step h
        · split at h
          · split at h
            · exact step h
            · exact finishNumber_kp h
          · split at h
            · exact step h
            · split at h
              · exact step h
              · split at h
                · exact numIdentTail_kp h
                · exact finishNumber_kp h

theorem valueLoop_kp {cfg : Cfg} {sql : Sql} :
    ∀ (f : Nat) (st st' : St), valueLoop cfg sql f st = .ok st' → Keep st st' := by
  intro f
  induction f with
  | zero => intro st st' h; simp only [valueLoop] at h; cases h
  | succ f ih =>
    intro st st' h
    simp only [valueLoop] at h
    split at h
    · cases h; exact ⟨rfl, rfl⟩
    · split at h
      · obtain ⟨s, h1, h2⟩ := bind_ok h
        exact (advanceAlnum_kp h1).trans (ih _ _ h2)
      · cases h; exact ⟨rfl, rfl⟩

theorem radixAdd_kp {cfg : Cfg} {sql : Sql} {st st' : St} {base : Nat} {ty : String}
    (h : radixAdd cfg sql st base ty = .ok st') : Keep st st' := by
  unfold radixAdd at h
  split at h
  · cases h
  · exact add_kp h
  · exact add_kp h

theorem scanRadix_kp {cfg : Cfg} {sql : Sql} {st st' : St} {base : Nat} {ty : String}
    (h : scanRadix cfg sql st base ty = .ok st') : Keep st st' := by
  unfold scanRadix at h
  obtain ⟨s, h1, h2⟩ := bind_ok h
  obtain ⟨s2, h3, h4⟩ := bind_ok h2
  exact ((advance_kp h1).trans (valueLoop_kp _ _ _ h3)).trans (radixAdd_kp h4)

theorem scanNumber_kp {cfg : Cfg} {sql : Sql} {st st' : St} (h : scanNumber cfg sql st = .ok st') : Keep st st' := by
  unfold scanNumber at h
  split at h
  · split at h
    · exact scanRadix_kp h
    · exact add_kp h
  · split at h
    · split at h
      · exact scanRadix_kp h
      · exact add_kp h
    · exact numLoop_kp _ _ _ _ _ _ h

theorem varLoop_kp {cfg : Cfg} {sql : Sql} :
    ∀ (f : Nat) (st st' : St), varLoop cfg sql f st = .ok st' → Keep st st' := by
  intro f
  induction f with
  | zero => intro st st' h; simp only [varLoop] at h; cases h
  | succ f ih =>
    intro st st' h
    simp only [varLoop] at h
    split at h
    · cases h; exact ⟨rfl, rfl⟩
    · split at h
      · cases h; exact ⟨rfl, rfl⟩
      · split at h
        · cases h; exact ⟨rfl, rfl⟩
        · obtain ⟨s, h1, h2⟩ := bind_ok h
          exact (advanceAlnum_kp h1).trans (ih _ _ h2)

theorem scanVar_kp {cfg : Cfg} {sql : Sql} {st st' : St} (h : scanVar cfg sql st = .ok st') : Keep st st' := by
  unfold scanVar at h
  obtain ⟨s, h1, h2⟩ := bind_ok h
  exact (varLoop_kp _ _ _ h1).trans (add_kp h2)

theorem scanIdentifier_kp {cfg : Cfg} {sql : Sql} {st st' : St} {e : String}
    (h : scanIdentifier cfg sql st e = .ok st') : Keep st st' := by
  unfold scanIdentifier at h
  obtain ⟨s, h1, h2⟩ := bind_ok h
  obtain ⟨r, h3, h4⟩ := bind_ok h2
  exact ((advance_kp h1).trans (extractString_kp h3)).trans (add_kp h4)

theorem stringAdd_kp {cfg : Cfg} {sql : Sql} {st st' : St} {ty : String} {text : List Char}
    (h : stringAdd cfg sql st ty text = .ok st') : Keep st st' := by
  unfold stringAdd at h
  split at h
  · split at h
    · cases h
    · exact add_kp h
    · cases h
  · exact add_kp h

theorem stringBody_kp {cfg : Cfg} {sql : Sql} {st st' : St} {w : List Char} {e ty : String}
    (h : stringBody cfg sql st w e ty = .ok st') : Keep st st' := by
  unfold stringBody at h
  split at h
  · cases h
  · obtain ⟨s, h1, h2⟩ := bind_ok h
    obtain ⟨r, h3, h4⟩ := bind_ok h2
    exact ((advance_kp h1).trans (extractString_kp h3)).trans (stringAdd_kp h4)

theorem scanString_kp {cfg : Cfg} {sql : Sql} {st st' : St} {w : List Char} {res : Res St}
    (h : scanString cfg sql st w = some res) (hr : res = .ok st') : Keep st st' := by
  unfold scanString at h
  split at h
  · cases h; exact stringBody_kp hr
  · split at h
    · cases h; exact stringBody_kp hr
    · cases h

theorem lineCommentLoop_kp {sql : Sql} :
    ∀ (f : Nat) (st st' : St), lineCommentLoop sql f st = .ok st' → Keep st st' := by
  intro f
  induction f with
  | zero => intro st st' h; simp only [lineCommentLoop] at h; cases h
  | succ f ih =>
    intro st st' h
    simp only [lineCommentLoop] at h
    split at h
    · cases h; exact ⟨rfl, rfl⟩
    · split at h
      · cases h; exact ⟨rfl, rfl⟩
      · obtain ⟨s, h1, h2⟩ := bind_ok h
        exact (advanceAlnum_kp h1).trans (ih _ _ h2)

theorem commentLoop_kp {cfg : Cfg} {sql : Sql} {cs ce : List Char} :
    ∀ (f : Nat) (st st' : St) (count : Nat), commentLoop cfg sql cs ce f st count = .ok st' → Keep st st' := by
  intro f
  induction f with
  | zero => intro st st' c h; simp only [commentLoop] at h; cases h
  | succ f ih =>
    intro st st' c h
    simp only [commentLoop] at h
    split at h
    · cases h; exact ⟨rfl, rfl⟩
    · split at h
      · cases h; exact ⟨rfl, rfl⟩
      · obtain ⟨s, h1, h2⟩ := bind_ok h
        have k1 := advanceAlnum_kp h1
        split at h2
        · obtain ⟨s2, h3, h4⟩ := bind_ok h2
          exact (k1.trans (advance_kp h3)).trans (ih _ _ _ h4)
        · exact k1.trans (ih _ _ _ h2)

/-- `finishComment` appends exactly one span, which starts at `_start` -/
theorem finishComment_span {cfg : Cfg} {sql : Sql} {st st' : St} {w : List Char}
    (h : finishComment cfg sql st w = .ok st') :
    st'.spans = st.spans ++ [(st.start, st.current - 1)] ∧ st'.start = st.start := by
  unfold finishComment at h
  split at h
  · have := add_kp h
    exact ⟨this.1, this.2⟩
  · cases h; exact ⟨rfl, rfl⟩

theorem scanComment_span {cfg : Cfg} {sql : Sql} {st st' : St} {w : List Char} {res : Res St}
    (h : scanComment cfg sql st w = some res) (hr : res = .ok st') :
    (memS w cfg.lineComments = true ∨ (lookupS w cfg.comments).isSome = true) ∧
    ∃ b, st'.spans = st.spans ++ [(st.start, b)] ∧ st'.start = st.start := by
  unfold scanComment at h
  split at h
  · rename_i hm
    cases h
    obtain ⟨s, h1, h2⟩ := bind_ok hr
    have k1 := lineCommentLoop_kp _ _ _ h1
    obtain ⟨f1, f2⟩ := finishComment_span h2
    exact ⟨Or.inl hm, _, by rw [f1, k1.1, k1.2], by rw [f2, k1.2]⟩
  · split at h
    · rename_i e hl
      cases h
      obtain ⟨s, h1, h2⟩ := bind_ok hr
      obtain ⟨s2, h3, h4⟩ := bind_ok h2
      obtain ⟨s3, h5, h6⟩ := bind_ok h4
      have k3 : Keep s2 s3 := by
        split at h5
        · exact advance_kp h5
        · cases h5; exact ⟨rfl, rfl⟩
      have k := ((advance_kp h1).trans (commentLoop_kp _ _ _ _ h3)).trans k3
      obtain ⟨f1, f2⟩ := finishComment_span h6
      exact ⟨Or.inr (by rw [hl]; rfl), _, by rw [f1, k.1, k.2], by rw [f2, k.2]⟩
    · cases h

theorem kwAdd_kp {cfg : Cfg} {sql : Sql} {st st' : St} {w : List Char} (h : kwAdd cfg sql st w = .ok st') :
    Keep st st' := by
  unfold kwAdd at h
  split at h
  · exact add_kp h
  · cases h

theorem kwFallback_kp {cfg : Cfg} {sql : Sql} {st st' : St} {c0 : Char} (h : kwFallback cfg sql st c0 = .ok st') :
    Keep st st' := by
  unfold kwFallback at h
  split at h
  · exact add_kp h
  · exact scanVar_kp h

def SpansOK (cfg : Cfg) (sql : Sql) (st : St) : Prop := ∀ s ∈ st.spans, SpanOK cfg sql s

theorem SpansOK.keep {cfg : Cfg} {sql : Sql} {st st' : St} (h : SpansOK cfg sql st) (k : Keep st st') :
    SpansOK cfg sql st' := by
  intro s hs; rw [k.1] at hs; exact h s hs

theorem scanWord_spans {cfg : Cfg} {sql : Sql} {st st' : St} {c0 : Char} {r : KwR} {w : List Char}
    (hone : st.current = st.start + 1) (hraw : RawOK sql st.current w) (hS : SpansOK cfg sql st)
    (h : scanWord cfg sql st c0 r w = .ok st') : SpansOK cfg sql st' := by
  unfold scanWord at h
  split at h
  · rename_i res hres
    exact hS.keep (scanString_kp hres h)
  · split at h
    · rename_i res hres
      obtain ⟨hkey, b, hsp, _⟩ := scanComment_span hres h
      intro s hs
      rw [hsp] at hs
      rcases List.mem_append.1 hs with hs | hs
      · exact hS s hs
      · have : s = (st.start, b) := by simpa using hs
        subst this
        refine ⟨w, hkey, ?_⟩
        intro hns k hk
        obtain ⟨ch, hg, _, hc⟩ := hraw hns k hk
        have e : st.current - 1 + k = st.start + k := by omega
        rw [e] at hg
        exact ⟨ch, hg, hc⟩
    · split at h
      · split at h
        · exact hS.keep (kwAdd_kp h)
        · obtain ⟨s, h1, h2⟩ := bind_ok h
          exact hS.keep ((advanceKw_kp h1).trans (kwAdd_kp h2))
      · exact hS.keep (kwFallback_kp h)

theorem scanKeywords_spans {cfg : Cfg} {sql : Sql} (hW : WF sql) {st st' : St} {ch : Ch}
    (hone : st.current = st.start + 1) (hch : char sql st = some ch) (hsp : ch.space = false)
    (hS : SpansOK cfg sql st) (h : scanKeywords cfg sql st = .ok st') : SpansOK cfg sql st' := by
  unfold scanKeywords at h
  rw [hch] at h
  simp only at h
  obtain ⟨hc1, hget⟩ := char_get hch
  split at h
  · rename_i w hw
    refine scanWord_spans hone ?_ hS h
    unfold kwResult at hw
    refine kwLoop_raw hW _ _ _ _ _ _ _ _ _ ?_ (by intro h; cases h) (by intro w h; cases h) hc1 w hw
    intro _
    refine ⟨rfl, ?_⟩
    intro k hk
    simp only [List.length_singleton] at hk
    have : k = 0 := by omega
    subst this
    exact ⟨ch, by simpa using hget, hsp, rfl⟩
  · exact hS.keep (kwFallback_kp h)

theorem dispatch_spans {cfg : Cfg} {sql : Sql} (hW : WF sql) {s st' : St} {ch : Ch}
    (hone : s.current = s.start + 1) (hch : char sql s = some ch) (hS : SpansOK cfg sql s)
    (h : dispatch cfg sql s ch = .ok st') : SpansOK cfg sql st' := by
  unfold dispatch at h
  split at h
  · cases h; exact hS
  · rename_i hsp
    have hsp' : ch.space = false := by cases h : ch.space <;> simp_all
    split at h
    · exact hS.keep (scanNumber_kp h)
    · split at h
      · exact hS.keep (scanIdentifier_kp h)
      · exact scanKeywords_spans hW hone hch hsp' hS h

theorem scanStep_spans {cfg : Cfg} {sql : Sql} (hW : WF sql) {st st' : St}
    (hS : SpansOK cfg sql st) (h : scanStep cfg sql st = .ok st') : SpansOK cfg sql st' := by
  unfold scanStep at h
  obtain ⟨s, h1, h2⟩ := bind_ok h
  obtain ⟨fw, hcur, _⟩ := advance_fw h1
  have hS1 : SpansOK cfg sql s := by intro x hx; rw [fw.spans_eq] at hx; exact hS x hx
  simp only at hcur
  split at h2
  · cases h2
  · rename_i ch hch
    by_cases hbl : blankEnd sql st > st.current
    · -- the cursor stands on the last blank: nothing is scanned in this iteration
      obtain ⟨_, _, b3⟩ := skipBlanks_spec sql (sql.size - st.current) st.current
      have hoffv : stepOff sql st = blankEnd sql st - st.current := by simp [stepOff, hbl]
      have hscur : s.current = blankEnd sql st := by rw [hcur, hoffv]; omega
      obtain ⟨chb, hgetb, hblank⟩ := b3 (blankEnd sql st - 1) (by unfold blankEnd at hbl ⊢; omega) (by unfold blankEnd at hbl ⊢; omega)
      obtain ⟨_, hget⟩ := char_get hch
      rw [hscur, hgetb] at hget
      have hceq : chb = ch := Option.some.inj hget
      have hsp : ch.space = true := by
        rw [← hceq]; exact (hW _ _ hgetb).1 (by rcases hblank with h | h <;> simp [h])
      unfold dispatch at h2
      simp only [hsp, if_true] at h2
      cases h2; exact hS1
    · have hoffv : stepOff sql st = 1 := by simp [stepOff, hbl]
      obtain ⟨b1, _, _⟩ := skipBlanks_spec sql (sql.size - st.current) st.current
      have hbe : blankEnd sql st = st.current := by unfold blankEnd at hbl ⊢; omega
      have hone : s.current = s.start + 1 := by
        have := fw.start_eq; simp only at this; rw [this, hcur, hoffv, hbe]
      exact dispatch_spans hW hone hch hS1 h2

theorem scanLoop_spans {cfg : Cfg} {sql : Sql} (hW : WF sql) :
    ∀ (f : Nat) (st st' : St), SpansOK cfg sql st → scanLoop cfg sql f st = .ok st' → SpansOK cfg sql st' := by
  intro f
  induction f with
  | zero => intro st st' _ h; simp only [scanLoop] at h; cases h
  | succ f ih =>
    intro st st' hS h
    simp only [scanLoop] at h
    split at h
    · cases h; exact hS
    · obtain ⟨s, h1, h2⟩ := bind_ok h
      exact ih _ _ (scanStep_spans hW hS h1) h2

theorem lex_spans {cfg : Cfg} {sql : Sql} (hW : WF sql) {st : St} (h : lex cfg sql = .ok st) :
    SpansOK cfg sql st := by
  unfold lex at h
  exact scanLoop_spans hW _ _ _ (by intro s hs; cases hs) h

end SqlglotModel.Lex
