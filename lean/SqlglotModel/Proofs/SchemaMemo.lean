/- Helper lemmas for C18: memo tables never change an answer when the key determines the result. -/
import SqlglotModel.Model.SchemaMemo

namespace SqlglotModel.Schema
open SqlglotModel.Ident

theorem lookup_dictSet {α β} [DecidableEq α] (l : List (α × β)) (a : α) (b : β) (k : α) :
    lookup (dictSet l a b) k = if a = k then some b else lookup l k := by
  induction l with
  | nil => simp [dictSet, lookup]
  | cons x xs ih =>
    obtain ⟨k', v'⟩ := x
    by_cases h : k' = a
    · subst h; simp only [dictSet, if_true, lookup]; split <;> rfl
    · simp only [dictSet, h, if_false, lookup, ih]
      by_cases h2 : k' = k
      · subst h2; simp [Ne.symm h]
      · simp [h2]

/-- the memo invariant: every stored entry equals the uncached value of every input that maps to its key -/
def MemoInv {ι κ β} [DecidableEq κ] (key : ι → κ) (g : ι → β) (m : List (κ × β)) : Prop :=
  ∀ k v, lookup m k = some v → ∀ y, key y = k → g y = v

theorem memoInv_nil {ι κ β} [DecidableEq κ] (key : ι → κ) (g : ι → β) : MemoInv key g ([] : List (κ × β)) := by
  intro k v h; simp [lookup] at h

section
variable {ι κ β : Type} [DecidableEq κ] (key : ι → κ) (storeKey : ι → β → κ) (consult : ι → Bool) (g : ι → β)
  (truthy : β → Bool)

theorem memoCall_snd (m : List (κ × β)) (hm : MemoInv key g m) (x : ι) :
    (memoCall key storeKey consult g truthy m x).2 = g x := by
  unfold memoCall
  cases hc : consult x
  · simp
  · simp only [if_true]
    cases hl : lookup m (key x) with
    | none => simp
    | some v =>
      simp only
      split
      · exact (hm _ _ hl x rfl).symm
      · rfl

theorem memoCall_inv (hstore : ∀ x y, key y = storeKey x (g x) → g y = g x)
    (m : List (κ × β)) (hm : MemoInv key g m) (x : ι) :
    MemoInv key g (memoCall key storeKey consult g truthy m x).1 := by
  have hset : MemoInv key g (dictSet m (storeKey x (g x)) (g x)) := by
    intro k v hk y hy
    rw [lookup_dictSet] at hk
    split at hk
    · rename_i e
      injection hk with hk
      subst hk
      exact hstore x y (by rw [hy, e])
    · exact hm k v hk y hy
  unfold memoCall
  split
  · split
    · exact hm
    · exact hset
  · exact hset

theorem memoRun_inv (hstore : ∀ x y, key y = storeKey x (g x) → g y = g x)
    (m : List (κ × β)) (hm : MemoInv key g m) (xs : List ι) :
    MemoInv key g (memoRun key storeKey consult g truthy m xs) := by
  induction xs generalizing m with
  | nil => simpa [memoRun] using hm
  | cons x xs ih =>
    simpa [memoRun] using ih _ (memoCall_inv key storeKey consult g truthy hstore m hm x)
end

theorem covers_mem {α} [DecidableEq α] {layout reads : List α} (h : covers layout reads = true) :
    ∀ r ∈ reads, r ∈ layout := by
  intro r hr
  simp only [covers, List.all_eq_true] at h
  simpa using h r hr

/-- equal keys agree on every field of the layout -/
theorem key_fields {ι φ} (proj : φ → ι → FVal) (layout : List φ) (x y : ι)
    (h : layout.map (fun fld => proj fld x) = layout.map (fun fld => proj fld y)) :
    ∀ fld ∈ layout, proj fld x = proj fld y := by
  induction layout with
  | nil => intro fld hf; cases hf
  | cons a as ih =>
    simp only [List.map_cons, List.cons.injEq] at h
    intro fld hf
    cases hf with
    | head => exact h.1
    | tail _ hf => exact ih h.2 fld hf

/-- `normalize_identifier` is idempotent (needs only `lower ∘ lower = lower`, `upper ∘ upper = upper`) -/
theorem normIdent_idem (f : CaseFns) (hf : f.Ok) (d : Dia) (isT : Bool) (i : Ident) :
    normIdent f d isT (normIdent f d isT i) = normIdent f d isT i := by
  obtain ⟨n, q⟩ := i
  obtain ⟨st, ts⟩ := d
  cases ts <;> cases st <;> cases q <;> cases isT <;>
    simp [normIdent, normalize, folds, foldsUpper, hf.lower_idem, hf.upper_idem]

theorem normTable_idem (f : CaseFns) (hf : f.Ok) (d : Dia) (norm : Bool) (t : List Ident) :
    normTable f d norm (normTable f d norm t) = normTable f d norm t := by
  cases norm
  · simp [normTable]
  · simp [normTable, List.map_map, Function.comp_def, normIdent_idem f hf]

end SqlglotModel.Schema
