/- Helper lemmas for the format-string scanner model (C05). Core Lean only. -/
import SqlglotModel.Model.FormatScan

namespace SqlglotModel.FormatScan

theorem specAt_safe (spec : Char → Bool) (s : List Char) (j : Nat) (k : Unit → R) (hj : j < s.length)
    (hk : k () = .found ∨ k () = .notFound) : specAt spec s j k = .found ∨ specAt spec s j k = .notFound := by
  unfold specAt
  rw [List.getElem?_eq_getElem hj]
  simp only
  split
  · exact Or.inl rfl
  · exact hk

/-- the guarded walk never indexes out of range and needs at most `length - i + 1` iterations -/
theorem walkGuarded_safe (spec : Char → Bool) (s : List Char) :
    ∀ (fuel i : Nat), s.length - i < fuel →
      walkGuarded spec s fuel i = .found ∨ walkGuarded spec s fuel i = .notFound := by
  intro fuel
  induction fuel with
  | zero => intro i h; omega
  | succ fuel ih =>
    intro i hf
    unfold walkGuarded
    split
    · rename_i hlt
      rw [List.getElem?_eq_getElem hlt]
      simp only
      split
      · split
        · rename_i h1
          exact specAt_safe spec s (i + 1) _ h1 (ih (i + 2) (by omega))
        · exact ih (i + 2) (by omega)
      · exact ih (i + 1) (by omega)
    · exact Or.inr rfl

end SqlglotModel.FormatScan
