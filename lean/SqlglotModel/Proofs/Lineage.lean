/-
C17 — helper lemmas: the fuel-free fixed-point equation of `flow`, the cache invariant, and the refinement
`to_node (cached or not) = flow` by induction on fuel with open recursion.
-/
import SqlglotModel.Model.Lineage

namespace SqlglotModel.Lineage

/-! ### `flow` does not depend on fuel: fixed-point equation -/

theorem guard_congr {k i : Nat} {a b : List Leaf} (h : i < k → a = b) : guard k i a = guard k i b := by
  unfold guard
  split
  · exact h ‹_›
  · rfl

theorem flowCol_congr {r1 r2 : Nat → Col → List Leaf} {k : Nat} (h : ∀ i c, i < k → r1 i c = r2 i c)
    (srcs : List (String × Src)) : flowCol r1 k srcs = flowCol r2 k srcs := by
  funext tc
  unfold flowCol
  split
  · rfl
  · exact guard_congr (fun hi => h _ _ hi)
  · rfl

theorem flowSubq_congr {r1 r2 : Nat → Col → List Leaf} {k : Nat} (h : ∀ i c, i < k → r1 i c = r2 i c) :
    flowSubq r1 k = flowSubq r2 k := by
  funext sq
  unfold flowSubq
  congr 1
  funext n
  exact guard_congr (fun hi => h _ _ hi)

theorem flowStep_congr {r1 r2 : Nat → Col → List Leaf} {k : Nat} (h : ∀ i c, i < k → r1 i c = r2 i c)
    (sc : LScope) (c : Col) : flowStep r1 k sc c = flowStep r2 k sc c := by
  cases sc with
  | select projs fb srcs =>
    simp only [flowStep]
    rw [flowCol_congr h, flowSubq_congr h]
  | union op l r names =>
    simp only [flowStep]
    split
    · rfl
    · rw [guard_congr (fun hi => h l _ hi), guard_congr (fun hi => h r _ hi)]
  | wrap i =>
    simp only [flowStep]
    exact guard_congr (fun hi => h _ _ hi)

theorem flowF_stable (scopes : List LScope) :
    ∀ f1 f2 k c, k < f1 → k < f2 → flowF f1 scopes k c = flowF f2 scopes k c := by
  intro f1
  induction f1 with
  | zero => intro f2 k c h; omega
  | succ f1 ih =>
    intro f2 k c h1 h2
    cases f2 with
    | zero => omega
    | succ f2 =>
      simp only [flowF]
      split
      · rfl
      · exact flowStep_congr (fun i c hi => ih f2 i c (by omega) (by omega)) _ _

theorem lookupSrc_map (g : Src → Src) (t : String) (srcs : List (String × Src)) :
    lookupSrc t (srcs.map fun as => (as.1, g as.2)) = (lookupSrc t srcs).map g := by
  induction srcs with
  | nil => rfl
  | cons x xs ih =>
    obtain ⟨a, s⟩ := x
    simp only [List.map, lookupSrc]
    split
    · rfl
    · exact ih

theorem flowCol_erase (rec : Nat → Col → List Leaf) (k : Nat) (srcs : List (String × Src)) :
    flowCol rec k (srcs.map fun as => (as.1, as.2.erase)) = flowCol rec k srcs := by
  funext tc
  unfold flowCol
  rw [lookupSrc_map]
  cases lookupSrc tc.1 srcs with
  | none => rfl
  | some s => cases s <;> rfl

theorem flowStep_erase (rec : Nat → Col → List Leaf) (k : Nat) (sc : LScope) (c : Col) :
    flowStep rec k sc.erase c = flowStep rec k sc c := by
  cases sc with
  | select projs fb srcs => simp only [LScope.erase, flowStep, flowCol_erase]
  | union op l r names => rfl
  | wrap i => rfl

/-- the fuel-free characterisation of `flow` -/
theorem flow_eq (scopes : List LScope) (k : Nat) (c : Col) :
    flow scopes k c =
      match scopes[k]? with
      | none => [errLeaf]
      | some sc => flowStep (flow scopes) k sc c := by
  have hL : flow scopes k c = flowF (k + 1) (scopes.map LScope.erase) k c := rfl
  rw [hL]
  simp only [flowF, List.getElem?_map]
  cases scopes[k]? with
  | none => rfl
  | some sc =>
    simp only [Option.map]
    rw [flowStep_erase]
    exact flowStep_congr (fun i c hi => flowF_stable _ k (i + 1) i c hi (by omega)) _ _

/-- `flow` only sees the erased scopes -/
theorem flow_of_erase_eq {s1 s2 : List LScope} (h : s1.map LScope.erase = s2.map LScope.erase) :
    flow s1 = flow s2 := by
  funext k c
  unfold flow
  rw [h]

/-! ### cache invariant and the refinement -/

/-- every cache entry holds the flow of the (scope, column) its key names -/
def Inv (cfg : Cfg) (scopes : List LScope) (cache : Cache) : Prop :=
  cfg.useCache = true →
    ∀ kv ∈ cache, ∀ c s, kv.1.col = some c → kv.1.scope = some s → kv.2.leaves = flow scopes s c

/-- the key contains the column and the scope -/
def KeyOk (cfg : Cfg) : Prop :=
  cfg.useCache = true → KeyComp.column ∈ cfg.comps ∧ KeyComp.scope ∈ cfg.comps

def RecSpec (cfg : Cfg) (scopes : List LScope) (k : Nat) (rec : Rec) : Prop :=
  ∀ a cache, a.scope < k → Inv cfg scopes cache →
    (rec a cache).1.leaves = flow scopes a.scope a.col ∧ Inv cfg scopes (rec a cache).2

theorem inv_nil (cfg : Cfg) (scopes : List LScope) : Inv cfg scopes [] := by
  intro _ kv hkv
  cases hkv

theorem find_mem {key : Key} {cache : Cache} {v : Res} (h : Cache.find key cache = some v) : (key, v) ∈ cache := by
  induction cache with
  | nil => simp [Cache.find] at h
  | cons x xs ih =>
    obtain ⟨k, w⟩ := x
    simp only [Cache.find] at h
    split at h
    · cases h
      subst_vars
      exact List.mem_cons_self
    · exact List.mem_cons_of_mem _ (ih h)

theorem inv_insert {cfg : Cfg} {scopes : List LScope} {cache : Cache} (hk : KeyOk cfg) (a : Args) (v : Res)
    (b : Bool) (hinv : Inv cfg scopes cache) (hv : v.leaves = flow scopes a.scope a.col) :
    Inv cfg scopes (insertIf b (cacheKey cfg.comps a) v cache) := by
  unfold insertIf
  split
  · intro hu kv hkv c s hc hs
    rcases List.mem_cons.mp hkv with rfl | hmem
    · obtain ⟨h1, h2⟩ := hk hu
      simp only [cacheKey, h1, h2, if_true, Option.some.injEq] at hc hs
      subst hc hs
      exact hv
    · exact hinv hu kv hmem c s hc hs
  · exact hinv

theorem callGuard_spec {cfg : Cfg} {scopes : List LScope} {k : Nat} {rec : Rec} (hrec : RecSpec cfg scopes k rec)
    (a : Args) (cache : Cache) (hinv : Inv cfg scopes cache) :
    (callGuard rec k a cache).1.leaves = guard k a.scope (flow scopes a.scope a.col) ∧
      Inv cfg scopes (callGuard rec k a cache).2 := by
  unfold callGuard guard
  split
  · exact hrec a cache ‹_› hinv
  · exact ⟨rfl, hinv⟩

theorem colOne_spec {cfg : Cfg} {scopes : List LScope} {k : Nat} {rec : Rec} (hrec : RecSpec cfg scopes k rec)
    (srcs : List (String × Src)) (a : Args) (tc : String × String) (cache : Cache) (hinv : Inv cfg scopes cache) :
    (colOne rec k srcs a tc cache).1 = flowCol (flow scopes) k srcs tc ∧
      Inv cfg scopes (colOne rec k srcs a tc cache).2 := by
  unfold colOne flowCol
  split
  · exact ⟨rfl, hinv⟩
  · exact callGuard_spec hrec _ cache hinv
  · exact ⟨rfl, hinv⟩

theorem colsLoop_spec {cfg : Cfg} {scopes : List LScope} {k : Nat} {rec : Rec} (hrec : RecSpec cfg scopes k rec)
    (srcs : List (String × Src)) (a : Args) (cols : List (String × String)) :
    ∀ cache, Inv cfg scopes cache →
      (colsLoop rec k srcs a cols cache).1 = cols.flatMap (flowCol (flow scopes) k srcs) ∧
        Inv cfg scopes (colsLoop rec k srcs a cols cache).2 := by
  induction cols with
  | nil => intro cache hinv; exact ⟨rfl, hinv⟩
  | cons tc rest ih =>
    intro cache hinv
    obtain ⟨h1, h2⟩ := colOne_spec hrec srcs a tc cache hinv
    obtain ⟨h3, h4⟩ := ih _ h2
    simp only [colsLoop, List.flatMap_cons]
    exact ⟨by rw [h1, h3], h4⟩

theorem namesLoop_spec {cfg : Cfg} {scopes : List LScope} {k : Nat} {rec : Rec} (hrec : RecSpec cfg scopes k rec)
    (i : Nat) (names : List String) :
    ∀ cache, Inv cfg scopes cache →
      (namesLoop rec k i names cache).1 = names.flatMap (fun n => guard k i (flow scopes i (.name n))) ∧
        Inv cfg scopes (namesLoop rec k i names cache).2 := by
  induction names with
  | nil => intro cache hinv; exact ⟨rfl, hinv⟩
  | cons n rest ih =>
    intro cache hinv
    obtain ⟨h1, h2⟩ := callGuard_spec hrec
      { col := .name n, scope := i, scopeName := none, hasUp := true, sourceName := none, refName := none } cache hinv
    obtain ⟨h3, h4⟩ := ih _ h2
    simp only [namesLoop, List.flatMap_cons]
    exact ⟨by rw [h1, h3], h4⟩

theorem subqsLoop_spec {cfg : Cfg} {scopes : List LScope} {k : Nat} {rec : Rec} (hrec : RecSpec cfg scopes k rec)
    (subqs : List (Nat × List String)) :
    ∀ cache, Inv cfg scopes cache →
      (subqsLoop rec k subqs cache).1 = subqs.flatMap (flowSubq (flow scopes) k) ∧
        Inv cfg scopes (subqsLoop rec k subqs cache).2 := by
  induction subqs with
  | nil => intro cache hinv; exact ⟨rfl, hinv⟩
  | cons sq rest ih =>
    intro cache hinv
    obtain ⟨h1, h2⟩ := namesLoop_spec hrec sq.1 sq.2 cache hinv
    obtain ⟨h3, h4⟩ := ih _ h2
    simp only [subqsLoop, List.flatMap_cons]
    exact ⟨by rw [h1, h3]; rfl, h4⟩

theorem stepBody_spec {cfg : Cfg} {scopes : List LScope} {rec : Rec} (hk : KeyOk cfg) (a : Args)
    (hrec : RecSpec cfg scopes a.scope rec) (cache : Cache) (hinv : Inv cfg scopes cache) :
    (stepBody cfg scopes rec a cache (cacheKey cfg.comps a)).1.leaves = flow scopes a.scope a.col ∧
      Inv cfg scopes (stepBody cfg scopes rec a cache (cacheKey cfg.comps a)).2 := by
  rw [flow_eq]
  unfold stepBody
  cases hsc : scopes[a.scope]? with
  | none => exact ⟨rfl, hinv⟩
  | some sc =>
    have hfl : flow scopes a.scope a.col = flowStep (flow scopes) a.scope sc a.col := by
      rw [flow_eq, hsc]
    cases sc with
    | wrap i =>
      simp only [flowStep] at hfl ⊢
      obtain ⟨h1, h2⟩ := callGuard_spec hrec { a with scope := i, scopeName := none } cache hinv
      simp only [stepWrap]
      refine ⟨h1, ?_⟩
      exact inv_insert hk a _ _ h2 (by rw [hfl]; exact h1)
    | union op l r names =>
      simp only [flowStep] at hfl ⊢
      simp only [stepUnion]
      cases hix : unionIdx names a.col with
      | none => exact ⟨rfl, hinv⟩
      | some ix =>
        simp only [hix] at hfl
        obtain ⟨h1, h2⟩ := callGuard_spec hrec
          { col := .idx ix, scope := l, scopeName := none, hasUp := true, sourceName := a.sourceName,
            refName := a.refName } cache hinv
        obtain ⟨h3, h4⟩ := callGuard_spec hrec
          { col := .idx ix, scope := r, scopeName := none, hasUp := true, sourceName := a.sourceName,
            refName := a.refName } _ h2
        simp only
        have hl : ∀ (x y : List Leaf), x = guard a.scope l (flow scopes l (.idx ix)) →
            y = guard a.scope r (flow scopes r (.idx ix)) →
            x ++ y = guard a.scope l (flow scopes l (.idx ix)) ++ guard a.scope r (flow scopes r (.idx ix)) := by
          intro x y hx hy; rw [hx, hy]
        refine ⟨hl _ _ h1 h3, ?_⟩
        exact inv_insert hk a _ _ h4 (by rw [hfl]; exact hl _ _ h1 h3)
    | select projs fb srcs =>
      simp only [flowStep] at hfl ⊢
      simp only [stepSelect]
      cases hp : pickProj projs fb a.col with
      | none => exact ⟨rfl, hinv⟩
      | some p =>
        simp only [hp] at hfl
        obtain ⟨h1, h2⟩ := subqsLoop_spec hrec p.subqs cache hinv
        obtain ⟨h3, h4⟩ := colsLoop_spec hrec srcs a p.cols _ h2
        simp only
        refine ⟨by rw [h1, h3], ?_⟩
        exact inv_insert hk a _ _ h4 (by rw [hfl, h1, h3])

theorem step_spec {cfg : Cfg} {scopes : List LScope} {rec : Rec} (hk : KeyOk cfg) (a : Args)
    (hrec : RecSpec cfg scopes a.scope rec) (cache : Cache) (hinv : Inv cfg scopes cache) :
    (step cfg scopes rec a cache).1.leaves = flow scopes a.scope a.col ∧
      Inv cfg scopes (step cfg scopes rec a cache).2 := by
  unfold step
  cases hget : cacheGet cfg (cacheKey cfg.comps a) cache with
  | some v =>
    refine ⟨?_, hinv⟩
    unfold cacheGet at hget
    split at hget
    · rename_i hu
      obtain ⟨h1, h2⟩ := hk hu
      have := hinv hu _ (find_mem hget) a.col a.scope (by simp [cacheKey, h1]) (by simp [cacheKey, h2])
      exact this
    · cases hget
  | none => exact stepBody_spec hk a hrec cache hinv

theorem recSpec_mono {cfg : Cfg} {scopes : List LScope} {k k' : Nat} {rec : Rec} (h : k' ≤ k)
    (hrec : RecSpec cfg scopes k rec) : RecSpec cfg scopes k' rec :=
  fun a cache ha hinv => hrec a cache (by omega) hinv

/-- main refinement: with a key that contains column and scope, `to_node` (cached or not) returns the flow and
    keeps the cache invariant -/
theorem toNode_spec {cfg : Cfg} (scopes : List LScope) (hk : KeyOk cfg) :
    ∀ f, RecSpec cfg scopes f (toNode cfg scopes f) := by
  intro f
  induction f with
  | zero => intro a cache ha; omega
  | succ f ih =>
    intro a cache ha hinv
    simp only [toNode]
    exact step_spec hk a (recSpec_mono (by omega) ih) cache hinv

theorem keyOk_uncached (comps : List KeyComp) : KeyOk ⟨comps, false⟩ := by
  intro h; cases h

theorem inv_uncached (comps : List KeyComp) (scopes : List LScope) (cache : Cache) : Inv ⟨comps, false⟩ scopes cache := by
  intro h; cases h

/-! ### `flow` is invariant under the rewritings -/

theorem erase_eraseCte (sc : LScope) : sc.eraseCte.erase = sc.erase := by
  cases sc with
  | select projs fb srcs =>
    simp only [LScope.eraseCte, LScope.erase, List.map_map]
    congr 1
    apply List.map_congr_left
    intro as _
    obtain ⟨a, s⟩ := as
    cases s <;> rfl
  | union op l r names => rfl
  | wrap i => rfl

theorem erase_eraseTag (sc : LScope) : sc.eraseTag.erase = sc.erase := by
  cases sc with
  | select projs fb srcs =>
    simp only [LScope.eraseTag, LScope.erase, List.map_map]
    congr 1
    apply List.map_congr_left
    intro as _
    obtain ⟨a, s⟩ := as
    cases s <;> rfl
  | union op l r names => rfl
  | wrap i => rfl

theorem flow_of_eraseCte_eq {s1 s2 : List LScope} (h : s1.map LScope.eraseCte = s2.map LScope.eraseCte) :
    flow s1 = flow s2 := by
  apply flow_of_erase_eq
  have := congrArg (List.map LScope.erase) h
  simpa only [List.map_map, Function.comp_def, erase_eraseCte] using this

theorem flow_of_eraseTag_eq {s1 s2 : List LScope} (h : s1.map LScope.eraseTag = s2.map LScope.eraseTag) :
    flow s1 = flow s2 := by
  apply flow_of_erase_eq
  have := congrArg (List.map LScope.erase) h
  simpa only [List.map_map, Function.comp_def, erase_eraseTag] using this

/-! alias renaming -/

theorem lookupSrc_rename {ρ : String → String} (hρ : ∀ x y, ρ x = ρ y → x = y) (t : String)
    (srcs : List (String × Src)) :
    lookupSrc (ρ t) (srcs.map fun as => (ρ as.1, as.2.rename ρ)) = (lookupSrc t srcs).map (Src.rename ρ) := by
  induction srcs with
  | nil => rfl
  | cons x xs ih =>
    obtain ⟨a, s⟩ := x
    simp only [List.map, lookupSrc]
    by_cases h : a = t
    · simp [h]
    · have : ρ a ≠ ρ t := fun e => h (hρ _ _ e)
      simp [h, this, ih]

theorem findProj_rename (ρ : String → String) (n : String) (projs : List Proj) :
    findProj n (projs.map (Proj.rename ρ)) = (findProj n projs).map (Proj.rename ρ) := by
  induction projs with
  | nil => rfl
  | cons p ps ih =>
    simp only [List.map, findProj, Proj.rename]
    split
    · rfl
    · exact ih

theorem pickProj_rename (ρ : String → String) (projs : List Proj) (fb : Proj) (c : Col) :
    pickProj (projs.map (Proj.rename ρ)) (fb.rename ρ) c = (pickProj projs fb c).map (Proj.rename ρ) := by
  cases c with
  | idx i => simp [pickProj]
  | name n =>
    simp only [pickProj, findProj_rename, Option.map]
    cases findProj n projs <;> rfl

theorem flowCol_rename {ρ : String → String} (hρ : ∀ x y, ρ x = ρ y → x = y) (rec : Nat → Col → List Leaf) (k : Nat)
    (srcs : List (String × Src)) (tc : String × String) :
    flowCol rec k (srcs.map fun as => (ρ as.1, as.2.rename ρ)) (ρ tc.1, tc.2) = flowCol rec k srcs tc := by
  unfold flowCol
  simp only [lookupSrc_rename hρ]
  cases lookupSrc tc.1 srcs with
  | none => rfl
  | some s => cases s <;> rfl

theorem flowStep_rename {ρ : String → String} (hρ : ∀ x y, ρ x = ρ y → x = y) (rec : Nat → Col → List Leaf) (k : Nat)
    (sc : LScope) (c : Col) : flowStep rec k (sc.rename ρ) c = flowStep rec k sc c := by
  cases sc with
  | select projs fb srcs =>
    simp only [LScope.rename, flowStep, pickProj_rename]
    cases pickProj projs fb c with
    | none => rfl
    | some p =>
      simp only [Option.map, Proj.rename, List.flatMap_map]
      congr 2
      funext tc
      exact flowCol_rename hρ rec k srcs tc
  | union op l r names => rfl
  | wrap i => rfl

theorem flowF_rename {ρ : String → String} (hρ : ∀ x y, ρ x = ρ y → x = y) (scopes : List LScope) :
    ∀ f k c, flowF f ((scopes.map (LScope.rename ρ)).map LScope.erase) k c = flowF f (scopes.map LScope.erase) k c := by
  intro f
  induction f with
  | zero => intro k c; rfl
  | succ f ih =>
    intro k c
    simp only [flowF, List.getElem?_map]
    cases scopes[k]? with
    | none => rfl
    | some sc =>
      simp only [Option.map]
      rw [flowStep_erase, flowStep_erase, flowStep_rename hρ]
      exact flowStep_congr (fun i c _ => ih i c) _ _

theorem flow_rename {ρ : String → String} (hρ : ∀ x y, ρ x = ρ y → x = y) (scopes : List LScope) :
    flow (scopes.map (LScope.rename ρ)) = flow scopes := by
  funext k c
  exact flowF_rename hρ scopes _ k c


/-! alias renaming, per scope: `ρs k` renames scope `k` and is injective on the names that scope mentions -/

def InjOn (ρ : String → String) (l : List String) : Prop := ∀ x ∈ l, ∀ y ∈ l, ρ x = ρ y → x = y

theorem lookupSrc_rename_on {ρ : String → String} (t : String) (srcs : List (String × Src))
    (h : ∀ a ∈ srcs.map (·.1), ρ a = ρ t → a = t) :
    lookupSrc (ρ t) (srcs.map fun as => (ρ as.1, as.2.rename ρ)) = (lookupSrc t srcs).map (Src.rename ρ) := by
  induction srcs with
  | nil => rfl
  | cons x xs ih =>
    obtain ⟨a, s⟩ := x
    simp only [List.map, lookupSrc]
    have ih' := ih (fun b hb => h b (List.mem_cons_of_mem _ hb))
    by_cases hat : a = t
    · simp [hat]
    · have : ρ a ≠ ρ t := fun e => hat (h a List.mem_cons_self e)
      simp [hat, this, ih']

theorem flowCol_rename_on {ρ : String → String} (rec : Nat → Col → List Leaf) (k : Nat)
    (srcs : List (String × Src)) (tc : String × String) (h : ∀ a ∈ srcs.map (·.1), ρ a = ρ tc.1 → a = tc.1) :
    flowCol rec k (srcs.map fun as => (ρ as.1, as.2.rename ρ)) (ρ tc.1, tc.2) = flowCol rec k srcs tc := by
  unfold flowCol
  simp only [lookupSrc_rename_on tc.1 srcs h]
  cases lookupSrc tc.1 srcs with
  | none => rfl
  | some s => cases s <;> rfl

theorem flatMap_congr_mem {α β : Type} {f g : α → List β} (l : List α) (h : ∀ x ∈ l, f x = g x) :
    l.flatMap f = l.flatMap g := by
  induction l with
  | nil => rfl
  | cons x xs ih =>
    simp only [List.flatMap_cons]
    rw [h x List.mem_cons_self, ih (fun y hy => h y (List.mem_cons_of_mem _ hy))]

theorem findProj_mem {n : String} {projs : List Proj} {p : Proj} (h : findProj n projs = some p) : p ∈ projs := by
  induction projs with
  | nil => simp [findProj] at h
  | cons q qs ih =>
    simp only [findProj] at h
    split at h
    · cases h; exact List.mem_cons_self
    · exact List.mem_cons_of_mem _ (ih h)

theorem pickProj_mem {projs : List Proj} {fb p : Proj} {c : Col} (h : pickProj projs fb c = some p) :
    p ∈ projs ∨ p = fb := by
  cases c with
  | idx i =>
    simp only [pickProj] at h
    exact Or.inl (List.mem_of_getElem? h)
  | name n =>
    simp only [pickProj, Option.some.injEq] at h
    cases hf : findProj n projs with
    | none => rw [hf] at h; exact Or.inr h.symm
    | some q => rw [hf] at h; simp at h; subst h; exact Or.inl (findProj_mem hf)

theorem flowStep_rename_on {ρ : String → String} (rec : Nat → Col → List Leaf) (k : Nat) (sc : LScope) (c : Col)
    (hρ : InjOn ρ sc.names) : flowStep rec k (sc.rename ρ) c = flowStep rec k sc c := by
  cases sc with
  | select projs fb srcs =>
    simp only [LScope.rename, flowStep, pickProj_rename]
    cases hp : pickProj projs fb c with
    | none => rfl
    | some p =>
      simp only [Option.map, Proj.rename, List.flatMap_map]
      congr 1
      apply flatMap_congr_mem
      intro tc htc
      apply flowCol_rename_on
      intro a ha e
      have hq : tc.1 ∈ (LScope.select projs fb srcs).names := by
        simp only [LScope.names, List.mem_append, List.mem_flatMap, List.mem_map]
        rcases pickProj_mem hp with hm | rfl
        · exact Or.inl (Or.inr ⟨p, hm, tc, htc, rfl⟩)
        · exact Or.inr ⟨tc, htc, rfl⟩
      have ha' : a ∈ (LScope.select projs fb srcs).names := by
        simp only [LScope.names, List.mem_append]
        exact Or.inl (Or.inl ha)
      exact hρ a ha' tc.1 hq e
  | union op l r names => rfl
  | wrap i => rfl

theorem getElem?_renameScopes (ρs : Nat → String → String) (scopes : List LScope) (k : Nat) :
    (renameScopes ρs scopes)[k]? = scopes[k]?.map (LScope.rename (ρs k)) := by
  simp [renameScopes, List.getElem?_mapIdx]

theorem flowF_renameScopes (ρs : Nat → String → String) (scopes : List LScope)
    (hρ : ∀ k sc, scopes[k]? = some sc → InjOn (ρs k) sc.names) :
    ∀ f k c, flowF f ((renameScopes ρs scopes).map LScope.erase) k c = flowF f (scopes.map LScope.erase) k c := by
  intro f
  induction f with
  | zero => intro k c; rfl
  | succ f ih =>
    intro k c
    simp only [flowF, List.getElem?_map, getElem?_renameScopes]
    cases hsc : scopes[k]? with
    | none => rfl
    | some sc =>
      simp only [Option.map]
      rw [flowStep_erase, flowStep_erase, flowStep_rename_on _ _ _ _ (hρ k sc hsc)]
      exact flowStep_congr (fun i c _ => ih i c) _ _

theorem flow_renameScopes (ρs : Nat → String → String) (scopes : List LScope)
    (hρ : ∀ k sc, scopes[k]? = some sc → InjOn (ρs k) sc.names) :
    flow (renameScopes ρs scopes) = flow scopes := by
  funext k c
  exact flowF_renameScopes ρs scopes hρ _ k c

theorem renameScopes_const (ρ : String → String) (scopes : List LScope) :
    renameScopes (fun _ => ρ) scopes = scopes.map (LScope.rename ρ) := by
  apply List.ext_getElem?
  intro k
  rw [getElem?_renameScopes, List.getElem?_map]


/-! ### `expand` vs inlining by hand: the same scopes up to the `source:` tags (simulation over the instantiation) -/

/-- two output lists that agree up to tags -/
def TagRel (o1 o2 : List LScope) : Prop := o1.map LScope.eraseTag = o2.map LScope.eraseTag

def RecSim (r1 r2 : RecDef) : Prop :=
  ∀ d o1 o2, TagRel o1 o2 → TagRel (r1 d o1).1 (r2 d o2).1 ∧ (r1 d o1).2 = (r2 d o2).2

theorem tagRel_length {o1 o2 : List LScope} (h : TagRel o1 o2) : o1.length = o2.length := by
  have := congrArg List.length h
  simpa using this

def eraseTagPair (as : String × Src) : String × Src := (as.1, as.2.eraseTag)

theorem expSrc_sim {mk1 mk2 : String → Option String} {al : AliasFn} {r1 r2 : RecDef} (hr : RecSim r1 r2) (look : Look)
    (cx : FragCtx) (m : List Nat) (as : String × Src) (o1 o2 : List LScope) (h : TagRel o1 o2) :
    eraseTagPair (expSrc mk1 al r1 look cx m as o1).1 = eraseTagPair (expSrc mk2 al r2 look cx m as o2).1 ∧
      TagRel (expSrc mk1 al r1 look cx m as o1).2 (expSrc mk2 al r2 look cx m as o2).2 := by
  obtain ⟨a, s⟩ := as
  cases s with
  | scope i c r t => exact ⟨rfl, h⟩
  | table n =>
    simp only [expSrc]
    cases look n with
    | none => exact ⟨rfl, h⟩
    | some d =>
      obtain ⟨h1, h2⟩ := hr d o1 o2 h
      refine ⟨?_, h1⟩
      simp only [eraseTagPair, Src.eraseTag, h2]

theorem expSrcs_sim {mk1 mk2 : String → Option String} {al : AliasFn} {r1 r2 : RecDef} (hr : RecSim r1 r2) (look : Look)
    (cx : FragCtx) (m : List Nat) (srcs : List (String × Src)) :
    ∀ o1 o2, TagRel o1 o2 →
      (expSrcs mk1 al r1 look cx m srcs o1).1.map eraseTagPair = (expSrcs mk2 al r2 look cx m srcs o2).1.map eraseTagPair ∧
        TagRel (expSrcs mk1 al r1 look cx m srcs o1).2 (expSrcs mk2 al r2 look cx m srcs o2).2 := by
  induction srcs with
  | nil => intro o1 o2 h; exact ⟨rfl, h⟩
  | cons as rest ih =>
    intro o1 o2 h
    obtain ⟨h1, h2⟩ := expSrc_sim (mk1 := mk1) (mk2 := mk2) (al := al) hr look cx m as o1 o2 h
    obtain ⟨h3, h4⟩ := ih _ _ h2
    simp only [expSrcs, List.map_cons]
    exact ⟨by rw [h1, h3], h4⟩

theorem expScope_sim {mk1 mk2 : String → Option String} {al : AliasFn} {r1 r2 : RecDef} (hr : RecSim r1 r2) (look : Look)
    (cx : FragCtx) (m : List Nat) (sc : LScope) (o1 o2 : List LScope) (h : TagRel o1 o2) :
    (expScope mk1 al r1 look cx m sc o1).1.eraseTag = (expScope mk2 al r2 look cx m sc o2).1.eraseTag ∧
      TagRel (expScope mk1 al r1 look cx m sc o1).2 (expScope mk2 al r2 look cx m sc o2).2 := by
  cases sc with
  | select projs fb srcs =>
    obtain ⟨h1, h2⟩ := expSrcs_sim (mk1 := mk1) (mk2 := mk2) (al := al) hr look cx m srcs o1 o2 h
    refine ⟨?_, h2⟩
    simp only [expScope, LScope.eraseTag]
    congr 1
  | union op l r names => exact ⟨rfl, h⟩
  | wrap i => exact ⟨rfl, h⟩

theorem expFrag_sim {mk1 mk2 : String → Option String} {al : AliasFn} {r1 r2 : RecDef} (hr : RecSim r1 r2) (look : Look)
    (implicit : List (Nat × String)) (frag : List LScope) :
    ∀ m o1 o2, TagRel o1 o2 →
      TagRel (expFrag mk1 al r1 look implicit frag m o1).1 (expFrag mk2 al r2 look implicit frag m o2).1 ∧
        (expFrag mk1 al r1 look implicit frag m o1).2 = (expFrag mk2 al r2 look implicit frag m o2).2 := by
  induction frag with
  | nil =>
    intro m o1 o2 h
    simp only [expFrag]
    exact ⟨h, by rw [tagRel_length h]⟩
  | cons sc rest ih =>
    intro m o1 o2 h
    obtain ⟨h1, h2⟩ := expScope_sim (mk1 := mk1) (mk2 := mk2) (al := al) hr look ⟨implicit, m.length⟩ m sc o1 o2 h
    simp only [expFrag]
    rw [tagRel_length h2]
    apply ih
    unfold TagRel at h2 ⊢
    simp only [List.map_append, List.map_cons, List.map_nil, h1, h2]

theorem expandF_sim (mk1 mk2 : String → Option String) (al : AliasFn) (look : Look) :
    ∀ f, RecSim (expandF mk1 al look f) (expandF mk2 al look f) := by
  intro f
  induction f with
  | zero =>
    intro d o1 o2 h
    simp only [expandF]
    refine ⟨?_, tagRel_length h⟩
    unfold TagRel at h ⊢
    simp only [List.map_append, h]
  | succ f ih =>
    intro d o1 o2 h
    simp only [expandF]
    exact expFrag_sim ih look d.implicit d.scopes [] o1 o2 h

/-- `expand` and hand-inlining produce the same scopes up to tags, and the same root (any alias rule) -/
theorem expandQA_sim (mk1 mk2 : String → Option String) (al : AliasFn) (look : Look) (fuel : Nat)
    (implicit : List (Nat × String)) (main : List LScope) :
    (expandQA mk1 al look fuel implicit main).1.map LScope.eraseTag =
        (expandQA mk2 al look fuel implicit main).1.map LScope.eraseTag ∧
      (expandQA mk1 al look fuel implicit main).2 = (expandQA mk2 al look fuel implicit main).2 :=
  expFrag_sim (expandF_sim mk1 mk2 al look fuel) look implicit main [] [] [] rfl

theorem expandQ_sim (mk1 mk2 : String → Option String) (look : Look) (fuel : Nat) (main : List LScope) :
    (expandQ mk1 look fuel main).1.map LScope.eraseTag = (expandQ mk2 look fuel main).1.map LScope.eraseTag ∧
      (expandQ mk1 look fuel main).2 = (expandQ mk2 look fuel main).2 :=
  expandQA_sim mk1 mk2 keepAlias look fuel [] main

/-! keys normalised once -/

theorem findKeyed_sound {k : String} {defs : List SrcDef} {d : SrcDef}
    (h : findKeyed k defs = some d) : d.name = k ∧ d ∈ defs := by
  induction defs with
  | nil => simp [findKeyed] at h
  | cons x xs ih =>
    simp only [findKeyed] at h
    cases hr : findKeyed k xs with
    | some d' =>
      rw [hr] at h
      simp only [Option.some.injEq] at h
      subst h
      exact ⟨(ih hr).1, List.mem_cons_of_mem _ (ih hr).2⟩
    | none =>
      rw [hr] at h
      simp only at h
      split at h
      · rename_i hk
        simp only [Option.some.injEq] at h
        subst h
        exact ⟨hk, List.mem_cons_self⟩
      · cases h

theorem findKeyed_complete {k : String} {defs : List SrcDef} (h : ∃ d ∈ defs, d.name = k) :
    ∃ d, findKeyed k defs = some d := by
  induction defs with
  | nil => obtain ⟨_, h, _⟩ := h; cases h
  | cons x xs ih =>
    simp only [findKeyed]
    cases hr : findKeyed k xs with
    | some d' => exact ⟨d', rfl⟩
    | none =>
      obtain ⟨d, hm, hk⟩ := h
      rcases List.mem_cons.mp hm with heq | hm'
      · subst heq
        simp [hk]
      · obtain ⟨d2, hd⟩ := ih ⟨d, hm', hk⟩
        rw [hr] at hd
        cases hd


/-! lexical CTE visibility -/

theorem parentEnvAt_copies (E : CteEnv) (sibs : List CteEnv) (i : Nat) : parentEnvAt true E sibs i = E := by
  induction sibs generalizing i with
  | nil => cases i <;> rfl
  | cons own rest ih =>
    cases i with
    | zero => rfl
    | succ i =>
      simp only [parentEnvAt, afterChild, Bool.true_or, if_true]
      exact ih i


/-! memo in front of normKey -/

open SqlglotModel.Ident in
/-- every entry holds what normKey answers for ANY strategy its key stands for -/
def MemoOk (hs : Bool) (f : CaseFns) (memo : NormMemo) : Prop :=
  ∀ kv ∈ memo, ∀ (cls : String) (s : Strategy) (parts : List Ident),
    kv.1 = memoKey hs parts cls s → kv.2 = normKey f s parts

theorem memoFind_mem {k : MemoKey} {memo : NormMemo} {v : String} (h : memoFind k memo = some v) : (k, v) ∈ memo := by
  induction memo with
  | nil => simp [memoFind] at h
  | cons x xs ih =>
    obtain ⟨k', w⟩ := x
    simp only [memoFind] at h
    split at h
    · cases h; subst_vars; exact List.mem_cons_self
    · exact List.mem_cons_of_mem _ (ih h)

open SqlglotModel.Ident in
/-- the key determines the answer: it contains the settings, or normalisation does not depend on them -/
def KeyDetermines (hs : Bool) (f : CaseFns) : Prop :=
  hs = true ∨ ∀ (s s' : Strategy) (p : List Ident), normKey f s p = normKey f s' p

open SqlglotModel.Ident in
theorem normKeyMemo_sound {hs : Bool} {f : CaseFns} (hk : KeyDetermines hs f) (cls : String) (s : Strategy)
    (parts : List Ident) (memo : NormMemo) (hm : MemoOk hs f memo) :
    (normKeyMemo hs f cls s parts memo).1 = normKey f s parts ∧ MemoOk hs f (normKeyMemo hs f cls s parts memo).2 := by
  unfold normKeyMemo
  cases hf : memoFind (memoKey hs parts cls s) memo with
  | some v => exact ⟨hm _ (memoFind_mem hf) cls s parts rfl, hm⟩
  | none =>
    refine ⟨rfl, ?_⟩
    intro kv hkv cls' s' parts' hkey
    rcases List.mem_cons.mp hkv with rfl | hmem
    · simp only [memoKey, MemoKey.mk.injEq] at hkey
      obtain ⟨hp, _, hs'⟩ := hkey
      subst hp
      rcases hk with h | h
      · subst h
        simp only [if_true, Option.some.injEq] at hs'
        subst hs'
        rfl
      · exact h _ _ _
    · exact hm kv hmem cls' s' parts' hkey

open SqlglotModel.Ident in
theorem runNormMemo_sound {hs : Bool} {f : CaseFns} (hk : KeyDetermines hs f)
    (calls : List (String × Strategy × List Ident)) :
    ∀ memo, MemoOk hs f memo → runNormMemo hs f calls memo = calls.map fun c => normKey f c.2.1 c.2.2 := by
  induction calls with
  | nil => intro _ _; rfl
  | cons c rest ih =>
    intro memo hm
    obtain ⟨cls, s, parts⟩ := c
    obtain ⟨h1, h2⟩ := normKeyMemo_sound hk cls s parts memo hm
    simp only [runNormMemo, List.map_cons]
    rw [h1, ih _ h2]

end SqlglotModel.Lineage
