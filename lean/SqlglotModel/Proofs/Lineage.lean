/-
C17 — helper lemmas: the fuel-free fixed-point equation of `flow`, the cache invariant, and the refinement
`to_node (cached or not) = flow` by induction on fuel with open recursion.
-/
import SqlglotModel.Model.Lineage

namespace SqlglotModel.Lineage

/-! ### `flow` does not depend on fuel: fixed-point equation -/

theorem guard_congr {k i : Nat} {a b : List Leaf} (h : i < k → a = b) : guard k i a = guard k i b := by
  unfold guard
  split
  · exact h ‹_›
  · rfl

theorem flowCol_congr {r1 r2 : Nat → Col → List Leaf} {k : Nat} (h : ∀ i c, i < k → r1 i c = r2 i c)
    (srcs : List (String × Src)) : flowCol r1 k srcs = flowCol r2 k srcs := by
  funext tc
  unfold flowCol
  split
  · rfl
  · exact guard_congr (fun hi => h _ _ hi)
  · rfl

theorem flowSubq_congr {r1 r2 : Nat → Col → List Leaf} {k : Nat} (h : ∀ i c, i < k → r1 i c = r2 i c) :
    flowSubq r1 k = flowSubq r2 k := by
  funext sq
  unfold flowSubq
  congr 1
  funext n
  exact guard_congr (fun hi => h _ _ hi)

theorem flowStep_congr {r1 r2 : Nat → Col → List Leaf} {k : Nat} (h : ∀ i c, i < k → r1 i c = r2 i c)
    (sc : LScope) (c : Col) : flowStep r1 k sc c = flowStep r2 k sc c := by
  cases sc with
  | select projs fb srcs =>
    simp only [flowStep]
    rw [flowCol_congr h, flowSubq_congr h]
  | union op l r names =>
    simp only [flowStep]
    split
    · rfl
    · rw [guard_congr (fun hi => h l _ hi), guard_congr (fun hi => h r _ hi)]
  | wrap i =>
    simp only [flowStep]
    exact guard_congr (fun hi => h _ _ hi)

theorem flowF_stable (scopes : List LScope) :
    ∀ f1 f2 k c, k < f1 → k < f2 → flowF f1 scopes k c = flowF f2 scopes k c := by
  intro f1
  induction f1 with
  | zero => intro f2 k c h; omega
  | succ f1 ih =>
    intro f2 k c h1 h2
    cases f2 with
    | zero => omega
    | succ f2 =>
      simp only [flowF]
      split
      · rfl
      · exact flowStep_congr (fun i c hi => ih f2 i c (by omega) (by omega)) _ _

theorem lookupSrc_map (g : Src → Src) (t : String) (srcs : List (String × Src)) :
    lookupSrc t (srcs.map fun as => (as.1, g as.2)) = (lookupSrc t srcs).map g := by
  induction srcs with
  | nil => rfl
  | cons x xs ih =>
    obtain ⟨a, s⟩ := x
    simp only [List.map, lookupSrc]
    split
    · rfl
    · exact ih

theorem flowCol_erase (rec : Nat → Col → List Leaf) (k : Nat) (srcs : List (String × Src)) :
    flowCol rec k (srcs.map fun as => (as.1, as.2.erase)) = flowCol rec k srcs := by
  funext tc
  unfold flowCol
  rw [lookupSrc_map]
  cases lookupSrc tc.1 srcs with
  | none => rfl
  | some s => cases s <;> rfl

theorem flowStep_erase (rec : Nat → Col → List Leaf) (k : Nat) (sc : LScope) (c : Col) :
    flowStep rec k sc.erase c = flowStep rec k sc c := by
  cases sc with
  | select projs fb srcs => simp only [LScope.erase, flowStep, flowCol_erase]
  | union op l r names => rfl
  | wrap i => rfl

/-- the fuel-free characterisation of `flow` -/
theorem flow_eq (scopes : List LScope) (k : Nat) (c : Col) :
    flow scopes k c =
      match scopes[k]? with
      | none => [errLeaf]
      | some sc => flowStep (flow scopes) k sc c := by
  have hL : flow scopes k c = flowF (k + 1) (scopes.map LScope.erase) k c := rfl
  rw [hL]
  simp only [flowF, List.getElem?_map]
  cases scopes[k]? with
  | none => rfl
  | some sc =>
    simp only [Option.map]
    rw [flowStep_erase]
    exact flowStep_congr (fun i c hi => flowF_stable _ k (i + 1) i c hi (by omega)) _ _

/-- `flow` only sees the erased scopes -/
theorem flow_of_erase_eq {s1 s2 : List LScope} (h : s1.map LScope.erase = s2.map LScope.erase) :
    flow s1 = flow s2 := by
  funext k c
  unfold flow
  rw [h]

/-! ### cache invariant and the refinement -/

/-- every cache entry holds the flow of the (scope, column) its key names -/
def Inv (cfg : Cfg) (scopes : List LScope) (cache : Cache) : Prop :=
  cfg.useCache = true →
    ∀ kv ∈ cache, ∀ c s, kv.1.col = some c → kv.1.scope = some s → kv.2.leaves = flow scopes s c

/-- the key contains the column and the scope -/
def KeyOk (cfg : Cfg) : Prop :=
  cfg.useCache = true → KeyComp.column ∈ cfg.comps ∧ KeyComp.scope ∈ cfg.comps

def RecSpec (cfg : Cfg) (scopes : List LScope) (k : Nat) (rec : Rec) : Prop :=
  ∀ a cache, a.scope < k → Inv cfg scopes cache →
    (rec a cache).1.leaves = flow scopes a.scope a.col ∧ Inv cfg scopes (rec a cache).2

theorem inv_nil (cfg : Cfg) (scopes : List LScope) : Inv cfg scopes [] := by
  intro _ kv hkv
  cases hkv

theorem find_mem {key : Key} {cache : Cache} {v : Res} (h : Cache.find key cache = some v) : (key, v) ∈ cache := by
  induction cache with
  | nil => simp [Cache.find] at h
  | cons x xs ih =>
    obtain ⟨k, w⟩ := x
    simp only [Cache.find] at h
    split at h
    · cases h
      subst_vars
      exact List.mem_cons_self
    · exact List.mem_cons_of_mem _ (ih h)

theorem inv_insert {cfg : Cfg} {scopes : List LScope} {cache : Cache} (hk : KeyOk cfg) (a : Args) (v : Res)
    (b : Bool) (hinv : Inv cfg scopes cache) (hv : v.leaves = flow scopes a.scope a.col) :
    Inv cfg scopes (insertIf b (cacheKey cfg.comps a) v cache) := by
  unfold insertIf
  split
  · intro hu kv hkv c s hc hs
    rcases List.mem_cons.mp hkv with rfl | hmem
    · obtain ⟨h1, h2⟩ := hk hu
      simp only [cacheKey, h1, h2, if_true, Option.some.injEq] at hc hs
      subst hc hs
      exact hv
    · exact hinv hu kv hmem c s hc hs
  · exact hinv

theorem callGuard_spec {cfg : Cfg} {scopes : List LScope} {k : Nat} {rec : Rec} (hrec : RecSpec cfg scopes k rec)
    (a : Args) (cache : Cache) (hinv : Inv cfg scopes cache) :
    (callGuard rec k a cache).1.leaves = guard k a.scope (flow scopes a.scope a.col) ∧
      Inv cfg scopes (callGuard rec k a cache).2 := by
  unfold callGuard guard
  split
  · exact hrec a cache ‹_› hinv
  · exact ⟨rfl, hinv⟩

theorem colOne_spec {cfg : Cfg} {scopes : List LScope} {k : Nat} {rec : Rec} (hrec : RecSpec cfg scopes k rec)
    (srcs : List (String × Src)) (a : Args) (tc : String × String) (cache : Cache) (hinv : Inv cfg scopes cache) :
    (colOne rec k srcs a tc cache).1 = flowCol (flow scopes) k srcs tc ∧
      Inv cfg scopes (colOne rec k srcs a tc cache).2 := by
  unfold colOne flowCol
  split
  · exact ⟨rfl, hinv⟩
  · exact callGuard_spec hrec _ cache hinv
  · exact ⟨rfl, hinv⟩

theorem colsLoop_spec {cfg : Cfg} {scopes : List LScope} {k : Nat} {rec : Rec} (hrec : RecSpec cfg scopes k rec)
    (srcs : List (String × Src)) (a : Args) (cols : List (String × String)) :
    ∀ cache, Inv cfg scopes cache →
      (colsLoop rec k srcs a cols cache).1 = cols.flatMap (flowCol (flow scopes) k srcs) ∧
        Inv cfg scopes (colsLoop rec k srcs a cols cache).2 := by
  induction cols with
  | nil => intro cache hinv; exact ⟨rfl, hinv⟩
  | cons tc rest ih =>
    intro cache hinv
    obtain ⟨h1, h2⟩ := colOne_spec hrec srcs a tc cache hinv
    obtain ⟨h3, h4⟩ := ih _ h2
    simp only [colsLoop, List.flatMap_cons]
    exact ⟨by rw [h1, h3], h4⟩

theorem namesLoop_spec {cfg : Cfg} {scopes : List LScope} {k : Nat} {rec : Rec} (hrec : RecSpec cfg scopes k rec)
    (i : Nat) (names : List String) :
    ∀ cache, Inv cfg scopes cache →
      (namesLoop rec k i names cache).1 = names.flatMap (fun n => guard k i (flow scopes i (.name n))) ∧
        Inv cfg scopes (namesLoop rec k i names cache).2 := by
  induction names with
  | nil => intro cache hinv; exact ⟨rfl, hinv⟩
  | cons n rest ih =>
    intro cache hinv
    obtain ⟨h1, h2⟩ := callGuard_spec hrec
      { col := .name n, scope := i, scopeName := none, hasUp := true, sourceName := none, refName := none } cache hinv
    obtain ⟨h3, h4⟩ := ih _ h2
    simp only [namesLoop, List.flatMap_cons]
    exact ⟨by rw [h1, h3], h4⟩

theorem subqsLoop_spec {cfg : Cfg} {scopes : List LScope} {k : Nat} {rec : Rec} (hrec : RecSpec cfg scopes k rec)
    (subqs : List (Nat × List String)) :
    ∀ cache, Inv cfg scopes cache →
      (subqsLoop rec k subqs cache).1 = subqs.flatMap (flowSubq (flow scopes) k) ∧
        Inv cfg scopes (subqsLoop rec k subqs cache).2 := by
  induction subqs with
  | nil => intro cache hinv; exact ⟨rfl, hinv⟩
  | cons sq rest ih =>
    intro cache hinv
    obtain ⟨h1, h2⟩ := namesLoop_spec hrec sq.1 sq.2 cache hinv
    obtain ⟨h3, h4⟩ := ih _ h2
    simp only [subqsLoop, List.flatMap_cons]
    exact ⟨by rw [h1, h3]; rfl, h4⟩

theorem stepBody_spec {cfg : Cfg} {scopes : List LScope} {rec : Rec} (hk : KeyOk cfg) (a : Args)
    (hrec : RecSpec cfg scopes a.scope rec) (cache : Cache) (hinv : Inv cfg scopes cache) :
    (stepBody cfg scopes rec a cache (cacheKey cfg.comps a)).1.leaves = flow scopes a.scope a.col ∧
      Inv cfg scopes (stepBody cfg scopes rec a cache (cacheKey cfg.comps a)).2 := by
  rw [flow_eq]
  unfold stepBody
  cases hsc : scopes[a.scope]? with
  | none => exact ⟨rfl, hinv⟩
  | some sc =>
    have hfl : flow scopes a.scope a.col = flowStep (flow scopes) a.scope sc a.col := by
      rw [flow_eq, hsc]
    cases sc with
    | wrap i =>
      simp only [flowStep] at hfl ⊢
      obtain ⟨h1, h2⟩ := callGuard_spec hrec { a with scope := i, scopeName := none } cache hinv
      simp only [stepWrap]
      refine ⟨h1, ?_⟩
      exact inv_insert hk a _ _ h2 (by rw [hfl]; exact h1)
    | union op l r names =>
      simp only [flowStep] at hfl ⊢
      simp only [stepUnion]
      cases hix : unionIdx names a.col with
      | none => exact ⟨rfl, hinv⟩
      | some ix =>
        simp only [hix] at hfl
        obtain ⟨h1, h2⟩ := callGuard_spec hrec
          { col := .idx ix, scope := l, scopeName := none, hasUp := true, sourceName := a.sourceName,
            refName := a.refName } cache hinv
        obtain ⟨h3, h4⟩ := callGuard_spec hrec
          { col := .idx ix, scope := r, scopeName := none, hasUp := true, sourceName := a.sourceName,
            refName := a.refName } _ h2
        simp only
        have hl : ∀ (x y : List Leaf), x = guard a.scope l (flow scopes l (.idx ix)) →
            y = guard a.scope r (flow scopes r (.idx ix)) →
            x ++ y = guard a.scope l (flow scopes l (.idx ix)) ++ guard a.scope r (flow scopes r (.idx ix)) := by
          intro x y hx hy; rw [hx, hy]
        refine ⟨hl _ _ h1 h3, ?_⟩
        exact inv_insert hk a _ _ h4 (by rw [hfl]; exact hl _ _ h1 h3)
    | select projs fb srcs =>
      simp only [flowStep] at hfl ⊢
      simp only [stepSelect]
      cases hp : pickProj projs fb a.col with
      | none => exact ⟨rfl, hinv⟩
      | some p =>
        simp only [hp] at hfl
        obtain ⟨h1, h2⟩ := subqsLoop_spec hrec p.subqs cache hinv
        obtain ⟨h3, h4⟩ := colsLoop_spec hrec srcs a p.cols _ h2
        simp only
        refine ⟨by rw [h1, h3], ?_⟩
        exact inv_insert hk a _ _ h4 (by rw [hfl, h1, h3])

theorem step_spec {cfg : Cfg} {scopes : List LScope} {rec : Rec} (hk : KeyOk cfg) (a : Args)
    (hrec : RecSpec cfg scopes a.scope rec) (cache : Cache) (hinv : Inv cfg scopes cache) :
    (step cfg scopes rec a cache).1.leaves = flow scopes a.scope a.col ∧
      Inv cfg scopes (step cfg scopes rec a cache).2 := by
  unfold step
  cases hget : cacheGet cfg (cacheKey cfg.comps a) cache with
  | some v =>
    refine ⟨?_, hinv⟩
    unfold cacheGet at hget
    split at hget
    · rename_i hu
      obtain ⟨h1, h2⟩ := hk hu
      have := hinv hu _ (find_mem hget) a.col a.scope (by simp [cacheKey, h1]) (by simp [cacheKey, h2])
      exact this
    · cases hget
  | none => exact stepBody_spec hk a hrec cache hinv

theorem recSpec_mono {cfg : Cfg} {scopes : List LScope} {k k' : Nat} {rec : Rec} (h : k' ≤ k)
    (hrec : RecSpec cfg scopes k rec) : RecSpec cfg scopes k' rec :=
  fun a cache ha hinv => hrec a cache (by omega) hinv

/-- main refinement: with a key that contains column and scope, `to_node` (cached or not) returns the flow and
    keeps the cache invariant -/
theorem toNode_spec {cfg : Cfg} (scopes : List LScope) (hk : KeyOk cfg) :
    ∀ f, RecSpec cfg scopes f (toNode cfg scopes f) := by
  intro f
  induction f with
  | zero => intro a cache ha; omega
  | succ f ih =>
    intro a cache ha hinv
    simp only [toNode]
    exact step_spec hk a (recSpec_mono (by omega) ih) cache hinv

theorem keyOk_uncached (comps : List KeyComp) : KeyOk ⟨comps, false⟩ := by
  intro h; cases h

theorem inv_uncached (comps : List KeyComp) (scopes : List LScope) (cache : Cache) : Inv ⟨comps, false⟩ scopes cache := by
  intro h; cases h

/-! ### `flow` is invariant under the rewritings -/

theorem erase_eraseCte (sc : LScope) : sc.eraseCte.erase = sc.erase := by
  cases sc with
  | select projs fb srcs =>
    simp only [LScope.eraseCte, LScope.erase, List.map_map]
    congr 1
    apply List.map_congr_left
    intro as _
    obtain ⟨a, s⟩ := as
    cases s <;> rfl
  | union op l r names => rfl
  | wrap i => rfl

theorem erase_eraseTag (sc : LScope) : sc.eraseTag.erase = sc.erase := by
  cases sc with
  | select projs fb srcs =>
    simp only [LScope.eraseTag, LScope.erase, List.map_map]
    congr 1
    apply List.map_congr_left
    intro as _
    obtain ⟨a, s⟩ := as
    cases s <;> rfl
  | union op l r names => rfl
  | wrap i => rfl

theorem flow_of_eraseCte_eq {s1 s2 : List LScope} (h : s1.map LScope.eraseCte = s2.map LScope.eraseCte) :
    flow s1 = flow s2 := by
  apply flow_of_erase_eq
  have := congrArg (List.map LScope.erase) h
  simpa only [List.map_map, Function.comp_def, erase_eraseCte] using this

theorem flow_of_eraseTag_eq {s1 s2 : List LScope} (h : s1.map LScope.eraseTag = s2.map LScope.eraseTag) :
    flow s1 = flow s2 := by
  apply flow_of_erase_eq
  have := congrArg (List.map LScope.erase) h
  simpa only [List.map_map, Function.comp_def, erase_eraseTag] using this

/-! alias renaming -/

theorem lookupSrc_rename {ρ : String → String} (hρ : ∀ x y, ρ x = ρ y → x = y) (t : String)
    (srcs : List (String × Src)) :
    lookupSrc (ρ t) (srcs.map fun as => (ρ as.1, as.2.rename ρ)) = (lookupSrc t srcs).map (Src.rename ρ) := by
  induction srcs with
  | nil => rfl
  | cons x xs ih =>
    obtain ⟨a, s⟩ := x
    simp only [List.map, lookupSrc]
    by_cases h : a = t
    · simp [h]
    · have : ρ a ≠ ρ t := fun e => h (hρ _ _ e)
      simp [h, this, ih]

theorem findProj_rename (ρ : String → String) (n : String) (projs : List Proj) :
    findProj n (projs.map (Proj.rename ρ)) = (findProj n projs).map (Proj.rename ρ) := by
  induction projs with
  | nil => rfl
  | cons p ps ih =>
    simp only [List.map, findProj, Proj.rename]
    split
    · rfl
    · exact ih

theorem pickProj_rename (ρ : String → String) (projs : List Proj) (fb : Proj) (c : Col) :
    pickProj (projs.map (Proj.rename ρ)) (fb.rename ρ) c = (pickProj projs fb c).map (Proj.rename ρ) := by
  cases c with
  | idx i => simp [pickProj]
  | name n =>
    simp only [pickProj, findProj_rename, Option.map]
    cases findProj n projs <;> rfl

theorem flowCol_rename {ρ : String → String} (hρ : ∀ x y, ρ x = ρ y → x = y) (rec : Nat → Col → List Leaf) (k : Nat)
    (srcs : List (String × Src)) (tc : String × String) :
    flowCol rec k (srcs.map fun as => (ρ as.1, as.2.rename ρ)) (ρ tc.1, tc.2) = flowCol rec k srcs tc := by
  unfold flowCol
  simp only [lookupSrc_rename hρ]
  cases lookupSrc tc.1 srcs with
  | none => rfl
  | some s => cases s <;> rfl

theorem flowStep_rename {ρ : String → String} (hρ : ∀ x y, ρ x = ρ y → x = y) (rec : Nat → Col → List Leaf) (k : Nat)
    (sc : LScope) (c : Col) : flowStep rec k (sc.rename ρ) c = flowStep rec k sc c := by
  cases sc with
  | select projs fb srcs =>
    simp only [LScope.rename, flowStep, pickProj_rename]
    cases pickProj projs fb c with
    | none => rfl
    | some p =>
      simp only [Option.map, Proj.rename, List.flatMap_map]
      congr 2
      funext tc
      exact flowCol_rename hρ rec k srcs tc
  | union op l r names => rfl
  | wrap i => rfl

theorem flowF_rename {ρ : String → String} (hρ : ∀ x y, ρ x = ρ y → x = y) (scopes : List LScope) :
    ∀ f k c, flowF f ((scopes.map (LScope.rename ρ)).map LScope.erase) k c = flowF f (scopes.map LScope.erase) k c := by
  intro f
  induction f with
  | zero => intro k c; rfl
  | succ f ih =>
    intro k c
    simp only [flowF, List.getElem?_map]
    cases scopes[k]? with
    | none => rfl
    | some sc =>
      simp only [Option.map]
      rw [flowStep_erase, flowStep_erase, flowStep_rename hρ]
      exact flowStep_congr (fun i c _ => ih i c) _ _

theorem flow_rename {ρ : String → String} (hρ : ∀ x y, ρ x = ρ y → x = y) (scopes : List LScope) :
    flow (scopes.map (LScope.rename ρ)) = flow scopes := by
  funext k c
  exact flowF_rename hρ scopes _ k c

end SqlglotModel.Lineage
