/-
  C04 helper lemmas: the `str.find` fast path of `_extract_string` returns what the slow loop returns.
-/
import SqlglotModel.Proofs.Str

namespace SqlglotModel.Str

structure WFFast (c : Cfg) : Prop where
  esc_cls : ∀ x, c.isEsc x = true → x = '\\' ∨ x = c.q ∨ c.isQuote x = true
  unesc_bs : ∀ a b u, lookup c.unesc (a, b) = some u → a = '\\'
  close : c.isQuote c.q = true ∨ c.isEsc c.q = false ∨ ∀ x, c.isEsc x = true → x = c.q
  q_ne_bs : c.q ≠ '\\'

theorem wfFast_iff (c : Cfg) (h : wfFast c = true) : WFFast c := by
  simp only [wfFast, Bool.and_eq_true] at h
  obtain ⟨⟨⟨h1, h2⟩, h3⟩, h4⟩ := h
  refine ⟨?_, ?_, ?_, by simpa using h4⟩
  · intro x hx
    have hx' : x ∈ c.escapes := by simpa [Cfg.isEsc] using hx
    have := List.all_eq_true.mp h1 x hx'
    simpa [Bool.or_eq_true, or_assoc] using this
  · intro a b u hl
    have := lookup_all c.unesc _ h2 (a, b) u hl
    simpa using this
  · have : (c.isQuote c.q = true ∨ c.isEsc c.q = false) ∨ c.escapes.all (· == c.q) = true := by
      simpa [Bool.or_eq_true] using h3
    rcases this with (h | h) | h
    · exact Or.inl h
    · exact Or.inr (Or.inl h)
    · refine Or.inr (Or.inr ?_)
      intro x hx
      have hx' : x ∈ c.escapes := by simpa [Cfg.isEsc] using hx
      have := List.all_eq_true.mp h x hx'
      simpa using this

theorem splitAt_spec (q : Char) : ∀ (s pre post : List Char), splitAt q s = some (pre, post) →
    s = pre ++ q :: post ∧ q ∉ pre := by
  intro s
  induction s with
  | nil => intro pre post h; simp [splitAt] at h
  | cons x xs ih =>
    intro pre post h
    simp only [splitAt] at h
    split at h
    · rename_i hx
      simp at h
      obtain ⟨rfl, rfl⟩ := h
      simp [hx]
    · rename_i hx
      cases hs : splitAt q xs with
      | none => simp [hs] at h
      | some ab =>
        obtain ⟨a, b⟩ := ab
        simp [hs] at h
        obtain ⟨rfl, rfl⟩ := h
        obtain ⟨h1, h2⟩ := ih a b hs
        refine ⟨by rw [h1]; simp, ?_⟩
        simp only [List.mem_cons, not_or]
        exact ⟨fun e => hx e.symm, h2⟩

/-- closing delimiter on the fast path's precondition `sql[end+1] != delimiter or delimiter not in escapes` -/
theorem fast_close (c : Cfg) (h : WFFast c) (post acc : List Char)
    (hA : post.head? ≠ some c.q ∨ c.isEsc c.q = false) :
    scanL c (c.q :: post) acc = .ok acc post := by
  have hq := h.q_ne_bs
  cases post with
  | nil => simp [scanL, scan, escCondEnd, hq]
  | cons p r =>
    have hu : unescLookup c c.q p = none := by
      unfold unescLookup
      split
      · cases hl : lookup c.unesc (c.q, p) with
        | none => rfl
        | some u => exact absurd (h.unesc_bs c.q p u hl) hq
      · rfl
    have hc : escCond c c.q p = false := by
      rcases hA with hA | hA
      · have hp : p ≠ c.q := by simpa using hA
        rcases h.close with hc | hc | hc
        · simp [escCond, hc, hp, Ne.symm hp]
        · simp [escCond, hc]
        · cases he : c.isEsc p with
          | true => exact absurd (hc p he) hp
          | false => simp [escCond, he, hp, validCustom, hq]
      · simp [escCond, hA]
    simp [scanL, scan_close c p r acc hu hc]

theorem fast_aux (c : Cfg) (h : WFFast c) (post : List Char)
    (hA : post.head? ≠ some c.q ∨ c.isEsc c.q = false) :
    ∀ n (pre : List Char), pre.length ≤ n → c.q ∉ pre →
      ((c.unesc.isEmpty = true ∧ c.isEsc '\\' = false) ∨ '\\' ∉ pre) →
      ∀ acc, scanL c (pre ++ c.q :: post) acc = .ok (acc ++ pre) post := by
  intro n
  induction n with
  | zero =>
    intro pre hl _ _ acc
    have : pre = [] := by cases pre <;> simp_all
    subst this
    simpa using fast_close c h post acc hA
  | succ n ih =>
    intro pre hl hq hB acc
    cases pre with
    | nil => simpa using fast_close c h post acc hA
    | cons x pre' =>
      have hxq : x ≠ c.q := by
        intro e; apply hq; simp [e]
      have hq' : c.q ∉ pre' := by
        intro e; apply hq; simp [e]
      have hB' : (c.unesc.isEmpty = true ∧ c.isEsc '\\' = false) ∨ '\\' ∉ pre' := by
        rcases hB with hB | hB
        · exact Or.inl hB
        · refine Or.inr ?_
          intro e; apply hB; simp [e]
      have hl' : pre'.length ≤ n := by simpa using hl
      -- `x` is not a backslash that matters
      have hxbs : c.isEsc x = true → x ≠ '\\' := by
        intro he e
        subst e
        rcases hB with hB | hB
        · rw [hB.2] at he; cases he
        · apply hB; simp
      obtain ⟨t, T, hT⟩ : ∃ t T, pre' ++ c.q :: post = t :: T := by
        cases hS : pre' ++ c.q :: post with
        | nil => simp at hS
        | cons t T => exact ⟨t, T, rfl⟩
      have ihv := ih pre' hl' hq' hB' (acc ++ [x])
      rw [hT] at ihv
      simp only [scanL] at ihv
      have hu : unescLookup c x t = none := by
        unfold unescLookup
        split
        · rename_i hcond
          cases hl2 : lookup c.unesc (x, t) with
          | none => rfl
          | some u =>
            have hx := h.unesc_bs x t u hl2
            have he : c.isEsc x = true := by
              simp only [Bool.and_eq_true] at hcond
              exact hcond.2
            exact absurd hx (hxbs he)
        · rfl
      simp only [List.cons_append, hT, scanL]
      cases he : c.isEsc x with
      | false =>
        have hc : escCond c x t = false := by simp [escCond, he]
        rw [scan_plain c x t T acc hu hc hxq]
        simpa using ihv
      | true =>
        have hqu : c.isQuote x = true := by
          rcases h.esc_cls x he with h1 | h1 | h1
          · exact absurd h1 (hxbs he)
          · exact absurd h1 hxq
          · exact h1
        by_cases hte : t = x
        · subst hte
          cases pre' with
          | nil =>
            simp at hT
            exact absurd hT.1.symm hxq
          | cons y pre'' =>
            simp at hT
            obtain ⟨rfl, hT2⟩ := hT
            have hl'' : pre''.length ≤ n := by simp at hl'; omega
            have hq'' : c.q ∉ pre'' := by
              intro e; apply hq'; simp [e]
            have hB'' : (c.unesc.isEmpty = true ∧ c.isEsc '\\' = false) ∨ '\\' ∉ pre'' := by
              rcases hB' with hB' | hB'
              · exact Or.inl hB'
              · refine Or.inr ?_
                intro e; apply hB'; simp [e]
            have ih2 := ih pre'' hl'' hq'' hB'' (acc ++ [y, y])
            obtain ⟨t2, T2, hT3⟩ : ∃ t2 T2, pre'' ++ c.q :: post = t2 :: T2 := by
              cases hS : pre'' ++ c.q :: post with
              | nil => simp at hS
              | cons t T => exact ⟨t, T, rfl⟩
            rw [hT3] at ih2
            simp only [scanL] at ih2
            rw [← hT2, hT3]
            have hc : escCond c y y = true := by simp [escCond, he]
            rw [scan_esc c y y t2 T2 acc hu hc]
            have ho : escOut c y y = [y, y] := by simp [escOut, hxq]
            rw [ho]
            simpa using ih2
        · have hc : escCond c x t = false := by
            have : (x == t) = false := by simpa using (fun e => hte e.symm)
            simp [escCond, hqu, this]
          rw [scan_plain c x t T acc hu hc hxq]
          simpa using ihv

theorem fast_eq_slow_aux (c : Cfg) (h : WFFast c) (s t r : List Char)
    (hf : fastPath c s = some (t, r)) : scanL c s [] = .ok t r := by
  unfold fastPath at hf
  cases hs : splitAt c.q s with
  | none => simp [hs] at hf
  | some ab =>
    obtain ⟨pre, post⟩ := ab
    simp only [hs] at hf
    split at hf
    · rename_i hcond
      simp at hf
      obtain ⟨rfl, rfl⟩ := hf
      obtain ⟨hs1, hs2⟩ := splitAt_spec c.q s pre post hs
      simp only [Bool.and_eq_true, Bool.or_eq_true] at hcond
      obtain ⟨⟨hA, hB⟩, _⟩ := hcond
      have hA' : post.head? ≠ some c.q ∨ c.isEsc c.q = false := by
        rcases hA with hA | hA
        · exact Or.inl (by simpa using hA)
        · exact Or.inr (by simpa using hA)
      have hB' : (c.unesc.isEmpty = true ∧ c.isEsc '\\' = false) ∨ '\\' ∉ pre := by
        rcases hB with hB | hB
        · left
          simpa using hB
        · right
          simpa using hB
      rw [hs1]
      simpa using fast_aux c h post hA' pre.length pre (Nat.le_refl _) hs2 hB' []
    · simp at hf

end SqlglotModel.Str
