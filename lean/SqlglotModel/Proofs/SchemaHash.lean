/- Helper lemmas for C18: expression-keyed dicts are content-keyed dicts while cached hashes are fresh. -/
import SqlglotModel.Model.SchemaHash

namespace SqlglotModel.Schema
open SqlglotModel.Ident

def AllFresh {β} (m : List (HKey × β)) : Prop := ∀ kv ∈ m, kv.1.Fresh

theorem hLookup_fresh {β} (m : List (HKey × β)) (hm : AllFresh m) (k : HKey) (hk : k.Fresh) :
    hLookup m k = lookup (contentView m) k.content := by
  induction m with
  | nil => rfl
  | cons x xs ih =>
    obtain ⟨k', v⟩ := x
    have hk' : k'.Fresh := hm (k', v) (List.mem_cons_self ..)
    simp only [hLookup, contentView, List.map_cons, lookup]
    rw [hk', hk]
    split
    · rfl
    · exact ih (fun kv h => hm kv (List.mem_cons_of_mem _ h))

theorem hSet_fresh {β} (m : List (HKey × β)) (hm : AllFresh m) (k : HKey) (hk : k.Fresh) (v : β) :
    contentView (hSet m k v) = dictSet (contentView m) k.content v ∧ AllFresh (hSet m k v) := by
  induction m with
  | nil =>
    refine ⟨rfl, ?_⟩
    intro kv h; simp [hSet] at h; subst h; exact hk
  | cons x xs ih =>
    obtain ⟨k', v'⟩ := x
    have hk' : k'.Fresh := hm (k', v') (List.mem_cons_self ..)
    obtain ⟨i1, i2⟩ := ih (fun kv h => hm kv (List.mem_cons_of_mem _ h))
    simp only [hSet, contentView, List.map_cons, dictSet]
    rw [hk', hk]
    split
    · refine ⟨rfl, ?_⟩
      intro kv h
      cases h with
      | head => exact hk'
      | tail _ h => exact hm kv (List.mem_cons_of_mem _ h)
    · refine ⟨by simp only [List.map_cons]; exact congrArg _ i1, ?_⟩
      intro kv h
      cases h with
      | head => exact hk'
      | tail _ h => exact i2 kv h

theorem renameParts_api_fresh (f : Ident → Ident) (t : HKey) : (renameParts true f t).Fresh := rfl

/-- the cache invariant of the reduced schema: every key is fresh and every entry is the uncached answer -/
def Coh (look : List Ident → Option Cols) (cache : List (HKey × Cols)) : Prop :=
  ∀ kv ∈ cache, kv.1.Fresh ∧ look kv.1.content = some kv.2

theorem hLookup_coh {look : List Ident → Option Cols} {cache : List (HKey × Cols)} (hc : Coh look cache)
    {k : HKey} (hk : k.Fresh) {c : Cols} (h : hLookup cache k = some c) : look k.content = some c := by
  induction cache with
  | nil => simp [hLookup] at h
  | cons x xs ih =>
    obtain ⟨k', v⟩ := x
    obtain ⟨f1, f2⟩ := hc (k', v) (List.mem_cons_self ..)
    simp only [hLookup] at h
    split at h
    · rename_i e
      rw [f1, hk] at e
      injection h with h
      rw [← e, ← h]; exact f2
    · exact ih (fun kv hkv => hc kv (List.mem_cons_of_mem _ hkv)) h

theorem hSet_coh {look : List Ident → Option Cols} {cache : List (HKey × Cols)} (hc : Coh look cache)
    {k : HKey} (hk : k.Fresh) {c : Cols} (hl : look k.content = some c) : Coh look (hSet cache k c) := by
  induction cache with
  | nil => intro kv h; simp [hSet] at h; subst h; exact ⟨hk, hl⟩
  | cons x xs ih =>
    obtain ⟨k', v⟩ := x
    obtain ⟨f1, f2⟩ := hc (k', v) (List.mem_cons_self ..)
    simp only [hSet]
    split
    · rename_i e
      rw [f1, hk] at e
      intro kv h
      cases h with
      | head => exact ⟨f1, by rw [e]; exact hl⟩
      | tail _ h => exact hc kv (List.mem_cons_of_mem _ h)
    · intro kv h
      cases h with
      | head => exact ⟨f1, f2⟩
      | tail _ h => exact ih (fun kv hkv => hc kv (List.mem_cons_of_mem _ hkv)) kv h

theorem findVia_api_spec (look : List Ident → Option Cols) (cache : List (HKey × Cols)) (hc : Coh look cache)
    (f : Ident → Ident) (norm : Bool) (t : HKey) (ht : t.Fresh) :
    (findVia true look cache f norm t).2 = look (if norm then t.content.map f else t.content) ∧
    Coh look (findVia true look cache f norm t).1 := by
  unfold findVia
  simp only
  have hnt : (if norm then renameParts true f ⟨t.content, some t.hashOf⟩ else ⟨t.content, some t.hashOf⟩ : HKey).Fresh := by
    cases norm
    · exact ht
    · rfl
  have hcont : (if norm then renameParts true f ⟨t.content, some t.hashOf⟩ else ⟨t.content, some t.hashOf⟩ : HKey).content =
      (if norm then t.content.map f else t.content) := by
    cases norm <;> rfl
  generalize (if norm then renameParts true f ⟨t.content, some t.hashOf⟩ else ⟨t.content, some t.hashOf⟩ : HKey) = nt
    at hnt hcont
  rw [← hcont]
  cases hl : hLookup cache nt with
  | some c => exact ⟨(hLookup_coh hc hnt hl).symm, hc⟩
  | none =>
    simp only
    cases hq : look nt.content with
    | some c => exact ⟨rfl, hSet_coh hc hnt hq⟩
    | none => exact ⟨rfl, hc⟩

end SqlglotModel.Schema
