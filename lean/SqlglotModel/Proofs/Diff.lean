/- Helper lemmas for C20 (ChangeDistiller model): conservation of the unmatched sets, provenance of matched pairs. -/
import SqlglotModel.Model.Diff

namespace SqlglotModel.Diff

def fsts (l : List (Id × Id)) : List Id := l.map (·.1)
def snds (l : List (Id × Id)) : List Id := l.map (·.2)

@[simp] theorem fsts_append (a b : List (Id × Id)) : fsts (a ++ b) = fsts a ++ fsts b := by simp [fsts]
@[simp] theorem snds_append (a b : List (Id × Id)) : snds (a ++ b) = snds a ++ snds b := by simp [snds]
@[simp] theorem fsts_nil : fsts [] = [] := rfl
@[simp] theorem snds_nil : snds [] = [] := rfl
@[simp] theorem fsts_single (p : Id × Id) : fsts [p] = [p.1] := rfl
@[simp] theorem snds_single (p : Id × Id) : snds [p] = [p.2] := rfl

theorem count_erase_add {l : List Id} {a : Id} (h : a ∈ l) (n : Id) :
    (l.erase a).count n + [a].count n = l.count n := by
  by_cases hn : n = a
  · subst hn
    have : 0 < l.count n := List.count_pos_iff.mpr h
    simp [List.count_erase_self]; omega
  · have : (a == n) = false := by simpa using fun h => hn h.symm
    simp [List.count_erase_of_ne hn, List.count_cons, this]

theorem nodup_map_inj {α β} (f : α → β) (l : List α) (h : (l.map f).Nodup) :
    ∀ a b, a ∈ l → b ∈ l → f a = f b → a = b := by
  induction l with
  | nil => intro a b ha; simp at ha
  | cons x l ih =>
    simp only [List.map_cons, List.nodup_cons, List.mem_map, not_exists, not_and] at h
    intro a b ha hb hab
    simp only [List.mem_cons] at ha hb
    rcases ha with rfl | ha <;> rcases hb with rfl | hb
    · rfl
    · exact absurd hab.symm (h.1 b hb)
    · exact absurd hab (h.1 a ha)
    · exact ih h.2 a b ha hb hab

/-! ### the leaf pass -/

theorem greedy_count_src (L : List Cand) (st : MState) (n : Id) :
    (greedy L st).us.count n + (fsts (greedy L st).acc).count n = st.us.count n + (fsts st.acc).count n := by
  induction L generalizing st with
  | nil => rfl
  | cons c rest ih =>
    simp only [greedy]
    split
    · rename_i h
      have hs : c.s ∈ st.us := by simp at h; exact h.1
      rw [ih]
      have := count_erase_add hs n
      simp [List.count_append] at this ⊢; omega
    · exact ih st

theorem greedy_count_tgt (L : List Cand) (st : MState) (n : Id) :
    (greedy L st).ut.count n + (snds (greedy L st).acc).count n = st.ut.count n + (snds st.acc).count n := by
  induction L generalizing st with
  | nil => rfl
  | cons c rest ih =>
    simp only [greedy]
    split
    · rename_i h
      have hs : c.t ∈ st.ut := by simp at h; exact h.2
      rw [ih]
      have := count_erase_add hs n
      simp [List.count_append] at this ⊢; omega
    · exact ih st

theorem greedy_acc_prov (L : List Cand) (st : MState) :
    ∀ p ∈ (greedy L st).acc, p ∈ st.acc ∨ ∃ c ∈ L, p = (c.s, c.t) := by
  induction L generalizing st with
  | nil => intro p hp; exact Or.inl hp
  | cons c rest ih =>
    intro p hp
    simp only [greedy] at hp
    split at hp
    · rcases ih _ p hp with h | ⟨c', hc', rfl⟩
      · simp at h
        rcases h with h | h
        · exact Or.inl h
        · exact Or.inr ⟨c, by simp, h⟩
      · exact Or.inr ⟨c', by simp [hc'], rfl⟩
    · rcases ih _ p hp with h | ⟨c', hc', rfl⟩
      · exact Or.inl h
      · exact Or.inr ⟨c', by simp [hc'], rfl⟩

theorem enumFrom_mem (E : Env) (n : Nat) (l : List (Id × Id)) :
    ∀ c ∈ enumFrom E n l, (c.s, c.t) ∈ l ∧ c.score = E.dice c.s c.t ∧ c.psim = E.psim c.s c.t ∧ n ≤ c.idx := by
  induction l generalizing n with
  | nil => intro c hc; simp [enumFrom] at hc
  | cons p rest ih =>
    obtain ⟨s, t⟩ := p
    intro c hc
    simp only [enumFrom, List.mem_cons] at hc
    rcases hc with rfl | hc
    · simp
    · obtain ⟨h1, h2, h3, h4⟩ := ih (n + 1) c hc
      exact ⟨by simp [h1], h2, h3, by omega⟩

theorem mem_rawCands {E : Env} {p : Id × Id} (h : p ∈ rawCands E) :
    p.1 ∈ E.srcLeaves ∧ p.2 ∈ E.tgtLeaves ∧ E.sameType p.1 p.2 = true ∧ E.f ≤ E.dice p.1 p.2 := by
  simp only [rawCands, List.mem_flatMap, List.mem_map, List.mem_filter] at h
  obtain ⟨s, hs, t, ⟨ht, hc⟩, rfl⟩ := h
  simp at hc
  exact ⟨hs, ht, hc.1, hc.2⟩

theorem mem_insertCand (c x : Cand) (l : List Cand) : x ∈ insertCand c l ↔ x = c ∨ x ∈ l := by
  induction l with
  | nil => simp [insertCand]
  | cons d ds ih =>
    simp only [insertCand]
    split
    · simp
    · simp only [List.mem_cons, ih]
      constructor
      · rintro (h | h | h)
        · exact Or.inr (Or.inl h)
        · exact Or.inl h
        · exact Or.inr (Or.inr h)
      · rintro (h | h | h)
        · exact Or.inr (Or.inl h)
        · exact Or.inl h
        · exact Or.inr (Or.inr h)

@[simp] theorem mem_sortCands (x : Cand) (l : List Cand) : x ∈ sortCands l ↔ x ∈ l := by
  induction l with
  | nil => simp [sortCands]
  | cons c l ih =>
    have : sortCands (c :: l) = insertCand c (sortCands l) := rfl
    rw [this, mem_insertCand, ih]; simp

theorem mem_popOrder {E : Env} {c : Cand} (h : c ∈ popOrder E) :
    (c.s, c.t) ∈ rawCands E ∧ c.score = E.dice c.s c.t ∧ c.psim = E.psim c.s c.t := by
  simp only [popOrder, mem_sortCands, cands] at h
  obtain ⟨h1, h2, h3, _⟩ := enumFrom_mem E 0 _ c h
  exact ⟨h1, h2, h3⟩

/-! ### the inner-node pass -/

theorem innerLoop_count_src (cond : Id → Id → Bool) (os : List Id) (st : MState)
    (hos : ∀ s ∈ os, s ∈ st.us) (hnd : os.Nodup) (n : Id) :
    (innerLoop cond os st).us.count n + (fsts (innerLoop cond os st).acc).count n
      = st.us.count n + (fsts st.acc).count n := by
  induction os generalizing st with
  | nil => rfl
  | cons s os ih =>
    simp only [innerLoop]
    have hnd' := (List.nodup_cons.mp hnd)
    split
    · rw [ih]
      · have := count_erase_add (hos s (by simp)) n
        simp [List.count_append] at this ⊢; omega
      · intro x hx
        have hne : x ≠ s := fun h => hnd'.1 (h ▸ hx)
        simp only
        exact (List.mem_erase_of_ne hne).mpr (hos x (by simp [hx]))
      · exact hnd'.2
    · exact ih st (fun x hx => hos x (by simp [hx])) hnd'.2

theorem innerLoop_count_tgt (cond : Id → Id → Bool) (os : List Id) (st : MState) (n : Id) :
    (innerLoop cond os st).ut.count n + (snds (innerLoop cond os st).acc).count n
      = st.ut.count n + (snds st.acc).count n := by
  induction os generalizing st with
  | nil => rfl
  | cons s os ih =>
    simp only [innerLoop]
    split
    · rename_i t ht
      rw [ih]
      have := count_erase_add (List.mem_of_find?_eq_some ht) n
      simp [List.count_append] at this ⊢; omega
    · exact ih st

theorem innerLoop_acc_prov (cond : Id → Id → Bool) (os : List Id) (st : MState) :
    ∀ p ∈ (innerLoop cond os st).acc, p ∈ st.acc ∨ cond p.1 p.2 = true := by
  induction os generalizing st with
  | nil => intro p hp; exact Or.inl hp
  | cons s os ih =>
    intro p hp
    simp only [innerLoop] at hp
    split at hp
    · rename_i t ht
      rcases ih _ p hp with h | h
      · simp at h
        rcases h with h | rfl
        · exact Or.inl h
        · exact Or.inr (by simpa using List.find?_some ht)
      · exact Or.inr h
    · exact ih _ p hp

/-! ### the initial unmatched sets -/

theorem unmatched0_count (idx pre : List Id) (hN : idx.Nodup) (hpN : pre.Nodup) (hsub : ∀ x ∈ pre, x ∈ idx) (n : Id) :
    (unmatched0 idx pre).count n + pre.count n = idx.count n := by
  unfold unmatched0
  by_cases h : n ∈ pre
  · have h0 : (idx.filter fun x => !pre.contains x).count n = 0 := by
      apply List.count_eq_zero.mpr
      simp [List.mem_filter, h]
    rw [h0, hpN.count, hN.count]
    simp [h, hsub n h]
  · have : (idx.filter fun x => !pre.contains x).count n = idx.count n :=
      List.count_filter (by simpa using h)
    rw [this, List.count_eq_zero.mpr h]; rfl

theorem unmatched0_sub (idx pre : List Id) : ∀ x ∈ unmatched0 idx pre, x ∈ idx := by
  intro x hx; exact (List.mem_filter.mp hx).1

theorem unmatched0_nodup (idx pre : List Id) (hN : idx.Nodup) : (unmatched0 idx pre).Nodup :=
  hN.filter _

/-- caller-supplied matchings the theorems accept: injective, inside the two indexes -/
structure PreOk (E : Env) (pre : List (Id × Id)) : Prop where
  srcNodup : (fsts pre).Nodup
  tgtNodup : (snds pre).Nodup
  srcIn : ∀ x ∈ fsts pre, x ∈ E.srcIndex
  tgtIn : ∀ x ∈ snds pre, x ∈ E.tgtIndex

theorem leafPass_us_nodup (E : Env) (pre : List (Id × Id)) (hN : E.srcIndex.Nodup) : (leafPass E pre).us.Nodup := by
  apply List.nodup_iff_count.mpr
  intro a
  have h := greedy_count_src (popOrder E) ⟨unmatched0 E.srcIndex (pre.map (·.1)), unmatched0 E.tgtIndex (pre.map (·.2)), []⟩ a
  have h2 := List.nodup_iff_count.mp (unmatched0_nodup E.srcIndex (pre.map (·.1)) hN) a
  simp only [leafPass]
  simp at h
  omega

/-- conservation of the source side over the whole matching -/
theorem matchAll_count_src (E : Env) (pre : List (Id × Id)) (hN : E.srcIndex.Nodup) (hp : PreOk E pre) (n : Id) :
    (matchAll E pre).unmatchedS.count n + (fsts (matchAll E pre).all).count n = E.srcIndex.count n := by
  have hl := greedy_count_src (popOrder E)
    ⟨unmatched0 E.srcIndex (pre.map (·.1)), unmatched0 E.tgtIndex (pre.map (·.2)), []⟩ n
  have hi := innerLoop_count_src (innerCond E (innerLm E pre (leafPass E pre).acc)) (leafPass E pre).us
    ⟨(leafPass E pre).us, (leafPass E pre).ut, []⟩ (fun s hs => hs) (leafPass_us_nodup E pre hN) n
  have h0 := unmatched0_count E.srcIndex (fsts pre) hN hp.srcNodup hp.srcIn n
  simp only [matchAll, fsts_append, List.count_append]
  simp only [leafPass, fsts] at hl hi h0 ⊢
  simp at hl hi
  omega

theorem matchAll_count_tgt (E : Env) (pre : List (Id × Id)) (hN : E.tgtIndex.Nodup) (hp : PreOk E pre) (n : Id) :
    (matchAll E pre).unmatchedT.count n + (snds (matchAll E pre).all).count n = E.tgtIndex.count n := by
  have hl := greedy_count_tgt (popOrder E)
    ⟨unmatched0 E.srcIndex (pre.map (·.1)), unmatched0 E.tgtIndex (pre.map (·.2)), []⟩ n
  have hi := innerLoop_count_tgt (innerCond E (innerLm E pre (leafPass E pre).acc)) (leafPass E pre).us
    ⟨(leafPass E pre).us, (leafPass E pre).ut, []⟩ n
  have h0 := unmatched0_count E.tgtIndex (snds pre) hN hp.tgtNodup hp.tgtIn n
  simp only [matchAll, snds_append, List.count_append]
  simp only [leafPass, snds] at hl hi h0 ⊢
  simp at hl hi
  omega

/-- every computed pair passed `_is_same_type` -/
theorem matchAll_computed_sameType (E : Env) (pre : List (Id × Id)) :
    ∀ p ∈ (matchAll E pre).computed, E.sameType p.1 p.2 = true := by
  intro p hp
  simp only [matchAll, List.mem_append] at hp
  rcases hp with hp | hp
  · rcases greedy_acc_prov _ _ p hp with h | ⟨c, hc, rfl⟩
    · simp at h
    · exact (mem_rawCands (mem_popOrder hc).1).2.2.1
  · rcases innerLoop_acc_prov _ _ _ p hp with h | h
    · simp at h
    · simp [innerCond] at h; exact h.1

/-! ### counting edits -/

theorem countP_map_remove (n : Id) (l : List Id) : (l.map Edit.remove).countP (Edit.removes n) = l.count n := by
  induction l with
  | nil => rfl
  | cons a l ih => simp [List.countP_cons, List.count_cons, Edit.removes, ih]

theorem countP_map_insert (n : Id) (l : List Id) : (l.map Edit.insert).countP (Edit.inserts n) = l.count n := by
  induction l with
  | nil => rfl
  | cons a l ih => simp [List.countP_cons, List.count_cons, Edit.inserts, ih]

theorem countP_zero_of_forall {α} (p : α → Bool) (l : List α) (h : ∀ x ∈ l, p x = false) : l.countP p = 0 := by
  rw [List.countP_eq_zero]
  intro x hx
  simp [h x hx]

theorem moveToEdit_not (n : Id) (m : Id × Option Id) :
    (moveToEdit m).removes n = false ∧ (moveToEdit m).inserts n = false ∧
    (moveToEdit m).pairsSrc n = false ∧ (moveToEdit m).pairsTgt n = false ∧ (moveToEdit m).isKeep = false := by
  obtain ⟨a, b⟩ := m
  cases b <;> simp [moveToEdit, Edit.removes, Edit.inserts, Edit.pairsSrc, Edit.pairsTgt, Edit.isKeep]

theorem countP_pairs (E : Env) (M : Matching) (q : Edit → Bool) (w : Id × Id → Nat) (l : List (Id × Id))
    (h : ∀ p, (pairEdits E M p).countP q = w p) : (l.flatMap (pairEdits E M)).countP q = (l.map w).sum := by
  induction l with
  | nil => rfl
  | cons a l ih => simp [List.flatMap_cons, List.countP_append, h, ih]

theorem sum_map_ite_fst (n : Id) (l : List (Id × Id)) :
    (l.map fun p => if p.1 == n then 1 else 0).sum = (fsts l).count n := by
  induction l with
  | nil => rfl
  | cons a l ih => simp [fsts, List.count_cons] at ih ⊢; rw [ih]; omega

theorem sum_map_ite_snd (n : Id) (l : List (Id × Id)) :
    (l.map fun p => if p.2 == n then 1 else 0).sum = (snds l).count n := by
  induction l with
  | nil => rfl
  | cons a l ih => simp [snds, List.count_cons] at ih ⊢; rw [ih]; omega

theorem sum_map_zero (l : List (Id × Id)) : (l.map fun _ => 0).sum = 0 := by
  induction l with
  | nil => rfl
  | cons a l ih => simpa using ih

theorem pairEdits_countP_src (E : Env) (M : Matching) (n : Id) (p : Id × Id) :
    (pairEdits E M p).countP (Edit.pairsSrc n) = if p.1 == n then 1 else 0 := by
  simp only [pairEdits, List.countP_append]
  rw [countP_zero_of_forall]
  · by_cases h : E.isUpdate p.1 p.2 <;> simp [h, Edit.pairsSrc, List.countP_cons]
  · intro x hx
    obtain ⟨m, _, rfl⟩ := List.mem_map.mp hx
    exact (moveToEdit_not n m).2.2.1

theorem pairEdits_countP_tgt (E : Env) (M : Matching) (n : Id) (p : Id × Id) :
    (pairEdits E M p).countP (Edit.pairsTgt n) = if p.2 == n then 1 else 0 := by
  simp only [pairEdits, List.countP_append]
  rw [countP_zero_of_forall]
  · by_cases h : E.isUpdate p.1 p.2 <;> simp [h, Edit.pairsTgt, List.countP_cons]
  · intro x hx
    obtain ⟨m, _, rfl⟩ := List.mem_map.mp hx
    exact (moveToEdit_not n m).2.2.2.1

theorem pairEdits_countP_remove (E : Env) (M : Matching) (n : Id) (p : Id × Id) :
    (pairEdits E M p).countP (Edit.removes n) = 0 := by
  apply countP_zero_of_forall
  intro x hx
  simp only [pairEdits, List.mem_append, List.mem_map, List.mem_singleton] at hx
  rcases hx with ⟨m, _, rfl⟩ | rfl
  · exact (moveToEdit_not n m).1
  · by_cases h : E.isUpdate p.1 p.2 <;> simp [h, Edit.removes]

theorem pairEdits_countP_insert (E : Env) (M : Matching) (n : Id) (p : Id × Id) :
    (pairEdits E M p).countP (Edit.inserts n) = 0 := by
  apply countP_zero_of_forall
  intro x hx
  simp only [pairEdits, List.mem_append, List.mem_map, List.mem_singleton] at hx
  rcases hx with ⟨m, _, rfl⟩ | rfl
  · exact (moveToEdit_not n m).2.1
  · by_cases h : E.isUpdate p.1 p.2 <;> simp [h, Edit.inserts]

theorem greedy_acc_mono (L : List Cand) (st : MState) (p : Id × Id) (hp : p ∈ st.acc) : p ∈ (greedy L st).acc := by
  induction L generalizing st with
  | nil => exact hp
  | cons c rest ih =>
    simp only [greedy]
    split
    · exact ih _ (by simp [hp])
    · exact ih _ hp

/-! ### a tree against its copy: oracle facts and the tie-break argument -/
open scoped List

theorem before_trans (a b c : Cand) (h1 : a.before b = true) (h2 : b.before c = true) : a.before c = true := by
  simp only [Cand.before, Bool.or_eq_true, Bool.and_eq_true, decide_eq_true_eq, beq_iff_eq] at *
  omega

theorem before_total (a b : Cand) : (a.before b || b.before a) = true := by
  simp only [Cand.before, Bool.or_eq_true, Bool.and_eq_true, decide_eq_true_eq, beq_iff_eq]
  omega

theorem pairwise_insertCand (c : Cand) (l : List Cand) (h : l.Pairwise (fun a b => a.before b = true)) :
    (insertCand c l).Pairwise (fun a b => a.before b = true) := by
  induction l with
  | nil => simp [insertCand]
  | cons d ds ih =>
    have hp := List.pairwise_cons.mp h
    simp only [insertCand]
    split
    · rename_i hcd
      refine List.pairwise_cons.mpr ⟨?_, h⟩
      intro x hx
      simp only [List.mem_cons] at hx
      rcases hx with rfl | hx
      · exact hcd
      · exact before_trans _ _ _ hcd (hp.1 x hx)
    · rename_i hcd
      have hdc : d.before c = true := by
        have := before_total c d
        simp only [Bool.or_eq_true] at this
        rcases this with h1 | h1
        · exact absurd h1 hcd
        · exact h1
      refine List.pairwise_cons.mpr ⟨?_, ih hp.2⟩
      intro x hx
      rcases (mem_insertCand c x ds).mp hx with rfl | hx
      · exact hdc
      · exact hp.1 x hx

theorem popOrder_sorted (E : Env) : (popOrder E).Pairwise (fun a b => a.before b = true) := by
  unfold popOrder
  generalize cands E = l
  induction l with
  | nil => simp [sortCands]
  | cons c l ih => exact pairwise_insertCand c _ ih

theorem two_mem_order {l : List Id} (hN : l.Nodup) {a b : Id} (ha : a ∈ l) (hb : b ∈ l) (hab : a ≠ b) :
    [a, b] <+ l ∨ [b, a] <+ l := by
  induction l with
  | nil => simp at ha
  | cons x l ih =>
    have hN' := List.nodup_cons.mp hN
    simp only [List.mem_cons] at ha hb
    rcases ha with rfl | ha <;> rcases hb with rfl | hb
    · exact absurd rfl hab
    · exact Or.inl (List.Sublist.cons_cons _ (List.singleton_sublist.mpr hb))
    · exact Or.inr (List.Sublist.cons_cons _ (List.singleton_sublist.mpr ha))
    · rcases ih hN'.2 ha hb with h | h
      · exact Or.inl (List.Sublist.cons _ h)
      · exact Or.inr (List.Sublist.cons _ h)

theorem mem_sublist_flatMap {α β} (f : α → List β) (L : List α) (s : α) (hs : s ∈ L) : f s <+ L.flatMap f := by
  induction L with
  | nil => simp at hs
  | cons x L ih =>
    simp only [List.flatMap_cons]
    simp only [List.mem_cons] at hs
    rcases hs with rfl | hs
    · exact List.sublist_append_left _ _
    · exact (ih hs).trans (List.sublist_append_right _ _)

theorem pair_sublist_flatMap {α β} (f : α → List β) (L : List α) (s y : α) (h : [s, y] <+ L) :
    f s ++ f y <+ L.flatMap f := by
  induction L with
  | nil => cases h
  | cons x L ih =>
    simp only [List.flatMap_cons]
    cases h with
    | cons _ h' => exact (ih h').trans (List.sublist_append_right _ _)
    | cons_cons _ h' =>
      have hy : y ∈ L := List.singleton_sublist.mp h'
      exact List.Sublist.append (List.Sublist.refl _) (mem_sublist_flatMap f L y hy)

/-- the candidates pushed for one source leaf, in push order -/
def row (E : Env) (s : Id) : List (Id × Id) :=
  (E.tgtLeaves.filter fun t => E.sameType s t && decide (E.f ≤ E.dice s t)).map fun t => (s, t)

theorem rawCands_eq (E : Env) : rawCands E = E.srcLeaves.flatMap (row E) := rfl

theorem mem_row {E : Env} {s : Id} {p : Id × Id} : p ∈ row E s ↔
    p.1 = s ∧ p.2 ∈ E.tgtLeaves ∧ E.sameType s p.2 = true ∧ E.f ≤ E.dice s p.2 := by
  obtain ⟨a, b⟩ := p
  simp only [row, List.mem_map, List.mem_filter, Bool.and_eq_true, decide_eq_true_eq, Prod.mk.injEq]
  constructor
  · rintro ⟨t, ⟨ht, h1, h2⟩, rfl, rfl⟩; exact ⟨rfl, ht, h1, h2⟩
  · rintro ⟨rfl, ht, h1, h2⟩; exact ⟨b, ⟨ht, h1, h2⟩, rfl, rfl⟩

theorem row_nodup (E : Env) (s : Id) (hT : E.tgtLeaves.Nodup) : (row E s).Nodup := by
  unfold row
  rw [List.Nodup, List.pairwise_map]
  exact (List.Pairwise.filter _ hT).imp (fun h => by simpa using h)

theorem rawCands_nodup (E : Env) (hS : E.srcLeaves.Nodup) (hT : E.tgtLeaves.Nodup) : (rawCands E).Nodup := by
  rw [rawCands_eq]
  generalize E.srcLeaves = L at hS
  induction L with
  | nil => simp
  | cons x L ih =>
    have hN := List.nodup_cons.mp hS
    simp only [List.flatMap_cons]
    rw [List.nodup_append]
    refine ⟨row_nodup E x hT, ih hN.2, ?_⟩
    intro a ha b hb hab
    have h1 := (mem_row.mp ha).1
    obtain ⟨y, hy, hby⟩ := List.mem_flatMap.mp hb
    have h2 := (mem_row.mp hby).1
    apply hN.1
    rw [← h1, hab, h2]; exact hy

theorem enumFrom_surj (E : Env) (n : Nat) (l : List (Id × Id)) (p : Id × Id) (hp : p ∈ l) :
    ∃ c ∈ enumFrom E n l, c.s = p.1 ∧ c.t = p.2 := by
  induction l generalizing n with
  | nil => simp at hp
  | cons q rest ih =>
    obtain ⟨s, t⟩ := q
    simp only [List.mem_cons] at hp
    rcases hp with hp | hp
    · subst hp
      exact ⟨⟨E.dice s t, E.psim s t, n, s, t⟩, by simp [enumFrom], rfl, rfl⟩
    · obtain ⟨c, hc, h⟩ := ih (n + 1) hp
      exact ⟨c, by simp [enumFrom, hc], h⟩

/-- push order = index order -/
theorem idx_order (E : Env) (n : Nat) (l : List (Id × Id)) (hN : l.Nodup) (c c' : Cand)
    (hc : c ∈ enumFrom E n l) (hc' : c' ∈ enumFrom E n l) (h : [(c'.s, c'.t), (c.s, c.t)] <+ l) : c'.idx < c.idx := by
  induction l generalizing n with
  | nil => cases h
  | cons q rest ih =>
    obtain ⟨s, t⟩ := q
    have hN' := List.nodup_cons.mp hN
    simp only [enumFrom, List.mem_cons] at hc hc'
    cases h with
    | cons _ h' =>
      have m1 : (c'.s, c'.t) ∈ rest := h'.subset (by simp)
      have m2 : (c.s, c.t) ∈ rest := h'.subset (by simp)
      rcases hc with rfl | hc
      · exact absurd m2 hN'.1
      · rcases hc' with rfl | hc'
        · exact absurd m1 hN'.1
        · exact ih (n + 1) hN'.2 hc hc' h'
    | cons_cons _ h' =>
      have m2 : (c.s, c.t) ∈ rest := List.singleton_sublist.mp h'
      rcases hc with rfl | hc
      · exact absurd m2 hN'.1
      · have hge := (enumFrom_mem E (n + 1) rest c hc).2.2.2
        rcases hc' with hc' | hc'
        · have := congrArg Cand.idx hc'
          simp only at this
          omega
        · have := (enumFrom_mem E (n + 1) rest c' hc').1
          exact absurd this hN'.1

theorem erase_map_inj (φ : Id → Id) (inj : ∀ a b, φ a = φ b → a = b) (l : List Id) (a : Id) :
    (l.map φ).erase (φ a) = (l.erase a).map φ := by
  induction l with
  | nil => rfl
  | cons x l ih =>
    simp only [List.map_cons, List.erase_cons]
    by_cases hx : x = a
    · subst hx; simp
    · have : φ x ≠ φ a := fun h => hx (inj _ _ h)
      simp [hx, this, ih]

/-- the oracle facts that hold for a tree against its copy (`φ` maps a source node to its twin) -/
structure CopyOk (E : Env) (φ : Id → Id) : Prop where
  tgtLeaves : E.tgtLeaves = E.srcLeaves.map φ
  tgtIndex : E.tgtIndex = E.srcIndex.map φ
  inj : ∀ a b, φ a = φ b → a = b
  srcNodup : E.srcIndex.Nodup
  leavesNodup : E.srcLeaves.Nodup
  /-- twins have the same type -/
  twinType : ∀ x, E.sameType x (φ x) = true
  /-- `dice x x' = 1`, the largest value there is, and `f ≤ 1` -/
  diceTop : ∀ x s t, E.dice s t ≤ E.dice x (φ x)
  fLe : ∀ x, E.f ≤ E.dice x (φ x)
  /-- a twin pair's parent chains agree all the way up: no other pair has a larger parent similarity -/
  psimTwin : ∀ s y, E.psim s (φ y) ≤ E.psim s (φ s) ∧ E.psim s (φ y) ≤ E.psim y (φ y)
  /-- leaf similarity of twins is 1 once the leaves are matched with their twins -/
  innerTwin : ∀ lm, (∀ l ∈ E.srcLeaves, l ∈ E.srcIndex → (l, φ l) ∈ lm) → ∀ x ∈ E.srcIndex, E.innerSim lm x (φ x) = true

theorem tgtLeaves_nodup {E : Env} {φ : Id → Id} (h : CopyOk E φ) : E.tgtLeaves.Nodup := by
  rw [h.tgtLeaves, List.Nodup, List.pairwise_map]
  exact h.leavesNodup.imp (fun hab hφ => hab (h.inj _ _ hφ))

theorem twin_in_raw {E : Env} {φ : Id → Id} (h : CopyOk E φ) {x : Id} (hx : x ∈ E.srcLeaves) :
    (x, φ x) ∈ row E x :=
  mem_row.mpr ⟨rfl, by rw [h.tgtLeaves]; exact List.mem_map.mpr ⟨x, hx, rfl⟩, h.twinType x, h.fLe x⟩

/-- **the tie-break argument**: a non-twin candidate cannot precede both twin candidates it competes with -/
theorem key_contra {E : Env} {φ : Id → Id} (h : CopyOk E φ) (c c1 c2 : Cand)
    (hc : c ∈ cands E) (hc1 : c1 ∈ cands E) (hc2 : c2 ∈ cands E) (y : Id) (hy : y ∈ E.srcLeaves)
    (ht : c.t = φ y) (hne : y ≠ c.s)
    (h1s : c1.s = c.s) (h1t : c1.t = φ c.s) (h2s : c2.s = y) (h2t : c2.t = φ y)
    (hb1 : c.before c1 = true) (hb2 : c.before c2 = true) : False := by
  obtain ⟨hraw, hsc, hps, _⟩ := enumFrom_mem E 0 _ c hc
  obtain ⟨hraw1, hsc1, hps1, _⟩ := enumFrom_mem E 0 _ c1 hc1
  obtain ⟨hraw2, hsc2, hps2, _⟩ := enumFrom_mem E 0 _ c2 hc2
  have hs : c.s ∈ E.srcLeaves := (mem_rawCands hraw).1
  have hrawN := rawCands_nodup E h.leavesNodup (tgtLeaves_nodup h)
  have d1 := h.diceTop c.s c.s (φ y)
  have d2 := h.diceTop y c.s (φ y)
  have p := h.psimTwin c.s y
  rw [h1s, h1t] at hsc1 hps1
  rw [h2s, h2t] at hsc2 hps2
  rw [ht] at hsc hps
  have i1 : c.idx ≤ c1.idx := by
    simp only [Cand.before, Bool.or_eq_true, Bool.and_eq_true, decide_eq_true_eq, beq_iff_eq] at hb1
    omega
  have i2 : c.idx ≤ c2.idx := by
    simp only [Cand.before, Bool.or_eq_true, Bool.and_eq_true, decide_eq_true_eq, beq_iff_eq] at hb2
    omega
  have hcrow : (c.s, φ y) ∈ row E c.s := by
    have := mem_rawCands hraw
    exact mem_row.mpr ⟨rfl, by simpa [ht] using this.2.1, by simpa [ht] using this.2.2.1, by simpa [ht] using this.2.2.2⟩
  rcases two_mem_order h.leavesNodup hs hy (fun e => hne e.symm) with ho | ho
  · -- c.s before y: the twin of c.s is pushed before (c.s, φ y) in the same row
    have hsub : [φ c.s, φ y] <+ E.tgtLeaves := by rw [h.tgtLeaves]; exact ho.map φ
    have hrow : [(c.s, φ c.s), (c.s, φ y)] <+ row E c.s := by
      have := (hsub.filter fun t => E.sameType c.s t && decide (E.f ≤ E.dice c.s t)).map fun t => (c.s, t)
      have e1 := (mem_row.mp (twin_in_raw h hs))
      have e2 := (mem_row.mp hcrow)
      simpa [row, List.filter_cons, e1.2.2.1, e1.2.2.2, e2.2.2.1, e2.2.2.2] using this
    have hall := hrow.trans (mem_sublist_flatMap (row E) E.srcLeaves c.s hs)
    have := idx_order E 0 (rawCands E) hrawN c c1 hc hc1 (by rw [h1s, h1t, ht]; exact hall)
    omega
  · -- y before c.s: the twin pair of y is pushed in an earlier row
    have hpair := pair_sublist_flatMap (row E) E.srcLeaves y c.s ho
    have hsub : [(y, φ y), (c.s, φ y)] <+ row E y ++ row E c.s :=
      List.Sublist.append (List.singleton_sublist.mpr (twin_in_raw h hy)) (List.singleton_sublist.mpr hcrow)
    have := idx_order E 0 (rawCands E) hrawN c c2 hc hc2 (by rw [h2s, h2t, ht]; exact hsub.trans hpair)
    omega

theorem greedy_copy {E : Env} {φ : Id → Id} (h : CopyOk E φ) (L : List Cand) (st : MState)
    (hsorted : L.Pairwise (fun a b => a.before b = true))
    (hcand : ∀ c ∈ L, c ∈ cands E)
    (J1 : ∀ p ∈ st.acc, p.2 = φ p.1)
    (J2 : st.ut = st.us.map φ)
    (J3 : ∀ x ∈ E.srcLeaves, x ∈ st.us → ∃ c ∈ L, c.s = x ∧ c.t = φ x)
    (hnd : st.us.Nodup) :
    (∀ p ∈ (greedy L st).acc, p.2 = φ p.1) ∧ (greedy L st).ut = (greedy L st).us.map φ ∧
      (∀ x ∈ E.srcLeaves, x ∈ (greedy L st).us → False) ∧ (greedy L st).us.Nodup ∧
      (∀ x ∈ E.srcLeaves, x ∈ st.us → (x, φ x) ∈ (greedy L st).acc) := by
  induction L generalizing st with
  | nil =>
    refine ⟨J1, J2, ?_, hnd, ?_⟩
    · intro x hx hu; obtain ⟨c, hc, _⟩ := J3 x hx hu; simp at hc
    · intro x hx hu; obtain ⟨c, hc, _⟩ := J3 x hx hu; simp at hc
  | cons c rest ih =>
    have hs' := List.pairwise_cons.mp hsorted
    have memφ : ∀ x, φ x ∈ st.ut ↔ x ∈ st.us := by
      intro x; rw [J2, List.mem_map]
      constructor
      · rintro ⟨a, ha, he⟩; rw [← h.inj _ _ he]; exact ha
      · intro hx; exact ⟨x, hx, rfl⟩
    simp only [greedy]
    split
    · rename_i hboth
      simp only [Bool.and_eq_true, List.contains_iff_mem] at hboth
      obtain ⟨hcs, hct⟩ := hboth
      have hcc := hcand c (by simp)
      -- the popped candidate is a twin pair
      have htw : c.t = φ c.s := by
        have hraw := (enumFrom_mem E 0 _ c hcc).1
        have htl : c.t ∈ E.tgtLeaves := (mem_rawCands hraw).2.1
        rw [h.tgtLeaves] at htl
        obtain ⟨y, hy, hyt⟩ := List.mem_map.mp htl
        by_cases hys : y = c.s
        · rw [← hyt, hys]
        · exfalso
          have hyu : y ∈ st.us := (memφ y).mp (by rw [hyt]; exact hct)
          obtain ⟨c1, hc1, h1s, h1t⟩ := J3 c.s (show c.s ∈ E.srcLeaves from (mem_rawCands hraw).1) hcs
          obtain ⟨c2, hc2, h2s, h2t⟩ := J3 y hy hyu
          have n1 : c1 ≠ c := by
            intro e; rw [e, ← hyt] at h1t; exact hys (h.inj _ _ h1t)
          have n2 : c2 ≠ c := by
            intro e; rw [e] at h2s; exact hys h2s.symm
          have r1 : c1 ∈ rest := by simpa [n1] using hc1
          have r2 : c2 ∈ rest := by simpa [n2] using hc2
          exact key_contra h c c1 c2 hcc (hcand c1 (by simp [r1])) (hcand c2 (by simp [r2])) y hy hyt.symm hys
            h1s h1t h2s h2t (hs'.1 c1 r1) (hs'.1 c2 r2)
      have hres := ih ⟨st.us.erase c.s, st.ut.erase c.t, st.acc ++ [(c.s, c.t)]⟩ hs'.2
        (fun c' hc' => hcand c' (by simp [hc']))
        (by
          intro p hp
          simp only [List.mem_append, List.mem_singleton] at hp
          rcases hp with hp | rfl
          · exact J1 p hp
          · exact htw)
        (by simp only; rw [htw, J2, erase_map_inj φ h.inj])
        (by
          intro x hx hxu
          simp only at hxu
          have hxu' := (hnd.mem_erase_iff.mp hxu)
          obtain ⟨c', hc', hs1, ht1⟩ := J3 x hx hxu'.2
          have : c' ≠ c := by intro e; rw [e] at hs1; exact hxu'.1 hs1.symm
          exact ⟨c', by simpa [this] using hc', hs1, ht1⟩)
        (hnd.erase _)
      refine ⟨hres.1, hres.2.1, hres.2.2.1, hres.2.2.2.1, ?_⟩
      intro x hx hxu
      by_cases hxc : x = c.s
      · have : (x, φ x) ∈ st.acc ++ [(c.s, c.t)] := by simp [hxc, htw]
        exact greedy_acc_mono rest ⟨st.us.erase c.s, st.ut.erase c.t, st.acc ++ [(c.s, c.t)]⟩ (x, φ x) this
      · exact hres.2.2.2.2 x hx (by simp only; exact hnd.mem_erase_iff.mpr ⟨hxc, hxu⟩)
    · rename_i hboth
      have hres := ih st hs'.2 (fun c' hc' => hcand c' (by simp [hc'])) J1 J2
        (by
          intro x hx hxu
          obtain ⟨c', hc', hs1, ht1⟩ := J3 x hx hxu
          have : c' ≠ c := by
            intro e
            apply hboth
            rw [e] at hs1 ht1
            simp only [Bool.and_eq_true, List.contains_iff_mem]
            exact ⟨by rw [hs1]; exact hxu, by rw [ht1]; exact (memφ x).mpr hxu⟩
          exact ⟨c', by simpa [this] using hc', hs1, ht1⟩)
        hnd
      exact hres

theorem innerLoop_copy (cond : Id → Id → Bool) (φ : Id → Id) (os : List Id) (st : MState)
    (hus : st.us = os) (hut : st.ut = os.map φ) (hcond : ∀ s ∈ os, cond s (φ s) = true)
    (J1 : ∀ p ∈ st.acc, p.2 = φ p.1) :
    (innerLoop cond os st).us = [] ∧ (innerLoop cond os st).ut = [] ∧
      ∀ p ∈ (innerLoop cond os st).acc, p.2 = φ p.1 := by
  induction os generalizing st with
  | nil => exact ⟨hus, by show st.ut = []; simpa using hut, J1⟩
  | cons s os ih =>
    simp only [innerLoop]
    have hfind : st.ut.find? (cond s) = some (φ s) := by
      rw [hut]; simp [hcond s (by simp)]
    rw [hfind]
    simp only
    apply ih
    · simp [hus]
    · simp [hut]
    · intro x hx; exact hcond x (by simp [hx])
    · intro p hp
      simp only [List.mem_append, List.mem_singleton] at hp
      rcases hp with hp | rfl
      · exact J1 p hp
      · rfl

/-! ### `_lcs` is a longest common subsequence -/

/-- two lists of the same length related elementwise by `eq` -/
inductive Aligned (eq : Id → Id → Bool) : List Id → List Id → Prop
  | nil : Aligned eq [] []
  | cons {a b l l'} : eq a b = true → Aligned eq l l' → Aligned eq (a :: l) (b :: l')

theorem Aligned.length_eq {eq l l'} (h : Aligned eq l l') : l.length = l'.length := by
  induction h with
  | nil => rfl
  | cons _ _ ih => simp [ih]

theorem Aligned.append {eq a a' b b'} (h1 : Aligned eq a a') (h2 : Aligned eq b b') : Aligned eq (a ++ b) (a' ++ b') := by
  induction h1 with
  | nil => simpa using h2
  | cons h _ ih => exact Aligned.cons h ih

theorem Aligned.reverse {eq l l'} (h : Aligned eq l l') : Aligned eq l.reverse l'.reverse := by
  induction h with
  | nil => exact Aligned.nil
  | cons h _ ih =>
    simp only [List.reverse_cons]
    exact ih.append (Aligned.cons h Aligned.nil)

theorem lcsRows_tail (eq : Id → Id → Bool) (xs : List Id) (y : Id) (ys : List Id) :
    (lcsRows eq xs (y :: ys)).tail = lcsRows eq xs ys := by
  induction xs with
  | nil => simp [lcsRows, List.replicate_succ]
  | cons x xs ih => simp only [lcsRows, lcsStep, List.tail_cons, ih]

theorem lcsS_nil_left (eq : Id → Id → Bool) (ys : List Id) : lcsS eq [] ys = [] := by
  simp [lcsS, lcsRows, List.replicate_succ]

theorem lcsS_nil_right (eq : Id → Id → Bool) (xs : List Id) : lcsS eq xs [] = [] := by
  cases xs with
  | nil => exact lcsS_nil_left eq []
  | cons x xs => simp [lcsS, lcsRows, lcsStep]

/-- the recurrence of diff.py's table, on suffixes -/
theorem lcsS_cons (eq : Id → Id → Bool) (x : Id) (xs : List Id) (y : Id) (ys : List Id) :
    lcsS eq (x :: xs) (y :: ys) =
      if eq x y then x :: lcsS eq xs ys
      else if (lcsS eq xs (y :: ys)).length > (lcsS eq (x :: xs) ys).length then lcsS eq xs (y :: ys)
      else lcsS eq (x :: xs) ys := by
  simp only [lcsS, lcsRows, lcsStep, List.headD_cons, lcsRows_tail]
  rfl

/-- **the result is a common subsequence**: a subsequence of the first list that is aligned (`equal` holds
    elementwise) with a subsequence of the second -/
theorem lcsS_common (eq : Id → Id → Bool) (xs ys : List Id) :
    lcsS eq xs ys <+ xs ∧ ∃ ys', ys' <+ ys ∧ Aligned eq (lcsS eq xs ys) ys' := by
  induction xs generalizing ys with
  | nil => rw [lcsS_nil_left]; exact ⟨List.Sublist.refl _, [], List.nil_sublist _, Aligned.nil⟩
  | cons x xs ihx =>
    induction ys with
    | nil => rw [lcsS_nil_right]; exact ⟨List.nil_sublist _, [], List.nil_sublist _, Aligned.nil⟩
    | cons y ys ihy =>
      rw [lcsS_cons]
      split
      · rename_i h
        obtain ⟨h1, ys', h2, h3⟩ := ihx ys
        exact ⟨h1.cons_cons x, y :: ys', h2.cons_cons y, Aligned.cons h h3⟩
      · split
        · obtain ⟨h1, ys', h2, h3⟩ := ihx (y :: ys)
          exact ⟨h1.cons x, ys', h2, h3⟩
        · obtain ⟨h1, ys', h2, h3⟩ := ihy
          exact ⟨h1, ys', h2.cons y, h3⟩

theorem sublist_tail_of_cons {a : Id} {l l0 : List Id} (h : a :: l <+ l0) : l <+ l0 :=
  (List.sublist_cons_self a l).trans h

/-- **and a longest one**: no common subsequence is longer -/
theorem lcsS_maximal (eq : Id → Id → Bool) (xs ys : List Id) :
    ∀ l l', l <+ xs → l' <+ ys → Aligned eq l l' → l.length ≤ (lcsS eq xs ys).length := by
  induction xs generalizing ys with
  | nil =>
    intro l l' h1 _ _
    have : l = [] := List.sublist_nil.mp h1
    simp [this]
  | cons x xs ihx =>
    induction ys with
    | nil =>
      intro l l' _ h2 h3
      have : l' = [] := List.sublist_nil.mp h2
      subst this
      cases h3
      simp
    | cons y ys ihy =>
      intro l l' h1 h2 h3
      rw [lcsS_cons]
      -- how the two subsequences sit in `x :: xs` and `y :: ys`
      have key : l <+ xs ∨ l' <+ ys ∨ (∃ l1 l1', l = x :: l1 ∧ l' = y :: l1' ∧ l1 <+ xs ∧ l1' <+ ys) := by
        cases h1 with
        | cons _ h1' => exact Or.inl h1'
        | cons_cons _ h1' =>
          cases h2 with
          | cons _ h2' => exact Or.inr (Or.inl h2')
          | cons_cons _ h2' => exact Or.inr (Or.inr ⟨_, _, rfl, rfl, h1', h2'⟩)
      have up := ihx (y :: ys)
      have left := ihy
      have diag := ihx ys
      split
      · -- equal heads: 1 + L(xs, ys)
        rename_i he
        cases h3 with
        | nil => simp
        | cons hab h3' =>
          rename_i a b l1 l1'
          have s1 : l1 <+ xs := by
            rcases key with k | k | ⟨_, _, e1, _, k, _⟩
            · exact sublist_tail_of_cons k
            · cases h1 with
              | cons _ h1' => exact sublist_tail_of_cons h1'
              | cons_cons _ h1' => exact h1'
            · cases e1; exact k
          have s2 : l1' <+ ys := by
            cases h2 with
            | cons _ h2' => exact sublist_tail_of_cons h2'
            | cons_cons _ h2' => exact h2'
          have := diag l1 l1' s1 s2 h3'
          simp only [List.length_cons]
          omega
      · rename_i hne
        have bound : l.length ≤ (lcsS eq xs (y :: ys)).length ∨ l.length ≤ (lcsS eq (x :: xs) ys).length := by
          rcases key with k | k | ⟨l1, l1', e1, e2, _, _⟩
          · exact Or.inl (up l l' k h2 h3)
          · exact Or.inr (left l l' h1 k h3)
          · subst e1; subst e2
            cases h3 with
            | cons hab _ => exact absurd hab hne
        split <;> omega

/-- transfer to `_lcs` itself (the sequences as the code passes them) -/
theorem lcs_is_common_subseq (eq : Id → Id → Bool) (as bs : List Id) :
    lcs eq as bs <+ as ∧ ∃ bs', bs' <+ bs ∧ Aligned eq (lcs eq as bs) bs' := by
  obtain ⟨h1, ys', h2, h3⟩ := lcsS_common eq as.reverse bs.reverse
  refine ⟨by simpa [lcs] using h1.reverse, ys'.reverse, by simpa using h2.reverse, by simpa [lcs] using h3.reverse⟩

theorem lcs_maximal (eq : Id → Id → Bool) (as bs : List Id) (l l' : List Id)
    (h1 : l <+ as) (h2 : l' <+ bs) (h3 : Aligned eq l l') : l.length ≤ (lcs eq as bs).length := by
  have := lcsS_maximal eq as.reverse bs.reverse l.reverse l'.reverse h1.reverse h2.reverse h3.reverse
  simpa [lcs] using this

/-- `_generate_move_edits`: a child of the source node gets a Move exactly when it is matched (not in
    `_unmatched_source_nodes`) and is not part of the longest common subsequence of the two child lists under the
    matching; the Move's target is what the matching says -/
theorem move_iff_not_in_lcs (S T : Tree) (m : List (Id × Id)) (u : List Id) (s t a : Id) (b : Option Id) :
    (a, b) ∈ moveEdits S T m u s t ↔
      a ∈ S.exprArgs s ∧ a ∉ lcs (fun l r => lookup m l == some r) (S.exprArgs s) (T.exprArgs t) ∧ a ∉ u ∧
        b = lookup m a := by
  simp only [moveEdits, List.mem_flatMap]
  constructor
  · rintro ⟨x, hx, h⟩
    split at h
    · rename_i hc
      simp only [List.mem_singleton, Prod.mk.injEq] at h
      obtain ⟨rfl, rfl⟩ := h
      simp only [Bool.and_eq_true, Bool.not_eq_true', List.contains_eq_mem, decide_eq_false_iff_not] at hc
      exact ⟨hx, hc.1, hc.2, rfl⟩
    · simp at h
  · rintro ⟨hx, h1, h2, rfl⟩
    refine ⟨a, hx, ?_⟩
    have : (!(lcs (fun l r => lookup m l == some r) (S.exprArgs s) (T.exprArgs t)).contains a && !u.contains a) = true := by
      simp [h1, h2]
    rw [if_pos this]; simp

/-! ### well-formed trees, copies, and the dice axiomatisation: deriving `CopyOk` -/

structure TreeWF (S : Tree) : Prop where
  bfsNodup : S.bfs.Nodup
  rootLeavesNodup : (S.leaves S.root).Nodup
  leavesNodup : ∀ x ∈ S.index, (S.leaves x).Nodup
  kidsNodup : ∀ x ∈ S.index, (S.exprArgs x).Nodup
  leavesClosed : ∀ x ∈ S.index, ∀ l ∈ S.leaves x, l ∈ S.leaves S.root ∧ l ∈ S.index
  kids : ∀ x ∈ S.index, ∀ c ∈ S.exprArgs x,
    S.parent c = some x ∧ c ∈ S.index ∧ S.bfs.idxOf x < S.bfs.idxOf c
  parent : ∀ x ∈ S.index, (∃ p, S.parent x = some p ∧ p ∈ S.index ∧ x ∈ S.exprArgs p) ∨ (S.parent x = none ∧ x = S.root)
  rootParent : S.parent S.root = none

/-- the decidable check the driver runs on every shipped tree implies the propositional form -/
theorem wf_imp (S : Tree) (h : S.wf = true) : TreeWF S := by
  simp only [Tree.wf, Tree.wfWith, Bool.and_eq_true, decide_eq_true_eq, List.all_eq_true,
    List.contains_eq_mem, beq_iff_eq] at h
  obtain ⟨⟨⟨h1, h2⟩, h4⟩, h3⟩ := h
  refine ⟨h1, h2, ?_, ?_, ?_, ?_, ?_, h4⟩
  · intro x hx; exact (h3 x hx).1.1.1.1
  · intro x hx; exact (h3 x hx).1.1.1.2
  · intro x hx l hl; exact (h3 x hx).1.1.2 l hl
  · intro x hx c hc
    obtain ⟨⟨a, b⟩, c'⟩ := (h3 x hx).1.2 c hc
    exact ⟨a, b, c'⟩
  · intro x hx
    have := (h3 x hx).2
    cases hp : S.parent x with
    | none => rw [hp] at this; exact Or.inr ⟨rfl, by simpa using this⟩
    | some p => rw [hp] at this; exact Or.inl ⟨p, rfl, by simpa using this⟩

/-- `T` is a node-for-node copy of `S` (what `Expr.copy()` produces), `φ` maps a node to its twin -/
structure IsCopy (S T : Tree) (φ : Id → Id) : Prop where
  inj : ∀ a b, φ a = φ b → a = b
  root : T.root = φ S.root
  size : T.size = S.size
  kids : ∀ x, T.kids (φ x) = (S.kids x).map φ
  parent : ∀ x, T.parent (φ x) = (S.parent x).map φ
  cls : ∀ x, T.cls (φ x) = S.cls x
  ty : ∀ x, T.ty (φ x) = S.ty x
  ignored : ∀ x, T.ignored (φ x) = S.ignored x
  nel : ∀ x, T.nel (φ x) = S.nel x
  eqc : ∀ x, T.eqc (φ x) = S.eqc x
  txt : ∀ x, T.txt (φ x) = S.txt x

/-- what the harness validates about the real `_dice_coefficient` on every shipped pair: it never exceeds `top`
    (the rank of 1.0) and equals it when the two nodes render to the same text and are `==` (for texts shorter than two
    characters there are no bigrams and the code answers `1.0 if source == target else 0.0`) -/
structure DiceOk (S T : Tree) (dice : Id → Id → Nat) (top : Nat) : Prop where
  le_top : ∀ s t, dice s t ≤ top
  eq_txt : ∀ s t, S.txt s = T.txt t → S.eqc s = T.eqc t → dice s t = top

theorem bfsGo_copy {S T : Tree} {φ : Id → Id} (hc : IsCopy S T φ) (fuel : Nat) (q : List Id) :
    bfsGo T.kids fuel (q.map φ) = (bfsGo S.kids fuel q).map φ := by
  induction fuel generalizing q with
  | zero => simp [bfsGo]
  | succ n ih =>
    cases q with
    | nil => simp [bfsGo]
    | cons x q =>
      simp only [List.map_cons, bfsGo]
      rw [hc.kids, ← List.map_append, ih]

theorem index_copy {S T : Tree} {φ : Id → Id} (hc : IsCopy S T φ) : T.index = S.index.map φ := by
  simp only [Tree.index, Tree.bfs, hc.root, hc.size]
  have := bfsGo_copy hc S.size [S.root]
  simp only [List.map_cons, List.map_nil] at this
  rw [this, List.filter_map]
  congr 1
  apply List.filter_congr
  intro x _
  simp [hc.ignored]

theorem exprArgs_copy {S T : Tree} {φ : Id → Id} (hc : IsCopy S T φ) (x : Id) :
    T.exprArgs (φ x) = (S.exprArgs x).map φ := by
  simp only [Tree.exprArgs, hc.kids, List.filter_map]
  congr 1
  apply List.filter_congr
  intro k _
  simp [hc.ignored]

theorem leavesGo_copy {S T : Tree} {φ : Id → Id} (hc : IsCopy S T φ) (fuel : Nat) (x : Id) :
    leavesGo T fuel (φ x) = (leavesGo S fuel x).map φ := by
  induction fuel generalizing x with
  | zero => simp [leavesGo]
  | succ n ih =>
    simp only [leavesGo, exprArgs_copy hc]
    cases S.exprArgs x with
    | nil => simp
    | cons k ks =>
      simp only [List.map_cons, List.flatMap_cons, List.map_append, ih]
      congr 1
      rw [List.flatMap_map, List.map_flatMap]
      congr 1
      funext a
      exact ih a

theorem leaves_copy {S T : Tree} {φ : Id → Id} (hc : IsCopy S T φ) (x : Id) :
    T.leaves (φ x) = (S.leaves x).map φ := by
  simp only [Tree.leaves, hc.size]; exact leavesGo_copy hc _ x

theorem leavesGo_ne_nil (S : Tree) (fuel : Nat) (x : Id) : leavesGo S fuel x ≠ [] := by
  induction fuel generalizing x with
  | zero => simp [leavesGo]
  | succ n ih =>
    simp only [leavesGo]
    cases h : S.exprArgs x with
    | nil => simp
    | cons k ks =>
      simp only [List.flatMap_cons]
      intro hnil
      exact ih k (List.append_eq_nil_iff.mp hnil).1

theorem psimGo_copy_le {S T : Tree} {φ : Id → Id} (hc : IsCopy S T φ) (fuel : Nat) (oa ob : Option Id) :
    psimGo S T fuel oa (ob.map φ) ≤ psimGo S T fuel oa (oa.map φ) ∧
    psimGo S T fuel oa (ob.map φ) ≤ psimGo S T fuel ob (ob.map φ) := by
  induction fuel generalizing oa ob with
  | zero => simp [psimGo]
  | succ n ih =>
    cases oa with
    | none => simp [psimGo]
    | some a =>
      cases ob with
      | none => simp [psimGo]
      | some b =>
        simp only [Option.map_some, psimGo, hc.cls, hc.parent, beq_self_eq_true, if_true]
        have := ih (S.parent a) (S.parent b)
        split <;> omega

theorem nodup_subset_length {α} [DecidableEq α] {l l' : List α} (hN : l.Nodup) (hs : ∀ a ∈ l, a ∈ l') : l.length ≤ l'.length := by
  induction l generalizing l' with
  | nil => simp
  | cons a l ih =>
    have hN' := List.nodup_cons.mp hN
    have ha : a ∈ l' := hs a (by simp)
    have := ih (l' := l'.erase a) hN'.2 (by
      intro b hb
      have hne : b ≠ a := fun e => hN'.1 (e ▸ hb)
      exact (List.mem_erase_of_ne hne).mpr (hs b (by simp [hb])))
    rw [List.length_erase_of_mem ha] at this
    have hpos : 0 < l'.length := List.length_pos_of_mem ha
    simp only [List.length_cons]; omega

theorem lookup_twin {φ : Id → Id} {m : List (Id × Id)} (hm : ∀ p ∈ m, p.2 = φ p.1) {k : Id} (hk : (k, φ k) ∈ m) :
    lookup m k = some (φ k) := by
  unfold lookup
  cases hf : m.find? (fun p => p.1 == k) with
  | none =>
    have := List.find?_eq_none.mp hf (k, φ k) hk
    simp at this
  | some q =>
    have h1 : q ∈ m := List.mem_of_find?_eq_some hf
    have h2 : q.1 = k := by simpa using List.find?_some hf
    simp [hm q h1, h2]

/-- **`CopyOk` derived**: for a well-formed tree against a copy, the oracle facts follow from the structure of the two
    trees plus the dice axiomatisation and two facts about the parameters (`f ≤ 1`, high threshold `≤ 1`) -/
theorem copyOk_of_isCopy (P : Params) (S T : Tree) (dice : Id → Id → Nat) (φ : Id → Id) (top : Nat)
    (hc : IsCopy S T φ) (hw : TreeWF S) (hd : DiceOk S T dice top) (hf : P.f ≤ top) (hhi : P.hi.1 ≤ P.hi.2) :
    CopyOk (envOf P S T dice) φ where
  tgtLeaves := by
    show T.leaves T.root = (S.leaves S.root).map φ
    rw [hc.root]; exact leaves_copy hc _
  tgtIndex := index_copy hc
  inj := hc.inj
  srcNodup := hw.bfsNodup.filter _
  leavesNodup := hw.rootLeavesNodup
  twinType := by intro x; simp [envOf, hc.ty]
  diceTop := by
    intro x s t
    show dice s t ≤ dice x (φ x)
    rw [hd.eq_txt x (φ x) (hc.txt x).symm (hc.eqc x).symm]; exact hd.le_top s t
  fLe := by
    intro x
    show P.f ≤ dice x (φ x)
    rw [hd.eq_txt x (φ x) (hc.txt x).symm (hc.eqc x).symm]; exact hf
  psimTwin := by
    intro s y
    have := psimGo_copy_le hc (S.size + 1) (some s) (some y)
    simpa [envOf, psimOf] using this
  innerTwin := by
    intro lm hlm x hx
    show innerSimOf P S T dice lm x (φ x) = true
    have hne : (S.leaves x) ≠ [] := leavesGo_ne_nil S _ x
    have hpos : 0 < (S.leaves x).length := List.length_pos_iff.mpr hne
    have hcount : (S.leaves x).length ≤
        (lm.filter fun p => (S.leaves x).contains p.1 && (T.leaves (φ x)).contains p.2).length := by
      have hnd : ((S.leaves x).map fun l => (l, φ l)).Nodup := by
        rw [List.Nodup, List.pairwise_map]
        exact (hw.leavesNodup x hx).imp (fun hab he => hab (by simpa using (Prod.mk.inj he).1))
      have := nodup_subset_length hnd (l' := lm.filter fun p => (S.leaves x).contains p.1 && (T.leaves (φ x)).contains p.2) (by
        intro a ha
        obtain ⟨l, hl, rfl⟩ := List.mem_map.mp ha
        have hcl := hw.leavesClosed x hx l hl
        refine List.mem_filter.mpr ⟨hlm l hcl.1 hcl.2, ?_⟩
        simp only [Bool.and_eq_true, List.contains_eq_mem, decide_eq_true_eq]
        exact ⟨hl, by rw [leaves_copy hc]; exact List.mem_map.mpr ⟨l, hl, rfl⟩⟩)
      simpa using this
    simp only [innerSimOf, Bool.or_eq_true]
    left
    rw [leaves_copy hc] at hcount ⊢
    simp only [List.length_map, Nat.max_self, geFrac]
    rw [if_neg (by omega)]
    simp only [decide_eq_true_eq]
    calc P.hi.1 * (S.leaves x).length ≤ P.hi.2 * (S.leaves x).length := Nat.mul_le_mul_right _ hhi
      _ ≤ P.hi.2 * _ := Nat.mul_le_mul_left _ hcount
      _ = _ := Nat.mul_comm _ _

/-- twins end in Keep -/
theorem isUpdateOf_twin {P : Params} {S T : Tree} {φ : Id → Id} (hc : IsCopy S T φ) (x : Id) :
    isUpdateOf P S T x (φ x) = false := by
  simp [isUpdateOf, identical, hc.eqc, hc.nel]

/-- twins whose parents are matched as twins get no Move -/
theorem movesOf_twin {S T : Tree} {φ : Id → Id} (hc : IsCopy S T φ) (hw : TreeWF S) (m : List (Id × Id)) (u : List Id)
    (x : Id) (hm : ∀ p ∈ m, p.2 = φ p.1) (hall : ∀ y ∈ S.index, (y, φ y) ∈ m) (hx : x ∈ S.index) :
    movesOf S T m u x (φ x) = [] := by
  have hid : identical S T x (φ x) = true := by simp [identical, hc.eqc]
  simp only [movesOf, hid, Bool.or_true, if_true]
  have : parentMoved S T m x (φ x) = false := by
    simp only [parentMoved, hc.parent]
    rcases hw.parent x hx with ⟨p, hp, hpi⟩ | ⟨hp, _⟩
    · rw [hp]
      simp [lookup_twin hm (hall p hpi.1)]
    · rw [hp]; rfl
  simp [this]

/-! ### delta empty ⇒ equal: every kept pair is `==` -/

/-- structural congruence of `Expr.__eq__` (validated by the harness on every shipped pair of nodes): same class, equal
    non-expression leaves, equal Identifier children, equal child layout and pairwise `==` expression children make two
    nodes `==` -/
structure EqcCongr (S T : Tree) : Prop where
  congr : ∀ s t, S.cls s = T.cls t → S.nel s = T.nel t → S.idk s = T.idk t → S.lay s = T.lay t →
    Aligned (fun a b => S.eqc a == T.eqc b) (S.exprArgs s) (T.exprArgs t) → S.eqc s = T.eqc t

theorem lookup_mem {m : List (Id × Id)} {k v : Id} (h : lookup m k = some v) : (k, v) ∈ m := by
  unfold lookup at h
  cases hf : m.find? (fun p => p.1 == k) with
  | none => simp [hf] at h
  | some q =>
    have h1 : q ∈ m := List.mem_of_find?_eq_some hf
    have h2 : q.1 = k := by simpa using List.find?_some hf
    simp [hf] at h
    obtain ⟨a, b⟩ := q
    simp only at h2 h; subst h2; subst h; exact h1

theorem lookup_of_mem {m : List (Id × Id)} (hN : (fsts m).Nodup) {k v : Id} (h : (k, v) ∈ m) : lookup m k = some v := by
  cases hl : lookup m k with
  | none =>
    unfold lookup at hl
    cases hf : m.find? (fun p => p.1 == k) with
    | none =>
      have := List.find?_eq_none.mp hf (k, v) h
      simp at this
    | some q => simp [hf] at hl
  | some v' =>
    have h' := lookup_mem hl
    have := nodup_map_inj (fun x : Id × Id => x.1) m (by simpa [fsts] using hN) (k, v') (k, v) h' h rfl
    simp at this; simp [this]

theorem Aligned.exists_right {eq l l'} (h : Aligned eq l l') {a : Id} (ha : a ∈ l) : ∃ b ∈ l', eq a b = true := by
  induction h with
  | nil => simp at ha
  | cons hab _ ih =>
    simp only [List.mem_cons] at ha
    rcases ha with rfl | ha
    · exact ⟨_, by simp, hab⟩
    · obtain ⟨b, hb, he⟩ := ih ha
      exact ⟨b, by simp [hb], he⟩

theorem Aligned.imp_mem {eq eq' : Id → Id → Bool} {l l'} (h : Aligned eq l l')
    (himp : ∀ a b, a ∈ l → b ∈ l' → eq a b = true → eq' a b = true) : Aligned eq' l l' := by
  induction h with
  | nil => exact Aligned.nil
  | cons hab _ ih =>
    refine Aligned.cons (himp _ _ (by simp) (by simp) hab) (ih ?_)
    intro a b ha hb he
    exact himp a b (by simp [ha]) (by simp [hb]) he

/-- **the core of `delta_empty_imp_equal`**: a total, injective matching in which every pair has equal class,
    non-expression leaves, layout, is `==` when updatable or else has equal Identifier children, and in which no pair
    produced a Move, pairs only `==` nodes.  Induction along the target's BFS order (children come later): for the
    first pair that is not `==`, absence of Moves forces the two child lists to correspond one-to-one in order
    (`lcs_is_common_subseq`, no target child left over because its partner would have changed parent), the children are
    `==` by induction, so congruence makes the pair `==`. -/
theorem kept_pairs_identical (S T : Tree) (m : List (Id × Id)) (hwS : TreeWF S) (hwT : TreeWF T)
    (hm1 : (fsts m).Nodup) (hm2 : (snds m).Nodup)
    (hidx : ∀ p ∈ m, p.1 ∈ S.index ∧ p.2 ∈ T.index)
    (hsurjT : ∀ y ∈ T.index, y ∈ snds m)
    (hcls : ∀ p ∈ m, S.cls p.1 = T.cls p.2)
    (hnel : ∀ p ∈ m, S.nel p.1 = T.nel p.2)
    (hupd : ∀ p ∈ m, S.updatable p.1 = true → S.eqc p.1 = T.eqc p.2)
    (hidk : ∀ p ∈ m, S.eqc p.1 = T.eqc p.2 ∨ S.idk p.1 = T.idk p.2)
    (hlay : ∀ p ∈ m, S.lay p.1 = T.lay p.2)
    (hmov : ∀ p ∈ m, movesOf S T m [] p.1 p.2 = [])
    (hcg : EqcCongr S T) :
    ∀ p ∈ m, S.eqc p.1 = T.eqc p.2 := by
  have main : ∀ n, ∀ p ∈ m, T.bfs.length - T.bfs.idxOf p.2 ≤ n → S.eqc p.1 = T.eqc p.2 := by
    intro n
    induction n with
    | zero =>
      intro p hp hle
      have hin : p.2 ∈ T.bfs := (List.mem_filter.mp (hidx p hp).2).1
      have := List.idxOf_lt_length_of_mem hin
      omega
    | succ n ih =>
      intro p hp hle
      obtain ⟨s, t⟩ := p
      simp only at hle ⊢
      by_cases hid : S.eqc s = T.eqc t
      · exact hid
      · exfalso
        have hsI := (hidx _ hp).1
        have htI := (hidx _ hp).2
        simp only at hsI htI
        have hnu : S.updatable s = false := by
          cases hu : S.updatable s with
          | false => rfl
          | true => exact absurd (hupd _ hp hu) hid
        have hnid : identical S T s t = false := by simp [identical, hid]
        -- no Move: every source child is in the LCS
        have hme : moveEdits S T m [] s t = [] := by
          have := hmov _ hp
          simpa [movesOf, hnu, hnid] using this
        let eqm : Id → Id → Bool := fun l r => lookup m l == some r
        have hall : ∀ a ∈ S.exprArgs s, a ∈ lcs eqm (S.exprArgs s) (T.exprArgs t) := by
          intro a ha
          by_cases hin : a ∈ lcs eqm (S.exprArgs s) (T.exprArgs t)
          · exact hin
          · have := (move_iff_not_in_lcs S T m [] s t a (lookup m a)).mpr ⟨ha, hin, by simp, rfl⟩
            rw [hme] at this; simp at this
        obtain ⟨hsub, ys', hys, hal⟩ := lcs_is_common_subseq eqm (S.exprArgs s) (T.exprArgs t)
        have hlcs : lcs eqm (S.exprArgs s) (T.exprArgs t) = S.exprArgs s :=
          hsub.eq_of_length_le (nodup_subset_length (hwS.kidsNodup s hsI) hall)
        rw [hlcs] at hal
        -- children of t have a smaller measure
        have hkid : ∀ c' ∈ T.exprArgs t, ∀ c, (c, c') ∈ m → S.eqc c = T.eqc c' := by
          intro c' hc' c hcm
          have hk := hwT.kids t htI c' hc'
          have hlt := List.idxOf_lt_length_of_mem (List.mem_filter.mp hk.2.1).1
          exact ih (c, c') hcm (by simp only; omega)
        -- no target child is left over
        have hys_all : ∀ c' ∈ T.exprArgs t, c' ∈ ys' := by
          intro c' hc'
          have hk := hwT.kids t htI c' hc'
          obtain ⟨q, hq, hq2⟩ := List.mem_map.mp (hsurjT c' hk.2.1)
          obtain ⟨c, c''⟩ := q
          simp only at hq2; subst hq2
          have hcid := hkid _ hc' c hq
          have hcI := (hidx _ hq).1
          simp only at hcI
          have hmv := hmov _ hq
          have hidc : identical S T c c'' = true := by simp [identical, hcid]
          simp only [movesOf, hidc, Bool.or_true, if_true] at hmv
          have hpm : parentMoved S T m c c'' = false := by
            cases hpmv : parentMoved S T m c c'' with
            | false => rfl
            | true => simp [hpmv] at hmv
          simp only [parentMoved, hk.1] at hpm
          cases hps : S.parent c with
          | none => simp [hps] at hpm
          | some ps =>
            simp only [hps, bne_eq_false_iff_eq] at hpm
            have hpt : (ps, t) ∈ m := lookup_mem hpm
            have hps_eq : ps = s := by
              have := nodup_map_inj (fun x : Id × Id => x.2) m (by simpa [snds] using hm2) (ps, t) (s, t) hpt hp rfl
              simpa using this
            subst hps_eq
            have hca : c ∈ S.exprArgs ps := by
              rcases hwS.parent c hcI with ⟨p', hp', _, hmem⟩ | ⟨hnone, _⟩
              · rw [hps] at hp'; cases hp'; exact hmem
              · rw [hps] at hnone; cases hnone
            obtain ⟨b, hb, hbe⟩ := hal.exists_right hca
            have : lookup m c = some b := by simpa [eqm] using hbe
            rw [lookup_of_mem hm1 hq] at this
            cases this
            exact hb
        have hyeq : ys' = T.exprArgs t :=
          hys.eq_of_length_le (nodup_subset_length (hwT.kidsNodup t htI) hys_all)
        rw [hyeq] at hal
        have hal' : Aligned (fun a b => S.eqc a == T.eqc b) (S.exprArgs s) (T.exprArgs t) := by
          refine hal.imp_mem ?_
          intro a b _ hb he
          have hab : (a, b) ∈ m := lookup_mem (by simpa [eqm] using he)
          simpa using hkid b hb a hab
        have hidk' : S.idk s = T.idk t := by
          rcases hidk _ hp with h | h
          · exact absurd h hid
          · exact h
        exact hid (hcg.congr s t (hcls _ hp) (hnel _ hp) hidk' (hlay _ hp) hal')
  intro p hp
  exact main _ p hp (Nat.le_refl _)

/-! ### the `diff()` wrapper -/
namespace Wrapper

def Consistent (w : Walk) : Prop :=
  ∀ (k : Nat) (n : WNode), w[k]? = some n → n.ptr = n.pp.bind (fun j => (w[j]?).map (·.obj))

def ValidPos (w : Walk) : Prop := ∀ (k : Nat) (n : WNode) (j : Nat), w[k]? = some n → n.pp = some j → j < w.length

theorem copyFrom_getElem? (fresh : Nat → Id) (i : Nat) (w : Walk) (k : Nat) :
    (copyFrom fresh i w)[k]? = (w[k]?).map (fun n => ⟨fresh (i + k), n.pp, n.pp.map fresh⟩) := by
  induction w generalizing i k with
  | nil => simp [copyFrom]
  | cons n rest ih =>
    cases k with
    | zero => simp [copyFrom]
    | succ k =>
      simp only [copyFrom, List.getElem?_cons_succ, ih]
      have : i + 1 + k = i + (k + 1) := by omega
      rw [this]

theorem copyFrom_objs (fresh : Nat → Id) (i : Nat) (w : Walk) :
    objs (copyFrom fresh i w) = (List.range' i w.length).map fresh := by
  induction w generalizing i with
  | nil => simp [copyFrom, objs]
  | cons n rest ih =>
    have := ih (i + 1)
    simp only [objs] at this
    simp [copyFrom, objs, List.range'_succ, this]

theorem mem_copy_objs {fresh : Nat → Id} {w : Walk} {y : Id} (h : y ∈ objs (copyWalk fresh w)) : ∃ i, y = fresh i := by
  rw [copyWalk, copyFrom_objs] at h
  obtain ⟨i, _, rfl⟩ := List.mem_map.mp h
  exact ⟨i, rfl⟩

theorem copy_objs_nodup (fresh : Nat → Id) (inj : ∀ i j, fresh i = fresh j → i = j) (w : Walk) :
    (objs (copyWalk fresh w)).Nodup := by
  rw [copyWalk, copyFrom_objs, List.Nodup, List.pairwise_map]
  exact (List.nodup_range' (s := 0) (n := w.length)).imp (fun hne he => hne (inj _ _ he))

/-- a copy is parent-consistent by construction -/
theorem copyWalk_consistent (fresh : Nat → Id) (w : Walk) (hv : ValidPos w) : Consistent (copyWalk fresh w) := by
  unfold Consistent
  intro k n' h
  rw [copyWalk, copyFrom_getElem?] at h
  cases hw : w[k]? with
  | none => simp [hw] at h
  | some n =>
    simp only [hw, Option.map_some, Option.some.injEq] at h
    subst h
    simp only
    cases hp : n.pp with
    | none => rfl
    | some j =>
      have hj := hv k n j hw hp
      simp only [Option.map_some, Option.bind_some, copyWalk, copyFrom_getElem?]
      have : w[j]? = some w[j] := List.getElem?_eq_getElem hj
      simp [this]

/-- what the distiller sees under today's policy -/
def seenToday (sw tw : Walk) (fs ft : Nat → Id) : List Id :=
  objs (if needCopy sw tw then copyWalk fs sw else sw) ++ objs (if needCopy sw tw then copyWalk ft tw else tw)

theorem hashAfter_today (sw tw : Walk) (fs ft : Nat → Id) (hasM : Bool) (touched hash0 : Id → Bool) (x : Id) :
    (runDiff today sw tw fs ft hasM touched hash0).hashAfter x =
      if ((objs sw ++ objs tw).contains x && (!(needCopy sw tw && hasM) && !hash0 x)) = true then false
      else (hash0 x ||
        (if (needCopy sw tw && hasM) = true then seenToday sw tw fs ft else objs sw ++ objs tw).contains x ||
        (touched x && (seenToday sw tw fs ft).contains x)) := rfl

theorem seen_today (sw tw : Walk) (fs ft : Nat → Id) (hasM : Bool) (touched hash0 : Id → Bool) :
    objs (runDiff today sw tw fs ft hasM touched hash0).seenS ++ objs (runDiff today sw tw fs ft hasM touched hash0).seenT
      = seenToday sw tw fs ft := rfl

theorem input_not_seen_when_copied (sw tw : Walk) (fs ft : Nat → Id)
    (hfs : ∀ i, fs i ∉ objs sw ++ objs tw) (hft : ∀ i, ft i ∉ objs sw ++ objs tw)
    (hc : needCopy sw tw = true) (x : Id) (hx : x ∈ objs sw ++ objs tw) : x ∉ seenToday sw tw fs ft := by
  simp only [seenToday, hc, if_true, List.mem_append, not_or]
  exact ⟨fun h => by obtain ⟨i, rfl⟩ := mem_copy_objs h; exact hfs i hx,
         fun h => by obtain ⟨i, rfl⟩ := mem_copy_objs h; exact hft i hx⟩

/-- **`diff_leaves_inputs_untouched`** (today's `diff()`, both branches): every input node's `_hash` cache is the same
    after the call as before it — nodes that came in hashed (an input that is part of a bigger, already hashed tree)
    stay hashed, nodes that came in unhashed leave unhashed.  Objects that are neither inputs nor seen by the distiller
    (ancestors of a subtree input) are never touched.  Holds whatever hashes the distiller itself computes. -/
theorem diff_leaves_inputs_untouched (sw tw : Walk) (fs ft : Nat → Id) (hasM : Bool) (touched hash0 : Id → Bool)
    (hfs : ∀ i, fs i ∉ objs sw ++ objs tw) (hft : ∀ i, ft i ∉ objs sw ++ objs tw) :
    (∀ x ∈ objs sw ++ objs tw, (runDiff today sw tw fs ft hasM touched hash0).hashAfter x = hash0 x) ∧
    (∀ y, y ∉ objs sw ++ objs tw →
      y ∉ objs (runDiff today sw tw fs ft hasM touched hash0).seenS ++ objs (runDiff today sw tw fs ft hasM touched hash0).seenT →
      (runDiff today sw tw fs ft hasM touched hash0).hashAfter y = hash0 y) := by
  constructor
  · intro x hx
    rw [hashAfter_today]
    by_cases hc : (needCopy sw tw && hasM) = true
    · have hcopy : needCopy sw tw = true := by
        simp only [Bool.and_eq_true] at hc; exact hc.1
      have hns := input_not_seen_when_copied sw tw fs ft hfs hft hcopy x hx
      simp [hc, hns]
    · simp only [Bool.not_eq_true] at hc
      cases hh : hash0 x <;> rcases List.mem_append.mp hx with h | h <;> simp [hc, h, hh]
  · intro y hy1 hy2
    rw [seen_today] at hy2
    rw [hashAfter_today]
    have h1 := hy1
    simp only [List.mem_append, not_or] at h1
    by_cases hc : (needCopy sw tw && hasM) = true
    · simp [hc, hy2, h1.1, h1.2]
    · simp only [Bool.not_eq_true] at hc
      simp [hc, h1.1, h1.2, hy2]

/-- **`diff_copies_when_shared`** (today's `diff()`): the two trees handed to the ChangeDistiller never share an object
    and never contain an object twice; and every object's `.parent` pointer lies inside the tree it is seen in
    (copies by construction, uncopied inputs because unshared inputs are assumed well-formed). -/
theorem diff_copies_when_shared (sw tw : Walk) (fs ft : Nat → Id) (hasM : Bool) (touched hash0 : Id → Bool)
    (hfsInj : ∀ i j, fs i = fs j → i = j) (hftInj : ∀ i j, ft i = ft j → i = j) (hdisj : ∀ i j, fs i ≠ ft j) :
    (objs (runDiff today sw tw fs ft hasM touched hash0).seenS ++
      objs (runDiff today sw tw fs ft hasM touched hash0).seenT).Nodup ∧
    (ValidPos sw → ValidPos tw → (needCopy sw tw = false → Consistent sw ∧ Consistent tw) →
      Consistent (runDiff today sw tw fs ft hasM touched hash0).seenS ∧
      Consistent (runDiff today sw tw fs ft hasM touched hash0).seenT) := by
  cases hc : needCopy sw tw with
  | true =>
    simp only [runDiff, today, applyRule, hc, if_true]
    constructor
    · rw [List.nodup_append]
      refine ⟨copy_objs_nodup fs hfsInj sw, copy_objs_nodup ft hftInj tw, ?_⟩
      intro a ha b hb hab
      obtain ⟨i, rfl⟩ := mem_copy_objs ha
      obtain ⟨j, rfl⟩ := mem_copy_objs hb
      exact hdisj i j hab
    · intro hv1 hv2 _
      exact ⟨copyWalk_consistent fs sw hv1, copyWalk_consistent ft tw hv2⟩
  | false =>
    simp only [runDiff, today, applyRule, hc]
    simp only [needCopy, selfDup, Bool.or_eq_false_iff, Bool.not_eq_false', decide_eq_true_eq, List.any_eq_false,
      List.contains_eq_mem, decide_eq_true_eq] at hc
    constructor
    · rw [List.nodup_append]
      refine ⟨hc.1.1, hc.1.2, ?_⟩
      intro a ha b hb hab
      subst hab
      exact hc.2 a ha hb
    · intro _ _ h
      exact h trivial

end Wrapper

/-! ### the parent-link invariant (C08) and copies -/

/-- the `.parent` pointer of every object is its structural owner (propositional form, all ids) -/
def LinkInv (S : Tree) : Prop := ∀ c, S.parent c = S.structParent c

/-- `T` is a structural copy of `S` — what `__deepcopy__` builds BEFORE any statement about `.parent` pointers:
    same shape and payload, fresh objects -/
structure IsStructCopy (S T : Tree) (φ : Id → Id) : Prop where
  inj : ∀ a b, φ a = φ b → a = b
  root : T.root = φ S.root
  size : T.size = S.size
  kids : ∀ x, T.kids (φ x) = (S.kids x).map φ
  cls : ∀ x, T.cls (φ x) = S.cls x
  ty : ∀ x, T.ty (φ x) = S.ty x
  ignored : ∀ x, T.ignored (φ x) = S.ignored x
  nel : ∀ x, T.nel (φ x) = S.nel x
  eqc : ∀ x, T.eqc (φ x) = S.eqc x
  txt : ∀ x, T.txt (φ x) = S.txt x

theorem bfs_struct_copy {S T : Tree} {φ : Id → Id} (hc : IsStructCopy S T φ) : T.bfs = S.bfs.map φ := by
  simp only [Tree.bfs, hc.root, hc.size]
  have key : ∀ fuel q, bfsGo T.kids fuel (q.map φ) = (bfsGo S.kids fuel q).map φ := by
    intro fuel
    induction fuel with
    | zero => intro q; simp [bfsGo]
    | succ n ih =>
      intro q
      cases q with
      | nil => simp [bfsGo]
      | cons x q =>
        simp only [List.map_cons, bfsGo]
        rw [hc.kids, ← List.map_append, ih]
  simpa using key S.size [S.root]

/-- under the link invariant on BOTH trees, a structural copy also copies the parent pointers -/
theorem parent_of_struct_copy {S T : Tree} {φ : Id → Id} (hc : IsStructCopy S T φ) (hS : LinkInv S) (hT : LinkInv T)
    (x : Id) : T.parent (φ x) = (S.parent x).map φ := by
  rw [hT (φ x), hS x, Tree.structParent, Tree.structParent, bfs_struct_copy hc, List.find?_map]
  have hfun : ((fun p => (T.kids p).contains (φ x)) ∘ φ) = fun p => (S.kids p).contains x := by
    funext p
    simp only [Function.comp, hc.kids]
    by_cases hx : x ∈ S.kids p
    · have : φ x ∈ (S.kids p).map φ := List.mem_map.mpr ⟨x, hx, rfl⟩
      simp [hx, this]
    · have : φ x ∉ (S.kids p).map φ := by
        intro h
        obtain ⟨y, hy, he⟩ := List.mem_map.mp h
        exact hx (hc.inj _ _ he ▸ hy)
      simp [hx, this]
  rw [hfun]

theorem isCopy_of_struct {S T : Tree} {φ : Id → Id} (hc : IsStructCopy S T φ) (hS : LinkInv S) (hT : LinkInv T) :
    IsCopy S T φ where
  inj := hc.inj
  root := hc.root
  size := hc.size
  kids := hc.kids
  parent := parent_of_struct_copy hc hS hT
  cls := hc.cls
  ty := hc.ty
  ignored := hc.ignored
  nel := hc.nel
  eqc := hc.eqc
  txt := hc.txt

end SqlglotModel.Diff
