/- Helper lemmas for C20 (ChangeDistiller model): conservation of the unmatched sets, provenance of matched pairs. -/
import SqlglotModel.Model.Diff

namespace SqlglotModel.Diff

def fsts (l : List (Id × Id)) : List Id := l.map (·.1)
def snds (l : List (Id × Id)) : List Id := l.map (·.2)

@[simp] theorem fsts_append (a b : List (Id × Id)) : fsts (a ++ b) = fsts a ++ fsts b := by simp [fsts]
@[simp] theorem snds_append (a b : List (Id × Id)) : snds (a ++ b) = snds a ++ snds b := by simp [snds]
@[simp] theorem fsts_nil : fsts [] = [] := rfl
@[simp] theorem snds_nil : snds [] = [] := rfl
@[simp] theorem fsts_single (p : Id × Id) : fsts [p] = [p.1] := rfl
@[simp] theorem snds_single (p : Id × Id) : snds [p] = [p.2] := rfl

theorem count_erase_add {l : List Id} {a : Id} (h : a ∈ l) (n : Id) :
    (l.erase a).count n + [a].count n = l.count n := by
  by_cases hn : n = a
  · subst hn
    have : 0 < l.count n := List.count_pos_iff.mpr h
    simp [List.count_erase_self]; omega
  · have : (a == n) = false := by simpa using fun h => hn h.symm
    simp [List.count_erase_of_ne hn, List.count_cons, this]

theorem nodup_map_inj {α β} (f : α → β) (l : List α) (h : (l.map f).Nodup) :
    ∀ a b, a ∈ l → b ∈ l → f a = f b → a = b := by
  induction l with
  | nil => intro a b ha; simp at ha
  | cons x l ih =>
    simp only [List.map_cons, List.nodup_cons, List.mem_map, not_exists, not_and] at h
    intro a b ha hb hab
    simp only [List.mem_cons] at ha hb
    rcases ha with rfl | ha <;> rcases hb with rfl | hb
    · rfl
    · exact absurd hab.symm (h.1 b hb)
    · exact absurd hab (h.1 a ha)
    · exact ih h.2 a b ha hb hab

/-! ### the leaf pass -/

theorem greedy_count_src (L : List Cand) (st : MState) (n : Id) :
    (greedy L st).us.count n + (fsts (greedy L st).acc).count n = st.us.count n + (fsts st.acc).count n := by
  induction L generalizing st with
  | nil => rfl
  | cons c rest ih =>
    simp only [greedy]
    split
    · rename_i h
      have hs : c.s ∈ st.us := by simp at h; exact h.1
      rw [ih]
      have := count_erase_add hs n
      simp [List.count_append] at this ⊢; omega
    · exact ih st

theorem greedy_count_tgt (L : List Cand) (st : MState) (n : Id) :
    (greedy L st).ut.count n + (snds (greedy L st).acc).count n = st.ut.count n + (snds st.acc).count n := by
  induction L generalizing st with
  | nil => rfl
  | cons c rest ih =>
    simp only [greedy]
    split
    · rename_i h
      have hs : c.t ∈ st.ut := by simp at h; exact h.2
      rw [ih]
      have := count_erase_add hs n
      simp [List.count_append] at this ⊢; omega
    · exact ih st

theorem greedy_acc_prov (L : List Cand) (st : MState) :
    ∀ p ∈ (greedy L st).acc, p ∈ st.acc ∨ ∃ c ∈ L, p = (c.s, c.t) := by
  induction L generalizing st with
  | nil => intro p hp; exact Or.inl hp
  | cons c rest ih =>
    intro p hp
    simp only [greedy] at hp
    split at hp
    · rcases ih _ p hp with h | ⟨c', hc', rfl⟩
      · simp at h
        rcases h with h | h
        · exact Or.inl h
        · exact Or.inr ⟨c, by simp, h⟩
      · exact Or.inr ⟨c', by simp [hc'], rfl⟩
    · rcases ih _ p hp with h | ⟨c', hc', rfl⟩
      · exact Or.inl h
      · exact Or.inr ⟨c', by simp [hc'], rfl⟩

theorem enumFrom_mem (E : Env) (n : Nat) (l : List (Id × Id)) :
    ∀ c ∈ enumFrom E n l, (c.s, c.t) ∈ l ∧ c.score = E.dice c.s c.t ∧ c.psim = E.psim c.s c.t ∧ n ≤ c.idx := by
  induction l generalizing n with
  | nil => intro c hc; simp [enumFrom] at hc
  | cons p rest ih =>
    obtain ⟨s, t⟩ := p
    intro c hc
    simp only [enumFrom, List.mem_cons] at hc
    rcases hc with rfl | hc
    · simp
    · obtain ⟨h1, h2, h3, h4⟩ := ih (n + 1) c hc
      exact ⟨by simp [h1], h2, h3, by omega⟩

theorem mem_rawCands {E : Env} {p : Id × Id} (h : p ∈ rawCands E) :
    p.1 ∈ E.srcLeaves ∧ p.2 ∈ E.tgtLeaves ∧ E.sameType p.1 p.2 = true ∧ E.f ≤ E.dice p.1 p.2 := by
  simp only [rawCands, List.mem_flatMap, List.mem_map, List.mem_filter] at h
  obtain ⟨s, hs, t, ⟨ht, hc⟩, rfl⟩ := h
  simp at hc
  exact ⟨hs, ht, hc.1, hc.2⟩

theorem mem_popOrder {E : Env} {c : Cand} (h : c ∈ popOrder E) :
    (c.s, c.t) ∈ rawCands E ∧ c.score = E.dice c.s c.t ∧ c.psim = E.psim c.s c.t := by
  simp only [popOrder, List.mem_mergeSort, cands] at h
  obtain ⟨h1, h2, h3, _⟩ := enumFrom_mem E 0 _ c h
  exact ⟨h1, h2, h3⟩

/-! ### the inner-node pass -/

theorem innerLoop_count_src (cond : Id → Id → Bool) (os : List Id) (st : MState)
    (hos : ∀ s ∈ os, s ∈ st.us) (hnd : os.Nodup) (n : Id) :
    (innerLoop cond os st).us.count n + (fsts (innerLoop cond os st).acc).count n
      = st.us.count n + (fsts st.acc).count n := by
  induction os generalizing st with
  | nil => rfl
  | cons s os ih =>
    simp only [innerLoop]
    have hnd' := (List.nodup_cons.mp hnd)
    split
    · rw [ih]
      · have := count_erase_add (hos s (by simp)) n
        simp [List.count_append] at this ⊢; omega
      · intro x hx
        have hne : x ≠ s := fun h => hnd'.1 (h ▸ hx)
        simp only
        exact (List.mem_erase_of_ne hne).mpr (hos x (by simp [hx]))
      · exact hnd'.2
    · exact ih st (fun x hx => hos x (by simp [hx])) hnd'.2

theorem innerLoop_count_tgt (cond : Id → Id → Bool) (os : List Id) (st : MState) (n : Id) :
    (innerLoop cond os st).ut.count n + (snds (innerLoop cond os st).acc).count n
      = st.ut.count n + (snds st.acc).count n := by
  induction os generalizing st with
  | nil => rfl
  | cons s os ih =>
    simp only [innerLoop]
    split
    · rename_i t ht
      rw [ih]
      have := count_erase_add (List.mem_of_find?_eq_some ht) n
      simp [List.count_append] at this ⊢; omega
    · exact ih st

theorem innerLoop_acc_prov (cond : Id → Id → Bool) (os : List Id) (st : MState) :
    ∀ p ∈ (innerLoop cond os st).acc, p ∈ st.acc ∨ cond p.1 p.2 = true := by
  induction os generalizing st with
  | nil => intro p hp; exact Or.inl hp
  | cons s os ih =>
    intro p hp
    simp only [innerLoop] at hp
    split at hp
    · rename_i t ht
      rcases ih _ p hp with h | h
      · simp at h
        rcases h with h | rfl
        · exact Or.inl h
        · exact Or.inr (by simpa using List.find?_some ht)
      · exact Or.inr h
    · exact ih _ p hp

/-! ### the initial unmatched sets -/

theorem unmatched0_count (idx pre : List Id) (hN : idx.Nodup) (hpN : pre.Nodup) (hsub : ∀ x ∈ pre, x ∈ idx) (n : Id) :
    (unmatched0 idx pre).count n + pre.count n = idx.count n := by
  unfold unmatched0
  by_cases h : n ∈ pre
  · have h0 : (idx.filter fun x => !pre.contains x).count n = 0 := by
      apply List.count_eq_zero.mpr
      simp [List.mem_filter, h]
    rw [h0, hpN.count, hN.count]
    simp [h, hsub n h]
  · have : (idx.filter fun x => !pre.contains x).count n = idx.count n :=
      List.count_filter (by simpa using h)
    rw [this, List.count_eq_zero.mpr h]; rfl

theorem unmatched0_sub (idx pre : List Id) : ∀ x ∈ unmatched0 idx pre, x ∈ idx := by
  intro x hx; exact (List.mem_filter.mp hx).1

theorem unmatched0_nodup (idx pre : List Id) (hN : idx.Nodup) : (unmatched0 idx pre).Nodup :=
  hN.filter _

/-- caller-supplied matchings the theorems accept: injective, inside the two indexes -/
structure PreOk (E : Env) (pre : List (Id × Id)) : Prop where
  srcNodup : (fsts pre).Nodup
  tgtNodup : (snds pre).Nodup
  srcIn : ∀ x ∈ fsts pre, x ∈ E.srcIndex
  tgtIn : ∀ x ∈ snds pre, x ∈ E.tgtIndex

theorem leafPass_us_nodup (E : Env) (pre : List (Id × Id)) (hN : E.srcIndex.Nodup) : (leafPass E pre).us.Nodup := by
  apply List.nodup_iff_count.mpr
  intro a
  have h := greedy_count_src (popOrder E) ⟨unmatched0 E.srcIndex (pre.map (·.1)), unmatched0 E.tgtIndex (pre.map (·.2)), []⟩ a
  have h2 := List.nodup_iff_count.mp (unmatched0_nodup E.srcIndex (pre.map (·.1)) hN) a
  simp only [leafPass]
  simp at h
  omega

/-- conservation of the source side over the whole matching -/
theorem matchAll_count_src (E : Env) (pre : List (Id × Id)) (hN : E.srcIndex.Nodup) (hp : PreOk E pre) (n : Id) :
    (matchAll E pre).unmatchedS.count n + (fsts (matchAll E pre).all).count n = E.srcIndex.count n := by
  have hl := greedy_count_src (popOrder E)
    ⟨unmatched0 E.srcIndex (pre.map (·.1)), unmatched0 E.tgtIndex (pre.map (·.2)), []⟩ n
  have hi := innerLoop_count_src (innerCond E (leafPass E pre).acc) (leafPass E pre).us
    ⟨(leafPass E pre).us, (leafPass E pre).ut, []⟩ (fun s hs => hs) (leafPass_us_nodup E pre hN) n
  have h0 := unmatched0_count E.srcIndex (fsts pre) hN hp.srcNodup hp.srcIn n
  simp only [matchAll, fsts_append, List.count_append]
  simp only [leafPass, fsts] at hl hi h0 ⊢
  simp at hl hi
  omega

theorem matchAll_count_tgt (E : Env) (pre : List (Id × Id)) (hN : E.tgtIndex.Nodup) (hp : PreOk E pre) (n : Id) :
    (matchAll E pre).unmatchedT.count n + (snds (matchAll E pre).all).count n = E.tgtIndex.count n := by
  have hl := greedy_count_tgt (popOrder E)
    ⟨unmatched0 E.srcIndex (pre.map (·.1)), unmatched0 E.tgtIndex (pre.map (·.2)), []⟩ n
  have hi := innerLoop_count_tgt (innerCond E (leafPass E pre).acc) (leafPass E pre).us
    ⟨(leafPass E pre).us, (leafPass E pre).ut, []⟩ n
  have h0 := unmatched0_count E.tgtIndex (snds pre) hN hp.tgtNodup hp.tgtIn n
  simp only [matchAll, snds_append, List.count_append]
  simp only [leafPass, snds] at hl hi h0 ⊢
  simp at hl hi
  omega

/-- every computed pair passed `_is_same_type` -/
theorem matchAll_computed_sameType (E : Env) (pre : List (Id × Id)) :
    ∀ p ∈ (matchAll E pre).computed, E.sameType p.1 p.2 = true := by
  intro p hp
  simp only [matchAll, List.mem_append] at hp
  rcases hp with hp | hp
  · rcases greedy_acc_prov _ _ p hp with h | ⟨c, hc, rfl⟩
    · simp at h
    · exact (mem_rawCands (mem_popOrder hc).1).2.2.1
  · rcases innerLoop_acc_prov _ _ _ p hp with h | h
    · simp at h
    · simp [innerCond] at h; exact h.1

/-! ### counting edits -/

theorem countP_map_remove (n : Id) (l : List Id) : (l.map Edit.remove).countP (Edit.removes n) = l.count n := by
  induction l with
  | nil => rfl
  | cons a l ih => simp [List.countP_cons, List.count_cons, Edit.removes, ih]

theorem countP_map_insert (n : Id) (l : List Id) : (l.map Edit.insert).countP (Edit.inserts n) = l.count n := by
  induction l with
  | nil => rfl
  | cons a l ih => simp [List.countP_cons, List.count_cons, Edit.inserts, ih]

theorem countP_zero_of_forall {α} (p : α → Bool) (l : List α) (h : ∀ x ∈ l, p x = false) : l.countP p = 0 := by
  rw [List.countP_eq_zero]
  intro x hx
  simp [h x hx]

theorem moveToEdit_not (n : Id) (m : Id × Option Id) :
    (moveToEdit m).removes n = false ∧ (moveToEdit m).inserts n = false ∧
    (moveToEdit m).pairsSrc n = false ∧ (moveToEdit m).pairsTgt n = false ∧ (moveToEdit m).isKeep = false := by
  obtain ⟨a, b⟩ := m
  cases b <;> simp [moveToEdit, Edit.removes, Edit.inserts, Edit.pairsSrc, Edit.pairsTgt, Edit.isKeep]

theorem countP_pairs (E : Env) (M : Matching) (q : Edit → Bool) (w : Id × Id → Nat) (l : List (Id × Id))
    (h : ∀ p, (pairEdits E M p).countP q = w p) : (l.flatMap (pairEdits E M)).countP q = (l.map w).sum := by
  induction l with
  | nil => rfl
  | cons a l ih => simp [List.flatMap_cons, List.countP_append, h, ih]

theorem sum_map_ite_fst (n : Id) (l : List (Id × Id)) :
    (l.map fun p => if p.1 == n then 1 else 0).sum = (fsts l).count n := by
  induction l with
  | nil => rfl
  | cons a l ih => simp [fsts, List.count_cons] at ih ⊢; rw [ih]; omega

theorem sum_map_ite_snd (n : Id) (l : List (Id × Id)) :
    (l.map fun p => if p.2 == n then 1 else 0).sum = (snds l).count n := by
  induction l with
  | nil => rfl
  | cons a l ih => simp [snds, List.count_cons] at ih ⊢; rw [ih]; omega

theorem sum_map_zero (l : List (Id × Id)) : (l.map fun _ => 0).sum = 0 := by
  induction l with
  | nil => rfl
  | cons a l ih => simpa using ih

theorem pairEdits_countP_src (E : Env) (M : Matching) (n : Id) (p : Id × Id) :
    (pairEdits E M p).countP (Edit.pairsSrc n) = if p.1 == n then 1 else 0 := by
  simp only [pairEdits, List.countP_append]
  rw [countP_zero_of_forall]
  · by_cases h : E.isUpdate p.1 p.2 <;> simp [h, Edit.pairsSrc, List.countP_cons]
  · intro x hx
    obtain ⟨m, _, rfl⟩ := List.mem_map.mp hx
    exact (moveToEdit_not n m).2.2.1

theorem pairEdits_countP_tgt (E : Env) (M : Matching) (n : Id) (p : Id × Id) :
    (pairEdits E M p).countP (Edit.pairsTgt n) = if p.2 == n then 1 else 0 := by
  simp only [pairEdits, List.countP_append]
  rw [countP_zero_of_forall]
  · by_cases h : E.isUpdate p.1 p.2 <;> simp [h, Edit.pairsTgt, List.countP_cons]
  · intro x hx
    obtain ⟨m, _, rfl⟩ := List.mem_map.mp hx
    exact (moveToEdit_not n m).2.2.2.1

theorem pairEdits_countP_remove (E : Env) (M : Matching) (n : Id) (p : Id × Id) :
    (pairEdits E M p).countP (Edit.removes n) = 0 := by
  apply countP_zero_of_forall
  intro x hx
  simp only [pairEdits, List.mem_append, List.mem_map, List.mem_singleton] at hx
  rcases hx with ⟨m, _, rfl⟩ | rfl
  · exact (moveToEdit_not n m).1
  · by_cases h : E.isUpdate p.1 p.2 <;> simp [h, Edit.removes]

theorem pairEdits_countP_insert (E : Env) (M : Matching) (n : Id) (p : Id × Id) :
    (pairEdits E M p).countP (Edit.inserts n) = 0 := by
  apply countP_zero_of_forall
  intro x hx
  simp only [pairEdits, List.mem_append, List.mem_map, List.mem_singleton] at hx
  rcases hx with ⟨m, _, rfl⟩ | rfl
  · exact (moveToEdit_not n m).2.1
  · by_cases h : E.isUpdate p.1 p.2 <;> simp [h, Edit.inserts]

theorem greedy_acc_mono (L : List Cand) (st : MState) (p : Id × Id) (hp : p ∈ st.acc) : p ∈ (greedy L st).acc := by
  induction L generalizing st with
  | nil => exact hp
  | cons c rest ih =>
    simp only [greedy]
    split
    · exact ih _ (by simp [hp])
    · exact ih _ hp

/-! ### a tree against its copy: oracle facts and the tie-break argument -/
open scoped List

theorem before_trans (a b c : Cand) (h1 : a.before b = true) (h2 : b.before c = true) : a.before c = true := by
  simp only [Cand.before, Bool.or_eq_true, Bool.and_eq_true, decide_eq_true_eq, beq_iff_eq] at *
  omega

theorem before_total (a b : Cand) : (a.before b || b.before a) = true := by
  simp only [Cand.before, Bool.or_eq_true, Bool.and_eq_true, decide_eq_true_eq, beq_iff_eq]
  omega

theorem popOrder_sorted (E : Env) : (popOrder E).Pairwise (fun a b => a.before b = true) := by
  have := List.pairwise_mergeSort (le := Cand.before) before_trans before_total (cands E)
  simpa [popOrder] using this

theorem two_mem_order {l : List Id} (hN : l.Nodup) {a b : Id} (ha : a ∈ l) (hb : b ∈ l) (hab : a ≠ b) :
    [a, b] <+ l ∨ [b, a] <+ l := by
  induction l with
  | nil => simp at ha
  | cons x l ih =>
    have hN' := List.nodup_cons.mp hN
    simp only [List.mem_cons] at ha hb
    rcases ha with rfl | ha <;> rcases hb with rfl | hb
    · exact absurd rfl hab
    · exact Or.inl (List.Sublist.cons_cons _ (List.singleton_sublist.mpr hb))
    · exact Or.inr (List.Sublist.cons_cons _ (List.singleton_sublist.mpr ha))
    · rcases ih hN'.2 ha hb with h | h
      · exact Or.inl (List.Sublist.cons _ h)
      · exact Or.inr (List.Sublist.cons _ h)

theorem mem_sublist_flatMap {α β} (f : α → List β) (L : List α) (s : α) (hs : s ∈ L) : f s <+ L.flatMap f := by
  induction L with
  | nil => simp at hs
  | cons x L ih =>
    simp only [List.flatMap_cons]
    simp only [List.mem_cons] at hs
    rcases hs with rfl | hs
    · exact List.sublist_append_left _ _
    · exact (ih hs).trans (List.sublist_append_right _ _)

theorem pair_sublist_flatMap {α β} (f : α → List β) (L : List α) (s y : α) (h : [s, y] <+ L) :
    f s ++ f y <+ L.flatMap f := by
  induction L with
  | nil => cases h
  | cons x L ih =>
    simp only [List.flatMap_cons]
    cases h with
    | cons _ h' => exact (ih h').trans (List.sublist_append_right _ _)
    | cons_cons _ h' =>
      have hy : y ∈ L := List.singleton_sublist.mp h'
      exact List.Sublist.append (List.Sublist.refl _) (mem_sublist_flatMap f L y hy)

/-- the candidates pushed for one source leaf, in push order -/
def row (E : Env) (s : Id) : List (Id × Id) :=
  (E.tgtLeaves.filter fun t => E.sameType s t && decide (E.f ≤ E.dice s t)).map fun t => (s, t)

theorem rawCands_eq (E : Env) : rawCands E = E.srcLeaves.flatMap (row E) := rfl

theorem mem_row {E : Env} {s : Id} {p : Id × Id} : p ∈ row E s ↔
    p.1 = s ∧ p.2 ∈ E.tgtLeaves ∧ E.sameType s p.2 = true ∧ E.f ≤ E.dice s p.2 := by
  obtain ⟨a, b⟩ := p
  simp only [row, List.mem_map, List.mem_filter, Bool.and_eq_true, decide_eq_true_eq, Prod.mk.injEq]
  constructor
  · rintro ⟨t, ⟨ht, h1, h2⟩, rfl, rfl⟩; exact ⟨rfl, ht, h1, h2⟩
  · rintro ⟨rfl, ht, h1, h2⟩; exact ⟨b, ⟨ht, h1, h2⟩, rfl, rfl⟩

theorem row_nodup (E : Env) (s : Id) (hT : E.tgtLeaves.Nodup) : (row E s).Nodup := by
  unfold row
  rw [List.Nodup, List.pairwise_map]
  exact (List.Pairwise.filter _ hT).imp (fun h => by simpa using h)

theorem rawCands_nodup (E : Env) (hS : E.srcLeaves.Nodup) (hT : E.tgtLeaves.Nodup) : (rawCands E).Nodup := by
  rw [rawCands_eq]
  generalize E.srcLeaves = L at hS
  induction L with
  | nil => simp
  | cons x L ih =>
    have hN := List.nodup_cons.mp hS
    simp only [List.flatMap_cons]
    rw [List.nodup_append]
    refine ⟨row_nodup E x hT, ih hN.2, ?_⟩
    intro a ha b hb hab
    have h1 := (mem_row.mp ha).1
    obtain ⟨y, hy, hby⟩ := List.mem_flatMap.mp hb
    have h2 := (mem_row.mp hby).1
    apply hN.1
    rw [← h1, hab, h2]; exact hy

theorem enumFrom_surj (E : Env) (n : Nat) (l : List (Id × Id)) (p : Id × Id) (hp : p ∈ l) :
    ∃ c ∈ enumFrom E n l, c.s = p.1 ∧ c.t = p.2 := by
  induction l generalizing n with
  | nil => simp at hp
  | cons q rest ih =>
    obtain ⟨s, t⟩ := q
    simp only [List.mem_cons] at hp
    rcases hp with hp | hp
    · subst hp
      exact ⟨⟨E.dice s t, E.psim s t, n, s, t⟩, by simp [enumFrom], rfl, rfl⟩
    · obtain ⟨c, hc, h⟩ := ih (n + 1) hp
      exact ⟨c, by simp [enumFrom, hc], h⟩

/-- push order = index order -/
theorem idx_order (E : Env) (n : Nat) (l : List (Id × Id)) (hN : l.Nodup) (c c' : Cand)
    (hc : c ∈ enumFrom E n l) (hc' : c' ∈ enumFrom E n l) (h : [(c'.s, c'.t), (c.s, c.t)] <+ l) : c'.idx < c.idx := by
  induction l generalizing n with
  | nil => cases h
  | cons q rest ih =>
    obtain ⟨s, t⟩ := q
    have hN' := List.nodup_cons.mp hN
    simp only [enumFrom, List.mem_cons] at hc hc'
    cases h with
    | cons _ h' =>
      have m1 : (c'.s, c'.t) ∈ rest := h'.subset (by simp)
      have m2 : (c.s, c.t) ∈ rest := h'.subset (by simp)
      rcases hc with rfl | hc
      · exact absurd m2 hN'.1
      · rcases hc' with rfl | hc'
        · exact absurd m1 hN'.1
        · exact ih (n + 1) hN'.2 hc hc' h'
    | cons_cons _ h' =>
      have m2 : (c.s, c.t) ∈ rest := List.singleton_sublist.mp h'
      rcases hc with rfl | hc
      · exact absurd m2 hN'.1
      · have hge := (enumFrom_mem E (n + 1) rest c hc).2.2.2
        rcases hc' with hc' | hc'
        · have := congrArg Cand.idx hc'
          simp only at this
          omega
        · have := (enumFrom_mem E (n + 1) rest c' hc').1
          exact absurd this hN'.1

theorem erase_map_inj (φ : Id → Id) (inj : ∀ a b, φ a = φ b → a = b) (l : List Id) (a : Id) :
    (l.map φ).erase (φ a) = (l.erase a).map φ := by
  induction l with
  | nil => rfl
  | cons x l ih =>
    simp only [List.map_cons, List.erase_cons]
    by_cases hx : x = a
    · subst hx; simp
    · have : φ x ≠ φ a := fun h => hx (inj _ _ h)
      simp [hx, this, ih]

/-- the oracle facts that hold for a tree against its copy (`φ` maps a source node to its twin) -/
structure CopyOk (E : Env) (φ : Id → Id) : Prop where
  tgtLeaves : E.tgtLeaves = E.srcLeaves.map φ
  tgtIndex : E.tgtIndex = E.srcIndex.map φ
  inj : ∀ a b, φ a = φ b → a = b
  srcNodup : E.srcIndex.Nodup
  leavesNodup : E.srcLeaves.Nodup
  /-- twins have the same type -/
  twinType : ∀ x, E.sameType x (φ x) = true
  /-- `dice x x' = 1`, the largest value there is, and `f ≤ 1` -/
  diceTop : ∀ x s t, E.dice s t ≤ E.dice x (φ x)
  fLe : ∀ x, E.f ≤ E.dice x (φ x)
  /-- a twin pair's parent chains agree all the way up: no other pair has a larger parent similarity -/
  psimTwin : ∀ s y, E.psim s (φ y) ≤ E.psim s (φ s) ∧ E.psim s (φ y) ≤ E.psim y (φ y)
  /-- leaf similarity of twins is 1 once the leaves are matched with their twins -/
  innerTwin : ∀ lm, (∀ l ∈ E.srcLeaves, l ∈ E.srcIndex → (l, φ l) ∈ lm) → ∀ x ∈ E.srcIndex, E.innerSim lm x (φ x) = true

theorem tgtLeaves_nodup {E : Env} {φ : Id → Id} (h : CopyOk E φ) : E.tgtLeaves.Nodup := by
  rw [h.tgtLeaves, List.Nodup, List.pairwise_map]
  exact h.leavesNodup.imp (fun hab hφ => hab (h.inj _ _ hφ))

theorem twin_in_raw {E : Env} {φ : Id → Id} (h : CopyOk E φ) {x : Id} (hx : x ∈ E.srcLeaves) :
    (x, φ x) ∈ row E x :=
  mem_row.mpr ⟨rfl, by rw [h.tgtLeaves]; exact List.mem_map.mpr ⟨x, hx, rfl⟩, h.twinType x, h.fLe x⟩

/-- **the tie-break argument**: a non-twin candidate cannot precede both twin candidates it competes with -/
theorem key_contra {E : Env} {φ : Id → Id} (h : CopyOk E φ) (c c1 c2 : Cand)
    (hc : c ∈ cands E) (hc1 : c1 ∈ cands E) (hc2 : c2 ∈ cands E) (y : Id) (hy : y ∈ E.srcLeaves)
    (ht : c.t = φ y) (hne : y ≠ c.s)
    (h1s : c1.s = c.s) (h1t : c1.t = φ c.s) (h2s : c2.s = y) (h2t : c2.t = φ y)
    (hb1 : c.before c1 = true) (hb2 : c.before c2 = true) : False := by
  obtain ⟨hraw, hsc, hps, _⟩ := enumFrom_mem E 0 _ c hc
  obtain ⟨hraw1, hsc1, hps1, _⟩ := enumFrom_mem E 0 _ c1 hc1
  obtain ⟨hraw2, hsc2, hps2, _⟩ := enumFrom_mem E 0 _ c2 hc2
  have hs : c.s ∈ E.srcLeaves := (mem_rawCands hraw).1
  have hrawN := rawCands_nodup E h.leavesNodup (tgtLeaves_nodup h)
  have d1 := h.diceTop c.s c.s (φ y)
  have d2 := h.diceTop y c.s (φ y)
  have p := h.psimTwin c.s y
  rw [h1s, h1t] at hsc1 hps1
  rw [h2s, h2t] at hsc2 hps2
  rw [ht] at hsc hps
  have i1 : c.idx ≤ c1.idx := by
    simp only [Cand.before, Bool.or_eq_true, Bool.and_eq_true, decide_eq_true_eq, beq_iff_eq] at hb1
    omega
  have i2 : c.idx ≤ c2.idx := by
    simp only [Cand.before, Bool.or_eq_true, Bool.and_eq_true, decide_eq_true_eq, beq_iff_eq] at hb2
    omega
  have hcrow : (c.s, φ y) ∈ row E c.s := by
    have := mem_rawCands hraw
    exact mem_row.mpr ⟨rfl, by simpa [ht] using this.2.1, by simpa [ht] using this.2.2.1, by simpa [ht] using this.2.2.2⟩
  rcases two_mem_order h.leavesNodup hs hy (fun e => hne e.symm) with ho | ho
  · -- c.s before y: the twin of c.s is pushed before (c.s, φ y) in the same row
    have hsub : [φ c.s, φ y] <+ E.tgtLeaves := by rw [h.tgtLeaves]; exact ho.map φ
    have hrow : [(c.s, φ c.s), (c.s, φ y)] <+ row E c.s := by
      have := (hsub.filter fun t => E.sameType c.s t && decide (E.f ≤ E.dice c.s t)).map fun t => (c.s, t)
      have e1 := (mem_row.mp (twin_in_raw h hs))
      have e2 := (mem_row.mp hcrow)
      simpa [row, List.filter_cons, e1.2.2.1, e1.2.2.2, e2.2.2.1, e2.2.2.2] using this
    have hall := hrow.trans (mem_sublist_flatMap (row E) E.srcLeaves c.s hs)
    have := idx_order E 0 (rawCands E) hrawN c c1 hc hc1 (by rw [h1s, h1t, ht]; exact hall)
    omega
  · -- y before c.s: the twin pair of y is pushed in an earlier row
    have hpair := pair_sublist_flatMap (row E) E.srcLeaves y c.s ho
    have hsub : [(y, φ y), (c.s, φ y)] <+ row E y ++ row E c.s :=
      List.Sublist.append (List.singleton_sublist.mpr (twin_in_raw h hy)) (List.singleton_sublist.mpr hcrow)
    have := idx_order E 0 (rawCands E) hrawN c c2 hc hc2 (by rw [h2s, h2t, ht]; exact hsub.trans hpair)
    omega

theorem greedy_copy {E : Env} {φ : Id → Id} (h : CopyOk E φ) (L : List Cand) (st : MState)
    (hsorted : L.Pairwise (fun a b => a.before b = true))
    (hcand : ∀ c ∈ L, c ∈ cands E)
    (J1 : ∀ p ∈ st.acc, p.2 = φ p.1)
    (J2 : st.ut = st.us.map φ)
    (J3 : ∀ x ∈ E.srcLeaves, x ∈ st.us → ∃ c ∈ L, c.s = x ∧ c.t = φ x)
    (hnd : st.us.Nodup) :
    (∀ p ∈ (greedy L st).acc, p.2 = φ p.1) ∧ (greedy L st).ut = (greedy L st).us.map φ ∧
      (∀ x ∈ E.srcLeaves, x ∈ (greedy L st).us → False) ∧ (greedy L st).us.Nodup ∧
      (∀ x ∈ E.srcLeaves, x ∈ st.us → (x, φ x) ∈ (greedy L st).acc) := by
  induction L generalizing st with
  | nil =>
    refine ⟨J1, J2, ?_, hnd, ?_⟩
    · intro x hx hu; obtain ⟨c, hc, _⟩ := J3 x hx hu; simp at hc
    · intro x hx hu; obtain ⟨c, hc, _⟩ := J3 x hx hu; simp at hc
  | cons c rest ih =>
    have hs' := List.pairwise_cons.mp hsorted
    have memφ : ∀ x, φ x ∈ st.ut ↔ x ∈ st.us := by
      intro x; rw [J2, List.mem_map]
      constructor
      · rintro ⟨a, ha, he⟩; rw [← h.inj _ _ he]; exact ha
      · intro hx; exact ⟨x, hx, rfl⟩
    simp only [greedy]
    split
    · rename_i hboth
      simp only [Bool.and_eq_true, List.contains_iff_mem] at hboth
      obtain ⟨hcs, hct⟩ := hboth
      have hcc := hcand c (by simp)
      -- the popped candidate is a twin pair
      have htw : c.t = φ c.s := by
        have hraw := (enumFrom_mem E 0 _ c hcc).1
        have htl : c.t ∈ E.tgtLeaves := (mem_rawCands hraw).2.1
        rw [h.tgtLeaves] at htl
        obtain ⟨y, hy, hyt⟩ := List.mem_map.mp htl
        by_cases hys : y = c.s
        · rw [← hyt, hys]
        · exfalso
          have hyu : y ∈ st.us := (memφ y).mp (by rw [hyt]; exact hct)
          obtain ⟨c1, hc1, h1s, h1t⟩ := J3 c.s (show c.s ∈ E.srcLeaves from (mem_rawCands hraw).1) hcs
          obtain ⟨c2, hc2, h2s, h2t⟩ := J3 y hy hyu
          have n1 : c1 ≠ c := by
            intro e; rw [e, ← hyt] at h1t; exact hys (h.inj _ _ h1t)
          have n2 : c2 ≠ c := by
            intro e; rw [e] at h2s; exact hys h2s.symm
          have r1 : c1 ∈ rest := by simpa [n1] using hc1
          have r2 : c2 ∈ rest := by simpa [n2] using hc2
          exact key_contra h c c1 c2 hcc (hcand c1 (by simp [r1])) (hcand c2 (by simp [r2])) y hy hyt.symm hys
            h1s h1t h2s h2t (hs'.1 c1 r1) (hs'.1 c2 r2)
      have hres := ih ⟨st.us.erase c.s, st.ut.erase c.t, st.acc ++ [(c.s, c.t)]⟩ hs'.2
        (fun c' hc' => hcand c' (by simp [hc']))
        (by
          intro p hp
          simp only [List.mem_append, List.mem_singleton] at hp
          rcases hp with hp | rfl
          · exact J1 p hp
          · exact htw)
        (by simp only; rw [htw, J2, erase_map_inj φ h.inj])
        (by
          intro x hx hxu
          simp only at hxu
          have hxu' := (hnd.mem_erase_iff.mp hxu)
          obtain ⟨c', hc', hs1, ht1⟩ := J3 x hx hxu'.2
          have : c' ≠ c := by intro e; rw [e] at hs1; exact hxu'.1 hs1.symm
          exact ⟨c', by simpa [this] using hc', hs1, ht1⟩)
        (hnd.erase _)
      refine ⟨hres.1, hres.2.1, hres.2.2.1, hres.2.2.2.1, ?_⟩
      intro x hx hxu
      by_cases hxc : x = c.s
      · have : (x, φ x) ∈ st.acc ++ [(c.s, c.t)] := by simp [hxc, htw]
        exact greedy_acc_mono rest ⟨st.us.erase c.s, st.ut.erase c.t, st.acc ++ [(c.s, c.t)]⟩ (x, φ x) this
      · exact hres.2.2.2.2 x hx (by simp only; exact hnd.mem_erase_iff.mpr ⟨hxc, hxu⟩)
    · rename_i hboth
      have hres := ih st hs'.2 (fun c' hc' => hcand c' (by simp [hc'])) J1 J2
        (by
          intro x hx hxu
          obtain ⟨c', hc', hs1, ht1⟩ := J3 x hx hxu
          have : c' ≠ c := by
            intro e
            apply hboth
            rw [e] at hs1 ht1
            simp only [Bool.and_eq_true, List.contains_iff_mem]
            exact ⟨by rw [hs1]; exact hxu, by rw [ht1]; exact (memφ x).mpr hxu⟩
          exact ⟨c', by simpa [this] using hc', hs1, ht1⟩)
        hnd
      exact hres

theorem innerLoop_copy (cond : Id → Id → Bool) (φ : Id → Id) (os : List Id) (st : MState)
    (hus : st.us = os) (hut : st.ut = os.map φ) (hcond : ∀ s ∈ os, cond s (φ s) = true)
    (J1 : ∀ p ∈ st.acc, p.2 = φ p.1) :
    (innerLoop cond os st).us = [] ∧ (innerLoop cond os st).ut = [] ∧
      ∀ p ∈ (innerLoop cond os st).acc, p.2 = φ p.1 := by
  induction os generalizing st with
  | nil => exact ⟨hus, by show st.ut = []; simpa using hut, J1⟩
  | cons s os ih =>
    simp only [innerLoop]
    have hfind : st.ut.find? (cond s) = some (φ s) := by
      rw [hut]; simp [hcond s (by simp)]
    rw [hfind]
    simp only
    apply ih
    · simp [hus]
    · simp [hut]
    · intro x hx; exact hcond x (by simp [hx])
    · intro p hp
      simp only [List.mem_append, List.mem_singleton] at hp
      rcases hp with hp | rfl
      · exact J1 p hp
      · rfl

end SqlglotModel.Diff
