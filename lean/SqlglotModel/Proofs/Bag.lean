/-
  Lemmas about the bag semantics of Sem/Bag.lean (core Lean only): predicate pushdown through joins, join
  elimination, commutation of the inner join.  Used by Properties/C03.lean.
-/
import SqlglotModel.Sem.Bag

namespace SqlglotModel.Bag

theorem filter_const_map {α β : Type} (P : β → Bool) (f : α → β) (c : Bool) (m : List α)
    (h : ∀ b, P (f b) = c) : (m.map f).filter P = if c then m.map f else [] := by
  induction m with
  | nil => cases c <;> rfl
  | cons x xs ih =>
    simp only [List.map_cons, List.filter_cons, h x, ih]
    cases c <;> simp

theorem select_append (p : Row → B3) (s t : Table) : select p (s ++ t) = select p s ++ select p t := by
  simp [select, List.filter_append]

/-- σ_p (l ⋈ r) = (σ_q l) ⋈ r when p only looks at the left part -/
theorem select_innerJoin_left (on : Row → Row → B3) (p q : Row → B3) (l r : Table)
    (h : ∀ a b, p (a ++ b) = q a) : select p (innerJoin on l r) = innerJoin on (select q l) r := by
  induction l with
  | nil => rfl
  | cons a l ih =>
    have e1 : innerJoin on (a :: l) r = (matchesOf on a r).map (fun b => a ++ b) ++ innerJoin on l r := by
      simp [innerJoin]
    rw [e1, select_append, ih]
    have e2 : select p ((matchesOf on a r).map (fun b => a ++ b))
        = if isTrue (q a) then (matchesOf on a r).map (fun b => a ++ b) else [] := by
      unfold select
      exact filter_const_map _ _ _ _ (fun b => by simp [h])
    rw [e2]
    by_cases hq : isTrue (q a) = true
    · simp [select, hq, innerJoin]
    · simp [select, hq, innerJoin]

/-- σ_p (l ⋈ r) = l ⋈ (σ_q r) when p only looks at the right part -/
theorem select_innerJoin_right (on : Row → Row → B3) (p q : Row → B3) (l r : Table)
    (h : ∀ a b, p (a ++ b) = q b) : select p (innerJoin on l r) = innerJoin on l (select q r) := by
  induction l with
  | nil => rfl
  | cons a l ih =>
    have e1 : ∀ r', innerJoin on (a :: l) r' = (matchesOf on a r').map (fun b => a ++ b) ++ innerJoin on l r' := by
      intro r'; simp [innerJoin]
    rw [e1, e1, select_append, ih]
    congr 1
    simp only [select, matchesOf, List.filter_map, List.filter_filter]
    congr 1
    apply List.filter_congr
    intro b _
    simp [Function.comp, h, Bool.and_comm]

/-- a WHERE conjunct may move into the ON clause of an inner join -/
theorem select_innerJoin_as_on (on : Row → Row → B3) (p : Row → B3) (l r : Table) :
    select p (innerJoin on l r) = innerJoin (fun a b => and3 (on a b) (p (a ++ b))) l r := by
  induction l with
  | nil => rfl
  | cons a l ih =>
    have e1 : ∀ o, innerJoin o (a :: l) r = (matchesOf o a r).map (fun b => a ++ b) ++ innerJoin o l r := by
      intro o; simp [innerJoin]
    rw [e1, e1, select_append, ih]
    congr 1
    simp only [select, matchesOf, List.filter_map, List.filter_filter]
    congr 1
    apply List.filter_congr
    intro b _
    cases h1 : on a b with
    | none => cases h2 : p (a ++ b) with
      | none => simp [Function.comp, h2, and3, isTrue]
      | some v => cases v <;> simp [Function.comp, h2, and3, isTrue]
    | some u => cases u <;> (cases h2 : p (a ++ b) with
      | none => simp [Function.comp, h2, and3, isTrue]
      | some v => cases v <;> simp [Function.comp, h2, and3, isTrue])

theorem isTrue_and3 (x y : B3) : isTrue (and3 x y) = (isTrue x && isTrue y) := by
  cases x with
  | none => cases y with
    | none => rfl
    | some v => cases v <;> rfl
  | some u => cases u <;> (cases y with
    | none => rfl
    | some v => cases v <;> rfl)

/-- the matches of `a` under `on ∧ q(right)` are the matches under `on` in the filtered right table -/
theorem matchesOf_and_right (on : Row → Row → B3) (q : Row → B3) (a : Row) (r : Table) :
    matchesOf (fun a b => and3 (on a b) (q b)) a r = matchesOf on a (select q r) := by
  simp only [matchesOf, select, List.filter_filter]
  apply List.filter_congr
  intro b _
  simp [isTrue_and3]

/-- an ON conjunct over the joined (right) source may move into that source — inner join -/
theorem innerJoin_on_into_right (on : Row → Row → B3) (q : Row → B3) (l r : Table) :
    innerJoin (fun a b => and3 (on a b) (q b)) l r = innerJoin on l (select q r) := by
  simp only [innerJoin, matchesOf_and_right]

/-- … and LEFT join (the joined side is the NULL-padded one; filtering it inside ON or in the source is the same) -/
theorem leftJoin_on_into_right (on : Row → Row → B3) (q : Row → B3) (l r : Table) (wr : Nat) :
    leftJoin (fun a b => and3 (on a b) (q b)) l r wr = leftJoin on l (select q r) wr := by
  simp only [leftJoin, matchesOf_and_right]

theorem select_padRight (p q : Row → B3) (a : Row) (m : Table) (wr : Nat) (h : ∀ b, p (a ++ b) = q a) :
    select p (padRight a m wr) = if isTrue (q a) then padRight a m wr else [] := by
  unfold padRight
  split
  · simp only [select, List.filter_cons, h (nulls wr), List.filter_nil]
  · unfold select
    exact filter_const_map _ _ _ _ (fun b => by simp [h])

/-- WHERE on the preserved (left) side of a LEFT join may move into the left source -/
theorem select_leftJoin_left (on : Row → Row → B3) (p q : Row → B3) (l r : Table) (wr : Nat)
    (h : ∀ a b, p (a ++ b) = q a) : select p (leftJoin on l r wr) = leftJoin on (select q l) r wr := by
  induction l with
  | nil => rfl
  | cons a l ih =>
    have e1 : leftJoin on (a :: l) r wr = padRight a (matchesOf on a r) wr ++ leftJoin on l r wr := by
      simp [leftJoin]
    rw [e1, select_append, ih, select_padRight p q a _ wr (h a)]
    by_cases hq : isTrue (q a) = true
    · simp [select, hq, leftJoin]
    · simp [select, hq, leftJoin]

theorem select_padLeft (p q : Row → B3) (m : Table) (b : Row) (wl : Nat) (h : ∀ a, p (a ++ b) = q b) :
    select p (padLeft m b wl) = if isTrue (q b) then padLeft m b wl else [] := by
  unfold padLeft
  split
  · simp only [select, List.filter_cons, h (nulls wl), List.filter_nil]
  · unfold select
    exact filter_const_map _ _ _ _ (fun a => by simp [h])

/-- WHERE on the preserved (right) side of a RIGHT join may move into the right source -/
theorem select_rightJoin_right (on : Row → Row → B3) (p q : Row → B3) (l r : Table) (wl : Nat)
    (h : ∀ a b, p (a ++ b) = q b) : select p (rightJoin on l r wl) = rightJoin on l (select q r) wl := by
  induction r with
  | nil => rfl
  | cons b r ih =>
    have e1 : rightJoin on l (b :: r) wl = padLeft (matchesOfL on l b) b wl ++ rightJoin on l r wl := by
      simp [rightJoin]
    rw [e1, select_append, ih, select_padLeft p q _ b wl (fun a => h a b)]
    by_cases hq : isTrue (q b) = true
    · simp [select, hq, rightJoin]
    · simp [select, hq, rightJoin]

/-- σ_p (π_f t) = π_f (σ_{p∘f} t): a filter over a derived table's projection moves inside (replace_aliases) -/
theorem select_project (p : Row → B3) (f : Row → Row) (t : Table) :
    select p (project f t) = project f (select (fun r => p (f r)) t) := by
  simp only [select, project, List.filter_map]
  rfl

theorem select_select (p q : Row → B3) (t : Table) :
    select p (select q t) = select (fun r => and3 (q r) (p r)) t := by
  simp only [select, List.filter_filter]
  apply List.filter_congr
  intro r _
  simp [isTrue_and3, Bool.and_comm]

-- ------------------------------------------------------------------------------------------ join elimination
/-- a LEFT join against a source with at most one match per left row, projected back onto left columns, is the
    left input -/
theorem project_leftJoin_unique (on : Row → Row → B3) (l r : Table) (wr : Nat) (π g : Row → Row)
    (hπ : ∀ a b, π (a ++ b) = g a) (hu : ∀ a ∈ l, (matchesOf on a r).length ≤ 1) :
    project π (leftJoin on l r wr) = project g l := by
  induction l with
  | nil => rfl
  | cons a l ih =>
    have e1 : leftJoin on (a :: l) r wr = padRight a (matchesOf on a r) wr ++ leftJoin on l r wr := by
      simp [leftJoin]
    have hl : ∀ a' ∈ l, (matchesOf on a' r).length ≤ 1 := fun a' h' => hu a' (List.mem_cons_of_mem _ h')
    have ha := hu a (List.mem_cons_self ..)
    simp only [project] at ih ⊢
    rw [e1, List.map_append, ih hl, List.map_cons]
    congr 1
    unfold padRight
    cases hm : matchesOf on a r with
    | nil => simp [hπ]
    | cons b bs =>
      cases bs with
      | nil => simp [hπ]
      | cons c cs => simp [hm] at ha

/-- uniqueness from a key: if the right table has pairwise distinct keys and the ON condition forces the key of a
    match to equal a function of the left row, a left row has at most one match -/
theorem matches_le_one_of_unique_key (on : Row → Row → B3) (key : Row → Val) (hk : Row → Val) (a : Row) (r : Table)
    (hon : ∀ b, isTrue (on a b) = true → key b = hk a)
    (hd : r.Pairwise (fun x y => key x ≠ key y)) : (matchesOf on a r).length ≤ 1 := by
  induction r with
  | nil => simp [matchesOf]
  | cons b bs ih =>
    have hd' := (List.pairwise_cons.mp hd)
    by_cases hb : isTrue (on a b) = true
    · have hnone : matchesOf on a bs = [] := by
        simp only [matchesOf, List.filter_eq_nil_iff]
        intro c hc hct
        have h1 := hon b hb
        have h2 := hon c (by simpa using hct)
        exact hd'.1 c hc (by rw [h1, h2])
      simp only [matchesOf] at hnone ⊢
      simp [hb, hnone]
    · have := ih hd'.2
      simp only [matchesOf] at this ⊢
      simp [hb, this]

/-- a CROSS join with a source of EXACTLY one row, projected back onto left columns, is the left input -/
theorem project_product_single (l : Table) (b : Row) (π g : Row → Row) (hπ : ∀ a, π (a ++ b) = g a) :
    project π (product l [b]) = project g l := by
  induction l with
  | nil => rfl
  | cons a l ih =>
    simp only [project, product, List.flatMap_cons, List.map_cons, List.map_nil, List.map_append] at ih ⊢
    simp [hπ, ih]

-- ------------------------------------------------------------------------------------------ IN / EXISTS as joins
theorem isTrue_or3 (x y : B3) : isTrue (or3 x y) = (isTrue x || isTrue y) := by
  cases x with
  | none => cases y with
    | none => rfl
    | some v => cases v <;> rfl
  | some u => cases u <;> (cases y with
    | none => rfl
    | some v => cases v <;> rfl)

/-- `v IN (…)` is TRUE exactly when some element compares equal (TRUE) -/
theorem isTrue_in3 (v : Val) (vs : List Val) : isTrue (in3 v vs) = vs.any (fun x => isTrue (eq3 v x)) := by
  induction vs with
  | nil => rfl
  | cons x xs ih => simp [in3, isTrue_or3, ih]

theorem eq3_true_not_null (a b : Val) (h : isTrue (eq3 a b) = true) : b.isNull = false := by
  unfold eq3 at h
  cases hb : b.isNull
  · rfl
  · simp [hb, isTrue] at h

theorem col_append_right (a b : Row) (w : Nat) (h : a.length = w) : col w (a ++ b) = col 0 b := by
  subst h
  simp [col, List.getD_eq_getElem?_getD, List.getElem?_append_right]

theorem isTrue_some (b : Bool) : isTrue (some b) = b := by cases b <;> rfl

theorem not_isEmpty_filter_eq_any {α : Type} (q : α → Bool) (s : List α) : (!(s.filter q).isEmpty) = s.any q := by
  induction s with
  | nil => rfl
  | cons b bs ih =>
    simp only [List.filter_cons, List.any_cons]
    cases hq : q b
    · simpa using ih
    · simp

/-- `EXISTS (SELECT … FROM s WHERE p)` is TRUE exactly when some row of s satisfies p -/
theorem isTrue_exists3_select (p : Row → B3) (s : Table) :
    isTrue (exists3 (select p s)) = s.any (fun b => isTrue (p b)) := by
  simp only [exists3, isTrue_some, select]
  exact not_isEmpty_filter_eq_any _ s

/-- the core of unnest_subqueries: a semi join is a LEFT JOIN against a version `s'` of the subquery that has the
    same rows as a SET but AT MOST ONE match per outer row (the de-duplicating GROUP BY), followed by
    `WHERE s'.key IS NOT NULL` and the projection back onto the outer columns.  `keyCol` is the position of the
    subquery's key in the joined row; matches have a non-NULL key, the padding row a NULL one. -/
theorem semiJoin_as_dedup_leftJoin (on : Row → Row → B3) (l s s' : Table) (w : Nat)
    (hw : ∀ a ∈ l, a.length = w)
    (hset : ∀ b, b ∈ s' ↔ b ∈ s)
    (hu : ∀ a ∈ l, (matchesOf on a s').length ≤ 1)
    (hnn : ∀ a b, isTrue (on a b) = true → (col 0 b).isNull = false) :
    project (fun row => row.take w)
        (select (fun row => not3 (isNull3 (col w row))) (leftJoin on l s' 1))
      = semiJoin on l s := by
  induction l with
  | nil => rfl
  | cons a l ih =>
    have e1 : leftJoin on (a :: l) s' 1 = padRight a (matchesOf on a s') 1 ++ leftJoin on l s' 1 := by
      simp [leftJoin]
    have hwa := hw a (List.mem_cons_self ..)
    have hua := hu a (List.mem_cons_self ..)
    have ih' := ih (fun a' h' => hw a' (List.mem_cons_of_mem _ h')) (fun a' h' => hu a' (List.mem_cons_of_mem _ h'))
    rw [e1, select_append]
    simp only [project, List.map_append] at ih' ⊢
    rw [ih']
    have hany : s.any (fun b => isTrue (on a b)) = !(matchesOf on a s').isEmpty := by
      cases hm : matchesOf on a s' with
      | nil =>
        simp only [List.isEmpty_nil, Bool.not_true, List.any_eq_false]
        intro b hb
        have : b ∈ s' := (hset b).mpr hb
        have hf : b ∉ matchesOf on a s' := by rw [hm]; simp
        simp only [matchesOf, List.mem_filter, not_and] at hf
        simpa using hf this
      | cons b bs =>
        simp only [List.isEmpty_cons, Bool.not_false, List.any_eq_true]
        have hb : b ∈ matchesOf on a s' := by rw [hm]; simp
        simp only [matchesOf, List.mem_filter] at hb
        exact ⟨b, (hset b).mp hb.1, hb.2⟩
    simp only [semiJoin, List.filter_cons, hany]
    cases hm : matchesOf on a s' with
    | nil =>
      have hc : col w (a ++ nulls 1) = .null := by rw [col_append_right a _ w hwa]; rfl
      simp [padRight, select, hc, isNull3, not3, isTrue, Val.isNull]
    | cons b bs =>
      cases bs with
      | cons c cs => simp [hm] at hua
      | nil =>
        have hb : b ∈ matchesOf on a s' := by rw [hm]; simp
        simp only [matchesOf, List.mem_filter] at hb
        have hnb := hnn a b hb.2
        simp [padRight, select, col_append_right a b w hwa, isNull3, not3, isTrue, hnb, hwa]

/-- adding to a source of an inner join a filter IMPLIED by the WHERE clause changes nothing (pushdown_dnf keeps
    the original predicate and pushes only a consequence of it) -/
theorem select_innerJoin_implied_left (on : Row → Row → B3) (c q : Row → B3) (l r : Table)
    (h : ∀ a b, isTrue (c (a ++ b)) = true → isTrue (q a) = true) :
    select c (innerJoin on l r) = select c (innerJoin on (select q l) r) := by
  induction l with
  | nil => rfl
  | cons a l ih =>
    have e1 : ∀ l', innerJoin on (a :: l') r = (matchesOf on a r).map (fun b => a ++ b) ++ innerJoin on l' r := by
      intro l'; simp [innerJoin]
    by_cases hq : isTrue (q a) = true
    · have e2 : select q (a :: l) = a :: select q l := by simp [select, hq]
      rw [e2, e1, e1, select_append, select_append, ih]
    · have e2 : select q (a :: l) = select q l := by simp [select, hq]
      rw [e2, e1, select_append, ih]
      have : select c ((matchesOf on a r).map (fun b => a ++ b)) = [] := by
        simp only [select, List.filter_eq_nil_iff, List.mem_map]
        rintro x ⟨b, _, rfl⟩ hc
        exact hq (h a b hc)
      rw [this, List.nil_append]

-- ------------------------------------------------------------------------------------------ commutation
theorem perm_flatMap_cons_map {α β : Type} (r : List α) (g : α → β) (h : α → List β) :
    List.Perm (r.flatMap (fun b => g b :: h b)) (r.map g ++ r.flatMap h) := by
  induction r with
  | nil => simp
  | cons b bs ih =>
    simp only [List.flatMap_cons, List.map_cons, List.cons_append]
    refine List.Perm.cons _ ?_
    refine List.Perm.trans (List.Perm.append_left _ ih) ?_
    simp only [← List.append_assoc]
    exact List.Perm.append_right _ List.perm_append_comm

/-- nested loops commute as bags -/
theorem perm_flatMap_comm {α β γ : Type} (l : List α) (r : List β) (f : α → β → γ) :
    List.Perm (l.flatMap (fun a => r.map (fun b => f a b))) (r.flatMap (fun b => l.map (fun a => f a b))) := by
  induction l with
  | nil => simp
  | cons a l ih =>
    simp only [List.flatMap_cons, List.map_cons]
    refine List.Perm.trans (List.Perm.append_left _ ih) ?_
    exact (perm_flatMap_cons_map r (fun b => f a b) (fun b => l.map (fun a => f a b))).symm

/-- inner join as "filter the pairs" (used for the reorder theorem) -/
theorem innerJoin_eq_filter_pairs (on : Row → Row → B3) (l r : Table) :
    innerJoin on l r
      = ((l.flatMap (fun a => r.map (fun b => (a, b)))).filter (fun ab => isTrue (on ab.1 ab.2))).map
          (fun ab => ab.1 ++ ab.2) := by
  simp only [innerJoin, matchesOf, List.filter_flatMap, List.map_flatMap, List.filter_map, List.map_map]
  rfl

end SqlglotModel.Bag
