/-
  C15 helper lemmas (core Lean only): insertion sort is invariant under permutations of its input (`isort_perm`),
  `dedupFirst` keeps exactly the members (so it is permutation-invariant up to order), the fast paths of `uniq_sort`
  agree with "dedup, then sort" (`uniqSort_spec`), every step of `tsort` maps permuted dicts to permuted dicts, and a
  block of assignments is summarised by the last value per field (`setAll_eq`).
-/
import SqlglotModel.Model.Determinism
namespace SqlglotModel.Determinism
open List

theorem mem_insertSorted {a x : Nat} {l : List Nat} : x ∈ insertSorted a l ↔ x = a ∨ x ∈ l := by
  induction l with
  | nil => simp [insertSorted]
  | cons b l ih => simp only [insertSorted]; split <;> simp [ih] <;> grind

theorem mem_isort {x : Nat} {l : List Nat} : x ∈ isort l ↔ x ∈ l := by
  induction l with
  | nil => simp [isort]
  | cons a l ih => simp [isort, mem_insertSorted, ih]

theorem length_insertSorted (a : Nat) (l : List Nat) : (insertSorted a l).length = l.length + 1 := by
  induction l with
  | nil => simp [insertSorted]
  | cons b l ih => simp only [insertSorted]; split <;> simp [ih]

theorem length_isort (l : List Nat) : (isort l).length = l.length := by
  induction l with
  | nil => simp [isort]
  | cons a l ih => simp [isort, length_insertSorted, ih]

/-- inserting two keys commutes (the order is total and antisymmetric) -/
theorem insertSorted_comm (a b : Nat) (l : List Nat) :
    insertSorted a (insertSorted b l) = insertSorted b (insertSorted a l) := by
  induction l with
  | nil => simp only [insertSorted]; split <;> split <;> simp_all <;> omega
  | cons c l ih =>
    simp only [insertSorted]
    by_cases h1 : b ≤ c <;> by_cases h2 : a ≤ c <;> simp only [h1, h2, if_true, if_false, insertSorted, ih] <;>
      (repeat' split) <;> simp_all <;> omega

/-- **sorting forgets the order of its input** -/
theorem isort_perm {xs ys : List Nat} (h : xs.Perm ys) : isort xs = isort ys := by
  induction h with
  | nil => rfl
  | cons a _ ih => simp [isort, ih]
  | swap a b l => simp [isort, insertSorted_comm]
  | trans _ _ ih1 ih2 => rw [ih1, ih2]

theorem pairwise_lt_insertSorted {a : Nat} {l : List Nat} (h : l.Pairwise (· < ·)) (ha : a ∉ l) :
    (insertSorted a l).Pairwise (· < ·) := by
  induction l with
  | nil => simp [insertSorted]
  | cons b l ih =>
    simp only [insertSorted]
    have hb := List.pairwise_cons.mp h
    have hab : a ≠ b := fun e => ha (e ▸ List.mem_cons_self)
    have hal : a ∉ l := fun m => ha (List.mem_cons_of_mem _ m)
    split
    · refine List.pairwise_cons.mpr ⟨?_, h⟩
      intro x hx
      rcases List.mem_cons.mp hx with rfl | hx
      · omega
      · have := hb.1 x hx; omega
    · refine List.pairwise_cons.mpr ⟨?_, ih hb.2 hal⟩
      intro x hx
      rcases mem_insertSorted.mp hx with rfl | hx
      · omega
      · exact hb.1 x hx

theorem strict_isort {l : List Nat} (h : l.Nodup) : (isort l).Pairwise (· < ·) := by
  induction l with
  | nil => simp [isort]
  | cons a l ih =>
    have := List.nodup_cons.mp h
    exact pairwise_lt_insertSorted (ih this.2) (fun m => this.1 (mem_isort.mp m))

theorem mem_dedupFirst {x : Nat} {l : List Nat} : x ∈ dedupFirst l ↔ x ∈ l := by
  induction l with
  | nil => simp [dedupFirst]
  | cons a l ih => simp only [dedupFirst, List.mem_cons, List.mem_filter, ih]; grind

theorem nodup_dedupFirst (l : List Nat) : (dedupFirst l).Nodup := by
  induction l with
  | nil => simp [dedupFirst]
  | cons a l ih =>
    simp only [dedupFirst]
    refine List.nodup_cons.mpr ⟨by simp, ?_⟩
    exact ih.sublist List.filter_sublist

theorem dedupFirst_perm {xs ys : List Nat} (h : xs.Perm ys) : (dedupFirst xs).Perm (dedupFirst ys) :=
  (List.perm_ext_iff_of_nodup (nodup_dedupFirst xs) (nodup_dedupFirst ys)).mpr fun a => by
    rw [mem_dedupFirst, mem_dedupFirst]; exact h.mem_iff

/-- an ascending list is already sorted -/
theorem isort_of_ascending {l : List Nat} (h : ascending l = true) : isort l = l := by
  induction l with
  | nil => rfl
  | cons a l ih =>
    cases l with
    | nil => rfl
    | cons b l =>
      simp only [ascending, Bool.and_eq_true, decide_eq_true_eq] at h
      rw [isort, ih h.2]
      simp [insertSorted, h.1]

theorem dedupFirst_eq_self_of_length {l : List Nat} (h : (dedupFirst l).length = l.length) : dedupFirst l = l := by
  induction l with
  | nil => rfl
  | cons a l ih =>
    simp only [dedupFirst, List.length_cons, Nat.add_right_cancel_iff] at h
    have h1 : ((dedupFirst l).filter (· ≠ a)).length ≤ (dedupFirst l).length := List.length_filter_le _ _
    have h2 : (dedupFirst l).length ≤ l.length := by
      clear h h1 ih
      induction l with
      | nil => simp [dedupFirst]
      | cons b l ih2 =>
        simp only [dedupFirst, List.length_cons]
        have := List.length_filter_le (fun x => decide (x ≠ b)) (dedupFirst l)
        omega
    have h3 : (dedupFirst l).length = l.length := by omega
    have h4 : ((dedupFirst l).filter (· ≠ a)).length = (dedupFirst l).length := by omega
    simp only [dedupFirst]
    rw [List.filter_eq_self.mpr (List.length_filter_eq_length_iff.mp h4), ih h3]

/-- the keys `uniq_sort` leaves, said without the "already sorted" fast paths -/
theorem uniqSort_spec (xs : List Nat) :
    uniqSort false xs =
      if (dedupFirst xs).length = 1 ∧ 1 < xs.length then ⟨dedupFirst xs, true⟩ else ⟨isort (dedupFirst xs), false⟩ := by
  unfold uniqSort
  simp only [Bool.false_eq_true, if_false]
  by_cases hasc : ascending (dedupFirst xs) = true
  · simp only [hasc, Bool.not_true, Bool.false_eq_true, if_false]
    by_cases hlen : (dedupFirst xs).length < xs.length
    · simp only [hlen, if_true]
      by_cases h1 : (dedupFirst xs).length = 1
      · have : 1 < xs.length := by omega
        simp [h1, this]
      · simp [h1, isort_of_ascending hasc]
    · have hle : (dedupFirst xs).length ≤ xs.length := by
        have := length_isort (dedupFirst xs)
        clear hlen hasc
        induction xs with
        | nil => simp [dedupFirst]
        | cons b l ih2 =>
          simp only [dedupFirst, List.length_cons]
          have := List.length_filter_le (fun x => decide (x ≠ b)) (dedupFirst l)
          have := ih2 (length_isort _)
          omega
      have heq : (dedupFirst xs).length = xs.length := by omega
      have hself := dedupFirst_eq_self_of_length heq
      simp only [hlen, if_false]
      have : ¬ ((dedupFirst xs).length = 1 ∧ 1 < xs.length) := by omega
      simp only [this, if_false]
      rw [isort_of_ascending hasc, hself]
  · have hf : ascending (dedupFirst xs) = false := by simpa using hasc
    simp only [hf, Bool.not_false, if_true]
    have : ¬ ((dedupFirst xs).length = 1 ∧ 1 < xs.length) := by
      intro ⟨h1, _⟩
      match hd : dedupFirst xs, h1 with
      | [a], _ => rw [hd] at hf; simp [ascending] at hf
    simp [this]

theorem uniqSort_xor (xs : List Nat) : uniqSort true xs = ⟨isort xs, false⟩ := by
  unfold uniqSort
  simp only [if_true]
  split
  · next h => rw [isort_of_ascending h]
  · rfl

theorem uniqSort_perm (xor : Bool) {xs ys : List Nat} (h : xs.Perm ys) : uniqSort xor xs = uniqSort xor ys := by
  cases xor with
  | true => rw [uniqSort_xor, uniqSort_xor, isort_perm h]
  | false =>
    rw [uniqSort_spec, uniqSort_spec]
    have hd := dedupFirst_perm h
    have hl := hd.length_eq
    have hx := h.length_eq
    rw [isort_perm hd, ← hl, ← hx]
    split
    · next hc =>
      match hxs : dedupFirst xs, hc.1 with
      | [a], _ =>
        rw [hxs] at hd
        have : dedupFirst ys = [a] := List.perm_singleton.mp hd.symm
        rw [this]
    · rfl

/-! ### tsort -/

theorem perm_isEmpty {l l' : List Nat} (h : l.Perm l') : l.isEmpty = l'.isEmpty := by
  have := h.length_eq
  cases l <;> cases l' <;> simp_all

theorem ready_perm {d d' : Dag} (h : d.Perm d') : (ready d).Perm (ready d') :=
  (h.filter _).map _

theorem contains_perm {c c' : List Nat} (h : c.Perm c') : (fun x => !c.contains x) = fun x => !c'.contains x := by
  funext x; rw [h.contains_eq]

theorem stepDag_perm {d d' : Dag} {c c' : List Nat} (h : d.Perm d') (hc : c.Perm c') :
    (stepDag d c).Perm (stepDag d' c') := by
  unfold stepDag
  have e1 : (fun p : Nat × List Nat => !c.contains p.1) = fun p => !c'.contains p.1 := by
    funext p; rw [hc.contains_eq]
  rw [e1, contains_perm hc]
  exact (h.filter _).map _

theorem tsortLoop_perm (n : Nat) {d d' : Dag} (acc : List Nat) (h : d.Perm d') :
    tsortLoop n d acc = tsortLoop n d' acc := by
  induction n generalizing d d' acc with
  | zero =>
    cases d with
    | nil => rw [List.nil_perm.mp h]
    | cons p d =>
      cases d' with
      | nil => exact absurd (List.perm_nil.mp h) (by simp)
      | cons p' d' => rfl
  | succ n ih =>
    cases d with
    | nil => rw [List.nil_perm.mp h]
    | cons p d =>
      cases d' with
      | nil => exact absurd (List.perm_nil.mp h) (by simp)
      | cons p' d' =>
        have hr := ready_perm h
        simp only [tsortLoop]
        rw [isort_perm hr]
        have he : (ready (p :: d)).isEmpty = (ready (p' :: d')).isEmpty := perm_isEmpty hr
        rw [he]
        split
        · rfl
        · exact ih _ (stepDag_perm h hr)

theorem closeDag_perm {d d' : Dag} (h : d.Perm d') : (closeDag d).Perm (closeDag d') := by
  unfold closeDag
  refine h.append ((dedupFirst_perm ?_).map _)
  have hk : (keys d).Perm (keys d') := h.map _
  rw [contains_perm hk]
  exact (h.flatMap_right _).filter _

theorem tsort_perm {d d' : Dag} (h : d.Perm d') : tsort d = tsort d' := by
  unfold tsort
  have hc := closeDag_perm h
  simp only
  rw [hc.length_eq]
  exact tsortLoop_perm _ _ hc

/-- the order inside a dependency set does not matter either: only membership is used -/
theorem stepDag_congr_deps (d : Dag) (c : List Nat) : keys (stepDag d c) = (keys d).filter fun x => !c.contains x := by
  unfold stepDag keys
  induction d with
  | nil => rfl
  | cons p d ih => simp only [List.filter_cons]; split <;> simp_all

theorem removeComplements_perm {xs ys : List Opnd} (h : xs.Perm ys) : removeComplements xs = removeComplements ys := by
  unfold removeComplements
  have e : isComplementIn xs = isComplementIn ys := by
    funext o; cases o <;> simp [isComplementIn, h.mem_iff]
  rw [e]
  exact h.any_eq

/-! ### per-call state -/

theorem setAll_eq (as : Assigns) (st : State) (f : String) :
    setAll as st f = match lastVal as f with
      | some w => some w
      | none => st f := by
  induction as generalizing st with
  | nil => rfl
  | cons p rest ih =>
    obtain ⟨g, v⟩ := p
    simp only [setAll, lastVal]
    rw [ih]
    cases lastVal rest f with
    | some w => rfl
    | none => simp only [update]; split <;> simp_all

theorem lastVal_none_of_not_mem {as : Assigns} {f : String} (h : f ∉ as.map (·.1)) : lastVal as f = none := by
  induction as with
  | nil => rfl
  | cons p rest ih =>
    obtain ⟨g, v⟩ := p
    simp only [List.map_cons, List.mem_cons, not_or] at h
    simp [lastVal, ih h.2, h.1]

theorem lastVal_mem {as : Assigns} {f w : String} (h : lastVal as f = some w) : (f, w) ∈ as := by
  induction as with
  | nil => simp [lastVal] at h
  | cons p rest ih =>
    obtain ⟨g, v⟩ := p
    simp only [lastVal] at h
    cases hr : lastVal rest f with
    | some w' => rw [hr] at h; cases h; exact List.mem_cons_of_mem _ (ih hr)
    | none =>
      rw [hr] at h
      by_cases e : f = g
      · simp only [e, if_true, Option.some.injEq] at h; subst h; rw [e]; exact List.mem_cons_self
      · simp [e] at h

/-- **reuse = fresh** (general form): if `reset()` repeats `__init__`'s value for every field it assigns, and every field
    that a call may write is assigned by `reset()` (or is exempt, i.e. restored by the call itself), then after ANY
    history that only wrote such fields, `reset()` puts every non-exempt field back to what a new object holds. -/
theorem reuse_eq_fresh_general (init reset : Assigns) (written exempt : List String)
    (h1 : resetRepeatsInit init reset = true) (h2 : writesCovered reset written exempt = true)
    (dirty : State) (hd : ∀ f, f ∉ written → dirty f = fresh init f) :
    ∀ f, f ∉ exempt → setAll reset dirty f = fresh init f := by
  intro f hf
  rw [setAll_eq]
  cases hl : lastVal reset f with
  | some w =>
    have hm := lastVal_mem hl
    have := (List.all_eq_true.mp h1) _ hm
    simp only [beq_iff_eq] at this
    simp only [fresh]
    rw [setAll_eq, this]
  | none =>
    simp only
    apply hd
    intro hw
    have := (List.all_eq_true.mp h2) _ hw
    simp only [Bool.or_eq_true, List.contains_iff_mem] at this
    rcases this with hm | he
    · obtain ⟨p, hp, rfl⟩ := List.mem_map.mp hm
      have : lastVal reset p.1 ≠ none := by
        clear hl hf hw hd h1 h2 hm
        induction reset with
        | nil => cases hp
        | cons q rest ih =>
          obtain ⟨g, v⟩ := q
          simp only [lastVal]
          cases hr : lastVal rest p.1 with
          | some w => simp
          | none =>
            rcases List.mem_cons.mp hp with e | hp'
            · simp [e]
            · exact absurd hr (ih hp')
      exact this hl
    · exact hf he

end SqlglotModel.Determinism
