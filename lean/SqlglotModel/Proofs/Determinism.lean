/-
  C15 helper lemmas (core Lean only): insertion sort is invariant under permutations of its input (`isort_perm`),
  `dedupFirst` keeps exactly the members (so it is permutation-invariant up to order), the fast paths of `uniq_sort`
  agree with "dedup, then sort" (`uniqSort_spec`), every step of `tsort` maps permuted dicts to permuted dicts, and a
  block of assignments is summarised by the last value per field (`setAll_eq`).
-/
import SqlglotModel.Model.Determinism
namespace SqlglotModel.Determinism
open List

theorem mem_insertSorted {a x : Nat} {l : List Nat} : x ∈ insertSorted a l ↔ x = a ∨ x ∈ l := by
  induction l with
  | nil => simp [insertSorted]
  | cons b l ih => simp only [insertSorted]; split <;> simp [ih] <;> grind

theorem mem_isort {x : Nat} {l : List Nat} : x ∈ isort l ↔ x ∈ l := by
  induction l with
  | nil => simp [isort]
  | cons a l ih => simp [isort, mem_insertSorted, ih]

theorem length_insertSorted (a : Nat) (l : List Nat) : (insertSorted a l).length = l.length + 1 := by
  induction l with
  | nil => simp [insertSorted]
  | cons b l ih => simp only [insertSorted]; split <;> simp [ih]

theorem length_isort (l : List Nat) : (isort l).length = l.length := by
  induction l with
  | nil => simp [isort]
  | cons a l ih => simp [isort, length_insertSorted, ih]

/-- inserting two keys commutes (the order is total and antisymmetric) -/
theorem insertSorted_comm (a b : Nat) (l : List Nat) :
    insertSorted a (insertSorted b l) = insertSorted b (insertSorted a l) := by
  induction l with
  | nil => simp only [insertSorted]; split <;> split <;> simp_all <;> omega
  | cons c l ih =>
    simp only [insertSorted]
    by_cases h1 : b ≤ c <;> by_cases h2 : a ≤ c <;> simp only [h1, h2, if_true, if_false, insertSorted, ih] <;>
      (repeat' split) <;> simp_all <;> omega

/-- **sorting forgets the order of its input** -/
theorem isort_perm {xs ys : List Nat} (h : xs.Perm ys) : isort xs = isort ys := by
  induction h with
  | nil => rfl
  | cons a _ ih => simp [isort, ih]
  | swap a b l => simp [isort, insertSorted_comm]
  | trans _ _ ih1 ih2 => rw [ih1, ih2]

theorem pairwise_lt_insertSorted {a : Nat} {l : List Nat} (h : l.Pairwise (· < ·)) (ha : a ∉ l) :
    (insertSorted a l).Pairwise (· < ·) := by
  induction l with
  | nil => simp [insertSorted]
  | cons b l ih =>
    simp only [insertSorted]
    have hb := List.pairwise_cons.mp h
    have hab : a ≠ b := fun e => ha (e ▸ List.mem_cons_self)
    have hal : a ∉ l := fun m => ha (List.mem_cons_of_mem _ m)
    split
    · refine List.pairwise_cons.mpr ⟨?_, h⟩
      intro x hx
      rcases List.mem_cons.mp hx with rfl | hx
      · omega
      · have := hb.1 x hx; omega
    · refine List.pairwise_cons.mpr ⟨?_, ih hb.2 hal⟩
      intro x hx
      rcases mem_insertSorted.mp hx with rfl | hx
      · omega
      · exact hb.1 x hx

theorem strict_isort {l : List Nat} (h : l.Nodup) : (isort l).Pairwise (· < ·) := by
  induction l with
  | nil => simp [isort]
  | cons a l ih =>
    have := List.nodup_cons.mp h
    exact pairwise_lt_insertSorted (ih this.2) (fun m => this.1 (mem_isort.mp m))

theorem mem_dedupFirst {x : Nat} {l : List Nat} : x ∈ dedupFirst l ↔ x ∈ l := by
  induction l with
  | nil => simp [dedupFirst]
  | cons a l ih => simp only [dedupFirst, List.mem_cons, List.mem_filter, ih]; grind

theorem nodup_dedupFirst (l : List Nat) : (dedupFirst l).Nodup := by
  induction l with
  | nil => simp [dedupFirst]
  | cons a l ih =>
    simp only [dedupFirst]
    refine List.nodup_cons.mpr ⟨by simp, ?_⟩
    exact ih.sublist List.filter_sublist

theorem dedupFirst_perm {xs ys : List Nat} (h : xs.Perm ys) : (dedupFirst xs).Perm (dedupFirst ys) :=
  (List.perm_ext_iff_of_nodup (nodup_dedupFirst xs) (nodup_dedupFirst ys)).mpr fun a => by
    rw [mem_dedupFirst, mem_dedupFirst]; exact h.mem_iff

/-- an ascending list is already sorted -/
theorem isort_of_ascending {l : List Nat} (h : ascending l = true) : isort l = l := by
  induction l with
  | nil => rfl
  | cons a l ih =>
    cases l with
    | nil => rfl
    | cons b l =>
      simp only [ascending, Bool.and_eq_true, decide_eq_true_eq] at h
      rw [isort, ih h.2]
      simp [insertSorted, h.1]

theorem dedupFirst_eq_self_of_length {l : List Nat} (h : (dedupFirst l).length = l.length) : dedupFirst l = l := by
  induction l with
  | nil => rfl
  | cons a l ih =>
    simp only [dedupFirst, List.length_cons, Nat.add_right_cancel_iff] at h
    have h1 : ((dedupFirst l).filter (· ≠ a)).length ≤ (dedupFirst l).length := List.length_filter_le _ _
    have h2 : (dedupFirst l).length ≤ l.length := by
      clear h h1 ih
      induction l with
      | nil => simp [dedupFirst]
      | cons b l ih2 =>
        simp only [dedupFirst, List.length_cons]
        have := List.length_filter_le (fun x => decide (x ≠ b)) (dedupFirst l)
        omega
    have h3 : (dedupFirst l).length = l.length := by omega
    have h4 : ((dedupFirst l).filter (· ≠ a)).length = (dedupFirst l).length := by omega
    simp only [dedupFirst]
    rw [List.filter_eq_self.mpr (List.length_filter_eq_length_iff.mp h4), ih h3]

/-- the keys `uniq_sort` leaves, said without the "already sorted" fast paths -/
theorem uniqSort_spec (xs : List Nat) :
    uniqSort false xs =
      if (dedupFirst xs).length = 1 ∧ 1 < xs.length then ⟨dedupFirst xs, true⟩ else ⟨isort (dedupFirst xs), false⟩ := by
  unfold uniqSort
  simp only [Bool.false_eq_true, if_false]
  by_cases hasc : ascending (dedupFirst xs) = true
  · simp only [hasc, Bool.not_true, Bool.false_eq_true, if_false]
    by_cases hlen : (dedupFirst xs).length < xs.length
    · simp only [hlen, if_true]
      by_cases h1 : (dedupFirst xs).length = 1
      · have : 1 < xs.length := by omega
        simp [h1, this]
      · simp [h1, isort_of_ascending hasc]
    · have hle : (dedupFirst xs).length ≤ xs.length := by
        have := length_isort (dedupFirst xs)
        clear hlen hasc
        induction xs with
        | nil => simp [dedupFirst]
        | cons b l ih2 =>
          simp only [dedupFirst, List.length_cons]
          have := List.length_filter_le (fun x => decide (x ≠ b)) (dedupFirst l)
          have := ih2 (length_isort _)
          omega
      have heq : (dedupFirst xs).length = xs.length := by omega
      have hself := dedupFirst_eq_self_of_length heq
      simp only [hlen, if_false]
      have : ¬ ((dedupFirst xs).length = 1 ∧ 1 < xs.length) := by omega
      simp only [this, if_false]
      rw [isort_of_ascending hasc, hself]
  · have hf : ascending (dedupFirst xs) = false := by simpa using hasc
    simp only [hf, Bool.not_false, if_true]
    have : ¬ ((dedupFirst xs).length = 1 ∧ 1 < xs.length) := by
      intro ⟨h1, _⟩
      match hd : dedupFirst xs, h1 with
      | [a], _ => rw [hd] at hf; simp [ascending] at hf
    simp [this]

theorem uniqSort_xor (xs : List Nat) : uniqSort true xs = ⟨isort xs, false⟩ := by
  unfold uniqSort
  simp only [if_true]
  split
  · next h => rw [isort_of_ascending h]
  · rfl

theorem uniqSort_perm (xor : Bool) {xs ys : List Nat} (h : xs.Perm ys) : uniqSort xor xs = uniqSort xor ys := by
  cases xor with
  | true => rw [uniqSort_xor, uniqSort_xor, isort_perm h]
  | false =>
    rw [uniqSort_spec, uniqSort_spec]
    have hd := dedupFirst_perm h
    have hl := hd.length_eq
    have hx := h.length_eq
    rw [isort_perm hd, ← hl, ← hx]
    split
    · next hc =>
      match hxs : dedupFirst xs, hc.1 with
      | [a], _ =>
        rw [hxs] at hd
        have : dedupFirst ys = [a] := List.perm_singleton.mp hd.symm
        rw [this]
    · rfl

/-! ### tsort -/

theorem perm_isEmpty {l l' : List Nat} (h : l.Perm l') : l.isEmpty = l'.isEmpty := by
  have := h.length_eq
  cases l <;> cases l' <;> simp_all

theorem ready_perm {d d' : Dag} (h : d.Perm d') : (ready d).Perm (ready d') :=
  (h.filter _).map _

theorem contains_perm {c c' : List Nat} (h : c.Perm c') : (fun x => !c.contains x) = fun x => !c'.contains x := by
  funext x; rw [h.contains_eq]

theorem stepDag_perm {d d' : Dag} {c c' : List Nat} (h : d.Perm d') (hc : c.Perm c') :
    (stepDag d c).Perm (stepDag d' c') := by
  unfold stepDag
  have e1 : (fun p : Nat × List Nat => !c.contains p.1) = fun p => !c'.contains p.1 := by
    funext p; rw [hc.contains_eq]
  rw [e1, contains_perm hc]
  exact (h.filter _).map _

theorem tsortLoop_perm (n : Nat) {d d' : Dag} (acc : List Nat) (h : d.Perm d') :
    tsortLoop n d acc = tsortLoop n d' acc := by
  induction n generalizing d d' acc with
  | zero =>
    cases d with
    | nil => rw [List.nil_perm.mp h]
    | cons p d =>
      cases d' with
      | nil => exact absurd (List.perm_nil.mp h) (by simp)
      | cons p' d' => rfl
  | succ n ih =>
    cases d with
    | nil => rw [List.nil_perm.mp h]
    | cons p d =>
      cases d' with
      | nil => exact absurd (List.perm_nil.mp h) (by simp)
      | cons p' d' =>
        have hr := ready_perm h
        simp only [tsortLoop]
        rw [isort_perm hr]
        have he : (ready (p :: d)).isEmpty = (ready (p' :: d')).isEmpty := perm_isEmpty hr
        rw [he]
        split
        · rfl
        · exact ih _ (stepDag_perm h hr)

theorem closeDag_perm {d d' : Dag} (h : d.Perm d') : (closeDag d).Perm (closeDag d') := by
  unfold closeDag
  refine h.append ((dedupFirst_perm ?_).map _)
  have hk : (keys d).Perm (keys d') := h.map _
  rw [contains_perm hk]
  exact (h.flatMap_right _).filter _

theorem tsort_perm {d d' : Dag} (h : d.Perm d') : tsort d = tsort d' := by
  unfold tsort
  have hc := closeDag_perm h
  simp only
  rw [hc.length_eq]
  exact tsortLoop_perm _ _ hc

/-- the order inside a dependency set does not matter either: only membership is used -/
theorem stepDag_congr_deps (d : Dag) (c : List Nat) : keys (stepDag d c) = (keys d).filter fun x => !c.contains x := by
  unfold stepDag keys
  induction d with
  | nil => rfl
  | cons p d ih => simp only [List.filter_cons]; split <;> simp_all

theorem removeComplements_perm {xs ys : List Opnd} (h : xs.Perm ys) : removeComplements xs = removeComplements ys := by
  unfold removeComplements
  have e : isComplementIn xs = isComplementIn ys := by
    funext o; cases o <;> simp [isComplementIn, h.mem_iff]
  rw [e]
  exact h.any_eq

/-! ### per-call state -/

theorem setAll_eq (as : Assigns) (st : State) (f : String) :
    setAll as st f = match lastVal as f with
      | some w => some w
      | none => st f := by
  induction as generalizing st with
  | nil => rfl
  | cons p rest ih =>
    obtain ⟨g, v⟩ := p
    simp only [setAll, lastVal]
    rw [ih]
    cases lastVal rest f with
    | some w => rfl
    | none => simp only [update]; split <;> simp_all

theorem lastVal_none_of_not_mem {as : Assigns} {f : String} (h : f ∉ as.map (·.1)) : lastVal as f = none := by
  induction as with
  | nil => rfl
  | cons p rest ih =>
    obtain ⟨g, v⟩ := p
    simp only [List.map_cons, List.mem_cons, not_or] at h
    simp [lastVal, ih h.2, h.1]

theorem lastVal_mem {as : Assigns} {f w : String} (h : lastVal as f = some w) : (f, w) ∈ as := by
  induction as with
  | nil => simp [lastVal] at h
  | cons p rest ih =>
    obtain ⟨g, v⟩ := p
    simp only [lastVal] at h
    cases hr : lastVal rest f with
    | some w' => rw [hr] at h; cases h; exact List.mem_cons_of_mem _ (ih hr)
    | none =>
      rw [hr] at h
      by_cases e : f = g
      · simp only [e, if_true, Option.some.injEq] at h; subst h; rw [e]; exact List.mem_cons_self
      · simp [e] at h

/-- **reuse = fresh** (general form): if `reset()` repeats `__init__`'s value for every field it assigns, and every field
    that a call may write is assigned by `reset()` (or is exempt, i.e. restored by the call itself), then after ANY
    history that only wrote such fields, `reset()` puts every non-exempt field back to what a new object holds. -/
theorem reuse_eq_fresh_general (init reset : Assigns) (written exempt : List String)
    (h1 : resetRepeatsInit init reset = true) (h2 : writesCovered reset written exempt = true)
    (dirty : State) (hd : ∀ f, f ∉ written → dirty f = fresh init f) :
    ∀ f, f ∉ exempt → setAll reset dirty f = fresh init f := by
  intro f hf
  rw [setAll_eq]
  cases hl : lastVal reset f with
  | some w =>
    have hm := lastVal_mem hl
    have := (List.all_eq_true.mp h1) _ hm
    simp only [beq_iff_eq] at this
    simp only [fresh]
    rw [setAll_eq, this]
  | none =>
    simp only
    apply hd
    intro hw
    have := (List.all_eq_true.mp h2) _ hw
    simp only [Bool.or_eq_true, List.contains_iff_mem] at this
    rcases this with hm | he
    · obtain ⟨p, hp, rfl⟩ := List.mem_map.mp hm
      have : lastVal reset p.1 ≠ none := by
        clear hl hf hw hd h1 h2 hm
        induction reset with
        | nil => cases hp
        | cons q rest ih =>
          obtain ⟨g, v⟩ := q
          simp only [lastVal]
          cases hr : lastVal rest p.1 with
          | some w => simp
          | none =>
            rcases List.mem_cons.mp hp with e | hp'
            · simp [e]
            · exact absurd hr (ih hp')
      exact this hl
    · exact hf he


/-! ### tsort: the order INSIDE a dependency set -/

/-- same keys in the same order, each dependency set enumerated in a possibly different order -/
def InnerEq : Dag → Dag → Prop
  | [], [] => True
  | p :: d, q :: d' => p.1 = q.1 ∧ p.2.Perm q.2 ∧ InnerEq d d'
  | _, _ => False

theorem InnerEq.refl : ∀ d : Dag, InnerEq d d
  | [] => trivial
  | _ :: d => ⟨rfl, Perm.refl _, InnerEq.refl d⟩

theorem InnerEq.length {d d' : Dag} (h : InnerEq d d') : d.length = d'.length := by
  induction d generalizing d' with
  | nil => cases d' <;> simp_all [InnerEq]
  | cons p d ih => cases d' with
    | nil => simp [InnerEq] at h
    | cons q d' => simp [ih h.2.2]

theorem InnerEq.append {a a' b b' : Dag} (h1 : InnerEq a a') (h2 : InnerEq b b') : InnerEq (a ++ b) (a' ++ b') := by
  induction a generalizing a' with
  | nil => cases a' <;> simp_all [InnerEq]
  | cons p a ih => cases a' with
    | nil => simp [InnerEq] at h1
    | cons q a' => exact ⟨h1.1, h1.2.1, ih h1.2.2⟩

theorem keys_innerEq {d d' : Dag} (h : InnerEq d d') : keys d = keys d' := by
  induction d generalizing d' with
  | nil => cases d' <;> simp_all [InnerEq, keys]
  | cons p d ih => cases d' with
    | nil => simp [InnerEq] at h
    | cons q d' => simp only [keys, List.map_cons, h.1]; congr 1; exact ih h.2.2

theorem ready_innerEq {d d' : Dag} (h : InnerEq d d') : ready d = ready d' := by
  induction d generalizing d' with
  | nil => cases d' <;> simp_all [InnerEq, ready]
  | cons p d ih => cases d' with
    | nil => simp [InnerEq] at h
    | cons q d' =>
      have he : p.2.isEmpty = q.2.isEmpty := perm_isEmpty h.2.1
      have := ih h.2.2
      simp only [ready] at this ⊢
      simp only [List.filter_cons, he]
      split <;> simp [h.1, this]

theorem stepDag_innerEq {d d' : Dag} (c : List Nat) (h : InnerEq d d') : InnerEq (stepDag d c) (stepDag d' c) := by
  induction d generalizing d' with
  | nil => cases d' <;> simp_all [InnerEq, stepDag]
  | cons p d ih => cases d' with
    | nil => simp [InnerEq] at h
    | cons q d' =>
      have := ih h.2.2
      simp only [stepDag] at this ⊢
      simp only [List.filter_cons, h.1]
      split
      · exact ⟨h.1, h.2.1.filter _, this⟩
      · exact this

theorem tsortLoop_innerEq (n : Nat) {d d' : Dag} (acc : List Nat) (h : InnerEq d d') :
    tsortLoop n d acc = tsortLoop n d' acc := by
  induction n generalizing d d' acc with
  | zero =>
    cases d <;> cases d' <;> simp_all [InnerEq, tsortLoop]
  | succ n ih =>
    cases d with
    | nil => cases d' <;> simp_all [InnerEq, tsortLoop]
    | cons p d =>
      cases d' with
      | nil => simp [InnerEq] at h
      | cons q d' =>
        simp only [tsortLoop, ready_innerEq h]
        split
        · rfl
        · exact ih _ (stepDag_innerEq _ h)

theorem flatMap_innerEq {d d' : Dag} (h : InnerEq d d') : (d.flatMap (·.2)).Perm (d'.flatMap (·.2)) := by
  induction d generalizing d' with
  | nil => cases d' <;> simp_all [InnerEq]
  | cons p d ih => cases d' with
    | nil => simp [InnerEq] at h
    | cons q d' => simp only [List.flatMap_cons]; exact h.2.1.append (ih h.2.2)

/-- **tsort does not depend on the order inside the dependency sets either** -/
theorem tsort_innerEq {d d' : Dag} (h : InnerEq d d') : tsort d = tsort d' := by
  unfold tsort
  simp only
  have hk := keys_innerEq h
  -- the nodes added by the closure are the same set, possibly in another order
  have hx : ((dedupFirst ((d.flatMap (·.2)).filter fun x => !(keys d).contains x)).map fun x => (x, ([] : List Nat))).Perm
            ((dedupFirst ((d'.flatMap (·.2)).filter fun x => !(keys d').contains x)).map fun x => (x, ([] : List Nat))) := by
    rw [hk]
    exact (dedupFirst_perm ((flatMap_innerEq h).filter _)).map _
  have hlen : (closeDag d).length = (closeDag d').length := by
    simp only [closeDag, List.length_append, h.length, hx.length_eq]
  rw [hlen]
  -- closeDag d ~ d ++ X'  (outer permutation) and  d ++ X'  is InnerEq to  closeDag d'
  have h1 : (closeDag d).Perm (d ++ (dedupFirst ((d'.flatMap (·.2)).filter fun x => !(keys d').contains x)).map fun x => (x, [])) :=
    Perm.append_left d hx
  rw [tsortLoop_perm _ _ h1]
  exact tsortLoop_innerEq _ _ (InnerEq.append h (InnerEq.refl _))

/-! ### absorb_and_eliminate: the iteration order of the operand sets -/

theorem properSubset_perm {a a' b b' : List Nat} (ha : a.Perm a') (hb : b.Perm b') :
    properSubset a b = properSubset a' b' := by
  unfold properSubset
  have e1 : (fun x => b.contains x) = fun x => b'.contains x := by funext x; exact hb.contains_eq
  have e2 : (fun x => a.contains x) = fun x => a'.contains x := by funext x; exact ha.contains_eq
  rw [e1, e2, ha.all_eq, hb.all_eq]

/-- same operands in the same order, each sub-operand set enumerated in a possibly different order -/
def AOpsEq : List AOp → List AOp → Prop
  | [], [] => True
  | o :: os, o' :: os' => o.dual = o'.dual ∧ o.lits.Perm o'.lits ∧ AOpsEq os os'
  | _, _ => False

theorem subops_any_eq {ops ops' : List AOp} (h : AOpsEq ops ops') (i : Nat) {sup sup' : List Nat} (hs : sup.Perm sup') :
    ((subopsOf ops i).any fun sub => properSubset sub sup) = ((subopsOf ops' i).any fun sub => properSubset sub sup') := by
  induction ops generalizing ops' with
  | nil => cases ops' <;> simp_all [AOpsEq, subopsOf]
  | cons o os ih => cases ops' with
    | nil => simp [AOpsEq] at h
    | cons o' os' =>
      have hc : o.lits.contains i = o'.lits.contains i := h.2.1.contains_eq
      have := ih h.2.2
      simp only [subopsOf] at this ⊢
      simp only [List.filter_cons, hc]
      split
      · simp only [List.map_cons, List.any_cons, this, properSubset_perm h.2.1 hs]
      · exact this

theorem absorbed_eq {ops ops' : List AOp} (h : AOpsEq ops ops') {sup sup' : List Nat} (hs : sup.Perm sup') :
    absorbed ops sup = absorbed ops' sup' := by
  unfold absorbed
  have e : (fun i => (subopsOf ops i).any fun sub => properSubset sub sup) =
           (fun i => (subopsOf ops' i).any fun sub => properSubset sub sup') := by
    funext i; exact subops_any_eq h i hs
  rw [e]; exact hs.any_eq

theorem absorbPass_eq {ops ops' : List AOp} (h : AOpsEq ops ops') : absorbPass ops = absorbPass ops' := by
  unfold absorbPass
  suffices ∀ (xs xs' : List AOp), AOpsEq xs xs' →
      xs.map (fun o => o.dual && absorbed ops o.lits) = xs'.map (fun o => o.dual && absorbed ops' o.lits) from this _ _ h
  intro xs
  induction xs with
  | nil => intro xs' hx; cases xs' <;> simp_all [AOpsEq]
  | cons o os ih =>
    intro xs' hx
    cases xs' with
    | nil => simp [AOpsEq] at hx
    | cons o' os' =>
      simp only [List.map_cons, hx.1, absorbed_eq h hx.2.1, ih _ hx.2.2]



/-! ### dict storage order: lookups on an association list with distinct keys -/

theorem find_key_perm {α : Type} {d d' : List (Nat × α)} (k : Nat) (hn : (d.map (·.1)).Nodup) (h : d.Perm d') :
    d.find? (fun p => p.1 == k) = d'.find? (fun p => p.1 == k) := by
  induction h with
  | nil => rfl
  | cons a _ ih =>
    simp only [List.map_cons, List.nodup_cons] at hn
    simp only [List.find?_cons]; split
    · rfl
    · exact ih hn.2
  | swap a b l =>
    simp only [List.map_cons, List.nodup_cons, List.mem_cons, not_or] at hn
    have hne : b.1 ≠ a.1 := hn.1.1
    simp only [List.find?_cons]
    cases hak : (a.1 == k) <;> cases hbk : (b.1 == k) <;> simp only []
    exact absurd ((beq_iff_eq.mp hbk).trans (beq_iff_eq.mp hak).symm) hne
  | trans h1 _ ih1 ih2 =>
    rw [ih1 hn, ih2 (((h1.map (·.1)).nodup_iff).mp hn)]

theorem dget_perm {d d' : List (Nat × Name)} (k : Nat) (hn : (d.map (·.1)).Nodup) (h : d.Perm d') : dget d k = dget d' k := by
  unfold dget; rw [find_key_perm k hn h]

theorem findFrom_perm {t t' : List Name} (h : t.Perm t') (base : Name) (fuel i : Nat) :
    findFrom t base fuel i = findFrom t' base fuel i := by
  induction fuel generalizing i with
  | zero => rfl
  | succ n ih => simp only [findFrom, h.contains_eq, ih]

theorem findNewName_perm {t t' : List Name} (h : t.Perm t') (base : Name) : findNewName t base = findNewName t' base := by
  unfold findNewName; rw [h.contains_eq, h.length_eq, findFrom_perm h]

/-- two states of `existing_ctes` / `taken` that hold the same entries in a different storage order -/
def CteSt.Same (a b : CteSt) : Prop := a.existing.Perm b.existing ∧ a.taken.Perm b.taken

def CteSt.Ok (a : CteSt) : Prop := (a.existing.map (·.1)).Nodup

theorem dget_none_not_mem {d : List (Nat × Name)} {k : Nat} (h : dget d k = none) : k ∉ d.map (·.1) := by
  intro hm
  obtain ⟨p, hp, rfl⟩ := List.mem_map.mp hm
  unfold dget at h
  simp only [Option.map_eq_none_iff] at h
  have := List.find?_eq_none.mp h p hp
  simp at this

/-- one `_new_cte` call: same decision, same tables (up to storage order), distinct keys preserved -/
theorem newCte_same {a b : CteSt} (hs : a.Same b) (ha : a.Ok) (key : Nat) (alias : Name) :
    (newCte a key alias).1 = (newCte b key alias).1 ∧ (newCte a key alias).2.1 = (newCte b key alias).2.1 ∧
    (newCte a key alias).2.2.Same (newCte b key alias).2.2 ∧ (newCte a key alias).2.2.Ok := by
  obtain ⟨he, ht⟩ := hs
  have hd := dget_perm key ha he
  unfold newCte
  simp only [← hd, findNewName_perm ht, ht.contains_eq]
  cases hg : dget a.existing key with
  | some dup => exact ⟨rfl, rfl, ⟨he, ht.cons _⟩, ha⟩
  | none =>
    refine ⟨rfl, rfl, ⟨he.cons _, ht.cons _⟩, ?_⟩
    simp only [CteSt.Ok, List.map_cons, List.nodup_cons]
    exact ⟨dget_none_not_mem hg, ha⟩

/-- **CTE de-duplication**: every decision of an eliminate_subqueries run (which name, new CTE or reuse) is the same
    whatever order the two dicts store their entries in -/
theorem elimAll_same {a b : CteSt} (hs : a.Same b) (ha : a.Ok) (xs : List (Nat × Name)) : elimAll a xs = elimAll b xs := by
  induction xs generalizing a b with
  | nil => rfl
  | cons x xs ih =>
    obtain ⟨k, al⟩ := x
    have := newCte_same hs ha k al
    simp only [elimAll, this.1, this.2.1]
    congr 1
    exact ih this.2.2.1 this.2.2.2

/-! ### process-wide tables filled on demand -/

def Coherent (build : Nat → Nat) (t : Table) : Prop := ∀ k v, tget t k = some v → v = build k

theorem tget_cons (t : Table) (k k' v : Nat) :
    tget ((k', v) :: t) k = if k' = k then some v else tget t k := by
  unfold tget
  simp only [List.find?_cons]
  cases h : (k' == k)
  · have : ¬ k' = k := by simpa using h
    simp [this]
  · have : k' = k := by simpa using h
    simp [this]

theorem fillGet_coherent {build : Nat → Nat} {t : Table} (h : Coherent build t) (k : Nat) :
    Coherent build (fillGet build t k).2 := by
  unfold fillGet
  cases hg : tget t k with
  | some v => exact h
  | none =>
    intro k' v' hv
    rw [tget_cons] at hv
    split at hv
    · next e => cases hv; rw [e]
    · exact h k' v' hv

theorem fillGet_value {build : Nat → Nat} {t : Table} (h : Coherent build t) (k : Nat) : (fillGet build t k).1 = build k := by
  unfold fillGet
  cases hg : tget t k with
  | some v => exact h k v hg
  | none => rfl

theorem fillGet_present {build : Nat → Nat} {t : Table} {k v : Nat} (h : tget t k = some v) : fillGet build t k = (v, t) := by
  unfold fillGet; rw [h]

theorem runFills_coherent {build : Nat → Nat} {t : Table} (h : Coherent build t) (ks : List Nat) :
    Coherent build (runFills build t ks) := by
  induction ks generalizing t with
  | nil => exact h
  | cons k ks ih => exact ih (fillGet_coherent h k)

theorem coherent_nil (build : Nat → Nat) : Coherent build [] := by
  intro k v h; simp [tget] at h

/-! ### keyword settings in any order -/

theorem lastVal_eq_of_nodup {as : Assigns} (hn : (as.map (·.1)).Nodup) {f v : String} (hm : (f, v) ∈ as) :
    lastVal as f = some v := by
  induction as with
  | nil => cases hm
  | cons p rest ih =>
    obtain ⟨g, w⟩ := p
    simp only [List.map_cons, List.nodup_cons] at hn
    simp only [lastVal]
    rcases List.mem_cons.mp hm with e | hm'
    · cases e
      rw [lastVal_none_of_not_mem hn.1]; simp
    · rw [ih hn.2 hm']

theorem lastVal_perm {as as' : Assigns} (hn : (as.map (·.1)).Nodup) (h : as.Perm as') (f : String) :
    lastVal as f = lastVal as' f := by
  have hn' : (as'.map (·.1)).Nodup := ((h.map (·.1)).nodup_iff).mp hn
  cases hl : lastVal as f with
  | some v => rw [lastVal_eq_of_nodup hn' (h.mem_iff.mp (lastVal_mem hl))]
  | none =>
    cases hl' : lastVal as' f with
    | none => rfl
    | some v =>
      have := lastVal_eq_of_nodup hn (h.mem_iff.mpr (lastVal_mem hl'))
      rw [hl] at this; cases this

theorem setAll_perm {as as' : Assigns} (hn : (as.map (·.1)).Nodup) (h : as.Perm as') (st : State) (f : String) :
    setAll as st f = setAll as' st f := by
  rw [setAll_eq, setAll_eq, lastVal_perm hn h]



/-! ### sorting with a key function: permutation-invariant exactly when distinct elements never tie -/

theorem insertByKey_comm (key : Nat → Nat) (a b : Nat) (h : key a = key b → a = b) (l : List Nat) :
    insertByKey key a (insertByKey key b l) = insertByKey key b (insertByKey key a l) := by
  by_cases hab : a = b
  · subst hab; rfl
  · have hk : key a ≠ key b := fun e => hab (h e)
    induction l with
    | nil => simp only [insertByKey]; split <;> split <;> simp_all <;> omega
    | cons c l ih =>
      simp only [insertByKey]
      by_cases h1 : key b ≤ key c <;> by_cases h2 : key a ≤ key c <;>
        simp only [h1, h2, if_true, if_false, insertByKey, ih] <;> (repeat' split) <;> simp_all <;> omega

theorem mem_insertByKey {key : Nat → Nat} {a x : Nat} {l : List Nat} : x ∈ insertByKey key a l ↔ x = a ∨ x ∈ l := by
  induction l with
  | nil => simp [insertByKey]
  | cons b l ih => simp only [insertByKey]; split <;> simp [ih] <;> grind

theorem mem_isortBy {key : Nat → Nat} {x : Nat} {l : List Nat} : x ∈ isortBy key l ↔ x ∈ l := by
  induction l with
  | nil => simp [isortBy]
  | cons a l ih => simp [isortBy, mem_insertByKey, ih]

/-- a keyed sort forgets the order of its input PROVIDED the key is injective on the elements being sorted -/
theorem isortBy_perm (key : Nat → Nat) {xs ys : List Nat} (h : xs.Perm ys)
    (hinj : ∀ a ∈ xs, ∀ b ∈ xs, key a = key b → a = b) : isortBy key xs = isortBy key ys := by
  induction h with
  | nil => rfl
  | cons a _ ih =>
    simp only [isortBy]
    rw [ih (fun x hx y hy => hinj x (List.mem_cons_of_mem _ hx) y (List.mem_cons_of_mem _ hy))]
  | swap a b l =>
    simp only [isortBy]
    exact insertByKey_comm key b a (hinj b (by simp) a (by simp)) _
  | trans h1 _ ih1 ih2 =>
    rw [ih1 hinj, ih2 (fun x hx y hy => hinj x (h1.mem_iff.mpr hx) y (h1.mem_iff.mpr hy))]

theorem isortBy_id (l : List Nat) : isortBy id l = isort l := by
  induction l with
  | nil => rfl
  | cons a l ih =>
    simp only [isortBy, isort, ih]
    generalize isort l = m
    induction m with
    | nil => rfl
    | cons b m ihm => simp only [insertByKey, insertSorted, id, ihm]



theorem runGuarded_finally_restores (f forced : String) (body : State → State × Exit) (st : State) :
    (runGuarded .finallyBlock f forced body st).1 f = st f := by
  unfold runGuarded
  simp only
  split
  · simp
  · next h => cases h
  · simp

theorem runGuarded_other_fields (place : RestorePlace) (f forced : String) (body : State → State × Exit) (st : State)
    (g : String) (hg : g ≠ f) : (runGuarded place f forced body st).1 g = (body (update st f forced)).1 g := by
  unfold runGuarded
  simp only
  split <;> simp [hg]

theorem runGuarded_exit (place : RestorePlace) (f forced : String) (body : State → State × Exit) (st : State) :
    (runGuarded place f forced body st).2 = if (body (update st f forced)).2 = .otherException then .otherException else .normal := by
  unfold runGuarded
  cases place <;> cases h : (body (update st f forced)).2 <;> simp [h]



/-- every cached hit is what the mapping says -/
def CacheOk (m : Nat → Option Nat) (c : FindCache) : Prop := ∀ k v, cget c k = some (some v) → m k = some v

theorem cget_cons (c : FindCache) (k k' : Nat) (x : Option Nat) :
    cget ((k', x) :: c) k = if k' = k then some x else cget c k := by
  unfold cget
  simp only [List.find?_cons]
  cases h : (k' == k)
  · have : ¬ k' = k := by simpa using h
    simp [this]
  · have : k' = k := by simpa using h
    simp [this]

theorem cacheOk_nil (m : Nat → Option Nat) : CacheOk m [] := by
  intro k v h; simp [cget] at h

theorem crecompute_ok {m : Nat → Option Nat} {c : FindCache} (h : CacheOk m c) (k : Nat) (strict : Bool) :
    CacheOk m (crecompute m c k strict).2 ∧ (crecompute m c k strict).1 = resolve m strict k := by
  unfold crecompute
  cases hr : resolve m strict k with
  | found v =>
    refine ⟨?_, rfl⟩
    intro k' v' hv
    simp only [cget_cons] at hv
    split at hv
    · next e =>
      cases hv; subst e
      unfold resolve at hr
      cases hm : m k with
      | some w => simp [hm] at hr; rw [hr]
      | none => simp [hm] at hr; split at hr <;> cases hr
    · exact h k' v' hv
  | missing =>
    refine ⟨?_, rfl⟩
    intro k' v' hv
    simp only [cget_cons] at hv
    split at hv
    · cases hv
    · exact h k' v' hv
  | raised => exact ⟨h, rfl⟩

theorem cfind_ok {m : Nat → Option Nat} {c : FindCache} (h : CacheOk m c) (k : Nat) (strict : Bool) :
    CacheOk m (cfind false m c k strict).2 ∧ (cfind false m c k strict).1 = resolve m strict k := by
  unfold cfind
  cases hg : cget c k with
  | none => exact crecompute_ok h k strict
  | some x =>
    cases x with
    | none => simpa using crecompute_ok h k strict
    | some v =>
      refine ⟨h, ?_⟩
      have := h k v hg
      simp [resolve, this]

theorem runFinds_ok {m : Nat → Option Nat} {c : FindCache} (h : CacheOk m c) (hist : List (Nat × Bool)) :
    CacheOk m (runFinds false m c hist) := by
  induction hist generalizing c with
  | nil => exact h
  | cons x rest ih => obtain ⟨k, s⟩ := x; exact ih (cfind_ok h k s).1



/-- the constant is intact, and nothing handed out is the constant or a cell not yet allocated -/
def HeapOk (c0 : Nat) (h : SharedHeap) : Prop :=
  hget h 0 = some c0 ∧ 1 ≤ h.next ∧ ∀ c ∈ h.returned, 1 ≤ c ∧ c < h.next

theorem hget_cons (h : SharedHeap) (c c' v : Nat) :
    hget { h with cells := (c', v) :: h.cells } c = if c' = c then some v else hget h c := by
  unfold hget
  simp only [List.find?_cons]
  cases hh : (c' == c)
  · have : ¬ c' = c := by simpa using hh
    simp [this]
  · have : c' = c := by simpa using hh
    simp [this]

theorem heapStep_ok {c0 : Nat} {h : SharedHeap} (hk : HeapOk c0 h) (op : HeapOp) : HeapOk c0 (heapStep true h op) := by
  obtain ⟨h0, hn, hr⟩ := hk
  cases op with
  | parse =>
    simp only [heapStep, if_true, h0]
    refine ⟨?_, by simp, ?_⟩
    · have := hget_cons h 0 h.next c0
      simp only [hget] at this ⊢
      simp only [List.find?_cons]
      have hne : (h.next == 0) = false := by simp; omega
      simp only [hne]
      simpa [hget] using h0
    · intro c hc
      simp only [List.mem_append, List.mem_singleton] at hc
      rcases hc with hc | rfl
      · have := hr c hc; exact ⟨this.1, by simp; omega⟩
      · exact ⟨hn, by simp⟩
  | edit i v =>
    simp only [heapStep]
    cases hi : h.returned[i]? with
    | none => exact ⟨h0, hn, hr⟩
    | some c =>
      have hc := hr c (List.mem_of_getElem? hi)
      refine ⟨?_, hn, hr⟩
      have := hget_cons h 0 c v
      rw [this]
      have : ¬ c = 0 := by omega
      simp [this, h0]

theorem heapRun_ok {c0 : Nat} {h : SharedHeap} (hk : HeapOk c0 h) (ops : List HeapOp) : HeapOk c0 (heapRun true h ops) := by
  induction ops generalizing h with
  | nil => exact hk
  | cons op ops ih => exact ih (heapStep_ok hk op)

theorem heapInit_ok (c0 : Nat) : HeapOk c0 (heapInit c0) := by
  refine ⟨by simp [heapInit, hget], by simp [heapInit], ?_⟩
  intro c hc; simp [heapInit] at hc

theorem nextParse_of_ok {c0 : Nat} {h : SharedHeap} (hk : HeapOk c0 h) : nextParseRenders true h = some c0 := by
  obtain ⟨h0, hn, hr⟩ := hk
  simp only [nextParseRenders, heapStep, if_true, h0]
  simp [hget]


end SqlglotModel.Determinism
