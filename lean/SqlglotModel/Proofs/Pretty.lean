/- C07 — helper lemmas: the pretty helpers only add or remove whitespace. -/
import SqlglotModel.Model.Pretty
import SqlglotModel.Model.Gen

namespace SqlglotModel.Pretty

theorem stripWs_append (a b : Str) : stripWs (a ++ b) = stripWs a ++ stripWs b := by
  simp [stripWs]

theorem stripWs_lstrip (l : Str) : stripWs (lstrip l) = stripWs l := by
  induction l with
  | nil => rfl
  | cons c cs ih =>
    simp only [lstrip, List.dropWhile]
    cases h : isWs c
    · simp
    · simp only [lstrip] at ih
      simp [stripWs, h, ih] at ih ⊢
      exact ih

theorem stripWs_reverse (l : Str) : stripWs l.reverse = (stripWs l).reverse := by
  simp [stripWs, List.filter_reverse]

theorem stripWs_rstrip (l : Str) : stripWs (rstrip l) = stripWs l := by
  simp [rstrip, stripWs_reverse, stripWs_lstrip]

theorem stripWs_strip (l : Str) : stripWs (strip l) = stripWs l := by
  simp [strip, stripWs_rstrip, stripWs_lstrip]

theorem stripWs_spaces (n : Nat) : stripWs (spaces n) = [] := by
  induction n with
  | zero => rfl
  | succ k ih => simp [spaces, List.replicate_succ, stripWs, isWs] at ih ⊢

theorem splitNl_ne_nil (s : Str) : splitNl s ≠ [] := by
  cases s with
  | nil => simp [splitNl]
  | cons c cs =>
    simp only [splitNl]
    split
    · simp
    · split <;> simp

theorem joinNl_splitNl (s : Str) : joinNl (splitNl s) = s := by
  induction s with
  | nil => rfl
  | cons c cs ih =>
    simp only [splitNl]
    split
    · rename_i h
      subst h
      cases hs : splitNl cs with
      | nil => exact absurd hs (splitNl_ne_nil cs)
      | cons l ls => simp [hs, joinNl] at ih ⊢; exact ih
    · cases hs : splitNl cs with
      | nil => exact absurd hs (splitNl_ne_nil cs)
      | cons l ls =>
        cases ls with
        | nil => simp [hs, joinNl] at ih ⊢; exact ih
        | cons m ms => simp [hs, joinNl] at ih ⊢; exact ih

/-- whitespace-free content of joined lines -/
def flat : List Str → Str
  | [] => []
  | l :: ls => stripWs l ++ flat ls

theorem stripWs_joinNl (ls : List Str) : stripWs (joinNl ls) = flat ls := by
  induction ls with
  | nil => rfl
  | cons l rest ih =>
    cases rest with
    | nil => simp [joinNl, flat]
    | cons m ms =>
      simp only [joinNl, flat, stripWs_append] at ih ⊢
      rw [show stripWs ('\n' :: joinNl (m :: ms)) = stripWs (joinNl (m :: ms)) by simp [stripWs, isWs]]
      rw [ih]

theorem flat_indentAux (w : Nat) (sf sl : Bool) (first : Bool) (ls : List Str) :
    flat (indentAux w sf sl first ls) = flat ls := by
  induction ls generalizing first with
  | nil => rfl
  | cons l rest ih =>
    cases rest with
    | nil =>
      simp only [indentAux, flat]
      split <;> simp [stripWs_append, stripWs_spaces]
    | cons m ms =>
      simp only [indentAux, flat]
      rw [ih false]
      split <;> simp [stripWs_append, stripWs_spaces, flat]

theorem stripWs_indent (o : Opts) (sql : Str) (level : Nat) (pad : Option Nat) (sf sl : Bool) :
    stripWs (indent o sql level pad sf sl) = stripWs sql := by
  simp only [indent]
  split
  · rfl
  · rw [stripWs_joinNl, flat_indentAux, ← stripWs_joinNl, joinNl_splitNl]

theorem stripWs_sep (o : Opts) (s : Str) : stripWs (sep o s) = stripWs s := by
  simp only [sep]
  split
  · rw [stripWs_append, stripWs_strip]
    simp [stripWs, isWs]
  · rfl

end SqlglotModel.Pretty

namespace SqlglotModel.Pretty

/-- every newline replaced by the sentinel -/
def expand : Str → Str
  | [] => []
  | c :: cs => if c = '\n' then SENTINEL ++ expand cs else c :: expand cs

theorem isPrefix_append (p r : Str) : isPrefix p (p ++ r) = true := by
  induction p with
  | nil => rfl
  | cons a as ih => simp [isPrefix, ih]

theorem replaceF_nl (s : Str) : ∀ f, s.length ≤ f → replaceF ['\n'] SENTINEL (f + 1) s = expand s := by
  induction s with
  | nil => intro f _; rfl
  | cons c cs ih =>
    intro f hf
    simp only [List.length_cons] at hf
    obtain ⟨f', rfl⟩ : ∃ f', f = f' + 1 := ⟨f - 1, by omega⟩
    by_cases h : c = '\n'
    · subst h
      simp only [replaceF, isPrefix, expand, if_true, Bool.and_true, decide_true, List.length_singleton, List.drop_succ_cons,
        List.drop_zero]
      rw [ih f' (by omega)]
    · have h' : ('\n' = c) = False := by simp; exact fun e => h e.symm
      simp only [replaceF, isPrefix, expand, h, h', if_false, Bool.and_true, decide_false, Bool.false_eq_true]
      rw [ih f' (by omega)]

theorem replaceF_sent (s : Str) (hs : '_' ∉ s) :
    ∀ f, (expand s).length ≤ f → replaceF SENTINEL ['\n'] (f + 1) (expand s) = s := by
  induction s with
  | nil => intro f _; rfl
  | cons c cs ih =>
    intro f hf
    have hcs : '_' ∉ cs := fun h => hs (List.mem_cons_of_mem _ h)
    have hc : c ≠ '_' := fun h => hs (h ▸ List.mem_cons_self ..)
    by_cases h : c = '\n'
    · subst h
      simp only [expand, if_true] at hf ⊢
      have hlen : SENTINEL.length = 15 := by decide
      simp only [List.length_append, hlen] at hf
      obtain ⟨f', rfl⟩ : ∃ f', f = f' + 15 := ⟨f - 15, by omega⟩
      have hp : isPrefix SENTINEL (SENTINEL ++ expand cs) = true := isPrefix_append _ _
      have hcons : SENTINEL ++ expand cs = '_' :: (SENTINEL.tail ++ expand cs) := rfl
      rw [hcons] at hp ⊢
      simp only [replaceF, hp, if_true]
      rw [← hcons, show (SENTINEL ++ expand cs).drop SENTINEL.length = expand cs by simp]
      rw [show f' + 15 = (f' + 14) + 1 by omega, ih hcs (f' + 14) (by omega)]
      rfl
    · simp only [expand, h, if_false] at hf ⊢
      simp only [List.length_cons] at hf
      obtain ⟨f', rfl⟩ : ∃ f', f = f' + 1 := ⟨f - 1, by omega⟩
      have hp : isPrefix SENTINEL (c :: expand cs) = false := by
        have : ('_' = c) = False := by simp; exact fun e => hc e.symm
        simp [SENTINEL, isPrefix, this]
      simp only [replaceF, hp, Bool.false_eq_true, if_false]
      rw [ih hcs f' (by omega)]

theorem length_le_expand (s : Str) : s.length ≤ (expand s).length := by
  induction s with
  | nil => simp [expand]
  | cons c cs ih =>
    simp only [expand]
    split
    · have : SENTINEL.length = 15 := by decide
      simp only [List.length_append, List.length_cons, this]; omega
    · simp only [List.length_cons]; omega

end SqlglotModel.Pretty

namespace SqlglotModel.Pretty

/-! ### `expressions` only moves whitespace -/

theorem stripWs_joinAll (ls : List Str) : stripWs (joinAll ls) = flat ls := by
  induction ls with
  | nil => rfl
  | cons l rest ih => simp [joinAll, flat, stripWs_append, ih]

theorem flat_map_rstrip (ls : List Str) : flat (ls.map rstrip) = flat ls := by
  induction ls with
  | nil => rfl
  | cons l rest ih => simp [flat, stripWs_rstrip, ih]

theorem flat_append (a b : List Str) : flat (a ++ b) = flat a ++ flat b := by
  induction a with
  | nil => rfl
  | cons l rest ih => simp [flat, ih]

/-- the whitespace-free content of an `expressions` call: items with prefix, separated by the separator -/
def body (sepS pre : Str) : List Str → Str
  | [] => []
  | [s] => stripWs pre ++ stripWs s
  | s :: t :: rest => stripWs pre ++ stripWs s ++ stripWs sepS ++ body sepS pre (t :: rest)

/-- trailing-separator style (plain, or pretty without leading_comma) -/
theorem flat_exprItems_trailing (o : Opts) (h : (o.pretty && o.leadingComma) = false) (sepS pre : Str) (items : List Str)
    (hne : ∀ s ∈ items, s ≠ []) : ∀ i n, i + items.length = n →
      flat (exprItems o sepS pre n i items) = body sepS pre items := by
  induction items with
  | nil => intro i n _; rfl
  | cons s rest ih =>
    intro i n hn
    have hs : s.isEmpty = false := by
      have := hne s (List.mem_cons_self ..)
      cases s <;> simp_all
    simp only [exprItems, hs, h, Bool.false_eq_true, if_false, flat]
    rw [ih (fun x hx => hne x (List.mem_cons_of_mem _ hx)) (i + 1) n (by simp at hn; omega)]
    cases rest with
    | nil =>
      have : ¬ (i + 1 < n) := by simp at hn; omega
      simp [flat, body, this, stripWs_append]
    | cons t rest' =>
      have : i + 1 < n := by simp at hn; omega
      simp [flat, body, this, stripWs_append]

/-- leading-comma style -/
theorem flat_exprItems_leading (o : Opts) (h : (o.pretty && o.leadingComma) = true) (sepS pre : Str) (items : List Str)
    (hne : ∀ s ∈ items, s ≠ []) : ∀ i n,
      flat (exprItems o sepS pre n i items)
        = (if i > 0 ∧ items ≠ [] then stripWs sepS else []) ++ body sepS pre items := by
  induction items with
  | nil => intro i n; simp [exprItems, flat, body]
  | cons s rest ih =>
    intro i n
    have hs : s.isEmpty = false := by
      have := hne s (List.mem_cons_self ..)
      cases s <;> simp_all
    simp only [exprItems, hs, h, if_true, Bool.false_eq_true, if_false]
    rw [flat, ih (fun x hx => hne x (List.mem_cons_of_mem _ hx)) (i + 1) n]
    cases rest with
    | nil =>
      by_cases hi : i > 0 <;> simp [body, hi, stripWs_append]
    | cons t rest' =>
      by_cases hi : i > 0 <;> simp [body, hi, stripWs_append]

/-- content of the non-flat path, whatever the options -/
theorem stripWs_expressions_nonflat (o : Opts) (items : List Str) (hne : ∀ s ∈ items, s ≠ []) (hi : items ≠ [])
    (doIndent sf sl : Bool) (sepS pre : Str) (dynamic newLine : Bool) :
    stripWs (expressions o items false doIndent sf sl sepS pre dynamic newLine) = body sepS pre items := by
  have hfl : flat (exprItems o sepS pre items.length 0 items) = body sepS pre items := by
    cases h : (o.pretty && o.leadingComma)
    · exact flat_exprItems_trailing o h sepS pre items hne 0 items.length (by omega)
    · rw [flat_exprItems_leading o h sepS pre items hne 0 items.length]; simp
  have hie : items.isEmpty = false := by cases items <;> simp_all
  simp only [expressions, hie, Bool.false_eq_true, if_false]
  have inner : stripWs (if o.pretty && (!dynamic || tooWide o (exprItems o sepS pre items.length 0 items)) then
        joinNl ((if newLine then [[]] ++ exprItems o sepS pre items.length 0 items ++ [[]]
                 else exprItems o sepS pre items.length 0 items).map rstrip)
       else joinAll (exprItems o sepS pre items.length 0 items)) = body sepS pre items := by
    split
    · rw [stripWs_joinNl, flat_map_rstrip]
      split
      · simp [flat_append, flat, hfl, stripWs]
      · exact hfl
    · rw [stripWs_joinAll, hfl]
  split
  · rw [stripWs_indent]; exact inner
  · exact inner

/-! ### the sentinel never survives `generate()` -/

/-- a newline-free prefix of the output of `s.replace(pat, "\n")` is a prefix of `s` -/
theorem isPrefix_replaceF (pat : Str) (p : Str) (hp : '\n' ∉ p) : ∀ (f : Nat) (s : Str), s.length ≤ f →
    isPrefix p (replaceF pat ['\n'] (f + 1) s) = true → isPrefix p s = true := by
  induction p with
  | nil => intro f s _ _; simp [isPrefix]
  | cons a p' ih =>
    intro f s hf h
    have ha : a ≠ '\n' := fun e => hp (e ▸ List.mem_cons_self ..)
    have hp' : '\n' ∉ p' := fun e => hp (List.mem_cons_of_mem _ e)
    cases s with
    | nil => simp [replaceF, isPrefix] at h
    | cons c cs =>
      simp only [List.length_cons] at hf
      obtain ⟨f', rfl⟩ : ∃ f', f = f' + 1 := ⟨f - 1, by omega⟩
      simp only [replaceF] at h
      split at h
      · simp [isPrefix, ha] at h
      · simp only [isPrefix, Bool.and_eq_true, decide_eq_true_eq] at h ⊢
        exact ⟨h.1, ih hp' f' cs (by omega) h.2⟩

theorem sentinel_no_nl : '\n' ∉ SENTINEL := by decide
theorem sentinel_lower_no_nl : '\n' ∉ SENTINEL_LOWER := by decide

/-- no occurrence of `q` in `s` -/
def NoOcc (q s : Str) : Prop := ∀ k, isPrefix q (s.drop k) = false

theorem NoOcc.drop {q s : Str} (h : NoOcc q s) (n : Nat) : NoOcc q (s.drop n) := by
  intro k; rw [List.drop_drop]; exact h _

/-- `s.replace(pat, "\n")` neither keeps nor creates an occurrence of a newline-free `q` that `s` did not have;
    for `q = pat` the hypothesis on `s` is not needed (`noOcc_replace_self`) -/
theorem noOcc_replace_gen (a : Char) (pt : Str) (q0 : Char) (qt : Str) (hq : '\n' ∉ q0 :: qt) :
    ∀ (f : Nat) (s : Str), s.length ≤ f → (q0 :: qt = a :: pt ∨ NoOcc (q0 :: qt) s) →
      NoOcc (q0 :: qt) (replaceF (a :: pt) ['\n'] (f + 1) s) := by
  have hq0 : q0 ≠ '\n' := fun e => hq (e ▸ List.mem_cons_self ..)
  intro f
  induction f with
  | zero =>
    intro s hf _ k
    have : s = [] := by cases s <;> simp_all
    subst this
    simp [replaceF, isPrefix]
  | succ f' ih =>
    intro s hf hs k
    cases s with
    | nil => simp [replaceF, isPrefix]
    | cons c cs =>
      simp only [List.length_cons] at hf
      have hs' : ∀ n, q0 :: qt = a :: pt ∨ NoOcc (q0 :: qt) ((c :: cs).drop n) := fun n =>
        hs.elim Or.inl (fun h => Or.inr (h.drop n))
      by_cases hm : isPrefix (a :: pt) (c :: cs) = true
      · have hun : replaceF (a :: pt) ['\n'] (f' + 1 + 1) (c :: cs)
            = '\n' :: replaceF (a :: pt) ['\n'] (f' + 1) ((c :: cs).drop (a :: pt).length) := by
          simp [replaceF, hm]
        rw [hun]
        cases k with
        | zero => simp [isPrefix, hq0]
        | succ k' =>
          simp only [List.drop_succ_cons]
          exact ih _ (by simp only [List.length_drop, List.length_cons]; omega) (hs' _) k'
      · have hun : replaceF (a :: pt) ['\n'] (f' + 1 + 1) (c :: cs) = c :: replaceF (a :: pt) ['\n'] (f' + 1) cs := by
          simp [replaceF, hm]
        cases k with
        | zero =>
          simp only [List.drop_zero]
          cases hh : isPrefix (q0 :: qt) (replaceF (a :: pt) ['\n'] (f' + 1 + 1) (c :: cs)) with
          | false => rfl
          | true =>
            have hpre := isPrefix_replaceF (a :: pt) (q0 :: qt) hq (f' + 1) (c :: cs) (by simp; omega) hh
            rcases hs with heq | hno
            · rw [heq] at hpre; exact absurd hpre hm
            · have := hno 0; simp only [List.drop_zero] at this; rw [this] at hpre; cases hpre
        | succ k' =>
          rw [hun]
          simp only [List.drop_succ_cons]
          exact ih cs (by omega) ((hs' 1).elim Or.inl (fun h => Or.inr (by simpa using h))) k'

theorem noOcc_replace_self (a : Char) (pt : Str) (hp : '\n' ∉ a :: pt) (s : Str) :
    NoOcc (a :: pt) (replace (a :: pt) ['\n'] s) :=
  noOcc_replace_gen a pt a pt hp s.length s (Nat.le_refl _) (Or.inl rfl)

theorem noOcc_replace_other (a : Char) (pt : Str) (q0 : Char) (qt : Str) (hq : '\n' ∉ q0 :: qt) (s : Str)
    (h : NoOcc (q0 :: qt) s) : NoOcc (q0 :: qt) (replace (a :: pt) ['\n'] s) :=
  noOcc_replace_gen a pt q0 qt hq s.length s (Nat.le_refl _) (Or.inr h)

end SqlglotModel.Pretty

namespace SqlglotModel.Pretty

/-- Doc rendering of the C01 printer's pieces: every soft break `sp` rendered as the whitespace string `ws i` -/
def renderDoc (tbl : SqlglotModel.Expr.Tables) (ws : Nat → Str) : Nat → List SqlglotModel.Gen.Piece → Str
  | _, [] => []
  | i, .t k :: ps => (SqlglotModel.Gen.printTok tbl k).toList ++ renderDoc tbl ws (i + 1) ps
  | i, .sp :: ps => ws i ++ renderDoc tbl ws (i + 1) ps


end SqlglotModel.Pretty

namespace SqlglotModel.Pretty

/-- AUDITED ALLOW-LIST (re-audited at commit 027bf59): the generator methods that post-process rendered text with
    position-dependent string operations.  Operations marked `/nocomment` act on text rendered with `comment=False`, so no
    comment text can steer them (the translator derives the mark from the `comment=False` keyword of every rendering call
    feeding the value): `_embed_ignore_nulls` (drops the call's closing paren) and — since 027bf59 — duckdb
    `withingroup_sql`, which used to `rstrip(")")` a comment-bearing render (defect found by this check, fixed upstream:
    the new site slices exactly one `)` off a comment-free render and re-attaches the comments).  The other `slice` sites
    (bitwisenot / withingroup / tsql) look at the first or last character of text they just produced; the strip / lstrip
    sites only trim whitespace.  A new site, or a new operation on an old site (e.g. `rfind` on text rendered WITH
    comments), is not on the list and breaks `generated_surgery_sites_audited`; all sites are exercised by the
    comment-structure sweep of the search stage. -/
def auditedSurgerySites : List (String × String × String) :=
  [("sqlglot/generator.py", "_embed_ignore_nulls", "slice/nocomment"),
   ("sqlglot/generator.py", "alter_sql", "lstrip"),
   ("sqlglot/generator.py", "bitwisenot_sql", "slice"),
   ("sqlglot/generator.py", "columnconstraint_sql", "strip"),
   ("sqlglot/generator.py", "conditionalinsert_sql", "slice"),
   ("sqlglot/generator.py", "conditionalinsert_sql", "strip"),
   ("sqlglot/generator.py", "filter_sql", "strip"),
   ("sqlglot/generator.py", "generate", "replace"),
   ("sqlglot/generator.py", "generate", "strip"),
   ("sqlglot/generator.py", "group_sql", "strip"),
   ("sqlglot/generator.py", "hint_sql", "strip"),
   ("sqlglot/generator.py", "jsonpath_sql", "lstrip"),
   ("sqlglot/generator.py", "lambda_sql", "split"),
   ("sqlglot/generator.py", "userdefinedfunction_sql", "strip"),
   ("sqlglot/generator.py", "withingroup_sql", "slice"),
   ("sqlglot/generators/clickhouse.py", "in_sql", "replace"),
   ("sqlglot/generators/duckdb.py", "bitwisenot_sql", "slice"),
   ("sqlglot/generators/duckdb.py", "withingroup_sql", "slice/nocomment"),
   ("sqlglot/generators/hive.py", "version_sql", "replace"),
   ("sqlglot/generators/oracle.py", "hint_sql", "strip"),
   ("sqlglot/generators/tsql.py", "_string_agg_sql", "slice"),
   ("sqlglot/generators/tsql.py", "create_sql", "replace"),
   ("sqlglot/generators/tsql.py", "createable_sql", "slice"),
   ("sqlglot/generators/tsql.py", "identifier_sql", "slice"),
   ("sqlglot/generators/tsql.py", "storedprocedure_sql", "strip")]

/-- AUDITED ALLOW-LIST (commit 8b5b272): methods outside the whitespace helpers (sep / seg / indent / wrap / expressions /
    format_args / generate) whose rendering branches on `self.pretty`.  `values_sql` takes a structurally different path
    under pretty (VALUES table → UNION ALL subquery for dialects without VALUES-as-table); `case_sql` / `connector_sql`
    switch the separator when too wide; `create_sql` / `properties_sql` / `copy_sql` / `join_sql` add a separating space
    only in single-line mode; `datatype_sql` breaks nested types.  Each listed site has a corpus statement that reaches it
    on every run (line tracer, reported in the evidence) and is compared pretty-vs-default by the search stage. -/
def auditedPrettyBranches : List (String × String) :=
  [("sqlglot/generator.py", "case_sql"), ("sqlglot/generator.py", "connector_sql"), ("sqlglot/generator.py", "copy_sql"),
   ("sqlglot/generator.py", "create_sql"), ("sqlglot/generator.py", "datatype_sql"), ("sqlglot/generator.py", "join_sql"),
   ("sqlglot/generator.py", "properties_sql"), ("sqlglot/generator.py", "values_sql")]

theorem maybeComment_append (o : Opts) (sql : Str) (cs : List Str) :
    maybeComment o true sql cs = sql ++ maybeComment o true [] cs := by
  simp only [maybeComment, Bool.not_true, Bool.false_eq_true, if_false]
  split <;> simp

end SqlglotModel.Pretty
