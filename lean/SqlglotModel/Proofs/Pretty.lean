/- C07 — helper lemmas: the pretty helpers only add or remove whitespace. -/
import SqlglotModel.Model.Pretty

namespace SqlglotModel.Pretty

theorem stripWs_append (a b : Str) : stripWs (a ++ b) = stripWs a ++ stripWs b := by
  simp [stripWs]

theorem stripWs_lstrip (l : Str) : stripWs (lstrip l) = stripWs l := by
  induction l with
  | nil => rfl
  | cons c cs ih =>
    simp only [lstrip, List.dropWhile]
    cases h : isWs c
    · simp
    · simp only [lstrip] at ih
      simp [stripWs, h, ih] at ih ⊢
      exact ih

theorem stripWs_reverse (l : Str) : stripWs l.reverse = (stripWs l).reverse := by
  simp [stripWs, List.filter_reverse]

theorem stripWs_rstrip (l : Str) : stripWs (rstrip l) = stripWs l := by
  simp [rstrip, stripWs_reverse, stripWs_lstrip]

theorem stripWs_strip (l : Str) : stripWs (strip l) = stripWs l := by
  simp [strip, stripWs_rstrip, stripWs_lstrip]

theorem stripWs_spaces (n : Nat) : stripWs (spaces n) = [] := by
  induction n with
  | zero => rfl
  | succ k ih => simp [spaces, List.replicate_succ, stripWs, isWs] at ih ⊢

theorem splitNl_ne_nil (s : Str) : splitNl s ≠ [] := by
  cases s with
  | nil => simp [splitNl]
  | cons c cs =>
    simp only [splitNl]
    split
    · simp
    · split <;> simp

theorem joinNl_splitNl (s : Str) : joinNl (splitNl s) = s := by
  induction s with
  | nil => rfl
  | cons c cs ih =>
    simp only [splitNl]
    split
    · rename_i h
      subst h
      cases hs : splitNl cs with
      | nil => exact absurd hs (splitNl_ne_nil cs)
      | cons l ls => simp [hs, joinNl] at ih ⊢; exact ih
    · cases hs : splitNl cs with
      | nil => exact absurd hs (splitNl_ne_nil cs)
      | cons l ls =>
        cases ls with
        | nil => simp [hs, joinNl] at ih ⊢; exact ih
        | cons m ms => simp [hs, joinNl] at ih ⊢; exact ih

/-- whitespace-free content of joined lines -/
def flat : List Str → Str
  | [] => []
  | l :: ls => stripWs l ++ flat ls

theorem stripWs_joinNl (ls : List Str) : stripWs (joinNl ls) = flat ls := by
  induction ls with
  | nil => rfl
  | cons l rest ih =>
    cases rest with
    | nil => simp [joinNl, flat]
    | cons m ms =>
      simp only [joinNl, flat, stripWs_append] at ih ⊢
      rw [show stripWs ('\n' :: joinNl (m :: ms)) = stripWs (joinNl (m :: ms)) by simp [stripWs, isWs]]
      rw [ih]

theorem flat_indentAux (w : Nat) (sf sl : Bool) (first : Bool) (ls : List Str) :
    flat (indentAux w sf sl first ls) = flat ls := by
  induction ls generalizing first with
  | nil => rfl
  | cons l rest ih =>
    cases rest with
    | nil =>
      simp only [indentAux, flat]
      split <;> simp [stripWs_append, stripWs_spaces]
    | cons m ms =>
      simp only [indentAux, flat]
      rw [ih false]
      split <;> simp [stripWs_append, stripWs_spaces, flat]

theorem stripWs_indent (o : Opts) (sql : Str) (level : Nat) (pad : Option Nat) (sf sl : Bool) :
    stripWs (indent o sql level pad sf sl) = stripWs sql := by
  simp only [indent]
  split
  · rfl
  · rw [stripWs_joinNl, flat_indentAux, ← stripWs_joinNl, joinNl_splitNl]

theorem stripWs_sep (o : Opts) (s : Str) : stripWs (sep o s) = stripWs s := by
  simp only [sep]
  split
  · rw [stripWs_append, stripWs_strip]
    simp [stripWs, isWs]
  · rfl

end SqlglotModel.Pretty

namespace SqlglotModel.Pretty

/-- every newline replaced by the sentinel -/
def expand : Str → Str
  | [] => []
  | c :: cs => if c = '\n' then SENTINEL ++ expand cs else c :: expand cs

theorem isPrefix_append (p r : Str) : isPrefix p (p ++ r) = true := by
  induction p with
  | nil => rfl
  | cons a as ih => simp [isPrefix, ih]

theorem replaceF_nl (s : Str) : ∀ f, s.length ≤ f → replaceF ['\n'] SENTINEL (f + 1) s = expand s := by
  induction s with
  | nil => intro f _; rfl
  | cons c cs ih =>
    intro f hf
    simp only [List.length_cons] at hf
    obtain ⟨f', rfl⟩ : ∃ f', f = f' + 1 := ⟨f - 1, by omega⟩
    by_cases h : c = '\n'
    · subst h
      simp only [replaceF, isPrefix, expand, if_true, Bool.and_true, decide_true, List.length_singleton, List.drop_succ_cons,
        List.drop_zero]
      rw [ih f' (by omega)]
    · have h' : ('\n' = c) = False := by simp; exact fun e => h e.symm
      simp only [replaceF, isPrefix, expand, h, h', if_false, Bool.and_true, decide_false, Bool.false_eq_true]
      rw [ih f' (by omega)]

theorem replaceF_sent (s : Str) (hs : '_' ∉ s) :
    ∀ f, (expand s).length ≤ f → replaceF SENTINEL ['\n'] (f + 1) (expand s) = s := by
  induction s with
  | nil => intro f _; rfl
  | cons c cs ih =>
    intro f hf
    have hcs : '_' ∉ cs := fun h => hs (List.mem_cons_of_mem _ h)
    have hc : c ≠ '_' := fun h => hs (h ▸ List.mem_cons_self ..)
    by_cases h : c = '\n'
    · subst h
      simp only [expand, if_true] at hf ⊢
      have hlen : SENTINEL.length = 15 := by decide
      simp only [List.length_append, hlen] at hf
      obtain ⟨f', rfl⟩ : ∃ f', f = f' + 15 := ⟨f - 15, by omega⟩
      have hp : isPrefix SENTINEL (SENTINEL ++ expand cs) = true := isPrefix_append _ _
      have hcons : SENTINEL ++ expand cs = '_' :: (SENTINEL.tail ++ expand cs) := rfl
      rw [hcons] at hp ⊢
      simp only [replaceF, hp, if_true]
      rw [← hcons, show (SENTINEL ++ expand cs).drop SENTINEL.length = expand cs by simp]
      rw [show f' + 15 = (f' + 14) + 1 by omega, ih hcs (f' + 14) (by omega)]
      rfl
    · simp only [expand, h, if_false] at hf ⊢
      simp only [List.length_cons] at hf
      obtain ⟨f', rfl⟩ : ∃ f', f = f' + 1 := ⟨f - 1, by omega⟩
      have hp : isPrefix SENTINEL (c :: expand cs) = false := by
        have : ('_' = c) = False := by simp; exact fun e => hc e.symm
        simp [SENTINEL, isPrefix, this]
      simp only [replaceF, hp, Bool.false_eq_true, if_false]
      rw [ih hcs f' (by omega)]

theorem length_le_expand (s : Str) : s.length ≤ (expand s).length := by
  induction s with
  | nil => simp [expand]
  | cons c cs ih =>
    simp only [expand]
    split
    · have : SENTINEL.length = 15 := by decide
      simp only [List.length_append, List.length_cons, this]; omega
    · simp only [List.length_cons]; omega

end SqlglotModel.Pretty
