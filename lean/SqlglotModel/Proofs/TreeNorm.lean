/-
  Proofs/TreeNorm.lean — `hash` factors through the explicit normal form `absNorm` (C08 `eq_iff_structure`).
-/
import SqlglotModel.Proofs.Tree

namespace SqlglotModel.Tree

variable {H : Type}

theorem hashItems_eval (F : HashFns H) (ch : Id → Option Norm) (k : String) :
    ∀ (items : List Item) (acc : Norm),
      hashItems F (fun c => (ch c).map (HT.eval F)) k (HT.eval F acc) items =
        (hashItems (normFns F.lower) ch k acc items).map (HT.eval F)
  | [], _ => rfl
  | .node c :: r, acc => by
    simp only [hashItems]
    cases hc : ch c with
    | none => simp
    | some x =>
      simp only [Option.map_some]
      exact hashItems_eval F ch k r (.mixH acc k x)
  | .leaf s :: r, acc => by
    simp only [hashItems]
    split
    · exact hashItems_eval F ch k r (.mixK acc k)
    · have : normS (normFns F.lower) s = normS F s := by cases s <;> rfl
      rw [this]
      exact hashItems_eval F ch k r (.mixS acc k (normS F s))

theorem hashArg_eval (F : HashFns H) (ch : Id → Option Norm) (raw : Bool) (k : String) (acc : Norm) (a : Arg) :
    hashArg F (fun c => (ch c).map (HT.eval F)) raw k (HT.eval F acc) a =
      (hashArg (normFns F.lower) ch raw k acc a).map (HT.eval F) := by
  cases a with
  | one c =>
    simp only [hashArg]
    cases hc : ch c <;> simp [HT.eval, normFns]
  | leaf s =>
    simp only [hashArg]
    have : normS (normFns F.lower) s = normS F s := by cases s <;> rfl
    split
    · split <;> simp [HT.eval, normFns]
    · split
      · simp
      · rw [this]; simp [HT.eval, normFns]
  | many items =>
    simp only [hashArg]
    split
    · split <;> simp
    · exact hashItems_eval F ch k items acc

theorem hashArgs_eval (F : HashFns H) (ch : Id → Option Norm) (raw : Bool) :
    ∀ (l : List (String × Arg)) (acc : Norm),
      hashArgs F (fun c => (ch c).map (HT.eval F)) raw (HT.eval F acc) l =
        (hashArgs (normFns F.lower) ch raw acc l).map (HT.eval F)
  | [], _ => rfl
  | (k, a) :: r, acc => by
    simp only [hashArgs]
    rw [hashArg_eval]
    cases hx : hashArg (normFns F.lower) ch raw k acc a with
    | none => simp
    | some acc' => simp only [Option.map_some]; exact hashArgs_eval F ch raw r acc'

/-- the heap with every cache erased, as a heap over normal forms -/
def forget (h : Heap H) : Heap Norm := fun i => { (h i) with hash := none }

theorem absNorm_eq (lower : String → String) (fuel : Nat) (h : Heap H) (n : Id) :
    absNorm lower fuel h n = recompute (normFns lower) fuel (forget h) n := rfl

/-- `hash` (recomputed from scratch) is the interpretation of the normal form -/
theorem recompute_eval (F : HashFns H) (h : Heap H) : ∀ (fuel : Nat) (n : Id),
    recompute F fuel h n = (absNorm F.lower fuel h n).map (HT.eval F)
  | 0, _ => rfl
  | f + 1, n => by
    rw [absNorm_eq]
    simp only [recompute, hashNode]
    have : (fun c => recompute F f h c) = (fun c => (recompute (normFns F.lower) f (forget h) c).map (HT.eval F)) :=
      funext fun c => by rw [recompute_eval F h f c, absNorm_eq]
    rw [this]
    exact hashArgs_eval F _ (h n).raw (sortArgs (h n).args) (.init (h n).cls)

/-- the normal form does not look at caches or back pointers -/
theorem absNorm_hashOnly (lower : String → String) {h h' : Heap H} (ho : HashOnly h h') (fuel : Nat) (n : Id) :
    absNorm lower fuel h' n = absNorm lower fuel h n := by
  rw [absNorm_eq, absNorm_eq]
  induction fuel generalizing n with
  | zero => rfl
  | succ f ih =>
    simp only [recompute]
    have : (fun c => recompute (normFns lower) f (forget h') c) = (fun c => recompute (normFns lower) f (forget h) c) :=
      funext fun c => ih c
    rw [this]
    exact hashNode_fields _ _ _ _ (ho n).1 (ho n).2.1 (ho n).2.2.1

end SqlglotModel.Tree
