/-
  Helper lemmas for C13 (positions in the tokenizer model).  Core Lean only.
-/
import SqlglotModel.Model.Lex

namespace SqlglotModel.Lex

/-- Position invariant: `line`/`col` describe the character the cursor stands on (offset current - 1):
    line = 1 + number of line breaks before it, col = 1-based offset in its line — except that `_advance` gives the LF of a
    CRLF pair the column of the CR (`crlfAdj`). -/
def PInv (sql : Sql) (st : St) : Prop :=
  (st.current = 0 ∧ st.line = 1 ∧ st.col = 0) ∨
  (1 ≤ st.current ∧ st.line = lineOf sql (st.current - 1) ∧
    st.col + crlfAdj sql (st.current - 1) = colOf sql (st.current - 1))

/-- a token's line/col agree with its end offset -/
def LC (sql : Sql) (t : Tok) : Prop :=
  t.line = lineOf sql t.stop ∧ t.col + crlfAdj sql t.stop = colOf sql t.stop

theorem lf_not_cr (sql : Sql) (j : Nat) : isLF sql j = true → isCR sql j = false := by
  unfold isLF isCR
  cases sql[j]? with
  | none => simp
  | some ch =>
    simp only [beq_iff_eq]
    intro h; rw [h]; decide

theorem hasNL_false {sql : Sql} {a n : Nat} (h : hasNL sql a n = false) :
    ∀ j, a ≤ j → j < a + n → isNL sql j = false := by
  induction n generalizing a with
  | zero => intro j h1 h2; omega
  | succ n ih =>
    simp only [hasNL, Bool.or_eq_false_iff] at h
    intro j h1 h2
    by_cases hj : j = a
    · subst hj; exact h.1
    · exact ih h.2 j (by omega) (by omega)

theorem not_break_of_not_nl {sql : Sql} {j : Nat} (h : isNL sql j = false) : isBreak sql j = false := by
  simp only [isNL, Bool.or_eq_false_iff] at h
  simp [isBreak, h.1, h.2]

theorem lineStart_le (sql : Sql) (p : Nat) : lineStart sql p ≤ p := by
  induction p with
  | zero => simp [lineStart]
  | succ p ih => simp only [lineStart]; split <;> omega

/-- no CR/LF in [a, a+n): line number and line start do not change across the region -/
theorem region_no_nl {sql : Sql} {a n : Nat} (h : ∀ j, a ≤ j → j < a + n → isNL sql j = false) :
    lineOf sql (a + n) = lineOf sql a ∧ lineStart sql (a + n) = lineStart sql a := by
  induction n with
  | zero => simp
  | succ n ih =>
    have ih' := ih (fun j h1 h2 => h j h1 (by omega))
    have hb : isBreak sql (a + n) = false := not_break_of_not_nl (h (a + n) (by omega) (by omega))
    have e : a + (n + 1) = (a + n) + 1 := by omega
    rw [e]
    simp only [lineOf, lineStart, hb]
    simp [ih'.1, ih'.2]

theorem crlfAdj_zero_of_prev {sql : Sql} {p : Nat} (h : isCR sql (p - 1) = false) : crlfAdj sql p = 0 := by
  simp [crlfAdj, h]

theorem crlfAdj_zero_of_cur {sql : Sql} {p : Nat} (h : isLF sql p = false) : crlfAdj sql p = 0 := by
  simp [crlfAdj, h]

theorem advance_ok {sql : Sql} {st st' : St} {i : Nat} (h : advance sql st i = .ok st') :
    1 ≤ i ∧ st.current + i ≤ sql.size ∧
    st' = { st with
      current := st.current + i
      line := if (decide (st.current ≥ 1) && isBreak sql (st.current - 1)) then st.line + 1 else st.line
      col := if (decide (st.current ≥ 1) && isBreak sql (st.current - 1)) then i
             else if (decide (st.current ≥ 1) && isNL sql (st.current - 1) &&
                       !(decide (st.current ≥ 1) && isBreak sql (st.current - 1))) then st.col else st.col + i
      skew := st.skew || hasNL sql st.current (i - 1) } := by
  unfold advance at h
  simp only at h
  split at h
  · cases h
  · split at h
    · cases h
    · injection h with h
      exact ⟨by omega, by omega, h.symm⟩

/-- the heart of `_advance`: moving the cursor from offset p to p + i (i ≥ 1) with the arithmetic of `_advance` keeps the
    invariant, provided none of the skipped characters sql[p+1 .. p+i-1] is a CR or LF -/
theorem advance_pinv_aux (sql : Sql) (st st' : St) (i : Nat) (hi : 1 ≤ i)
    (hP : PInv sql st) (hno : hasNL sql st.current (i - 1) = false)
    (h : advance sql st i = .ok st') : PInv sql st' := by
  obtain ⟨_, _, h⟩ := advance_ok h
  have h := h.symm
  · have hreg := hasNL_false hno
    rcases hP with ⟨h0, hl, hc⟩ | ⟨h1, hl, hc⟩
    · -- cursor before the first character
      right
      subst h
      have hr := region_no_nl (sql := sql) (a := 0) (n := i - 1)
        (fun j h1 h2 => hreg j (by omega) (by omega))
      have hcr : isCR sql (i - 1 - 1) = false ∨ i = 1 := by
        by_cases h1 : i = 1
        · right; exact h1
        · left
          have := hreg (i - 1 - 1) (by omega) (by omega)
          simp only [isNL, Bool.or_eq_false_iff] at this
          exact this.2
      have hadj : crlfAdj sql (i - 1) = 0 := by
        rcases hcr with h | h
        · exact crlfAdj_zero_of_prev h
        · subst h; simp [crlfAdj]
      simp only [h0, Nat.zero_add, Nat.lt_irrefl, ge_iff_le, Nat.not_succ_le_zero, decide_false, Bool.false_and]
      refine ⟨hi, ?_, ?_⟩
      · have := hr.1; simp only [Nat.zero_add] at this; simp [this, hl, lineOf]
      · have := hr.2; simp only [Nat.zero_add] at this
        simp [colOf, this, lineStart, hadj, hc]; omega
    · -- cursor on offset p = current - 1
      right
      subst h
      obtain ⟨p, hp⟩ : ∃ p, st.current = p + 1 := ⟨st.current - 1, by omega⟩
      have hreg' : ∀ j, p + 1 ≤ j → j < p + 1 + (i - 1) → isNL sql j = false :=
        fun j h1 h2 => hreg j (by omega) (by omega)
      have hr := region_no_nl (sql := sql) (a := p + 1) (n := i - 1) hreg'
      have e1 : p + 1 + (i - 1) = p + i := by omega
      rw [e1] at hr
      have hls := lineStart_le sql p
      simp only [hp, Nat.add_sub_cancel] at hl hc ⊢
      have e2 : p + 1 + i - 1 = p + i := by omega
      simp only [e2]
      have hge : (decide (p + 1 ≥ 1)) = true := by simp
      simp only [hge, Bool.true_and]
      -- the character after the jump target's predecessor
      have hprev : i = 1 ∨ isNL sql (p + i - 1) = false := by
        by_cases h1 : i = 1
        · left; exact h1
        · right; exact hreg' (p + i - 1) (by omega) (by omega)
      refine ⟨by omega, ?_, ?_⟩
      · -- line
        rw [hr.1]; simp only [lineOf]
        cases hb : isBreak sql p <;> simp [hl]
      · -- col
        simp only [colOf, hr.2, lineStart]
        cases hb : isBreak sql p
        · -- no break at p
          simp only [Bool.false_eq_true, if_false, Bool.not_false, Bool.and_true]
          cases hn : isNL sql p
          · -- ordinary character
            simp only [Bool.false_eq_true, if_false]
            have hlf : isLF sql p = false := by
              simp only [isNL, Bool.or_eq_false_iff] at hn; exact hn.1
            have hcrp : isCR sql p = false := by
              simp only [isNL, Bool.or_eq_false_iff] at hn; exact hn.2
            have a0 : crlfAdj sql p = 0 := crlfAdj_zero_of_cur hlf
            have a1 : crlfAdj sql (p + i) = 0 := by
              rcases hprev with h | h
              · subst h; exact crlfAdj_zero_of_prev (by simpa using hcrp)
              · apply crlfAdj_zero_of_prev
                simp only [isNL, Bool.or_eq_false_iff] at h; exact h.2
            simp only [colOf, a0] at hc
            rw [a1]; omega
          · -- CR directly before LF: i must be 1
            simp only [if_true]
            have hlf : isLF sql p = false := by
              cases h : isLF sql p
              · rfl
              · simp [isBreak, h] at hb
            have hcrp : isCR sql p = true := by
              simp only [isNL, hlf, Bool.false_or] at hn; exact hn
            have hlf1 : isLF sql (p + 1) = true := by
              cases h : isLF sql (p + 1)
              · simp [isBreak, hlf, hcrp, h] at hb
              · rfl
            have hi1 : i = 1 := by
              by_cases h1 : i = 1
              · exact h1
              · have := hreg' (p + 1) (by omega) (by omega)
                simp [isNL, hlf1] at this
            subst hi1
            have a0 : crlfAdj sql p = 0 := crlfAdj_zero_of_cur hlf
            have a1 : crlfAdj sql (p + 1) = 1 := by simp [crlfAdj, hlf1, hcrp]
            simp only [colOf, a0] at hc
            rw [a1]; omega
        · -- break at p
          simp only [if_true]
          have a1 : crlfAdj sql (p + i) = 0 := by
            rcases hprev with h | h
            · subst h
              cases hlf : isLF sql p
              · -- then CR with no LF after it
                have : isLF sql (p + 1) = false := by
                  cases h : isLF sql (p + 1)
                  · rfl
                  · simp [isBreak, hlf, h] at hb
                exact crlfAdj_zero_of_cur this
              · exact crlfAdj_zero_of_prev (by simpa using lf_not_cr sql p hlf)
            · apply crlfAdj_zero_of_prev
              simp only [isNL, Bool.or_eq_false_iff] at h; exact h.2
          rw [a1]; omega


/-- `_advance(-n)` inside one line: the rewind keeps the invariant when none of the n characters it moves back over
    (offsets p-n .. p-1) is a CR or LF -/
theorem retreat_pinv_aux (sql : Sql) (st st' : St) (n : Nat)
    (hP : PInv sql st) (hno : hasNL sql (st.current - 1 - n) n = false)
    (h : retreat sql st n = .ok st') : PInv sql st' := by
  unfold retreat at h
  split at h
  · cases h
  · rename_i hn
    simp only at h
    split at h
    · cases h
    · rename_i hg
      injection h with h
      subst h
      simp only [Bool.or_eq_true, decide_eq_true_eq, not_or, Bool.not_eq_true, Nat.not_lt] at hg
      obtain ⟨⟨hb, hcrlf⟩, hcol⟩ := hg
      have hnl : isNL sql (st.current - 1) = false := by
        cases h : isNL sql (st.current - 1)
        · rfl
        · simp [h, hb] at hcrlf
      rcases hP with ⟨h0, _, _⟩ | ⟨h1, hl, hc⟩
      · omega
      · right
        obtain ⟨q, hq⟩ : ∃ q, st.current - 1 - n = q := ⟨_, rfl⟩
        have hp : st.current - 1 = q + n := by omega
        have hreg := hasNL_false (hq ▸ hno)
        have hr := region_no_nl (sql := sql) (a := q) (n := n) hreg
        have hlf : isLF sql (q + n) = false := by
          rw [← hp]; simp only [isNL, Bool.or_eq_false_iff] at hnl; exact hnl.1
        have a0 : crlfAdj sql (q + n) = 0 := crlfAdj_zero_of_cur hlf
        have a1 : crlfAdj sql q = 0 := by
          by_cases hn0 : n = 0
          · subst hn0; simpa using a0
          · apply crlfAdj_zero_of_cur
            have := hreg q (by omega) (by omega)
            simp only [isNL, Bool.or_eq_false_iff] at this; exact this.1
        have e : st.current - n - 1 = q := by omega
        simp only [e]
        rw [hp] at hl hc
        have hls := lineStart_le sql q
        refine ⟨by omega, ?_, ?_⟩
        · rw [hl, hr.1]
        · simp only [colOf, hr.2, a0] at hc
          simp only [colOf, a1]; omega

/-! ### the phase discipline of `_scan`: between tokens (`InvC`) / inside a token (`InvS`) -/

def TokBounds (sql : Sql) (t : Tok) : Prop := t.start ≤ t.stop ∧ t.stop < sql.size

/-- inside one `_scan` iteration, before the token is added -/
structure InvS (sql : Sql) (st : St) : Prop where
  lt : st.start < st.current
  le : st.current ≤ sql.size
  sorted : st.toks.Pairwise (fun a b => a.stop < b.start)
  toks : ∀ t ∈ st.toks, TokBounds sql t ∧ t.stop < st.start

/-- between two `_scan` iterations -/
structure InvC (sql : Sql) (st : St) : Prop where
  le : st.current ≤ sql.size
  sorted : st.toks.Pairwise (fun a b => a.stop < b.start)
  toks : ∀ t ∈ st.toks, TokBounds sql t ∧ t.stop < st.current

theorem advance_invS_aux (sql : Sql) (st st' : St) (i : Nat) (hS : InvS sql st)
    (h : advance sql st i = .ok st') : InvS sql st' := by
  obtain ⟨_, hle, h⟩ := advance_ok h
  · subst h
    exact ⟨by have := hS.lt; simp only; omega, by simp only; omega, hS.sorted, hS.toks⟩

theorem add_invC_aux (cfg : Cfg) (sql : Sql) (st st' : St) (ty : String) (text : Option (List Char))
    (hS : InvS sql st) (h : add cfg sql st ty text = .ok st') : InvC sql st' := by
  unfold add at h
  split at h
  · cases h
  · injection h with h
    subst h
    have hlt := hS.lt
    have hle := hS.le
    refine ⟨hle, ?_, ?_⟩
    · simp only [List.pairwise_append, List.pairwise_cons, List.mem_singleton]
      refine ⟨hS.sorted, ⟨(by intro a h; cases h), List.Pairwise.nil⟩, ?_⟩
      intro a ha b hb
      rw [hb]
      exact (hS.toks a ha).2
    · intro t ht
      simp only [List.mem_append, List.mem_singleton] at ht
      rcases ht with ht | ht
      · have := hS.toks t ht
        exact ⟨this.1, by simp only; omega⟩
      · subst ht
        exact ⟨⟨by simp only; omega, by simp only; omega⟩, by simp only; omega⟩

/-- the token `_add` appends is stamped with the cursor's line/col, its start is `_start`, its end is current - 1 -/
theorem add_stamp_aux (cfg : Cfg) (sql : Sql) (st st' : St) (ty : String) (text : Option (List Char))
    (h : add cfg sql st ty text = .ok st') :
    ∃ t, st'.toks = st.toks ++ [t] ∧ t.line = st.line ∧ t.col = st.col ∧ t.start = st.start ∧ t.stop = st.current - 1
      ∧ t.text = tokText sql st text
      ∧ st'.current = st.current ∧ st'.line = st.line ∧ st'.col = st.col := by
  unfold add at h
  split at h
  · cases h
  · injection h with h
    subst h
    exact ⟨_, rfl, rfl, rfl, rfl, rfl, rfl, rfl, rfl, rfl⟩

/-! ### highlight_sql -/

theorem highlight_single (s : List Char) (a b ctx : Nat) (hab : a ≤ b) :
    highlightSql s [(a, b)] ctx =
      ⟨(if a > 0 then pySlice s (a - ctx) a else []) ++ ansiUL ++ pySlice s a (b + 1) ++ ansiReset ++
          (if b + 1 < s.length then pySlice s (b + 1) (b + 1 + ctx) else []),
        if a > 0 then pySlice s (a - ctx) a else [],
        pySlice s a (b + 1),
        if b + 1 < s.length then pySlice s (b + 1) (b + 1 + ctx) else []⟩ := by
  simp only [highlightSql, sortPos, List.foldl, insertPos, hlLoop]
  have h1 : max a a = a := Nat.max_self a
  have h2 : ¬ (a ≥ b + 1) := by omega
  simp [h1, h2]


/-! ### raise_error / update_positions -/

theorem slice_eq_pySlice (sql : Sql) (a b : Nat) : slice sql a b = pySlice (sqlText sql) a b := by
  simp [slice, pySlice, sqlText, strOf, List.map_drop, List.map_take]

theorem sqlText_length (sql : Sql) : (sqlText sql).length = sql.size := by
  simp [sqlText, strOf]

end SqlglotModel.Lex
