/-
  Helper lemmas for C05 (cursor discipline).  Core Lean only.

  `Sound n b p` is the contract every real `_parse_*` method is expected to satisfy (and which the harness
  monitors on the real parser): from an in-range cursor it stops, never moves the cursor backwards, leaves it in
  range, makes at most `b (remaining tokens)` calls of `_advance`, and leaks no internal exception.
  The `sound_*` lemmas are stated for ARBITRARY `p : P` with that contract, so they speak about the real glue
  (`_try_parse`, `_parse_csv`, `_parse_wrapped`, the idioms) around real methods, not only about `Comb` programs.
-/
import SqlglotModel.Model.Cursor

namespace SqlglotModel.Cursor

def BMono (b : Nat → Nat) : Prop := ∀ a c, a ≤ c → b a ≤ b c

def Good (n : Nat) (b : Nat → Nat) (s : St) (r : Res) : Prop :=
  s.idx ≤ r.2.idx ∧ r.2.idx ≤ n ∧ r.2.steps ≤ s.steps + b (n - s.idx) ∧ r.1 ≠ .diverged ∧ r.1 ≠ .internal

def Sound (n : Nat) (b : Nat → Nat) (p : P) : Prop := ∀ s, s.idx ≤ n → Good n b s (p s)

/-- a falsy / None result leaves the cursor where it was -/
def Restoring (p : P) : Prop := ∀ s v s', p s = (.ret v, s') → v.isTruthy = false → s'.idx = s.idx

/-- a returned result leaves the cursor where it was -/
def Still (p : P) : Prop := ∀ s v s', p s = (.ret v, s') → s'.idx = s.idx

/-- never returns a falsy value -/
def Total (p : P) : Prop := ∀ s v s', p s = (.ret v, s') → v.isTruthy = true

/-- a truthy result consumed at least one token -/
def Consuming (n : Nat) (p : P) : Prop :=
  ∀ s v s', s.idx ≤ n → p s = (.ret v, s') → v.isTruthy = true → s.idx < s'.idx

theorem curr_lt {toks : List Tok} {i : Nat} {t : Tok} (h : curr toks i = some t) : i < toks.length := by
  unfold curr at h
  obtain ⟨h1, _⟩ := List.getElem?_eq_some_iff.mp h
  exact h1

theorem curr_isSome_lt {toks : List Tok} {i : Nat} (h : (curr toks i).isSome = true) : i < toks.length := by
  cases hc : curr toks i with
  | none => simp [hc] at h
  | some t => exact curr_lt hc

theorem inSet_lt {toks : List Tok} {ts : List Tok} {i : Nat} (h : inSet ts (curr toks i) = true) :
    i < toks.length := by
  cases hc : curr toks i with
  | none => simp [hc, inSet] at h
  | some t => exact curr_lt hc

/-! ### leaves -/

theorem sound_eps (n : Nat) : Sound n (fun _ => 0) (fun s => (.ret .truthy, s)) := by
  intro s hs; simp [Good, hs]

theorem sound_nothing (n : Nat) : Sound n (fun _ => 0) (fun s => (.ret .none, s)) := by
  intro s hs; simp [Good, hs]

theorem sound_matchTok (toks : List Tok) (t : Tok) (adv : Bool) :
    Sound toks.length (fun _ => 1) (matchTok toks t adv) := by
  intro s hs
  unfold matchTok Good
  split
  · rename_i h
    have := curr_lt h
    cases adv <;> simp [bump] <;> omega
  · simp [hs]

theorem sound_peek (toks : List Tok) (t : Tok) :
    Sound toks.length (fun _ => 0) (matchTok toks t false) := by
  intro s hs
  unfold matchTok Good
  split <;> simp [hs]

theorem sound_matchSet (toks : List Tok) (ts : List Tok) :
    Sound toks.length (fun _ => 1) (matchSet toks ts) := by
  intro s hs
  unfold matchSet Good
  split
  · rename_i h
    have := inSet_lt h
    simp [bump]; omega
  · simp [hs]

theorem sound_matchPair (toks : List Tok) (a b : Tok) :
    Sound toks.length (fun _ => 1) (matchPair toks a b) := by
  intro s hs
  unfold matchPair Good
  split
  · rename_i h
    have := curr_lt h.2
    simp [bump]; omega
  · simp [hs]

theorem sound_anyTok (toks : List Tok) : Sound toks.length (fun _ => 1) (anyTok toks) := by
  intro s hs
  unfold anyTok Good
  split
  · rename_i h
    have := curr_isSome_lt h
    simp [bump]; omega
  · simp [hs]

theorem sound_fail (n : Nat) : Sound n (fun _ => 0) failS := by
  intro s hs
  unfold failS Good
  split <;> simp [hs]

/-! ### the idioms, for arbitrary parse methods -/

theorem sound_andThen {n : Nat} {bp bq : Nat → Nat} {p q : P} (hp : Sound n bp p) (hq : Sound n bq q)
    (mq : BMono bq) : Sound n (fun r => bp r + bq r) (andThenS p q) := by
  intro s hs
  have h1 := hp s hs
  unfold andThenS
  cases hps : p s with
  | mk o s1 =>
    rw [hps] at h1
    obtain ⟨a1, a2, a3, a4, a5⟩ := h1
    simp only at a1 a2 a3 a4 a5
    cases o with
    | ret v =>
      simp only
      split
      · have h2 := hq s1 a2
        have := mq (n - s1.idx) (n - s.idx) (by omega)
        obtain ⟨c1, c2, c3, c4, c5⟩ := h2
        exact ⟨by omega, c2, by simp only; omega, c4, c5⟩
      · exact ⟨a1, a2, by simp only; omega, by simp, by simp⟩
    | raised => exact ⟨a1, a2, by simp only; omega, by simp, by simp⟩
    | internal => exact absurd rfl a5
    | diverged => exact absurd rfl a4

theorem good_bothK {n : Nat} {bq : Nat → Nat} {q : P} (hq : Sound n bq q) (s1 : St) (h : s1.idx ≤ n) :
    Good n bq s1 (bothK q s1) := by
  have h2 := hq s1 h
  unfold bothK
  cases hqs : q s1 with
  | mk o s2 =>
    rw [hqs] at h2
    obtain ⟨c1, c2, c3, c4, c5⟩ := h2
    cases o with
    | ret v => exact ⟨c1, c2, c3, by simp, by simp⟩
    | raised => exact ⟨c1, c2, c3, by simp, by simp⟩
    | internal => exact absurd rfl c5
    | diverged => exact absurd rfl c4

theorem sound_both {n : Nat} {bp bq : Nat → Nat} {p q : P} (hp : Sound n bp p) (hq : Sound n bq q)
    (mq : BMono bq) : Sound n (fun r => bp r + bq r) (bothS p q) := by
  intro s hs
  have h1 := hp s hs
  unfold bothS
  cases hps : p s with
  | mk o s1 =>
    rw [hps] at h1
    obtain ⟨a1, a2, a3, a4, a5⟩ := h1
    simp only at a1 a2 a3 a4 a5
    cases o with
    | ret v =>
      simp only
      have h2 := good_bothK hq s1 a2
      have := mq (n - s1.idx) (n - s.idx) (by omega)
      obtain ⟨c1, c2, c3, c4, c5⟩ := h2
      exact ⟨by omega, c2, by simp only; omega, c4, c5⟩
    | raised => exact ⟨a1, a2, by simp only; omega, by simp, by simp⟩
    | internal => exact absurd rfl a5
    | diverged => exact absurd rfl a4

theorem sound_orElse {n : Nat} {bp bq : Nat → Nat} {p q : P} (hp : Sound n bp p) (hq : Sound n bq q)
    (mq : BMono bq) : Sound n (fun r => bp r + bq r) (orElseS p q) := by
  intro s hs
  have h1 := hp s hs
  unfold orElseS
  cases hps : p s with
  | mk o s1 =>
    rw [hps] at h1
    obtain ⟨a1, a2, a3, a4, a5⟩ := h1
    simp only at a1 a2 a3 a4 a5
    cases o with
    | ret v =>
      simp only
      split
      · exact ⟨a1, a2, by simp only; omega, by simp, by simp⟩
      · have h2 := hq s1 a2
        have := mq (n - s1.idx) (n - s.idx) (by omega)
        obtain ⟨c1, c2, c3, c4, c5⟩ := h2
        exact ⟨by omega, c2, by simp only; omega, c4, c5⟩
    | raised => exact ⟨a1, a2, by simp only; omega, by simp, by simp⟩
    | internal => exact absurd rfl a5
    | diverged => exact absurd rfl a4

theorem retreat_idx (t : Nat) (s : St) : (retreat t s).idx = t := by
  unfold retreat; split <;> simp_all

theorem retreat_steps (t : Nat) (s : St) : (retreat t s).steps ≤ s.steps + 1 := by
  unfold retreat; split <;> simp

theorem restore_idx (s0 s1 : St) : (restore s0 s1).idx = s0.idx := by
  simp [restore, retreat_idx]

theorem restore_lvl (s0 s1 : St) : (restore s0 s1).lvl = s0.lvl := by
  simp [restore]

theorem restore_steps (s0 s1 : St) : (restore s0 s1).steps ≤ s1.steps + 1 := by
  simp [restore, retreat_steps]

theorem sound_attempt {n : Nat} {bp : Nat → Nat} {p : P} (hp : Sound n bp p) :
    Sound n (fun r => bp r + 1) (attemptS p) := by
  intro s hs
  have h1 := hp s hs
  unfold attemptS
  cases hps : p s with
  | mk o s1 =>
    rw [hps] at h1
    obtain ⟨a1, a2, a3, a4, a5⟩ := h1
    simp only at a1 a2 a3 a4 a5
    cases o with
    | ret v =>
      simp only
      split
      · exact ⟨a1, a2, by simp only; omega, by simp, by simp⟩
      · have := retreat_steps s.idx s1
        exact ⟨by simp [retreat_idx], by simp [retreat_idx, hs], by simp only; omega, by simp, by simp⟩
    | raised => exact ⟨a1, a2, by simp only; omega, by simp, by simp⟩
    | internal => exact absurd rfl a5
    | diverged => exact absurd rfl a4

/-- `_try_parse` around any method that honours the contract under IMMEDIATE -/
theorem sound_tryParse {n : Nat} {bp : Nat → Nat} {p : P} (hp : Sound n bp p) (rt : Bool) :
    Sound n (fun r => bp r + 1) (tryParseS p rt) := by
  intro s hs
  have h1 := hp { s with lvl := .immediate } hs
  unfold tryParseS
  cases hps : p { s with lvl := .immediate } with
  | mk o s1 =>
    rw [hps] at h1
    obtain ⟨a1, a2, a3, a4, a5⟩ := h1
    simp only at a1 a2 a3 a4 a5
    have := restore_steps s s1
    cases o with
    | ret v =>
      simp only
      split
      · exact ⟨by simp [restore_idx], by simp [restore_idx, hs], by simp only; omega, by simp, by simp⟩
      · exact ⟨a1, a2, by simp only; omega, by simp, by simp⟩
    | raised => exact ⟨by simp [restore_idx], by simp [restore_idx, hs], by simp only; omega, by simp, by simp⟩
    | internal => exact absurd rfl a5
    | diverged => exact absurd rfl a4


/-! ### loops -/

theorem csv_arith {k B S2 S F r2 b2 : Nat} (h1 : r2 * (b2 + 1) ≤ k * (B + 1)) (h2 : S2 ≤ S + 1 + B)
    (h3 : F ≤ S2 + r2 * (b2 + 1)) : F ≤ S + (k + 1) * (B + 1) := by
  rw [Nat.succ_mul]; omega

/-- the `while self._match(sep)` loop of `_parse_csv` around any method that honours the contract: it needs no
    more iterations than there are tokens left (each one consumes a separator and the element never moves back) -/
theorem good_csvLoop {toks : List Tok} {sep : Tok} {bp : Nat → Nat} {p : P}
    (hp : Sound toks.length bp p) (mp : BMono bp) :
    ∀ (fuel : Nat) (acc : Val) (s : St), s.idx ≤ toks.length → toks.length - s.idx < fuel →
      Good toks.length (fun r => r * (bp r + 1)) s (csvLoop toks sep p fuel acc s) := by
  intro fuel
  induction fuel with
  | zero => intro acc s _ h; omega
  | succ fuel ih =>
    intro acc s hs hf
    unfold csvLoop
    split
    · rename_i hc
      have hlt := curr_lt hc
      have hb : (bump 1 s).idx ≤ toks.length := by simp [bump]; omega
      have h1 := hp (bump 1 s) hb
      cases hps : p (bump 1 s) with
      | mk o s2 =>
        rw [hps] at h1
        obtain ⟨a1, a2, a3, a4, a5⟩ := h1
        simp only [bump] at a1 a2 a3 a4 a5
        cases o with
        | ret v =>
          simp only
          have h2 := ih (csvAcc acc v) s2 a2 (by omega)
          obtain ⟨c1, c2, c3, c4, c5⟩ := h2
          simp only at c3
          obtain ⟨k, hk⟩ : ∃ k, toks.length - s.idx = k + 1 := ⟨toks.length - s.idx - 1, by omega⟩
          have m1 := mp (toks.length - s2.idx) (k + 1) (by omega)
          have m2 := mp (toks.length - (s.idx + 1)) (k + 1) (by omega)
          have m3 : (toks.length - s2.idx) * (bp (toks.length - s2.idx) + 1) ≤ k * (bp (k + 1) + 1) :=
            Nat.mul_le_mul (by omega) (by omega)
          refine ⟨by omega, c2, ?_, c4, c5⟩
          simp only [hk]
          exact csv_arith m3 (by omega) c3
        | raised =>
          refine ⟨by simp only; omega, a2, ?_, by simp, by simp⟩
          obtain ⟨k, hk⟩ : ∃ k, toks.length - s.idx = k + 1 := ⟨toks.length - s.idx - 1, by omega⟩
          have m2 := mp (toks.length - (s.idx + 1)) (k + 1) (by omega)
          simp only [hk, Nat.succ_mul]
          omega
        | internal => exact absurd rfl a5
        | diverged => exact absurd rfl a4
    · exact ⟨by simp, hs, by simp, by simp, by simp⟩

theorem sound_csv {toks : List Tok} {sep : Tok} {bp : Nat → Nat} {p : P} {fuel : Nat}
    (hp : Sound toks.length bp p) (mp : BMono bp) (hf : toks.length < fuel) :
    Sound toks.length (fun r => (r + 1) * (bp r + 1)) (csvS toks sep fuel p) := by
  intro s hs
  have h1 := hp s hs
  unfold csvS
  cases hps : p s with
  | mk o s1 =>
    rw [hps] at h1
    obtain ⟨a1, a2, a3, a4, a5⟩ := h1
    simp only at a1 a2 a3 a4 a5
    cases o with
    | ret v =>
      simp only
      have h2 := good_csvLoop (sep := sep) hp mp fuel (csvAcc .falsy v) s1 a2 (by omega)
      obtain ⟨c1, c2, c3, c4, c5⟩ := h2
      simp only at c3
      refine ⟨by omega, c2, ?_, c4, c5⟩
      have m1 := mp (toks.length - s1.idx) (toks.length - s.idx) (by omega)
      have m3 : (toks.length - s1.idx) * (bp (toks.length - s1.idx) + 1)
          ≤ (toks.length - s.idx) * (bp (toks.length - s.idx) + 1) := Nat.mul_le_mul (by omega) (by omega)
      simp only [Nat.succ_mul]
      omega
    | raised =>
      refine ⟨a1, a2, ?_, by simp, by simp⟩
      simp only [Nat.succ_mul]; omega
    | internal => exact absurd rfl a5
    | diverged => exact absurd rfl a4

theorem good_closeK {toks : List Tok} (w : Bool) (v : Val) (s2 : St) (h : s2.idx ≤ toks.length) :
    Good toks.length (fun _ => 1) s2 (closeK toks w v s2) := by
  unfold closeK
  split
  · split
    · rename_i hc
      have := curr_lt hc
      exact ⟨by simp [bump], by simp [bump]; omega, by simp [bump], by simp, by simp⟩
    · by_cases hl : s2.lvl = .immediate <;> simp [failS, hl, Good, h]
  · exact ⟨by simp, h, by simp, by simp, by simp⟩

theorem good_bodyK {toks : List Tok} {bp : Nat → Nat} {p : P} (hp : Sound toks.length bp p) (w : Bool) (s1 : St)
    (h : s1.idx ≤ toks.length) :
    Good toks.length (fun r => bp r + 1) s1 (bodyK toks p w s1) := by
  have h1 := hp s1 h
  unfold bodyK
  cases hps : p s1 with
  | mk o s2 =>
    rw [hps] at h1
    obtain ⟨a1, a2, a3, a4, a5⟩ := h1
    simp only at a1 a2 a3 a4 a5
    cases o with
    | ret v =>
      simp only
      obtain ⟨c1, c2, c3, c4, c5⟩ := good_closeK (toks := toks) w v s2 a2
      simp only at c3
      exact ⟨by omega, c2, by simp only; omega, c4, c5⟩
    | raised => exact ⟨a1, a2, by simp only; omega, by simp, by simp⟩
    | internal => exact absurd rfl a5
    | diverged => exact absurd rfl a4

theorem sound_wrapped {toks : List Tok} {bp : Nat → Nat} {p : P} (hp : Sound toks.length bp p) (mp : BMono bp)
    (optional : Bool) : Sound toks.length (fun r => bp r + 2) (wrappedS toks p optional) := by
  intro s hs
  unfold wrappedS
  split
  · rename_i hc
    have hlt := curr_lt hc
    have e1 : (bump 1 s).idx = s.idx + 1 := rfl
    have e2 : (bump 1 s).steps = s.steps + 1 := rfl
    have hb : (bump 1 s).idx ≤ toks.length := by omega
    obtain ⟨c1, c2, c3, c4, c5⟩ := good_bodyK hp true (bump 1 s) hb
    simp only [e1, e2] at c1 c3
    have m := mp (toks.length - (s.idx + 1)) (toks.length - s.idx) (by omega)
    exact ⟨by omega, c2, by simp only; omega, c4, c5⟩
  · split
    · obtain ⟨c1, c2, c3, c4, c5⟩ := good_bodyK hp false s hs
      simp only at c3
      exact ⟨c1, c2, by simp only; omega, c4, c5⟩
    · by_cases hl : s.lvl = .immediate
      · simp [failS, hl, Good, hs]
      · simp only [failS, hl, if_false]
        obtain ⟨c1, c2, c3, c4, c5⟩ := good_bodyK hp false { s with errs := s.errs + 1 } hs
        simp only at c1 c3
        exact ⟨c1, c2, by simp only; omega, c4, c5⟩

/-- the `while True: x = p(); if not x: break` loop around a method that consumes input whenever it reports
    success: at most (tokens left) successful rounds plus the final unsuccessful one -/
theorem good_manyLoop {n : Nat} {bp : Nat → Nat} {p : P} (hp : Sound n bp p) (mp : BMono bp) (hc : Consuming n p) :
    ∀ (fuel : Nat) (acc : Val) (s : St), s.idx ≤ n → n - s.idx < fuel →
      Good n (fun r => (r + 1) * bp r) s (manyLoop p fuel acc s) := by
  intro fuel
  induction fuel with
  | zero => intro acc s _ h; omega
  | succ fuel ih =>
    intro acc s hs hf
    have h1 := hp s hs
    unfold manyLoop
    cases hps : p s with
    | mk o s1 =>
      rw [hps] at h1
      obtain ⟨a1, a2, a3, a4, a5⟩ := h1
      simp only at a1 a2 a3 a4 a5
      cases o with
      | ret v =>
        simp only
        split
        · rename_i hv
          have hlt := hc s v s1 hs hps hv
          obtain ⟨c1, c2, c3, c4, c5⟩ := ih .truthy s1 a2 (by omega)
          simp only at c3
          refine ⟨by omega, c2, ?_, c4, c5⟩
          obtain ⟨k, hk⟩ : ∃ k, n - s.idx = k + 1 := ⟨n - s.idx - 1, by omega⟩
          have m1 := mp (n - s1.idx) (k + 1) (by omega)
          have m3 : (n - s1.idx + 1) * bp (n - s1.idx) ≤ (k + 1) * bp (k + 1) :=
            Nat.mul_le_mul (by omega) m1
          simp only [hk] at a3 ⊢
          rw [Nat.succ_mul]
          omega
        · refine ⟨a1, a2, ?_, by simp, by simp⟩
          simp only [Nat.succ_mul]; omega
      | raised =>
        refine ⟨a1, a2, ?_, by simp, by simp⟩
        simp only [Nat.succ_mul]; omega
      | internal => exact absurd rfl a5
      | diverged => exact absurd rfl a4

theorem sound_many {n : Nat} {bp : Nat → Nat} {p : P} {fuel : Nat} (hp : Sound n bp p) (mp : BMono bp)
    (hc : Consuming n p) (hf : n < fuel) : Sound n (fun r => (r + 1) * bp r) (manyS fuel p) := by
  intro s hs
  exact good_manyLoop hp mp hc fuel .falsy s hs (by omega)


/-! ### Consuming -/

theorem cons_andThen {n : Nat} {bp bq : Nat → Nat} {p q : P} (hp : Sound n bp p) (hq : Sound n bq q)
    (h : Consuming n p ∨ Consuming n q) : Consuming n (andThenS p q) := by
  intro s v s' hs hr hv
  unfold andThenS at hr
  have g1 := hp s hs
  cases hps : p s with
  | mk o s1 =>
    rw [hps] at hr g1
    obtain ⟨a1, a2, _, _, _⟩ := g1
    simp only at a1 a2
    cases o with
    | ret v1 =>
      simp only at hr
      by_cases hv1 : v1.isTruthy = true
      · simp only [hv1, if_true] at hr
        have g2 := hq s1 a2
        rw [hr] at g2
        obtain ⟨c1, _, _, _, _⟩ := g2
        simp only at c1
        cases h with
        | inl h => have := h s v1 s1 hs hps hv1; omega
        | inr h => have := h s1 v s' a2 hr hv; omega
      · simp only [hv1] at hr
        injection hr with e1 e2
        injection e1 with e1
        subst e1; simp [Val.isTruthy] at hv
    | raised => simp at hr
    | internal => simp at hr
    | diverged => simp at hr

theorem cons_orElse {n : Nat} {bp : Nat → Nat} {p q : P} (hp : Sound n bp p)
    (h1 : Consuming n p) (h2 : Consuming n q) : Consuming n (orElseS p q) := by
  intro s v s' hs hr hv
  unfold orElseS at hr
  have g1 := hp s hs
  cases hps : p s with
  | mk o s1 =>
    rw [hps] at hr g1
    obtain ⟨a1, a2, _, _, _⟩ := g1
    simp only at a1 a2
    cases o with
    | ret v1 =>
      simp only at hr
      by_cases hv1 : v1.isTruthy = true
      · simp only [hv1, if_true] at hr
        injection hr with e1 e2
        injection e1 with e1
        subst e1; subst e2
        exact h1 s v1 s1 hs hps hv1
      · simp only [hv1] at hr
        have := h2 s1 v s' a2 hr hv
        omega
    | raised => simp at hr
    | internal => simp at hr
    | diverged => simp at hr

theorem cons_attempt {n : Nat} {p : P} (h1 : Consuming n p) : Consuming n (attemptS p) := by
  intro s v s' hs hr hv
  unfold attemptS at hr
  cases hps : p s with
  | mk o s1 =>
    rw [hps] at hr
    cases o with
    | ret v1 =>
      simp only at hr
      by_cases hv1 : v1.isTruthy = true
      · simp only [hv1, if_true] at hr
        injection hr with e1 e2
        injection e1 with e1
        subst e1; subst e2
        exact h1 s v1 s1 hs hps hv1
      · simp only [hv1] at hr
        injection hr with e1 e2
        injection e1 with e1
        subst e1; exact absurd hv hv1
    | raised => simp at hr
    | internal => simp at hr
    | diverged => simp at hr

theorem cons_tryParse {n : Nat} {p : P} (h1 : Consuming n p) : Consuming n (tryParseS p false) := by
  intro s v s' hs hr hv
  unfold tryParseS at hr
  cases hps : p { s with lvl := .immediate } with
  | mk o s1 =>
    rw [hps] at hr
    cases o with
    | ret v1 =>
      simp only at hr
      injection hr with e1 e2
      injection e1 with e1
      subst e1
      simp only [hv, Bool.not_true, Bool.or_false, Bool.false_eq_true, if_false] at e2
      subst e2
      exact h1 { s with lvl := .immediate } v1 s1 hs hps hv
    | raised =>
      simp only at hr
      injection hr with e1 e2
      injection e1 with e1
      subst e1; simp [Val.isTruthy] at hv
    | internal => simp at hr
    | diverged => simp at hr

/-! ### `_match_text_seq`, the Command tail, `if _match_set(…)` dispatch, dispatch-table loops -/

theorem textSeqGo_spec (toks : List Tok) : ∀ (ts : List Tok) (s : St), s.idx ≤ toks.length →
    s.idx ≤ (textSeqGo toks ts s).2.idx ∧ (textSeqGo toks ts s).2.idx ≤ toks.length ∧
      (textSeqGo toks ts s).2.steps ≤ s.steps + ts.length ∧
      ((textSeqGo toks ts s).1 = true → (textSeqGo toks ts s).2.idx = s.idx + ts.length) := by
  intro ts
  induction ts with
  | nil => intro s hs; simp [textSeqGo, hs]
  | cons t ts ih =>
    intro s hs
    unfold textSeqGo
    split
    · rename_i hc
      have hlt := curr_lt hc
      have e1 : (bump 1 s).idx = s.idx + 1 := rfl
      have e2 : (bump 1 s).steps = s.steps + 1 := rfl
      obtain ⟨a1, a2, a3, a4⟩ := ih (bump 1 s) (by omega)
      refine ⟨by omega, a2, by simp only [List.length_cons]; omega, ?_⟩
      intro h; have := a4 h; simp only [List.length_cons]; omega
    · simp [hs]

theorem sound_textSeq (toks : List Tok) (ts : List Tok) (adv : Bool) :
    Sound toks.length (fun _ => ts.length + 1) (matchTextSeq toks ts adv) := by
  intro s hs
  obtain ⟨a1, a2, a3, _⟩ := textSeqGo_spec toks ts s hs
  unfold matchTextSeq
  cases hg : textSeqGo toks ts s with
  | mk ok s1 =>
    rw [hg] at a1 a2 a3
    simp only at a1 a2 a3
    have r1 := retreat_steps s.idx s1
    cases ok with
    | true =>
      simp only
      cases adv with
      | true => exact ⟨by simpa using a1, by simpa using a2, by simp only [if_true]; omega, by simp, by simp⟩
      | false =>
        exact ⟨by simp [retreat_idx], by simp [retreat_idx, hs], by simp only [Bool.false_eq_true, if_false]; omega,
          by simp, by simp⟩
    | false =>
      exact ⟨by simp [retreat_idx], by simp [retreat_idx, hs], by simp only; omega, by simp, by simp⟩

/-- `_match_text_seq` is Restoring: a partial match is undone -/
theorem textSeq_restoring (toks : List Tok) (ts : List Tok) (adv : Bool) : Restoring (matchTextSeq toks ts adv) := by
  intro s v s' hr hv
  unfold matchTextSeq at hr
  cases hg : textSeqGo toks ts s with
  | mk ok s1 =>
    rw [hg] at hr
    cases ok with
    | true => simp only at hr; injection hr with e1 _; injection e1 with e1; subst e1; simp [Val.isTruthy] at hv
    | false => simp only at hr; injection hr with _ e2; subst e2; exact retreat_idx _ _

theorem textSeq_still (toks : List Tok) (ts : List Tok) : Still (matchTextSeq toks ts false) := by
  intro s v s' hr
  unfold matchTextSeq at hr
  cases hg : textSeqGo toks ts s with
  | mk ok s1 =>
    rw [hg] at hr
    cases ok with
    | true =>
      simp only [Bool.false_eq_true, if_false] at hr
      injection hr with _ e2; subst e2; exact retreat_idx _ _
    | false => simp only at hr; injection hr with _ e2; subst e2; exact retreat_idx _ _

theorem textSeq_consuming (toks : List Tok) (ts : List Tok) (hne : ts.isEmpty = false) :
    Consuming toks.length (matchTextSeq toks ts true) := by
  intro s v s' hs hr hv
  obtain ⟨_, _, _, a4⟩ := textSeqGo_spec toks ts s hs
  unfold matchTextSeq at hr
  cases hg : textSeqGo toks ts s with
  | mk ok s1 =>
    rw [hg] at hr a4
    cases ok with
    | true =>
      simp only [if_true] at hr
      injection hr with _ e2; subst e2
      have := a4 rfl
      have : 0 < ts.length := by
        cases ts with
        | nil => simp at hne
        | cons _ _ => simp
      simp only at *
      omega
    | false => simp only at hr; injection hr with e1 _; injection e1 with e1; subst e1; simp [Val.isTruthy] at hv

theorem sound_restOfChunk (toks : List Tok) : Sound toks.length (fun r => r) (restOfChunk toks) := by
  intro s hs
  unfold restOfChunk Good
  simp only
  split
  · refine ⟨by simp only; omega, by simp, by simp, by simp, by simp⟩
  · exact ⟨by simp, hs, by simp, by simp, by simp⟩

/-- the Command fallback leaves nothing behind: the cursor ends exactly at the end of the chunk -/
theorem restOfChunk_idx (toks : List Tok) (s : St) (hs : s.idx ≤ toks.length) :
    (restOfChunk toks s).2.idx = toks.length ∧ (restOfChunk toks s).1 = .ret .truthy := by
  unfold restOfChunk
  simp only
  split
  · simp
  · exact ⟨by omega, by simp⟩

theorem inSet_lt' {toks : List Tok} {ts : List Tok} {i : Nat} (h : inSet ts (curr toks i) = true) :
    i < toks.length := inSet_lt h

theorem sound_ifTok {toks : List Tok} {ts : List Tok} {bp bq : Nat → Nat} {p q : P}
    (hp : Sound toks.length bp p) (hq : Sound toks.length bq q) (mp : BMono bp) :
    Sound toks.length (fun r => bp r + bq r + 1) (ifTokS toks ts p q) := by
  intro s hs
  unfold ifTokS
  split
  · rename_i hc
    have hlt := inSet_lt hc
    have e1 : (bump 1 s).idx = s.idx + 1 := rfl
    have e2 : (bump 1 s).steps = s.steps + 1 := rfl
    obtain ⟨c1, c2, c3, c4, c5⟩ := hp (bump 1 s) (by omega)
    simp only [e1, e2] at c1 c3
    have m := mp (toks.length - (s.idx + 1)) (toks.length - s.idx) (by omega)
    exact ⟨by omega, c2, by simp only; omega, c4, c5⟩
  · obtain ⟨c1, c2, c3, c4, c5⟩ := hq s hs
    exact ⟨c1, c2, by simp only; omega, c4, c5⟩

theorem cons_ifTok {toks : List Tok} {ts : List Tok} {bp : Nat → Nat} {p q : P}
    (hp : Sound toks.length bp p) (hq : Consuming toks.length q) : Consuming toks.length (ifTokS toks ts p q) := by
  intro s v s' hs hr hv
  unfold ifTokS at hr
  split at hr
  · rename_i hc
    have hlt := inSet_lt hc
    have e1 : (bump 1 s).idx = s.idx + 1 := rfl
    have g := hp (bump 1 s) (by omega)
    rw [hr] at g
    obtain ⟨c1, _, _, _, _⟩ := g
    simp only [e1] at c1
    omega
  · exact hq s v s' hs hr hv

theorem ifTok_total (toks : List Tok) (ts : List Tok) (p q : P) (hp : Total p) (hq : Total q) :
    Total (ifTokS toks ts p q) := by
  intro s v s' hr
  unfold ifTokS at hr
  split at hr
  · exact hp _ _ _ hr
  · exact hq _ _ _ hr

theorem ifTok_restoring (toks : List Tok) (ts : List Tok) (p q : P) (hp : Total p) (hq : Restoring q) :
    Restoring (ifTokS toks ts p q) := by
  intro s v s' hr hv
  unfold ifTokS at hr
  split at hr
  · have := hp _ _ _ hr; simp_all
  · exact hq _ _ _ hr hv

theorem peekAt_state (toks : List Tok) (k : Nat) (t : Tok) (g : Guard) (s : St) : (peekAt toks k t g s).2 = s := by
  unfold peekAt
  split
  · unfold lookAt; split <;> rfl
  · rfl

theorem peekAt_strict_safe (toks : List Tok) (k : Nat) (t : Tok) (s : St) :
    (peekAt toks k t .strict s).1 ≠ .internal ∧ (peekAt toks k t .strict s).1 ≠ .diverged := by
  unfold peekAt
  split
  · rename_i h
    simp only [Guard.pass, decide_eq_true_eq] at h
    unfold lookAt
    have : toks[s.idx + k]? = some toks[s.idx + k] := List.getElem?_eq_getElem h
    rw [this]
    simp
  · simp

theorem sound_peekAt (toks : List Tok) (k : Nat) (t : Tok) :
    Sound toks.length (fun _ => 0) (peekAt toks k t .strict) := by
  intro s hs
  obtain ⟨h1, h2⟩ := peekAt_strict_safe toks k t s
  have hst := peekAt_state toks k t .strict s
  exact ⟨by rw [hst]; exact Nat.le_refl _, by rw [hst]; exact hs, by rw [hst]; simp, h2, h1⟩

theorem keyOf_some_lt {toks : List Tok} {keys : List Tok} {i : Nat} {k : Tok}
    (h : keyOf keys (curr toks i) = some k) : i < toks.length := by
  cases hc : curr toks i with
  | none => simp [hc, keyOf] at h
  | some t => exact curr_lt hc

theorem table_arith {k B S0 S1 S F r1 b1 : Nat} (h0 : S0 ≤ S + 1) (h1 : S1 ≤ S0 + B)
    (h3 : F ≤ S1 + (r1 + 1) * (b1 + 1)) (h4 : (r1 + 1) * (b1 + 1) ≤ (k + 1) * (B + 1)) :
    F ≤ S + (k + 1 + 1) * (B + 1) := by
  rw [Nat.succ_mul]; omega

/-- a dispatch-table loop around ANY entries that honour the contract and make progress whenever they report success
    (automatic when the caller consumed the key; `Consuming` entries when the key was only peeked) -/
theorem good_tableLoop {toks : List Tok} {keys : List Tok} {consume : Bool} {b : Nat → Nat} {entry : Tok → P}
    (he : ∀ k, Sound toks.length b (entry k)) (mb : BMono b)
    (hprog : consume = true ∨ ∀ k, Consuming toks.length (entry k)) :
    ∀ (fuel : Nat) (acc : Val) (s : St), s.idx ≤ toks.length → toks.length - s.idx < fuel →
      Good toks.length (fun r => (r + 1) * (b r + 1)) s (tableLoop toks keys consume entry fuel acc s) := by
  intro fuel
  induction fuel with
  | zero => intro acc s _ h; omega
  | succ fuel ih =>
    intro acc s hs hf
    unfold tableLoop
    cases hk : keyOf keys (curr toks s.idx) with
    | none =>
      simp only
      exact ⟨by simp, hs, by simp, by simp, by simp⟩
    | some k =>
      simp only
      have hlt := keyOf_some_lt hk
      have hs0 : (if consume then bump 1 s else s).idx ≤ toks.length := by
        cases consume <;> simp [bump] <;> omega
      have h1 := he k (if consume then bump 1 s else s) hs0
      cases hps : entry k (if consume then bump 1 s else s) with
      | mk o s1 =>
        rw [hps] at h1
        obtain ⟨a1, a2, a3, a4, a5⟩ := h1
        simp only at a1 a2 a3 a4 a5
        have i0 : s.idx ≤ (if consume then bump 1 s else s).idx := by cases consume <;> simp [bump]
        have st0 : (if consume then bump 1 s else s).steps ≤ s.steps + 1 := by cases consume <;> simp [bump]
        obtain ⟨kk, hkk⟩ : ∃ kk, toks.length - s.idx = kk + 1 := ⟨toks.length - s.idx - 1, by omega⟩
        have m0 := mb (toks.length - (if consume then bump 1 s else s).idx) (kk + 1) (by omega)
        cases o with
        | ret v =>
          simp only
          split
          · rename_i hv
            have hprogress : s.idx < s1.idx := by
              cases hprog with
              | inl hc => subst hc; simp [bump] at a1; omega
              | inr hc => have := hc k _ v s1 hs0 hps hv; omega
            obtain ⟨c1, c2, c3, c4, c5⟩ := ih .truthy s1 a2 (by omega)
            simp only at c3
            refine ⟨by omega, c2, ?_, c4, c5⟩
            have m1 := mb (toks.length - s1.idx) (kk + 1) (by omega)
            have m3 : (toks.length - s1.idx + 1) * (b (toks.length - s1.idx) + 1) ≤ (kk + 1) * (b (kk + 1) + 1) :=
              Nat.mul_le_mul (by omega) (by omega)
            simp only [hkk]
            exact table_arith st0 (by omega) c3 m3
          · refine ⟨by simp only; omega, a2, ?_, by simp, by simp⟩
            simp only [hkk, Nat.succ_mul]; omega
        | raised =>
          refine ⟨by simp only; omega, a2, ?_, by simp, by simp⟩
          simp only [hkk, Nat.succ_mul]; omega
        | internal => exact absurd rfl a5
        | diverged => exact absurd rfl a4

theorem sound_tableLoop {toks : List Tok} {keys : List Tok} {consume : Bool} {b : Nat → Nat} {entry : Tok → P}
    {fuel : Nat} (he : ∀ k, Sound toks.length b (entry k)) (mb : BMono b)
    (hprog : consume = true ∨ ∀ k, Consuming toks.length (entry k)) (hf : toks.length < fuel) :
    Sound toks.length (fun r => (r + 1) * (b r + 1)) (tableLoopS toks keys consume fuel entry) := by
  intro s hs
  exact good_tableLoop he mb hprog fuel .falsy s hs (by omega)

theorem curr_some_lt {toks : List Tok} {i : Nat} {t : Tok} (h : curr toks i = some t) : i < toks.length := curr_lt h

theorem skipTok_spec (toks : List Tok) (s : St) (hs : s.idx ≤ toks.length) :
    s.idx ≤ (skipTok toks s).idx ∧ (skipTok toks s).idx ≤ toks.length ∧ (skipTok toks s).steps ≤ s.steps + 1 ∧
      (s.idx < toks.length → s.idx < (skipTok toks s).idx) := by
  unfold skipTok
  split
  · rename_i h
    have := curr_isSome_lt h
    simp [bump]; omega
  · rename_i h
    refine ⟨Nat.le_refl _, hs, by omega, ?_⟩
    intro hlt
    have : (curr toks s.idx).isSome = true := by
      unfold curr; simp [List.getElem?_eq_getElem hlt]
    exact absurd this h

/-- an option loop `while self._curr and not self._match(close): x = p(); …` around ANY element method that honours the
    contract and consumes input whenever it reports success, whose failure branch either consumes the offending token
    (shape 1) or breaks after raise_error (shape 2): finishes within (r+1)·(b r + 1) steps AT EVERY ERROR LEVEL -/
theorem good_optionLoop {toks : List Tok} {close : Tok} {mode : OnFail} {b : Nat → Nat} {p : P}
    (hp : Sound toks.length b p) (mb : BMono b) (hc : Consuming toks.length p) (hm : mode ≠ .relyOnRaise) :
    ∀ (fuel : Nat) (s : St), s.idx ≤ toks.length → toks.length - s.idx < fuel →
      Good toks.length (fun r => (r + 1) * (b r + 1)) s (optionLoop toks close mode p fuel s) := by
  intro fuel
  induction fuel with
  | zero => intro s _ h; omega
  | succ fuel ih =>
    intro s hs hf
    unfold optionLoop
    cases hcur : curr toks s.idx with
    | none => simp only; exact ⟨by simp, hs, by simp, by simp, by simp⟩
    | some t =>
      simp only
      have hlt := curr_lt hcur
      obtain ⟨kk, hkk⟩ : ∃ kk, toks.length - s.idx = kk + 1 := ⟨toks.length - s.idx - 1, by omega⟩
      split
      · refine ⟨by simp [bump], by simp [bump]; omega, ?_, by simp, by simp⟩
        simp only [bump, hkk, Nat.succ_mul]; omega
      · have h1 := hp s hs
        cases hps : p s with
        | mk o s1 =>
          rw [hps] at h1
          obtain ⟨a1, a2, a3, a4, a5⟩ := h1
          simp only at a1 a2 a3 a4 a5
          rw [hkk] at a3
          cases o with
          | ret v =>
            simp only
            split
            · rename_i hv
              have hprog := hc s v s1 hs hps hv
              obtain ⟨c1, c2, c3, c4, c5⟩ := ih s1 a2 (by omega)
              simp only at c3
              refine ⟨by omega, c2, ?_, c4, c5⟩
              have m1 := mb (toks.length - s1.idx) (kk + 1) (by omega)
              have m3 : (toks.length - s1.idx + 1) * (b (toks.length - s1.idx) + 1) ≤ (kk + 1) * (b (kk + 1) + 1) :=
                Nat.mul_le_mul (by omega) (by omega)
              simp only [hkk]
              exact table_arith (S0 := s.steps) (Nat.le_succ _) (by omega) c3 m3
            · cases mode with
              | skip =>
                simp only
                obtain ⟨k1, k2, k3, k4⟩ := skipTok_spec toks s1 a2
                have hprog : s.idx < (skipTok toks s1).idx := by
                  by_cases h : s1.idx < toks.length
                  · have := k4 h; omega
                  · omega
                obtain ⟨c1, c2, c3, c4, c5⟩ := ih (skipTok toks s1) k2 (by omega)
                simp only at c3
                refine ⟨by omega, c2, ?_, c4, c5⟩
                have m1 := mb (toks.length - (skipTok toks s1).idx) (kk + 1) (by omega)
                have m3 : (toks.length - (skipTok toks s1).idx + 1) * (b (toks.length - (skipTok toks s1).idx) + 1)
                    ≤ (kk + 1) * (b (kk + 1) + 1) := Nat.mul_le_mul (by omega) (by omega)
                simp only [hkk]
                have e : (kk + 1 + 1) * (b (kk + 1) + 1) = (kk + 1) * (b (kk + 1) + 1) + (b (kk + 1) + 1) := Nat.succ_mul _ _
                rw [e]; omega
              | breakAfterRaise =>
                simp only [failThen, failS]
                by_cases hl : s1.lvl = .immediate
                · simp only [hl, if_true]
                  refine ⟨a1, a2, ?_, by simp, by simp⟩
                  simp only [hkk, Nat.succ_mul]; omega
                · simp only [hl, if_false]
                  refine ⟨a1, a2, ?_, by simp, by simp⟩
                  simp only [hkk, Nat.succ_mul]; omega
              | relyOnRaise => exact absurd rfl hm
          | raised =>
            refine ⟨a1, a2, ?_, by simp, by simp⟩
            simp only [hkk, Nat.succ_mul]; omega
          | internal => exact absurd rfl a5
          | diverged => exact absurd rfl a4

theorem sound_optionLoop {toks : List Tok} {close : Tok} {mode : OnFail} {b : Nat → Nat} {p : P} {fuel : Nat}
    (hp : Sound toks.length b p) (mb : BMono b) (hc : Consuming toks.length p) (hm : mode ≠ .relyOnRaise)
    (hf : toks.length < fuel) :
    Sound toks.length (fun r => (r + 1) * (b r + 1)) (fun s => optionLoop toks close mode p fuel s) := by
  intro s hs
  exact good_optionLoop hp mb hc hm fuel s hs (by omega)

theorem bound_mono (p : Comb) : BMono p.bound := by
  induction p with
  | eps | nothing | tok | tokSet | peek | pair | anyTok | advance | fail => intro a c _; simp [Comb.bound]
  | andThen p q ihp ihq | both p q ihp ihq | orElse p q ihp ihq =>
    intro a c h; have := ihp a c h; have := ihq a c h; simp only [Comb.bound]; omega
  | attempt p ih | tryParse p rt ih | wrapped p o ih =>
    intro a c h; have := ih a c h; simp only [Comb.bound]; omega
  | csv p sep ih =>
    intro a c h; have := ih a c h; simp only [Comb.bound]
    exact Nat.mul_le_mul (by omega) (by omega)
  | many p ih =>
    intro a c h; have := ih a c h; simp only [Comb.bound]
    exact Nat.mul_le_mul (by omega) this
  | textSeq ts adv => intro a c _; simp [Comb.bound]
  | peekAt k t g => intro a c _; simp [Comb.bound]
  | restOfChunk => intro a c h; simpa [Comb.bound] using h
  | ifTok ts p q ihp ihq =>
    intro a c h; have := ihp a c h; have := ihq a c h; simp only [Comb.bound]; omega
  | tableLoop keys p cns ih =>
    intro a c h; have := ih a c h; simp only [Comb.bound]
    exact Nat.mul_le_mul (by omega) (by omega)
  | optionLoop cl p mode ih =>
    intro a c h; have := ih a c h; simp only [Comb.bound]
    exact Nat.mul_le_mul (by omega) (by omega)

/-- the whole contract for well-formed programs, by induction on the program -/
theorem run_sound (toks : List Tok) (fuel : Nat) (hf : toks.length < fuel) (p : Comb) (hw : p.wf = true) :
    Sound toks.length p.bound (run toks fuel p) ∧
      (p.consuming = true → Consuming toks.length (run toks fuel p)) := by
  induction p with
  | eps => exact ⟨sound_eps _, by simp [Comb.consuming]⟩
  | nothing =>
    refine ⟨sound_nothing _, ?_⟩
    intro _ s v s' _ hr hv
    simp [run] at hr; obtain ⟨e, _⟩ := hr; subst e; simp [Val.isTruthy] at hv
  | tok t =>
    refine ⟨sound_matchTok toks t true, ?_⟩
    intro _ s v s' _ hr hv
    simp only [run, matchTok] at hr
    split at hr
    · injection hr with _ e2; subst e2; simp [bump]
    · injection hr with e1 _; injection e1 with e1; subst e1; simp [Val.isTruthy] at hv
  | tokSet ts =>
    refine ⟨sound_matchSet toks ts, ?_⟩
    intro _ s v s' _ hr hv
    simp only [run, matchSet] at hr
    split at hr
    · injection hr with _ e2; subst e2; simp [bump]
    · injection hr with e1 _; injection e1 with e1; subst e1; simp [Val.isTruthy] at hv
  | peek t => exact ⟨sound_peek toks t, by simp [Comb.consuming]⟩
  | pair a b =>
    refine ⟨sound_matchPair toks a b, ?_⟩
    intro _ s v s' _ hr hv
    simp only [run, matchPair] at hr
    split at hr
    · injection hr with _ e2; subst e2; simp [bump]
    · injection hr with e1 _; injection e1 with e1; subst e1; simp [Val.isTruthy] at hv
  | anyTok =>
    refine ⟨sound_anyTok toks, ?_⟩
    intro _ s v s' _ hr hv
    simp only [run, anyTok] at hr
    split at hr
    · injection hr with _ e2; subst e2; simp [bump]
    · injection hr with e1 _; injection e1 with e1; subst e1; simp [Val.isTruthy] at hv
  | advance => simp [Comb.wf] at hw
  | fail =>
    refine ⟨sound_fail _, ?_⟩
    intro _ s v s' _ hr hv
    simp only [run, failS] at hr
    split at hr
    · simp at hr
    · injection hr with e1 _; injection e1 with e1; subst e1; simp [Val.isTruthy] at hv
  | andThen p q ihp ihq =>
    simp only [Comb.wf, Bool.and_eq_true] at hw
    obtain ⟨sp, cp⟩ := ihp hw.1
    obtain ⟨sq, cq⟩ := ihq hw.2
    refine ⟨sound_andThen sp sq (bound_mono q), ?_⟩
    intro hc
    simp only [Comb.consuming, Bool.or_eq_true] at hc
    exact cons_andThen sp sq (hc.elim (fun h => Or.inl (cp h)) (fun h => Or.inr (cq h)))
  | both p q ihp ihq =>
    simp only [Comb.wf, Bool.and_eq_true] at hw
    obtain ⟨sp, _⟩ := ihp hw.1
    obtain ⟨sq, _⟩ := ihq hw.2
    exact ⟨sound_both sp sq (bound_mono q), by simp [Comb.consuming]⟩
  | orElse p q ihp ihq =>
    simp only [Comb.wf, Bool.and_eq_true] at hw
    obtain ⟨sp, cp⟩ := ihp hw.1
    obtain ⟨sq, cq⟩ := ihq hw.2
    refine ⟨sound_orElse sp sq (bound_mono q), ?_⟩
    intro hc
    simp only [Comb.consuming, Bool.and_eq_true] at hc
    exact cons_orElse sp (cp hc.1) (cq hc.2)
  | attempt p ih =>
    simp only [Comb.wf] at hw
    obtain ⟨sp, cp⟩ := ih hw
    exact ⟨sound_attempt sp, fun hc => cons_attempt (cp (by simpa [Comb.consuming] using hc))⟩
  | tryParse p rt ih =>
    simp only [Comb.wf] at hw
    obtain ⟨sp, cp⟩ := ih hw
    refine ⟨sound_tryParse sp rt, ?_⟩
    intro hc
    simp only [Comb.consuming, Bool.and_eq_true, Bool.not_eq_true'] at hc
    obtain ⟨h1, h2⟩ := hc
    subst h2
    exact cons_tryParse (cp h1)
  | csv p sep ih =>
    simp only [Comb.wf] at hw
    obtain ⟨sp, _⟩ := ih hw
    exact ⟨sound_csv sp (bound_mono p) hf, by simp [Comb.consuming]⟩
  | wrapped p o ih =>
    simp only [Comb.wf] at hw
    obtain ⟨sp, _⟩ := ih hw
    exact ⟨sound_wrapped sp (bound_mono p) o, by simp [Comb.consuming]⟩
  | many p ih =>
    simp only [Comb.wf, Bool.and_eq_true] at hw
    obtain ⟨sp, cp⟩ := ih hw.1
    exact ⟨sound_many sp (bound_mono p) (cp hw.2) hf, by simp [Comb.consuming]⟩
  | textSeq ts adv =>
    refine ⟨sound_textSeq toks ts adv, ?_⟩
    intro hc
    simp only [Comb.consuming, Bool.and_eq_true, Bool.not_eq_true'] at hc
    obtain ⟨h1, h2⟩ := hc
    subst h1
    exact textSeq_consuming toks ts h2
  | restOfChunk => exact ⟨sound_restOfChunk toks, by simp [Comb.consuming]⟩
  | peekAt k t g =>
    simp only [Comb.wf, beq_iff_eq] at hw
    subst hw
    exact ⟨sound_peekAt toks k t, by simp [Comb.consuming]⟩
  | optionLoop cl p mode ih =>
    simp only [Comb.wf, Bool.and_eq_true, bne_iff_ne, ne_eq] at hw
    obtain ⟨sp, cp⟩ := ih hw.1.1
    exact ⟨sound_optionLoop sp (bound_mono p) (cp hw.1.2) hw.2 hf, by simp [Comb.consuming]⟩
  | ifTok ts p q ihp ihq =>
    simp only [Comb.wf, Bool.and_eq_true] at hw
    obtain ⟨sp, _⟩ := ihp hw.1
    obtain ⟨sq, cq⟩ := ihq hw.2
    exact ⟨sound_ifTok sp sq (bound_mono p), fun hc => cons_ifTok sp (cq (by simpa [Comb.consuming] using hc))⟩
  | tableLoop keys p cns ih =>
    simp only [Comb.wf, Bool.and_eq_true, Bool.or_eq_true] at hw
    obtain ⟨sp, cp⟩ := ih hw.1
    refine ⟨sound_tableLoop (entry := fun _ => run toks fuel p) (fun _ => sp) (bound_mono p) ?_ hf, by simp [Comb.consuming]⟩
    cases hw.2 with
    | inl h => exact Or.inl h
    | inr h => exact Or.inr (fun _ => cp h)


/-! ### Restoring / Still / Total (no contract needed: these hold for every program and every fuel) -/

/-- `_try_parse` restores the cursor whenever its result is falsy — whatever the wrapped method does -/
theorem tryParse_restoring (p : P) (rt : Bool) : Restoring (tryParseS p rt) := by
  intro s v s' hr hv
  unfold tryParseS at hr
  cases hps : p { s with lvl := .immediate } with
  | mk o s1 =>
    rw [hps] at hr
    cases o with
    | ret v1 =>
      simp only at hr
      injection hr with e1 e2
      injection e1 with e1
      subst e1
      simp only [hv, Bool.not_false, Bool.true_or, if_true] at e2
      subst e2; exact restore_idx s s1
    | raised =>
      simp only at hr
      injection hr with _ e2
      subst e2; exact restore_idx s s1
    | internal => simp at hr
    | diverged => simp at hr

/-- `_try_parse(…, retreat=True)` never moves the cursor -/
theorem tryParse_retreat_still (p : P) : Still (tryParseS p true) := by
  intro s v s' hr
  unfold tryParseS at hr
  cases hps : p { s with lvl := .immediate } with
  | mk o s1 =>
    rw [hps] at hr
    cases o with
    | ret v1 =>
      simp only [Bool.or_true, if_true] at hr
      injection hr with _ e2
      subst e2; exact restore_idx s s1
    | raised =>
      simp only at hr
      injection hr with _ e2
      subst e2; exact restore_idx s s1
    | internal => simp at hr
    | diverged => simp at hr

/-- `_try_parse` hands the error level back as it found it, on every path that returns or leaks -/
theorem tryParse_level (p : P) (rt : Bool) :
    ∀ s o s', tryParseS p rt s = (o, s') → o ≠ .diverged → s'.lvl = s.lvl := by
  intro s o s' hr hd
  unfold tryParseS at hr
  cases hps : p { s with lvl := .immediate } with
  | mk o1 s1 =>
    rw [hps] at hr
    cases o1 with
    | ret v1 =>
      simp only at hr
      injection hr with _ e2
      subst e2
      split <;> simp [restore]
    | raised => simp only at hr; injection hr with _ e2; subst e2; simp [restore]
    | internal => simp only at hr; injection hr with _ e2; subst e2; simp [restore]
    | diverged => simp only at hr; injection hr with e1 _; exact absurd e1.symm hd

theorem tryParse_still (p : P) (rt : Bool) (h : Still p) : Still (tryParseS p rt) := by
  intro s v s' hr
  unfold tryParseS at hr
  cases hps : p { s with lvl := .immediate } with
  | mk o s1 =>
    rw [hps] at hr
    cases o with
    | ret v1 =>
      simp only at hr
      injection hr with _ e2
      subst e2
      split
      · exact restore_idx s s1
      · have := h _ _ _ hps; simpa using this
    | raised =>
      simp only at hr
      injection hr with _ e2
      subst e2; exact restore_idx s s1
    | internal => simp at hr
    | diverged => simp at hr

theorem attempt_restoring (p : P) : Restoring (attemptS p) := by
  intro s v s' hr hv
  unfold attemptS at hr
  cases hps : p s with
  | mk o s1 =>
    rw [hps] at hr
    cases o with
    | ret v1 =>
      simp only at hr
      split at hr
      · injection hr with e1 _; injection e1 with e1; subst e1; simp_all
      · injection hr with _ e2; subst e2; exact retreat_idx _ _
    | raised => simp at hr
    | internal => simp at hr
    | diverged => simp at hr

theorem attempt_still (p : P) (h : Still p) : Still (attemptS p) := by
  intro s v s' hr
  unfold attemptS at hr
  cases hps : p s with
  | mk o s1 =>
    rw [hps] at hr
    cases o with
    | ret v1 =>
      simp only at hr
      split at hr
      · injection hr with _ e2; subst e2; exact h _ _ _ hps
      · injection hr with _ e2; subst e2; exact retreat_idx _ _
    | raised => simp at hr
    | internal => simp at hr
    | diverged => simp at hr

theorem attempt_total (p : P) (h : Total p) : Total (attemptS p) := by
  intro s v s' hr
  unfold attemptS at hr
  cases hps : p s with
  | mk o s1 =>
    rw [hps] at hr
    cases o with
    | ret v1 =>
      have hv1 := h _ _ _ hps
      simp only [hv1, if_true] at hr
      injection hr with e1 _; injection e1 with e1; subst e1; exact hv1
    | raised => simp at hr
    | internal => simp at hr
    | diverged => simp at hr

theorem andThen_restoring (p q : P) (hp : Restoring p) (h : Total q ∨ (Still p ∧ Restoring q)) :
    Restoring (andThenS p q) := by
  intro s v s' hr hv
  unfold andThenS at hr
  cases hps : p s with
  | mk o s1 =>
    rw [hps] at hr
    cases o with
    | ret v1 =>
      simp only at hr
      split at hr
      · cases h with
        | inl ht => have := ht _ _ _ hr; simp_all
        | inr hh =>
          have e1 := hh.1 _ _ _ hps
          have e2 := hh.2 _ _ _ hr hv
          omega
      · rename_i hv1
        injection hr with _ e2; subst e2
        exact hp _ _ _ hps (by simpa using hv1)
    | raised => simp at hr
    | internal => simp at hr
    | diverged => simp at hr

theorem andThen_still (p q : P) (hp : Still p) (hq : Still q) : Still (andThenS p q) := by
  intro s v s' hr
  unfold andThenS at hr
  cases hps : p s with
  | mk o s1 =>
    rw [hps] at hr
    cases o with
    | ret v1 =>
      simp only at hr
      have e1 := hp _ _ _ hps
      split at hr
      · have e2 := hq _ _ _ hr; omega
      · injection hr with _ e2; subst e2; exact e1
    | raised => simp at hr
    | internal => simp at hr
    | diverged => simp at hr

theorem andThen_total (p q : P) (hp : Total p) (hq : Total q) : Total (andThenS p q) := by
  intro s v s' hr
  unfold andThenS at hr
  cases hps : p s with
  | mk o s1 =>
    rw [hps] at hr
    cases o with
    | ret v1 =>
      have hv1 := hp _ _ _ hps
      simp only [hv1, if_true] at hr
      exact hq _ _ _ hr
    | raised => simp at hr
    | internal => simp at hr
    | diverged => simp at hr

theorem bothK_ret (q : P) (s1 : St) (v : Val) (s' : St) (h : bothK q s1 = (.ret v, s')) :
    v = .truthy ∧ ∃ v2, q s1 = (.ret v2, s') := by
  unfold bothK at h
  cases hqs : q s1 with
  | mk o s2 =>
    rw [hqs] at h
    cases o with
    | ret v2 =>
      simp only at h
      injection h with e1 e2; injection e1 with e1
      exact ⟨e1.symm, v2, by rw [e2]⟩
    | raised => simp at h
    | internal => simp at h
    | diverged => simp at h

theorem both_total (p q : P) : Total (bothS p q) := by
  intro s v s' hr
  unfold bothS at hr
  cases hps : p s with
  | mk o s1 =>
    rw [hps] at hr
    cases o with
    | ret v1 =>
      simp only at hr
      have := (bothK_ret q s1 v s' hr).1
      subst this; rfl
    | raised => simp at hr
    | internal => simp at hr
    | diverged => simp at hr

theorem both_still (p q : P) (hp : Still p) (hq : Still q) : Still (bothS p q) := by
  intro s v s' hr
  unfold bothS at hr
  cases hps : p s with
  | mk o s1 =>
    rw [hps] at hr
    cases o with
    | ret v1 =>
      simp only at hr
      obtain ⟨_, v2, h2⟩ := bothK_ret q s1 v s' hr
      have e1 := hp _ _ _ hps
      have e2 := hq _ _ _ h2
      omega
    | raised => simp at hr
    | internal => simp at hr
    | diverged => simp at hr

theorem orElse_restoring (p q : P) (hp : Restoring p) (hq : Restoring q) : Restoring (orElseS p q) := by
  intro s v s' hr hv
  unfold orElseS at hr
  cases hps : p s with
  | mk o s1 =>
    rw [hps] at hr
    cases o with
    | ret v1 =>
      simp only at hr
      split at hr
      · injection hr with e1 _; injection e1 with e1; subst e1; simp_all
      · rename_i hv1
        have e1 := hp _ _ _ hps (by simpa using hv1)
        have e2 := hq _ _ _ hr hv
        omega
    | raised => simp at hr
    | internal => simp at hr
    | diverged => simp at hr

theorem orElse_still (p q : P) (hp : Still p) (hq : Still q) : Still (orElseS p q) := by
  intro s v s' hr
  unfold orElseS at hr
  cases hps : p s with
  | mk o s1 =>
    rw [hps] at hr
    cases o with
    | ret v1 =>
      simp only at hr
      have e1 := hp _ _ _ hps
      split at hr
      · injection hr with _ e2; subst e2; exact e1
      · have e2 := hq _ _ _ hr; omega
    | raised => simp at hr
    | internal => simp at hr
    | diverged => simp at hr

theorem orElse_total (p q : P) (hq : Total q) : Total (orElseS p q) := by
  intro s v s' hr
  unfold orElseS at hr
  cases hps : p s with
  | mk o s1 =>
    rw [hps] at hr
    cases o with
    | ret v1 =>
      simp only at hr
      split at hr
      · rename_i hv1; injection hr with e1 _; injection e1 with e1; subst e1; exact hv1
      · exact hq _ _ _ hr
    | raised => simp at hr
    | internal => simp at hr
    | diverged => simp at hr

theorem closeK_val (toks : List Tok) (w : Bool) (v v' : Val) (s2 s' : St)
    (h : closeK toks w v s2 = (.ret v', s')) : v' = v := by
  unfold closeK at h
  split at h
  · split at h
    · injection h with e1 _; injection e1 with e1; exact e1.symm
    · by_cases hl : s2.lvl = .immediate
      · simp [failS, hl] at h
      · simp only [failS, hl, if_false] at h; injection h with e1 _; injection e1 with e1; exact e1.symm
  · injection h with e1 _; injection e1 with e1; exact e1.symm

theorem bodyK_total (toks : List Tok) (p : P) (hp : Total p) (w : Bool) (s1 : St) (v : Val) (s' : St)
    (h : bodyK toks p w s1 = (.ret v, s')) : v.isTruthy = true := by
  unfold bodyK at h
  cases hps : p s1 with
  | mk o s2 =>
    rw [hps] at h
    cases o with
    | ret v2 =>
      simp only at h
      have := closeK_val _ _ _ _ _ _ h
      subst this
      exact hp _ _ _ hps
    | raised => simp at h
    | internal => simp at h
    | diverged => simp at h

theorem wrapped_total (toks : List Tok) (p : P) (o : Bool) (hp : Total p) : Total (wrappedS toks p o) := by
  intro s v s' hr
  unfold wrappedS at hr
  split at hr
  · exact bodyK_total _ _ hp _ _ _ _ hr
  · split at hr
    · exact bodyK_total _ _ hp _ _ _ _ hr
    · by_cases hl : s.lvl = .immediate
      · simp [failS, hl] at hr
      · simp only [failS, hl, if_false] at hr
        exact bodyK_total _ _ hp _ _ _ _ hr

theorem run_still (toks : List Tok) (fuel : Nat) (p : Comb) (h : p.still = true) : Still (run toks fuel p) := by
  induction p with
  | eps | nothing =>
    intro s v s' hr; simp [run] at hr; rw [hr.2]
  | peek t =>
    intro s v s' hr; simp only [run, matchTok] at hr
    split at hr <;> (injection hr with _ e2; subst e2; simp)
  | fail =>
    intro s v s' hr; simp only [run, failS] at hr
    split at hr
    · simp at hr
    · injection hr with _ e2; subst e2; rfl
  | tok | tokSet | pair | anyTok | advance | csv | wrapped | many | restOfChunk | ifTok | tableLoop | optionLoop =>
    simp [Comb.still] at h
  | textSeq ts adv =>
    simp only [Comb.still, Bool.not_eq_true'] at h
    subst h
    exact textSeq_still toks ts
  | peekAt k t g =>
    intro s v s' hr
    have := peekAt_state toks k t g s
    simp only [run] at hr
    rw [hr] at this
    simp only at this
    rw [this]
  | andThen p q ihp ihq =>
    simp only [Comb.still, Bool.and_eq_true] at h
    exact andThen_still _ _ (ihp h.1) (ihq h.2)
  | both p q ihp ihq =>
    simp only [Comb.still, Bool.and_eq_true] at h
    exact both_still _ _ (ihp h.1) (ihq h.2)
  | orElse p q ihp ihq =>
    simp only [Comb.still, Bool.and_eq_true] at h
    exact orElse_still _ _ (ihp h.1) (ihq h.2)
  | attempt p ih =>
    simp only [Comb.still] at h
    exact attempt_still _ (ih h)
  | tryParse p rt ih =>
    simp only [Comb.still, Bool.or_eq_true] at h
    cases h with
    | inl h => subst h; exact tryParse_retreat_still _
    | inr h => exact tryParse_still _ _ (ih h)

theorem run_total_val (toks : List Tok) (fuel : Nat) (p : Comb) (h : p.total = true) : Total (run toks fuel p) := by
  induction p with
  | eps => intro s v s' hr; simp [run] at hr; rw [← hr.1]; rfl
  | both p q _ _ => exact both_total _ _
  | andThen p q ihp ihq =>
    simp only [Comb.total, Bool.and_eq_true] at h
    exact andThen_total _ _ (ihp h.1) (ihq h.2)
  | orElse p q _ ihq =>
    simp only [Comb.total] at h
    exact orElse_total _ _ (ihq h)
  | attempt p ih =>
    simp only [Comb.total] at h
    exact attempt_total _ (ih h)
  | wrapped p o ih =>
    simp only [Comb.total] at h
    exact wrapped_total _ _ _ (ih h)
  | nothing | tok | tokSet | peek | pair | anyTok | advance | fail | tryParse | csv | many | textSeq | tableLoop | peekAt | optionLoop =>
    simp [Comb.total] at h
  | restOfChunk =>
    intro s v s' hr; simp only [run, restOfChunk] at hr
    injection hr with e1 _; injection e1 with e1; subst e1; rfl
  | ifTok ts p q ihp ihq =>
    simp only [Comb.total, Bool.and_eq_true] at h
    exact ifTok_total _ _ _ _ (ihp h.1) (ihq h.2)

theorem leaf_restoring_match (toks : List Tok) (t : Tok) (adv : Bool) : Restoring (matchTok toks t adv) := by
  intro s v s' hr hv
  simp only [matchTok] at hr
  split at hr
  · injection hr with e1 _; injection e1 with e1; subst e1; simp [Val.isTruthy] at hv
  · injection hr with _ e2; subst e2; rfl

theorem run_restoring (toks : List Tok) (fuel : Nat) (p : Comb) (h : p.restoring = true) :
    Restoring (run toks fuel p) := by
  induction p with
  | eps | nothing => intro s v s' hr _; simp [run] at hr; rw [hr.2]
  | tok t => exact leaf_restoring_match toks t true
  | peek t => exact leaf_restoring_match toks t false
  | tokSet ts =>
    intro s v s' hr hv
    simp only [run, matchSet] at hr
    split at hr
    · injection hr with e1 _; injection e1 with e1; subst e1; simp [Val.isTruthy] at hv
    · injection hr with _ e2; subst e2; rfl
  | pair a b =>
    intro s v s' hr hv
    simp only [run, matchPair] at hr
    split at hr
    · injection hr with e1 _; injection e1 with e1; subst e1; simp [Val.isTruthy] at hv
    · injection hr with _ e2; subst e2; rfl
  | anyTok =>
    intro s v s' hr hv
    simp only [run, anyTok] at hr
    split at hr
    · injection hr with e1 _; injection e1 with e1; subst e1; simp [Val.isTruthy] at hv
    · injection hr with _ e2; subst e2; rfl
  | fail =>
    intro s v s' hr _; simp only [run, failS] at hr
    split at hr
    · simp at hr
    · injection hr with _ e2; subst e2; rfl
  | advance | csv | wrapped | many | tableLoop | optionLoop => simp [Comb.restoring] at h
  | textSeq ts adv => exact textSeq_restoring toks ts adv
  | peekAt k t g =>
    intro s v s' hr _
    have := peekAt_state toks k t g s
    simp only [run] at hr
    rw [hr] at this
    simp only at this
    rw [this]
  | restOfChunk =>
    intro s v s' hr hv; simp only [run, restOfChunk] at hr
    injection hr with e1 _; injection e1 with e1; subst e1; simp [Val.isTruthy] at hv
  | ifTok ts p q _ ihq =>
    simp only [Comb.restoring, Bool.and_eq_true] at h
    exact ifTok_restoring _ _ _ _ (run_total_val toks fuel p h.1) (ihq h.2)
  | andThen p q ihp ihq =>
    simp only [Comb.restoring, Bool.and_eq_true, Bool.or_eq_true] at h
    refine andThen_restoring _ _ (ihp h.1) ?_
    cases h.2 with
    | inl ht => exact Or.inl (run_total_val toks fuel q ht)
    | inr hh => exact Or.inr ⟨run_still toks fuel p hh.1, ihq hh.2⟩
  | both p q _ _ =>
    intro s v s' hr hv
    have := both_total _ _ _ _ _ hr
    simp_all
  | orElse p q ihp ihq =>
    simp only [Comb.restoring, Bool.and_eq_true] at h
    exact orElse_restoring _ _ (ihp h.1) (ihq h.2)
  | attempt p _ => exact attempt_restoring _
  | tryParse p rt _ => exact tryParse_restoring _ _

/-! ### the bound is a polynomial: degree = loop nesting depth -/

theorem one_le_pow (r d : Nat) : 1 ≤ (r + 1) ^ d := Nat.pow_pos (by omega)

theorem bound_le_poly (p : Comb) (r : Nat) : p.bound r ≤ p.coeff * (r + 1) ^ p.depth := by
  induction p with
  | eps | nothing | peek | fail => simp [Comb.bound]
  | tok | tokSet | pair | anyTok | advance => simp [Comb.bound, Comb.coeff, Comb.depth]
  | andThen p q ihp ihq | both p q ihp ihq | orElse p q ihp ihq =>
    simp only [Comb.bound, Comb.coeff, Comb.depth]
    have h1 : (r + 1) ^ p.depth ≤ (r + 1) ^ max p.depth q.depth :=
      Nat.pow_le_pow_right (by omega) (Nat.le_max_left _ _)
    have h2 : (r + 1) ^ q.depth ≤ (r + 1) ^ max p.depth q.depth :=
      Nat.pow_le_pow_right (by omega) (Nat.le_max_right _ _)
    have h3 := Nat.mul_le_mul_left p.coeff h1
    have h4 := Nat.mul_le_mul_left q.coeff h2
    rw [Nat.add_mul]
    omega
  | attempt p ih | tryParse p rt ih =>
    simp only [Comb.bound, Comb.coeff, Comb.depth]
    have := one_le_pow r p.depth
    rw [Nat.add_mul]; omega
  | wrapped p o ih =>
    simp only [Comb.bound, Comb.coeff, Comb.depth]
    have := one_le_pow r p.depth
    rw [Nat.add_mul]; omega
  | csv p sep ih =>
    simp only [Comb.bound, Comb.coeff, Comb.depth]
    have h1 := one_le_pow r p.depth
    have h2 : p.bound r + 1 ≤ (p.coeff + 1) * (r + 1) ^ p.depth := by rw [Nat.add_mul]; omega
    calc (r + 1) * (p.bound r + 1) ≤ (r + 1) * ((p.coeff + 1) * (r + 1) ^ p.depth) := Nat.mul_le_mul_left _ h2
      _ = (p.coeff + 1) * (r + 1) ^ (p.depth + 1) := by
        rw [Nat.pow_succ, Nat.mul_comm (r + 1), Nat.mul_assoc]
  | many p ih =>
    simp only [Comb.bound, Comb.coeff, Comb.depth]
    calc (r + 1) * p.bound r ≤ (r + 1) * (p.coeff * (r + 1) ^ p.depth) := Nat.mul_le_mul_left _ ih
      _ = p.coeff * (r + 1) ^ (p.depth + 1) := by
        rw [Nat.pow_succ, Nat.mul_comm (r + 1), Nat.mul_assoc]
  | textSeq ts adv => simp [Comb.bound, Comb.coeff, Comb.depth]
  | peekAt k t g => simp [Comb.bound]
  | restOfChunk => simp [Comb.bound, Comb.coeff, Comb.depth]
  | ifTok ts p q ihp ihq =>
    simp only [Comb.bound, Comb.coeff, Comb.depth]
    have h1 : (r + 1) ^ p.depth ≤ (r + 1) ^ max p.depth q.depth :=
      Nat.pow_le_pow_right (by omega) (Nat.le_max_left _ _)
    have h2 : (r + 1) ^ q.depth ≤ (r + 1) ^ max p.depth q.depth :=
      Nat.pow_le_pow_right (by omega) (Nat.le_max_right _ _)
    have h3 := Nat.mul_le_mul_left p.coeff h1
    have h4 := Nat.mul_le_mul_left q.coeff h2
    have h5 := one_le_pow r (max p.depth q.depth)
    rw [Nat.add_mul, Nat.add_mul]
    omega
  | optionLoop cl p mode ih =>
    simp only [Comb.bound, Comb.coeff, Comb.depth]
    have h1 := one_le_pow r p.depth
    have h2 : p.bound r + 1 ≤ (p.coeff + 1) * (r + 1) ^ p.depth := by rw [Nat.add_mul]; omega
    calc (r + 1) * (p.bound r + 1) ≤ (r + 1) * ((p.coeff + 1) * (r + 1) ^ p.depth) := Nat.mul_le_mul_left _ h2
      _ = (p.coeff + 1) * (r + 1) ^ (p.depth + 1) := by
        rw [Nat.pow_succ, Nat.mul_comm (r + 1), Nat.mul_assoc]
  | tableLoop keys p cns ih =>
    simp only [Comb.bound, Comb.coeff, Comb.depth]
    have h1 := one_le_pow r p.depth
    have h2 : p.bound r + 1 ≤ (p.coeff + 1) * (r + 1) ^ p.depth := by rw [Nat.add_mul]; omega
    calc (r + 1) * (p.bound r + 1) ≤ (r + 1) * ((p.coeff + 1) * (r + 1) ^ p.depth) := Nat.mul_le_mul_left _ h2
      _ = (p.coeff + 1) * (r + 1) ^ (p.depth + 1) := by
        rw [Nat.pow_succ, Nat.mul_comm (r + 1), Nat.mul_assoc]

end SqlglotModel.Cursor
